import PermutaModel.Lemmas.C12RSKRow
/-! C12 / RSK, part 2: the tableau invariants of the model's row insertion.

`Dom top bot` is column strictness of two adjacent rows; `TabOK` chains it through the tableau.
`tabOK_tabIns`: the tableau of a duplicate-free word has non-empty strictly increasing rows, each
dominated by the one above; `tabIns_flatten_perm`: its entries are the word's. -/
open Model List

namespace C12

/-- `bot` is not longer than `top` and entrywise larger -/
def Dom : List Nat → List Nat → Prop
  | _, [] => True
  | [], _ :: _ => False
  | a :: ta, b :: tb => a < b ∧ Dom ta tb

theorem dom_cons_cons (a b : Nat) (ta tb : List Nat) : Dom (a :: ta) (b :: tb) ↔ a < b ∧ Dom ta tb := Iff.rfl

theorem dom_nil (R : List Nat) : Dom R [] := by cases R <;> trivial

theorem Dom.length_le : ∀ {R S : List Nat}, Dom R S → S.length ≤ R.length
  | _, [], _ => Nat.zero_le _
  | [], _ :: _, h => h.elim
  | _ :: _, _ :: _, h => by simp only [List.length_cons]; exact Nat.succ_le_succ (Dom.length_le h.2)

theorem Dom.getD_lt : ∀ {R S : List Nat}, Dom R S → ∀ j, j < S.length →
    j < R.length ∧ R.getD j 0 < S.getD j 0
  | _, [], _, j, hj => by simp at hj
  | [], _ :: _, h, _, _ => h.elim
  | a :: ta, b :: tb, h, 0, _ => by simp; exact h.1
  | a :: ta, b :: tb, h, j + 1, hj => by
    have := Dom.getD_lt h.2 j (by simpa using hj)
    simp only [List.length_cons, List.getD_cons_succ]
    exact ⟨by omega, this.2⟩

/-- the upper row may receive a new value -/
theorem dom_rIns_top : ∀ (R S : List Nat) (x : Nat), Dom R S → Dom (rIns R x).1 S
  | [], [], _, _ => dom_nil _
  | [], _ :: _, _, h => h.elim
  | c :: t, [], _, _ => dom_nil _
  | c :: t, b :: tb, x, h => by
    unfold rIns
    split
    · rename_i hc; exact ⟨Nat.lt_trans hc h.1, h.2⟩
    · exact ⟨h.1, dom_rIns_top t tb x h.2⟩

/-- **the bumping step keeps the columns increasing**: the entry bumped out of the upper row is
    inserted into the lower row -/
theorem dom_step : ∀ (R S : List Nat) (x c : Nat), R.Pairwise (· < ·) → Dom R S →
    (rIns R x).2 = some c → Dom (rIns R x).1 (rIns S c).1
  | [], _, _, _, _, _, h => by simp [rIns] at h
  | a :: ta, S, x, c, hs, hd, hb => by
    rw [List.pairwise_cons] at hs
    by_cases hxa : x < a
    · rw [rIns_cons_lt _ _ _ hxa] at hb ⊢
      simp only [Option.some.injEq] at hb
      subst hb
      cases S with
      | nil => rw [rIns_nil, dom_cons_cons]; exact ⟨hxa, dom_nil _⟩
      | cons b tb =>
        rw [rIns_cons_lt _ _ _ hd.1, dom_cons_cons]
        exact ⟨hxa, hd.2⟩
    · rw [rIns_cons_ge _ _ _ hxa] at hb ⊢
      simp only at hb
      have hac : a < c := hs.1 c (bump_mem ta x c hb).1
      cases S with
      | nil => rw [rIns_nil, dom_cons_cons]; exact ⟨hac, dom_nil _⟩
      | cons b tb =>
        by_cases hcb : c < b
        · rw [rIns_cons_lt _ _ _ hcb, dom_cons_cons]
          exact ⟨hac, dom_rIns_top ta tb x hd.2⟩
        · rw [rIns_cons_ge _ _ _ hcb, dom_cons_cons]
          exact ⟨hd.1, dom_step ta tb x c hs.2 hd.2 hb⟩

/-- the first row dominates the second row -/
theorem dom_rowOf (w : List Nat) (h : w.Nodup) : Dom (rowOf w) (rowOf (bumpsOf w)) := by
  induction w using List.reverseRecOn with
  | nil => exact dom_nil _
  | append_singleton v x ih =>
    have hv : v.Nodup := (List.nodup_append.mp h).1
    rw [rowOf_snoc, bumpsOf_snoc]
    cases hb : (rIns (rowOf v) x).2 with
    | none =>
      simp only [Option.toList, List.append_nil]
      exact dom_rIns_top _ _ x (ih hv)
    | some c =>
      simp only [Option.toList]
      rw [rowOf_snoc]
      exact dom_step _ _ x c (rowOf_sorted v hv) (ih hv) hb

/-- non-empty strictly increasing rows, each dominated by the one above -/
def TabOK : List (List Nat) → Prop
  | [] => True
  | r :: t => r ≠ [] ∧ r.Pairwise (· < ·) ∧ Dom r (t.headD []) ∧ TabOK t

theorem tabIns_headD (u : List Nat) : (tabIns [] u).headD [] = rowOf u := by
  by_cases h : u = []
  · subst h; rfl
  · rw [tabIns_rec u h]; rfl

theorem tabIns_nil_iff (u : List Nat) : tabIns [] u = [] ↔ u = [] := by
  constructor
  · intro h
    by_contra hne
    rw [tabIns_rec u hne] at h; cases h
  · intro h; subst h; rfl

/-- **tableau invariants** of the model's insertion, every duplicate-free word -/
theorem tabOK_tabIns : ∀ (n : Nat) (w : List Nat), w.length ≤ n → w.Nodup → TabOK (tabIns [] w)
  | 0, w, hl, _ => by
    have : w = [] := List.eq_nil_of_length_eq_zero (by omega)
    subst this; trivial
  | n + 1, w, hl, hnd => by
    by_cases hw : w = []
    · subst hw; trivial
    · rw [tabIns_rec w hw]
      refine ⟨rowOf_ne_nil w hw, rowOf_sorted w hnd, ?_, ?_⟩
      · rw [tabIns_headD]; exact dom_rowOf w hnd
      · exact tabOK_tabIns n _ (by have := bumpsOf_length_lt w hw; omega) (bumpsOf_nodup w hnd)

/-- the entries of the tableau are the entries of the word -/
theorem tabIns_flatten_perm : ∀ (n : Nat) (w : List Nat), w.length ≤ n → (tabIns [] w).flatten ~ w
  | 0, w, hl => by
    have : w = [] := List.eq_nil_of_length_eq_zero (by omega)
    subst this; exact List.Perm.refl _
  | n + 1, w, hl => by
    by_cases hw : w = []
    · subst hw; exact List.Perm.refl _
    · rw [tabIns_rec w hw, List.flatten_cons]
      have ih := tabIns_flatten_perm n (bumpsOf w) (by have := bumpsOf_length_lt w hw; omega)
      exact (List.Perm.append_left _ ih).trans (rowOf_bumpsOf_perm w)

/-! ### reading the invariants off `TabOK` -/

theorem TabOK.tail {r : List Nat} {t : List (List Nat)} (h : TabOK (r :: t)) : TabOK t := h.2.2.2

theorem TabOK.row_sorted : ∀ {T : List (List Nat)}, TabOK T → ∀ r ∈ T, r.Pairwise (· < ·)
  | [], _, _, hr => by cases hr
  | r0 :: t, h, r, hr => by
    rcases List.mem_cons.mp hr with e | e
    · subst e; exact h.2.1
    · exact TabOK.row_sorted h.tail r e

theorem TabOK.row_ne_nil : ∀ {T : List (List Nat)}, TabOK T → ∀ r ∈ T, r ≠ []
  | [], _, _, hr => by cases hr
  | r0 :: t, h, r, hr => by
    rcases List.mem_cons.mp hr with e | e
    · subst e; exact h.1
    · exact TabOK.row_ne_nil h.tail r e

theorem TabOK.dom_at : ∀ {T : List (List Nat)}, TabOK T → ∀ i, i + 1 < T.length →
    Dom (T.getD i []) (T.getD (i + 1) [])
  | [], _, _, hi => by simp at hi
  | [r0], _, _, hi => by simp at hi
  | r0 :: r1 :: t, h, 0, _ => by simpa using h.2.2.1
  | r0 :: r1 :: t, h, i + 1, hi => by
    have := TabOK.dom_at h.tail i (by simpa using hi)
    simpa using this

/-- every lower row is at most as long as the first one -/
theorem TabOK.length_le_head : ∀ {T : List (List Nat)} {r0 : List Nat}, TabOK (r0 :: T) →
    ∀ r ∈ T, r.length ≤ r0.length
  | [], _, _, _, hr => by cases hr
  | r1 :: t, r0, h, r, hr => by
    have h01 : r1.length ≤ r0.length := by
      have := h.2.2.1; simp only [List.headD_cons] at this; exact this.length_le
    rcases List.mem_cons.mp hr with e | e
    · subst e; exact h01
    · exact Nat.le_trans (TabOK.length_le_head h.tail r e) h01

theorem TabOK.lengths_antitone : ∀ {T : List (List Nat)}, TabOK T →
    (T.map List.length).Pairwise (· ≥ ·)
  | [], _ => by simp
  | r0 :: t, h => by
    rw [List.map_cons, List.pairwise_cons]
    refine ⟨?_, TabOK.lengths_antitone h.tail⟩
    intro m hm
    obtain ⟨r, hr, e⟩ := List.mem_map.mp hm
    subst e
    exact TabOK.length_le_head h r hr

/-! ### counting: hooks -/

theorem sum_length_flatten (T : List (List Nat)) : (T.map List.length).sum = T.flatten.length := by
  rw [List.length_flatten]

/-- lower rows: at least one cell each, at most `a` cells each; exactly one cell each iff the first of
    them has at most one cell -/
theorem lower_rows_count : ∀ (T : List (List Nat)) (a : Nat), (∀ r ∈ T, r ≠ []) →
    (∀ r ∈ T, r.length ≤ a) → (T.map List.length).Pairwise (· ≥ ·) →
    T.length ≤ T.flatten.length ∧ T.flatten.length ≤ a * T.length ∧
      (T.flatten.length = T.length ↔ (T.headD []).length ≤ 1)
  | [], _, _, _, _ => by simp
  | r :: t, a, hne, hle, hp => by
    rw [List.map_cons, List.pairwise_cons] at hp
    obtain ⟨h1, h2, h3⟩ := lower_rows_count t a (fun r hr => hne r (List.mem_cons_of_mem _ hr))
      (fun r hr => hle r (List.mem_cons_of_mem _ hr)) hp.2
    have hr1 : 1 ≤ r.length := by
      have := hne r (by simp)
      cases r with
      | nil => exact absurd rfl this
      | cons _ _ => simp
    have hra : r.length ≤ a := hle r (by simp)
    simp only [List.flatten_cons, List.length_append, List.length_cons, List.headD_cons]
    refine ⟨by omega, ?_, ?_⟩
    · rw [Nat.mul_succ]; omega
    · constructor
      · intro e; omega
      · intro e
        have hr : r.length = 1 := by omega
        -- all rows of `t` have length ≤ 1, so the head of `t` has
        have : (t.headD []).length ≤ 1 := by
          cases t with
          | nil => simp
          | cons r1 t1 =>
            have := hp.1 r1.length (by simp)
            simp only [List.headD_cons]; omega
        have := h3.mpr this
        omega

end C12
