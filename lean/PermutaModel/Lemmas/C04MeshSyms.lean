import PermutaModel.Lemmas.C04MeshFinal
/-! C04 helper lemmas: the canonical listing (`meshCanon`, duplicates removed, sorted by `meshLe`) of a
    set of mesh patterns depends only on its members. -/
open Model

namespace C04L

theorem cellLt_strictTotal : StrictTotal cellLt where
  irrefl := by intro a; simp [cellLt]
  trans := by
    intro a b c h1 h2
    simp only [cellLt, Bool.or_eq_true, Bool.and_eq_true, decide_eq_true_eq, beq_iff_eq] at *
    omega
  tri := by
    intro a b
    obtain ⟨a1, a2⟩ := a
    obtain ⟨b1, b2⟩ := b
    simp only [cellLt, Bool.or_eq_true, Bool.and_eq_true, decide_eq_true_eq, beq_iff_eq, Prod.mk.injEq]
    omega

theorem mem_sortCells (l : List Cell) (c : Cell) : c ∈ sortCells l ↔ c ∈ l := by
  unfold sortCells
  rw [List.mem_mergeSort, List.mem_eraseDups]

theorem sortCells_congr {l l' : List Cell} (h : ∀ c, c ∈ l ↔ c ∈ l') : sortCells l = sortCells l' :=
  canon_congr cellLt_strictTotal h

theorem sortCells_idem (l : List Cell) : sortCells (sortCells l) = sortCells l :=
  sortCells_congr (mem_sortCells l)

theorem meshCanon_idem (m : Mesh) : meshCanon (meshCanon m) = meshCanon m := by
  simp [meshCanon, sortCells_idem]

/-- the tuple order `(pattern, cells)` on mesh values as they are (no re-sorting) -/
def meshLtRaw (a b : Mesh) : Bool :=
  if a.pattern = b.pattern then lexBy cellLt a.shading b.shading else permLt a.pattern b.pattern

theorem meshLt_eq_raw (a b : Mesh) : meshLt a b = meshLtRaw (meshCanon a) (meshCanon b) := rfl

theorem meshLtRaw_strictTotal : StrictTotal meshLtRaw where
  irrefl := by intro a; simp [meshLtRaw, (lexBy_strictTotal cellLt_strictTotal).irrefl]
  trans := by
    intro a b c h1 h2
    unfold meshLtRaw at *
    by_cases hab : a.pattern = b.pattern
    · rw [if_pos hab] at h1
      by_cases hbc : b.pattern = c.pattern
      · rw [if_pos hbc] at h2
        rw [if_pos (hab.trans hbc)]
        exact (lexBy_strictTotal cellLt_strictTotal).trans _ _ _ h1 h2
      · rw [if_neg hbc] at h2
        rw [if_neg (by rw [hab]; exact hbc), hab]
        exact h2
    · rw [if_neg hab] at h1
      by_cases hbc : b.pattern = c.pattern
      · rw [if_neg (by rw [← hbc]; exact hab), ← hbc]
        exact h1
      · rw [if_neg hbc] at h2
        have h3 := permLt_strictTotal.trans _ _ _ h1 h2
        have hne : a.pattern ≠ c.pattern := by
          intro e
          rw [e, permLt_strictTotal.irrefl] at h3
          exact Bool.false_ne_true h3
        rw [if_neg hne]; exact h3
  tri := by
    intro a b
    obtain ⟨pa, sa⟩ := a
    obtain ⟨pb, sb⟩ := b
    unfold meshLtRaw
    simp only [Mesh.mk.injEq]
    by_cases hab : pa = pb
    · subst hab
      simp only [if_true, true_and]
      exact (lexBy_strictTotal cellLt_strictTotal).tri sa sb
    · have hba : ¬ pb = pa := fun e => hab e.symm
      simp only [if_neg hab, if_neg hba, hab, false_and]
      rcases permLt_strictTotal.tri pa pb with h | h | h
      · exact Or.inl h
      · exact absurd h hab
      · exact Or.inr (Or.inr h)

theorem meshLe_raw (a b : Mesh) :
    meshLe a b = (meshLtRaw (meshCanon a) (meshCanon b) || meshCanon a == meshCanon b) := rfl

theorem meshLe_trans (a b c : Mesh) (h1 : meshLe a b = true) (h2 : meshLe b c = true) : meshLe a c = true := by
  rw [meshLe_raw] at *
  exact leOf_trans meshLtRaw_strictTotal _ _ _ h1 h2

theorem meshLe_total (a b : Mesh) : (meshLe a b || meshLe b a) = true := by
  rw [meshLe_raw, meshLe_raw]
  exact leOf_total meshLtRaw_strictTotal _ _

/-- `set` listing of canonical mesh values (duplicates removed, sorted by `MeshPatt.__lt__`) depends only
    on the members -/
theorem meshCanon_listing_congr {l l' : List Mesh} (hc : ∀ x ∈ l, meshCanon x = x)
    (hc' : ∀ x ∈ l', meshCanon x = x) (hmem : ∀ x, x ∈ l ↔ x ∈ l') :
    l.eraseDups.mergeSort meshLe = l'.eraseDups.mergeSort meshLe := by
  apply List.Perm.eq_of_pairwise (le := fun a b => meshLe a b = true)
  · intro a b ha hb h1 h2
    rw [List.mem_mergeSort, List.mem_eraseDups] at ha hb
    rw [meshLe_raw] at h1 h2
    have := leOf_antisymm meshLtRaw_strictTotal h1 h2
    rwa [hc a ha, hc' b hb] at this
  · exact List.pairwise_mergeSort meshLe_trans meshLe_total _
  · exact List.pairwise_mergeSort meshLe_trans meshLe_total _
  · refine (List.mergeSort_perm _ _).trans (List.Perm.trans ?_ (List.mergeSort_perm _ _).symm)
    rw [List.perm_ext_iff_of_nodup (nodup_eraseDups l) (nodup_eraseDups l')]
    intro x; rw [List.mem_eraseDups, List.mem_eraseDups]; exact hmem x

end C04L
