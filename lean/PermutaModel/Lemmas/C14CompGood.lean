import PermutaModel.Lemmas.C14SoundGood
import PermutaModel.Lemmas.C14CompSel
/-! C14 completeness helpers: a marking is an accepted occurrence tuple of `pinword_contains`. -/
namespace C14S
open Model.C14 Model.C14.Letter Spec.C14 Proto C14L C14C15

theorem factor_nil : factor [] = [] := by simp [factor]
theorem factor_cons (c : Letter) (rest : Word) :
    factor (c :: rest) = (c :: rest.takeWhile isDir) :: factor (rest.dropWhile isDir) := by
  rw [factor]

theorem good_shift_index (w : Word) (fs : List Word) (i : Nat) (f1 f2 : Bool)
    (h : Good w fs (i + 1) f1) : Good w fs i f2 := by
  cases fs with
  | nil => trivial
  | cons f fs =>
    obtain ⟨occ, h1, h2, h3, _, h5⟩ := h
    exact ⟨occ, by omega, h2, h3, Or.inr (Or.inl (by omega)), h5⟩

theorem takeWhile_head_quad {u : Word} (h : ∀ a, u.head? = some a → a.isQuad = true) :
    u.takeWhile isDir = [] ∧ u.dropWhile isDir = u := by
  cases u with
  | nil => simp
  | cons a t =>
    have := h a rfl
    have hd : a.isDir = false := by cases a <;> simp_all [isQuad, isDir]
    simp [hd]

theorem drop_cons_inv {w : Word} {i : Nat} {c : Letter} {w' : Word} (h : c :: w' = w.drop i) :
    ∃ hi : i < w.length, c = w[i] ∧ w' = w.drop (i + 1) := by
  have hi : i < w.length := by
    by_contra hc
    rw [List.drop_eq_nil_of_le (by omega)] at h
    cases h
  rw [List.drop_eq_getElem_cons hi] at h
  simp only [List.cons.injEq] at h
  exact ⟨hi, h.1, h.2⟩

theorem sel_good (w : Word) (hw : inLang w = true) {prev : Letter} {ps : Bool} {w' u : Word}
    (hS : Sel prev ps w' u) : ∀ i, w' = w.drop i → prev = prevAt w i →
    ((∀ a, u.head? = some a → a.isQuad = true) → Good w (factor u) i (!ps))
    ∧ (ps = true → u.takeWhile isDir <+: w.drop i
        ∧ Good w (factor (u.dropWhile isDir)) (i + (u.takeWhile isDir).length) false) := by
  induction hS with
  | nil prev ps =>
    intro i _ _
    refine ⟨fun _ => by rw [factor_nil]; trivial, fun _ => ?_⟩
    simp only [List.takeWhile_nil, List.dropWhile_nil, factor_nil]
    exact ⟨List.nil_prefix, trivial⟩
  | @skip prev ps c w'' u hS' ih =>
    intro i hw' hprev
    obtain ⟨hi, rfl, rfl⟩ := drop_cons_inv hw'
    obtain ⟨iha, _⟩ := ih (i + 1) rfl (prevAt_succ w i hi).symm
    have hhead := sel_head hS' (by intro h; cases h)
    refine ⟨fun hq => good_shift_index w _ i _ _ (iha hq), fun _ => ?_⟩
    obtain ⟨e1, e2⟩ := takeWhile_head_quad hhead
    rw [e1, e2]
    exact ⟨List.nil_prefix, good_shift_index w _ i _ _ (iha hhead)⟩
  | @takeDir prev c w'' u hd hS' ih =>
    intro i hw' hprev
    obtain ⟨hi, rfl, rfl⟩ := drop_cons_inv hw'
    obtain ⟨_, ihb⟩ := ih (i + 1) rfl (prevAt_succ w i hi).symm
    obtain ⟨hb1, hb2⟩ := ihb rfl
    refine ⟨fun hq => ?_, fun _ => ?_⟩
    · have := hq _ rfl
      cases hc : w[i] <;> simp_all [isDir, isQuad]
    · simp only [List.takeWhile_cons, List.dropWhile_cons, hd, if_true]
      refine ⟨?_, ?_⟩
      · rw [List.drop_eq_getElem_cons hi, List.cons_prefix_cons]; exact ⟨rfl, hb1⟩
      · simp only [List.length_cons]
        rw [show i + ((List.takeWhile isDir u).length + 1) = i + 1 + (List.takeWhile isDir u).length
          from by omega]
        exact hb2
  | @takeNum prev ps c w'' u hps hS' ih =>
    intro i hw' hprev
    obtain ⟨hi, rfl, rfl⟩ := drop_cons_inv hw'
    obtain ⟨_, ihb⟩ := ih (i + 1) rfl (prevAt_succ w i hi).symm
    obtain ⟨hb1, hb2⟩ := ihb rfl
    have hq := quadOfSigns_isQuad' (signsOf prev w[i])
    have hget : w.getD i (X ' ') = w[i] := by
      simp [List.getD_eq_getElem?_getD, List.getElem?_eq_getElem hi]
    have key : ∀ first : Bool, (first = true ∨ quadAt w i = true) →
        Good w (factor (quadOfSigns (signsOf prev w[i]) :: u)) i first := by
      intro first hf
      rw [factor_cons]
      refine ⟨i, Nat.le_refl _, hi, ?_, ?_, ?_⟩
      · rw [occSpTest_ok w hw _ _ hq i hi]
        simp only [Except.ok.injEq, Bool.and_eq_true, decide_eq_true_eq]
        exact ⟨by rw [signs_eq, hget, hprev], (slice_iff w _ _ i).mpr hb1⟩
      · rcases hf with h | h
        · exact Or.inl h
        · exact Or.inr (Or.inr h)
      · rw [show i + (quadOfSigns (signsOf prev w[i]) :: List.takeWhile isDir u).length
          = i + 1 + (List.takeWhile isDir u).length from by simp; omega]
        exact hb2
    have hgap : ps = false ∨ quadAt w i = true := by
      rcases hps with h | h
      · exact Or.inl h
      · right; simpa [quadAt, List.getElem?_eq_getElem hi] using h
    refine ⟨fun _ => key _ ?_, fun hps' => ?_⟩
    · rcases hgap with h | h
      · left; simp [h]
      · exact Or.inr h
    · have hnd : (quadOfSigns (signsOf prev w[i])).isDir = false := by
        generalize quadOfSigns (signsOf prev w[i]) = q at hq
        cases q <;> simp_all [isQuad, isDir]
      simp only [List.takeWhile_cons, List.dropWhile_cons, hnd, Bool.false_eq_true, if_false]
      refine ⟨List.nil_prefix, ?_⟩
      apply key
      rcases hgap with h | h
      · rw [hps'] at h; cases h
      · exact Or.inr h

end C14S
