import PermutaModel.Lemmas.C16Fam
import Mathlib.Tactic.IntervalCases
/-!
Converse direction for the wedge permutations of the second kind: every permutation avoiding the ten
patterns of `Generated.c16_wedge2` is contained in `C16Fam.wedge2 m` as soon as `m ≥ max |x| 1`.

* `wedge2_structure`: such a permutation has no valley strictly before its last position, and it is
  either unimodal or has at most one entry before the last one that exceeds the last entry;
* `embed_core`: a labelling of the positions by the four position ranges of `wedge2 m` yields an embedding;
* `wedge2_closure`: the containment.
-/

open Model

namespace C16Conv.W2
open C04L

/-! ### permutations as functions on positions -/

theorem perm_getD_lt (x : NSeq) (hx : IsPerm x) (p : Nat) (hp : p < x.length) : x.getD p 0 < x.length := by
  apply hx.2
  rw [List.getD_eq_getElem?_getD, List.getElem?_eq_getElem hp]
  exact List.getElem_mem hp

theorem perm_getD_inj (x : NSeq) (hx : IsPerm x) (p q : Nat) (hp : p < x.length) (hq : q < x.length)
    (h : x.getD p 0 = x.getD q 0) : p = q := by
  rw [List.getD_eq_getElem?_getD, List.getD_eq_getElem?_getD, List.getElem?_eq_getElem hp,
    List.getElem?_eq_getElem hq] at h
  exact (List.Nodup.getElem_inj_iff hx.1).mp (by simpa using h)

/-- four positions whose values are ordered like `[a,b,c,d]` give an occurrence -/
theorem contains4 (x : NSeq) (a b c d i j k l : Nat) (h : i < j ∧ j < k ∧ k < l ∧ l < x.length)
    (hiso : ∀ s t, s < 4 → t < 4 → ([a, b, c, d].getD s 0 < [a, b, c, d].getD t 0 ↔
      [x.getD i 0, x.getD j 0, x.getD k 0, x.getD l 0].getD s 0 <
        [x.getD i 0, x.getD j 0, x.getD k 0, x.getD l 0].getD t 0)) :
    Contains x [a, b, c, d] := by
  refine ⟨[i, j, k, l], rfl, ?_, ?_, ?_⟩
  · simp [StrictInc]; omega
  · simp; omega
  · intro s t hs ht
    have hs' : s < 4 := hs
    have ht' : t < 4 := ht
    rw [hiso s t hs' ht']
    interval_cases s <;> interval_cases t <;> simp

/-- the ten forbidden value chains on four positions `i < j < k < l` -/
def Chains (v : Nat → Nat) (i j k l : Nat) : Prop :=
  ¬ (v j < v i ∧ v i < v k ∧ v k < v l) ∧   -- 1023
  ¬ (v j < v i ∧ v i < v l ∧ v l < v k) ∧   -- 1032
  ¬ (v j < v k ∧ v k < v i ∧ v i < v l) ∧   -- 2013
  ¬ (v j < v l ∧ v l < v i ∧ v i < v k) ∧   -- 2031
  ¬ (v l < v j ∧ v j < v i ∧ v i < v k) ∧   -- 2130
  ¬ (v k < v l ∧ v l < v i ∧ v i < v j) ∧   -- 2301
  ¬ (v j < v k ∧ v k < v l ∧ v l < v i) ∧   -- 3012
  ¬ (v j < v l ∧ v l < v k ∧ v k < v i) ∧   -- 3021
  ¬ (v l < v j ∧ v j < v k ∧ v k < v i) ∧   -- 3120
  ¬ (v k < v l ∧ v l < v j ∧ v j < v i)     -- 3201

theorem chains_of_avoids (x : NSeq) (hav : ∀ τ ∈ Generated.c16_wedge2, ¬ Contains x τ)
    (i j k l : Nat) (h : i < j ∧ j < k ∧ k < l ∧ l < x.length) :
    Chains (fun p => x.getD p 0) i j k l := by
  unfold Chains
  refine ⟨?_, ?_, ?_, ?_, ?_, ?_, ?_, ?_, ?_, ?_⟩ <;> intro hc <;> beta_reduce at hc
  · exact hav [1, 0, 2, 3] (by decide) (contains4 x _ _ _ _ i j k l h (by
      intro s t hs ht; interval_cases s <;> interval_cases t <;> simp only [List.getD_cons_zero, List.getD_cons_succ] <;> omega))
  · exact hav [1, 0, 3, 2] (by decide) (contains4 x _ _ _ _ i j k l h (by
      intro s t hs ht; interval_cases s <;> interval_cases t <;> simp only [List.getD_cons_zero, List.getD_cons_succ] <;> omega))
  · exact hav [2, 0, 1, 3] (by decide) (contains4 x _ _ _ _ i j k l h (by
      intro s t hs ht; interval_cases s <;> interval_cases t <;> simp only [List.getD_cons_zero, List.getD_cons_succ] <;> omega))
  · exact hav [2, 0, 3, 1] (by decide) (contains4 x _ _ _ _ i j k l h (by
      intro s t hs ht; interval_cases s <;> interval_cases t <;> simp only [List.getD_cons_zero, List.getD_cons_succ] <;> omega))
  · exact hav [2, 1, 3, 0] (by decide) (contains4 x _ _ _ _ i j k l h (by
      intro s t hs ht; interval_cases s <;> interval_cases t <;> simp only [List.getD_cons_zero, List.getD_cons_succ] <;> omega))
  · exact hav [2, 3, 0, 1] (by decide) (contains4 x _ _ _ _ i j k l h (by
      intro s t hs ht; interval_cases s <;> interval_cases t <;> simp only [List.getD_cons_zero, List.getD_cons_succ] <;> omega))
  · exact hav [3, 0, 1, 2] (by decide) (contains4 x _ _ _ _ i j k l h (by
      intro s t hs ht; interval_cases s <;> interval_cases t <;> simp only [List.getD_cons_zero, List.getD_cons_succ] <;> omega))
  · exact hav [3, 0, 2, 1] (by decide) (contains4 x _ _ _ _ i j k l h (by
      intro s t hs ht; interval_cases s <;> interval_cases t <;> simp only [List.getD_cons_zero, List.getD_cons_succ] <;> omega))
  · exact hav [3, 1, 2, 0] (by decide) (contains4 x _ _ _ _ i j k l h (by
      intro s t hs ht; interval_cases s <;> interval_cases t <;> simp only [List.getD_cons_zero, List.getD_cons_succ] <;> omega))
  · exact hav [3, 2, 0, 1] (by decide) (contains4 x _ _ _ _ i j k l h (by
      intro s t hs ht; interval_cases s <;> interval_cases t <;> simp only [List.getD_cons_zero, List.getD_cons_succ] <;> omega))

/-- close a goal from a `Chains` hypothesis when the order of the four values is known -/
macro "pick_chain " h:ident : tactic =>
  `(tactic| first
     | omega
     | exact absurd ⟨by omega, by omega, by omega⟩ ($h).1
     | exact absurd ⟨by omega, by omega, by omega⟩ ($h).2.1
     | exact absurd ⟨by omega, by omega, by omega⟩ ($h).2.2.1
     | exact absurd ⟨by omega, by omega, by omega⟩ ($h).2.2.2.1
     | exact absurd ⟨by omega, by omega, by omega⟩ ($h).2.2.2.2.1
     | exact absurd ⟨by omega, by omega, by omega⟩ ($h).2.2.2.2.2.1
     | exact absurd ⟨by omega, by omega, by omega⟩ ($h).2.2.2.2.2.2.1
     | exact absurd ⟨by omega, by omega, by omega⟩ ($h).2.2.2.2.2.2.2.1
     | exact absurd ⟨by omega, by omega, by omega⟩ ($h).2.2.2.2.2.2.2.2.1
     | exact absurd ⟨by omega, by omega, by omega⟩ ($h).2.2.2.2.2.2.2.2.2)

/-! ### the structure of the class, for an abstract value function -/

/-- no valley `a < k < b < N` -/
def NoValley (v : Nat → Nat) (N : Nat) : Prop :=
  ∀ a k b, a < k → k < b → b < N → ¬ (v k < v a ∧ v k < v b)

/-- at most one position before the last carries a value above the last one -/
def AtMostOneAbove (v : Nat → Nat) (n : Nat) : Prop :=
  ∀ i j, i < j → j + 1 < n → ¬ (v (n - 1) < v i ∧ v (n - 1) < v j)

theorem structure_fun (v : Nat → Nat) (n : Nat)
    (hinj : ∀ p q, p < n → q < n → v p = v q → p = q)
    (hch : ∀ i j k l, i < j ∧ j < k ∧ k < l ∧ l < n → Chains v i j k l) :
    NoValley v (n - 1) ∧ (NoValley v n ∨ AtMostOneAbove v n) := by
  have hV : NoValley v (n - 1) := by
    intro a k b hak hkb hb hval
    have h := hch a k b (n - 1) (by omega)
    have h2 : v a ≠ v b := fun e => by have := hinj a b (by omega) (by omega) e; omega
    have h3 : v a ≠ v (n - 1) := fun e => by have := hinj a (n - 1) (by omega) (by omega) e; omega
    have h5 : v k ≠ v (n - 1) := fun e => by have := hinj k (n - 1) (by omega) (by omega) e; omega
    have h6 : v b ≠ v (n - 1) := fun e => by have := hinj b (n - 1) (by omega) (by omega) e; omega
    by_cases e1 : v a < v b <;> by_cases e2 : v (n - 1) < v k <;> by_cases e3 : v (n - 1) < v a <;>
      by_cases e4 : v (n - 1) < v b <;> pick_chain h
  refine ⟨hV, ?_⟩
  by_cases hU : NoValley v n
  · exact Or.inl hU
  · right
    unfold NoValley at hU
    simp only [not_forall] at hU
    obtain ⟨a, k, b, hak, hkb, hb, hval⟩ := hU
    have hval : v k < v a ∧ v k < v b := by
      by_contra h; exact hval h
    have hbL : b = n - 1 := by
      by_contra hne
      exact hV a k b hak hkb (by omega) hval
    subst hbL
    intro i j hij hj hab
    by_cases hjk : j < k
    · have h := hch i j k (n - 1) (by omega)
      have h1 : v i ≠ v j := fun e => by have := hinj i j (by omega) (by omega) e; omega
      by_cases e1 : v i < v j <;> pick_chain h
    · by_cases hik : i < k
      · have hkj : k ≠ j := by
          intro h; subst h; omega
        exact hV i k j hik (by omega) (by omega) (by omega)
      · have hki : k ≠ i := by
          intro h; subst h; omega
        exact hV a k i hak (by omega) (by omega) (by omega)

theorem wedge2_structure (x : NSeq) (hx : IsPerm x)
    (hav : ∀ τ ∈ Generated.c16_wedge2, ¬ Contains x τ) :
    NoValley (fun p => x.getD p 0) (x.length - 1) ∧
      (NoValley (fun p => x.getD p 0) x.length ∨ AtMostOneAbove (fun p => x.getD p 0) x.length) :=
  structure_fun _ _ (fun p q hp hq h => perm_getD_inj x hx p q hp hq h)
    (fun i j k l h => chains_of_avoids x hav i j k l h)


theorem exists_max (v : Nat → Nat) : ∀ N, 1 ≤ N → ∃ P, P < N ∧ ∀ q, q < N → v q ≤ v P := by
  intro N
  induction N with
  | zero => intro h; omega
  | succ N ih =>
    intro _
    by_cases hN : N = 0
    · subst hN; exact ⟨0, by omega, fun q hq => by have : q = 0 := by omega
                                                   subst this; exact Nat.le_refl _⟩
    · obtain ⟨P, hP, hmax⟩ := ih (by omega)
      by_cases h : v P ≤ v N
      · refine ⟨N, by omega, fun q hq => ?_⟩
        by_cases hq' : q = N
        · subst hq'; exact Nat.le_refl _
        · have := hmax q (by omega); omega
      · refine ⟨P, by omega, fun q hq => ?_⟩
        by_cases hq' : q = N
        · subst hq'; omega
        · exact hmax q (by omega)

/-- no valley and a maximum at `P`: increasing up to `P`, decreasing from `P` on -/
theorem unimodal_of_noValley (v : Nat → Nat) (n N P : Nat) (hN : N ≤ n)
    (hinj : ∀ p q, p < n → q < n → v p = v q → p = q)
    (hnv : NoValley v N) (hP : P < N) (hmax : ∀ q, q < N → v q ≤ v P) :
    (∀ p q, p < q → q ≤ P → v p < v q) ∧ (∀ p q, P ≤ p → p < q → q < N → v q < v p) := by
  constructor
  · intro p q hpq hqP
    have h1 := hinj p q (by omega) (by omega)
    have h2 := hinj q P (by omega) (by omega)
    have h3 := hmax q (by omega)
    have h4 := hmax p (by omega)
    by_cases hq : q = P
    · subst hq; omega
    · have := hnv p q P hpq (by omega) hP
      omega
  · intro p q hPp hpq hqN
    have h1 := hinj p q (by omega) (by omega)
    have h2 := hinj p P (by omega) (by omega)
    have h3 := hmax q (by omega)
    have h4 := hmax p (by omega)
    by_cases hp : p = P
    · subst hp; omega
    · have := hnv P p q (by omega) hpq hqN
      omega

open C16Fam

/-- the position map: `X` for positions `≥ N`, `M` at `PM`, `I` before `P`, `D` from `P` on -/
def wf (v : Nat → Nat) (N m P PM : Nat) (p : Nat) : Nat :=
  if N ≤ p then 2 * m else if p = PM then m - 1 else if p < P then v p else 2 * m - 1 - v p

theorem embed_core (v : Nat → Nat) (n N m P PM : Nat)
    (hm : 1 ≤ m) (hN : N ≤ n) (hN1 : n ≤ N + 1) (hP : P < N) (hPM : PM = P ∨ n ≤ PM)
    (hinj : ∀ p q, p < n → q < n → v p = v q → p = q)
    (hinc : ∀ p q, p < q → q ≤ P → v p < v q)
    (hdec : ∀ p q, P ≤ p → p < q → q < N → v q < v p)
    (hbd : ∀ p, p < N → p ≠ PM → v p + 2 ≤ m)
    (hX1 : N < n → ∀ q, q < N → q ≠ PM → v q < v N)
    (hX2 : N < n → PM = P → v N < v P) :
    (∀ a b, a < b → b < n → wf v N m P PM a < wf v N m P PM b) ∧
    (∀ a, a < n → wf v N m P PM a < 2 * m + 1) ∧
    (∀ a b, a < n → b < n →
      (v a < v b ↔ w2Entry m (wf v N m P PM a) < w2Entry m (wf v N m P PM b))) := by
  have spec : ∀ p, p < n →
      (p = N ∧ N < n ∧ wf v N m P PM p = 2 * m ∧ w2Entry m (wf v N m P PM p) = 2 * m - 1) ∨
      (p < N ∧ p = P ∧ PM = P ∧ wf v N m P PM p = m - 1 ∧ w2Entry m (wf v N m P PM p) = 2 * m) ∨
      (p < N ∧ p ≠ PM ∧ p < P ∧ v p + 2 ≤ m ∧ wf v N m P PM p = v p ∧
        w2Entry m (wf v N m P PM p) = 2 * v p + 1) ∨
      (p < N ∧ p ≠ PM ∧ P ≤ p ∧ v p + 2 ≤ m ∧ wf v N m P PM p = 2 * m - 1 - v p ∧
        w2Entry m (wf v N m P PM p) = 2 * v p) := by
    intro p hp
    by_cases h1 : N ≤ p
    · left
      have e : wf v N m P PM p = 2 * m := by unfold wf; rw [if_pos h1]
      refine ⟨by omega, by omega, e, ?_⟩
      rw [e]; exact (w2_X hm rfl).2
    · by_cases h2 : p = PM
      · right; left
        have e : wf v N m P PM p = m - 1 := by unfold wf; rw [if_neg h1, if_pos h2]
        refine ⟨by omega, by omega, by omega, e, ?_⟩
        rw [e]; exact (w2_M (by omega)).2
      · have hb := hbd p (by omega) h2
        by_cases h3 : p < P
        · right; right; left
          have e : wf v N m P PM p = v p := by unfold wf; rw [if_neg h1, if_neg h2, if_pos h3]
          refine ⟨by omega, h2, h3, hb, e, ?_⟩
          rw [e]; exact (w2_I (by omega)).2
        · right; right; right
          have e : wf v N m P PM p = 2 * m - 1 - v p := by
            unfold wf; rw [if_neg h1, if_neg h2, if_neg h3]
          refine ⟨by omega, h2, by omega, hb, e, ?_⟩
          rw [e, (w2_D (by omega) (by omega)).2]; omega
  -- all the facts about a pair of positions
  have pair : ∀ a b, a < n → b < n → a ≠ b →
      (a < b → wf v N m P PM a < wf v N m P PM b) ∧
      (v a < v b ↔ w2Entry m (wf v N m P PM a) < w2Entry m (wf v N m P PM b)) := by
    intro a b ha hb hab
    have i1 := hinj a b ha hb
    have i2 := hinc a b
    have i3 := hinc b a
    have i4 := hdec a b
    have i5 := hdec b a
    rcases spec a ha with ⟨sa1, sa2, sa3, sa4⟩ | ⟨sa1, sa2, sa3, sa4, sa5⟩ |
        ⟨sa1, sa2, sa3, sa4, sa5, sa6⟩ | ⟨sa1, sa2, sa3, sa4, sa5, sa6⟩ <;>
      rcases spec b hb with ⟨sb1, sb2, sb3, sb4⟩ | ⟨sb1, sb2, sb3, sb4, sb5⟩ |
        ⟨sb1, sb2, sb3, sb4, sb5, sb6⟩ | ⟨sb1, sb2, sb3, sb4, sb5, sb6⟩
    all_goals first
      | omega
      | (subst sa1
         have j1 := hX1 sa2 b
         have j2 := hX2 sa2
         first
          | omega
          | (subst sb2; omega))
      | (subst sb1
         have j1 := hX1 sb2 a
         have j2 := hX2 sb2
         first
          | omega
          | (subst sa2; omega))
  refine ⟨fun a b hab hb => (pair a b (by omega) hb (by omega)).1 hab,
    fun a ha => ?_, fun a b ha hb => ?_⟩
  · rcases spec a ha with ⟨sa1, sa2, sa3, sa4⟩ | ⟨sa1, sa2, sa3, sa4, sa5⟩ |
        ⟨sa1, sa2, sa3, sa4, sa5, sa6⟩ | ⟨sa1, sa2, sa3, sa4, sa5, sa6⟩ <;> omega
  · by_cases hab : a = b
    · subst hab; omega
    · exact (pair a b ha hb hab).2


theorem contains_of_fun (x : NSeq) (m : Nat) (f : Nat → Nat)
    (h1 : ∀ a b, a < b → b < x.length → f a < f b)
    (h2 : ∀ a, a < x.length → f a < 2 * m + 1)
    (h3 : ∀ a b, a < x.length → b < x.length →
      (x.getD a 0 < x.getD b 0 ↔ w2Entry m (f a) < w2Entry m (f b))) :
    Contains (wedge2 m) x := by
  rw [contains_iff_emb]
  refine ⟨f, h1, fun a ha => by simpa [wedge2] using h2 a ha, fun a b ha hb => ?_⟩
  rw [wedge2, getD_mapRange _ _ _ (h2 a ha), getD_mapRange _ _ _ (h2 b hb)]
  exact h3 a b ha hb

theorem wedge2_closure (x : NSeq) (hx : IsPerm x)
    (hav : ∀ τ ∈ Generated.c16_wedge2, ¬ Contains x τ) (m : Nat) (hm : x.length ≤ m) (hm1 : 1 ≤ m) :
    Contains (wedge2 m) x := by
  obtain ⟨hV, hUC⟩ := wedge2_structure x hx hav
  have hinj : ∀ p q, p < x.length → q < x.length → x.getD p 0 = x.getD q 0 → p = q :=
    fun p q hp hq h => perm_getD_inj x hx p q hp hq h
  have hlt : ∀ p, p < x.length → x.getD p 0 < x.length := perm_getD_lt x hx
  generalize hv : (fun p => x.getD p 0) = v at hV hUC
  have hv' : ∀ p, x.getD p 0 = v p := fun p => by rw [← hv]
  simp only [hv'] at hinj hlt
  generalize hn : x.length = n at *
  by_cases hn0 : n = 0
  · have : x = [] := List.eq_nil_of_length_eq_zero (by omega)
    subst this
    exact ⟨[], rfl, List.Pairwise.nil, by simp, fun a b ha => by simp at ha⟩
  rcases hUC with hU | hC
  · -- unimodal
    obtain ⟨P, hP, hmax⟩ := exists_max v n (by omega)
    obtain ⟨hinc, hdec⟩ := unimodal_of_noValley v n n P (Nat.le_refl _) hinj hU hP hmax
    obtain ⟨e1, e2, e3⟩ := embed_core v n n m P P hm1 (Nat.le_refl _) (by omega) hP (Or.inl rfl) hinj
      hinc hdec
      (fun p hp hpP => by
        have := hmax p hp; have := hinj p P hp hP; have := hlt P hP; omega)
      (fun h => by omega) (fun h => by omega)
    exact contains_of_fun x m _ (by rw [hn]; exact e1) (by rw [hn]; exact e2)
      (by rw [hn]; simp only [hv']; exact e3)
  · -- the last entry is special
    by_cases hn1 : n = 1
    · -- a single entry
      obtain ⟨e1, e2, e3⟩ := embed_core v n n m 0 0 hm1 (Nat.le_refl _) (by omega) (by omega)
        (Or.inl rfl) hinj (fun p q h1 h2 => by omega) (fun p q h1 h2 h3 => by omega)
        (fun p hp hpP => by omega) (fun h => by omega) (fun h => by omega)
      exact contains_of_fun x m _ (by rw [hn]; exact e1) (by rw [hn]; exact e2)
        (by rw [hn]; simp only [hv']; exact e3)
    obtain ⟨P, hP, hmax⟩ := exists_max v (n - 1) (by omega)
    obtain ⟨hinc, hdec⟩ := unimodal_of_noValley v n (n - 1) P (by omega) hinj hV hP hmax
    -- values before the last, other than the maximum, are below the last
    have hC' : ∀ p, p < n - 1 → p ≠ P → v p < v (n - 1) := by
      intro p hp hpP
      have a1 := hinj p (n - 1) (by omega) (by omega)
      have a2 := hinj p P (by omega) (by omega)
      have a3 := hmax p hp
      by_cases hlt' : p < P
      · have := hC p P hlt' (by omega); omega
      · have := hC P p (by omega) (by omega); omega
    have hL := hlt (n - 1) (by omega)
    have hPL := hinj P (n - 1) (by omega) (by omega)
    by_cases hbig : v (n - 1) < v P
    · obtain ⟨e1, e2, e3⟩ := embed_core v n (n - 1) m P P hm1 (by omega) (by omega) hP (Or.inl rfl) hinj
        hinc hdec
        (fun p hp hpP => by have := hC' p hp hpP; omega)
        (fun _ q hq hqP => hC' q hq hqP) (fun _ _ => hbig)
      exact contains_of_fun x m _ (by rw [hn]; exact e1) (by rw [hn]; exact e2)
        (by rw [hn]; simp only [hv']; exact e3)
    · obtain ⟨e1, e2, e3⟩ := embed_core v n (n - 1) m P n hm1 (by omega) (by omega) hP
        (Or.inr (Nat.le_refl _)) hinj hinc hdec
        (fun p hp hpP => by have := hmax p hp; omega)
        (fun _ q hq hqP => by have := hmax q hq; omega) (fun _ h => by omega)
      exact contains_of_fun x m _ (by rw [hn]; exact e1) (by rw [hn]; exact e2)
        (by rw [hn]; simp only [hv']; exact e3)

end C16Conv.W2

