import PermutaModel.Lemmas.C15Det
import PermutaModel.Lemmas.C15Min
import PermutaModel.Lemmas.C15M
/-!
The whole pipeline of the model: `dfaForBasis B` accepts exactly the words over `DIRS` that the
basis semantics (`basisAccepts`, union of the NFA languages) accepts, and the automaton handed to
the finiteness test accepts exactly `L(M)` minus that.
-/
namespace C15Pipe
open Model.C15 Spec.C15 C15Ex

/-! ### the automaton of `M` as an explicit DFA -/

theorem dfaM_cert : dfaM.certB = true := by decide

theorem dfaM_good : Good dfaM := by
  have h := dfaM_cert
  unfold DFA.certB at h
  rw [Bool.and_eq_true] at h
  obtain ⟨hwf, hpos⟩ := C15Fin.wf_of_wfB dfaM h.1
  exact ⟨hpos, by decide, hwf, C15Fin.reach_of_reachB dfaM h.2⟩

theorem dfaM_table : ∀ q, q < 4 → ∀ i, i < 4 →
    tblStep Generated.c15_dfaM_trans q (DIRS.getD i ' ') = some (dfaM.step q i) ∧ dfaM.step q i < 4 := by
  decide

theorem dfaM_acc : ∀ q, q < 4 → dfaM.acc.getD q false = Generated.c15_dfaM_finals.contains q := by
  decide

theorem dfaM_accFrom (w : Word) : ∀ q, q < 4 → C15Fin.accFrom dfaM q w = C15M.accFrom q w := by
  induction w with
  | nil => intro q hq; exact dfaM_acc q hq
  | cons x w ih =>
    intro q hq
    rw [C15Fin.accFrom_cons, C15M.accFrom_cons]
    cases hl : letterIdx x with
    | none =>
      have hx := C15Det.letterIdx_none hl
      rw [C15M.mem_DIRS] at hx
      rw [C15M.step_other q hq x (fun h => hx (Or.inl h)) (fun h => hx (Or.inr (Or.inl h)))
        (fun h => hx (Or.inr (Or.inr (Or.inl h)))) (fun h => hx (Or.inr (Or.inr (Or.inr h))))]
    | some i =>
      obtain ⟨hi, hx, _⟩ := C15Det.letterIdx_some hl
      have ht := dfaM_table q hq i hi
      rw [hx] at ht
      rw [ht.1]
      exact ih _ ht.2

/-- the explicit DFA of `M` and the generated table accept the same words -/
theorem dfaM_accepts (w : Word) : dfaM.accepts w = dfaMAccepts w :=
  dfaM_accFrom w 0 (by omega)

/-! ### the empty automaton -/

theorem empty_good : Good emptyDFA := by
  have h : emptyDFA.certB = true := by decide
  unfold DFA.certB at h
  rw [Bool.and_eq_true] at h
  obtain ⟨hwf, hpos⟩ := C15Fin.wf_of_wfB emptyDFA h.1
  exact ⟨hpos, by decide, hwf, C15Fin.reach_of_reachB emptyDFA h.2⟩

theorem empty_accepts (w : Word) : emptyDFA.accepts w = false := by
  have key : ∀ (w : Word), C15Fin.accFrom emptyDFA 0 w = false := by
    intro w
    induction w with
    | nil => decide
    | cons x w ih =>
      rw [C15Fin.accFrom_cons]
      cases hl : letterIdx x with
      | none => rfl
      | some i =>
        have : emptyDFA.step 0 i = 0 := by
          have hi := C15Fin.letterIdx_lt hl
          have : ∀ i, i < DIRS.length → emptyDFA.step 0 i = 0 := by decide
          exact this i hi
        simp only [this]; exact ih
  exact key w

/-! ### one pin word -/

theorem nfa_shape (u : Word) : 0 < (nfaForPinword u).n ∧ C15Nfa.EdgesBelow (nfaForPinword u).edges (nfaForPinword u).n := by
  have h := C15Nfa.inv_foldl ((factorPinword u).map spToM) nfaStart AStar C15Nfa.inv_start (by
    intro alts h
    obtain ⟨f, hf, rfl⟩ := List.mem_map.mp h
    exact C15Nfa.spToM_good f (C15Nfa.factor_ne_nil u f hf))
  exact ⟨h.pos, h.below⟩

theorem dfaForPinword_good (u : Word) : Good (dfaForPinword u) :=
  C15Min.minimize_good _ (C15Det.determinize_good _ (nfa_shape u).1 (nfa_shape u).2)

theorem dfaForPinword_accepts (u w : Word) :
    (dfaForPinword u).accepts w = true ↔ AStar w ∧ pinwordAccepts u w = true := by
  unfold dfaForPinword
  rw [C15Min.minimize_accepts _ (C15Det.determinize_good _ (nfa_shape u).1 (nfa_shape u).2)]
  exact C15Det.determinize_accepts _ (nfa_shape u).1 (nfa_shape u).2 w

/-! ### unions -/

theorem union_good (a b : DFA) (ha : Good a) (hb : Good b) : Good (unionDFA a b) :=
  C15Min.minimize_good _ (C15Det.product_good a b ha hb _)

theorem union_accepts (a b : DFA) (ha : Good a) (hb : Good b) (w : Word) :
    (unionDFA a b).accepts w = (a.accepts w || b.accepts w) := by
  unfold unionDFA
  rw [C15Min.minimize_accepts _ (C15Det.product_good a b ha hb _),
    C15Det.product_accepts a b ha hb _ rfl]

theorem foldl_union {α : Type} (g : α → DFA) (hg : ∀ x, Good (g x)) (w : Word) : ∀ (l : List α) (d0 : DFA), Good d0 →
    Good (l.foldl (fun d x => unionDFA d (g x)) d0) ∧
    (l.foldl (fun d x => unionDFA d (g x)) d0).accepts w = (d0.accepts w || l.any fun x => (g x).accepts w) := by
  intro l
  induction l with
  | nil => intro d0 h0; exact ⟨h0, by simp⟩
  | cons x l ih =>
    intro d0 h0
    rw [List.foldl_cons]
    obtain ⟨h1, h2⟩ := ih (unionDFA d0 (g x)) (union_good _ _ h0 (hg x))
    refine ⟨h1, ?_⟩
    rw [h2, union_accepts _ _ h0 (hg x), List.any_cons, Bool.or_assoc]

theorem dfaForWords_good (us : List Word) : Good (dfaForWords us) :=
  (foldl_union dfaForPinword dfaForPinword_good [] us emptyDFA empty_good).1

theorem dfaForWords_accepts (us : List Word) (w : Word) :
    (dfaForWords us).accepts w = true ↔ AStar w ∧ wordsAccept us w = true := by
  unfold dfaForWords
  rw [(foldl_union dfaForPinword dfaForPinword_good w us emptyDFA empty_good).2, empty_accepts,
    Bool.false_or]
  unfold wordsAccept
  simp only [List.any_eq_true, dfaForPinword_accepts]
  constructor
  · rintro ⟨u, hu, hA, h⟩; exact ⟨hA, u, hu, h⟩
  · rintro ⟨hA, u, hu, h⟩; exact ⟨u, hu, hA, h⟩

theorem dfaForPerm_good (p : NSeq) : Good (dfaForPerm p) := dfaForWords_good _

theorem dfaForBasis_good (B : List NSeq) : Good (dfaForBasis B) :=
  (foldl_union dfaForPerm dfaForPerm_good [] B emptyDFA empty_good).1

/-- **`pipeline_language`** -/
theorem dfaForBasis_accepts (B : List NSeq) (w : Word) :
    (dfaForBasis B).accepts w = true ↔ AStar w ∧ basisAccepts B w = true := by
  unfold dfaForBasis
  rw [(foldl_union dfaForPerm dfaForPerm_good w B emptyDFA empty_good).2, empty_accepts, Bool.false_or]
  unfold basisAccepts pinwordsForBasis wordsAccept
  simp only [List.any_eq_true, List.mem_flatMap]
  constructor
  · rintro ⟨p, hp, h⟩
    unfold dfaForPerm at h
    rw [dfaForWords_accepts] at h
    obtain ⟨hA, h⟩ := h
    unfold wordsAccept at h
    obtain ⟨u, hu, h⟩ := List.any_eq_true.mp h
    exact ⟨hA, u, ⟨p, hp, hu⟩, h⟩
  · rintro ⟨hA, u, ⟨p, hp, hu⟩, h⟩
    refine ⟨p, hp, ?_⟩
    unfold dfaForPerm
    rw [dfaForWords_accepts]
    exact ⟨hA, List.any_eq_true.mpr ⟨u, hu, h⟩⟩

/-! ### difference with `M` -/

theorem diffWithM_good (b : DFA) (hb : Good b) : Good (diffWithM b) :=
  C15Det.product_good dfaM b dfaM_good hb _

theorem diffWithM_accepts (b : DFA) (hb : Good b) (w : Word) :
    (diffWithM b).accepts w = (dfaMAccepts w && !b.accepts w) := by
  unfold diffWithM
  rw [C15Det.product_accepts dfaM b dfaM_good hb _ rfl, dfaM_accepts]

theorem diffWithM_cert (b : DFA) (hb : Good b) : (diffWithM b).certB = true :=
  C15Det.product_cert dfaM b dfaM_good hb _

end C15Pipe
