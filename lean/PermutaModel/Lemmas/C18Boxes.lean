import PermutaModel.Lemmas.C18CanSimul

/-! The table of `shadable_boxes`: which entries it contains. -/

namespace Spec.C18
open Model Model.C18 Proto

/-- `(p, g)` is one of the entries produced for cell `c`: the point `p` was returned by `can_shade`
    for `g = [c]`, or by `can_simul_shade` for `c` and its right / upper neighbour -/
def Entry (m : Mesh) (c : Cell) (p : Nat) (g : List Cell) : Prop :=
  (∃ l, canShade m c = .ok l ∧ p ∈ l ∧ g = [c]) ∨
  (c.1 < mlen m ∧ ∃ l, canSimulShade m c (c.1 + 1, c.2) = .ok l ∧ p ∈ l ∧ g = [c, (c.1 + 1, c.2)]) ∨
  (c.2 < mlen m ∧ ∃ l, canSimulShade m c (c.1, c.2 + 1) = .ok l ∧ p ∈ l ∧ g = [c, (c.1, c.2 + 1)])

theorem mem_cellEntries {m : Mesh} {c : Cell} {es : List (Nat × List Cell)}
    (h : cellEntries m c = .ok es) (p : Nat) (g : List Cell) : (p, g) ∈ es ↔ Entry m c p g := by
  unfold cellEntries at h
  cases ha : canShade m c with
  | error e => rw [ha] at h; cases h
  | ok a =>
    rw [ha] at h
    simp only at h
    cases hb : (if c.1 < mlen m then canSimulShade m c (c.1 + 1, c.2) else .ok []) with
    | error e => rw [hb] at h; cases h
    | ok b =>
      rw [hb] at h
      simp only at h
      cases hd : (if c.2 < mlen m then canSimulShade m c (c.1, c.2 + 1) else .ok []) with
      | error e => rw [hd] at h; cases h
      | ok d =>
        rw [hd] at h
        simp only [Except.ok.injEq] at h
        subst h
        unfold Entry
        simp only [List.mem_append, List.mem_map, Prod.mk.injEq, ha, Except.ok.injEq]
        constructor
        · rintro ((⟨q, hq, rfl, rfl⟩ | ⟨q, hq, rfl, rfl⟩) | ⟨q, hq, rfl, rfl⟩)
          · exact Or.inl ⟨a, rfl, hq, rfl⟩
          · by_cases h1 : c.1 < mlen m
            · rw [if_pos h1] at hb
              exact Or.inr (Or.inl ⟨h1, b, hb, hq, rfl⟩)
            · rw [if_neg h1] at hb; injection hb with hb; subst hb; simp at hq
          · by_cases h1 : c.2 < mlen m
            · rw [if_pos h1] at hd
              exact Or.inr (Or.inr ⟨h1, d, hd, hq, rfl⟩)
            · rw [if_neg h1] at hd; injection hd with hd; subst hd; simp at hq
        · rintro (⟨l, rfl, hp, rfl⟩ | ⟨h1, l, hl, hp, rfl⟩ | ⟨h1, l, hl, hp, rfl⟩)
          · exact Or.inl (Or.inl ⟨p, hp, rfl, rfl⟩)
          · rw [if_pos h1, hl] at hb; injection hb with hb; subst hb
            exact Or.inl (Or.inr ⟨p, hp, rfl, rfl⟩)
          · rw [if_pos h1, hl] at hd; injection hd with hd; subst hd
            exact Or.inr ⟨p, hp, rfl, rfl⟩

theorem mem_entriesOver {m : Mesh} : ∀ {cs : List Cell} {es : List (Nat × List Cell)},
    entriesOver m cs = .ok es → ∀ (p : Nat) (g : List Cell), (p, g) ∈ es ↔ ∃ c ∈ cs, Entry m c p g
  | [], es, h, p, g => by
    simp only [entriesOver, Except.ok.injEq] at h
    subst h; simp
  | c :: cs, es, h, p, g => by
    unfold entriesOver at h
    cases ha : cellEntries m c with
    | error e => rw [ha] at h; cases h
    | ok a =>
      rw [ha] at h
      simp only at h
      cases hr : entriesOver m cs with
      | error e => rw [hr] at h; cases h
      | ok r =>
        rw [hr] at h
        simp only [Except.ok.injEq] at h
        subst h
        rw [List.mem_append, mem_cellEntries ha, mem_entriesOver hr]
        simp only [List.mem_cons, exists_eq_or_imp]

theorem mem_gridCells (n : Nat) (c : Cell) : c ∈ gridCells n ↔ c.1 ≤ n ∧ c.2 ≤ n := by
  unfold gridCells
  simp only [List.mem_flatMap, List.mem_range, List.mem_map]
  constructor
  · rintro ⟨x, hx, y, hy, rfl⟩; exact ⟨by simp only; omega, by simp only; omega⟩
  · intro h; exact ⟨c.1, by omega, c.2, by omega, rfl⟩

theorem mem_groupByKey (es : List (Nat × List Cell)) (k : Nat) (g : List Cell) :
    (∃ gs, (k, gs) ∈ groupByKey es ∧ g ∈ gs) ↔ (k, g) ∈ es := by
  unfold groupByKey
  constructor
  · rintro ⟨gs, hgs, hg⟩
    rw [List.mem_map] at hgs
    obtain ⟨k', _, hk'⟩ := hgs
    injection hk' with e1 e2
    subst e1; subst e2
    rw [List.mem_map] at hg
    obtain ⟨⟨k'', g'⟩, h1, h2⟩ := hg
    rw [List.mem_filter] at h1
    simp only [beq_iff_eq] at h1 h2
    obtain ⟨h1, h3⟩ := h1
    subst h2; subst h3; exact h1
  · intro h
    refine ⟨(es.filter (·.1 == k)).map (·.2), ?_, ?_⟩
    · rw [List.mem_map]
      refine ⟨k, ?_, rfl⟩
      rw [List.mem_eraseDups, List.mem_map]
      exact ⟨(k, g), h, rfl⟩
    · rw [List.mem_map]
      exact ⟨(k, g), List.mem_filter.mpr ⟨h, by simp⟩, rfl⟩

end Spec.C18
