import PermutaModel.Lemmas.C04Orbit
/-! C04 helper lemmas for the `lexmin` command body: `Perm.to_standard` yields permutations and the
    basis built from the argument string only contains parsed patterns. -/
open Model

namespace C04L

/-- the order `sorted(enumerate(...), key=value)` uses: value first, position breaks ties -/
def pairLt (w v : Nat × Nat) : Bool := decide (w.1 < v.1) || (w.1 == v.1 && decide (w.2 < v.2))

theorem pairLt_irrefl (v : Nat × Nat) : pairLt v v = false := by simp [pairLt]

theorem pairLt_trans {a b c : Nat × Nat} (h1 : pairLt a b = true) (h2 : pairLt b c = true) :
    pairLt a c = true := by
  simp only [pairLt, Bool.or_eq_true, decide_eq_true_eq, Bool.and_eq_true, beq_iff_eq] at *
  omega

theorem pairLt_tri {a b : Nat × Nat} (h : a ≠ b) : pairLt a b = true ∨ pairLt b a = true := by
  simp only [pairLt, Bool.or_eq_true, decide_eq_true_eq, Bool.and_eq_true, beq_iff_eq]
  have : a.1 ≠ b.1 ∨ a.2 ≠ b.2 := by
    by_cases h1 : a.1 = b.1
    · right; intro h2; exact h (Prod.ext h1 h2)
    · left; exact h1
  omega

theorem nodup_zipIdx (l : List Nat) : l.zipIdx.Nodup := by
  apply List.Nodup.of_map Prod.snd
  rw [List.zipIdx_map_snd]
  exact List.nodup_range'

theorem standardize_eq (l : List Nat) :
    standardize l = l.zipIdx.map fun vi => (l.zipIdx.filter fun wj => pairLt wj vi).length := rfl

theorem rank_lt_of_pairLt (z : List (Nat × Nat)) {v w : Nat × Nat} (hv : v ∈ z) (h : pairLt v w = true) :
    (z.filter fun x => pairLt x v).length < (z.filter fun x => pairLt x w).length := by
  have e : z.filter (fun x => pairLt x v) = (z.filter fun x => pairLt x w).filter fun x => pairLt x v := by
    rw [List.filter_filter]
    apply List.filter_congr
    intro x _
    by_cases hx : pairLt x v = true
    · simp [hx, pairLt_trans hx h]
    · simp [hx]
  rw [e, List.length_filter_lt_length_iff_exists]
  exact ⟨v, List.mem_filter.mpr ⟨hv, h⟩, by simp [pairLt_irrefl]⟩

/-- `Perm.to_standard` returns a permutation, whatever the input (duplicates allowed) -/
theorem isPerm_standardize (l : List Nat) : IsPerm (standardize l) := by
  rw [standardize_eq]
  refine ⟨?_, ?_⟩
  · refine List.Nodup.map_on ?_ (nodup_zipIdx l)
    intro v hv w hw hvw
    by_contra hne
    rcases pairLt_tri hne with h | h
    · have := rank_lt_of_pairLt l.zipIdx hv h; omega
    · have := rank_lt_of_pairLt l.zipIdx hw h; omega
  · intro x hx
    obtain ⟨v, hv, rfl⟩ := List.mem_map.mp hx
    simp only [List.length_map, List.length_zipIdx]
    have : (l.zipIdx.filter fun wj => pairLt wj v).length < l.zipIdx.length := by
      rw [List.length_filter_lt_length_iff_exists]
      exact ⟨v, hv, by simp [pairLt_irrefl]⟩
    simpa using this

theorem mem_pruner_foldl (sorted nb : List NSeq) (x : NSeq)
    (hx : x ∈ sorted.foldl (fun nb p => if avoidsAll p nb then nb ++ [p] else nb) nb) :
    x ∈ nb ∨ x ∈ sorted := by
  induction sorted generalizing nb with
  | nil => exact Or.inl hx
  | cons p t ih =>
    rw [List.foldl_cons] at hx
    rcases ih _ hx with h | h
    · by_cases hc : avoidsAll p nb = true
      · rw [if_pos hc, List.mem_append] at h
        rcases h with h | h
        · exact Or.inl h
        · exact Or.inr (by simp at h; simp [h])
      · rw [if_neg hc] at h; exact Or.inl h
    · exact Or.inr (List.mem_cons_of_mem _ h)

theorem mem_symBasisNew {l : List NSeq} {x : NSeq} (hx : x ∈ symBasisNew l) : x ∈ l := by
  unfold symBasisNew at hx
  by_cases hl : l.isEmpty = true
  · rw [if_pos hl] at hx; simp at hx
  · rw [if_neg hl] at hx
    have hne : sortPerms l ≠ [] := by
      intro e
      have := (List.mergeSort_perm l permLe).length_eq
      unfold sortPerms at e
      rw [e] at this
      simp at this
      simp at hl
      exact hl (List.eq_nil_of_length_eq_zero this.symm)
    have hmemS : ∀ y, y ∈ sortPerms l → y ∈ l := fun y hy => List.mem_mergeSort.mp hy
    unfold symPruner at hx
    split_ifs at hx
    · simp only [List.mem_singleton] at hx
      subst hx
      apply hmemS
      cases hs : sortPerms l with
      | nil => exact absurd hs hne
      | cons a t => simp
    · rcases mem_pruner_foldl _ _ _ hx with h | h
      · simp at h
      · exact hmemS x h

/-- every pattern of the basis parsed from the argument string is a permutation -/
theorem isPerm_of_mem_symBasisFromString {s : String} {p : NSeq} (hp : p ∈ symBasisFromString s) :
    IsPerm p := by
  unfold symBasisFromString at hp
  obtain ⟨r, _, rfl⟩ := List.mem_map.mp (mem_symBasisNew hp)
  exact isPerm_standardize _

end C04L
