import PermutaModel.Lemmas.C15Explore
import PermutaModel.Lemmas.C15Nfa
/-!
The model's subset construction (`determinize`, state sets as bit masks) and its reachable product
(`product`) accept what they should.
-/
namespace C15Det
open Model.C15 Spec.C15 C15Ex

theorem letterIdx_some {x : Char} {i : Nat} (h : letterIdx x = some i) :
    i < DIRS.length ∧ DIRS.getD i ' ' = x ∧ x ∈ DIRS := by
  unfold letterIdx at h
  simp only at h
  split at h
  · rename_i hlt
    cases h
    have hmem : x ∈ DIRS := List.idxOf_lt_length_iff.mp hlt
    refine ⟨hlt, ?_, hmem⟩
    rw [List.getD_eq_getElem?_getD, List.getElem?_eq_getElem hlt]
    simp
  · cases h

theorem letterIdx_none {x : Char} (h : letterIdx x = none) : x ∉ DIRS := by
  unfold letterIdx at h
  simp only at h
  split at h
  · cases h
  · rename_i hlt
    intro hmem
    exact hlt (List.idxOf_lt_length_iff.mpr hmem)

theorem letterIdx_of_mem {x : Char} (h : x ∈ DIRS) : ∃ i, letterIdx x = some i := by
  cases hl : letterIdx x with
  | none => exact absurd h (letterIdx_none hl)
  | some i => exact ⟨i, rfl⟩

/-! ### subset construction -/

/-- the mask `S` represents the state list `L` -/
def Rep (S : Nat) (L : List Nat) : Prop := ∀ q, S.testBit q = true ↔ q ∈ L

theorem testBit_maskFold (E : List (Nat × Char × Nat)) (S : Nat) (c : Char) (q : Nat) : ∀ acc : Nat,
    (E.foldl (fun acc e => if e.2.1 == c && S.testBit e.1 then acc ||| (1 <<< e.2.2) else acc) acc).testBit q =
      (acc.testBit q || E.any fun e => e.2.1 == c && S.testBit e.1 && e.2.2 == q) := by
  induction E with
  | nil => intro acc; simp
  | cons e E ih =>
    intro acc
    rw [List.foldl_cons, ih]
    by_cases hc : (e.2.1 == c && S.testBit e.1) = true
    · simp only [hc, if_true, List.any_cons, Bool.true_and]
      rw [Nat.testBit_or, Nat.one_shiftLeft, Nat.testBit_two_pow]
      by_cases hq : e.2.2 = q
      · simp [hq]
      · have hq' : (e.2.2 == q) = false := by simpa using hq
        simp [hq', hq]
    · have hc' : (e.2.1 == c && S.testBit e.1) = false := by simpa using hc
      simp only [hc', Bool.false_eq_true, if_false, List.any_cons, Bool.false_and, Bool.false_or]

theorem testBit_maskStep (E : List (Nat × Char × Nat)) (S : Nat) (c : Char) (q : Nat) :
    (maskStep E S c).testBit q = true ↔ ∃ p, S.testBit p = true ∧ (p, c, q) ∈ E := by
  unfold maskStep
  rw [testBit_maskFold]
  simp only [Nat.zero_testBit, Bool.false_or, List.any_eq_true, Bool.and_eq_true, beq_iff_eq]
  constructor
  · rintro ⟨⟨p, c', q'⟩, he, ⟨hc, hp⟩, hq⟩
    simp only at hc hp hq
    subst hc; subst hq
    exact ⟨p, hp, he⟩
  · rintro ⟨p, hp, he⟩
    exact ⟨(p, c, q), he, ⟨rfl, hp⟩, rfl⟩

theorem rep_step (E : List (Nat × Char × Nat)) (S : Nat) (L : List Nat) (c : Char) (h : Rep S L) :
    Rep (maskStep E S c) (nfaStep E L c) := by
  intro q
  rw [testBit_maskStep, C15Nfa.mem_nfaStep]
  constructor
  · rintro ⟨p, hp, he⟩; exact ⟨p, (h p).mp hp, he⟩
  · rintro ⟨p, hp, he⟩; exact ⟨p, (h p).mpr hp, he⟩

theorem maskFold_lt (E : List (Nat × Char × Nat)) (n : Nat) (hE : C15Nfa.EdgesBelow E n) (S : Nat) (c : Char) :
    ∀ acc : Nat, acc < 2 ^ n →
    E.foldl (fun acc e => if e.2.1 == c && S.testBit e.1 then acc ||| (1 <<< e.2.2) else acc) acc < 2 ^ n := by
  induction E with
  | nil => intro acc h; exact h
  | cons e E ih =>
    intro acc h
    rw [List.foldl_cons]
    apply ih (fun x hx => hE x (by simp [hx]))
    split
    · apply Nat.or_lt_two_pow h
      rw [Nat.one_shiftLeft]
      exact Nat.pow_lt_pow_right (by omega) (hE e (by simp)).2
    · exact h

theorem maskStep_lt (E : List (Nat × Char × Nat)) (n : Nat) (hE : C15Nfa.EdgesBelow E n) (S : Nat) (c : Char) :
    maskStep E S c < 2 ^ n :=
  maskFold_lt E n hE S c 0 (Nat.two_pow_pos n)

/-- successor function of the subset construction -/
def detSucc (E : List (Nat × Char × Nat)) : Nat → List Nat := fun S => DIRS.map fun c => maskStep E S c

theorem detSucc_closed (E : List (Nat × Char × Nat)) (n : Nat) (hE : C15Nfa.EdgesBelow E n) :
    Closed (detSucc E) (2 ^ n) := by
  refine ⟨fun c _ => by simp [detSucc], ?_⟩
  intro c _ t ht
  obtain ⟨x, _, rfl⟩ := List.mem_map.mp ht
  exact maskStep_lt E n hE c x

theorem detSucc_getD (E : List (Nat × Char × Nat)) (S : Nat) {x : Char} {i : Nat} (h : letterIdx x = some i) :
    (detSucc E S).getD i 0 = maskStep E S x := by
  obtain ⟨hi, hx, _⟩ := letterIdx_some h
  unfold detSucc
  rw [List.getD_eq_getElem?_getD, List.getElem?_map, List.getElem?_eq_getElem hi]
  rw [List.getD_eq_getElem?_getD, List.getElem?_eq_getElem hi] at hx
  simp only [Option.getD_some] at hx
  simp [hx]

theorem det_crun (E : List (Nat × Char × Nat)) (w : Word) : ∀ (S : Nat) (L : List Nat), Rep S L →
    (AStar w → ∃ S', crun (detSucc E) (some S) w = some S' ∧ Rep S' (nfaRun E L w)) ∧
    (¬ AStar w → crun (detSucc E) (some S) w = none) := by
  induction w with
  | nil =>
    intro S L h
    exact ⟨fun _ => ⟨S, rfl, h⟩, fun hn => absurd C15Nfa.astar_nil hn⟩
  | cons x w ih =>
    intro S L h
    have hcons : AStar (x :: w) ↔ x ∈ DIRS ∧ AStar w := by
      unfold AStar; simp
    simp only [crun]
    cases hl : letterIdx x with
    | none =>
      have hx := letterIdx_none hl
      refine ⟨fun hA => absurd (hcons.mp hA).1 hx, fun _ => ?_⟩
      simp [crun_none]
    | some i =>
      have hx := (letterIdx_some hl).2.2
      simp only [Option.map_some, detSucc_getD E S hl]
      have := ih (maskStep E S x) (nfaStep E L x) (rep_step E S L x h)
      constructor
      · intro hA
        obtain ⟨S', h1, h2⟩ := this.1 (hcons.mp hA).2
        exact ⟨S', h1, h2⟩
      · intro hA
        exact this.2 (fun hw => hA (hcons.mpr ⟨hx, hw⟩))

theorem rep_one : Rep 1 [0] := by
  intro q
  rw [Nat.testBit_one_eq_true_iff_self_eq_zero]
  simp

theorem determinize_eq (m : NFA) : determinize m =
    ⟨(explore (detSucc m.edges) 1 (2 ^ m.n)).rows,
     (explore (detSucc m.edges) 1 (2 ^ m.n)).seen.map fun S => S.testBit (m.n - 1)⟩ := rfl

theorem one_lt_pow (n : Nat) (h : 0 < n) : 1 < 2 ^ n := by
  have : 2 ^ 1 ≤ 2 ^ n := Nat.pow_le_pow_right (by omega) h
  omega

/-- **the subset construction is correct**: for an NFA whose edges stay inside its `n ≥ 1` states, the
    determinised automaton accepts `w` iff `w` is over `DIRS` and the NFA accepts `w` -/
theorem determinize_accepts (m : NFA) (hpos : 0 < m.n) (hE : C15Nfa.EdgesBelow m.edges m.n) (w : Word) :
    (determinize m).accepts w = true ↔ AStar w ∧ nfaAccepts m w = true := by
  have hspec := explore_spec (detSucc m.edges) 1 (2 ^ m.n) (detSucc_closed m.edges m.n hE) (one_lt_pow m.n hpos)
  rw [determinize_eq, explored_accepts _ _ _ _ _ hspec]
  unfold cacc
  have := det_crun m.edges w 1 [0] rep_one
  by_cases hA : AStar w
  · obtain ⟨S', h1, h2⟩ := this.1 hA
    rw [h1]
    simp only [hA, true_and]
    unfold nfaAccepts
    rw [List.contains_iff_mem]
    exact h2 (m.n - 1)
  · rw [this.2 hA]
    simp [hA]

theorem determinize_good (m : NFA) (hpos : 0 < m.n) (hE : C15Nfa.EdgesBelow m.edges m.n) :
    Good (determinize m) := by
  have hspec := explore_spec (detSucc m.edges) 1 (2 ^ m.n) (detSucc_closed m.edges m.n hE) (one_lt_pow m.n hpos)
  rw [determinize_eq]
  exact explored_good _ _ _ _ _ hspec

/-! ### product -/

def prodSucc (a b : DFA) : Nat → List Nat := fun code => (List.range DIRS.length).map fun i =>
  a.step (code / b.size) i * b.size + b.step (code % b.size) i

theorem code_lt {na nb qa qb : Nat} (ha : qa < na) (hb : qb < nb) : qa * nb + qb < na * nb := by
  have : (qa + 1) * nb ≤ na * nb := Nat.mul_le_mul_right nb ha
  rw [Nat.succ_mul] at this
  omega

theorem prodSucc_closed (a b : DFA) (ha : Good a) (hb : Good b) : Closed (prodSucc a b) (a.size * b.size) := by
  refine ⟨fun c _ => by simp [prodSucc], ?_⟩
  intro c hc t ht
  obtain ⟨i, hi, rfl⟩ := List.mem_map.mp ht
  have hi : i < DIRS.length := by simpa using hi
  have hbpos := hb.pos
  have h1 : c / b.size < a.size := by
    rw [Nat.div_lt_iff_lt_mul hbpos]; exact hc
  have h2 : c % b.size < b.size := Nat.mod_lt _ hbpos
  exact code_lt (ha.wf _ h1 i hi) (hb.wf _ h2 i hi)

theorem prodSucc_getD (a b : DFA) (code i : Nat) (hi : i < DIRS.length) :
    (prodSucc a b code).getD i 0 = a.step (code / b.size) i * b.size + b.step (code % b.size) i := by
  unfold prodSucc
  rw [List.getD_eq_getElem?_getD, List.getElem?_map, List.getElem?_range hi]
  rfl

/-- pairing of two optional states -/
def pair (nb : Nat) : Option Nat → Option Nat → Option Nat
  | some x, some y => some (x * nb + y)
  | _, _ => none

theorem prod_crun (a b : DFA) (hb : Good b) (w : Word) : ∀ qa qb, qb < b.size →
    crun (prodSucc a b) (some (qa * b.size + qb)) w = pair b.size (a.run (some qa) w) (b.run (some qb) w) ∧
    (∀ rb, b.run (some qb) w = some rb → rb < b.size) := by
  induction w with
  | nil => intro qa qb hqb; exact ⟨rfl, fun rb h => by cases h; exact hqb⟩
  | cons x w ih =>
    intro qa qb hqb
    have hdiv : (qa * b.size + qb) / b.size = qa := by
      rw [Nat.mul_comm, Nat.mul_add_div hb.pos, Nat.div_eq_of_lt hqb]; rfl
    have hmod : (qa * b.size + qb) % b.size = qb := by
      rw [Nat.mul_comm, Nat.mul_add_mod, Nat.mod_eq_of_lt hqb]
    simp only [crun, C15Fin.run_cons]
    cases hl : letterIdx x with
    | none => simp [crun_none, C15Fin.run_none, pair]
    | some i =>
      have hi := C15Fin.letterIdx_lt hl
      simp only [Option.map_some]
      rw [prodSucc_getD a b _ i hi, hdiv, hmod]
      exact ih _ _ (hb.wf qb hqb i hi)

theorem product_eq (a b : DFA) (op : Bool → Bool → Bool) : product a b op =
    ⟨(explore (prodSucc a b) 0 (a.size * b.size)).rows,
     (explore (prodSucc a b) 0 (a.size * b.size)).seen.map fun code =>
       op (a.acc.getD (code / b.size) false) (b.acc.getD (code % b.size) false)⟩ := rfl

/-- **the product construction is correct**: the reachable product accepts `w` iff `op` of the two
    acceptance bits holds (`op false false = false`: both automata reject a word with a letter
    outside `DIRS`, and so does the product) -/
theorem product_accepts (a b : DFA) (ha : Good a) (hb : Good b) (op : Bool → Bool → Bool)
    (hop : op false false = false) (w : Word) :
    (product a b op).accepts w = op (a.accepts w) (b.accepts w) := by
  have hspec := explore_spec (prodSucc a b) 0 (a.size * b.size) (prodSucc_closed a b ha hb)
    (Nat.mul_pos ha.pos hb.pos)
  rw [product_eq, explored_accepts _ _ _ _ _ hspec]
  unfold cacc
  have h := prod_crun a b hb w 0 0 hb.pos
  simp only [Nat.zero_mul, Nat.zero_add] at h
  rw [h.1]
  unfold DFA.accepts
  cases hra : a.run (some 0) w with
  | none =>
    cases hrb : b.run (some 0) w with
    | none => simp [pair, hop]
    | some rb =>
      exfalso
      -- both runs fail on the same words
      have : ∀ (w : Word) (qa qb : Nat), a.run (some qa) w = none → b.run (some qb) w ≠ none → False := by
        intro w
        induction w with
        | nil => intro qa qb h1 _; simp [DFA.run] at h1
        | cons x w ih =>
          intro qa qb h1 h2
          rw [C15Fin.run_cons] at h1 h2
          cases hl : letterIdx x with
          | none => rw [hl] at h2; simp [C15Fin.run_none] at h2
          | some i => rw [hl] at h1 h2; exact ih _ _ h1 h2
      exact this w 0 0 hra (by rw [hrb]; simp)
  | some ra =>
    cases hrb : b.run (some 0) w with
    | none =>
      exfalso
      have : ∀ (w : Word) (qa qb : Nat), b.run (some qb) w = none → a.run (some qa) w ≠ none → False := by
        intro w
        induction w with
        | nil => intro qa qb h1 _; simp [DFA.run] at h1
        | cons x w ih =>
          intro qa qb h1 h2
          rw [C15Fin.run_cons] at h1 h2
          cases hl : letterIdx x with
          | none => rw [hl] at h2; simp [C15Fin.run_none] at h2
          | some i => rw [hl] at h1 h2; exact ih _ _ h1 h2
      exact this w 0 0 hrb (by rw [hra]; simp)
    | some rb =>
      have hrb' := h.2 rb hrb
      have hdiv : (ra * b.size + rb) / b.size = ra := by
        rw [Nat.mul_comm, Nat.mul_add_div hb.pos, Nat.div_eq_of_lt hrb']; rfl
      have hmod : (ra * b.size + rb) % b.size = rb := by
        rw [Nat.mul_comm, Nat.mul_add_mod, Nat.mod_eq_of_lt hrb']
      simp only [pair, hdiv, hmod]

theorem product_good (a b : DFA) (ha : Good a) (hb : Good b) (op : Bool → Bool → Bool) :
    Good (product a b op) := by
  have hspec := explore_spec (prodSucc a b) 0 (a.size * b.size) (prodSucc_closed a b ha hb)
    (Nat.mul_pos ha.pos hb.pos)
  rw [product_eq]
  exact explored_good _ _ _ _ _ hspec

theorem product_cert (a b : DFA) (ha : Good a) (hb : Good b) (op : Bool → Bool → Bool) :
    (product a b op).certB = true := by
  have hspec := explore_spec (prodSucc a b) 0 (a.size * b.size) (prodSucc_closed a b ha hb)
    (Nat.mul_pos ha.pos hb.pos)
  rw [product_eq]
  exact explored_cert _ _ _ _ _ hspec

end C15Det
