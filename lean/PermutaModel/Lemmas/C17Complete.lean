import PermutaModel.Lemmas.C17Sound
import Mathlib.Data.List.TakeWhile
/-! B1: completeness of `forb ∘ mine` up to `M`: every permutation of length at most `M` that is
    not in the input contains a learned mesh pattern. -/

namespace Model.C17

/-! ### `Perm.of_length k` has `k!` distinct members -/

theorem sum_map_const {α} (l : List α) (f : α → Nat) (c : Nat) (h : ∀ x ∈ l, f x = c) :
    (l.map f).sum = l.length * c := by
  induction l with
  | nil => simp
  | cons a t ih =>
    simp only [List.map_cons, List.sum_cons, List.length_cons]
    rw [h a (by simp), ih (fun x hx => h x (List.mem_cons_of_mem _ hx))]
    rw [Nat.add_mul]; omega

theorem length_permsAux (k : Nat) : ∀ l : List Nat, l.length = k → l.Nodup →
    (Model.permsAux k l).length = factorial k := by
  induction k with
  | zero => intro l _ _; simp [Model.permsAux, factorial]
  | succ k ih =>
    intro l hl hn
    simp only [Model.permsAux, List.length_flatMap, List.length_map]
    rw [sum_map_const l _ (factorial k)]
    · rw [hl]; simp [factorial]
    · intro x hx
      apply ih
      · rw [List.length_erase_of_mem hx, hl]; simp
      · exact hn.erase x

theorem nodup_permsAux (k : Nat) : ∀ l : List Nat, l.Nodup → (Model.permsAux k l).Nodup := by
  induction k with
  | zero => intro l _; simp [Model.permsAux]
  | succ k ih =>
    intro l hn
    simp only [Model.permsAux]
    rw [List.nodup_flatMap]
    constructor
    · intro x _
      apply List.Nodup.map _ (ih _ (hn.erase x))
      intro a b hab; simpa using hab
    · apply hn.imp
      intro a b hab
      simp only [Function.onFun]
      rw [List.disjoint_left]
      intro x hxa hxb
      obtain ⟨y, _, rfl⟩ := List.mem_map.mp hxa
      obtain ⟨z, _, hz⟩ := List.mem_map.mp hxb
      simp only [List.cons.injEq] at hz
      exact hab hz.1.symm

theorem length_permsLex (k : Nat) : (Model.permsLex k).length = factorial k :=
  length_permsAux k _ (by simp) List.nodup_range

theorem nodup_permsLex (k : Nat) : (Model.permsLex k).Nodup := nodup_permsAux k _ List.nodup_range

/-- a duplicate-free list of `k!` permutations of length `k` holds all of them -/
theorem full_level (Dj : List NSeq) (k : Nat) (hn : Dj.Nodup) (hp : ∀ p ∈ Dj, IsPerm p ∧ p.length = k)
    (hl : Dj.length = factorial k) (σ : NSeq) (hσ : IsPerm σ) (hσl : σ.length = k) : σ ∈ Dj := by
  have hsub : Dj ⊆ Model.permsLex k := fun p hp' => (mem_permsLex_iff k p).mpr (hp p hp')
  have hperm : Dj.Perm (Model.permsLex k) :=
    (List.subperm_of_subset hn hsub).perm_of_length_le (by rw [length_permsLex, hl])
  exact hperm.mem_iff.mpr ((mem_permsLex_iff k σ).mpr ⟨hσ, hσl⟩)

/-! ### every shading recorded for a pattern outside the input is non-empty -/

/-- `goodpatts[j][π]`, if present, holds only non-empty sets -/
def NonEmptyAt (gp : List Level) (j : Nat) (π : NSeq) : Prop :=
  ∀ Rs, alGet (gp.getD j []) π = some Rs → ∀ R ∈ Rs, R ≠ []

theorem shiftShading_ne (sh : Shading) (i v : Nat) : shiftShading sh i v ≠ [] := by
  unfold shiftShading; simp

theorem recordLevel_ne (lv : Level) (p : NSeq) (sh : Shading) (hsh : sh ≠ []) (π : NSeq)
    (h : ∀ Rs, alGet lv π = some Rs → ∀ R ∈ Rs, R ≠ []) :
    ∀ Rs, alGet (recordLevel lv p sh) π = some Rs → ∀ R ∈ Rs, R ≠ [] := by
  intro Rs hRs R hR
  unfold recordLevel at hRs
  by_cases hp : π = p
  · subst hp
    cases hg : alGet lv π with
    | none =>
      rw [hg] at hRs; simp only [alGet_alSet_same, Option.some.injEq] at hRs
      subst hRs; simp only [List.mem_singleton] at hR; subst hR; exact hsh
    | some Rs' =>
      rw [hg] at hRs; simp only at hRs
      split at hRs
      · rw [hg] at hRs; cases hRs; exact h _ hg R hR
      · simp only [alGet_alSet_same, Option.some.injEq] at hRs
        subst hRs
        rcases List.mem_append.mp hR with hR | hR
        · exact h _ hg R hR
        · simp only [List.mem_singleton] at hR; subst hR; exact hsh
  · have : alGet (recordLevel lv p sh) π = alGet lv π := by
      unfold recordLevel
      cases hg : alGet lv p with
      | none => simp only; exact alGet_alSet_ne _ _ _ _ hp
      | some Rs' =>
        simp only
        split
        · rfl
        · exact alGet_alSet_ne _ _ _ _ hp
    unfold recordLevel at this
    rw [this] at hRs
    exact h Rs hRs R hR

theorem record_ne (gp : List Level) (nL : Nat) (p : NSeq) (sh : Shading) (hsh : sh ≠ []) (j : Nat)
    (π : NSeq) (h : NonEmptyAt gp j π) : NonEmptyAt (record gp nL p sh) j π := by
  unfold NonEmptyAt record at *
  by_cases hj : nL = j
  · subst hj
    by_cases hn : nL < gp.length
    · rw [getD_set_self _ _ _ hn]; exact recordLevel_ne _ p sh hsh π h
    · rw [List.set_eq_of_length_le (by omega)]; exact h
  · rw [getD_set_ne _ _ _ _ hj]; exact h

theorem addGood_ne (minLen maxLen : Nat) (j : Nat) (π : NSeq) (L : Nat) :
    ∀ (τ : NSeq) (sh : Shading) (loc : Nat) (gp : List Level),
      NonEmptyAt gp j π → NonEmptyAt (addGood minLen maxLen L τ sh loc gp) j π := by
  induction L with
  | zero => intro τ sh loc gp h; simpa [addGood] using h
  | succ L ih =>
    intro τ sh loc gp h
    simp only [addGood]
    split
    · refine foldl_preserves (fun g : List Level => NonEmptyAt g j π) _ _ ?_ gp h
      intro b a _ hb
      split
      · apply ih; split
        · exact record_ne _ _ _ _ (shiftShading_ne _ _ _) _ _ hb
        · exact hb
      · split
        · exact record_ne _ _ _ _ (shiftShading_ne _ _ _) _ _ hb
        · exact hb
    · exact h

theorem initLevel_get_none (ps : List NSeq) (p : NSeq) (hp : p ∉ ps) : alGet (initLevel ps) p = none := by
  unfold initLevel
  have gen : ∀ (ps : List NSeq) (lv : Level), p ∉ ps → alGet lv p = none →
      alGet (ps.foldl (fun lv p => alSet lv p [[]]) lv) p = none := by
    intro ps
    induction ps with
    | nil => intro lv _ h; exact h
    | cons a t ih =>
      intro lv hnot h
      simp only [List.foldl_cons]
      apply ih _ (fun hm => hnot (List.mem_cons_of_mem _ hm))
      rw [alGet_alSet_ne _ _ _ _ (fun hpa => hnot (by simp [hpa]))]; exact h
  exact gen ps [] hp rfl

theorem pruneSeq_subset (orig : List Shading) : ∀ cur : List Shading, ∀ R ∈ pruneSeq orig cur, R ∈ cur := by
  induction orig with
  | nil => intro cur R h; exact h
  | cons R0 rest ih =>
    intro cur R h
    unfold pruneSeq at h
    split at h
    · exact List.mem_of_mem_eraseP (ih _ R h)
    · exact ih _ R h

theorem prune_step_ne (g : List Level) (j' j : Nat) (π : NSeq) (h : NonEmptyAt g j π) :
    NonEmptyAt (g.set j' (pruneLevel (g.getD j' []))) j π := by
  unfold NonEmptyAt at *
  by_cases hj : j' = j
  · subst hj
    by_cases hn : j' < g.length
    · rw [getD_set_self _ _ _ hn]
      intro Rs hRs R hR
      unfold pruneLevel at hRs
      rw [alGet_map (g.getD j' []) (fun Rs => pruneSeq Rs Rs) π] at hRs
      cases hg : alGet (g.getD j' []) π with
      | none => rw [hg] at hRs; cases hRs
      | some Rs0 =>
        rw [hg] at hRs; simp only [Option.map_some, Option.some.injEq] at hRs
        subst hRs
        exact h Rs0 hg R (pruneSeq_subset Rs0 Rs0 R hR)
    · rw [List.set_eq_of_length_le (by omega)]; exact h
  · rw [getD_set_ne _ _ _ _ hj]; exact h

/-- after `mine`, a pattern of length `≤ M` that is not a member of the input has only non-empty
    recorded sets -/
theorem mine_nonempty (D : Nat → List NSeq) (M N : Nat) (σ : NSeq) (hσM : σ.length ≤ M)
    (hσ : σ ∉ D σ.length) : NonEmptyAt (mine D M N).2 σ.length σ := by
  unfold mine
  split
  · intro Rs hRs; simp [alGet] at hRs
  · simp only
    unfold minePrune
    refine foldl_preserves (fun g : List Level => NonEmptyAt g σ.length σ) _ _
      (fun g j' _ hg => prune_step_ne g j' _ σ hg) _ ?_
    unfold mineLoop
    refine foldl_preserves (fun g : List Level => NonEmptyAt g σ.length σ) _ _ ?_ _ ?_
    · intro g i _ hg
      refine foldl_preserves (fun g : List Level => NonEmptyAt g σ.length σ) _ _ ?_ g hg
      intro g' p _ hg'
      exact addGood_ne _ _ _ _ _ _ _ _ _ hg'
    · intro Rs hRs
      rw [mineInit_getD D M _ hσM, initLevel_get_none _ σ hσ] at hRs
      cases hRs

/-! ### the hitting-set recursion finds a set unless a shorter learned pattern prunes it -/

theorem hitting_ne_or_prunable (perm : NSeq) (bad : PattDict) (ci : List Nat) (C forb : Shading)
    (lst : List Shading) : forb = [] → (∀ L ∈ lst, L ≠ []) →
    hitting perm bad ci C forb lst ≠ [] ∨ ∃ D, prunable perm D bad ci = true := by
  fun_induction hitting perm bad ci C forb lst with
  | case1 C forb lst h =>
    intro hf hne
    exfalso
    obtain ⟨L, hL, hsub⟩ := List.any_eq_true.mp h
    subst hf
    apply hne L hL
    cases L with
    | nil => rfl
    | cons a t => simp [subsetB] at hsub
  | case2 C forb lst hno hfil => intro _ _; left; simp
  | case3 C forb lst hno lst0 rest hfil hpr ih => intro _ _; right; exact ⟨_, hpr⟩
  | case4 C forb lst hno lst0 rest hfil hpr ih1 ih2 =>
    intro hf hne
    have hne' : ∀ L ∈ lst0 :: rest, L ≠ [] := by
      intro L hL; rw [← hfil] at hL; exact hne L (List.mem_filter.mp hL).1
    rcases ih1 hf hne' with h | h
    · left; intro happ
      exact h (List.append_eq_nil_iff.mp happ).1
    · right; exact h

theorem keepMinimal_ne (l : List Shading) (h : l ≠ []) : keepMinimal l ≠ [] := by
  induction l with
  | nil => exact absurd rfl h
  | cons r rest ih =>
    unfold keepMinimal
    split
    · rename_i hany
      apply ih
      intro hr; subst hr; simp at hany
    · simp

end Model.C17

namespace Model.C17

/-! ### a permutation contains every mesh pattern on itself; pruning witnesses containment -/

theorem meshScan_all_in (sh : Shading) (cand l : List Nat) (x : Nat) (h : ∀ e ∈ l, e ∈ cand) :
    Model.meshScan sh cand l x = true := by
  induction l generalizing x with
  | nil => simp [Model.meshScan]
  | cons e rest ih =>
    unfold Model.meshScan
    have : cand.contains e = true := by simpa using h e (by simp)
    simp only [this, if_true]
    exact ih (x + 1) (fun e' he' => h e' (List.mem_cons_of_mem _ he'))

theorem containsMesh_self {σ : NSeq} (hσ : IsPerm σ) (R : Shading) :
    Model.containsMesh σ ⟨σ, R⟩ = true := by
  unfold Model.containsMesh Model.meshOccInPerm
  simp only [Bool.not_eq_true', List.isEmpty_eq_false_iff_exists_mem, List.mem_filter]
  refine ⟨List.range σ.length, ?_, ?_⟩
  · rw [C01.mem_occurrencesIn_iff σ σ hσ hσ]
    refine ⟨by simp, List.pairwise_lt_range, fun i hi => List.mem_range.mp hi, ?_⟩
    intro a b ha hb
    have e : ∀ a, a < σ.length → (List.range σ.length).getD a 0 = a := by
      intro a ha; rw [getD_of_lt _ a (by simpa using ha)]; simp
    rw [e a ha, e b hb]
  · rw [map_getD_range]
    exact meshScan_all_in _ _ _ _ (fun e he => he)

theorem contains_of_occ_disjoint (σ q : NSeq) (c : List Nat) (R : Shading)
    (hc : c ∈ Model.occurrencesIn q σ) (hd : disjointB (hitBoxes (pick σ c) σ 0) R = true) :
    Model.containsMesh σ ⟨q, R⟩ = true := by
  unfold Model.containsMesh Model.meshOccInPerm
  simp only [Bool.not_eq_true', List.isEmpty_eq_false_iff_exists_mem, List.mem_filter]
  exact ⟨c, hc, by rw [meshScan_eq_disjoint]; exact hd⟩

theorem meshContainsPos_imp (perm : NSeq) (D : Shading) (q : NSeq) (Rs : List Shading)
    (h : meshContainsPos perm D (Model.occurrencesIn q perm) Rs = true) :
    ∃ R ∈ Rs, Model.containsMesh perm ⟨q, R⟩ = true := by
  unfold meshContainsPos at h
  obtain ⟨c, hc, hR⟩ := List.any_eq_true.mp h
  obtain ⟨R, hR, hcond⟩ := List.any_eq_true.mp hR
  simp only [Bool.and_eq_true] at hcond
  exact ⟨R, hR, contains_of_occ_disjoint perm q c R hc hcond.1⟩

theorem lookup_mem {β} (l : List (Nat × β)) (k : Nat) (v : β) (h : l.lookup k = some v) : (k, v) ∈ l := by
  obtain ⟨l1, l2, rfl, _⟩ := List.lookup_eq_some_iff.mp h
  simp

theorem any_level_imp (perm : NSeq) (bad : PattDict) (js : List Nat)
    (f : NSeq × List Shading → Bool)
    (hf : ∀ e, f e = true → ∃ R ∈ e.2, Model.containsMesh perm ⟨e.1, R⟩ = true)
    (h : (js.any fun j => ((bad.lookup j).getD []).any f) = true) :
    ∃ lv ∈ bad, ∃ e ∈ lv.2, ∃ R ∈ e.2, Model.containsMesh perm ⟨e.1, R⟩ = true := by
  obtain ⟨j, _, hj⟩ := List.any_eq_true.mp h
  obtain ⟨e, he, hfe⟩ := List.any_eq_true.mp hj
  cases hl : bad.lookup j with
  | none => rw [hl] at he; simp at he
  | some lv =>
    rw [hl] at he; simp only [Option.getD_some] at he
    obtain ⟨R, hR, hc⟩ := hf e hfe
    exact ⟨(j, lv), lookup_mem bad j lv hl, e, he, R, hR, hc⟩

/-! ### shape of `forb` (existence part) -/

theorem forbBad_level (gp : List Level) (ci : List Nat) (M j : Nat) (hj : j ∈ ci.takeWhile (· ≤ M)) :
    ∃ bad', (∀ x ∈ bad', x ∈ forbBad gp ci M) ∧
      (j, (Model.permsLex j).map fun p => (p, findBadpatts gp bad' ci p)) ∈ forbBad gp ci M := by
  unfold forbBad
  refine foldl_establish
    (fun acc : PattDict => ∃ bad', (∀ x ∈ bad', x ∈ acc) ∧
      (j, (Model.permsLex j).map fun p => (p, findBadpatts gp bad' ci p)) ∈ acc)
    (fun _ => True) _ _ j hj (fun _ _ _ => trivial) ?_ ?_ [] trivial
  · intro acc a _ ⟨bad', h1, h2⟩
    exact ⟨bad', fun x hx => List.mem_append_left _ (h1 x hx), List.mem_append_left _ h2⟩
  · intro acc _
    exact ⟨acc, fun x hx => List.mem_append_left _ hx, List.mem_append_right _ (by simp)⟩

theorem mem_meshesOf_forb (gp : List Level) (ci : List Nat) (M : Nat) (lv : Nat × Level)
    (e : NSeq × List Shading) (R : Shading) (hlv : lv ∈ forbBad gp ci M) (he : e ∈ lv.2) (hR : R ∈ e.2) :
    (⟨e.1, R⟩ : Mesh) ∈ meshesOf (forb gp ci M) := by
  unfold meshesOf forb
  simp only [List.mem_flatMap, List.mem_map]
  refine ⟨(lv.1, lv.2.filter fun e => !e.2.isEmpty), ⟨lv, hlv, rfl⟩, e, ?_, R, hR, rfl⟩
  simp only [List.mem_filter, Bool.not_eq_true', List.isEmpty_eq_false_iff_exists_mem]
  exact ⟨he, R, hR⟩

theorem mine_fst (D : Nat → List NSeq) (M N j : Nat) (h : j ∈ mineCi D M) :
    (mine D M N).1 = mineCi D M := by
  unfold mine
  have : (mineCi D M).isEmpty = false := by
    cases hc : mineCi D M with
    | nil => rw [hc] at h; cases h
    | cons a t => rfl
  simp [this]

/-- **B1** completeness of `forb ∘ mine` -/
theorem forb_mine_complete (D : Nat → List NSeq) (M N : Nat) (hn : ∀ k, (D k).Nodup)
    (hD : ∀ k, ∀ p ∈ D k, IsPerm p ∧ p.length = k)
    (σ : NSeq) (hσ : IsPerm σ) (hσM : σ.length ≤ M) (hnot : σ ∉ D σ.length) :
    ∃ p ∈ meshesOf (forb (mine D M N).2 (mine D M N).1 M), Model.containsMesh σ p = true := by
  have hjci : σ.length ∈ mineCi D M := by
    unfold mineCi
    rw [List.mem_filter, List.mem_range]
    refine ⟨by omega, ?_⟩
    simp only [bne_iff_ne, ne_eq]
    intro hl
    exact hnot (full_level (D σ.length) σ.length (hn _) (hD _) hl σ hσ rfl)
  rw [mine_fst D M N _ hjci]
  have htw : (mineCi D M).takeWhile (· ≤ M) = mineCi D M := by
    rw [List.takeWhile_eq_self_iff]
    intro x hx; simpa using mineCi_le D M x hx
  obtain ⟨bad', hsub, hlv⟩ := forbBad_level (mine D M N).2 (mineCi D M) M σ.length (by rw [htw]; exact hjci)
  have he : (σ, findBadpatts (mine D M N).2 bad' (mineCi D M) σ) ∈
      (Model.permsLex σ.length).map fun p => (p, findBadpatts (mine D M N).2 bad' (mineCi D M) p) :=
    List.mem_map.mpr ⟨σ, (mem_permsLex_iff _ σ).mpr ⟨hσ, rfl⟩, rfl⟩
  have hne := mine_nonempty D M N σ hσM hnot
  have key : (∃ R, R ∈ findBadpatts (mine D M N).2 bad' (mineCi D M) σ) ∨
      ∃ lv ∈ bad', ∃ e ∈ lv.2, ∃ R ∈ e.2, Model.containsMesh σ ⟨e.1, R⟩ = true := by
    unfold findBadpatts
    cases hg : alGet ((mine D M N).2.getD σ.length []) σ with
    | some Ls =>
      simp only
      rcases hitting_ne_or_prunable σ bad' (mineCi D M) [] [] Ls rfl (hne Ls hg) with h | ⟨Dd, h⟩
      · left
        have h2 : (hitting σ bad' (mineCi D M) [] [] Ls).mergeSort (fun a b => setSize a ≥ setSize b) ≠ [] := by
          intro h0
          have := congrArg List.length h0
          rw [List.length_mergeSort] at this
          exact h (List.eq_nil_of_length_eq_zero this)
        exact List.exists_mem_of_ne_nil _ (keepMinimal_ne _ h2)
      · right
        unfold prunable at h
        exact any_level_imp σ bad' _ _ (fun e he => meshContainsPos_imp σ Dd e.1 e.2 he) h
    | none =>
      simp only
      split
      · rename_i h
        right
        exact any_level_imp σ bad' _ _ (fun e he => meshContainsPos_imp σ [] e.1 e.2 he) h
      · left; exact ⟨[], by simp⟩
  rcases key with ⟨R, hR⟩ | ⟨lv, hlvb, e, he', R, hR, hc⟩
  · exact ⟨⟨σ, R⟩, mem_meshesOf_forb _ _ _ _ (σ, _) R hlv he hR, containsMesh_self hσ R⟩
  · exact ⟨⟨e.1, R⟩, mem_meshesOf_forb _ _ _ lv e R (hsub lv hlvb) he' hR, hc⟩

end Model.C17
