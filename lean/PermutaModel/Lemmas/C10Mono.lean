import PermutaModel.Lemmas.C10Std
import PermutaModel.Spec.C10

/-! Monotone block decomposition: maximal runs; contractions return permutations. -/
open Model Spec.C10

namespace C10L

def kAsc : MonoKind → Bool
  | .both => true | .asc => true | .desc => false
def kDesc : MonoKind → Bool
  | .both => true | .asc => false | .desc => true

theorem cmp_iff (k : MonoKind) (a b : Nat) : k.cmp a b = true ↔ stepOk (kAsc k) (kDesc k) a b := by
  cases k <;> simp [MonoKind.cmp, stepOk, kAsc, kDesc]

/-- without the length-one blocks = the full list filtered by `start < end` -/
theorem monoGo_false_eq_filter (k : MonoKind) (rest : List (Nat × Nat)) (idx : Nat) (diff : Int)
    (start length : Nat) :
    monoGo k false rest idx diff start length =
      (monoGo k true rest idx diff start length).filter fun se => se.1 < se.2 := by
  induction rest generalizing idx diff start length with
  | nil =>
    unfold monoGo
    by_cases h : length > 0
    · simp [h]
    · have : length = 0 := by omega
      subst this; simp
  | cons pc rest ih =>
    obtain ⟨prev, curr⟩ := pc
    unfold monoGo
    split
    · exact ih _ _ _ _
    · by_cases h : length > 0
      · simp [h, ih]
      · have : length = 0 := by omega
        subst this; simp [ih]

theorem monoBlocks_false_eq_filter (k : MonoKind) (p : NSeq) :
    monoBlocks k p false = (monoBlocks k p true).filter fun se => se.1 < se.2 := by
  unfold monoBlocks
  split
  · rfl
  · exact monoGo_false_eq_filter k _ _ _ _ _

theorem pairs_drop_facts {p : NSeq} {idx prev curr : Nat} {rest : List (Nat × Nat)}
    (h : (p.zip p.tail).drop idx = (prev, curr) :: rest) :
    idx + 1 < p.length ∧ p.getD idx 0 = prev ∧ p.getD (idx + 1) 0 = curr ∧
      (p.zip p.tail).drop (idx + 1) = rest := by
  have hi : idx < (p.zip p.tail).length := by
    by_contra hc
    rw [List.drop_of_length_le (by omega)] at h
    exact absurd h (by simp)
  have hi2 : idx + 1 < p.length := by
    simp only [List.length_zip, List.length_tail] at hi; omega
  rw [List.drop_eq_getElem_cons hi] at h
  injection h with h1 h2
  rw [List.getElem_zip, List.getElem_tail] at h1
  injection h1 with ha hb
  refine ⟨hi2, ?_, ?_, h2⟩
  · rw [getD_eq_getElem' (by omega)]; exact ha
  · rw [getD_eq_getElem' hi2]; exact hb

/-- loop invariant of `_block_decomposition_generator` (with the length-one blocks) -/
theorem monoGo_partition (k : MonoKind) (p : NSeq) (hn : 0 < p.length) :
    ∀ (rest : List (Nat × Nat)) (idx : Nat) (diff : Int) (start length : Nat),
      (p.zip p.tail).drop idx = rest → start + length = idx → idx < p.length →
      (∀ j, start ≤ j → j < idx → stepOk (kAsc k) (kDesc k) (p.getD j 0) (p.getD (j + 1) 0) ∧
        (p.getD (j + 1) 0 : Int) - (p.getD j 0 : Int) = diff) →
      RunPartition (kAsc k) (kDesc k) p start (monoGo k true rest idx diff start length) := by
  intro rest
  induction rest with
  | nil =>
    intro idx diff start length hdrop hsl hidx hrun
    have hlen : idx = p.length - 1 := by
      have := List.drop_eq_nil_iff.mp hdrop
      simp only [List.length_zip, List.length_tail] at this
      omega
    unfold monoGo
    simp only [or_true, if_true]
    rw [hsl, hlen]
    exact RunPartition.last ⟨by omega, by omega, diff, fun j h1 h2 => hrun j h1 (by omega)⟩
  | cons pc rest ih =>
    intro idx diff start length hdrop hsl hidx hrun
    obtain ⟨prev, curr⟩ := pc
    obtain ⟨hi2, hprev, hcurr, hdrop'⟩ := pairs_drop_facts hdrop
    unfold monoGo
    split
    · next hc =>
      apply ih (idx + 1) _ start (length + 1) hdrop' (by omega) hi2
      intro j h1 h2
      by_cases hj : j < idx
      · have := hrun j h1 hj
        refine ⟨this.1, ?_⟩
        rcases hc.2 with h0 | hd
        · omega
        · rw [this.2, hd]
      · have : j = idx := by omega
        subst this
        rw [hprev, hcurr]
        exact ⟨(cmp_iff k prev curr).mp hc.1, rfl⟩
    · next hc =>
      simp only [or_true, if_true]
      rw [hsl]
      apply RunPartition.cons
      · exact ⟨by omega, by omega, diff, fun j h1 h2 => hrun j h1 h2⟩
      · exact hi2
      · intro hext
        apply hc
        unfold Extends at hext
        rw [hprev, hcurr] at hext
        refine ⟨(cmp_iff k prev curr).mpr hext.1, ?_⟩
        by_cases hl : length = 0
        · exact Or.inl hl
        · right
          rcases hext.2 with h | h
          · omega
          · have := (hrun (idx - 1) (by omega) (by omega)).2
            rw [show idx - 1 + 1 = idx by omega, hprev] at this
            rw [h, this]
      · exact ih (idx + 1) 0 (idx + 1) 0 hdrop' (by omega) hi2 (fun j h1 h2 => by omega)

/-- **monotone blocks** (with length-one blocks): a partition of all positions into maximal runs -/
theorem monoBlocks_partition (k : MonoKind) (p : NSeq) (hn : 0 < p.length) :
    RunPartition (kAsc k) (kDesc k) p 0 (monoBlocks k p true) := by
  unfold monoBlocks
  rw [if_neg (by omega)]
  exact monoGo_partition k p hn _ 0 0 0 0 (by simp) rfl hn (fun j _ h2 => by omega)

/-- the starts of a run partition are strictly increasing positions -/
theorem runPartition_starts {asc desc : Bool} {p : NSeq} {s : Nat} {l : List (Nat × Nat)}
    (h : RunPartition asc desc p s l) :
    (l.map Prod.fst).Pairwise (· < ·) ∧ ∀ x ∈ l.map Prod.fst, s ≤ x ∧ x < p.length := by
  induction h with
  | last hr =>
    obtain ⟨h1, h2, _⟩ := hr
    simp only [List.map_cons, List.map_nil, List.pairwise_cons, List.not_mem_nil, false_imp_iff,
      implies_true, List.Pairwise.nil, and_self, List.mem_singleton, true_and]
    intro x hx; subst hx; omega
  | cons hr he _ _ ih =>
    obtain ⟨h1, h2, _⟩ := hr
    simp only [List.map_cons, List.pairwise_cons, List.mem_cons]
    refine ⟨⟨fun x hx => by have := (ih.2 x hx).1; omega, ih.1⟩, ?_⟩
    rintro x (rfl | hx)
    · omega
    · have := ih.2 x hx; omega

/-- ranks of a duplicate-free list form a permutation -/
theorem standardize_isPerm_of_nodup {l : NSeq} (hn : l.Nodup) : IsPerm (standardize l) := by
  rw [standardize_nodup hn]
  have hlt : ∀ v w, v ∈ l → v < w → (l.filter (· < v)).length < (l.filter (· < w)).length := by
    intro v w hv hvw
    have : l.filter (· < v) = (l.filter (· < w)).filter (· < v) := by
      rw [List.filter_filter]
      apply List.filter_congr
      intro x _
      by_cases h : x < v
      · have : x < w := by omega
        simp [h, this]
      · simp [h]
    rw [this, List.length_filter_lt_length_iff_exists]
    exact ⟨v, List.mem_filter.mpr ⟨hv, by simpa using hvw⟩, by simp⟩
  refine ⟨?_, ?_⟩
  · apply List.Nodup.map_on _ hn
    intro x hx y hy hxy
    by_contra hne
    rcases Nat.lt_or_gt_of_ne hne with h | h
    · have := hlt x y hx h; omega
    · have := hlt y x hy h; omega
  · intro r hr
    obtain ⟨v, hv, rfl⟩ := List.mem_map.mp hr
    rw [List.length_map, List.length_filter_lt_length_iff_exists]
    exact ⟨v, hv, by simp⟩

/-- the contractions (`contract_inc_bonds`, `contract_dec_bonds`, `contract_bonds`,
    `monotone_quotient`) return permutations with one point per run -/
theorem contract_isPerm (k : MonoKind) {p : NSeq} (hp : IsPerm p) :
    IsPerm (contract k p) ∧ (contract k p).length = (monoBlocks k p true).length := by
  unfold contract
  refine ⟨?_, by simp [standardize]⟩
  by_cases hn : p.length = 0
  · simp [monoBlocks, hn, standardize]; decide
  · apply standardize_isPerm_of_nodup
    obtain ⟨h1, h2⟩ := runPartition_starts (monoBlocks_partition k p (by omega))
    have : (monoBlocks k p true).map (fun se => p.getD se.1 0) =
        ((monoBlocks k p true).map Prod.fst).map (fun i => p.getD i 0) := by
      rw [List.map_map]; rfl
    rw [this]
    apply List.Nodup.map_on _ (h1.imp (fun h => Nat.ne_of_lt h))
    intro x hx y hy hxy
    exact hp.getD_inj (h2 x hx).2 (h2 y hy).2 hxy

end C10L
