import PermutaModel.Lemmas.C04MeshBridge
import PermutaModel.Props.C01
/-! C04 helper lemmas: the executable scan of `MeshPatt._occurrences_in_perm` (Model/Mesh.lean)
    decides the property's wording of mesh containment. -/
open Model

namespace C04L

theorem meshScan_iff (sh : List Cell) (cand : List Nat) (l : List Nat) (x : Nat) :
    meshScan sh cand l x = true ↔
      ∀ t (ht : t < l.length), l[t] ∉ cand →
        (x + ((l.take t).filter fun e => cand.contains e).length, Spec.countLt cand l[t]) ∉ sh := by
  induction l generalizing x with
  | nil => simp [meshScan]
  | cons e rest ih =>
    unfold meshScan
    by_cases hc : cand.contains e = true
    · simp only [hc, if_true]
      rw [ih]
      constructor
      · intro h t ht hnot
        cases t with
        | zero => exact absurd (List.contains_iff_mem.mp hc) hnot
        | succ s =>
          have := h s (by simpa using ht) hnot
          simp only [List.take_succ_cons, List.filter_cons, hc, if_true, List.length_cons,
            List.getElem_cons_succ]
          have e : x + (((rest.take s).filter fun e => cand.contains e).length + 1) =
              x + 1 + ((rest.take s).filter fun e => cand.contains e).length := by omega
          rw [e]; exact this
      · intro h s hs hnot
        have := h (s + 1) (by simpa using hs) hnot
        simp only [List.take_succ_cons, List.filter_cons, hc, if_true, List.length_cons,
          List.getElem_cons_succ] at this
        have e : x + (((rest.take s).filter fun e => cand.contains e).length + 1) =
            x + 1 + ((rest.take s).filter fun e => cand.contains e).length := by omega
        rw [e] at this; exact this
    · simp only [hc, Bool.false_eq_true, if_false]
      have hnotmem : e ∉ cand := fun hm => hc (List.contains_iff_mem.mpr hm)
      by_cases hs : sh.contains (x, (cand.filter (· < e)).length) = true
      · simp only [hs, if_true]
        constructor
        · intro h; exact absurd h Bool.false_ne_true
        · intro h
          have := h 0 (by simp) hnotmem
          simp only [List.take_zero, List.filter_nil, List.length_nil, Nat.add_zero,
            List.getElem_cons_zero] at this
          exact absurd (List.contains_iff_mem.mp hs) this
      · simp only [hs, Bool.false_eq_true, if_false]
        rw [ih]
        constructor
        · intro h t ht hnot
          cases t with
          | zero =>
            simp only [List.take_zero, List.filter_nil, List.length_nil, Nat.add_zero,
              List.getElem_cons_zero]
            intro hm; exact hs (List.contains_iff_mem.mpr hm)
          | succ s =>
            have := h s (by simpa using ht) hnot
            simpa only [List.take_succ_cons, List.filter_cons, hc, Bool.false_eq_true, if_false,
              List.getElem_cons_succ] using this
        · intro h s hs' hnot
          have := h (s + 1) (by simpa using hs') hnot
          simpa only [List.take_succ_cons, List.filter_cons, hc, Bool.false_eq_true, if_false,
            List.getElem_cons_succ] using this

theorem take_eq_map_range (σ : NSeq) {i : Nat} (hi : i ≤ σ.length) :
    σ.take i = (List.range i).map fun s => σ.getD s 0 := by
  apply ext_getD (by simp; omega)
  intro t ht
  have ht' : t < i := by simp at ht; omega
  rw [getD_map_range _ ht', getD_of_lt _ ht, getD_of_lt _ (by omega), List.getElem_take]

theorem strictInc_nodup {c : List Nat} (h : StrictInc c) : c.Nodup := by
  unfold StrictInc at h
  exact h.imp (fun hab => Nat.ne_of_lt hab)

/-- the scan run on the whole permutation checks exactly the `free` clause of `IsMeshOcc` -/
theorem meshScan_occ_iff {π σ : NSeq} (sh : List Cell) (hσ : IsPerm σ) {c : List Nat} (hc : IsOcc π σ c) :
    meshScan sh (c.map fun i => σ.getD i 0) σ 0 = true ↔
      ∀ i, i < σ.length → i ∉ c →
        (Spec.countLt c i, Spec.countLt (c.map fun j => σ.getD j 0) (σ.getD i 0)) ∉ sh := by
  rw [meshScan_iff]
  have hmem : ∀ i, i < σ.length → (σ.getD i 0 ∈ (c.map fun j => σ.getD j 0) ↔ i ∈ c) := by
    intro i hi
    rw [List.mem_map]
    constructor
    · rintro ⟨j, hj, e⟩
      have := hσ.getD_inj (hc.rng j hj) hi e
      rw [← this]; exact hj
    · intro h; exact ⟨i, h, rfl⟩
  have hcount : ∀ i, i < σ.length →
      ((σ.take i).filter fun e => (c.map fun j => σ.getD j 0).contains e).length = Spec.countLt c i := by
    intro i hi
    rw [take_eq_map_range σ (by omega), List.filter_map, List.length_map]
    unfold Spec.countLt
    apply List.Perm.length_eq
    rw [List.perm_ext_iff_of_nodup (List.nodup_range.filter _) ((strictInc_nodup hc.inc).filter _)]
    intro s
    simp only [List.mem_filter, List.mem_range, Function.comp, List.contains_iff_mem, decide_eq_true_eq]
    constructor
    · rintro ⟨hs, hm⟩
      exact ⟨(hmem s (by omega)).mp hm, hs⟩
    · rintro ⟨hm, hs⟩
      exact ⟨hs, (hmem s (by omega)).mpr hm⟩
  constructor
  · intro h i hi hic
    have := h i hi (by rw [← getD_of_lt σ hi, hmem i hi]; exact hic)
    rwa [hcount i hi, Nat.zero_add, ← getD_of_lt σ hi] at this
  · intro h t ht hnot
    rw [← getD_of_lt σ ht] at hnot ⊢
    rw [hcount t ht, Nat.zero_add]
    exact h t ht (by rwa [hmem t ht] at hnot)

/-- **the executable mesh containment test decides `MeshContains`** -/
theorem containsMesh_iff {m : Mesh} {σ : NSeq} (hπ : IsPerm m.pattern) (hσ : IsPerm σ) :
    Model.containsMesh σ m = true ↔ MeshContains σ m := by
  unfold Model.containsMesh Model.meshOccInPerm MeshContains
  constructor
  · intro h
    cases hl : (occurrencesIn m.pattern σ).filter fun c =>
        meshScan m.shading (c.map fun i => σ.getD i 0) σ 0 with
    | nil => rw [hl] at h; simp at h
    | cons c t =>
      have hmem : c ∈ (occurrencesIn m.pattern σ).filter fun c =>
          meshScan m.shading (c.map fun i => σ.getD i 0) σ 0 := by rw [hl]; simp
      rw [List.mem_filter] at hmem
      have hocc := (C01.mem_occurrencesIn_iff m.pattern σ hπ hσ c).mp hmem.1
      exact ⟨c, hocc, (meshScan_occ_iff m.shading hσ hocc).mp hmem.2⟩
  · rintro ⟨c, hocc, hfree⟩
    have hmem : c ∈ (occurrencesIn m.pattern σ).filter fun c =>
        meshScan m.shading (c.map fun i => σ.getD i 0) σ 0 := by
      rw [List.mem_filter]
      exact ⟨(C01.mem_occurrencesIn_iff m.pattern σ hπ hσ c).mpr hocc,
        (meshScan_occ_iff m.shading hσ hocc).mpr hfree⟩
    cases hl : (occurrencesIn m.pattern σ).filter fun c =>
        meshScan m.shading (c.map fun i => σ.getD i 0) σ 0 with
    | nil => rw [hl] at hmem; simp at hmem
    | cons c t => simp

end C04L
