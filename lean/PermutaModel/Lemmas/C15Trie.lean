import PermutaModel.Lemmas.C15M
import PermutaModel.Lemmas.C15Nfa
/-! the trie enumerations executed by the driver equal the plain per-word definitions -/
namespace C15Trie
open Model.C15 Spec.C15

theorem flatMap_congr' {α β} {l : List α} {f g : α → List β} (h : ∀ a ∈ l, f a = g a) :
    l.flatMap f = l.flatMap g := by
  induction l with
  | nil => rfl
  | cons a t ih =>
    simp only [List.flatMap_cons]
    rw [h a (by simp), ih (fun b hb => h b (by simp [hb]))]

theorem tailLang_pad (fs : List (List Word)) (hne : fs ≠ []) (y : Word) (hy : AStar y) :
    ∀ w, tailLang fs w → tailLang fs (w ++ y) := by
  induction fs with
  | nil => exact absurd rfl hne
  | cons alts rest ih =>
    intro w hw
    obtain ⟨v, w2, w3, rfl, hv, hA, ht⟩ := hw
    cases rest with
    | nil =>
      simp only [tailLang] at ht
      subst ht
      exact ⟨v, w2 ++ y, [], by simp, hv, C15Nfa.astar_append.mpr ⟨hA, hy⟩, rfl⟩
    | cons a r =>
      exact ⟨v, w2, w3 ++ y, by simp, hv, hA, ih (by simp) w3 ht⟩

theorem regexLang_pad (fs : List (List Word)) (w x y : Word) (hx : AStar x) (hy : AStar y)
    (h : regexLang fs w) : regexLang fs (x ++ w ++ y) := by
  obtain ⟨w0, w1, rfl, hA, ht⟩ := h
  cases fs with
  | nil =>
    simp only [tailLang] at ht
    subst ht
    exact ⟨x ++ w0 ++ y, [], by simp,
      C15Nfa.astar_append.mpr ⟨C15Nfa.astar_append.mpr ⟨hx, hA⟩, hy⟩, rfl⟩
  | cons a r =>
    exact ⟨x ++ w0, w1 ++ y, by simp, C15Nfa.astar_append.mpr ⟨hx, hA⟩,
      tailLang_pad (a :: r) (by simp) y hy w1 ht⟩

theorem zip_map_any (ms : List NFA) (f : NFA → List Nat) (g : NFA × List Nat → Bool) :
    (ms.zip (ms.map f)).any g = ms.any fun m => g (m, f m) := by
  induction ms with
  | nil => rfl
  | cons m t ih => simp [ih]

theorem zip_map_map (ms : List NFA) (f : NFA → List Nat) (g : NFA × List Nat → List Nat) :
    (ms.zip (ms.map f)).map g = ms.map fun m => g (m, f m) := by
  induction ms with
  | nil => rfl
  | cons m t ih => simp [ih]

theorem nfaRun_snoc (E : List (Nat × Char × Nat)) (S : List Nat) (x : Word) (c : Char) :
    nfaRun E S (x ++ [c]) = nfaStep E (nfaRun E S x) c := by
  simp [nfaRun, List.foldl_append]

theorem trieBits_eq (ms : List NFA) (d : Nat) : ∀ x : Word,
    trieBits ms d (ms.map fun m => nfaRun m.edges [0] x) =
      (trieWords d x).map fun w => ms.any fun m => nfaAccepts m w := by
  induction d with
  | zero =>
    intro x
    simp only [trieBits, trieWords, List.map_cons, List.map_nil]
    rw [zip_map_any]
    rfl
  | succ d ih =>
    intro x
    simp only [trieBits, trieWords, List.map_cons, List.map_flatMap]
    rw [zip_map_any]
    congr 1
    apply flatMap_congr'
    intro c _
    rw [zip_map_map]
    have : (ms.map fun m => nfaStep m.edges (nfaRun m.edges [0] x) c) =
        ms.map fun m => nfaRun m.edges [0] (x ++ [c]) := by
      apply List.map_congr_left
      intro m _
      rw [nfaRun_snoc]
    rw [this, ih]

theorem inM_prefix (x y : Word) (h : InM (x ++ y)) : InM x := by
  refine ⟨fun c hc => h.1 c (by simp [hc]), ?_⟩
  intro u a b v e
  exact h.2 u a b (v ++ y) (by simp [e])

theorem mTrieWords_eq (dfaM_language : ∀ w, dfaMAccepts w = true ↔ InM w) (d : Nat) : ∀ x : Word,
    dfaMAccepts x = true → mTrieWords d x = (trieWords d x).filter dfaMAccepts := by
  induction d with
  | zero => intro x hx; simp [mTrieWords, trieWords, hx]
  | succ d ih =>
    intro x hx
    simp only [mTrieWords, trieWords, List.filter_cons, hx, if_true, List.filter_flatMap]
    congr 1
    apply flatMap_congr'
    intro c _
    by_cases hc : dfaMAccepts (x ++ [c]) = true
    · simp only [hc, if_true]; exact ih _ hc
    · have hc' : dfaMAccepts (x ++ [c]) = false := by simpa using hc
      simp only [hc', Bool.false_eq_true, if_false]
      symm
      rw [List.filter_eq_nil_iff]
      intro w hw
      -- every word of the subtrie extends `x ++ [c]`
      have hext : ∀ (d : Nat) (y w : Word), w ∈ trieWords d y → ∃ z, w = y ++ z := by
        intro d
        induction d with
        | zero => intro y w hw; simp [trieWords] at hw; exact ⟨[], by simp [hw]⟩
        | succ d ihd =>
          intro y w hw
          simp only [trieWords, List.mem_cons, List.mem_flatMap] at hw
          rcases hw with rfl | ⟨c', _, hw⟩
          · exact ⟨[], by simp⟩
          · obtain ⟨z, rfl⟩ := ihd _ _ hw
            exact ⟨c' :: z, by simp⟩
      obtain ⟨z, rfl⟩ := hext d _ _ hw
      intro hacc
      exact hc ((dfaM_language _).mpr (inM_prefix _ z ((dfaM_language _).mp hacc)))

end C15Trie
