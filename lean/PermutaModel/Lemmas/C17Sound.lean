import PermutaModel.Lemmas.C17MineTop
import PermutaModel.Lemmas.C17Hitting
import PermutaModel.Lemmas.C17Contain
import PermutaModel.Props.C01
/-! A4: soundness of `forb ∘ mine` from A1 (containment test), A2 (hitting sets) and A3 (coverage). -/

namespace Model.C17

/-! ### `Perm.of_length` lists exactly the permutations of that length -/

theorem mem_permsAux (k : Nat) : ∀ (l : List Nat) (x : List Nat), l.Nodup → x ∈ Model.permsAux k l →
    x.length = k ∧ x.Nodup ∧ ∀ a ∈ x, a ∈ l := by
  induction k with
  | zero => intro l x _ hx; simp [Model.permsAux] at hx; subst hx; simp
  | succ k ih =>
    intro l x hl hx
    simp only [Model.permsAux, List.mem_flatMap, List.mem_map] at hx
    obtain ⟨a, ha, y, hy, rfl⟩ := hx
    obtain ⟨h1, h2, h3⟩ := ih (l.erase a) y (hl.erase a) hy
    refine ⟨by simp [h1], ?_, ?_⟩
    · rw [List.nodup_cons]
      refine ⟨fun hay => ?_, h2⟩
      have := h3 a hay
      exact (List.Nodup.mem_erase_iff hl).mp this |>.1 rfl
    · intro b hb
      rcases List.mem_cons.mp hb with rfl | hb
      · exact ha
      · exact List.mem_of_mem_erase (h3 b hb)

theorem permsAux_complete (k : Nat) : ∀ (l : List Nat) (x : List Nat), x.length = k → x.Nodup →
    (∀ a ∈ x, a ∈ l) → x ∈ Model.permsAux k l := by
  induction k with
  | zero => intro l x hx _ _; have : x = [] := List.eq_nil_of_length_eq_zero hx; subst this; simp [Model.permsAux]
  | succ k ih =>
    intro l x hx hn hsub
    cases x with
    | nil => simp at hx
    | cons a y =>
      simp only [Model.permsAux, List.mem_flatMap, List.mem_map]
      rw [List.nodup_cons] at hn
      refine ⟨a, hsub a (by simp), y, ?_, rfl⟩
      apply ih _ _ (by simpa using hx) hn.2
      intro b hb
      have hba : b ≠ a := fun h => hn.1 (h ▸ hb)
      exact (List.mem_erase_of_ne hba).mpr (hsub b (by simp [hb]))

theorem mem_permsLex_iff (k : Nat) (p : NSeq) : p ∈ Model.permsLex k ↔ IsPerm p ∧ p.length = k := by
  unfold Model.permsLex
  constructor
  · intro h
    obtain ⟨h1, h2, h3⟩ := mem_permsAux k _ p List.nodup_range h
    exact ⟨⟨h2, fun x hx => by have := h3 x hx; rw [List.mem_range] at this; omega⟩, h1⟩
  · rintro ⟨⟨h2, h3⟩, h1⟩
    exact permsAux_complete k _ p h1 h2 (fun a ha => by rw [List.mem_range]; have := h3 a ha; omega)

/-! ### shape of the output of `forb` -/

theorem forbBad_mem (gp : List Level) (ci : List Nat) (M : Nat) :
    ∀ lv ∈ forbBad gp ci M, lv.1 ∈ ci ∧
      ∃ bad', lv.2 = (Model.permsLex lv.1).map fun p => (p, findBadpatts gp bad' ci p) := by
  unfold forbBad
  refine foldl_preserves (fun acc : PattDict => ∀ lv ∈ acc, lv.1 ∈ ci ∧
      ∃ bad', lv.2 = (Model.permsLex lv.1).map fun p => (p, findBadpatts gp bad' ci p)) _ _ ?_ [] ?_
  · intro acc j hj hacc lv hlv
    rcases List.mem_append.mp hlv with h | h
    · exact hacc lv h
    · simp only [List.mem_singleton] at h
      subst h
      exact ⟨(List.takeWhile_sublist _).subset hj, acc, rfl⟩
  · intro lv hlv; cases hlv

theorem findBadpatts_mem (gp : List Level) (bad : PattDict) (ci : List Nat) (p : NSeq) (R : Shading)
    (hR : R ∈ findBadpatts gp bad ci p) (Ls : List Shading)
    (hLs : alGet (gp.getD p.length []) p = some Ls) : ∀ L ∈ Ls, ∃ b ∈ R, b ∈ L := by
  unfold findBadpatts at hR
  rw [hLs] at hR
  simp only at hR
  have h1 := keepMinimal_subset _ R hR
  rw [List.mem_mergeSort] at h1
  exact (hitting_inv p bad ci [] [] Ls R h1).2

/-- soundness of `forb (mine D M N)` for every member of the input of length at most `N` -/
theorem forb_mine_sound (D : Nat → List NSeq) (M N : Nat)
    (hD : ∀ k, ∀ p ∈ D k, IsPerm p ∧ p.length = k)
    (σ : NSeq) (hσ : σ ∈ D σ.length) (hσN : σ.length ≤ N) :
    ∀ p ∈ meshesOf (forb (mine D M N).2 (mine D M N).1 M), Model.containsMesh σ p = false := by
  intro p hp
  unfold meshesOf forb at hp
  simp only [List.mem_flatMap, List.mem_map] at hp
  obtain ⟨lv, ⟨lv0, hlv0, rfl⟩, e, he, R, hR, rfl⟩ := hp
  simp only at he
  obtain ⟨hci, bad', hshape⟩ := forbBad_mem _ _ _ lv0 hlv0
  have he0 : e ∈ lv0.2 := (List.mem_filter.mp he).1
  rw [hshape, List.mem_map] at he0
  obtain ⟨q, hq, rfl⟩ := he0
  obtain ⟨hqp, hql⟩ := (mem_permsLex_iff _ q).mp hq
  simp only at hR ⊢
  cases hcm : Model.containsMesh σ ⟨q, R⟩ with
  | false => rfl
  | true =>
    exfalso
    have hσp : IsPerm σ := (hD _ σ hσ).1
    have h1 : permContainsMany σ q [R] = true :=
      (permContainsMany_iff σ q [R]).mpr ⟨R, by simp, hcm⟩
    unfold permContainsMany at h1
    simp only [List.any_eq_true, List.mem_singleton] at h1
    obtain ⟨c, hc, R', rfl, hdis⟩ := h1
    have hocc : IsOcc q σ c := (C01.mem_occurrencesIn_iff q σ hqp hσp c).mp hc
    have hcov := mine_covers D M N hD σ hσ hσN q hqp c hocc (by rw [hql]; exact hci)
    obtain ⟨Ls, hLs, L, hL, hsub⟩ := hcov
    obtain ⟨b, hbR, hbL⟩ := findBadpatts_mem _ _ _ q R' hR Ls hLs L hL
    have hbh := subsetB_iff.mp hsub b hbL
    exact disjointB_iff.mp hdis b hbh hbR

end Model.C17
