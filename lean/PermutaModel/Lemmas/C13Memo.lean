import PermutaModel.Lemmas.C13Bits
import PermutaModel.Lemmas.PermBasic
import Mathlib.Data.List.Perm.Basic
import Mathlib.Data.List.Perm.Subperm
import Mathlib.Data.List.Range

/-! C13 helper lemmas, part 4: the set built by `is_polynomial`, the two memo tables, rotation. -/
open Model.C13 Spec.C13

namespace C13

theorem mem_distinct : ∀ (l : List Nat) (x : Nat), x ∈ distinct l ↔ x ∈ l
  | [], x => by simp [distinct]
  | a :: t, x => by
    rw [distinct]
    by_cases h : a ∈ t
    · rw [if_pos h, mem_distinct t x, List.mem_cons]
      constructor
      · exact Or.inr
      · rintro (rfl | h') <;> assumption
    · rw [if_neg h, List.mem_cons, List.mem_cons, mem_distinct t x]

theorem nodup_distinct : ∀ l : List Nat, (distinct l).Nodup
  | [] => by simp [distinct]
  | a :: t => by
    rw [distinct]
    by_cases h : a ∈ t
    · rw [if_pos h]; exact nodup_distinct t
    · rw [if_neg h]; exact List.nodup_cons.mpr ⟨fun h' => h ((mem_distinct t a).mp h'), nodup_distinct t⟩

/-- the size of the set depends only on which elements occur -/
theorem distinct_length_congr {l l' : List Nat} (h : ∀ x, x ∈ l ↔ x ∈ l') :
    (distinct l).length = (distinct l').length := by
  apply List.Perm.length_eq
  rw [List.perm_ext_iff_of_nodup (nodup_distinct l) (nodup_distinct l')]
  intro x; rw [mem_distinct, mem_distinct]; exact h x

/-- a set of numbers below `10` has `10` elements iff every number below `10` is in it -/
theorem distinct_length_eq_ten (l : List Nat) (hlt : ∀ x ∈ l, x < 10) :
    (distinct l).length = 10 ↔ ∀ t, t < 10 → t ∈ l := by
  constructor
  · intro hlen t ht
    have hsub : distinct l ⊆ List.range 10 := fun x hx => List.mem_range.mpr (hlt x ((mem_distinct l x).mp hx))
    have hsp := List.subperm_of_subset (nodup_distinct l) hsub
    have hperm := hsp.perm_of_length_le (by simp [hlen])
    exact (mem_distinct l t).mp (hperm.mem_iff.mpr (List.mem_range.mpr ht))
  · intro h
    have : (distinct l).Perm (List.range 10) := by
      rw [List.perm_ext_iff_of_nodup (nodup_distinct l) List.nodup_range]
      intro x; rw [mem_distinct, List.mem_range]
      exact ⟨hlt x, h x⟩
    simpa using this.length_eq

/-! ### memo tables -/

/-- every entry of `PolyPerms._CACHE` is the value that would be computed now -/
def TInv (c : TCache) : Prop := ∀ p t, c.lookup p = some t → t = distinct (findType p)
/-- every entry of `InsertionEncodablePerms._CACHE` is the value that would be computed now -/
def PInv (c : PCache) : Prop := ∀ p v, c.lookup p = some v → v = props p

theorem TInv_nil : TInv [] := by intro p t h; simp at h
theorem PInv_nil : PInv [] := by intro p t h; simp at h

theorem typesC_spec (c : TCache) (h : TInv c) (p : NSeq) :
    TInv (typesC c p).1 ∧ (typesC c p).2 = distinct (findType p) := by
  unfold typesC
  cases hl : c.lookup p with
  | some t => exact ⟨h, h p t hl⟩
  | none =>
    refine ⟨?_, rfl⟩
    intro q t hq
    rw [List.lookup_cons] at hq
    by_cases hqp : q = p
    · subst hqp; simp at hq; exact hq.symm
    · have : (q == p) = false := by simpa using hqp
      rw [this] at hq; exact h q t hq

theorem propsC_spec (c : PCache) (h : PInv c) (p : NSeq) :
    PInv (propsC c p).1 ∧ (propsC c p).2 = props p := by
  unfold propsC
  cases hl : c.lookup p with
  | some t => exact ⟨h, h p t hl⟩
  | none =>
    refine ⟨?_, rfl⟩
    intro q t hq
    rw [List.lookup_cons] at hq
    by_cases hqp : q = p
    · subst hqp; simp at hq; exact hq.symm
    · have : (q == p) = false := by simpa using hqp
      rw [this] at hq; exact h q t hq

theorem polyGo_spec : ∀ (l : List NSeq) (c : TCache) (acc : List Nat), TInv c →
    TInv (polyGo c acc l).1 ∧ (polyGo c acc l).2 = acc ++ l.flatMap (fun p => distinct (findType p))
  | [], c, acc, h => by simp [polyGo, h]
  | p :: rest, c, acc, h => by
    have hs := typesC_spec c h p
    rw [polyGo]
    have ih := polyGo_spec rest (typesC c p).1 (acc ++ (typesC c p).2) hs.1
    refine ⟨ih.1, ?_⟩
    rw [ih.2, hs.2]; simp

theorem encGoC_spec (rot : Int) : ∀ (l : List NSeq) (c : PCache) (curr : Nat), PInv c →
    PInv (encGoC rot c curr l).1 ∧ (encGoC rot c curr l).2 = encGo rot curr l
  | [], c, curr, h => by simp [encGoC, encGo, h]
  | p :: rest, c, curr, h => by
    have hs := propsC_spec c h (Model.rotate p rot)
    rw [encGoC, encGo, hs.2]
    by_cases h15 : (curr ||| props (Model.rotate p rot)) = Generated.insEncAllProperties
    · rw [if_pos h15, if_pos h15]; exact ⟨hs.1, rfl⟩
    · rw [if_neg h15, if_neg h15]; exact encGoC_spec rot rest _ _ hs.1

/-! ### rotation -/

theorem rotate_zero (p : NSeq) : Model.rotate p 0 = p := by simp [Model.rotate]

theorem encGo_map_rotate (rot : Int) : ∀ (l : List NSeq) (curr : Nat),
    (encGo rot curr l).1 = (encGo 0 curr (l.map fun p => Model.rotate p rot)).1
  | [], _ => by simp [encGo]
  | p :: rest, curr => by
    rw [List.map_cons, encGo, encGo, rotate_zero]
    by_cases h15 : (curr ||| props (Model.rotate p rot)) = Generated.insEncAllProperties
    · rw [if_pos h15, if_pos h15]
    · rw [if_neg h15, if_neg h15]; exact encGo_map_rotate rot rest _

theorem idxOf_lt_of_isPerm {p : NSeq} (hp : IsPerm p) {v : Nat} (hv : v < p.length) : p.idxOf v < p.length := by
  obtain ⟨a, ha, rfl⟩ := hp.surj hv
  apply List.idxOf_lt_length_iff.mpr
  rw [List.getD_eq_getElem?_getD, List.getElem?_eq_getElem ha]; simp

theorem mem_of_isPerm {p : NSeq} (hp : IsPerm p) {v : Nat} (hv : v < p.length) : v ∈ p := by
  obtain ⟨a, ha, rfl⟩ := hp.surj hv
  rw [List.getD_eq_getElem?_getD, List.getElem?_eq_getElem ha]; simp

/-- `rotate()` of a permutation has no repeated entry -/
theorem rotate_one_nodup {p : NSeq} (hp : IsPerm p) : (Model.rotate p 1).Nodup := by
  have : Model.rotate p 1 = Model.rotate1 p := by simp [Model.rotate]
  rw [this]
  unfold Model.rotate1
  refine List.Nodup.map_on ?_ List.nodup_range
  intro x hx y hy hxy
  have hx' := List.mem_range.mp hx
  have hy' := List.mem_range.mp hy
  have h1 := idxOf_lt_of_isPerm hp hx'
  have h2 := idxOf_lt_of_isPerm hp hy'
  have : p.idxOf x = p.idxOf y := by omega
  exact (List.idxOf_inj (mem_of_isPerm hp hx')).mp this

end C13
