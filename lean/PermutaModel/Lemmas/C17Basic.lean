import PermutaModel.Model.C17
import PermutaModel.Lemmas.PermBasic
/-! C17 helper lemmas: sets-as-lists, association lists, folds. -/

namespace Model.C17

theorem subsetB_iff {U V : Shading} : subsetB U V = true ↔ ∀ c ∈ U, c ∈ V := by
  unfold subsetB; simp [List.all_eq_true]

theorem disjointB_iff {U V : Shading} : disjointB U V = true ↔ ∀ c ∈ U, c ∉ V := by
  unfold disjointB; simp [List.all_eq_true]

theorem disjointB_false_iff {U V : Shading} : disjointB U V = false ↔ ∃ c ∈ U, c ∈ V := by
  rw [← Bool.not_eq_true, disjointB_iff]; simp

theorem subsetB_refl (U : Shading) : subsetB U U = true := subsetB_iff.mpr fun _ h => h

theorem subsetB_trans {U V W : Shading} (h1 : subsetB U V = true) (h2 : subsetB V W = true) :
    subsetB U W = true :=
  subsetB_iff.mpr fun c hc => subsetB_iff.mp h2 c (subsetB_iff.mp h1 c hc)

theorem subsetB_nil (V : Shading) : subsetB [] V = true := by simp [subsetB]

theorem alGet_alSet_same {β} (l : List (NSeq × β)) (k : NSeq) (v : β) :
    alGet (alSet l k v) k = some v := by
  induction l with
  | nil => simp [alSet, alGet]
  | cons e t ih =>
    obtain ⟨k', v'⟩ := e
    unfold alSet
    by_cases h : k' = k
    · simp [h, alGet]
    · simp [h, alGet, ih]

theorem alGet_alSet_ne {β} (l : List (NSeq × β)) (k k' : NSeq) (v : β) (h : k' ≠ k) :
    alGet (alSet l k v) k' = alGet l k' := by
  induction l with
  | nil => simp [alSet, alGet, Ne.symm h]
  | cons e t ih =>
    obtain ⟨k0, v0⟩ := e
    unfold alSet
    by_cases h0 : k0 = k
    · subst h0; simp [alGet, Ne.symm h]
    · simp only [h0, if_false]
      unfold alGet
      by_cases h1 : k0 = k'
      · simp [h1]
      · simp [h1, ih]

theorem alGet_map {β γ} (l : List (NSeq × β)) (f : β → γ) (k : NSeq) :
    alGet (l.map fun e => (e.1, f e.2)) k = (alGet l k).map f := by
  induction l with
  | nil => simp [alGet]
  | cons e t ih =>
    obtain ⟨k0, v0⟩ := e
    simp only [List.map_cons, alGet]
    by_cases h : k0 = k <;> simp [h, ih]

/-- a fold keeps an invariant that every step keeps -/
theorem foldl_preserves {β α} (P : β → Prop) (f : β → α → β) (l : List α)
    (h : ∀ b a, a ∈ l → P b → P (f b a)) (b0 : β) (hb : P b0) : P (l.foldl f b0) := by
  induction l generalizing b0 with
  | nil => exact hb
  | cons a t ih =>
    simp only [List.foldl_cons]
    exact ih (fun b a' ha' => h b a' (List.mem_cons_of_mem _ ha')) _ (h b0 a (by simp) hb)

/-- a fold establishes `P` if one step establishes it (under the invariant `I`) and all steps keep it -/
theorem foldl_establish {β α} (P I : β → Prop) (f : β → α → β) (l : List α) (a0 : α) (h0 : a0 ∈ l)
    (hI : ∀ b a, I b → I (f b a)) (hP : ∀ b a, I b → P b → P (f b a))
    (hE : ∀ b, I b → P (f b a0)) (b0 : β) (hb : I b0) : P (l.foldl f b0) := by
  induction l generalizing b0 with
  | nil => cases h0
  | cons a t ih =>
    simp only [List.foldl_cons]
    rcases List.mem_cons.mp h0 with rfl | h0'
    · have hI' : I (f b0 a0) := hI _ _ hb
      have : P (f b0 a0) ∧ I (f b0 a0) := ⟨hE _ hb, hI'⟩
      exact (foldl_preserves (fun b => P b ∧ I b) f t
        (fun b a _ hb => ⟨hP b a hb.2 hb.1, hI b a hb.2⟩) _ this).1
    · exact ih h0' _ (hI _ _ hb)

end Model.C17
