import PermutaModel.Lemmas.C20Store

/-! The automaton database of the C20 model: write-once files, memoised loads. -/
namespace Model.C20

variable {A : Type}

instance {ε α : Type} [DecidableEq ε] [DecidableEq α] : DecidableEq (Except ε α) := fun a b =>
  match a, b with
  | .ok x, .ok y => if h : x = y then isTrue (by rw [h]) else isFalse (fun e => h (Except.ok.inj e))
  | .error x, .error y => if h : x = y then isTrue (by rw [h]) else isFalse (fun e => h (Except.error.inj e))
  | .ok _, .error _ => isFalse (fun e => by cases e)
  | .error _, .ok _ => isFalse (fun e => by cases e)

/-- calls of the library (everything except the environment's `corrupt`) -/
def DbOp.isApi : DbOp A → Prop
  | .corrupt _ => False
  | _ => True

/-- every memoised automaton is the one in the file -/
def Coherent (db : DB A) : Prop :=
  ∀ p a, cacheGet db.cache p = some a → fsGet db.files (dbKey p) = some (.good a)

/-! ### files only grow (write-once) -/

theorem store_files_mono (cfg : Cfg) (h : cfg.storeWriteOnce = true) (mk : NSeq → A) (db : DB A) (p : NSeq)
    (x : Option A) (k : Str) (c : Content A) (hk : fsGet db.files k = some c) :
    fsGet (store cfg mk db p x).files k = some c := by
  unfold store
  by_cases he : (fsGet db.files (dbKey p)).isSome = true
  · simp [h, he, hk]
  · have hne : dbKey p ≠ k := by
      intro e; rw [e, hk] at he; simp at he
    simp [h, he, fsGet_fsSet_ne _ _ _ _ hne, hk]

theorem store_cache (cfg : Cfg) (mk : NSeq → A) (db : DB A) (p : NSeq) (x : Option A) :
    (store cfg mk db p x).cache = db.cache := by
  unfold store; split <;> rfl

theorem store_files_present (cfg : Cfg) (mk : NSeq → A) (db : DB A) (p : NSeq) (x : Option A) :
    (fsGet (store cfg mk db p x).files (dbKey p)).isSome = true := by
  unfold store
  by_cases he : (fsGet db.files (dbKey p)).isSome = true
  · by_cases hw : cfg.storeWriteOnce = true
    · simp [hw, he]
    · simp [hw, fsGet_fsSet_same]
  · simp [he, fsGet_fsSet_same]

/-- storing into an absent slot puts exactly that automaton there -/
theorem store_absent (cfg : Cfg) (mk : NSeq → A) (db : DB A) (p : NSeq) (x : Option A)
    (hk : fsGet db.files (dbKey p) = none) :
    fsGet (store cfg mk db p x).files (dbKey p) = some (.good (x.getD (mk p))) := by
  unfold store
  simp [hk, fsGet_fsSet_same]

theorem loadMiss_files_mono (cfg : Cfg) (h : cfg.storeWriteOnce = true) (mk : NSeq → A) (db : DB A) (p : NSeq)
    (k : Str) (c : Content A) (hk : fsGet db.files k = some c) :
    fsGet (loadMiss cfg mk db p).1.files k = some c := by
  unfold loadMiss
  by_cases he : (fsGet db.files (dbKey p)).isSome = true
  · simp only [he, if_true]
    split <;> simp [hk]
  · simp only [he]
    have := store_files_mono cfg h mk db p none k c hk
    split <;> simp_all

theorem load_files_mono (cfg : Cfg) (h : cfg.storeWriteOnce = true) (mk : NSeq → A) (db : DB A) (p : NSeq)
    (k : Str) (c : Content A) (hk : fsGet db.files k = some c) :
    fsGet (load cfg mk db p).1.files k = some c := by
  unfold load
  split
  · exact hk
  · exact loadMiss_files_mono cfg h mk db p k c hk

theorem foldl_store_files_mono (cfg : Cfg) (h : cfg.storeWriteOnce = true) (mk : NSeq → A) (l : List NSeq) :
    ∀ (db : DB A) (k : Str) (c : Content A), fsGet db.files k = some c →
      fsGet (l.foldl (fun d p => store cfg mk d p none) db).files k = some c := by
  induction l with
  | nil => intro db k c hk; exact hk
  | cons p ps ih =>
    intro db k c hk
    exact ih _ k c (store_files_mono cfg h mk db p none k c hk)

theorem foldl_store_cache (cfg : Cfg) (mk : NSeq → A) (l : List NSeq) :
    ∀ (db : DB A), (l.foldl (fun d p => store cfg mk d p none) db).cache = db.cache := by
  induction l with
  | nil => intro db; rfl
  | cons p ps ih => intro db; rw [List.foldl_cons, ih, store_cache]

theorem dbStep_files_mono (cfg : Cfg) (h : cfg.storeWriteOnce = true) (mk : NSeq → A) (db : DB A) (op : DbOp A)
    (hop : op.isApi) (k : Str) (c : Content A) (hk : fsGet db.files k = some c) :
    fsGet (dbStep cfg mk db op).1.files k = some c := by
  cases op with
  | store p x => exact store_files_mono cfg h mk db p x k c hk
  | load p => exact load_files_mono cfg h mk db p k c hk
  | create n => exact foldl_store_files_mono cfg h mk _ db k c hk
  | restart => exact hk
  | corrupt p => exact absurd hop (by simp [DbOp.isApi])

theorem dbRun_files_mono (cfg : Cfg) (h : cfg.storeWriteOnce = true) (mk : NSeq → A) (ops : List (DbOp A)) :
    ∀ (db : DB A), (∀ op ∈ ops, op.isApi) → ∀ (k : Str) (c : Content A), fsGet db.files k = some c →
      fsGet (dbRun cfg mk db ops).1.files k = some c := by
  induction ops with
  | nil => intro db _ k c hk; exact hk
  | cons op ops ih =>
    intro db hapi k c hk
    exact ih _ (fun o ho => hapi o (by simp [ho])) k c
      (dbStep_files_mono cfg h mk db op (hapi op (by simp)) k c hk)

/-! ### the memo stays coherent with the files -/

theorem cacheGet_cons (p q : NSeq) (a : A) (cache : List (NSeq × A)) :
    cacheGet ((p, a) :: cache) q = if p = q then some a else cacheGet cache q := rfl

theorem loadMiss_coherent (cfg : Cfg) (h : cfg.storeWriteOnce = true) (mk : NSeq → A) (db : DB A) (p : NSeq)
    (hc : Coherent db) : Coherent (loadMiss cfg mk db p).1 := by
  -- the intermediate database (after the implicit store) is coherent
  have hc1 : Coherent (if (fsGet db.files (dbKey p)).isSome = true then db else store cfg mk db p none) := by
    split
    · exact hc
    · intro q a hq
      rw [store_cache] at hq
      exact store_files_mono cfg h mk db p none _ _ (hc q a hq)
  unfold loadMiss
  simp only []
  generalize (if (fsGet db.files (dbKey p)).isSome = true then db else store cfg mk db p none) = db1 at hc1 ⊢
  split
  · rename_i a hfile
    intro q b hq
    simp only [] at hq ⊢
    by_cases hm : cfg.loadMemo = true
    · simp only [hm, if_true, cacheGet_cons] at hq
      by_cases hpq : p = q
      · subst hpq
        simp at hq
        subst hq
        exact hfile
      · simp [hpq] at hq
        exact hc1 q b hq
    · simp only [hm] at hq
      exact hc1 q b hq
  · exact hc1
  · exact hc1

theorem load_coherent (cfg : Cfg) (h : cfg.storeWriteOnce = true) (mk : NSeq → A) (db : DB A) (p : NSeq)
    (hc : Coherent db) : Coherent (load cfg mk db p).1 := by
  unfold load
  split
  · exact hc
  · exact loadMiss_coherent cfg h mk db p hc

theorem dbStep_coherent (cfg : Cfg) (h : cfg.storeWriteOnce = true) (mk : NSeq → A) (db : DB A) (op : DbOp A)
    (hop : op.isApi) (hc : Coherent db) : Coherent (dbStep cfg mk db op).1 := by
  cases op with
  | store p x =>
    intro q a hq
    simp only [dbStep, store_cache] at hq
    exact store_files_mono cfg h mk db p x _ _ (hc q a hq)
  | load p => exact load_coherent cfg h mk db p hc
  | create n =>
    intro q a hq
    simp only [dbStep, create, foldl_store_cache] at hq
    exact foldl_store_files_mono cfg h mk _ db _ _ (hc q a hq)
  | restart => intro q a hq; simp [dbStep, cacheGet] at hq
  | corrupt p => exact absurd hop (by simp [DbOp.isApi])

theorem dbRun_coherent (cfg : Cfg) (h : cfg.storeWriteOnce = true) (mk : NSeq → A) (ops : List (DbOp A)) :
    ∀ (db : DB A), (∀ op ∈ ops, op.isApi) → Coherent db → Coherent (dbRun cfg mk db ops).1 := by
  induction ops with
  | nil => intro db _ hc; exact hc
  | cons op ops ih =>
    intro db hapi hc
    exact ih _ (fun o ho => hapi o (by simp [ho])) (dbStep_coherent cfg h mk db op (hapi op (by simp)) hc)

/-- with a coherent memo, a load returns what the file holds -/
theorem load_of_file (cfg : Cfg) (mk : NSeq → A) (db : DB A) (hc : Coherent db) (p : NSeq) (a : A)
    (hf : fsGet db.files (dbKey p) = some (.good a)) : (load cfg mk db p).2 = .ok a := by
  unfold load
  split
  · rename_i b hb
    have : cacheGet db.cache p = some b := by
      by_cases hm : cfg.loadMemo = true
      · simpa [hm] using hb
      · simp [hm] at hb
    have := hc p b this
    rw [hf] at this
    simp at this
    simp [this]
  · unfold loadMiss
    simp [hf]

/-! ### file names: injective on entries below ten, not in general -/

theorem digitChar_injective' : ∀ a, a < 10 → ∀ b, b < 10 → digitChar a = digitChar b → a = b := by decide

theorem digitChar_injective (a b : Nat) (ha : a < 10) (hb : b < 10) (h : digitChar a = digitChar b) : a = b :=
  digitChar_injective' a ha b hb h

theorem flatMap_natDigits_lt10 : ∀ (p : NSeq), (∀ x ∈ p, x < 10) → p.flatMap natDigits = p.map digitChar
  | [], _ => rfl
  | x :: xs, h => by
    rw [List.flatMap_cons, natDigits_lt (h x (by simp)), flatMap_natDigits_lt10 xs (fun y hy => h y (by simp [hy]))]
    rfl

theorem map_digitChar_injective : ∀ (p q : NSeq), (∀ x ∈ p, x < 10) → (∀ x ∈ q, x < 10) →
    p.map digitChar = q.map digitChar → p = q
  | [], [], _, _, _ => rfl
  | [], _ :: _, _, _, h => by simp at h
  | _ :: _, [], _, _, h => by simp at h
  | x :: xs, y :: ys, hp, hq, h => by
    simp only [List.map_cons, List.cons.injEq] at h
    have h1 := digitChar_injective x y (hp x (by simp)) (hq y (by simp)) h.1
    have h2 := map_digitChar_injective xs ys (fun z hz => hp z (by simp [hz])) (fun z hz => hq z (by simp [hz])) h.2
    rw [h1, h2]

theorem split_at_slash : ∀ (l1 l2 r1 r2 : Str), '/' ∉ l1 → '/' ∉ l2 →
    l1 ++ '/' :: r1 = l2 ++ '/' :: r2 → r1 = r2
  | [], [], _, _, _, _, h => by simpa using h
  | [], c :: cs, _, _, _, h2, h => by
    simp only [List.nil_append, List.cons_append, List.cons.injEq] at h
    exact absurd h.1.symm (fun e => h2 (by simp [e]))
  | c :: cs, [], _, _, h1, _, h => by
    simp only [List.nil_append, List.cons_append, List.cons.injEq] at h
    exact absurd h.1 (fun e => h1 (by simp [e]))
  | c :: cs, d :: ds, r1, r2, h1, h2, h => by
    simp only [List.cons_append, List.cons.injEq] at h
    exact split_at_slash cs ds r1 r2 (fun e => h1 (by simp [e])) (fun e => h2 (by simp [e])) h.2

theorem slash_not_in_natDigits (n : Nat) : '/' ∉ natDigits n := by
  intro h
  have := natDigits_all_dig n '/' h
  exact absurd this (by decide)

/-- the file name determines the permutation as long as every entry is a single digit -/
theorem dbKey_injective_lt10 (p q : NSeq) (hp : ∀ x ∈ p, x < 10) (hq : ∀ x ∈ q, x < 10)
    (h : dbKey p = dbKey q) : p = q := by
  unfold dbKey at h
  have := split_at_slash _ _ _ _ (slash_not_in_natDigits p.length) (slash_not_in_natDigits q.length) h
  rw [flatMap_natDigits_lt10 p hp, flatMap_natDigits_lt10 q hq] at this
  exact map_digitChar_injective p q hp hq this

/-! ### every load returns a good automaton (the property's clause) -/

section good
variable (P : NSeq → Prop) (Good : NSeq → A → Prop)

/-- the operation only hands automata to the database that are good for their permutation -/
def OpOk : DbOp A → Prop
  | .store p x => P p ∧ ∀ a, x = some a → Good p a
  | .load p => P p
  | .create n => ∀ p ∈ Model.permsLex n, P p
  | .restart => True
  | .corrupt _ => False

/-- every file and every memo entry of a permutation in `P` holds an automaton good for it -/
def GoodDB (db : DB A) : Prop :=
  (∀ p, P p → ∀ c, fsGet db.files (dbKey p) = some c → ∃ a, c = .good a ∧ Good p a) ∧
  (∀ p a, P p → cacheGet db.cache p = some a → Good p a)

/-- what an operation may answer -/
def OutOk : DbOp A → Option (Except PyErr A) → Prop
  | .load p, some (.ok a) => Good p a
  | .load _, _ => False
  | _, none => True
  | _, some _ => False

def AllOutOk : List (DbOp A) → List (Option (Except PyErr A)) → Prop
  | [], [] => True
  | op :: ops, o :: os => OutOk Good op o ∧ AllOutOk ops os
  | _, _ => False

variable {P Good}

theorem store_good (cfg : Cfg) (mk : NSeq → A)
    (hinj : ∀ p q, P p → P q → dbKey p = dbKey q → p = q) (hmk : ∀ p, P p → Good p (mk p))
    (db : DB A) (hg : GoodDB P Good db) (p : NSeq) (x : Option A) (hp : P p) (hx : ∀ a, x = some a → Good p a) :
    GoodDB P Good (store cfg mk db p x) := by
  have hv : Good p (x.getD (mk p)) := by
    cases x with
    | none => exact hmk p hp
    | some a => exact hx a rfl
  unfold store
  split
  · exact hg
  · refine ⟨?_, hg.2⟩
    intro q hq c hc
    by_cases e : dbKey p = dbKey q
    · have : p = q := hinj p q hp hq e
      subst this
      simp only [fsGet_fsSet_same] at hc
      exact ⟨_, (Option.some.inj hc).symm, hv⟩
    · simp only [fsGet_fsSet_ne _ _ _ _ e] at hc
      exact hg.1 q hq c hc

theorem load_good (cfg : Cfg) (mk : NSeq → A)
    (hinj : ∀ p q, P p → P q → dbKey p = dbKey q → p = q) (hmk : ∀ p, P p → Good p (mk p))
    (db : DB A) (hg : GoodDB P Good db) (p : NSeq) (hp : P p) :
    GoodDB P Good (load cfg mk db p).1 ∧ ∃ a, (load cfg mk db p).2 = .ok a ∧ Good p a := by
  unfold load
  split
  · rename_i b hb
    have hb' : cacheGet db.cache p = some b := by
      by_cases hm : cfg.loadMemo = true
      · simpa [hm] using hb
      · simp [hm] at hb
    exact ⟨hg, b, rfl, hg.2 p b hp hb'⟩
  · have hg1 : GoodDB P Good (if (fsGet db.files (dbKey p)).isSome = true then db else store cfg mk db p none) := by
      split
      · exact hg
      · exact store_good cfg mk hinj hmk db hg p none hp (by simp)
    have hpres : (fsGet (if (fsGet db.files (dbKey p)).isSome = true then db
        else store cfg mk db p none).files (dbKey p)).isSome = true := by
      split
      · assumption
      · exact store_files_present cfg mk db p none
    unfold loadMiss
    simp only []
    generalize (if (fsGet db.files (dbKey p)).isSome = true then db else store cfg mk db p none) = db1 at hg1 hpres ⊢
    split
    · rename_i a hfile
      obtain ⟨a', ha', hgood⟩ := hg1.1 p hp _ hfile
      cases ha'
      refine ⟨⟨hg1.1, ?_⟩, a, rfl, hgood⟩
      intro q b hq hcache
      by_cases hm : cfg.loadMemo = true
      · simp only [hm, if_true, cacheGet_cons] at hcache
        by_cases hpq : p = q
        · subst hpq
          simp at hcache
          subst hcache
          exact hgood
        · simp [hpq] at hcache
          exact hg1.2 q b hq hcache
      · simp only [hm] at hcache
        exact hg1.2 q b hq hcache
    · rename_i hfile
      obtain ⟨a', ha', _⟩ := hg1.1 p hp _ hfile
      cases ha'
    · rename_i hfile
      rw [hfile] at hpres
      simp at hpres

theorem foldl_store_good (cfg : Cfg) (mk : NSeq → A)
    (hinj : ∀ p q, P p → P q → dbKey p = dbKey q → p = q) (hmk : ∀ p, P p → Good p (mk p)) (l : List NSeq) :
    ∀ (db : DB A), GoodDB P Good db → (∀ p ∈ l, P p) →
      GoodDB P Good (l.foldl (fun d p => store cfg mk d p none) db) := by
  induction l with
  | nil => intro db hg _; exact hg
  | cons p ps ih =>
    intro db hg hl
    exact ih _ (store_good cfg mk hinj hmk db hg p none (hl p (by simp)) (by simp))
      (fun q hq => hl q (by simp [hq]))

theorem dbStep_good (cfg : Cfg) (mk : NSeq → A)
    (hinj : ∀ p q, P p → P q → dbKey p = dbKey q → p = q) (hmk : ∀ p, P p → Good p (mk p))
    (db : DB A) (hg : GoodDB P Good db) (op : DbOp A) (hop : OpOk P Good op) :
    GoodDB P Good (dbStep cfg mk db op).1 ∧ OutOk Good op (dbStep cfg mk db op).2 := by
  cases op with
  | store p x => exact ⟨store_good cfg mk hinj hmk db hg p x hop.1 hop.2, trivial⟩
  | load p =>
    obtain ⟨h1, a, h2, h3⟩ := load_good cfg mk hinj hmk db hg p hop
    refine ⟨h1, ?_⟩
    simp only [dbStep, h2]
    exact h3
  | create n => exact ⟨foldl_store_good cfg mk hinj hmk _ db hg hop, trivial⟩
  | restart => exact ⟨⟨hg.1, fun p a _ h => by simp [dbStep, cacheGet] at h⟩, trivial⟩
  | corrupt p => exact absurd hop (by simp [OpOk])

theorem dbRun_good (cfg : Cfg) (mk : NSeq → A)
    (hinj : ∀ p q, P p → P q → dbKey p = dbKey q → p = q) (hmk : ∀ p, P p → Good p (mk p))
    (ops : List (DbOp A)) : ∀ (db : DB A), GoodDB P Good db → (∀ op ∈ ops, OpOk P Good op) →
      GoodDB P Good (dbRun cfg mk db ops).1 ∧ AllOutOk Good ops (dbRun cfg mk db ops).2 := by
  induction ops with
  | nil => intro db hg _; exact ⟨hg, trivial⟩
  | cons op ops ih =>
    intro db hg hops
    obtain ⟨h1, h2⟩ := dbStep_good cfg mk hinj hmk db hg op (hops op (by simp))
    obtain ⟨h3, h4⟩ := ih _ h1 (fun o ho => hops o (by simp [ho]))
    exact ⟨h3, h2, h4⟩

end good

theorem mem_permsAux (k : Nat) : ∀ (l : List Nat) (p : List Nat), p ∈ Model.permsAux k l → ∀ x ∈ p, x ∈ l := by
  induction k with
  | zero =>
    intro l p hp x hx
    simp [Model.permsAux] at hp
    rw [hp] at hx
    cases hx
  | succ k ih =>
    intro l p hp x hx
    simp only [Model.permsAux, List.mem_flatMap, List.mem_map] at hp
    obtain ⟨y, hy, q, hq, rfl⟩ := hp
    rcases List.mem_cons.mp hx with rfl | hx
    · exact hy
    · exact List.mem_of_mem_erase (ih _ q hq x hx)

/-- the entries of a permutation of length `n` are below `n` -/
theorem permsLex_entries (n : Nat) (p : NSeq) (hp : p ∈ Model.permsLex n) : ∀ x ∈ p, x < n := by
  intro x hx
  have := mem_permsAux n _ p hp x hx
  simpa using this

end Model.C20
