import PermutaModel.Lemmas.C12MeshUnfold
import PermutaModel.Lemmas.PermBasic
/-! C12 families: the unfolded mesh conditions are the textbook definitions
    (Baxter: box-free 2413 / 3142 ⇔ vincular 2-41-3 / 3-14-2 by a discrete intermediate-value
    argument; simsun: the mesh pattern ⇔ a double descent in a restriction to an initial segment of
    values; forest-like: the barred pattern). -/
open Model

namespace C12

/-! ### discrete intermediate value / first / last -/

/-- a predicate true at `b` and false at `c > b` switches off somewhere in between -/
theorem exists_step (P : Nat → Prop) (b c : Nat) (hbc : b < c) (hb : P b) (hc : ¬ P c) :
    ∃ j, b ≤ j ∧ j < c ∧ P j ∧ ¬ P (j + 1) := by
  apply Classical.byContradiction
  intro hne
  have hstep : ∀ j, b ≤ j → j < c → P j → P (j + 1) := by
    intro j h1 h2 h3
    apply Classical.byContradiction
    intro h4
    exact hne ⟨j, h1, h2, h3, h4⟩
  have : ∀ k, b + k ≤ c → P (b + k) := by
    intro k
    induction k with
    | zero => intro _; exact hb
    | succ k ih =>
      intro hk
      exact hstep (b + k) (by omega) (by omega) (ih (by omega))
  have h := this (c - b) (by omega)
  rw [show b + (c - b) = c by omega] at h
  exact hc h

/-- the last position in `[a, b)` satisfying `P`, given that `a` does -/
theorem exists_last (P : Nat → Prop) (a b : Nat) (hab : a < b) (ha : P a) :
    ∃ j, a ≤ j ∧ j < b ∧ P j ∧ ∀ i, j < i → i < b → ¬ P i := by
  induction b with
  | zero => omega
  | succ b ih =>
    by_cases hb : P b
    · exact ⟨b, by omega, by omega, hb, fun i h1 h2 => by omega⟩
    · have hab' : a < b := by
        rcases Nat.lt_or_ge a b with h | h
        · exact h
        · have : a = b := by omega
          subst this; exact absurd ha hb
      obtain ⟨j, h1, h2, h3, h4⟩ := ih hab'
      refine ⟨j, h1, by omega, h3, ?_⟩
      intro i hi1 hi2
      by_cases hib : i = b
      · subst hib; exact hb
      · exact h4 i hi1 (by omega)

/-- the first position in `(b, c]` satisfying `P`, given that `c` does -/
theorem exists_first (P : Nat → Prop) (b c : Nat) (hbc : b < c) (hc : P c) :
    ∃ j, b < j ∧ j ≤ c ∧ P j ∧ ∀ i, b < i → i < j → ¬ P i := by
  classical
  have hex : ∃ j, b < j ∧ P j := ⟨c, hbc, hc⟩
  refine ⟨Nat.find hex, (Nat.find_spec hex).1, Nat.find_min' hex ⟨hbc, hc⟩, (Nat.find_spec hex).2, ?_⟩
  intro i h1 h2 hp
  exact Nat.find_min hex h2 ⟨h1, hp⟩

/-! ### Baxter -/

/-- a 2413 whose box between the 4 and the 1 (values between the 2 and the 3) is empty can be
    narrowed to one whose 4 and 1 are adjacent, and conversely -/
theorem meshContains_1302_iff (σ : NSeq) (hσ : IsPerm σ) :
    MeshContains σ ⟨[1, 3, 0, 2], [(2, 2)]⟩ ↔ Spec.Has2413v σ := by
  rw [meshContains_1302]
  constructor
  · rintro ⟨a, b, c, d, h1, h2, h3, h4, ⟨v1, v2, v3⟩, hfree⟩
    obtain ⟨j, j1, j2, j3, j4⟩ := exists_step (fun t => σ.getD d 0 < σ.getD t 0) b c h2 v3 (by omega)
    refine ⟨a, j, d, by omega, by omega, h4, ?_, v2, j3⟩
    by_cases hjc : j + 1 = c
    · rw [hjc]; exact v1
    · have hne : σ.getD (j + 1) 0 ≠ σ.getD a 0 := fun e => by
        have := hσ.getD_inj (by omega) (by omega) e; omega
      have := hfree (j + 1) (by omega) (by omega)
      omega
  · rintro ⟨i, j, k, h1, h2, h3, v1, v2, v3⟩
    exact ⟨i, j, j + 1, k, h1, by omega, h2, h3, ⟨v1, v2, v3⟩, fun t _ _ => by omega⟩

theorem meshContains_2031_iff (σ : NSeq) (hσ : IsPerm σ) :
    MeshContains σ ⟨[2, 0, 3, 1], [(2, 2)]⟩ ↔ Spec.Has3142v σ := by
  rw [meshContains_2031]
  constructor
  · rintro ⟨a, b, c, d, h1, h2, h3, h4, ⟨v1, v2, v3⟩, hfree⟩
    obtain ⟨j, j1, j2, j3, j4⟩ := exists_step (fun t => σ.getD t 0 < σ.getD d 0) b c h2 v1 (by omega)
    refine ⟨a, j, d, by omega, by omega, h4, j3, v2, ?_⟩
    by_cases hjc : j + 1 = c
    · rw [hjc]; exact v3
    · have hne : σ.getD (j + 1) 0 ≠ σ.getD d 0 := fun e => by
        have := hσ.getD_inj (by omega) (by omega) e; omega
      have := hfree (j + 1) (by omega) (by omega)
      omega
  · rintro ⟨i, j, k, h1, h2, h3, v1, v2, v3⟩
    exact ⟨i, j, j + 1, k, h1, by omega, h2, h3, ⟨v1, v2, v3⟩, fun t _ _ => by omega⟩

/-! ### forest-like -/

theorem not_meshContains_1032_iff (σ : NSeq) (hσ : IsPerm σ) :
    ¬ MeshContains σ ⟨[1, 0, 3, 2], [(2, 2)]⟩ ↔
      ∀ a b c d, a < b → b < c → c < d → d < σ.length →
        σ.getD b 0 < σ.getD a 0 → σ.getD a 0 < σ.getD d 0 → σ.getD d 0 < σ.getD c 0 →
        ∃ m, b < m ∧ m < c ∧ σ.getD a 0 < σ.getD m 0 ∧ σ.getD m 0 < σ.getD d 0 := by
  rw [meshContains_1032]
  constructor
  · intro hno a b c d h1 h2 h3 h4 v1 v2 v3
    apply Classical.byContradiction
    intro hnm
    apply hno
    refine ⟨a, b, c, d, h1, h2, h3, h4, ⟨v1, v2, v3⟩, ?_⟩
    rintro i hi1 hi2 ⟨w1, w2⟩
    have hne : σ.getD i 0 ≠ σ.getD d 0 := fun e => by
      have := hσ.getD_inj (by omega) (by omega) e; omega
    exact hnm ⟨i, hi1, hi2, w1, by omega⟩
  · rintro hall ⟨a, b, c, d, h1, h2, h3, h4, ⟨v1, v2, v3⟩, hfree⟩
    obtain ⟨m, m1, m2, m3, m4⟩ := hall a b c d h1 h2 h3 h4 v1 v2 v3
    exact hfree m m1 m2 ⟨m3, by omega⟩

/-! ### simsun: positions of consecutive entries of a filtered word -/

theorem getD_drop' (l : List Nat) (a i : Nat) : (l.drop a).getD i 0 = l.getD (a + i) 0 := by
  simp [List.getD_eq_getElem?_getD, List.getElem?_drop]

/-- skipping entries that fail `p` does not change the filtered suffix -/
theorem filter_drop_skip (p : Nat → Bool) (l : List Nat) (a : Nat) : ∀ d, a + d ≤ l.length →
    (∀ i, a ≤ i → i < a + d → p (l.getD i 0) = false) → (l.drop a).filter p = (l.drop (a + d)).filter p
  | 0, _, _ => rfl
  | d + 1, hd, hall => by
    rw [filter_drop_skip p l a d (by omega) (fun i h1 h2 => hall i h1 (by omega))]
    have hlt : a + d < l.length := by omega
    rw [List.drop_eq_getElem_cons hlt]
    have := hall (a + d) (by omega) (by omega)
    rw [MeshLemmas.getD_eq_getElem l _ hlt] at this
    rw [List.filter_cons_of_neg (by simp [this])]
    rfl

/-- an entry that passes `p` heads the filtered suffix starting at it -/
theorem filter_drop_head (p : Nat → Bool) (l : List Nat) (a : Nat) (ha : a < l.length)
    (hp : p (l.getD a 0) = true) : (l.drop a).filter p = l.getD a 0 :: (l.drop (a + 1)).filter p := by
  rw [List.drop_eq_getElem_cons ha, MeshLemmas.getD_eq_getElem l a ha] at *
  rw [List.filter_cons_of_pos hp]

/-- the first entry of a filtered word: its position, and the rest -/
theorem filter_eq_cons_pos (p : Nat → Bool) : ∀ (l : List Nat) (y : Nat) (v : List Nat), l.filter p = y :: v →
    ∃ d, d < l.length ∧ l.getD d 0 = y ∧ p y = true ∧ (∀ i, i < d → p (l.getD i 0) = false) ∧
      (l.drop (d + 1)).filter p = v
  | [], y, v, h => by simp at h
  | x :: xs, y, v, h => by
    by_cases hx : p x = true
    · rw [List.filter_cons_of_pos hx] at h
      obtain ⟨rfl, rfl⟩ := List.cons.inj h
      exact ⟨0, by simp, by simp, hx, fun i hi => by omega, by simp⟩
    · rw [List.filter_cons_of_neg hx] at h
      obtain ⟨d, h1, h2, h3, h4, h5⟩ := filter_eq_cons_pos p xs y v h
      refine ⟨d + 1, by simp; omega, by simpa using h2, h3, ?_, by simpa using h5⟩
      intro i hi
      cases i with
      | zero => simpa using hx
      | succ i => simpa using h4 i (by omega)

/-- the `i`-th entry of a filtered word: its position, and the rest -/
theorem filter_getD_pos (p : Nat → Bool) : ∀ (l : List Nat) (i : Nat), i < (l.filter p).length →
    ∃ a, a < l.length ∧ l.getD a 0 = (l.filter p).getD i 0 ∧ p (l.getD a 0) = true ∧
      (l.drop (a + 1)).filter p = (l.filter p).drop (i + 1)
  | [], i, h => by simp at h
  | x :: xs, i, h => by
    by_cases hx : p x = true
    · rw [List.filter_cons_of_pos hx] at h ⊢
      cases i with
      | zero => exact ⟨0, by simp, by simp, by simpa using hx, by simp⟩
      | succ i =>
        obtain ⟨a, h1, h2, h3, h4⟩ := filter_getD_pos p xs i (by simpa using h)
        exact ⟨a + 1, by simp; omega, by simpa using h2, by simpa using h3, by simpa using h4⟩
    · rw [List.filter_cons_of_neg hx] at h ⊢
      obtain ⟨a, h1, h2, h3, h4⟩ := filter_getD_pos p xs i h
      exact ⟨a + 1, by simp; omega, by simpa using h2, by simpa using h3, by simpa using h4⟩

theorem drop_eq_three (r : List Nat) (i : Nat) (h : i + 2 < r.length) :
    r.drop i = r.getD i 0 :: r.getD (i + 1) 0 :: r.getD (i + 2) 0 :: r.drop (i + 3) := by
  rw [List.drop_eq_getElem_cons (by omega : i < r.length),
    List.drop_eq_getElem_cons (by omega : i + 1 < r.length),
    List.drop_eq_getElem_cons (by omega : i + 1 + 1 < r.length),
    MeshLemmas.getD_eq_getElem r i (by omega), MeshLemmas.getD_eq_getElem r (i + 1) (by omega),
    MeshLemmas.getD_eq_getElem r (i + 2) (by omega)]

/-- **double descents of a restriction, index-wise**: the word `σ` restricted to the entries passing
    `p` has three consecutive entries `x, y, z` iff these sit at positions `a < b < c` of `σ`
    with no passing entry strictly between them -/
theorem filter_consecutive3_iff (p : Nat → Bool) (σ : List Nat) (x y z : Nat) :
    (∃ i, i + 2 < (σ.filter p).length ∧ (σ.filter p).getD i 0 = x ∧ (σ.filter p).getD (i + 1) 0 = y ∧
      (σ.filter p).getD (i + 2) 0 = z) ↔
    ∃ a b c, a < b ∧ b < c ∧ c < σ.length ∧ σ.getD a 0 = x ∧ σ.getD b 0 = y ∧ σ.getD c 0 = z ∧
      p x = true ∧ p y = true ∧ p z = true ∧
      (∀ t, a < t → t < b → p (σ.getD t 0) = false) ∧ (∀ t, b < t → t < c → p (σ.getD t 0) = false) := by
  constructor
  · rintro ⟨i, hi, rfl, rfl, rfl⟩
    obtain ⟨a, a1, a2, a3, a4⟩ := filter_getD_pos p σ i (by omega)
    have e3 := drop_eq_three (σ.filter p) i hi
    rw [List.drop_eq_getElem_cons (by omega : i < (σ.filter p).length)] at e3
    have e3' := (List.cons.inj e3).2
    rw [e3'] at a4
    obtain ⟨d1, b1, b2, b3, b4, b5⟩ := filter_eq_cons_pos p _ _ _ a4
    obtain ⟨d2, c1, c2, c3, c4, c5⟩ := filter_eq_cons_pos p _ _ _ b5
    rw [getD_drop'] at b2
    rw [List.drop_drop, getD_drop'] at c2
    simp only [List.length_drop] at b1 c1
    refine ⟨a, a + 1 + d1, a + 1 + d1 + 1 + d2, by omega, by omega, by omega, a2, b2, ?_, ?_, b3, c3, ?_, ?_⟩
    · rw [← c2]; congr 1
    · rw [← a2]; exact a3
    · intro t t1 t2
      have := b4 (t - (a + 1)) (by omega)
      rw [getD_drop', show a + 1 + (t - (a + 1)) = t by omega] at this
      exact this
    · intro t t1 t2
      have := c4 (t - (a + 1 + d1 + 1)) (by omega)
      rw [List.drop_drop, getD_drop'] at this
      rw [show a + 1 + (d1 + 1) + (t - (a + 1 + d1 + 1)) = t by omega] at this
      exact this
  · rintro ⟨a, b, c, h1, h2, h3, rfl, rfl, rfl, px, py, pz, hab, hbc⟩
    have hsplit : σ.filter p = (σ.take a).filter p ++
        σ.getD a 0 :: σ.getD b 0 :: σ.getD c 0 :: (σ.drop (c + 1)).filter p := by
      conv_lhs => rw [← List.take_append_drop a σ]
      rw [List.filter_append, filter_drop_head p σ a (by omega) px,
        filter_drop_skip p σ (a + 1) (b - (a + 1)) (by omega) (fun t t1 t2 => hab t (by omega) (by omega)),
        show a + 1 + (b - (a + 1)) = b by omega, filter_drop_head p σ b (by omega) py,
        filter_drop_skip p σ (b + 1) (c - (b + 1)) (by omega) (fun t t1 t2 => hbc t (by omega) (by omega)),
        show b + 1 + (c - (b + 1)) = c by omega, filter_drop_head p σ c (by omega) pz]
    refine ⟨((σ.take a).filter p).length, ?_, ?_, ?_, ?_⟩
    · rw [hsplit]; simp
    · rw [hsplit]; simp [List.getD_eq_getElem?_getD]
    · rw [hsplit]; simp [List.getD_eq_getElem?_getD]
    · rw [hsplit]; simp [List.getD_eq_getElem?_getD]

theorem hasDoubleDescent_filter_iff (k : Nat) (σ : List Nat) :
    Spec.HasDoubleDescent (σ.filter (· < k)) ↔
    ∃ a b c, a < b ∧ b < c ∧ c < σ.length ∧ σ.getD b 0 < σ.getD a 0 ∧ σ.getD c 0 < σ.getD b 0 ∧
      σ.getD a 0 < k ∧ (∀ t, a < t → t < b → k ≤ σ.getD t 0) ∧ (∀ t, b < t → t < c → k ≤ σ.getD t 0) := by
  constructor
  · rintro ⟨i, hi, d1, d2⟩
    obtain ⟨a, b, c, h1, h2, h3, ea, eb, ec, px, _, _, hab, hbc⟩ :=
      (filter_consecutive3_iff (fun x => decide (x < k)) σ _ _ _).mp ⟨i, hi, rfl, rfl, rfl⟩
    refine ⟨a, b, c, h1, h2, h3, by omega, by omega, ?_, ?_, ?_⟩
    · rw [ea]; simpa using px
    · intro t t1 t2; simpa using hab t t1 t2
    · intro t t1 t2; simpa using hbc t t1 t2
  · rintro ⟨a, b, c, h1, h2, h3, v1, v2, ka, hab, hbc⟩
    obtain ⟨i, hi, e1, e2, e3⟩ := (filter_consecutive3_iff (fun x => decide (x < k)) σ _ _ _).mpr
      ⟨a, b, c, h1, h2, h3, rfl, rfl, rfl, by simpa using ka, decide_eq_true (by omega), decide_eq_true (by omega),
        fun t t1 t2 => by simpa using hab t t1 t2, fun t t1 t2 => by simpa using hbc t t1 t2⟩
    exact ⟨i, hi, by omega, by omega⟩

/-- **simsun**: the mesh pattern of the source occurs iff some restriction to an initial segment of
    the values has a double descent -/
theorem meshContains_simsun_iff (σ : NSeq) (hσ : IsPerm σ) :
    MeshContains σ ⟨[2, 1, 0], [(1, 0), (1, 1), (2, 2)]⟩ ↔
      ∃ k, k ≤ σ.length ∧ Spec.HasDoubleDescent (σ.filter (· < k)) := by
  rw [meshContains_simsun]
  constructor
  · rintro ⟨a, b, c, h1, h2, h3, v1, v2, hf1, hf2⟩
    -- the last entry in `[a, b)` not above `σ[a]`
    obtain ⟨a', p1, p2, p3, p4⟩ := exists_last (fun t => σ.getD t 0 ≤ σ.getD a 0) a b h1 (Nat.le_refl _)
    have hba' : σ.getD b 0 < σ.getD a' 0 := by
      by_cases e : a' = a
      · rw [e]; exact v1
      · exact hf1 a' (by omega) p2
    -- the first entry in `(b, c]` below `σ[b]`
    obtain ⟨c', q1, q2, q3, q4⟩ := exists_first (fun t => σ.getD t 0 < σ.getD b 0) b c h2 v2
    have hbig : ∀ t, b < t → t < c' → σ.getD a 0 < σ.getD t 0 := by
      intro t t1 t2
      have hne : σ.getD t 0 ≠ σ.getD b 0 := fun e => by
        have := hσ.getD_inj (by omega) (by omega) e; omega
      have := q4 t t1 t2
      exact hf2 t t1 (by omega) (by omega)
    refine ⟨σ.getD a' 0 + 1, ?_, ?_⟩
    · have := hσ.getD_lt (show a' < σ.length by omega); omega
    · rw [hasDoubleDescent_filter_iff]
      refine ⟨a', b, c', p2, q1, by omega, hba', q3, by omega, ?_, ?_⟩
      · intro t t1 t2
        have := p4 t t1 t2
        omega
      · intro t t1 t2
        have := hbig t t1 t2
        omega
  · rintro ⟨k, _, hdd⟩
    rw [hasDoubleDescent_filter_iff] at hdd
    obtain ⟨a, b, c, h1, h2, h3, v1, v2, ka, hab, hbc⟩ := hdd
    refine ⟨a, b, c, h1, h2, h3, v1, v2, ?_, ?_⟩
    · intro t t1 t2
      have := hab t t1 t2; omega
    · intro t t1 t2 _
      have := hbc t t1 t2; omega

/-! ### the textbook predicates are decidable (bounded search), so instances can be evaluated -/

instance (l : List Nat) : Decidable (Spec.HasDoubleDescent l) :=
  decidable_of_iff (∃ i, i < l.length ∧ (i + 2 < l.length ∧ l.getD (i + 1) 0 < l.getD i 0 ∧
      l.getD (i + 2) 0 < l.getD (i + 1) 0))
    ⟨fun ⟨i, _, h⟩ => ⟨i, h⟩, fun ⟨i, h⟩ => ⟨i, by omega, h⟩⟩

instance (σ : NSeq) : Decidable (Spec.IsSimsun σ) := by unfold Spec.IsSimsun; infer_instance

instance (σ : NSeq) : Decidable (Spec.Has2413v σ) :=
  decidable_of_iff (∃ i, i < σ.length ∧ ∃ j, j < σ.length ∧ ∃ k, k < σ.length ∧
      (i < j ∧ j + 1 < k ∧ k < σ.length ∧
        σ.getD (j + 1) 0 < σ.getD i 0 ∧ σ.getD i 0 < σ.getD k 0 ∧ σ.getD k 0 < σ.getD j 0))
    ⟨fun ⟨i, _, j, _, k, _, h⟩ => ⟨i, j, k, h⟩,
     fun ⟨i, j, k, h⟩ => ⟨i, by omega, j, by omega, k, by omega, h⟩⟩

instance (σ : NSeq) : Decidable (Spec.Has3142v σ) :=
  decidable_of_iff (∃ i, i < σ.length ∧ ∃ j, j < σ.length ∧ ∃ k, k < σ.length ∧
      (i < j ∧ j + 1 < k ∧ k < σ.length ∧
        σ.getD j 0 < σ.getD k 0 ∧ σ.getD k 0 < σ.getD i 0 ∧ σ.getD i 0 < σ.getD (j + 1) 0))
    ⟨fun ⟨i, _, j, _, k, _, h⟩ => ⟨i, j, k, h⟩,
     fun ⟨i, j, k, h⟩ => ⟨i, by omega, j, by omega, k, by omega, h⟩⟩

instance (σ : NSeq) : Decidable (Spec.IsBaxter σ) := by unfold Spec.IsBaxter; infer_instance

instance (σ : NSeq) : Decidable (Spec.Has1324 σ) :=
  decidable_of_iff (∃ a, a < σ.length ∧ ∃ b, b < σ.length ∧ ∃ c, c < σ.length ∧ ∃ d, d < σ.length ∧
      (a < b ∧ b < c ∧ c < d ∧ d < σ.length ∧
        σ.getD a 0 < σ.getD c 0 ∧ σ.getD c 0 < σ.getD b 0 ∧ σ.getD b 0 < σ.getD d 0))
    ⟨fun ⟨a, _, b, _, c, _, d, _, h⟩ => ⟨a, b, c, d, h⟩,
     fun ⟨a, b, c, d, h⟩ => ⟨a, by omega, b, by omega, c, by omega, d, by omega, h⟩⟩

set_option synthInstance.maxSize 2048 in
instance (σ : NSeq) : Decidable (Spec.IsForestLike σ) :=
  decidable_of_iff (¬ Spec.Has1324 σ ∧
      ∀ a, a < σ.length → ∀ b, b < σ.length → ∀ c, c < σ.length → ∀ d, d < σ.length →
        (a < b ∧ b < c ∧ c < d ∧
          σ.getD b 0 < σ.getD a 0 ∧ σ.getD a 0 < σ.getD d 0 ∧ σ.getD d 0 < σ.getD c 0) →
        ∃ m, m < c ∧ (b < m ∧ σ.getD a 0 < σ.getD m 0 ∧ σ.getD m 0 < σ.getD d 0))
    ⟨fun ⟨h0, h⟩ => ⟨h0, fun a b c d h1 h2 h3 h4 v1 v2 v3 => by
        obtain ⟨m, hm, hm1, hm2, hm3⟩ :=
          h a (by omega) b (by omega) c (by omega) d h4 ⟨h1, h2, h3, v1, v2, v3⟩
        exact ⟨m, hm1, hm, hm2, hm3⟩⟩,
     fun ⟨h0, h⟩ => ⟨h0, fun a _ b _ c _ d h4 ⟨h1, h2, h3, v1, v2, v3⟩ => by
        obtain ⟨m, hm1, hm, hm2, hm3⟩ := h a b c d h1 h2 h3 h4 v1 v2 v3
        exact ⟨m, hm, hm1, hm2, hm3⟩⟩⟩

end C12
