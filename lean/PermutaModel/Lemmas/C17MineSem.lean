import PermutaModel.Lemmas.C17Irr3
import PermutaModel.Lemmas.C17Equiv
/-! Order independence (part 3): what `forb` reads from `mine`'s `goodpatts` - whether
    `goodpatts[j][π]` exists, and which sets meet all of its members - is determined by the input as a
    *set* of permutations (for the lengths `j` in the check interval). -/

namespace Model.C17

/-! ### every stored list `goodpatts[j][π]` is non-empty -/

def ListNE (gp : List Level) : Prop := ∀ j π Rs, alGet (gp.getD j []) π = some Rs → Rs ≠ []

theorem recordLevel_listNE (lv : Level) (p : NSeq) (sh : Shading)
    (h : ∀ π Rs, alGet lv π = some Rs → Rs ≠ []) :
    ∀ π Rs, alGet (recordLevel lv p sh) π = some Rs → Rs ≠ [] := by
  intro π Rs hRs
  unfold recordLevel at hRs
  by_cases hp : π = p
  · subst hp
    cases hg : alGet lv π with
    | none =>
      rw [hg] at hRs; simp only [alGet_alSet_same, Option.some.injEq] at hRs
      subst hRs; simp
    | some Rs' =>
      rw [hg] at hRs; simp only at hRs
      split at hRs
      · rw [hg] at hRs; cases hRs; exact h _ _ hg
      · simp only [alGet_alSet_same, Option.some.injEq] at hRs
        subst hRs; simp
  · cases hg : alGet lv p with
    | none =>
      rw [hg] at hRs; simp only at hRs
      rw [alGet_alSet_ne _ _ _ _ hp] at hRs
      exact h _ _ hRs
    | some Rs' =>
      rw [hg] at hRs; simp only at hRs
      split at hRs
      · exact h _ _ hRs
      · rw [alGet_alSet_ne _ _ _ _ hp] at hRs; exact h _ _ hRs

theorem record_listNE (gp : List Level) (nL : Nat) (p : NSeq) (sh : Shading) (h : ListNE gp) :
    ListNE (record gp nL p sh) := by
  intro j π Rs hRs
  unfold record at hRs
  by_cases hj : nL = j
  · subst hj
    by_cases hn : nL < gp.length
    · rw [getD_set_self _ _ _ hn] at hRs
      exact recordLevel_listNE _ p sh (fun π Rs => h nL π Rs) π Rs hRs
    · rw [List.set_eq_of_length_le (by omega)] at hRs; exact h nL π Rs hRs
  · rw [getD_set_ne _ _ _ _ hj] at hRs; exact h j π Rs hRs

theorem addGood_listNE (minLen maxLen : Nat) (L : Nat) :
    ∀ (τ : NSeq) (sh : Shading) (loc : Nat) (gp : List Level),
      ListNE gp → ListNE (addGood minLen maxLen L τ sh loc gp) := by
  induction L with
  | zero => intro τ sh loc gp h; simpa [addGood] using h
  | succ L ih =>
    intro τ sh loc gp h
    simp only [addGood]
    split
    · refine foldl_preserves (fun g : List Level => ListNE g) _ _ ?_ gp h
      intro b a _ hb
      split
      · apply ih; split
        · exact record_listNE _ _ _ _ hb
        · exact hb
      · split
        · exact record_listNE _ _ _ _ hb
        · exact hb
    · exact h

theorem prune_step_listNE (g : List Level) (j' : Nat) (h : ListNE g) :
    ListNE (g.set j' (pruneLevel (g.getD j' []))) := by
  intro j π Rs hRs
  by_cases hj : j' = j
  · subst hj
    by_cases hn : j' < g.length
    · rw [getD_set_self _ _ _ hn] at hRs
      unfold pruneLevel at hRs
      rw [alGet_map (g.getD j' []) (fun Rs => pruneSeq Rs Rs) π] at hRs
      cases hg : alGet (g.getD j' []) π with
      | none => rw [hg] at hRs; cases hRs
      | some Rs0 =>
        rw [hg] at hRs; simp only [Option.map_some, Option.some.injEq] at hRs
        subst hRs
        have hne := h j' π Rs0 hg
        cases Rs0 with
        | nil => exact absurd rfl hne
        | cons R0 t =>
          obtain ⟨R, hR, _⟩ := pruneSeq_covers R0 (R0 :: t) (R0 :: t) ⟨R0, by simp, subsetB_refl R0⟩
          intro hnil; rw [hnil] at hR; cases hR
    · rw [List.set_eq_of_length_le (by omega)] at hRs; exact h j' π Rs hRs
  · rw [getD_set_ne _ _ _ _ hj] at hRs; exact h j π Rs hRs

theorem mine_listNE (D : Nat → List NSeq) (M N : Nat) : ListNE (mine D M N).2 := by
  unfold mine
  split
  · intro j π Rs hRs; simp [alGet] at hRs
  · simp only
    unfold minePrune
    refine foldl_preserves (fun g : List Level => ListNE g) _ _
      (fun g j' _ hg => prune_step_listNE g j' hg) _ ?_
    unfold mineLoop
    refine foldl_preserves (fun g : List Level => ListNE g) _ _ ?_ _ ?_
    · intro g i _ hg
      refine foldl_preserves (fun g : List Level => ListNE g) _ _ ?_ g hg
      intro g' p _ hg'
      exact addGood_listNE _ _ _ _ _ _ _ hg'
    · intro j π Rs hRs
      by_cases hjM : j ≤ M
      · rw [mineInit_getD D M j hjM] at hRs
        have := initLevel_vals _ π Rs hRs
        subst this; simp
      · unfold mineInit at hRs
        rw [List.getD_eq_getElem?_getD, List.getElem?_eq_none (by simp; omega)] at hRs
        simp [alGet] at hRs

/-! ### a member of the input of checked length keeps the empty set -/

theorem mine_covers_self (D : Nat → List NSeq) (M N : Nat) (π : NSeq) (hπ : π ∈ D π.length)
    (hj : π.length ∈ (mine D M N).1) : Covers (mine D M N).2 π.length π [] := by
  have hne : (mineCi D M).isEmpty = false := by
    cases he : (mineCi D M).isEmpty with
    | false => rfl
    | true => unfold mine at hj; rw [if_pos he] at hj; cases hj
  unfold mine at hj ⊢
  rw [if_neg (by simp [hne])] at hj ⊢
  simp only at hj ⊢
  have hjM := mineCi_le D M _ hj
  apply minePrune_mono
  apply mineLoop_mono
  unfold Covers
  rw [mineInit_getD D M _ hjM]
  exact ⟨[[]], initLevel_get _ π hπ, [], by simp, subsetB_nil _⟩

/-! ### the semantic reading of `goodpatts[|π|][π]` -/

/-- `H` meets the hit set of every occurrence of `π` in a member of length at most `N`, and `π`
    itself is not a member -/
def SemHits (D : Nat → List NSeq) (N : Nat) (π : NSeq) (H : Shading) : Prop :=
  π ∉ D π.length ∧
  ∀ σ, σ.length ≤ N → σ ∈ D σ.length → ∀ c, IsOcc π σ c → ∃ b ∈ H, b ∈ hitBoxes (pick σ c) σ 0

/-- `π` is a member, or occurs in a member of length at most `N` -/
def SemSome (D : Nat → List NSeq) (N : Nat) (π : NSeq) : Prop :=
  π ∈ D π.length ∨ ∃ σ, σ.length ≤ N ∧ σ ∈ D σ.length ∧ ∃ c, IsOcc π σ c

/-- for a checked length, the hitting sets of the stored list are exactly the sets meeting all
    occurrences - the processing order of the input plays no role -/
theorem mine_hits_iff (D : Nat → List NSeq) (M N : Nat) (hD : ∀ k, ∀ p ∈ D k, IsPerm p ∧ p.length = k)
    (π : NSeq) (hπ : IsPerm π) (hj : π.length ∈ (mine D M N).1) (Ls : List Shading)
    (hLs : alGet ((mine D M N).2.getD π.length []) π = some Ls) (H : Shading) :
    HitsAll H Ls ↔ SemHits D N π H := by
  have hjM : π.length ≤ M := by
    unfold mine at hj
    split at hj
    · cases hj
    · exact mineCi_le D M _ hj
  constructor
  · intro hh
    refine ⟨fun hmem => ?_, fun σ hσN hσD c hc => ?_⟩
    · obtain ⟨Rs, hRs, R, hR, hsub⟩ := mine_covers_self D M N π hmem hj
      rw [hLs] at hRs; cases hRs
      obtain ⟨b, _, hbR⟩ := hh R hR
      have := subsetB_iff.mp hsub b hbR
      cases this
    · obtain ⟨Rs, hRs, R, hR, hsub⟩ := mine_covers D M N hD σ hσD hσN π hπ c hc hj
      rw [hLs] at hRs; cases hRs
      obtain ⟨b, hbH, hbR⟩ := hh R hR
      exact ⟨b, hbH, subsetB_iff.mp hsub b hbR⟩
  · rintro ⟨hnot, hocc⟩ L hL
    rcases mine_realized D M N hD π.length π Ls hLs L hL with hnil | ⟨σ, hσN, hσD, c, hc, hsub⟩
    · exact absurd hnil (mine_nonempty D M N π hjM hnot Ls hLs L hL)
    · obtain ⟨b, hbH, hb⟩ := hocc σ hσN hσD c hc
      exact ⟨b, hbH, hsub b hb⟩

/-- for a checked length, `goodpatts[|π|]` has the key `π` exactly when `π` is a member or occurs
    in a member of length at most `N` -/
theorem mine_some_iff (D : Nat → List NSeq) (M N : Nat) (hD : ∀ k, ∀ p ∈ D k, IsPerm p ∧ p.length = k)
    (π : NSeq) (hπ : IsPerm π) (hj : π.length ∈ (mine D M N).1) :
    (∃ Ls, alGet ((mine D M N).2.getD π.length []) π = some Ls) ↔ SemSome D N π := by
  have hjM : π.length ≤ M := by
    unfold mine at hj
    split at hj
    · cases hj
    · exact mineCi_le D M _ hj
  constructor
  · rintro ⟨Ls, hLs⟩
    have hne := mine_listNE D M N π.length π Ls hLs
    cases Ls with
    | nil => exact absurd rfl hne
    | cons L t =>
      rcases mine_realized D M N hD π.length π _ hLs L (by simp) with hnil | ⟨σ, hσN, hσD, c, hc, _⟩
      · left
        apply Classical.byContradiction
        intro hnot
        exact mine_nonempty D M N π hjM hnot _ hLs L (by simp) hnil
      · right; exact ⟨σ, hσN, hσD, c, hc⟩
  · rintro (hmem | ⟨σ, hσN, hσD, c, hc⟩)
    · obtain ⟨Rs, hRs, _⟩ := mine_covers_self D M N π hmem hj
      exact ⟨Rs, hRs⟩
    · obtain ⟨Rs, hRs, _⟩ := mine_covers D M N hD σ hσD hσN π hπ c hc hj
      exact ⟨Rs, hRs⟩

/-! ### two listings of the same set -/

theorem mineCi_perm (D D' : Nat → List NSeq) (hperm : ∀ k, (D k).Perm (D' k)) (M : Nat) :
    mineCi D M = mineCi D' M := by
  unfold mineCi
  congr 1
  funext j
  rw [(hperm j).length_eq]

theorem mine_fst_perm (D D' : Nat → List NSeq) (hperm : ∀ k, (D k).Perm (D' k)) (M N : Nat) :
    (mine D M N).1 = (mine D' M N).1 := by
  unfold mine
  rw [mineCi_perm D D' hperm M]
  split <;> rfl

/-- **`mine` reads its input as a set**: for two dictionaries whose levels are rearrangements of each
    other, at every pattern of a checked length the two `goodpatts` are both without the key, or
    both have it, with lists that have the same hitting sets -/
theorem mine_gpEquiv (D D' : Nat → List NSeq) (hperm : ∀ k, (D k).Perm (D' k)) (M N : Nat)
    (hD : ∀ k, ∀ p ∈ D k, IsPerm p ∧ p.length = k) :
    ∀ j ∈ (mine D M N).1, ∀ p ∈ permsLex j, GpEquivAt (mine D M N).2 (mine D' M N).2 p := by
  intro j hj p hp
  obtain ⟨hpp, hpl⟩ := (mem_permsLex_iff j p).mp hp
  subst hpl
  have hD' : ∀ k, ∀ p ∈ D' k, IsPerm p ∧ p.length = k := fun k q hq => hD k q ((hperm k).mem_iff.mpr hq)
  have hj' : p.length ∈ (mine D' M N).1 := by rw [← mine_fst_perm D D' hperm M N]; exact hj
  have hmem : ∀ σ : NSeq, σ ∈ D σ.length ↔ σ ∈ D' σ.length := fun σ => (hperm σ.length).mem_iff
  have hsome : SemSome D N p ↔ SemSome D' N p := by
    unfold SemSome
    rw [hmem p]
    constructor
    · rintro (h | ⟨σ, h1, h2, h3⟩)
      · left; exact h
      · right; exact ⟨σ, h1, (hmem σ).mp h2, h3⟩
    · rintro (h | ⟨σ, h1, h2, h3⟩)
      · left; exact h
      · right; exact ⟨σ, h1, (hmem σ).mpr h2, h3⟩
  have hhits : ∀ H, SemHits D N p H ↔ SemHits D' N p H := by
    intro H
    unfold SemHits
    rw [hmem p]
    constructor
    · rintro ⟨h1, h2⟩; exact ⟨h1, fun σ hσN hσD => h2 σ hσN ((hmem σ).mpr hσD)⟩
    · rintro ⟨h1, h2⟩; exact ⟨h1, fun σ hσN hσD => h2 σ hσN ((hmem σ).mp hσD)⟩
  have s1 := mine_some_iff D M N hD p hpp hj
  have s2 := mine_some_iff D' M N hD' p hpp hj'
  cases hg : alGet ((mine D M N).2.getD p.length []) p with
  | none =>
    left
    refine ⟨hg, ?_⟩
    cases hg' : alGet ((mine D' M N).2.getD p.length []) p with
    | none => rfl
    | some Ls' =>
      exfalso
      obtain ⟨Ls, hLs⟩ := s1.mpr (hsome.mpr (s2.mp ⟨Ls', hg'⟩))
      rw [hg] at hLs; cases hLs
  | some Ls =>
    right
    obtain ⟨Ls', hLs'⟩ := s2.mpr (hsome.mp (s1.mp ⟨Ls, hg⟩))
    refine ⟨Ls, Ls', hg, hLs', fun H => ?_⟩
    rw [mine_hits_iff D M N hD p hpp hj Ls hg H, mine_hits_iff D' M N hD' p hpp hj' Ls' hLs' H]
    exact hhits H

/-- **order independence of `forb ∘ mine`**: for two dictionaries whose levels are rearrangements
    of each other, any two executions (any choice of the cell branched on in any call of the
    hitting-set recursion) return equivalent dictionaries: same lengths, same classical patterns,
    per pattern the same set of shadings - and each lists a shading once, without repeated cells -/
theorem forb_mine_order_independent (D D' : Nat → List NSeq) (hperm : ∀ k, (D k).Perm (D' k))
    (M N : Nat) (hD : ∀ k, ∀ p ∈ D k, IsPerm p ∧ p.length = k) (out out' : PattDict)
    (h : ForbRun (mine D M N).2 (mine D M N).1 M out)
    (h' : ForbRun (mine D' M N).2 (mine D' M N).1 M out') :
    DictEquiv out out' ∧ CleanDict out ∧ CleanDict out' := by
  rw [← mine_fst_perm D D' hperm M N] at h'
  exact forbRun_equiv h h' (mine_gpEquiv D D' hperm M N hD)

end Model.C17
