import PermutaModel.Lemmas.C19Shape
import PermutaModel.Lemmas.C10Std
import PermutaModel.Lemmas.C10Algebra
import PermutaModel.Lemmas.C04MeshScan
import PermutaModel.Lemmas.C19Occ

/-! C19 helper lemmas, part 4: the remaining shape tests of the core strategies against index-free
    definitions: `bstrip` ("`p = r ⊕ 1`"), the two mesh patterns `_M_PATT` ("the two largest values are
    adjacent"), `last_sum_component` / `last_skew_component` ("`q = a ⊕ c`, `c` sum-indecomposable"). -/
open Model.C13 Model.C19
open Proto (Err)

namespace C19
open C13 (mem_of_isPerm)

/-! ### `r ⊕ 1` and `bstrip` -/

theorem directSum_snoc (r : NSeq) : Model.directSum r [0] = r ++ [r.length] := by
  simp [Model.directSum]

theorem directSum_snoc_ne_nil (r : NSeq) : Model.directSum r [0] ≠ [] := by simp [directSum_snoc]

theorem bstrip_directSum (r : NSeq) : bstrip (Model.directSum r [0]) = .ok r := by
  rw [directSum_snoc]
  unfold bstrip
  rw [if_neg (by simp), if_pos (by simp)]
  simp

theorem isPerm_one : IsPerm [0] := by decide

/-- a non-empty permutation ending with its maximum is `r ⊕ 1`, and `bstrip` returns that `r` -/
theorem bstrip_of_last_max {p : NSeq} (hp : IsPerm p) (hne : p ≠ []) (h : p.getLastD 0 = p.length - 1) :
    ∃ r, IsPerm r ∧ p = Model.directSum r [0] ∧ bstrip p = .ok r := by
  have hsplit : p = p.dropLast ++ [p.length - 1] := by
    conv_lhs => rw [← List.dropLast_append_getLast hne]
    congr 2
    rw [← h]
    cases p with
    | nil => exact absurd rfl hne
    | cons a t => simp [List.getLastD_eq_getLast?, List.getLast?_eq_getLast_of_ne_nil]
  have hlen : p.dropLast.length = p.length - 1 := by simp
  have hnd : (p.dropLast ++ [p.length - 1]).Nodup := hsplit ▸ hp.1
  refine ⟨p.dropLast, ⟨hp.1.sublist (List.dropLast_sublist _), ?_⟩, ?_, ?_⟩
  · intro x hx
    have h1 := hp.2 x (List.mem_of_mem_dropLast hx)
    have h2 : x ≠ p.length - 1 := by
      intro e
      have := (List.nodup_append.mp hnd).2.2 x hx (p.length - 1) (by simp)
      exact this e
    rw [hlen]; omega
  · rw [directSum_snoc, hlen]; exact hsplit
  · unfold bstrip
    rw [if_neg (isEmpty_false hne), if_pos h]

/-- otherwise `bstrip` changes nothing, and the permutation is not of the form `r ⊕ 1` -/
theorem bstrip_of_last_not_max {p : NSeq} (hne : p ≠ []) (h : p.getLastD 0 ≠ p.length - 1) :
    bstrip p = .ok p ∧ ¬ ∃ r, p = Model.directSum r [0] := by
  refine ⟨?_, ?_⟩
  · unfold bstrip
    rw [if_neg (isEmpty_false hne), if_neg h]
  · rintro ⟨r, rfl⟩
    apply h
    rw [directSum_snoc]
    simp

/-- **`bstrip`**: the result is `r` when `p = r ⊕ 1`, and `p` itself when `p` is not of that form -/
theorem bstrip_iff (p : NSeq) (hp : IsPerm p) (hne : p ≠ []) (r : NSeq) :
    bstrip p = .ok r ↔ (IsPerm r ∧ p = Model.directSum r [0]) ∨ (r = p ∧ ¬ ∃ r', p = Model.directSum r' [0]) := by
  by_cases h : p.getLastD 0 = p.length - 1
  · obtain ⟨r0, hr0, hpr, hb⟩ := bstrip_of_last_max hp hne h
    rw [hb]
    constructor
    · intro e; cases e; exact Or.inl ⟨hr0, hpr⟩
    · rintro (⟨_, e⟩ | ⟨_, hn⟩)
      · rw [e, bstrip_directSum] at hb
        exact hb.symm
      · exact absurd ⟨r0, hpr⟩ hn
  · obtain ⟨hb, hn⟩ := bstrip_of_last_not_max hne h
    rw [hb]
    constructor
    · intro e; cases e; exact Or.inr ⟨rfl, hn⟩
    · rintro (⟨_, e⟩ | ⟨e, _⟩)
      · exact absurd ⟨r, e⟩ hn
      · rw [e]

theorem bstrip_nil : bstrip [] = .error .assertion := rfl

theorem sumindBstrip_nil : sumindBstrip [] = .error .assertion := rfl

theorem getLastD_directSum_one {q : NSeq} (hq : q ≠ []) :
    (Model.directSum [0] q).getLastD 0 = q.getLastD 0 + 1 := by
  rw [directSum_one]
  obtain ⟨l, a, rfl⟩ : ∃ l a, q = l ++ [a] := ⟨q.dropLast, q.getLast hq, (List.dropLast_append_getLast hq).symm⟩
  rw [List.map_append, ← List.cons_append, List.getLastD_concat, List.map_singleton, List.getLastD_concat]

/-- a sum-indecomposable permutation of length ≥ 2 does not end with its maximum -/
theorem last_ne_max_of_sumind {q : NSeq} (hq : IsPerm q) (h2 : 2 ≤ q.length) (hind : ¬ SumDecomposable q) :
    q.getLastD 0 ≠ q.length - 1 := by
  intro h
  have hne : q ≠ [] := by intro e; subst e; simp at h2
  obtain ⟨r, hr, hqr, _⟩ := bstrip_of_last_max hq hne h
  apply hind
  refine ⟨r, [0], ?_, by simp, hr, isPerm_one, hqr⟩
  intro e
  subst e
  rw [hqr] at h2
  simp [Model.directSum] at h2

/-- **`zero_plus_sumind(bstrip(p))`** (shape of RdCdCu) ⇔ `p = 1 ⊕ q ⊕ 1` or `p = 1 ⊕ q` with `q` non-empty,
    `q` sum-indecomposable in both cases -/
theorem sumindBstrip_iff (p : NSeq) (hp : IsPerm p) :
    sumindBstrip p = .ok true ↔ ∃ q, IsPerm q ∧ ¬ SumDecomposable q ∧
      (p = Model.directSum (Model.directSum [0] q) [0] ∨ (q ≠ [] ∧ p = Model.directSum [0] q)) := by
  constructor
  · intro h
    by_cases hne : p = []
    · subst hne; cases h
    by_cases hl : p.getLastD 0 = p.length - 1
    · obtain ⟨r, hr, hpr, hb⟩ := bstrip_of_last_max hp hne hl
      unfold sumindBstrip at h
      rw [hb] at h
      obtain ⟨q, hq, hrq, hind⟩ := (zeroPlusSumind_iff r hr).mp h
      exact ⟨q, hq, hind, Or.inl (by rw [hpr, hrq])⟩
    · obtain ⟨hb, _⟩ := bstrip_of_last_not_max hne hl
      unfold sumindBstrip at h
      rw [hb] at h
      obtain ⟨q, hq, hpq, hind⟩ := (zeroPlusSumind_iff p hp).mp h
      refine ⟨q, hq, hind, Or.inr ⟨?_, hpq⟩⟩
      intro e
      subst e
      apply hl
      rw [hpq]; rfl
  · rintro ⟨q, hq, hind, h | ⟨hq0, h⟩⟩
    · subst h
      unfold sumindBstrip
      rw [bstrip_directSum]
      exact (zeroPlusSumind_iff _ (C10L.directSum_isPerm isPerm_one hq)).mpr ⟨q, hq, rfl, hind⟩
    · subst h
      by_cases h2 : 2 ≤ q.length
      · have hl : (Model.directSum [0] q).getLastD 0 ≠ (Model.directSum [0] q).length - 1 := by
          rw [getLastD_directSum_one hq0]
          have := last_ne_max_of_sumind hq h2 hind
          simp only [C10L.length_directSum, List.length_cons, List.length_nil]
          omega
        obtain ⟨hb, _⟩ := bstrip_of_last_not_max (directSum_one_ne_nil q) hl
        unfold sumindBstrip
        rw [hb]
        exact (zeroPlusSumind_iff _ (C10L.directSum_isPerm isPerm_one hq)).mpr ⟨q, hq, rfl, hind⟩
      · have hq1 : q = [0] := by
          cases q with
          | nil => exact absurd rfl hq0
          | cons a t =>
            cases t with
            | nil =>
              have := hq.2 a (by simp)
              simp at this
              rw [this]
            | cons b t' => simp at h2
        subst hq1
        rfl

/-- **`RdCuCoreStrategy.is_valid_extension`** is the conjunction of its two tests -/
theorem validRdCu_iff_and (p : NSeq) :
    Strat.valid .rdCu p = .ok true ↔ zeroPlusSkewind p = .ok true ∧ sumindBstrip p = .ok true := by
  unfold Strat.valid
  cases h : zeroPlusSkewind p with
  | error e => simp
  | ok v => cases v <;> simp

/-! ### the two mesh patterns `_M_PATT` -/

/-- the cell of a further point `k` relative to the two points at `i < j` is unshaded exactly when it is
    the bottom-left or the bottom-right box: `k` is not between the two points and lies below both -/
theorem cell_free_iff (σ : NSeq) {i j k : Nat} (hij : i < j) (hki : k ≠ i) (hkj : k ≠ j) :
    (Spec.countLt [i, j] k, Spec.countLt ([i, j].map fun t => σ.getD t 0) (σ.getD k 0)) ∉ mShading ↔
      (k < i ∨ j < k) ∧ ¬ σ.getD i 0 < σ.getD k 0 ∧ ¬ σ.getD j 0 < σ.getD k 0 := by
  unfold Spec.countLt
  simp only [List.map_cons, List.map_nil, List.filter_cons, List.filter_nil]
  generalize σ.getD i 0 = vi
  generalize σ.getD j 0 = vj
  generalize σ.getD k 0 = vk
  by_cases h1 : i < k <;> by_cases h2 : j < k <;> by_cases h3 : vi < vk <;>
    by_cases h4 : vj < vk <;> simp [h1, h2, h3, h4, mShading] <;> omega

/-- **box form of the mesh pattern `(21, M)`**: an occurrence is a descent `q[i] > q[j]` such that every other
    point lies in the bottom-left or the bottom-right box -/
theorem meshContains_rd_iff_boxes (q : NSeq) (hq : IsPerm q) :
    MeshContains q ⟨[1, 0], mShading⟩ ↔ ∃ i j, i < j ∧ j < q.length ∧ q.getD j 0 < q.getD i 0 ∧
      ∀ k, k < q.length → k ≠ i → k ≠ j → (k < i ∨ j < k) ∧ q.getD k 0 < q.getD j 0 := by
  constructor
  · rintro ⟨c, hocc, hfree⟩
    obtain ⟨i, j, rfl, hij, hj, hv⟩ := (isOcc_10_iff q c).mp hocc
    refine ⟨i, j, hij, hj, hv, fun k hk hki hkj => ?_⟩
    have := (cell_free_iff q hij hki hkj).mp (hfree k hk (by simp [hki, hkj]))
    refine ⟨this.1, ?_⟩
    have hne : q.getD k 0 ≠ q.getD j 0 := fun e => hkj (hq.getD_inj hk hj e)
    omega
  · rintro ⟨i, j, hij, hj, hv, hall⟩
    refine ⟨[i, j], (isOcc_10_iff q _).mpr ⟨i, j, rfl, hij, hj, hv⟩, fun k hk hkc => ?_⟩
    simp only [List.mem_cons, List.not_mem_nil, or_false, not_or] at hkc
    have := hall k hk hkc.1 hkc.2
    exact (cell_free_iff q hij hkc.1 hkc.2).mpr ⟨this.1, by omega, by omega⟩

/-- **box form of the mesh pattern `(12, M)`**: an occurrence is an ascent `q[i] < q[j]` such that every other
    point lies in the bottom-left or the bottom-right box -/
theorem meshContains_ru_iff_boxes (q : NSeq) (hq : IsPerm q) :
    MeshContains q ⟨[0, 1], mShading⟩ ↔ ∃ i j, i < j ∧ j < q.length ∧ q.getD i 0 < q.getD j 0 ∧
      ∀ k, k < q.length → k ≠ i → k ≠ j → (k < i ∨ j < k) ∧ q.getD k 0 < q.getD i 0 := by
  constructor
  · rintro ⟨c, hocc, hfree⟩
    obtain ⟨i, j, rfl, hij, hj, hv⟩ := (isOcc_01_iff q c).mp hocc
    refine ⟨i, j, hij, hj, hv, fun k hk hki hkj => ?_⟩
    have := (cell_free_iff q hij hki hkj).mp (hfree k hk (by simp [hki, hkj]))
    refine ⟨this.1, ?_⟩
    have hne : q.getD k 0 ≠ q.getD i 0 := fun e => hki (hq.getD_inj hk (by omega) e)
    omega
  · rintro ⟨i, j, hij, hj, hv, hall⟩
    refine ⟨[i, j], (isOcc_01_iff q _).mpr ⟨i, j, rfl, hij, hj, hv⟩, fun k hk hkc => ?_⟩
    simp only [List.mem_cons, List.not_mem_nil, or_false, not_or] at hkc
    have := hall k hk hkc.1 hkc.2
    exact (cell_free_iff q hij hkc.1 hkc.2).mpr ⟨this.1, by omega, by omega⟩

/-- **`(21, M)` is contained ⇔ the maximum is immediately followed by the second largest value** -/
theorem meshContains_rd_iff_adjacent (q : NSeq) (hq : IsPerm q) :
    MeshContains q ⟨[1, 0], mShading⟩ ↔
      ∃ i, i + 1 < q.length ∧ q.getD i 0 = q.length - 1 ∧ q.getD (i + 1) 0 = q.length - 2 := by
  rw [meshContains_rd_iff_boxes q hq]
  constructor
  · rintro ⟨i, j, hij, hj, hv, hall⟩
    have hji : j = i + 1 := by
      by_contra hne
      have := (hall (i + 1) (by omega) (by omega) (by omega)).1
      omega
    subst hji
    have := top_two hq (by omega) hj hv fun k hk hka hkb => (hall k hk hka hkb).2
    exact ⟨i, hj, this.1, this.2⟩
  · rintro ⟨i, hi, h1, h2⟩
    refine ⟨i, i + 1, by omega, hi, by omega, fun k hk hki hkj => ⟨by omega, ?_⟩⟩
    have := below_top_two hq (by omega) hi h1 h2 k hk hki hkj
    omega

/-- **`(12, M)` is contained ⇔ the second largest value is immediately followed by the maximum** -/
theorem meshContains_ru_iff_adjacent (q : NSeq) (hq : IsPerm q) :
    MeshContains q ⟨[0, 1], mShading⟩ ↔
      ∃ i, i + 1 < q.length ∧ q.getD i 0 = q.length - 2 ∧ q.getD (i + 1) 0 = q.length - 1 := by
  rw [meshContains_ru_iff_boxes q hq]
  constructor
  · rintro ⟨i, j, hij, hj, hv, hall⟩
    have hji : j = i + 1 := by
      by_contra hne
      have := (hall (i + 1) (by omega) (by omega) (by omega)).1
      omega
    subst hji
    have := top_two hq hj (by omega) hv fun k hk hka hkb => (hall k hk hkb hka).2
    exact ⟨i, hj, this.2, this.1⟩
  · rintro ⟨i, hi, h1, h2⟩
    refine ⟨i, i + 1, by omega, hi, by omega, fun k hk hki hkj => ⟨by omega, ?_⟩⟩
    have := below_top_two hq hi (by omega) h2 h1 k hk hkj hki
    omega

/-! ### `last_sum_component` -/

/-- the loop condition of `last_sum_component` at `i`: the suffix of length `i` carries the `i` largest values -/
def SufCut (q : NSeq) (i : Nat) : Prop :=
  setEqRange (q.length - i) q.length (q.drop (q.length - i)) = true

/-- the loop returns the least `j ≥ i` at which its condition holds (if there is one up to the length) -/
theorem lastSumIdx_spec (q : NSeq) (i : Nat) (hex : ∃ j, i ≤ j ∧ j ≤ q.length ∧ SufCut q j) :
    SufCut q (lastSumIdx q i) ∧ i ≤ lastSumIdx q i ∧ ∀ j, i ≤ j → j < lastSumIdx q i → ¬ SufCut q j := by
  fun_induction lastSumIdx q i with
  | case1 i h => exact ⟨h, Nat.le_refl _, fun j h1 h2 => by omega⟩
  | case2 i h hlt ih =>
    obtain ⟨j, hj1, hj2, hj3⟩ := hex
    have hne : j ≠ i := by intro e; subst e; exact h hj3
    obtain ⟨r1, r2, r3⟩ := ih ⟨j, by omega, hj2, hj3⟩
    refine ⟨r1, by omega, fun j' h1 h2 => ?_⟩
    by_cases e : j' = i
    · subst e; exact h
    · exact r3 j' (by omega) h2
  | case3 i h hlt =>
    obtain ⟨j, hj1, hj2, hj3⟩ := hex
    have : j = i := by omega
    subst this
    exact absurd hj3 h

/-- **the suffix of length `i` carries the `i` largest values ⇔ `q = a ⊕ c` with `|c| = i`** -/
theorem sufCut_iff {q : NSeq} (hq : IsPerm q) {i : Nat} (hi : i ≤ q.length) :
    SufCut q i ↔ ∃ a c, IsPerm a ∧ IsPerm c ∧ c.length = i ∧ q = Model.directSum a c := by
  constructor
  · intro h
    obtain ⟨hlt, hall⟩ := (setEqRange_iff _ _ _).mp h
    generalize hk : q.length - i = k at hlt hall
    have hlen : (q.take k).length = k := by simp; omega
    have htake : ∀ x ∈ q.take k, x < k := by
      intro x hx
      by_contra hc
      have hx' : x ∈ q.drop k := hall x (by omega) (hq.2 x (List.mem_of_mem_take hx))
      exact not_mem_take_of_mem_drop hq.1 hx' hx
    refine ⟨q.take k, (q.drop k).map (· - k), ?_, ?_, ?_, ?_⟩
    · exact ⟨hq.1.sublist (List.take_sublist _ _), fun x hx => by rw [hlen]; exact htake x hx⟩
    · refine ⟨?_, ?_⟩
      · refine List.Nodup.map_on ?_ (hq.1.sublist (List.drop_sublist _ _))
        intro x hx y hy hxy
        have := (hlt x hx).1; have := (hlt y hy).1
        omega
      · intro x hx
        obtain ⟨y, hy, rfl⟩ := List.mem_map.mp hx
        have := hlt y hy
        simp only [List.length_map, List.length_drop]
        omega
    · simp only [List.length_map, List.length_drop]; omega
    · unfold Model.directSum
      rw [hlen, List.map_map]
      have : (q.drop k).map ((· + k) ∘ (· - k)) = q.drop k := by
        rw [List.map_congr_left (g := id)]
        · simp
        · intro x hx; have := (hlt x hx).1; simp; omega
      rw [this, List.take_append_drop]
  · rintro ⟨a, c, ha, hc, rfl, rfl⟩
    unfold SufCut Model.directSum
    have hk : (a ++ c.map (· + a.length)).length - c.length = a.length := by simp
    rw [hk, List.drop_left' rfl, setEqRange_iff]
    simp only [List.length_append, List.length_map]
    refine ⟨?_, ?_⟩
    · intro x hx
      obtain ⟨y, hy, rfl⟩ := List.mem_map.mp hx
      have := hc.2 y hy
      omega
    · intro v hv1 hv2
      exact List.mem_map.mpr ⟨v - a.length, mem_of_isPerm hc (by omega), by omega⟩

theorem drop_length_add_append (a b : List Nat) (m : Nat) : (a ++ b).drop (a.length + m) = b.drop m := by
  rw [List.drop_append]
  simp

/-- the cuts of `a ⊕ c` inside `c` are the cuts of `c` -/
theorem sufCut_directSum (a c : NSeq) {j : Nat} (hj : j ≤ c.length) :
    SufCut (Model.directSum a c) j ↔ SufCut c j := by
  unfold SufCut Model.directSum
  have hk : (a ++ c.map (· + a.length)).length - j = a.length + (c.length - j) := by simp; omega
  rw [hk, drop_length_add_append, ← List.map_drop, setEqRange_iff, setEqRange_iff]
  simp only [List.length_append, List.length_map]
  constructor
  · rintro ⟨h1, h2⟩
    refine ⟨fun x hx => ?_, fun v hv1 hv2 => ?_⟩
    · have := h1 (x + a.length) (List.mem_map.mpr ⟨x, hx, rfl⟩)
      omega
    · obtain ⟨y, hy, hyv⟩ := List.mem_map.mp (h2 (v + a.length) (by omega) (by omega))
      have : y = v := by omega
      exact this ▸ hy
  · rintro ⟨h1, h2⟩
    refine ⟨fun x hx => ?_, fun v hv1 hv2 => ?_⟩
    · obtain ⟨y, hy, rfl⟩ := List.mem_map.mp hx
      have := h1 y hy
      omega
    · exact List.mem_map.mpr ⟨v - a.length, h2 _ (by omega) (by omega), by omega⟩

/-- sum-decomposable ⇔ there is a proper non-trivial suffix cut -/
theorem sumDecomposable_iff_sufCut {c : NSeq} (hc : IsPerm c) :
    SumDecomposable c ↔ ∃ j, 1 ≤ j ∧ j < c.length ∧ SufCut c j := by
  constructor
  · rintro ⟨a, b, ha0, hb0, ha, hb, rfl⟩
    have hla := List.length_pos_iff.mpr ha0
    have hlb := List.length_pos_iff.mpr hb0
    refine ⟨b.length, hlb, by rw [C10L.length_directSum]; omega, ?_⟩
    exact (sufCut_iff hc (by rw [C10L.length_directSum]; omega)).mpr ⟨a, b, ha, hb, rfl, rfl⟩
  · rintro ⟨j, hj1, hj2, hcut⟩
    obtain ⟨a, b, ha, hb, hbl, rfl⟩ := (sufCut_iff hc (by omega)).mp hcut
    rw [C10L.length_directSum] at hj2
    refine ⟨a, b, ?_, ?_, ha, hb, rfl⟩
    · intro e; subst e; simp at hj2; omega
    · intro e; subst e; simp at hbl; omega

theorem sufCut_length {q : NSeq} (hq : IsPerm q) : SufCut q q.length :=
  (sufCut_iff hq (Nat.le_refl _)).mpr ⟨[], q, C10L.isPerm_nil, hq, rfl, (C10L.directSum_nil_left q).symm⟩

theorem drop_directSum (a c : NSeq) :
    (Model.directSum a c).drop ((Model.directSum a c).length - c.length) = c.map (· + a.length) := by
  unfold Model.directSum
  have hk : (a ++ c.map (· + a.length)).length - c.length = a.length := by simp
  rw [hk, List.drop_left' rfl]

/-- **`last_sum_component`**: on a non-empty permutation the result is the `c` of the decomposition
    `q = a ⊕ c` with `c` non-empty and sum-indecomposable (which exists and is unique) -/
theorem lastSumComponent_iff {q : NSeq} (hq : IsPerm q) (hne : q ≠ []) (c : NSeq) :
    lastSumComponent q = .ok c ↔
      ∃ a, IsPerm a ∧ IsPerm c ∧ c ≠ [] ∧ ¬ SumDecomposable c ∧ q = Model.directSum a c := by
  have hn : 1 ≤ q.length := List.length_pos_iff.mpr hne
  obtain ⟨r1, r2, r3⟩ := lastSumIdx_spec q 1 ⟨q.length, hn, Nat.le_refl _, sufCut_length hq⟩
  have hle : lastSumIdx q 1 ≤ q.length := by
    by_contra hc
    exact r3 q.length hn (by omega) (sufCut_length hq)
  have hval : lastSumComponent q = .ok (Model.standardize (q.drop (q.length - lastSumIdx q 1))) := by
    unfold lastSumComponent
    rw [if_neg (isEmpty_false hne)]
  rw [hval]
  constructor
  · intro h
    obtain ⟨a, c', ha, hc', hcl, hqac⟩ := (sufCut_iff hq hle).mp r1
    have hcc : c = c' := by
      have := Except.ok.inj h
      rw [← this, ← hcl]
      conv_lhs => rw [hqac]
      rw [drop_directSum, C10L.standardize_shift hc']
    subst hcc
    refine ⟨a, ha, hc', ?_, ?_, hqac⟩
    · intro e; subst e; simp at hcl; omega
    · intro hdec
      obtain ⟨j, hj1, hj2, hj3⟩ := (sumDecomposable_iff_sufCut hc').mp hdec
      have : SufCut q j := by rw [hqac]; exact (sufCut_directSum a c (by omega)).mpr hj3
      exact r3 j hj1 (by omega) this
  · rintro ⟨a, ha, hc, hc0, hind, hqac⟩
    have hcl := List.length_pos_iff.mpr hc0
    have hcut : SufCut q c.length :=
      (sufCut_iff hq (by rw [hqac, C10L.length_directSum]; omega)).mpr ⟨a, c, ha, hc, rfl, hqac⟩
    have hidx : lastSumIdx q 1 = c.length := by
      by_contra hne'
      rcases Nat.lt_or_gt_of_ne hne' with hlt | hgt
      · apply hind
        refine (sumDecomposable_iff_sufCut hc).mpr ⟨lastSumIdx q 1, r2, hlt, ?_⟩
        have key : ∀ j, j ≤ c.length → SufCut q j → SufCut c j := by
          intro j hj h
          rw [hqac] at h
          exact (sufCut_directSum a c hj).mp h
        exact key _ (by omega) r1
      · exact r3 c.length hcl hgt hcut
    rw [hidx]
    conv_lhs => rw [hqac]
    rw [drop_directSum, C10L.standardize_shift hc]

/-! ### `last_skew_component` -/

/-- the loop condition of `last_skew_component` at `i`: the suffix of length `i` carries the `i` smallest values -/
def SkewSufCut (q : NSeq) (i : Nat) : Prop := setEqRange 0 i (q.drop (q.length - i)) = true

theorem lastSkewIdx_spec (q : NSeq) (i : Nat) (hex : ∃ j, i ≤ j ∧ j ≤ q.length ∧ SkewSufCut q j) :
    SkewSufCut q (lastSkewIdx q i) ∧ i ≤ lastSkewIdx q i ∧
      ∀ j, i ≤ j → j < lastSkewIdx q i → ¬ SkewSufCut q j := by
  fun_induction lastSkewIdx q i with
  | case1 i h => exact ⟨h, Nat.le_refl _, fun j h1 h2 => by omega⟩
  | case2 i h hlt ih =>
    obtain ⟨j, hj1, hj2, hj3⟩ := hex
    have hne : j ≠ i := by intro e; subst e; exact h hj3
    obtain ⟨r1, r2, r3⟩ := ih ⟨j, by omega, hj2, hj3⟩
    refine ⟨r1, by omega, fun j' h1 h2 => ?_⟩
    by_cases e : j' = i
    · subst e; exact h
    · exact r3 j' (by omega) h2
  | case3 i h hlt =>
    obtain ⟨j, hj1, hj2, hj3⟩ := hex
    have : j = i := by omega
    subst this
    exact absurd hj3 h

/-- **the suffix of length `i` carries the `i` smallest values ⇔ `q = a ⊖ c` with `|c| = i`** -/
theorem skewSufCut_iff {q : NSeq} (hq : IsPerm q) {i : Nat} (hi : i ≤ q.length) :
    SkewSufCut q i ↔ ∃ a c, IsPerm a ∧ IsPerm c ∧ c.length = i ∧ q = Model.skewSum a c := by
  constructor
  · intro h
    obtain ⟨hlt, hall⟩ := (setEqRange_iff _ _ _).mp h
    generalize hk : q.length - i = k at hlt hall
    have hlen : (q.take k).length = k := by simp; omega
    have hdl : (q.drop k).length = i := by simp; omega
    have htake : ∀ x ∈ q.take k, i ≤ x := by
      intro x hx
      by_contra hc
      have hx' : x ∈ q.drop k := hall x (Nat.zero_le _) (by omega)
      exact not_mem_take_of_mem_drop hq.1 hx' hx
    refine ⟨(q.take k).map (· - i), q.drop k, ?_, ?_, hdl, ?_⟩
    · refine ⟨?_, ?_⟩
      · refine List.Nodup.map_on ?_ (hq.1.sublist (List.take_sublist _ _))
        intro x hx y hy hxy
        have := htake x hx; have := htake y hy
        omega
      · intro x hx
        obtain ⟨y, hy, rfl⟩ := List.mem_map.mp hx
        have := htake y hy
        have := hq.2 y (List.mem_of_mem_take hy)
        simp only [List.length_map, hlen]
        omega
    · exact ⟨hq.1.sublist (List.drop_sublist _ _), fun x hx => by rw [hdl]; exact (hlt x hx).2⟩
    · unfold Model.skewSum
      rw [hdl, List.map_map]
      have : (q.take k).map ((· + i) ∘ (· - i)) = q.take k := by
        rw [List.map_congr_left (g := id)]
        · simp
        · intro x hx; have := htake x hx; simp; omega
      rw [this, List.take_append_drop]
  · rintro ⟨a, c, ha, hc, rfl, rfl⟩
    unfold SkewSufCut Model.skewSum
    have hk : (a.map (· + c.length) ++ c).length - c.length = (a.map (· + c.length)).length := by simp
    rw [hk, List.drop_left' rfl, setEqRange_iff]
    exact ⟨fun x hx => ⟨Nat.zero_le _, hc.2 x hx⟩, fun v _ hv => mem_of_isPerm hc hv⟩

theorem skewSufCut_skewSum (a c : NSeq) {j : Nat} (hj : j ≤ c.length) :
    SkewSufCut (Model.skewSum a c) j ↔ SkewSufCut c j := by
  unfold SkewSufCut Model.skewSum
  have hk : (a.map (· + c.length) ++ c).length - j = (a.map (· + c.length)).length + (c.length - j) := by
    simp; omega
  rw [hk, drop_length_add_append]

theorem skewDecomposable_iff_sufCut {c : NSeq} (hc : IsPerm c) :
    SkewDecomposable c ↔ ∃ j, 1 ≤ j ∧ j < c.length ∧ SkewSufCut c j := by
  constructor
  · rintro ⟨a, b, ha0, hb0, ha, hb, rfl⟩
    have hla := List.length_pos_iff.mpr ha0
    have hlb := List.length_pos_iff.mpr hb0
    refine ⟨b.length, hlb, by rw [C10L.length_skewSum]; omega, ?_⟩
    exact (skewSufCut_iff hc (by rw [C10L.length_skewSum]; omega)).mpr ⟨a, b, ha, hb, rfl, rfl⟩
  · rintro ⟨j, hj1, hj2, hcut⟩
    obtain ⟨a, b, ha, hb, hbl, rfl⟩ := (skewSufCut_iff hc (by omega)).mp hcut
    rw [C10L.length_skewSum] at hj2
    refine ⟨a, b, ?_, ?_, ha, hb, rfl⟩
    · intro e; subst e; simp at hj2; omega
    · intro e; subst e; simp at hbl; omega

theorem skewSufCut_length {q : NSeq} (hq : IsPerm q) : SkewSufCut q q.length :=
  (skewSufCut_iff hq (Nat.le_refl _)).mpr ⟨[], q, C10L.isPerm_nil, hq, rfl, (C10L.skewSum_nil_left q).symm⟩

theorem drop_skewSum (a c : NSeq) :
    (Model.skewSum a c).drop ((Model.skewSum a c).length - c.length) = c := by
  unfold Model.skewSum
  have hk : (a.map (· + c.length) ++ c).length - c.length = (a.map (· + c.length)).length := by simp
  rw [hk, List.drop_left' rfl]

theorem standardize_self {c : NSeq} (hc : IsPerm c) : Model.standardize c = c := by
  have := C10L.standardize_shift hc 0
  simpa using this

/-- **`last_skew_component`**: on a non-empty permutation the result is the `c` of the decomposition
    `q = a ⊖ c` with `c` non-empty and skew-indecomposable (which exists and is unique) -/
theorem lastSkewComponent_iff {q : NSeq} (hq : IsPerm q) (hne : q ≠ []) (c : NSeq) :
    lastSkewComponent q = .ok c ↔
      ∃ a, IsPerm a ∧ IsPerm c ∧ c ≠ [] ∧ ¬ SkewDecomposable c ∧ q = Model.skewSum a c := by
  have hn : 1 ≤ q.length := List.length_pos_iff.mpr hne
  obtain ⟨r1, r2, r3⟩ := lastSkewIdx_spec q 1 ⟨q.length, hn, Nat.le_refl _, skewSufCut_length hq⟩
  have hle : lastSkewIdx q 1 ≤ q.length := by
    by_contra hc
    exact r3 q.length hn (by omega) (skewSufCut_length hq)
  have hval : lastSkewComponent q = .ok (Model.standardize (q.drop (q.length - lastSkewIdx q 1))) := by
    unfold lastSkewComponent
    rw [if_neg (isEmpty_false hne)]
  rw [hval]
  constructor
  · intro h
    obtain ⟨a, c', ha, hc', hcl, hqac⟩ := (skewSufCut_iff hq hle).mp r1
    have hcc : c = c' := by
      have := Except.ok.inj h
      rw [← this, ← hcl]
      conv_lhs => rw [hqac]
      rw [drop_skewSum, standardize_self hc']
    subst hcc
    refine ⟨a, ha, hc', ?_, ?_, hqac⟩
    · intro e; subst e; simp at hcl; omega
    · intro hdec
      obtain ⟨j, hj1, hj2, hj3⟩ := (skewDecomposable_iff_sufCut hc').mp hdec
      have : SkewSufCut q j := by rw [hqac]; exact (skewSufCut_skewSum a c (by omega)).mpr hj3
      exact r3 j hj1 (by omega) this
  · rintro ⟨a, ha, hc, hc0, hind, hqac⟩
    have hcl := List.length_pos_iff.mpr hc0
    have hcut : SkewSufCut q c.length :=
      (skewSufCut_iff hq (by rw [hqac, C10L.length_skewSum]; omega)).mpr ⟨a, c, ha, hc, rfl, hqac⟩
    have hidx : lastSkewIdx q 1 = c.length := by
      by_contra hne'
      rcases Nat.lt_or_gt_of_ne hne' with hlt | hgt
      · apply hind
        refine (skewDecomposable_iff_sufCut hc).mpr ⟨lastSkewIdx q 1, r2, hlt, ?_⟩
        have key : ∀ j, j ≤ c.length → SkewSufCut q j → SkewSufCut c j := by
          intro j hj h
          rw [hqac] at h
          exact (skewSufCut_skewSum a c hj).mp h
        exact key _ (by omega) r1
      · exact r3 c.length hcl hgt hcut
    rw [hidx]
    conv_lhs => rw [hqac]
    rw [drop_skewSum, standardize_self hc]

/-! ### index-free vocabulary and the two mesh strategies -/

/-- `u v` is a consecutive factor of the one-line notation of `q` -/
def HasFactor (q : NSeq) (u v : Nat) : Prop := ∃ a b, q = a ++ u :: v :: b

/-- `c` is the last sum component of `q`: `q = a ⊕ c` with `c` non-empty and sum-indecomposable -/
def IsLastSumComponent (q c : NSeq) : Prop :=
  ∃ a, IsPerm a ∧ IsPerm c ∧ c ≠ [] ∧ ¬ SumDecomposable c ∧ q = Model.directSum a c

/-- `c` is the last skew component of `q`: `q = a ⊖ c` with `c` non-empty and skew-indecomposable -/
def IsLastSkewComponent (q c : NSeq) : Prop :=
  ∃ a, IsPerm a ∧ IsPerm c ∧ c ≠ [] ∧ ¬ SkewDecomposable c ∧ q = Model.skewSum a c

/-- `HasFactor` is decidable (a bounded search over positions) -/
instance (q : NSeq) (u v : Nat) : Decidable (HasFactor q u v) :=
  decidable_of_iff (∃ i, i < q.length ∧ (i + 1 < q.length ∧ q.getD i 0 = u ∧ q.getD (i + 1) 0 = v)) (by
    rw [HasFactor, ← adjacent_iff_factor]
    constructor
    · rintro ⟨i, _, h⟩; exact ⟨i, h⟩
    · rintro ⟨i, h⟩; exact ⟨i, by omega, h⟩)

theorem isPerm_10 : IsPerm [1, 0] := by decide
theorem isPerm_01 : IsPerm [0, 1] := by decide

/-- **`q` contains `Rd2134._M_PATT` ⇔ the maximum is immediately followed by the second largest value** -/
theorem containsMesh_rd_iff (q : NSeq) (hq : IsPerm q) :
    Model.containsMesh q ⟨[1, 0], mShading⟩ = true ↔ HasFactor q (q.length - 1) (q.length - 2) := by
  rw [C04L.containsMesh_iff (m := ⟨[1, 0], mShading⟩) isPerm_10 hq, meshContains_rd_iff_adjacent q hq, adjacent_iff_factor]
  rfl

/-- **`q` contains `Ru2143._M_PATT` ⇔ the second largest value is immediately followed by the maximum** -/
theorem containsMesh_ru_iff (q : NSeq) (hq : IsPerm q) :
    Model.containsMesh q ⟨[0, 1], mShading⟩ = true ↔ HasFactor q (q.length - 2) (q.length - 1) := by
  rw [C04L.containsMesh_iff (m := ⟨[0, 1], mShading⟩) isPerm_01 hq, meshContains_ru_iff_adjacent q hq, adjacent_iff_factor]
  rfl

/-- `c not in Av(π)` for a single pattern: `c` contains `π` -/
theorem not_avoids_one_iff (c π : NSeq) (hc : IsPerm c) (hπ : IsPerm π) :
    Model.avoidsAll c [π] = false ↔ Contains c π := by
  rw [← Bool.not_eq_true, C01.avoidsAll_iff c [π] hc (by simpa using hπ)]
  simp

theorem not_isLastSumComponent_nil (c : NSeq) : ¬ IsLastSumComponent [] c := by
  rintro ⟨a, _, _, hc0, _, h⟩
  have := congrArg List.length h
  rw [C10L.length_directSum] at this
  have := List.length_pos_iff.mpr hc0
  simp at *; omega

theorem not_isLastSkewComponent_nil (c : NSeq) : ¬ IsLastSkewComponent [] c := by
  rintro ⟨a, _, _, hc0, _, h⟩
  have := congrArg List.length h
  rw [C10L.length_skewSum] at this
  have := List.length_pos_iff.mpr hc0
  simp at *; omega

/-- **`Rd2134CoreStrategy.is_valid_extension p`** ⇔ `p = 1 ⊕ q`, the two largest values of `q` are not adjacent in
    decreasing order, and the last sum component of `q` contains `12` or has length one -/
theorem validRd2134_iff_shape (p : NSeq) (hp : IsPerm p) :
    validRd2134 p = .ok true ↔ ∃ q, IsPerm q ∧ p = Model.directSum [0] q ∧
      ¬ HasFactor q (q.length - 1) (q.length - 2) ∧
      ∃ c, IsLastSumComponent q c ∧ (Contains c [0, 1] ∨ c.length = 1) := by
  rw [validRd2134_iff p hp]
  refine exists_congr fun q => and_congr_right fun hq => and_congr_right fun _ => ?_
  rw [← containsMesh_rd_iff q hq, Bool.not_eq_true]
  refine and_congr_right fun _ => ?_
  by_cases hne : q = []
  · subst hne
    constructor
    · rintro ⟨lc, hlc, h⟩
      cases hlc
      rcases h with h | h
      · exact absurd h (by decide)
      · simp at h
    · rintro ⟨c, hc, _⟩
      exact absurd hc (not_isLastSumComponent_nil c)
  · refine exists_congr fun c => ?_
    rw [lastSumComponent_iff hq hne c]
    constructor
    · rintro ⟨hl, h⟩
      refine ⟨hl, ?_⟩
      obtain ⟨_, _, hc, _⟩ := hl
      rwa [not_avoids_one_iff c _ hc isPerm_01] at h
    · rintro ⟨hl, h⟩
      refine ⟨hl, ?_⟩
      obtain ⟨_, _, hc, _⟩ := hl
      rwa [not_avoids_one_iff c _ hc isPerm_01]

/-- **`Ru2143CoreStrategy.is_valid_extension p`** ⇔ `p = 1 ⊕ q`, the two largest values of `q` are not adjacent in
    increasing order, and the last skew component of `q` contains `21` -/
theorem validRu2143_iff_shape (p : NSeq) (hp : IsPerm p) :
    validRu2143 p = .ok true ↔ ∃ q, IsPerm q ∧ p = Model.directSum [0] q ∧
      ¬ HasFactor q (q.length - 2) (q.length - 1) ∧
      ∃ c, IsLastSkewComponent q c ∧ Contains c [1, 0] := by
  rw [validRu2143_iff p hp]
  refine exists_congr fun q => and_congr_right fun hq => and_congr_right fun _ => ?_
  rw [← containsMesh_ru_iff q hq, Bool.not_eq_true]
  refine and_congr_right fun _ => ?_
  by_cases hne : q = []
  · subst hne
    constructor
    · rintro ⟨lc, hlc, h⟩
      cases hlc
      exact absurd h (by decide)
    · rintro ⟨c, hc, _⟩
      exact absurd hc (not_isLastSkewComponent_nil c)
  · refine exists_congr fun c => ?_
    rw [lastSkewComponent_iff hq hne c]
    constructor
    · rintro ⟨hl, h⟩
      refine ⟨hl, ?_⟩
      obtain ⟨_, _, hc, _⟩ := hl
      rwa [not_avoids_one_iff c _ hc isPerm_10] at h
    · rintro ⟨hl, h⟩
      refine ⟨hl, ?_⟩
      obtain ⟨_, _, hc, _⟩ := hl
      rwa [not_avoids_one_iff c _ hc isPerm_10]

/-- containing `12`: some pair of entries is in increasing order -/
theorem contains_01_iff (c : NSeq) :
    Contains c [0, 1] ↔ ∃ i j, i < j ∧ j < c.length ∧ c.getD i 0 < c.getD j 0 := by
  constructor
  · rintro ⟨o, ho⟩
    obtain ⟨i, j, _, h1, h2, h3⟩ := (isOcc_01_iff c o).mp ho
    exact ⟨i, j, h1, h2, h3⟩
  · rintro ⟨i, j, h1, h2, h3⟩
    exact ⟨[i, j], (isOcc_01_iff c _).mpr ⟨i, j, rfl, h1, h2, h3⟩⟩

/-- containing `21`: some pair of entries is in decreasing order -/
theorem contains_10_iff (c : NSeq) :
    Contains c [1, 0] ↔ ∃ i j, i < j ∧ j < c.length ∧ c.getD j 0 < c.getD i 0 := by
  constructor
  · rintro ⟨o, ho⟩
    obtain ⟨i, j, _, h1, h2, h3⟩ := (isOcc_10_iff c o).mp ho
    exact ⟨i, j, h1, h2, h3⟩
  · rintro ⟨i, j, h1, h2, h3⟩
    exact ⟨[i, j], (isOcc_10_iff c _).mpr ⟨i, j, rfl, h1, h2, h3⟩⟩

/-- a permutation avoids `12` exactly when it is decreasing -/
theorem not_contains_01_iff {c : NSeq} (hc : IsPerm c) : ¬ Contains c [0, 1] ↔ c.Pairwise (· > ·) := by
  rw [contains_01_iff, List.pairwise_iff_getElem]
  constructor
  · intro h i j hi hj hij
    have hne : c[i] ≠ c[j] := fun e => by
      have := (List.Nodup.getElem_inj_iff hc.1).mp e
      omega
    by_contra hlt
    apply h
    refine ⟨i, j, hij, hj, ?_⟩
    rw [C10L.getD_eq_getElem' hi, C10L.getD_eq_getElem' hj]
    omega
  · rintro h ⟨i, j, hij, hj, hlt⟩
    have := h i j (by omega) hj hij
    rw [C10L.getD_eq_getElem' (by omega : i < c.length), C10L.getD_eq_getElem' hj] at hlt
    omega

/-- a permutation avoids `21` exactly when it is increasing -/
theorem not_contains_10_iff {c : NSeq} (hc : IsPerm c) : ¬ Contains c [1, 0] ↔ c.Pairwise (· < ·) := by
  rw [contains_10_iff, List.pairwise_iff_getElem]
  constructor
  · intro h i j hi hj hij
    have hne : c[i] ≠ c[j] := fun e => by
      have := (List.Nodup.getElem_inj_iff hc.1).mp e
      omega
    by_contra hlt
    apply h
    refine ⟨i, j, hij, hj, ?_⟩
    rw [C10L.getD_eq_getElem' hi, C10L.getD_eq_getElem' hj]
    omega
  · rintro h ⟨i, j, hij, hj, hlt⟩
    have := h i j (by omega) hj hij
    rw [C10L.getD_eq_getElem' (by omega : i < c.length), C10L.getD_eq_getElem' hj] at hlt
    omega

/-- the prescribed form of an extra basis element, per strategy, without reference to positions -/
def Shape : Strat → NSeq → Prop
  | .ruCu, p => ∃ q, IsPerm q ∧ p = Model.directSum [0] q ∧ ¬ SkewDecomposable q
  | .rdCd, p => ∃ q, IsPerm q ∧ p = Model.directSum [0] q ∧ ¬ SumDecomposable q
  | .ruCuRdCd, p => ∃ q, IsPerm q ∧ p = Model.directSum [0] q
  | .ruCuCd, p => ∃ q, IsPerm q ∧ p = Model.directSum [0] q ∧ ¬ SkewDecomposable q
  | .rdCdCu, p => ∃ q, IsPerm q ∧ ¬ SumDecomposable q ∧
      (p = Model.directSum (Model.directSum [0] q) [0] ∨ (q ≠ [] ∧ p = Model.directSum [0] q))
  | .rdCu, p => (∃ q, IsPerm q ∧ p = Model.directSum [0] q ∧ ¬ SkewDecomposable q) ∧
      ∃ q, IsPerm q ∧ ¬ SumDecomposable q ∧
        (p = Model.directSum (Model.directSum [0] q) [0] ∨ (q ≠ [] ∧ p = Model.directSum [0] q))
  | .rd2134, p => ∃ q, IsPerm q ∧ p = Model.directSum [0] q ∧ ¬ HasFactor q (q.length - 1) (q.length - 2) ∧
      ∃ c, IsLastSumComponent q c ∧ (Contains c [0, 1] ∨ c.length = 1)
  | .ru2143, p => ∃ q, IsPerm q ∧ p = Model.directSum [0] q ∧ ¬ HasFactor q (q.length - 2) (q.length - 1) ∧
      ∃ c, IsLastSkewComponent q c ∧ Contains c [1, 0]

/-- **every `is_valid_extension` is its index-free shape** -/
theorem valid_iff_shape (s : Strat) (p : NSeq) (hp : IsPerm p) : s.valid p = .ok true ↔ Shape s p := by
  cases s
  · exact zeroPlusSkewind_iff p hp
  · exact zeroPlusSumind_iff p hp
  · exact zeroPlusPerm_iff p hp
  · exact zeroPlusSkewind_iff p hp
  · exact sumindBstrip_iff p hp
  · rw [validRdCu_iff_and, zeroPlusSkewind_iff p hp, sumindBstrip_iff p hp]; rfl
  · exact validRd2134_iff_shape p hp
  · exact validRu2143_iff_shape p hp

end C19
