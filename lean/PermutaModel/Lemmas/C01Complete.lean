import PermutaModel.Lemmas.C01Sound
open Model

/-- full order-isomorphism of an index tuple `c` (as a function on positions `< n`) -/
def FullIso (π σ : NSeq) (c : List Nat) : Prop :=
  ∀ a b, a < π.length → b < π.length →
    (π.getD a 0 < π.getD b 0 ↔ σ.getD (c.getD a 0) 0 < σ.getD (c.getD b 0) 0)

def PSurj (π : NSeq) : Prop := ∀ v, v < π.length → ∃ a, a < π.length ∧ π.getD a 0 = v
def PBdd (π : NSeq) : Prop := ∀ a, a < π.length → π.getD a 0 < π.length

theorem gap (π σ : NSeq) (c : List Nat) (hs : PSurj π) (hb : PBdd π) (hiso : FullIso π σ c) :
    ∀ d a b, a < π.length → b < π.length → π.getD b 0 = π.getD a 0 + d + 1 →
      σ.getD (c.getD a 0) 0 + d + 1 ≤ σ.getD (c.getD b 0) 0 := by
  intro d
  induction d with
  | zero =>
    intro a b ha hb' h
    have := (hiso a b ha hb').mp (by omega); omega
  | succ d ih =>
    intro a b ha hb' h
    have hbb := hb b hb'
    obtain ⟨m, hm, hmv⟩ := hs (π.getD a 0 + 1) (by omega)
    have h1 := (hiso a m ha hm).mp (by omega)
    have h2 := ih m b hm hb' (by omega)
    omega

theorem low (π σ : NSeq) (c : List Nat) (hs : PSurj π) (hb : PBdd π) (hiso : FullIso π σ c) :
    ∀ v a, a < π.length → π.getD a 0 = v → v ≤ σ.getD (c.getD a 0) 0 := by
  intro v
  induction v with
  | zero => intros; omega
  | succ v ih =>
    intro a ha h
    have := hb a ha
    obtain ⟨m, hm, hmv⟩ := hs v (by omega)
    have h1 := (hiso m a hm ha).mp (by omega)
    have h2 := ih m hm hmv
    omega

theorem high (π σ : NSeq) (c : List Nat) (hs : PSurj π) (hiso : FullIso π σ c)
    (hσ : ∀ a, a < π.length → σ.getD (c.getD a 0) 0 < σ.length) :
    ∀ d a, a < π.length → π.getD a 0 + d + 1 = π.length →
      σ.getD (c.getD a 0) 0 + d + 1 ≤ σ.length := by
  intro d
  induction d with
  | zero => intro a ha _; have := hσ a ha; omega
  | succ d ih =>
    intro a ha h
    obtain ⟨m, hm, hmv⟩ := hs (π.getD a 0 + 1) (by omega)
    have h1 := (hiso a m ha hm).mp (by omega)
    have h2 := ih m hm (by omega)
    omega

/-- (C): in a genuine occurrence `c`, position `k` passes the pruning bounds computed from
    the first `k` entries of `c`. -/
theorem fits_complete (π σ : NSeq) (c : List Nat) (k : Nat) (hk : k < π.length)
    (hs : PSurj π) (hb : PBdd π) (hiso : FullIso π σ c)
    (hσ : ∀ a, a < π.length → σ.getD (c.getD a 0) 0 < σ.length)
    (hceil : CeilSpec' π k k (leftCeil π k))
    (occ : List Nat) (hocc : ∀ a, a < k → occ.getD a 0 = c.getD a 0) :
    let d := (patternDetails π).getD k ⟨none, none, 0, 0⟩
    lowerBound σ d occ ≤ (σ.getD (c.getD k 0) 0 : Int) ∧
      (σ.getD (c.getD k 0) 0 : Int) ≤ upperBound σ d occ := by
  intro d
  have hd : d = _ := details_getD π k hk _
  rw [hd]
  have hfloor := leftFloor_spec π k
  constructor
  · cases hf : leftFloor π k with
    | none =>
      simp only [lowerBound]
      have := low π σ c hs hb hiso _ k hk rfl
      omega
    | some f =>
      rw [hf] at hfloor
      obtain ⟨hfk, hfv, _⟩ := hfloor
      simp only [lowerBound, hocc f hfk]
      have := gap π σ c hs hb hiso (π.getD k 0 - π.getD f 0 - 1) f k (by omega) hk (by omega)
      omega
  · cases hc : leftCeil π k with
    | none =>
      simp only [upperBound]
      have hbk := hb k hk
      have := high π σ c hs hiso hσ (π.length - π.getD k 0 - 1) k hk (by omega)
      omega
    | some c' =>
      rw [hc] at hceil
      obtain ⟨hck, hcv, _⟩ := hceil
      simp only [upperBound, hocc c' hck]
      have := gap π σ c hs hb hiso (π.getD c' 0 - π.getD k 0 - 1) k c' hk (by omega) (by omega)
      omega
