import PermutaModel.Lemmas.C11Listing
/-! Helper lemmas for C11: the running-extremum scans (`ltrmin`, `ltrmax`, `rtlmin`, `rtlmax`). (core Lean only) -/
open Model.Stat

namespace C11L
local notation:max σ "⟦" i "⟧" => List.getD σ i 0

theorem mem_ltrminGo (t : List Nat) : ∀ (m i x : Nat), x ∈ ltrminGo m i t ↔
    ∃ k, k < t.length ∧ x = i + k ∧ t⟦k⟧ < m ∧ ∀ j, j < k → t⟦j⟧ > t⟦k⟧ := by
  induction t with
  | nil => intro m i x; simp [ltrminGo]
  | cons v t ih =>
    intro m i x
    unfold ltrminGo
    split
    · rename_i hv
      rw [List.mem_cons, ih]
      constructor
      · rintro (rfl | ⟨k, hk, rfl, h1, h2⟩)
        · exact ⟨0, by simp, by omega, by simpa using hv, by intro j hj; omega⟩
        · refine ⟨k + 1, by simp; omega, by omega, by simp only [List.getD_cons_succ]; omega, ?_⟩
          intro j hj
          cases j with
          | zero => simpa using h1
          | succ j => simpa using h2 j (by omega)
      · rintro ⟨k, hk, rfl, h1, h2⟩
        cases k with
        | zero => left; omega
        | succ k =>
          right
          refine ⟨k, by simpa using hk, by omega, ?_, ?_⟩
          · simpa using h2 0 (by omega)
          · intro j hj; simpa using h2 (j + 1) (by omega)
    · rename_i hv
      rw [ih]
      constructor
      · rintro ⟨k, hk, rfl, h1, h2⟩
        refine ⟨k + 1, by simp; omega, by omega, by simpa using h1, ?_⟩
        intro j hj
        cases j with
        | zero => simp only [List.getD_cons_succ, List.getD_cons_zero]; omega
        | succ j => simpa using h2 j (by omega)
      · rintro ⟨k, hk, rfl, h1, h2⟩
        cases k with
        | zero => simp at h1; omega
        | succ k =>
          refine ⟨k, by simpa using hk, by omega, by simpa using h1, ?_⟩
          intro j hj; simpa using h2 (j + 1) (by omega)

theorem pairwise_ltrminGo (t : List Nat) : ∀ (m i : Nat), (ltrminGo m i t).Pairwise (· < ·) := by
  induction t with
  | nil => intro m i; simp [ltrminGo]
  | cons v t ih =>
    intro m i
    unfold ltrminGo
    split
    · rw [List.pairwise_cons]
      refine ⟨?_, ih _ _⟩
      intro x hx
      obtain ⟨k, _, rfl, _⟩ := (mem_ltrminGo t _ _ x).mp hx
      omega
    · exact ih _ _

theorem mem_ltrmaxGo (t : List Nat) : ∀ (m : Int) (i x : Nat), x ∈ ltrmaxGo m i t ↔
    ∃ k, k < t.length ∧ x = i + k ∧ ((t⟦k⟧ : Nat) : Int) > m ∧ ∀ j, j < k → t⟦j⟧ < t⟦k⟧ := by
  induction t with
  | nil => intro m i x; simp [ltrmaxGo]
  | cons v t ih =>
    intro m i x
    unfold ltrmaxGo
    split
    · rename_i hv
      rw [List.mem_cons, ih]
      constructor
      · rintro (rfl | ⟨k, hk, rfl, h1, h2⟩)
        · exact ⟨0, by simp, by omega, by simpa using hv, by intro j hj; omega⟩
        · refine ⟨k + 1, by simp; omega, by omega, by simp only [List.getD_cons_succ]; omega, ?_⟩
          intro j hj
          cases j with
          | zero => simpa using h1
          | succ j => simpa using h2 j (by omega)
      · rintro ⟨k, hk, rfl, h1, h2⟩
        cases k with
        | zero => left; omega
        | succ k =>
          right
          refine ⟨k, by simpa using hk, by omega, ?_, ?_⟩
          · simpa using h2 0 (by omega)
          · intro j hj; simpa using h2 (j + 1) (by omega)
    · rename_i hv
      rw [ih]
      constructor
      · rintro ⟨k, hk, rfl, h1, h2⟩
        refine ⟨k + 1, by simp; omega, by omega, by simpa using h1, ?_⟩
        intro j hj
        cases j with
        | zero => simp only [List.getD_cons_succ, List.getD_cons_zero]; omega
        | succ j => simpa using h2 j (by omega)
      · rintro ⟨k, hk, rfl, h1, h2⟩
        cases k with
        | zero => simp at h1; omega
        | succ k =>
          refine ⟨k, by simpa using hk, by omega, by simpa using h1, ?_⟩
          intro j hj; simpa using h2 (j + 1) (by omega)

theorem pairwise_ltrmaxGo (t : List Nat) : ∀ (m : Int) (i : Nat), (ltrmaxGo m i t).Pairwise (· < ·) := by
  induction t with
  | nil => intro m i; simp [ltrmaxGo]
  | cons v t ih =>
    intro m i
    unfold ltrmaxGo
    split
    · rw [List.pairwise_cons]
      refine ⟨?_, ih _ _⟩
      intro x hx
      obtain ⟨k, _, rfl, _⟩ := (mem_ltrmaxGo t _ _ x).mp hx
      omega
    · exact ih _ _



theorem rtlminRevGo_eq (n : Nat) (t : List Nat) : ∀ (m i : Nat),
    rtlminRevGo n m i t = (ltrminGo m i t).map fun x => n - x - 1 := by
  induction t with
  | nil => intro m i; rfl
  | cons v t ih =>
    intro m i
    unfold rtlminRevGo ltrminGo
    split <;> simp [ih]

theorem rtlmaxRevGo_eq (n : Nat) (t : List Nat) : ∀ (m : Int) (i : Nat),
    rtlmaxRevGo n m i t = (ltrmaxGo m i t).map fun x => n - x - 1 := by
  induction t with
  | nil => intro m i; rfl
  | cons v t ih =>
    intro m i
    unfold rtlmaxRevGo ltrmaxGo
    split <;> simp [ih]

theorem getD_mem_of_lt (p : List Nat) (k : Nat) (hk : k < p.length) : p⟦k⟧ ∈ p := by
  rw [List.getD_eq_getElem?_getD, List.getElem?_eq_getElem hk]
  exact List.getElem_mem hk

theorem getD_reverse_of_lt (p : List Nat) (k : Nat) (hk : k < p.length) :
    p.reverse⟦k⟧ = p⟦p.length - 1 - k⟧ := by
  rw [List.getD_eq_getElem?_getD, List.getD_eq_getElem?_getD,
    List.getElem?_eq_getElem (by simpa using hk), List.getElem?_eq_getElem (by omega)]
  simp [List.getElem_reverse]

/-- reflecting a strictly increasing list of positions `< n` gives a strictly increasing list -/
theorem pairwise_reflect (n : Nat) (l : List Nat) (h : l.Pairwise (· < ·)) (hb : ∀ x ∈ l, x < n) :
    ((l.map fun x => n - x - 1).reverse).Pairwise (· < ·) := by
  rw [List.pairwise_reverse, List.pairwise_map]
  apply List.Pairwise.imp_of_mem _ h
  intro a b ha hb' hab
  have := hb a ha; have := hb b hb'
  omega

/-- `ltrmin` (running minimum started at `len(self)`) lists exactly the left-to-right minima, provided every
    entry is below the length (true for permutations; this is the hypothesis the un-standardised remainder of
    `rtlmax_ltrmin_decomposition` violates) -/
theorem ltrmin_eq_spec (p : NSeq) (h : ∀ x ∈ p, x < p.length) : ltrmin p = Spec.Stat.ltrmin p := by
  apply eq_of_pairwise_lt_of_mem_iff
  · exact pairwise_ltrminGo _ _ _
  · exact List.Pairwise.filter _ List.pairwise_lt_range
  · intro x
    unfold ltrmin Spec.Stat.ltrmin Spec.Stat.positions
    rw [mem_ltrminGo]
    simp only [List.mem_filter, List.mem_range, decide_eq_true_eq]
    constructor
    · rintro ⟨k, hk, rfl, _, h2⟩
      exact ⟨by omega, fun j _ hj => by simpa using h2 j (by omega)⟩
    · rintro ⟨hx, h2⟩
      exact ⟨x, hx, by omega, h _ (getD_mem_of_lt p x hx), fun j hj => h2 j (by omega) hj⟩

theorem ltrmax_eq_spec (p : NSeq) : ltrmax p = Spec.Stat.ltrmax p := by
  apply eq_of_pairwise_lt_of_mem_iff
  · exact pairwise_ltrmaxGo _ _ _
  · exact List.Pairwise.filter _ List.pairwise_lt_range
  · intro x
    unfold ltrmax Spec.Stat.ltrmax Spec.Stat.positions
    rw [mem_ltrmaxGo]
    simp only [List.mem_filter, List.mem_range, decide_eq_true_eq]
    constructor
    · rintro ⟨k, hk, rfl, _, h2⟩
      exact ⟨by omega, fun j _ hj => by simpa using h2 j (by omega)⟩
    · rintro ⟨hx, h2⟩
      exact ⟨x, hx, by omega, by omega, fun j hj => h2 j (by omega) hj⟩

theorem rtlmin_eq_spec (p : NSeq) (h : ∀ x ∈ p, x < p.length) : rtlmin p = Spec.Stat.rtlmin p := by
  have hmem : ∀ x, x ∈ ltrminGo p.length 0 p.reverse ↔
      x < p.length ∧ ∀ j, j < x → p⟦p.length - 1 - j⟧ > p⟦p.length - 1 - x⟧ := by
    intro x
    rw [mem_ltrminGo]
    constructor
    · rintro ⟨k, hk, rfl, _, h2⟩
      simp only [List.length_reverse] at hk
      refine ⟨by omega, fun j hj => ?_⟩
      have := h2 j (by omega)
      rw [getD_reverse_of_lt p j (by omega), getD_reverse_of_lt p k hk] at this
      simpa using this
    · rintro ⟨hx, h2⟩
      refine ⟨x, by simpa using hx, by omega, ?_, fun j hj => ?_⟩
      · rw [getD_reverse_of_lt p x hx]; exact h _ (getD_mem_of_lt p _ (by omega))
      · rw [getD_reverse_of_lt p j (by omega), getD_reverse_of_lt p x hx]; exact h2 j hj
  apply eq_of_pairwise_lt_of_mem_iff
  · unfold rtlmin rtlminReverseList
    rw [rtlminRevGo_eq]
    exact pairwise_reflect _ _ (pairwise_ltrminGo _ _ _) (fun x hx => ((hmem x).mp hx).1)
  · exact List.Pairwise.filter _ List.pairwise_lt_range
  · intro x
    unfold rtlmin rtlminReverseList Spec.Stat.rtlmin Spec.Stat.positions
    rw [rtlminRevGo_eq]
    simp only [List.mem_reverse, List.mem_map, List.mem_filter, List.mem_range, decide_eq_true_eq]
    constructor
    · rintro ⟨y, hy, rfl⟩
      obtain ⟨hy1, hy2⟩ := (hmem y).mp hy
      refine ⟨by omega, fun j hj hlt => ?_⟩
      have := hy2 (p.length - 1 - j) (by omega)
      have e : p.length - 1 - (p.length - 1 - j) = j := by omega
      rw [e] at this
      have e2 : p.length - y - 1 = p.length - 1 - y := by omega
      rw [e2]; exact this
    · rintro ⟨hx, h2⟩
      refine ⟨p.length - 1 - x, (hmem _).mpr ⟨by omega, fun j hj => ?_⟩, by omega⟩
      have e : p.length - 1 - (p.length - 1 - x) = x := by omega
      rw [e]
      exact h2 _ (by omega) (by omega)

theorem rtlmax_eq_spec (p : NSeq) : rtlmax p = Spec.Stat.rtlmax p := by
  have hmem : ∀ x, x ∈ ltrmaxGo (-1) 0 p.reverse ↔
      x < p.length ∧ ∀ j, j < x → p⟦p.length - 1 - j⟧ < p⟦p.length - 1 - x⟧ := by
    intro x
    rw [mem_ltrmaxGo]
    constructor
    · rintro ⟨k, hk, rfl, _, h2⟩
      simp only [List.length_reverse] at hk
      refine ⟨by omega, fun j hj => ?_⟩
      have := h2 j (by omega)
      rw [getD_reverse_of_lt p j (by omega), getD_reverse_of_lt p k hk] at this
      simpa using this
    · rintro ⟨hx, h2⟩
      refine ⟨x, by simpa using hx, by omega, ?_, fun j hj => ?_⟩
      · omega
      · rw [getD_reverse_of_lt p j (by omega), getD_reverse_of_lt p x hx]; exact h2 j hj
  apply eq_of_pairwise_lt_of_mem_iff
  · unfold rtlmax rtlmaxReverseList
    rw [rtlmaxRevGo_eq]
    exact pairwise_reflect _ _ (pairwise_ltrmaxGo _ _ _) (fun x hx => ((hmem x).mp hx).1)
  · exact List.Pairwise.filter _ List.pairwise_lt_range
  · intro x
    unfold rtlmax rtlmaxReverseList Spec.Stat.rtlmax Spec.Stat.positions
    rw [rtlmaxRevGo_eq]
    simp only [List.mem_reverse, List.mem_map, List.mem_filter, List.mem_range, decide_eq_true_eq]
    constructor
    · rintro ⟨y, hy, rfl⟩
      obtain ⟨hy1, hy2⟩ := (hmem y).mp hy
      refine ⟨by omega, fun j hj hlt => ?_⟩
      have := hy2 (p.length - 1 - j) (by omega)
      have e : p.length - 1 - (p.length - 1 - j) = j := by omega
      rw [e] at this
      have e2 : p.length - y - 1 = p.length - 1 - y := by omega
      rw [e2]; exact this
    · rintro ⟨hx, h2⟩
      refine ⟨p.length - 1 - x, (hmem _).mpr ⟨by omega, fun j hj => ?_⟩, by omega⟩
      have e : p.length - 1 - (p.length - 1 - x) = x := by omega
      rw [e]
      exact h2 _ (by omega) (by omega)

end C11L
