import PermutaModel.Lemmas.C01DequeStep
/-! C01 deque: `lfcDeque π = some (lfcOut π)` for duplicate-free `π`. -/
open Model

theorem getD_append_length (pre : List Nat) (v : Nat) (vs : List Nat) :
    (pre ++ v :: vs).getD pre.length 0 = v := by
  simp [List.getD_eq_getElem?_getD]

theorem lfcLoop_correct (π : NSeq)
    (hinj : ∀ a b, a < π.length → b < π.length → π.getD a 0 = π.getD b 0 → a = b) :
    ∀ (rest pre : List Nat) (st : DqState), π = pre ++ rest → pre ≠ [] → DqInv π pre.length st →
      lfcLoop st pre.length rest = some ((List.range' pre.length rest.length).map (outAt π))
  | [], pre, st, _, _, _ => by simp [lfcLoop]
  | v :: vs, pre, st, hπ, hpre, hI => by
    have hidx : pre.length < π.length := by rw [hπ]; simp
    have hv : π.getD pre.length 0 = v := by rw [hπ]; exact getD_append_length pre v vs
    obtain ⟨st', hs, hI'⟩ := lfcStep_correct π pre.length st hinj hidx
      (by intro h; exact hpre (List.eq_nil_of_length_eq_zero h)) hI
    rw [hv] at hs
    have ih := lfcLoop_correct π hinj vs (pre ++ [v]) st' (by rw [hπ]; simp) (by simp)
      (by simpa using hI')
    simp only [List.length_append, List.length_singleton] at ih
    simp only [lfcLoop, hs, ih, Option.map_some, List.length_cons, List.range'_succ, List.map_cons]

theorem outAt_zero (π : NSeq) : outAt π 0 = (-1, -1) := by
  simp [outAt, leftFloor, leftCeil]

theorem nodup_getD_inj {π : NSeq} (h : π.Nodup) :
    ∀ a b, a < π.length → b < π.length → π.getD a 0 = π.getD b 0 → a = b := by
  intro a b ha hb hab
  rw [List.getD_eq_getElem?_getD, List.getD_eq_getElem?_getD, List.getElem?_eq_getElem ha,
    List.getElem?_eq_getElem hb] at hab
  simp only [Option.getD_some] at hab
  exact (List.Nodup.getElem_inj_iff h).mp hab

theorem lfcDeque_eq_lfcOut_of_nodup (π : NSeq) (h : π.Nodup) : lfcDeque π = some (lfcOut π) := by
  have hout : lfcOut π = (List.range' 0 π.length).map (outAt π) := by
    unfold lfcOut
    rw [List.range_eq_range']
    apply List.map_congr_left
    intro k _
    unfold outAt
    cases leftFloor π k <;> cases leftCeil π k <;> rfl
  rw [hout]
  cases π with
  | nil => simp [lfcDeque, lfcLoop]
  | cons v vs =>
    have hI : DqInv (v :: vs) 1 { deq := [(v, 0)], smallest := v, biggest := v } := by
      refine ⟨[(v, 0)], List.IsRotated.refl _, by simp, by simp, ?_, by simp [front], by simp [back]⟩
      intro x
      simp
    have := lfcLoop_correct (v :: vs) (nodup_getD_inj h) vs [v] _ rfl (by simp) hI
    simp only [List.length_singleton] at this
    simp only [lfcDeque, lfcLoop, lfcStep, if_true, List.nil_append, this, Option.map_some,
      List.length_cons, List.range'_succ, List.map_cons, outAt_zero]
