import PermutaModel.Lemmas.C10Cover
import PermutaModel.Lemmas.C10Blocks

/-! Variadic composition, strong simplicity, blocks as patterns. -/
open Model Spec.C10

namespace C10L

theorem foldr_getD_lt {n : Nat} {os : List NSeq} (ho : ∀ o ∈ os, IsPerm o ∧ o.length = n) {idx : Nat}
    (hi : idx < n) : os.foldr (fun o i => o.getD i 0) idx < n := by
  induction os with
  | nil => simpa using hi
  | cons o os ih =>
    have ih' := ih (fun x hx => ho x (by simp [hx]))
    obtain ⟨h1, h2⟩ := ho o (by simp)
    simp only [List.foldr_cons]
    have := h1.getD_lt (h2 ▸ ih')
    omega

theorem composedValue_eq_foldl {p : NSeq} {os : List NSeq}
    (ho : ∀ o ∈ os, IsPerm o ∧ o.length = p.length) {idx : Nat} (hi : idx < p.length) :
    composedValue p idx os = (os.foldl compose p).getD idx 0 := by
  induction os generalizing p with
  | nil => simp [composedValue]
  | cons q os ih =>
    have ho' : ∀ o ∈ os, IsPerm o ∧ o.length = (compose p q).length := by
      intro o h; simpa using ho o (by simp [h])
    have := ih ho' (by simpa using hi)
    simp only [List.foldl_cons]
    rw [← this]
    unfold composedValue
    simp only [List.foldr_cons]
    have hlt : os.foldr (fun o i => o.getD i 0) idx < p.length :=
      foldr_getD_lt (fun o h => ho o (by simp [h])) hi
    rw [compose_getD _ _ hlt]

theorem length_foldl_compose (p : NSeq) (os : List NSeq) : (os.foldl compose p).length = p.length := by
  induction os generalizing p with
  | nil => rfl
  | cons q os ih => simp [ih]

/-- the variadic `compose(self, *others)` on permutations of one length is the left fold of the
    binary composition -/
theorem composeN_eq_foldl {p : NSeq} {os : List NSeq} (ho : ∀ o ∈ os, IsPerm o ∧ o.length = p.length) :
    composeN p os = .ok (os.foldl compose p) := by
  unfold composeN
  have hall : os.all (fun o => o.length == p.length) = true := by
    rw [List.all_eq_true]; intro o h; simpa using (ho o h).2
  rw [if_pos hall]
  congr 1
  apply ext_getD (by simp [length_foldl_compose])
  intro i hi
  have hi' : i < p.length := by simpa using hi
  rw [getD_range_map _ _ hi', composedValue_eq_foldl ho hi']

theorem foldl_compose_isPerm {p : NSeq} {os : List NSeq} (hp : IsPerm p)
    (ho : ∀ o ∈ os, IsPerm o ∧ o.length = p.length) : IsPerm (os.foldl compose p) := by
  induction os generalizing p with
  | nil => exact hp
  | cons q os ih =>
    obtain ⟨h1, h2⟩ := ho q (by simp)
    exact ih (compose_isPerm hp h1 h2) (fun o h => by simpa using ho o (by simp [h]))

/-- strongly simple = simple and every one-point deletion is simple -/
theorem isStronglySimple_iff {p : NSeq} (hp : IsPerm p) :
    isStronglySimple p = true ↔ IsSimple p ∧ ∀ i, i < p.length → IsSimple (removeAt p i) := by
  unfold isStronglySimple
  rw [Bool.and_eq_true, List.all_eq_true, isSimple_iff hp.1]
  constructor
  · rintro ⟨h1, h2⟩
    refine ⟨h1, fun i hi => ?_⟩
    have hq := (removeAt_isPerm hp hi).1
    rw [← isSimple_iff hq.1]
    exact h2 _ ((mem_children p _).mpr ⟨i, hi, rfl⟩)
  · rintro ⟨h1, h2⟩
    refine ⟨h1, fun q hq => ?_⟩
    obtain ⟨i, hi, rfl⟩ := (mem_children p q).mp hq
    rw [isSimple_iff (removeAt_isPerm hp hi).1.1]
    exact h2 i hi

/-- `block_decomposition_as_pattern` = the set of standardised proper intervals -/
theorem mem_blockDecompositionAsPattern {p : NSeq} (hp : p.Nodup) (q : NSeq) :
    q ∈ blockDecompositionAsPattern p ↔
      ∃ i l, 2 ≤ l ∧ l < p.length ∧ IsInterval p i l ∧ q = standardize (window p i l) := by
  unfold blockDecompositionAsPattern
  rw [mem_sortDedup, List.mem_flatMap]
  constructor
  · rintro ⟨⟨b, l⟩, hbl, hq⟩
    rw [List.mem_zipIdx_iff_getElem?] at hbl
    obtain ⟨i, hi, rfl⟩ := List.mem_map.mp hq
    have hi' : i ∈ (blockDecomposition p).getD l [] := by rw [getD_of_getElem? hbl]; exact hi
    obtain ⟨h1, h2, h3⟩ := (mem_blockDecomposition hp i l).mp hi'
    refine ⟨i, l, h1, h2, h3, ?_⟩
    simp [slice, window]
  · rintro ⟨i, l, h1, h2, h3, rfl⟩
    have hi := (mem_blockDecomposition hp i l).mpr ⟨h1, h2, h3⟩
    have hlt : l < (blockDecomposition p).length := by simpa using h2
    refine ⟨((blockDecomposition p)[l], l), ?_, ?_⟩
    · rw [List.mem_zipIdx_iff_getElem?]; exact List.getElem?_eq_getElem hlt
    · rw [getD_of_getElem? (List.getElem?_eq_getElem hlt)] at hi
      exact List.mem_map.mpr ⟨i, hi, by simp [slice, window]⟩

/-- `maximum_block`: `(0, 0)` for a simple permutation, otherwise the largest interval length
    `2 ≤ L < n` together with the leftmost start of an interval of that length -/
theorem maximumBlock_spec {p : NSeq} (hp : p.Nodup) :
    (IsSimple p ∧ maximumBlock p = (0, 0)) ∨
    (∃ L i, maximumBlock p = (L, i) ∧ 2 ≤ L ∧ L < p.length ∧ IsInterval p i L ∧
      (∀ l j, 2 ≤ l → l < p.length → IsInterval p j l → l ≤ L) ∧ (∀ j, IsInterval p j L → i ≤ j)) := by
  have hsimple := isSimple_iff hp
  unfold isSimple at hsimple
  unfold maximumBlock at hsimple ⊢
  cases hf : (blockDecomposition p).zipIdx.reverse.find? (fun bl => !bl.1.isEmpty) with
  | none =>
    left
    rw [hf] at hsimple
    exact ⟨hsimple.mp (by simp), rfl⟩
  | some bl =>
    right
    obtain ⟨hne, as, bs, hsplit, has⟩ := List.find?_eq_some_iff_append.mp hf
    have hmem : bl ∈ (blockDecomposition p).zipIdx := by
      rw [← List.mem_reverse, hsplit]; simp
    rw [List.mem_zipIdx_iff_getElem?] at hmem
    have hget := getD_of_getElem? hmem
    have hz : (blockDecomposition p).zipIdx = bs.reverse ++ bl :: as.reverse := by
      have := List.reverse_eq_append_iff.mp hsplit
      simpa using this
    have hpw : ((blockDecomposition p).zipIdx).Pairwise (fun a b => a.2 < b.2) := by
      rw [← List.pairwise_map (f := Prod.snd) (R := (· < ·)), List.zipIdx_map_snd]
      exact List.pairwise_lt_range' 1
    rw [hz, List.pairwise_append] at hpw
    obtain ⟨_, hpw2, hpw3⟩ := hpw
    rw [List.pairwise_cons] at hpw2
    cases hb : bl.1 with
    | nil => rw [hb] at hne; simp at hne
    | cons a t =>
      have ha : a ∈ (blockDecomposition p).getD bl.2 [] := by rw [hget, hb]; simp
      obtain ⟨h1, h2, h3⟩ := (mem_blockDecomposition hp a bl.2).mp ha
      refine ⟨bl.2, a, by simp [hb], h1, h2, h3, ?_, ?_⟩
      · intro l j hl1 hl2 hint
        by_contra hgt
        have hj := (mem_blockDecomposition hp j l).mpr ⟨hl1, hl2, hint⟩
        have hlt : l < (blockDecomposition p).length := by simpa using hl2
        have hzm : ((blockDecomposition p)[l], l) ∈ (blockDecomposition p).zipIdx := by
          rw [List.mem_zipIdx_iff_getElem?]; exact List.getElem?_eq_getElem hlt
        rw [getD_of_getElem? (List.getElem?_eq_getElem hlt)] at hj
        rw [hz] at hzm
        rcases List.mem_append.mp hzm with hm | hm
        · have := hpw3 _ hm bl (by simp)
          simp at this; omega
        · rcases List.mem_cons.mp hm with hm | hm
          · have := congrArg Prod.snd hm
            simp at this; omega
          · have := has _ (List.mem_reverse.mp hm)
            cases hbl : (blockDecomposition p)[l] with
            | nil => rw [hbl] at hj; simp at hj
            | cons x xs => rw [hbl] at this; simp at this
      · intro j hint
        have hj := (mem_blockDecomposition hp j bl.2).mpr ⟨h1, h2, hint⟩
        rw [hget, hb] at hj
        have hsorted : (bl.1).Pairwise (· < ·) := by
          have hlt : bl.2 < p.length := h2
          have : bl.1 = (List.range p.length).filter fun idx => (blockLens p idx).contains bl.2 := by
            rw [← hget]
            unfold blockDecomposition
            simp [List.getD_eq_getElem?_getD, hlt]
          rw [this]
          exact List.Pairwise.filter _ List.pairwise_lt_range
        rw [hb, List.pairwise_cons] at hsorted
        rcases List.mem_cons.mp hj with rfl | hj
        · exact Nat.le_refl _
        · exact Nat.le_of_lt (hsorted.1 j hj)

end C10L
