import PermutaModel.Spec.Basic
/-! Sublist-based containment (`SContains`) and the insertion criterion behind
    `Av._ensure_level_classical_pattern_basis` (core only). -/

def OIso (a b : List Nat) : Prop :=
  a.length = b.length ∧ ∀ p ∈ a.zip b, ∀ q ∈ a.zip b, (p.1 < q.1 ↔ p.2 < q.2)

def SContains (σ π : List Nat) : Prop := ∃ s, List.Sublist s σ ∧ OIso π s

def Avoids (B : List (List Nat)) (σ : List Nat) : Prop := ∀ b ∈ B, ¬ SContains σ b

theorem SContains.mono {σ τ π : List Nat} (h : List.Sublist σ τ) (hc : SContains σ π) : SContains τ π := by
  obtain ⟨s, hs, hi⟩ := hc
  exact ⟨s, hs.trans h, hi⟩

theorem Avoids.of_sublist {B σ τ} (h : List.Sublist σ τ) (ha : Avoids B τ) : Avoids B σ :=
  fun b hb hc => ha b hb (hc.mono h)

/-- a strictly shorter sublist misses some position -/
theorem exists_eraseIdx_of_sublist_lt {s l : List Nat} (h : List.Sublist s l) (hlt : s.length < l.length) :
    ∃ j, j < l.length ∧ List.Sublist s (l.eraseIdx j) := by
  induction h with
  | slnil => simp at hlt
  | cons a h ih =>
    exact ⟨0, by simp, by simpa using h⟩
  | cons_cons a h ih =>
    rename_i s' l'
    have : s'.length < l'.length := by simpa using hlt
    obtain ⟨j, hj, hs⟩ := ih this
    exact ⟨j+1, by simpa using hj, by simpa using hs.cons_cons a⟩

/-- a sublist of `pre ++ win` shorter than `win` misses a position of the window -/
theorem window_miss (pre win s : List Nat) (h : List.Sublist s (pre ++ win)) (hlt : s.length < win.length) :
    ∃ j, j < win.length ∧ List.Sublist s ((pre ++ win).eraseIdx (pre.length + j)) := by
  obtain ⟨t1, t2, rfl, ht1, ht2⟩ := List.sublist_append_iff.mp h
  have : t2.length < win.length := by simp at hlt; omega
  obtain ⟨j, hj, hsj⟩ := exists_eraseIdx_of_sublist_lt ht2 this
  refine ⟨j, hj, ?_⟩
  rw [List.eraseIdx_append_of_length_le (by omega)]
  simpa using ht1.append hsj

theorem insertion_criterion (B : List (List Nat)) (m : Nat) (π : List Nat) (v : Nat)
    (hm : ∀ b ∈ B, b.length ≤ m) (hπ : Avoids B π) :
    Avoids B (π ++ [v]) ↔
      (∀ b ∈ B, ¬ OIso b (π ++ [v])) ∧
      (∀ i, π.length - m ≤ i → i < π.length → Avoids B ((π ++ [v]).eraseIdx i)) := by
  constructor
  · intro h
    refine ⟨fun b hb hi => h b hb ⟨_, List.Sublist.refl _, hi⟩, fun i _ _ => ?_⟩
    exact h.of_sublist (List.eraseIdx_sublist _ _)
  · rintro ⟨hne, hwin⟩ b hb ⟨s, hs, hi⟩
    obtain ⟨s1, s2, rfl, h1, h2⟩ := List.sublist_append_iff.mp hs
    rcases List.sublist_cons_iff.mp h2 with h2' | ⟨r, rfl, hr⟩
    · -- last position unused
      have : s2 = [] := by simpa using h2'
      subst this
      exact hπ b hb ⟨s1, by simpa using h1, by simpa using hi⟩
    · have hr' : r = [] := by simpa using hr
      subst hr'
      have hlen : s1.length + 1 ≤ m := by
        have := hm b hb; have := hi.1; simp at *; omega
      by_cases hlt : s1.length < (π.drop (π.length - m)).length
      · have h1' : List.Sublist s1 (π.take (π.length - m) ++ π.drop (π.length - m)) := by
          rw [List.take_append_drop]; exact h1
        obtain ⟨j, hj, hsj⟩ := window_miss _ _ s1 h1' hlt
        rw [List.take_append_drop] at hsj
        have hjl : (π.take (π.length - m)).length + j < π.length := by
          simp at hj ⊢; omega
        refine hwin ((π.take (π.length - m)).length + j) (by simp) hjl b hb ⟨_, ?_, hi⟩
        rw [List.eraseIdx_append_of_lt_length hjl]
        exact hsj.append (List.Sublist.refl _)
      · -- window fully used: π is shorter than m and s1 = π
        have hs1 : s1 = π := by
          apply h1.eq_of_length_le
          simp at hlt; omega
        subst hs1
        exact hne b hb hi
