import PermutaModel.Model.C11
import PermutaModel.Model.C01
import PermutaModel.Lemmas.SubLen
import PermutaModel.Lemmas.PermBasic
import PermutaModel.Lemmas.C06Std
import PermutaModel.Lemmas.C17Perm
/-! C11 helper lemmas: `threepats` / `fourpats` (the `Counter` of standardised `k`-subsequences counts
    the occurrences of each pattern) and `min_gapsize`. -/
open Model.Stat List

namespace C11L

/-! ### `itertools.combinations(self, k)` are the picks of the index combinations -/

theorem subLen_map (f : Nat → Nat) : ∀ (k : Nat) (l : List Nat),
    Spec.subLen k (l.map f) = (Spec.subLen k l).map (List.map f)
  | 0, _ => by simp [Spec.subLen]
  | _ + 1, [] => by simp [Spec.subLen]
  | k + 1, x :: xs => by
    simp only [List.map_cons, Spec.subLen, subLen_map f k xs, subLen_map f (k + 1) xs, List.map_append,
      List.map_map]
    rfl

theorem subLen_eq_picks (k : Nat) (p : NSeq) :
    Spec.subLen k p = (Spec.combos p.length k).map (Spec.pick p) := by
  conv_lhs => rw [← Model.C17.map_getD_range p]
  rw [subLen_map]
  rfl

theorem orderIsoB_iff (a b : NSeq) :
    Spec.orderIsoB a b = true ↔ a.length = b.length ∧
      ∀ i j, i < a.length → j < a.length → (a.getD i 0 < a.getD j 0 ↔ b.getD i 0 < b.getD j 0) := by
  simp only [Spec.orderIsoB, Bool.and_eq_true, beq_iff_eq, List.all_eq_true, List.mem_range,
    decide_eq_decide]
  exact ⟨fun ⟨h1, h2⟩ => ⟨h1, fun i j hi hj => h2 i hi j hj⟩, fun ⟨h1, h2⟩ => ⟨h1, fun i hi j hj => h2 i j hi hj⟩⟩

/-- the standardisation of a duplicate-free list is the permutation order-isomorphic to it -/
theorem standardize_eq_iff {l q : NSeq} (hl : l.Nodup) (hq : IsPerm q) :
    Model.standardize l = q ↔ Spec.orderIsoB q l = true := by
  rw [orderIsoB_iff]
  constructor
  · intro h
    subst h
    refine ⟨C06Lemmas.standardize_length l, ?_⟩
    intro i j hi hj
    rw [C06Lemmas.standardize_length] at hi hj
    exact C06Lemmas.standardize_lt_iff hl hi hj
  · rintro ⟨hlen, hiso⟩
    apply Model.C17.perm_eq_of_iso (C06Lemmas.standardize_isPerm hl) hq
      (by rw [C06Lemmas.standardize_length, hlen])
    intro a b ha hb
    rw [C06Lemmas.standardize_length] at ha hb
    rw [C06Lemmas.standardize_lt_iff hl ha hb]
    exact (hiso a b (by omega) (by omega)).symm

theorem pick_nodup {p : NSeq} (hp : p.Nodup) {c : List Nat} (hc : c <+ List.range p.length) :
    (Spec.pick p c).Nodup := by
  have h := (sublist_range_iff _ _).mp hc
  have hnd : c.Nodup := h.1.imp (fun h => Nat.ne_of_lt h)
  unfold Spec.pick
  rw [List.nodup_map_iff_inj_on hnd]
  intro x hx y hy hxy
  have hx' := h.2 x hx
  have hy' := h.2 y hy
  rw [List.getD_eq_getElem?_getD, List.getD_eq_getElem?_getD, List.getElem?_eq_getElem hx',
    List.getElem?_eq_getElem hy'] at hxy
  exact (List.Nodup.getElem_inj_iff hp).mp (by simpa using hxy)

/-- **the pattern counter counts occurrences**: among the standardised `k`-subsequences of a
    duplicate-free sequence `p`, the permutation `q` of length `k` appears exactly as often as `q`
    occurs in `p` (number of index `k`-subsets whose entries are order-isomorphic to `q`) -/
theorem count_standardize_subLen {p q : NSeq} (hp : p.Nodup) (hq : IsPerm q) :
    ((Spec.subLen q.length p).map Model.standardize).count q = (Spec.occurrences q p).length := by
  rw [subLen_eq_picks, List.map_map, List.count_eq_countP, List.countP_map, List.countP_eq_length_filter]
  unfold Spec.occurrences
  congr 1
  apply List.filter_congr
  intro c hc
  have hsub := ((mem_subLen _ _ _).mp hc).1
  have := standardize_eq_iff (pick_nodup hp hsub) hq
  simp only [Function.comp_apply]
  rw [Bool.eq_iff_iff, beq_iff_eq, this]

/-! ### `min_gapsize` -/

theorem mem_pairsLt (n : Nat) (x : Nat × Nat) : x ∈ pairsLt n ↔ x.1 < x.2 ∧ x.2 < n := by
  obtain ⟨i, j⟩ := x
  simp only [pairsLt, List.mem_flatMap, List.mem_range, List.mem_map, List.mem_range'_1, Prod.mk.injEq]
  constructor
  · rintro ⟨a, ha, b, hb, rfl, rfl⟩
    omega
  · rintro ⟨h1, h2⟩
    exact ⟨i, by omega, j, by omega, rfl, rfl⟩

theorem pairsLt_eq_nil_iff (n : Nat) : pairsLt n = [] ↔ n < 2 := by
  constructor
  · intro h
    by_contra hn
    have : (0, 1) ∈ pairsLt n := (mem_pairsLt n (0, 1)).mpr ⟨by simp, by simp; omega⟩
    rw [h] at this; simp at this
  · intro h
    rw [List.eq_nil_iff_forall_not_mem]
    intro x hx
    have := (mem_pairsLt n x).mp hx
    omega

theorem foldl_min_spec : ∀ (t : List Nat) (g : Nat),
    t.foldl min g ∈ g :: t ∧ ∀ x ∈ g :: t, t.foldl min g ≤ x
  | [], g => by simp
  | a :: t, g => by
    obtain ⟨h1, h2⟩ := foldl_min_spec t (min g a)
    simp only [List.foldl_cons]
    constructor
    · rcases List.mem_cons.mp h1 with h | h
      · rw [h]
        rcases Nat.le_total g a with hga | hga
        · rw [Nat.min_eq_left hga]; simp
        · rw [Nat.min_eq_right hga]; simp
      · exact List.mem_cons_of_mem _ (List.mem_cons_of_mem _ h)
    · intro x hx
      have hm := h2 (min g a) (by simp)
      rcases List.mem_cons.mp hx with rfl | hx
      · exact Nat.le_trans hm (Nat.min_le_left _ _)
      · rcases List.mem_cons.mp hx with rfl | hx
        · exact Nat.le_trans hm (Nat.min_le_right _ _)
        · exact h2 x (List.mem_cons_of_mem _ hx)

theorem absDiff_eq_natAbs (a b : Nat) : absDiff a b = Int.natAbs ((a : Int) - (b : Int)) := by
  unfold absDiff
  split <;> omega

end C11L
