import PermutaModel.Lemmas.C14Lang
/-! C14 helper lemmas: `sp_to_m`, `m_to_sp`, `quadrant`. -/
namespace C14L
open Model.C14 Model.C14.Letter Spec.C14 Proto

theorem revLetterDict_eq : revLetterDict =
    [([R, U], q1), ([U, R], q1), ([L, U], q2), ([U, L], q2), ([L, D], q3), ([D, L], q3),
     ([R, D], q4), ([D, R], q4)] := by decide

theorem mToSp_pair (a b : Letter) (rest : Word) :
    mToSp (a :: b :: rest) =
      match revLetterDict.lookup [a, b] with
      | none => .error .keyError
      | some q => .ok (q :: rest) := by
  rfl

/-- evaluate `sp_to_m` / `m_to_sp` on a word with concrete leading letters and a variable tail -/
macro "pw_eval_sp" : tactic =>
  `(tactic| (refine ⟨_, rfl, List.cons_ne_nil _ _, ?_⟩
             simp only [List.mem_cons, List.not_mem_nil, or_false, forall_eq_or_imp, forall_eq]
             first | exact ⟨rfl, rfl⟩ | exact rfl))

macro "pw_eval_m" : tactic =>
  `(tactic| (refine ⟨_, _, rfl, rfl, ?_⟩
             first | exact List.mem_cons_self | exact List.mem_cons_of_mem _ List.mem_cons_self))

/-- `m_to_sp ∘ sp_to_m = id` on numeral-led words whose second letter (if any) is a direction -/
theorem mToSp_spToM (q : Letter) (ds : Word) (hq : q.isQuad = true)
    (hd : ∀ d, ds.head? = some d → d.isDir = true) :
    ∃ ms, spToM (q :: ds) = .ok ms ∧ ms ≠ [] ∧ ∀ m ∈ ms, mToSp m = .ok (q :: ds) := by
  cases ds with
  | nil =>
    cases q <;> simp only [isQuad] at hq <;> try exact absurd hq (by decide)
    all_goals pw_eval_sp
  | cons d tail =>
    have hd' := hd d rfl
    cases q <;> simp only [isQuad] at hq <;> try exact absurd hq (by decide)
    all_goals
      cases d <;> simp only [isDir] at hd' <;> try exact absurd hd' (by decide)
    all_goals
      pw_eval_sp

/-- `sp_to_m (m_to_sp m) ∋ m` for every word of `M` with at least two letters -/
theorem spToM_mToSp (m : Word) (hm : inM m = true) (hlen : 2 ≤ m.length) :
    ∃ sp ms, mToSp m = .ok sp ∧ spToM sp = .ok ms ∧ m ∈ ms := by
  match m, hlen with
  | a :: b :: rest, _ =>
    simp only [inM, chainOK, List.all_cons, Bool.and_eq_true, Bool.or_eq_true,
      Bool.not_eq_true'] at hm
    obtain ⟨⟨ha, hab, hrest⟩, hb, hall⟩ := hm
    have hab' : sameAxis a b = false := by
      rcases hab with h | h
      · cases b <;> simp_all [isQuad, isDir]
      · exact h.2
    cases rest with
    | nil =>
      cases a <;> simp only [isDir] at ha <;> try exact absurd ha (by decide)
      all_goals
        cases b <;> simp only [isDir] at hb <;> try exact absurd hb (by decide)
      all_goals first
        | exact absurd hab' (by decide)
        | pw_eval_m
    | cons c tail =>
      simp only [chainOK, List.all_cons, Bool.and_eq_true, Bool.or_eq_true,
        Bool.not_eq_true'] at hrest hall
      have hc : c.isDir = true := hall.1
      have hbc : sameAxis b c = false := by
        rcases hrest.1 with h | h
        · cases c <;> simp_all [isQuad, isDir]
        · exact h.2
      cases a <;> simp only [isDir] at ha <;> try exact absurd ha (by decide)
      all_goals
        cases b <;> simp only [isDir] at hb <;> try exact absurd hb (by decide)
      all_goals first
        | exact absurd hab' (by decide)
        | (cases c <;> simp only [isDir] at hc <;> try exact absurd hc (by decide))
      all_goals first
        | exact absurd hbc (by decide)
        | pw_eval_m

/-! ### quadrant -/

theorem slice_succ (x : Letter) (w : Word) (k j : Nat) : slice (x :: w) (k + 1) (j + 1) = slice w k j := by
  simp [slice]

theorem slice_pair (w : Word) (k : Nat) (p c : Letter) (hp : w[k]? = some p) (hc : w[k + 1]? = some c) :
    slice w k (k + 2) = [p, c] := by
  induction w generalizing k with
  | nil => simp at hp
  | cons x w ih =>
    cases k with
    | zero =>
      cases w with
      | nil => simp at hc
      | cons y r =>
        simp only [List.getElem?_cons_zero, Option.some.injEq] at hp
        simp only [List.getElem?_cons_succ, List.getElem?_cons_zero, Option.some.injEq] at hc
        subst hp hc; simp [slice]
    | succ k =>
      rw [show k + 1 + 2 = (k + 2) + 1 from rfl, slice_succ]
      exact ih k (by simpa using hp) (by simpa using hc)

theorem chain_get (rest : Word) : ∀ (p : Letter) (k : Nat) (c : Letter), (p.isQuad = true ∨ p.isDir = true) →
    chainOK p rest = true → rest[k]? = some c →
    ∃ pr, (p :: rest)[k]? = some pr ∧ (pr.isQuad = true ∨ pr.isDir = true)
      ∧ (c.isQuad = true ∨ (c.isDir = true ∧ sameAxis pr c = false)) := by
  induction rest with
  | nil => intro p k c _ _ h; simp at h
  | cons d rest ih =>
    intro p k c hp hch hc
    simp only [chainOK, Bool.and_eq_true, Bool.or_eq_true, Bool.not_eq_true'] at hch
    cases k with
    | zero =>
      simp only [List.getElem?_cons_zero, Option.some.injEq] at hc
      subst hc
      exact ⟨p, rfl, hp, hch.1⟩
    | succ k =>
      have hd : d.isQuad = true ∨ d.isDir = true := by
        rcases hch.1 with h | h
        · exact Or.inl h
        · exact Or.inr h.1
      obtain ⟨pr, h1, h2, h3⟩ := ih d k c hd hch.2 (by simpa using hc)
      exact ⟨pr, by simpa using h1, h2, h3⟩

/-- letter-level reading of Lemma 3.10: on a word of the language `quadrant` never fails and
    returns the numeral of the sign pattern `signs w i` -/
theorem quadrant_eq_signs (w : Word) (hw : inLang w = true) (i : Nat) (hi : i < w.length) :
    quadrant w i = .ok (quadOfSigns (signs w i)) := by
  cases w with
  | nil => simp at hi
  | cons q rest =>
    simp only [inLang, Bool.and_eq_true] at hw
    cases i with
    | zero =>
      have hq := hw.1
      cases q <;> simp_all [isQuad, quadrant, signs, quadOfSigns, namesRight, namesUp]
    | succ k =>
      have hk : k < rest.length := by simpa using hi
      have hc : rest[k]? = some rest[k] := List.getElem?_eq_getElem hk
      obtain ⟨pr, h1, h2, h3⟩ := chain_get rest q k rest[k] (Or.inl hw.1) hw.2 hc
      generalize rest[k] = c at hc h3
      have hwc : (q :: rest)[k + 1]? = some c := by simpa using hc
      have hsl : slice (q :: rest) k (k + 1 + 1) = [pr, c] := slice_pair _ k pr c h1 hwc
      have hsig : signs (q :: rest) (k + 1) =
          (if c.isQuad then (namesRight c, namesUp c)
           else if c.isVert then (namesRight pr, namesUp c) else (namesRight c, namesUp pr)) := by
        simp only [signs, List.getD_eq_getElem?_getD, hwc, Option.getD_some, Nat.add_sub_cancel, h1]
      rw [hsig]
      unfold quadrant
      simp only [hwc, Nat.add_sub_cancel, Nat.succ_ne_zero, if_false, h1, hsl]
      rcases h3 with h3 | ⟨h3, h4⟩
      · cases c <;> simp_all [isQuad, quadOfSigns, namesRight, namesUp]
      · rcases h2 with h2 | h2
        · cases c <;> simp only [isDir] at h3 <;> try exact absurd h3 (by decide)
          all_goals
            cases pr <;> simp only [isQuad] at h2 <;> try exact absurd h2 (by decide)
          all_goals
            rfl
        · cases c <;> simp only [isDir] at h3 <;> try exact absurd h3 (by decide)
          all_goals
            cases pr <;> simp only [isDir] at h2 <;> try exact absurd h2 (by decide)
          all_goals first
            | exact absurd h4 (by decide)
            | rfl

end C14L
