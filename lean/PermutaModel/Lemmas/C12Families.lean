import PermutaModel.Lemmas.C12Bridge
/-! C12: pop-stack / quicksort outputs are rearrangements; the family predicates:
    generated pattern tables, inversion parity, the dihedral group as the symmetries of the n-gon. -/
open Model Spec List

namespace C12

/-! ### pop-stack and quicksort rearrange their input -/

theorem popRun_perm : ∀ (l st : List Nat), popRun l st ~ l ++ st
  | [], st => by simp [popRun]
  | x :: xs, [] => by
    simp only [popRun, append_nil]
    exact (popRun_perm xs [x]).trans (perm_append_singleton x xs)
  | x :: xs, t :: st => by
    by_cases h : t < x
    · simp only [popRun, h, if_true]
      have := (popRun_perm xs [x]).trans (perm_append_singleton x xs)
      exact ((Perm.refl (t :: st)).append this).trans perm_append_comm
    · simp only [popRun, h, if_false]
      exact (popRun_perm xs (x :: t :: st)).trans perm_middle

theorem popStackSort_perm (l : List Nat) : popStackSort l ~ l := by
  rw [popStackSort_eq_popStackPass]
  simpa [popStackPass] using popRun_perm l []

theorem familyPatts_smooth : familyPatts "smooth" = [([0, 2, 1, 3], none), ([1, 0, 3, 2], none)] := by decide
theorem familyPatts_forest : familyPatts "forest_like" = [([0, 2, 1, 3], none), ([1, 0, 3, 2], some [(2, 2)])] := by decide
theorem familyPatts_baxter : familyPatts "baxter" = [([1, 3, 0, 2], some [(2, 2)]), ([2, 0, 3, 1], some [(2, 2)])] := by decide
theorem familyPatts_simsun : familyPatts "simsun" = [([2, 1, 0], some [(1, 0), (1, 1), (2, 2)])] := by decide

theorem filter_split_perm (h : Nat) : ∀ (t : List Nat), (∀ y ∈ t, y ≠ h) →
    t.filter (· < h) ++ t.filter (h < ·) ~ t
  | [], _ => by simp
  | y :: s, e1 => by
    have hy : y ≠ h := e1 y (by simp)
    have hs := filter_split_perm h s (fun z hz => e1 z (mem_cons_of_mem _ hz))
    by_cases hlt : y < h
    · have : ¬ h < y := by omega
      simp only [filter_cons, hlt, this, decide_true, decide_false, if_true, Bool.false_eq_true,
        if_false, cons_append]
      exact hs.cons y
    · have : h < y := by omega
      simp only [filter_cons, hlt, this, decide_true, decide_false, if_true, Bool.false_eq_true,
        if_false]
      exact perm_middle.trans (hs.cons y)

theorem partition_perm (h : Nat) : ∀ (l : List Nat), l.Nodup → h ∈ l →
    l.filter (· < h) ++ [h] ++ l.filter (h < ·) ~ l
  | [], _, hm => by simp at hm
  | x :: t, hnd, hm => by
    have hx := (nodup_cons.mp hnd).1
    have ht := (nodup_cons.mp hnd).2
    by_cases e : x = h
    · subst e
      have e1 : ∀ y ∈ t, y ≠ x := fun y hy e => hx (e ▸ hy)
      simp only [filter_cons, Nat.lt_irrefl, decide_false, Bool.false_eq_true, if_false]
      have := filter_split_perm x t e1
      rw [append_assoc]
      exact perm_middle.trans (this.cons x)
    · have hm' : h ∈ t := by
        rcases mem_cons.mp hm with e' | h'
        · exact absurd e'.symm e
        · exact h'
      have ih' := partition_perm h t ht hm'
      by_cases hlt : x < h
      · have : ¬ h < x := by omega
        simp only [filter_cons, hlt, this, decide_true, decide_false, if_true, Bool.false_eq_true,
          if_false, cons_append]
        exact ih'.cons x
      · have : h < x := by omega
        simp only [filter_cons, hlt, this, decide_true, decide_false, if_true, Bool.false_eq_true,
          if_false]
        exact perm_middle.trans (ih'.cons x)

theorem quickSort_perm (l : List Nat) (hnd : l.Nodup) : quickSort l ~ l := by
  induction hn : l.length using Nat.strongRecOn generalizing l with
  | _ n ih =>
    subst hn
    rw [quickSort]
    by_cases h0 : l.length = 0
    · simp [h0]
    · simp only [h0, if_false]
      cases hs : lastSfp l with
      | none =>
        simp only
        match l, h0, hnd with
        | x :: t, _, hnd => exact partition_perm x (x :: t) hnd (by simp)
      | some m =>
        simp only
        by_cases hm : m < l.length
        · simp only [hm, if_true]
          have hsplit : l = l.take m ++ [l.getD m 0] ++ l.drop (m + 1) := by
            rw [List.getD_eq_getElem?_getD, List.getElem?_eq_getElem hm]
            simp
          have hnd' := hnd
          rw [hsplit] at hnd'
          have hndL : (l.take m).Nodup := (nodup_append.mp (nodup_append.mp hnd').1).1
          have hndR : (l.drop (m + 1)).Nodup := (nodup_append.mp hnd').2.1
          have p1 := ih _ (by simp only [length_take]; omega) (l.take m) hndL rfl
          have p2 := ih _ (by simp only [length_drop]; omega) (l.drop (m + 1)) hndR rfl
          conv => rhs; rw [hsplit]
          exact (p1.append (Perm.refl _)).append p2
        · simp [hm]

/-! ### inversions -/

theorem subLen_one : ∀ (t : List Nat), Spec.subLen 1 t = t.map fun y => [y]
  | [] => rfl
  | x :: xs => by simp [Spec.subLen, subLen_one xs]

theorem countInversions_eq : ∀ (σ : List Nat), countInversions σ = Spec.inversions σ
  | [] => rfl
  | x :: t => by
    unfold Spec.inversions at *
    simp only [countInversions, Spec.subLen, subLen_one, filter_append, length_append, map_map,
      countInversions_eq t]
    congr 1
    rw [filter_map, length_map]
    congr 1

/-! ### the dihedral group -/

theorem rotRight_concat (l : List Nat) (x : Nat) : rotRight (l ++ [x]) = x :: l := by
  simp [rotRight]

/-- the increasing deque after `j` rotations -/
def incRot (n j : Nat) : List Nat := range' (n - j) j ++ range (n - j)
/-- the decreasing deque after `j` rotations -/
def decRot (n j : Nat) : List Nat := (range j).reverse ++ (range' j (n - j)).reverse

theorem incRot_zero (n : Nat) : incRot n 0 = range n := by simp [incRot]
theorem decRot_zero (n : Nat) : decRot n 0 = (range n).reverse := by simp [decRot, range_eq_range']

theorem rotRight_incRot {n j : Nat} (h : j < n) : rotRight (incRot n j) = incRot n (j + 1) := by
  unfold incRot
  have e : n - j = (n - (j + 1)) + 1 := by omega
  rw [e, range_succ, ← append_assoc, rotRight_concat]
  simp [range'_succ]
  
theorem rotRight_decRot {n j : Nat} (h : j < n) : rotRight (decRot n j) = decRot n (j + 1) := by
  unfold decRot
  have e : n - j = (n - (j + 1)) + 1 := by omega
  rw [e, range'_succ, reverse_cons, ← append_assoc, rotRight_concat, range_succ, reverse_append]
  simp

theorem mem_dihedralLoop {n : Nat} (k : Nat) : ∀ (j : Nat), j + k < n + 1 → k ≤ n → ∀ σ,
    σ ∈ dihedralLoop k (incRot n j) (decRot n j) ↔
      ∃ i, j < i ∧ i ≤ j + k ∧ (σ = incRot n i ∨ σ = decRot n i) := by
  induction k with
  | zero =>
    intro j _ _ σ
    simp only [dihedralLoop, not_mem_nil, false_iff]
    rintro ⟨i, h1, h2, _⟩; omega
  | succ k ih =>
    intro j h hk σ
    have hj : j < n := by omega
    rw [dihedralLoop, rotRight_incRot hj, rotRight_decRot hj, mem_cons, mem_cons,
      ih (j + 1) (by omega) (by omega) σ]
    constructor
    · rintro (h1 | h1 | ⟨i, h1, h2, h3⟩)
      · exact ⟨j + 1, by omega, by omega, Or.inl h1⟩
      · exact ⟨j + 1, by omega, by omega, Or.inr h1⟩
      · exact ⟨i, by omega, by omega, h3⟩
    · rintro ⟨i, h1, h2, h3⟩
      by_cases e : i = j + 1
      · subst e; rcases h3 with h3 | h3
        · exact Or.inl h3
        · exact Or.inr (Or.inl h3)
      · exact Or.inr (Or.inr ⟨i, by omega, by omega, h3⟩)

theorem mem_dihedralGroup (n : Nat) (σ : List Nat) :
    σ ∈ dihedralGroup n ↔ 3 ≤ n ∧ ∃ i, i < n ∧ (σ = incRot n i ∨ σ = decRot n i) := by
  unfold dihedralGroup
  by_cases h : n ≤ 2
  · simp only [h, if_true, not_mem_nil, false_iff]; omega
  · simp only [h, if_false]
    rw [← decRot_zero, ← incRot_zero, mem_cons, mem_cons,
      mem_dihedralLoop (n - 1) 0 (by omega) (by omega)]
    constructor
    · rintro (h1 | h1 | ⟨i, h1, h2, h3⟩)
      · exact ⟨by omega, 0, by omega, Or.inl h1⟩
      · exact ⟨by omega, 0, by omega, Or.inr h1⟩
      · exact ⟨by omega, i, by omega, h3⟩
    · rintro ⟨_, i, h1, h3⟩
      by_cases e : i = 0
      · subst e; rcases h3 with h3 | h3
        · exact Or.inl h3
        · exact Or.inr (Or.inl h3)
      · exact Or.inr (Or.inr ⟨i, by omega, by omega, h3⟩)

/-! spec side -/

theorem ngonRot_eq {n a : Nat} (h : a < n) : ngonRot n a = range' a (n - a) ++ range a := by
  apply ext_getElem
  · simp [ngonRot]; omega
  · intro i h1 h2
    simp only [ngonRot, length_map, length_range] at h1
    simp only [ngonRot, getElem_map, getElem_range]
    by_cases hi : i < n - a
    · rw [getElem_append_left (by simpa using hi), getElem_range']
      rw [Nat.mod_eq_of_lt (by omega)]; omega
    · rw [getElem_append_right (by simpa using hi), getElem_range]
      simp only [length_range']
      rw [Nat.mod_eq_sub_mod (by omega), Nat.mod_eq_of_lt (by omega)]; omega

theorem ngonRefl_eq {n a : Nat} (h : a < n) :
    ngonRefl n a = (range (a + 1)).reverse ++ (range' (a + 1) (n - (a + 1))).reverse := by
  apply ext_getElem
  · simp [ngonRefl]; omega
  · intro i h1 h2
    simp only [ngonRefl, length_map, length_range] at h1
    simp only [ngonRefl, getElem_map, getElem_range]
    by_cases hi : i < a + 1
    · rw [getElem_append_left (by simpa using hi), getElem_reverse, getElem_range]
      simp only [length_range]
      have : a + n - i = (a - i) + n := by omega
      rw [this, Nat.add_mod_right, Nat.mod_eq_of_lt (by omega)]; omega
    · rw [getElem_append_right (by simpa using hi), getElem_reverse, getElem_range']
      simp only [length_reverse, length_range, length_range']
      rw [Nat.mod_eq_of_lt (by omega)]; omega

theorem incRot_eq_ngonRot {n i : Nat} (h : i < n) : ∃ a, a < n ∧ incRot n i = ngonRot n a := by
  by_cases e : i = 0
  · subst e
    exact ⟨0, h, by rw [ngonRot_eq h, incRot_zero]; simp [range_eq_range']⟩
  · refine ⟨n - i, by omega, ?_⟩
    rw [ngonRot_eq (by omega), incRot]
    have : n - (n - i) = i := by omega
    rw [this]

theorem ngonRot_eq_incRot {n a : Nat} (h : a < n) : ∃ i, i < n ∧ ngonRot n a = incRot n i := by
  by_cases e : a = 0
  · subst e
    exact ⟨0, h, by rw [ngonRot_eq h, incRot_zero]; simp [range_eq_range']⟩
  · refine ⟨n - a, by omega, ?_⟩
    rw [ngonRot_eq h, incRot]
    have : n - (n - a) = a := by omega
    rw [this]

theorem decRot_eq_ngonRefl {n i : Nat} (h : i < n) : ∃ a, a < n ∧ decRot n i = ngonRefl n a := by
  by_cases e : i = 0
  · subst e
    refine ⟨n - 1, by omega, ?_⟩
    rw [ngonRefl_eq (by omega), decRot_zero]
    have : n - 1 + 1 = n := by omega
    simp [this]
  · refine ⟨i - 1, by omega, ?_⟩
    rw [ngonRefl_eq (by omega), decRot]
    have : i - 1 + 1 = i := by omega
    rw [this]

theorem ngonRefl_eq_decRot {n a : Nat} (h : a < n) : ∃ i, i < n ∧ ngonRefl n a = decRot n i := by
  by_cases e : a + 1 = n
  · refine ⟨0, by omega, ?_⟩
    rw [ngonRefl_eq h, decRot_zero, e]; simp
  · exact ⟨a + 1, by omega, by rw [ngonRefl_eq h, decRot]⟩

/-- `dihedral_group(n)` yields exactly the `2n` symmetries of the `n`-gon for `n ≥ 3`, nothing otherwise -/
theorem mem_dihedralGroup_iff (n : Nat) (σ : List Nat) :
    σ ∈ dihedralGroup n ↔ 3 ≤ n ∧ ∃ a, a < n ∧ (σ = ngonRot n a ∨ σ = ngonRefl n a) := by
  rw [mem_dihedralGroup]
  constructor
  · rintro ⟨h3, i, hi, h | h⟩
    · obtain ⟨a, ha, e⟩ := incRot_eq_ngonRot hi
      exact ⟨h3, a, ha, Or.inl (h.trans e)⟩
    · obtain ⟨a, ha, e⟩ := decRot_eq_ngonRefl hi
      exact ⟨h3, a, ha, Or.inr (h.trans e)⟩
  · rintro ⟨h3, a, ha, h | h⟩
    · obtain ⟨i, hi, e⟩ := ngonRot_eq_incRot ha
      exact ⟨h3, i, hi, Or.inl (h.trans e)⟩
    · obtain ⟨i, hi, e⟩ := ngonRefl_eq_decRot ha
      exact ⟨h3, i, hi, Or.inr (h.trans e)⟩

theorem dihedral_iff (σ : NSeq) : dihedral σ = true ↔ Spec.IsDihedral σ := by
  unfold dihedral Spec.IsDihedral
  rw [any_eq_true]
  constructor
  · rintro ⟨d, hd, e⟩
    have : σ = d := by simpa using e
    subst this
    exact (mem_dihedralGroup_iff _ _).mp hd
  · intro h
    exact ⟨σ, (mem_dihedralGroup_iff _ _).mpr h, by simp⟩

theorem dihedralLoop_length : ∀ (k : Nat) (a b : List Nat), (dihedralLoop k a b).length = 2 * k
  | 0, _, _ => rfl
  | k + 1, a, b => by simp [dihedralLoop, dihedralLoop_length k]; omega

theorem dihedralGroup_length (n : Nat) : (dihedralGroup n).length = if n ≤ 2 then 0 else 2 * n := by
  unfold dihedralGroup
  by_cases h : n ≤ 2
  · simp [h]
  · simp [h, dihedralLoop_length]; omega

end C12
