import PermutaModel.Lemmas.C12RSKGreeneDefs
open Model Spec List
namespace C12
/-! C12 / RSK, Greene's theorem, the upper bound on a tableau: `k` increasing subsequences of the reading
    word of a tableau cover at most the cells of the first `k` rows.  Proof by peeling off the first
    column: a column read in the reading word is decreasing, so every colour takes at most one of its
    cells. -/

/-- the tableau without its first column -/
def colTails (T : List (List Nat)) : List (List Nat) := T.map List.tail

/-- the first column, top to bottom -/
def colHeads (T : List (List Nat)) : List Nat := T.filterMap List.head?

@[simp] theorem colTails_nil : colTails [] = [] := rfl
@[simp] theorem colTails_cons (r : List Nat) (t : List (List Nat)) :
    colTails (r :: t) = r.tail :: colTails t := rfl
@[simp] theorem colHeads_nil : colHeads [] = [] := rfl
@[simp] theorem colHeads_cons_nil (t : List (List Nat)) : colHeads ([] :: t) = colHeads t := rfl
@[simp] theorem colHeads_cons_cons (a : Nat) (ta : List Nat) (t : List (List Nat)) :
    colHeads ((a :: ta) :: t) = a :: colHeads t := rfl

theorem dom_nil_left : ∀ {s : List Nat}, Dom [] s → s = []
  | [], _ => rfl
  | _ :: _, h => h.elim

theorem dom_tail : ∀ {r s : List Nat}, Dom r s → Dom r.tail s.tail
  | [], [], _ => trivial
  | [], _ :: _, h => h.elim
  | _ :: ta, [], _ => dom_nil ta
  | _ :: _, _ :: _, h => h.2

theorem colTails_headD (T : List (List Nat)) : (colTails T).headD [] = (T.headD []).tail := by
  cases T <;> rfl

theorem domChain_colTails : ∀ {T : List (List Nat)}, DomChain T → DomChain (colTails T)
  | [], _ => trivial
  | r :: t, h => by
    refine ⟨?_, domChain_colTails h.2⟩
    show Dom r.tail ((colTails t).headD [])
    rw [colTails_headD]
    exact dom_tail h.1

/-- below an empty row there are only empty rows -/
theorem domChain_nil_colHeads : ∀ {t : List (List Nat)}, DomChain ([] :: t) → colHeads t = []
  | [], _ => rfl
  | s :: t, h => by
    have hs : s = [] := dom_nil_left h.1
    subst hs
    rw [colHeads_cons_nil]
    exact domChain_nil_colHeads h.2

theorem colHeads_nil_rw : ∀ {T : List (List Nat)}, colHeads T = [] → rw T = []
  | [], _ => rfl
  | [] :: t, h => by
    rw [colHeads_cons_nil] at h
    simp only [rw, List.append_nil]
    exact colHeads_nil_rw h
  | (_ :: _) :: _, h => by simp at h

theorem rw_colTails_sublist : ∀ (T : List (List Nat)), rw (colTails T) <+ rw T
  | [] => List.Sublist.refl _
  | r :: t => by
    simp only [colTails_cons, rw]
    exact List.Sublist.append (rw_colTails_sublist t) (List.tail_sublist r)

theorem colHeads_reverse_sublist : ∀ (T : List (List Nat)), (colHeads T).reverse <+ rw T
  | [] => List.Sublist.refl _
  | [] :: t => by
    simp only [colHeads_cons_nil, rw, List.append_nil]
    exact colHeads_reverse_sublist t
  | (a :: ta) :: t => by
    simp only [colHeads_cons_cons, rw, List.reverse_cons]
    exact List.Sublist.append (colHeads_reverse_sublist t)
      (List.Sublist.cons_cons a (List.nil_sublist ta))

/-- the cells of a tableau: those outside the first column and those of the first column -/
theorem rw_filter_length (p : Nat → Bool) : ∀ (T : List (List Nat)),
    ((rw T).filter p).length = ((rw (colTails T)).filter p).length + ((colHeads T).filter p).length
  | [] => rfl
  | [] :: t => by
    simp only [colTails_cons, colHeads_cons_nil, rw, List.tail_nil, List.append_nil]
    exact rw_filter_length p t
  | (a :: ta) :: t => by
    have ih := rw_filter_length p t
    simp only [colTails_cons, colHeads_cons_cons, rw, List.tail_cons, List.filter_append,
      List.length_append, List.filter_cons]
    split <;> (try simp only [List.length_cons]) <;> omega

theorem colHeads_lt : ∀ {t : List (List Nat)} {a : Nat} {ta : List Nat}, DomChain ((a :: ta) :: t) →
    ∀ b ∈ colHeads t, a < b
  | [], _, _, _, b, hb => by simp at hb
  | [] :: t, _, _, h, b, hb => by
    rw [colHeads_cons_nil, domChain_nil_colHeads h.2] at hb
    simp at hb
  | (b0 :: tb) :: t, a, ta, h, b, hb => by
    have h0 : a < b0 := h.1.1
    rw [colHeads_cons_cons] at hb
    rcases List.mem_cons.mp hb with e | e
    · subst e; exact h0
    · exact Nat.lt_trans h0 (colHeads_lt h.2 b e)

/-- the first column increases downwards -/
theorem colHeads_sorted : ∀ {T : List (List Nat)}, DomChain T → (colHeads T).Pairwise (· < ·)
  | [], _ => List.Pairwise.nil
  | [] :: t, h => by
    rw [colHeads_cons_nil]
    exact colHeads_sorted h.2
  | (a :: ta) :: t, h => by
    rw [colHeads_cons_cons, List.pairwise_cons]
    exact ⟨colHeads_lt h, colHeads_sorted h.2⟩

theorem length_le_one_of_sorted_reverse : ∀ (l : List Nat), l.Pairwise (· < ·) →
    l.reverse.Pairwise (· < ·) → l.length ≤ 1
  | [], _, _ => by simp
  | [_], _, _ => by simp
  | a :: b :: l, h1, h2 => by
    rw [List.pairwise_reverse] at h2
    have e1 : a < b := (List.pairwise_cons.mp h1).1 b (by simp)
    have e2 : b < a := (List.pairwise_cons.mp h2).1 b (by simp)
    omega

/-- every colour takes at most one cell of the first column -/
theorem colHeads_colour_le_one (T : List (List Nat)) (hT : DomChain T) (c : Nat → Nat) (i : Nat)
    (hc : (colourClass c i (rw T)).Pairwise (· < ·)) :
    ((colHeads T).filter fun a => c a == i).length ≤ 1 := by
  apply length_le_one_of_sorted_reverse
  · exact (colHeads_sorted hT).sublist List.filter_sublist
  · rw [← List.filter_reverse]
    exact hc.sublist ((colHeads_reverse_sublist T).filter _)

theorem filter_lt_succ (c : Nat → Nat) (k : Nat) : ∀ (l : List Nat),
    (l.filter fun a => decide (c a < k + 1)).length =
      (l.filter fun a => decide (c a < k)).length + (l.filter fun a => c a == k).length
  | [] => rfl
  | a :: l => by
    have ih := filter_lt_succ c k l
    simp only [List.filter_cons]
    by_cases h1 : c a < k
    · have h2 : c a < k + 1 := by omega
      have h3 : ¬ c a = k := by omega
      simp [h1, h2, h3]; omega
    · by_cases h3 : c a = k
      · have h2 : c a < k + 1 := by omega
        simp [h3]; omega
      · have h2 : ¬ c a < k + 1 := by omega
        simp [h1, h2, h3]; omega

theorem filter_lt_le (c : Nat → Nat) (l : List Nat) : ∀ (k : Nat),
    (∀ i, i < k → (l.filter fun a => c a == i).length ≤ 1) →
    (l.filter fun a => decide (c a < k)).length ≤ k
  | 0, _ => by simp
  | k + 1, h => by
    rw [filter_lt_succ]
    have := filter_lt_le c l k (fun i hi => h i (by omega))
    have := h k (by omega)
    omega

/-- shapes: the first `k` rows lose at least `m` cells when the first column is removed, for every
    `m` up to `k` and up to the length of the first column -/
theorem take_sum_colTails : ∀ (T : List (List Nat)), DomChain T → ∀ (k m : Nat), m ≤ k →
    m ≤ (colHeads T).length →
    m + (((colTails T).map List.length).take k).sum ≤ ((T.map List.length).take k).sum
  | [], _, k, m, _, h2 => by simp at h2; simp [h2]
  | _ :: _, _, 0, m, h1, _ => by
    have : m = 0 := by omega
    subst this; simp
  | [] :: t, h, k + 1, m, _, h2 => by
    rw [colHeads_cons_nil, domChain_nil_colHeads h] at h2
    have hm : m = 0 := by simpa using h2
    subst hm
    have := take_sum_colTails t h.2 k 0 (Nat.zero_le _) (Nat.zero_le _)
    simp only [colTails_cons, List.tail_nil, List.map_cons, List.length_nil, List.take_succ_cons,
      List.sum_cons]
    omega
  | (a :: ta) :: t, h, k + 1, m, h1, h2 => by
    rw [colHeads_cons_cons, List.length_cons] at h2
    have := take_sum_colTails t h.2 k (m - 1) (by omega) (by omega)
    simp only [colTails_cons, List.tail_cons, List.map_cons, List.length_cons, List.take_succ_cons,
      List.sum_cons]
    omega

theorem rw_colouring_le_aux (k : Nat) (c : Nat → Nat) : ∀ (n : Nat) (T : List (List Nat)),
    (rw T).length ≤ n → DomChain T → IsIncColouring c k (rw T) →
    colouredCount c k (rw T) ≤ ((T.map List.length).take k).sum
  | n, T, hn, hT, hc => by
    by_cases hH : colHeads T = []
    · have : rw T = [] := colHeads_nil_rw hH
      simp [colouredCount, this]
    · have hpos : 0 < (colHeads T).length := List.length_pos_iff.mpr hH
      have hlen := rw_filter_length (fun _ => true) T
      simp only [List.filter_true] at hlen
      match n, hn with
      | 0, hn => omega
      | n + 1, hn =>
        have hc' : IsIncColouring c k (rw (colTails T)) := fun i hi =>
          (hc i hi).sublist ((rw_colTails_sublist T).filter _)
        have ih := rw_colouring_le_aux k c n (colTails T) (by omega) (domChain_colTails hT) hc'
        have hcnt := rw_filter_length (fun a => decide (c a < k)) T
        have hk : ((colHeads T).filter fun a => decide (c a < k)).length ≤ k :=
          filter_lt_le c _ k (fun i hi => colHeads_colour_le_one T hT c i (hc i hi))
        have hl : ((colHeads T).filter fun a => decide (c a < k)).length ≤ (colHeads T).length :=
          List.length_filter_le _ _
        have := take_sum_colTails T hT k _ hk hl
        unfold colouredCount at ih ⊢
        omega

/-- k increasing subsequences of the reading word of a tableau cover at most the cells of the first k rows -/
theorem rw_colouring_le (T : List (List Nat)) (hT : DomChain T) (k : Nat) (c : Nat → Nat)
    (hc : IsIncColouring c k (rw T)) : colouredCount c k (rw T) ≤ ((T.map List.length).take k).sum :=
  rw_colouring_le_aux k c _ T (Nat.le_refl _) hT hc

end C12
