import PermutaModel.Model.C01Deque
import PermutaModel.Lemmas.C01Ceil
import Mathlib.Data.List.Rotate
/-! C01 deque: `rotL`/`rotR` are rotations (`List.IsRotated`), the bounded loop `rotWhile` returns a
    rotation at which the loop condition fails, and it returns something as soon as some iterate
    within the bound leaves the loop; `k` rotations turn `a ++ b` into `b ++ a`. -/
open Model

theorem rotL_isRotated (d : Dq) : rotL d ~r d := by
  cases d with
  | nil => exact List.IsRotated.refl _
  | cons x xs => exact (List.isRotated_append (l := [x]) (l' := xs)).symm

theorem rotR_isRotated (d : Dq) : rotR d ~r d := by
  unfold rotR
  cases h : d.getLast? with
  | none => simp at h; subst h; exact List.IsRotated.refl _
  | some x =>
    have := List.dropLast_append_getLast? x h
    conv => rhs; rw [← this]
    exact (List.isRotated_append (l := [x]) (l' := d.dropLast))

theorem rotWhile_some {c : Dq → Bool} {r : Dq → Dq} (hr : ∀ x, r x ~r x) :
    ∀ (fuel : Nat) (d d' : Dq), rotWhile c r fuel d = some d' → d' ~r d ∧ c d' = false := by
  intro fuel
  induction fuel with
  | zero =>
    intro d d' h
    by_cases hc : c d <;> simp [rotWhile, hc] at h
    subst h; exact ⟨List.IsRotated.refl _, by simpa using hc⟩
  | succ f ih =>
    intro d d' h
    by_cases hc : c d
    · simp only [rotWhile, hc, if_true] at h
      obtain ⟨h1, h2⟩ := ih _ _ h
      exact ⟨h1.trans (hr d), h2⟩
    · simp [rotWhile, hc] at h
      subst h; exact ⟨List.IsRotated.refl _, by simpa using hc⟩

theorem rotWhile_isSome {c : Dq → Bool} {r : Dq → Dq} :
    ∀ (fuel : Nat) (d : Dq), (∃ k ≤ fuel, c (r^[k] d) = false) → (rotWhile c r fuel d).isSome := by
  intro fuel
  induction fuel with
  | zero =>
    rintro d ⟨k, hk, hc⟩
    have : k = 0 := by omega
    subst this
    simp at hc
    simp [rotWhile, hc]
  | succ f ih =>
    rintro d ⟨k, hk, hc⟩
    by_cases hcd : c d
    · simp only [rotWhile, hcd, if_true]
      cases k with
      | zero => simp [hcd] at hc
      | succ k =>
        apply ih
        exact ⟨k, by omega, by simpa [Function.iterate_succ] using hc⟩
    · simp [rotWhile, hcd]

theorem rotL_iter_append : ∀ (a b : Dq), rotL^[a.length] (a ++ b) = b ++ a
  | [], b => by simp
  | x :: a, b => by
    have := rotL_iter_append a (b ++ [x])
    simp only [List.length_cons, Function.iterate_succ, Function.comp, List.cons_append, rotL]
    rw [List.append_assoc, this]; simp

theorem rotR_concat (a : Dq) (x : Nat × Nat) : rotR (a ++ [x]) = x :: a := by
  simp [rotR]

theorem rotR_iter_append (a b : Dq) : rotR^[b.length] (a ++ b) = b ++ a := by
  induction b using List.reverseRecOn generalizing a with
  | nil => simp
  | append_singleton b x ih =>
    simp only [List.length_append, List.length_singleton, Function.iterate_succ, Function.comp]
    rw [← List.append_assoc, rotR_concat, ← List.cons_append, ih]; simp

theorem isRotated_split {d e : Dq} (h : d ~r e) : ∃ a b, d = a ++ b ∧ e = b ++ a := by
  obtain ⟨n, hn, rfl⟩ := List.isRotated_iff_mod.mp h
  exact ⟨d.take n, d.drop n, (List.take_append_drop n d).symm, List.rotate_eq_drop_append_take hn⟩

theorem isRotated_iterL {d e : Dq} (h : d ~r e) : ∃ k ≤ d.length, rotL^[k] d = e := by
  obtain ⟨a, b, rfl, rfl⟩ := isRotated_split h
  exact ⟨a.length, by simp, rotL_iter_append a b⟩

theorem isRotated_iterR {d e : Dq} (h : d ~r e) : ∃ k ≤ d.length, rotR^[k] d = e := by
  obtain ⟨a, b, rfl, rfl⟩ := isRotated_split h
  exact ⟨b.length, by simp, rotR_iter_append a b⟩
