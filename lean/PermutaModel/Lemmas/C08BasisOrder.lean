import PermutaModel.Lemmas.C08Dispatch
/-! The order operators on `Basis` / `MeshBasis` objects: neither class defines `__lt__` … `__ge__`,
    so the dispatch ends in `tuple.__op__`, i.e. `tuple_richcompare` on the element tuples
    (`Model.C08.itemsCmp`), which uses the elements' own `==` and order operators. -/
open Model Model.C08 Generated

namespace C08

/-- `a op b` on two keys of a strictly totally ordered key type -/
def elemSpec {κ : Type} [BEq κ] (klt : κ → κ → Bool) : DMeth → κ → κ → Bool
  | .eq, a, b => a == b
  | .ne, a, b => !(a == b)
  | .lt, a, b => klt a b
  | .le, a, b => klt a b || a == b
  | .gt, a, b => klt b a
  | .ge, a, b => klt b a || b == a

/-- `s op t` on two tuples of keys: lexicographic (`listLex`: the first position where the keys differ
    decides by the keys' `<`; a proper prefix is smaller) -/
def tupSpec {κ : Type} [BEq κ] (klt : κ → κ → Bool) : DMeth → List κ → List κ → Bool
  | .eq, s, t => s == t
  | .ne, s, t => !(s == t)
  | .lt, s, t => listLex klt s t
  | .le, s, t => listLex klt s t || s == t
  | .gt, s, t => listLex klt t s
  | .ge, s, t => listLex klt t s || t == s

/-- `tuple_richcompare` computes the lexicographic comparison of the key tuples, as soon as the six
    operators on the items are the key comparisons -/
theorem itemsCmp_tup {α κ : Type} [BEq κ] [LawfulBEq κ] (f : α → Atom) (key : α → κ) (klt : κ → κ → Bool)
    (m : DMeth) :
    ∀ (xs ys : List α),
      (∀ x ∈ xs, ∀ y ∈ ys, ∀ m', cmpAtom m' (f x) (f y) = .ok (elemSpec klt m' (key x) (key y))) →
      itemsCmp m (xs.map f) (ys.map f) = .ok (tupSpec klt m (xs.map key) (ys.map key))
  | [], [], _ => by cases m <;> rfl
  | [], _ :: _, _ => by cases m <;> simp [itemsCmp, tupSpec, applyOp, listLex]
  | _ :: _, [], _ => by cases m <;> simp [itemsCmp, tupSpec, applyOp, listLex]
  | x :: xs, y :: ys, h => by
    have ih := itemsCmp_tup f key klt m xs ys
      (fun a ha b hb => h a (List.mem_cons_of_mem _ ha) b (List.mem_cons_of_mem _ hb))
    have h0 := h x (List.mem_cons_self ..) y (List.mem_cons_self ..)
    simp only [List.map_cons, itemsCmp, h0 .eq, elemSpec]
    by_cases hk : key x = key y
    · have hb : (key x == key y) = true := by simp [hk]
      simp only [hb, ih]
      rw [hk]
      cases m <;> simp [tupSpec, listLex_cons_self]
    · have hb : (key x == key y) = false := by simp [hk]
      have hk' : key y ≠ key x := fun e => hk e.symm
      have hb' : (key y == key x) = false := by simp [hk']
      simp only [hb]
      cases m <;>
        simp [tupSpec, h0 .lt, h0 .le, h0 .gt, h0 .ge, elemSpec, listLex_cons_ne klt hk,
          listLex_cons_ne klt hk', hb, hb']

/-- the order laws of `tupSpec` over a strict total order on the keys -/
theorem tupSpec_laws {κ : Type} [BEq κ] [LawfulBEq κ] {klt : κ → κ → Bool} (hk : StrictTotal klt)
    (x y z : List κ) :
    tupSpec klt .lt x x = false ∧
    (tupSpec klt .lt x y = true → tupSpec klt .lt y z = true → tupSpec klt .lt x z = true) ∧
    (tupSpec klt .lt x y = true ∨ tupSpec klt .eq x y = true ∨ tupSpec klt .lt y x = true) ∧
    (tupSpec klt .lt x y = true → tupSpec klt .lt y x = false ∧ tupSpec klt .eq x y = false) ∧
    (tupSpec klt .le x y = true ↔ tupSpec klt .lt x y = true ∨ tupSpec klt .eq x y = true) ∧
    tupSpec klt .gt x y = tupSpec klt .lt y x ∧
    tupSpec klt .ge x y = tupSpec klt .le y x := by
  have hl := listLex_strictTotal hk
  refine ⟨hl.irrefl x, hl.trans x y z, ?_, ?_, ?_, rfl, rfl⟩
  · rcases hl.tri x y with h | h | h
    · exact Or.inl h
    · exact Or.inr (Or.inl (by simp [tupSpec, h]))
    · exact Or.inr (Or.inr h)
  · intro h
    refine ⟨hl.asymm h, ?_⟩
    have := hl.ne_of_lt h
    simp [tupSpec, this]
  · simp [tupSpec]

/-- `listLex` spelled out: the tuples share a prefix after which the left one has a smaller item, or
    the left tuple is a proper prefix of the right one -/
theorem listLex_iff {κ : Type} [BEq κ] [LawfulBEq κ] (klt : κ → κ → Bool) :
    ∀ s t : List κ, listLex klt s t = true ↔
      (∃ p a b s' t', s = p ++ a :: s' ∧ t = p ++ b :: t' ∧ a ≠ b ∧ klt a b = true) ∨
      (∃ b t', t = s ++ b :: t')
  | [], [] => by simp [listLex]
  | [], b :: t => by
    simp only [listLex, true_iff]
    exact Or.inr ⟨b, t, rfl⟩
  | a :: s, [] => by simp [listLex]
  | a :: s, b :: t => by
    by_cases hab : a = b
    · subst hab
      rw [listLex_cons_self, listLex_iff klt s t]
      constructor
      · rintro (⟨p, x, y, s', t', rfl, rfl, hne, hlt⟩ | ⟨y, t', rfl⟩)
        · exact Or.inl ⟨a :: p, x, y, s', t', rfl, rfl, hne, hlt⟩
        · exact Or.inr ⟨y, t', rfl⟩
      · rintro (⟨p, x, y, s', t', h1, h2, hne, hlt⟩ | ⟨y, t', h⟩)
        · cases p with
          | nil =>
            simp only [List.nil_append, List.cons.injEq] at h1 h2
            exact absurd (h1.1.symm.trans h2.1) hne
          | cons c p =>
            simp only [List.cons_append, List.cons.injEq] at h1 h2
            exact Or.inl ⟨p, x, y, s', t', h1.2, h2.2, hne, hlt⟩
        · simp only [List.cons_append, List.cons.injEq, true_and] at h
          exact Or.inr ⟨y, t', h⟩
    · rw [listLex_cons_ne klt hab]
      constructor
      · intro h
        exact Or.inl ⟨[], a, b, s, t, rfl, rfl, hab, h⟩
      · rintro (⟨p, x, y, s', t', h1, h2, hne, hlt⟩ | ⟨y, t', h⟩)
        · cases p with
          | nil =>
            simp only [List.nil_append, List.cons.injEq] at h1 h2
            rw [h1.1, h2.1]; exact hlt
          | cons c p =>
            simp only [List.cons_append, List.cons.injEq] at h1 h2
            exact absurd (h1.1.trans h2.1.symm) hab
        · simp only [List.cons_append, List.cons.injEq] at h
          exact absurd h.1.symm hab

/-! ### `Basis` -/

theorem permCmpSpec_eq_elemSpec (m : DMeth) (p q : NSeq) : permCmpSpec m p q = elemSpec permLt m p q := by
  cases m <;> rfl

/-- the dispatch of an order operator on two `Basis` objects ends in `tuple_richcompare` -/
theorem cmp_basis_items (m : DMeth) (hm : m ≠ .eq ∧ m ≠ .ne) (xs ys : List NSeq) :
    cmp m (.basis xs) (.basis ys) =
      (match itemsCmp m (xs.map Atom.perm) (ys.map Atom.perm) with
        | .ok r => .ok r | .error e => .error e) := by
  cases m with
  | eq => exact absurd rfl hm.1
  | ne => exact absurd rfl hm.2
  | lt | le | gt | ge =>
    cases hh : itemsCmp _ (xs.map Atom.perm) (ys.map Atom.perm) <;>
      simp [cmp, richcmp, callDunder, dunderFuel, objOps, Obj.cls, resolve, resolveFuel, dunder, dParent,
        tupleBased, tupleBasedFuel, dIsTuple, isSubclass, isSubFuel, objTupleCmp, Obj.items, hh]

theorem cmp_basis (m : DMeth) (xs ys : List NSeq) :
    cmp m (.basis xs) (.basis ys) = .ok (tupSpec permLt m xs ys) := by
  have hi : ∀ m', itemsCmp m' (xs.map Atom.perm) (ys.map Atom.perm) = .ok (tupSpec permLt m' xs ys) := by
    intro m'
    have := itemsCmp_tup Atom.perm (fun p : NSeq => p) permLt m' xs ys
      (fun x _ y _ m'' => by rw [cmpAtom_perm, permCmpSpec_eq_elemSpec])
    simpa using this
  cases m with
  | eq => exact cmp_eq_basis xs ys
  | ne => exact cmp_ne_basis xs ys
  | lt => rw [cmp_basis_items .lt (by decide), hi]
  | le => rw [cmp_basis_items .le (by decide), hi]
  | gt => rw [cmp_basis_items .gt (by decide), hi]
  | ge => rw [cmp_basis_items .ge (by decide), hi]

/-! ### `MeshBasis` -/

/-- what a mesh-type pattern is compared by: `(pattern, sorted(shading))` -/
def mkey (x : MObj) : NSeq × List Cell := (x.pattern, x.shading)

/-- `(pattern, shading) < (pattern', shading')` -/
def keyLt (a b : NSeq × List Cell) : Bool :=
  if a.1 == b.1 then cellsLt a.2 b.2 else permLt a.1 b.1

theorem meshKeyLt_eq_keyLt (x y : MObj) : meshKeyLt x y = keyLt (mkey x) (mkey y) := rfl

theorem meshKeyEq_eq_beq (x y : MObj) : meshKeyEq x y = (mkey x == mkey y) := rfl

theorem keyLt_strictTotal : StrictTotal keyLt where
  irrefl a := meshKeyLt_irrefl ⟨.MeshPatt, a.1, a.2⟩
  trans a b c := meshKeyLt_trans ⟨.MeshPatt, a.1, a.2⟩ ⟨.MeshPatt, b.1, b.2⟩ ⟨.MeshPatt, c.1, c.2⟩
  tri a b := by
    rcases meshKeyLt_tri ⟨.MeshPatt, a.1, a.2⟩ ⟨.MeshPatt, b.1, b.2⟩ with h | h | h
    · exact Or.inl h
    · rw [meshKeyEq_iff] at h
      exact Or.inr (Or.inl (Prod.ext h.1 h.2))
    · exact Or.inr (Or.inr h)

theorem meshCmpSpec_eq_elemSpec (m : DMeth) (x y : MObj) :
    meshCmpSpec m x y = .ok (elemSpec keyLt m (mkey x) (mkey y)) := by
  cases m <;> rfl

theorem meshListEq_eq_beq : ∀ xs ys : List MObj, meshListEq xs ys = (xs.map mkey == ys.map mkey)
  | [], [] => rfl
  | [], _ :: _ => rfl
  | _ :: _, [] => rfl
  | x :: xs, y :: ys => by
    simp only [meshListEq, List.map_cons, meshListEq_eq_beq xs ys, meshKeyEq_eq_beq]
    rfl

theorem cmp_mbasis_items (m : DMeth) (hm : m ≠ .eq ∧ m ≠ .ne) (xs ys : List MObj) :
    cmp m (.mbasis xs) (.mbasis ys) =
      (match itemsCmp m (xs.map Atom.mesh) (ys.map Atom.mesh) with
        | .ok r => .ok r | .error e => .error e) := by
  cases m with
  | eq => exact absurd rfl hm.1
  | ne => exact absurd rfl hm.2
  | lt | le | gt | ge =>
    cases hh : itemsCmp _ (xs.map Atom.mesh) (ys.map Atom.mesh) <;>
      simp [cmp, richcmp, callDunder, dunderFuel, objOps, Obj.cls, resolve, resolveFuel, dunder, dParent,
        tupleBased, tupleBasedFuel, dIsTuple, isSubclass, isSubFuel, objTupleCmp, Obj.items, hh]

theorem cmp_mbasis (m : DMeth) (xs ys : List MObj) (hx : ∀ a ∈ xs, IsMeshCls a.cls)
    (hy : ∀ a ∈ ys, IsMeshCls a.cls) :
    cmp m (.mbasis xs) (.mbasis ys) = .ok (tupSpec keyLt m (xs.map mkey) (ys.map mkey)) := by
  have hi : ∀ m', itemsCmp m' (xs.map Atom.mesh) (ys.map Atom.mesh) =
      .ok (tupSpec keyLt m' (xs.map mkey) (ys.map mkey)) := by
    intro m'
    exact itemsCmp_tup Atom.mesh mkey keyLt m' xs ys
      (fun x hxm y hym m'' => by rw [cmpAtom_mesh m'' x y (hx x hxm) (hy y hym), meshCmpSpec_eq_elemSpec])
  cases m with
  | eq => rw [cmp_eq_mbasis xs ys hx hy, meshListEq_eq_beq]; rfl
  | ne => rw [cmp_ne_mbasis xs ys hx hy, meshListEq_eq_beq]; rfl
  | lt => rw [cmp_mbasis_items .lt (by decide), hi]
  | le => rw [cmp_mbasis_items .le (by decide), hi]
  | gt => rw [cmp_mbasis_items .gt (by decide), hi]
  | ge => rw [cmp_mbasis_items .ge (by decide), hi]

/-! ### `Basis` against `MeshBasis` -/

/-- what `tuple_richcompare` does with a tuple of permutations against a tuple of mesh patterns: the
    first items are never `==` and not ordered (`TypeError`); if one tuple is empty the lengths decide -/
def crossSpec (m : DMeth) (nx ny : Bool) : Except Proto.Err Bool :=
  match nx, ny with
  | true, true => .ok (applyOp m false true)
  | true, false => .ok (applyOp m true false)
  | false, true => .ok (applyOp m false false)
  | false, false => .error .typeError

theorem cmp_basis_mbasis_order (m : DMeth) (hm : m ≠ .eq ∧ m ≠ .ne) (xs : List NSeq) (ys : List MObj)
    (hy : ∀ a ∈ ys, IsMeshCls a.cls) :
    cmp m (.basis xs) (.mbasis ys) = crossSpec m xs.isEmpty ys.isEmpty ∧
    cmp m (.mbasis ys) (.basis xs) = crossSpec m ys.isEmpty xs.isEmpty := by
  have h1 : itemsCmp m (xs.map Atom.perm) (ys.map Atom.mesh) = crossSpec m xs.isEmpty ys.isEmpty := by
    cases xs with
    | nil => cases ys <;> rfl
    | cons x xs =>
      cases ys with
      | nil => rfl
      | cons y ys =>
        have := hy y (List.mem_cons_self ..)
        simp only [List.map_cons, itemsCmp, cmpAtom_perm_mesh _ x y this, mixedSpec]
        cases m <;> first | exact absurd rfl hm.1 | exact absurd rfl hm.2 | rfl
  have h2 : itemsCmp m (ys.map Atom.mesh) (xs.map Atom.perm) = crossSpec m ys.isEmpty xs.isEmpty := by
    cases xs with
    | nil => cases ys <;> rfl
    | cons x xs =>
      cases ys with
      | nil => rfl
      | cons y ys =>
        have := hy y (List.mem_cons_self ..)
        simp only [List.map_cons, itemsCmp, cmpAtom_mesh_perm _ y x this, mixedSpec]
        cases m <;> first | exact absurd rfl hm.1 | exact absurd rfl hm.2 | rfl
  rw [← h1, ← h2]
  cases m with
  | eq => exact absurd rfl hm.1
  | ne => exact absurd rfl hm.2
  | lt | le | gt | ge =>
    constructor
    · cases hh : itemsCmp _ (xs.map Atom.perm) (ys.map Atom.mesh) <;>
        simp [cmp, richcmp, callDunder, dunderFuel, objOps, Obj.cls, resolve, resolveFuel, dunder, dParent,
          tupleBased, tupleBasedFuel, dIsTuple, isSubclass, isSubFuel, objTupleCmp, Obj.items, hh]
    · cases hh : itemsCmp _ (ys.map Atom.mesh) (xs.map Atom.perm) <;>
        simp [cmp, richcmp, callDunder, dunderFuel, objOps, Obj.cls, resolve, resolveFuel, dunder, dParent,
          tupleBased, tupleBasedFuel, dIsTuple, isSubclass, isSubFuel, objTupleCmp, Obj.items, hh]

end C08
