import PermutaModel.Lemmas.C10Finest

/-! Uniqueness of the sum / skew decomposition, and the skew decomposition through the complement. -/
open Model Spec.C10

namespace C10L

/-! ### the n-ary sums as right-nested binary sums -/

theorem foldl_directSum_nil_cons (a : NSeq) (t : List NSeq) :
    (a :: t).foldl directSum [] = directSum a (t.foldl directSum []) := by
  rw [List.foldl_cons, directSum_nil_left]
  cases t with
  | nil => simp [directSum_nil_right]
  | cons c rest => rw [foldl_directSum_cons, foldl_directSum_cons, directSum_nil_left]

theorem foldl_skewSum_nil_cons (a : NSeq) (t : List NSeq) :
    (a :: t).foldl skewSum [] = skewSum a (t.foldl skewSum []) := by
  rw [List.foldl_cons, skewSum_nil_left]
  cases t with
  | nil => simp [skewSum_nil_right]
  | cons c rest => rw [foldl_skewSum_cons, foldl_skewSum_cons, skewSum_nil_left]

theorem map_add_inj {k : Nat} {a b : NSeq} (h : a.map (· + k) = b.map (· + k)) : a = b := by
  have := congrArg (List.map (· - k)) h
  simpa [List.map_map, Function.comp_def] using this

theorem directSum_cancel {a b S1 S2 : NSeq} (hlen : a.length = b.length) (h : directSum a S1 = directSum b S2) :
    a = b ∧ S1 = S2 := by
  unfold directSum at h
  obtain ⟨e1, e2⟩ := List.append_inj h hlen
  subst e1
  exact ⟨rfl, map_add_inj e2⟩

theorem skewSum_cancel {a b S1 S2 : NSeq} (hlen : a.length = b.length) (h : skewSum a S1 = skewSum b S2) :
    a = b ∧ S1 = S2 := by
  unfold skewSum at h
  obtain ⟨e1, e2⟩ := List.append_inj h (by simp [hlen])
  subst e2
  exact ⟨map_add_inj e1, rfl⟩

/-! ### direct sums -/

/-- the first summand of a direct sum cannot be a proper prefix of an indecomposable first summand -/
theorem directSum_head_not_lt {a b S1 S2 : NSeq} (ha : IsPerm a) (hb : IsPerm b) (ha0 : a ≠ [])
    (hbi : isSumDecomposable b = false) (h : directSum a S1 = directSum b S2) : ¬ a.length < b.length := by
  intro hlt
  have hpos : 0 < a.length := List.length_pos_iff.mpr ha0
  have htake : a = b.take a.length := by
    have := congrArg (List.take a.length) h
    unfold directSum at this
    rwa [List.take_left' rfl, List.take_append_of_le_length (by omega)] at this
  have : isSumDecomposable b = true := by
    rw [isSumDecomposable_iff_closed hb]
    refine ⟨a.length, hpos, hlt, ?_⟩
    intro x hx
    rw [← htake] at hx
    exact ha.2 x hx
  rw [hbi] at this
  exact absurd this (by simp)

/-- **uniqueness of the sum decomposition**, list against list -/
theorem directSum_parts_unique :
    ∀ (L1 L2 : List NSeq),
      (∀ a ∈ L1, IsPerm a ∧ a ≠ [] ∧ isSumDecomposable a = false) →
      (∀ a ∈ L2, IsPerm a ∧ a ≠ [] ∧ isSumDecomposable a = false) →
      L1.foldl directSum [] = L2.foldl directSum [] → L1 = L2 := by
  intro L1
  induction L1 with
  | nil =>
    intro L2 _ h2 h
    cases L2 with
    | nil => rfl
    | cons b t2 =>
      exfalso
      rw [foldl_directSum_nil_cons] at h
      have hl := congrArg List.length h
      rw [length_directSum] at hl
      have := List.length_pos_iff.mpr (h2 b (by simp)).2.1
      simp only [List.foldl_nil, List.length_nil] at hl
      omega
  | cons a t1 ih =>
    intro L2 h1 h2 h
    cases L2 with
    | nil =>
      exfalso
      rw [foldl_directSum_nil_cons] at h
      have hl := congrArg List.length h
      rw [length_directSum] at hl
      have := List.length_pos_iff.mpr (h1 a (by simp)).2.1
      simp only [List.foldl_nil, List.length_nil] at hl
      omega
    | cons b t2 =>
      rw [foldl_directSum_nil_cons, foldl_directSum_nil_cons] at h
      obtain ⟨ha, ha0, hai⟩ := h1 a (by simp)
      obtain ⟨hb, hb0, hbi⟩ := h2 b (by simp)
      have hlen : a.length = b.length := by
        have := directSum_head_not_lt ha hb ha0 hbi h
        have := directSum_head_not_lt hb ha hb0 hai h.symm
        omega
      obtain ⟨e1, e3⟩ := directSum_cancel hlen h
      subst e1
      have := ih t2 (fun x hx => h1 x (by simp [hx])) (fun x hx => h2 x (by simp [hx])) e3
      rw [this]

/-! ### skew sums -/

theorem skewSum_head_not_lt {a b S1 S2 : NSeq} (hb : IsPerm b) (ha0 : a ≠ [])
    (hbi : isSkewDecomposable b = false) (h : skewSum a S1 = skewSum b S2) : ¬ a.length < b.length := by
  intro hlt
  have hpos : 0 < a.length := List.length_pos_iff.mpr ha0
  have hl := congrArg List.length h
  rw [length_skewSum, length_skewSum] at hl
  have htake : a.map (· + S1.length) = (b.take a.length).map (· + S2.length) := by
    have := congrArg (List.take a.length) h
    unfold skewSum at this
    rwa [List.take_left' (by simp), List.take_append_of_le_length (by simp; omega), ← List.map_take] at this
  have : isSkewDecomposable b = true := by
    rw [isSkewDecomposable_iff_closed hb]
    refine ⟨a.length, hpos, hlt, ?_⟩
    intro x hx
    have hmem : x + S2.length ∈ (b.take a.length).map (· + S2.length) := List.mem_map.mpr ⟨x, hx, rfl⟩
    rw [← htake] at hmem
    obtain ⟨y, _, hy⟩ := List.mem_map.mp hmem
    omega
  rw [hbi] at this
  exact absurd this (by simp)

/-- **uniqueness of the skew decomposition**, list against list -/
theorem skewSum_parts_unique :
    ∀ (L1 L2 : List NSeq),
      (∀ a ∈ L1, IsPerm a ∧ a ≠ [] ∧ isSkewDecomposable a = false) →
      (∀ a ∈ L2, IsPerm a ∧ a ≠ [] ∧ isSkewDecomposable a = false) →
      L1.foldl skewSum [] = L2.foldl skewSum [] → L1 = L2 := by
  intro L1
  induction L1 with
  | nil =>
    intro L2 _ h2 h
    cases L2 with
    | nil => rfl
    | cons b t2 =>
      exfalso
      rw [foldl_skewSum_nil_cons] at h
      have hl := congrArg List.length h
      rw [length_skewSum] at hl
      have := List.length_pos_iff.mpr (h2 b (by simp)).2.1
      simp only [List.foldl_nil, List.length_nil] at hl
      omega
  | cons a t1 ih =>
    intro L2 h1 h2 h
    cases L2 with
    | nil =>
      exfalso
      rw [foldl_skewSum_nil_cons] at h
      have hl := congrArg List.length h
      rw [length_skewSum] at hl
      have := List.length_pos_iff.mpr (h1 a (by simp)).2.1
      simp only [List.foldl_nil, List.length_nil] at hl
      omega
    | cons b t2 =>
      rw [foldl_skewSum_nil_cons, foldl_skewSum_nil_cons] at h
      obtain ⟨ha, ha0, hai⟩ := h1 a (by simp)
      obtain ⟨hb, hb0, hbi⟩ := h2 b (by simp)
      have hlen : a.length = b.length := by
        have := skewSum_head_not_lt hb ha0 hbi h
        have := skewSum_head_not_lt ha hb0 hai h.symm
        omega
      obtain ⟨e3, e2⟩ := skewSum_cancel hlen h
      subst e3
      have := ih t2 (fun x hx => h1 x (by simp [hx])) (fun x hx => h2 x (by simp [hx])) e2
      rw [this]

/-! ### complement exchanges the two sums -/

theorem complement_bounded {a : NSeq} (ha : ∀ x ∈ a, x < a.length) :
    ∀ x ∈ complement a, x < (complement a).length := by
  intro x hx
  unfold complement at hx ⊢
  obtain ⟨v, hv, rfl⟩ := List.mem_map.mp hx
  have := ha v hv
  simp only [List.length_map]
  omega

theorem complement_complement' {a : NSeq} (ha : ∀ x ∈ a, x < a.length) : complement (complement a) = a := by
  unfold complement
  simp only [List.length_map, List.map_map]
  conv_rhs => rw [← List.map_id a]
  apply List.map_congr_left
  intro x hx
  have := ha x hx
  simp only [Function.comp, id]
  omega

theorem complement_isPerm {a : NSeq} (ha : IsPerm a) : IsPerm (complement a) := by
  refine ⟨?_, complement_bounded ha.2⟩
  unfold complement
  apply List.Nodup.map_on _ ha.1
  intro x hx y hy hxy
  have := ha.2 x hx
  have := ha.2 y hy
  omega

theorem complement_directSum {a b : NSeq} (ha : ∀ x ∈ a, x < a.length) (hb : ∀ x ∈ b, x < b.length) :
    complement (directSum a b) = skewSum (complement a) (complement b) := by
  rw [skewSum_eq_complement (complement_bounded ha) (complement_bounded hb),
    complement_complement' ha, complement_complement' hb]

theorem complement_foldl_directSum (L : List NSeq) (hL : ∀ a ∈ L, IsPerm a) :
    complement (L.foldl directSum []) = (L.map complement).foldl skewSum [] := by
  induction L with
  | nil => rfl
  | cons a t ih =>
    rw [List.map_cons, foldl_directSum_nil_cons, foldl_skewSum_nil_cons,
      complement_directSum (hL a (by simp)).2
        (foldl_directSum_isPerm isPerm_nil (fun o ho => hL o (by simp [ho]))).2,
      ih (fun o ho => hL o (by simp [ho]))]

theorem take_complement (a : NSeq) (c : Nat) :
    (complement a).take c = (a.take c).map fun v => a.length - 1 - v := by
  unfold complement
  rw [List.map_take]

/-- a skew-closed prefix of the complement is a closed prefix of the permutation -/
theorem closedAt_of_skewClosedAt_complement {a : NSeq} (ha : IsPerm a) {c : Nat} (hc : c ≤ a.length)
    (h : skewClosedAt (complement a) c) : closedAt a c := by
  intro x hx
  have hxa := ha.2 x (List.mem_of_mem_take hx)
  have hm : a.length - 1 - x ∈ (complement a).take c := by
    rw [take_complement]; exact List.mem_map.mpr ⟨x, hx, rfl⟩
  have := h _ hm
  rw [length_complement] at this
  omega

theorem isSkewDecomposable_complement {a : NSeq} (ha : IsPerm a) (h : isSumDecomposable a = false) :
    isSkewDecomposable (complement a) = false := by
  cases hs : isSkewDecomposable (complement a) with
  | false => rfl
  | true =>
    exfalso
    obtain ⟨c, h0, h1, hc⟩ := (isSkewDecomposable_iff_closed (complement_isPerm ha)).mp hs
    rw [length_complement] at h1
    have : isSumDecomposable a = true :=
      (isSumDecomposable_iff_closed ha).mpr ⟨c, h0, h1, closedAt_of_skewClosedAt_complement ha (by omega) hc⟩
    rw [h] at this
    exact absurd this (by simp)

/-- `skew_decomposition(p) = [complement(c) for c in sum_decomposition(complement(p))]` -/
theorem skewDecomposition_eq_complement {p : NSeq} (hp : IsPerm p) :
    skewDecomposition p = (sumDecomposition (complement p)).map complement := by
  have hcp := complement_isPerm hp
  obtain ⟨s1, s2⟩ := sumDecomposition_spec hcp
  obtain ⟨k1, k2⟩ := skewDecomposition_spec hp
  rw [skewSumN_eq_foldl] at k1
  rw [directSumN_eq_foldl] at s1
  apply skewSum_parts_unique _ _ k2
  · intro a ha
    obtain ⟨c, hc, rfl⟩ := List.mem_map.mp ha
    obtain ⟨c1, c2, c3⟩ := s2 c hc
    refine ⟨complement_isPerm c1, ?_, isSkewDecomposable_complement c1 c3⟩
    intro hnil
    apply c2
    have := congrArg List.length hnil
    rw [length_complement] at this
    exact List.length_eq_zero_iff.mp this
  · rw [k1, ← complement_foldl_directSum _ (fun a ha => (s2 a ha).1), s1, complement_complement' hp.2]

end C10L
