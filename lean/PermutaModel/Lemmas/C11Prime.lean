import PermutaModel.Model.C11
import Mathlib.Data.Nat.Prime.Basic
/-! `is_prime` (6k±1 trial division) against `Nat.Prime`. -/
open Model.Stat

namespace C11L

theorem isPrimeLoop_iff (n i : Nat) (hn : 3 < n) (h2 : n % 2 ≠ 0) (h3 : n % 3 ≠ 0) (hi : i % 6 = 5)
    (H : ∀ d, 2 ≤ d → d < i → ¬ d ∣ n) : isPrimeLoop n i = true ↔ Nat.Prime n := by
  fun_induction isPrimeLoop n i with
  | case1 i hle hdiv =>
    -- a divisor `i` or `i+2` was found
    simp only [Bool.false_eq_true, false_iff]
    intro hp
    have hi5 : 5 ≤ i := by omega
    have h5i : 5 * i ≤ i * i := Nat.mul_le_mul_right i hi5
    have hlt : i + 2 < n := by omega
    simp only [Bool.or_eq_true, beq_iff_eq] at hdiv
    rcases hdiv with hd | hd
    · have := (Nat.Prime.eq_one_or_self_of_dvd hp i (Nat.dvd_of_mod_eq_zero hd)); omega
    · have := (Nat.Prime.eq_one_or_self_of_dvd hp (i + 2) (Nat.dvd_of_mod_eq_zero hd)); omega
  | case2 i hle hdiv ih =>
    apply ih (by omega)
    intro d hd2 hdlt hdvd
    simp only [Bool.or_eq_true, beq_iff_eq, not_or] at hdiv
    by_cases h : d < i
    · exact H d hd2 h hdvd
    · have hcases : d = i ∨ d = i + 1 ∨ d = i + 2 ∨ d = i + 3 ∨ d = i + 4 ∨ d = i + 5 := by omega
      rcases hcases with rfl | rfl | rfl | rfl | rfl | rfl
      · exact hdiv.1 (Nat.mod_eq_zero_of_dvd hdvd)
      · have : 2 ∣ n := Nat.dvd_trans (by omega) hdvd; omega
      · exact hdiv.2 (Nat.mod_eq_zero_of_dvd hdvd)
      · have : 2 ∣ n := Nat.dvd_trans (by omega) hdvd; omega
      · have : 3 ∣ n := Nat.dvd_trans (by omega) hdvd; omega
      · have : 2 ∣ n := Nat.dvd_trans (by omega) hdvd; omega
  | case3 i hgt =>
    simp only [true_iff]
    rw [Nat.prime_def_le_sqrt]
    refine ⟨by omega, ?_⟩
    intro m hm2 hms hdvd
    have : m * m ≤ n := Nat.le_sqrt.mp hms
    have : m < i := by
      by_contra hc
      have : i * i ≤ m * m := Nat.mul_le_mul (by omega) (by omega)
      omega
    exact H m hm2 this hdvd

/-- `is_prime` (6k±1 trial division) decides primality -/
theorem isPrime_iff (n : Nat) : isPrime n = true ↔ Nat.Prime n := by
  unfold isPrime
  split
  · rename_i h
    have : n = 0 ∨ n = 1 ∨ n = 2 ∨ n = 3 := by omega
    rcases this with rfl | rfl | rfl | rfl <;> simp [Nat.prime_two, Nat.prime_three, Nat.not_prime_zero, Nat.not_prime_one]
  · rename_i h
    split
    · rename_i hd
      simp only [Bool.false_eq_true, false_iff]
      intro hp
      simp only [Bool.or_eq_true, beq_iff_eq] at hd
      rcases hd with hd | hd
      · have := (Nat.Prime.eq_one_or_self_of_dvd hp 2 (Nat.dvd_of_mod_eq_zero hd)); omega
      · have := (Nat.Prime.eq_one_or_self_of_dvd hp 3 (Nat.dvd_of_mod_eq_zero hd)); omega
    · rename_i hd
      simp only [Bool.or_eq_true, beq_iff_eq, not_or] at hd
      apply isPrimeLoop_iff n 5 (by omega) hd.1 hd.2 (by decide)
      intro d hd2 hd5 hdvd
      have : d = 2 ∨ d = 3 ∨ d = 4 := by omega
      rcases this with rfl | rfl | rfl
      · have := Nat.mod_eq_zero_of_dvd hdvd; omega
      · have := Nat.mod_eq_zero_of_dvd hdvd; omega
      · have : 2 ∣ n := Nat.dvd_trans (by decide) hdvd; omega

end C11L
