import PermutaModel.Lemmas.C04Mesh
/-! C04 helper lemmas: mesh containment in *region form* (an occurrence as a pair of strictly
    monotone maps, positions `F` and values `G`; a shaded cell is the open rectangle between
    consecutive occurrence positions / values) and its equivariance under the generators,
    cells mapped by the formulas of meshpatt.py. -/
open Model

namespace C04L

/-- `j` lies strictly between the `(x-1)`-th and the `x`-th of the `k` marks `h 0 < … < h (k-1)`
    (no lower mark for `x = 0`, no upper mark for `x = k`) -/
def Between (k : Nat) (h : Nat → Nat) (x j : Nat) : Prop :=
  (x = 0 ∨ h (x - 1) < j) ∧ (x = k ∨ j < h x)

/-- mesh occurrence in region form: `F` embeds positions, `G` is the induced embedding of values
    (`G (π a) = σ (F a)`), and no point `(i, σ i)` lies in the open rectangle of a shaded cell -/
structure MEmb (π σ : NSeq) (R : List Cell) (F G : Nat → Nat) : Prop where
  emb : Emb π σ F
  val : ∀ a, a < π.length → G (π.getD a 0) = σ.getD (F a) 0
  free : ∀ c ∈ R, ∀ i, i < σ.length →
    ¬ (Between π.length F c.1 i ∧ Between π.length G c.2 (σ.getD i 0))

theorem Emb.congr {π σ : NSeq} {f g : Nat → Nat} (hfg : ∀ a, a < π.length → f a = g a)
    (h : Emb π σ f) : Emb π σ g := by
  refine ⟨?_, ?_, ?_⟩
  · intro a b hab hb
    rw [← hfg a (by omega), ← hfg b hb]; exact h.mono a b hab hb
  · intro a ha; rw [← hfg a ha]; exact h.rng a ha
  · intro a b ha hb; rw [← hfg a ha, ← hfg b hb]; exact h.iso a b ha hb

theorem MEmb.G_eq {π σ : NSeq} {R : List Cell} {F G : Nat → Nat} (hπ : IsPerm π)
    (h : MEmb π σ R F G) {v : Nat} (hv : v < π.length) : G v = σ.getD (F (π.idxOf v)) 0 := by
  have := h.val (π.idxOf v) (hπ.idxOf_lt hv)
  rwa [hπ.getD_idxOf hv] at this

theorem MEmb.G_lt {π σ : NSeq} {R : List Cell} {F G : Nat → Nat} (hπ : IsPerm π) (hσ : IsPerm σ)
    (h : MEmb π σ R F G) {v : Nat} (hv : v < π.length) : G v < σ.length := by
  rw [h.G_eq hπ hv]; exact hσ.getD_lt (h.emb.rng _ (hπ.idxOf_lt hv))

theorem MEmb.G_mono {π σ : NSeq} {R : List Cell} {F G : Nat → Nat} (hπ : IsPerm π)
    (h : MEmb π σ R F G) {v w : Nat} (hvw : v < w) (hw : w < π.length) : G v < G w := by
  have hv : v < π.length := by omega
  rw [h.G_eq hπ hv, h.G_eq hπ hw]
  refine (h.emb.iso _ _ (hπ.idxOf_lt hv) (hπ.idxOf_lt hw)).mp ?_
  rw [hπ.getD_idxOf hv, hπ.getD_idxOf hw]; exact hvw

/-- mirroring the marks: the `x`-th gap of `h` is the `(k-x)`-th gap of `a ↦ n-1-h(k-1-a)` -/
theorem between_flip {k n : Nat} {h : Nat → Nat} (hlt : ∀ a, a < k → h a < n) {x j : Nat} (hx : x ≤ k)
    (hj : j < n) (hb : Between k (fun a => n - 1 - h (k - 1 - a)) (k - x) (n - 1 - j)) :
    Between k h x j := by
  unfold Between at *
  obtain ⟨h1, h2⟩ := hb
  constructor
  · by_cases h0 : x = 0
    · exact Or.inl h0
    · right
      rcases h2 with e | e
      · omega
      · have e2 : k - 1 - (k - x) = x - 1 := by omega
        simp only [e2] at e
        have := hlt (x - 1) (by omega)
        omega
  · by_cases hk : x = k
    · exact Or.inl hk
    · right
      rcases h1 with e | e
      · omega
      · have e2 : k - 1 - (k - x - 1) = x := by omega
        simp only [e2] at e
        have := hlt x (by omega)
        omega

/-- reverse: cells `(x, y) ↦ (n - x, y)` -/
theorem MEmb.reverse {π σ : NSeq} {R : List Cell} {F G : Nat → Nat}
    (hR : ∀ c ∈ R, c.1 ≤ π.length ∧ c.2 ≤ π.length) (h : MEmb π σ R F G) :
    MEmb (reverse π) (reverse σ) (R.map fun c => (π.length - c.1, c.2))
      (fun a => σ.length - 1 - F (π.length - 1 - a)) G := by
  refine ⟨h.emb.reverse, ?_, ?_⟩
  · intro a ha
    simp only [length_reverse] at ha
    rw [getD_reverse π ha]
    have hr := h.emb.rng (π.length - 1 - a) (by omega)
    show G _ = (Model.reverse σ).getD (σ.length - 1 - F (π.length - 1 - a)) 0
    rw [getD_reverse σ (by omega)]
    have e : σ.length - 1 - (σ.length - 1 - F (π.length - 1 - a)) = F (π.length - 1 - a) := by omega
    rw [e]; exact h.val _ (by omega)
  · intro c' hc' i' hi' hB
    obtain ⟨c, hc, rfl⟩ := List.mem_map.mp hc'
    simp only [length_reverse] at hi' hB
    obtain ⟨hB1, hB2⟩ := hB
    obtain ⟨hx, _⟩ := hR c hc
    apply h.free c hc (σ.length - 1 - i') (by omega)
    constructor
    · apply between_flip (fun a ha => h.emb.rng a ha) hx (by omega)
      have e : σ.length - 1 - (σ.length - 1 - i') = i' := by omega
      rw [e]; exact hB1
    · rw [getD_reverse σ hi'] at hB2; exact hB2

/-- complement: cells `(x, y) ↦ (x, n - y)` -/
theorem MEmb.complement {π σ : NSeq} {R : List Cell} {F G : Nat → Nat} (hπ : IsPerm π) (hσ : IsPerm σ)
    (hR : ∀ c ∈ R, c.1 ≤ π.length ∧ c.2 ≤ π.length) (h : MEmb π σ R F G) :
    MEmb (complement π) (complement σ) (R.map fun c => (c.1, π.length - c.2)) F
      (fun v => σ.length - 1 - G (π.length - 1 - v)) := by
  refine ⟨h.emb.complement hπ hσ, ?_, ?_⟩
  · intro a ha
    simp only [length_complement] at ha
    have hv := hπ.getD_lt ha
    have hr := h.emb.rng a ha
    rw [getD_complement π ha, getD_complement σ hr]
    have e : π.length - 1 - (π.length - 1 - π.getD a 0) = π.getD a 0 := by omega
    show σ.length - 1 - G (π.length - 1 - (π.length - 1 - π.getD a 0)) = _
    rw [e, h.val a ha]
  · intro c' hc' i hi hB
    obtain ⟨c, hc, rfl⟩ := List.mem_map.mp hc'
    simp only [length_complement] at hi hB
    obtain ⟨hB1, hB2⟩ := hB
    obtain ⟨_, hy⟩ := hR c hc
    apply h.free c hc i hi
    refine ⟨hB1, ?_⟩
    apply between_flip (fun v hv => h.G_lt hπ hσ hv) hy (hσ.getD_lt hi)
    rw [getD_complement σ hi] at hB2; exact hB2

/-- inverse: cells `(x, y) ↦ (y, x)`; positions and values swap roles -/
theorem MEmb.inverse {π σ : NSeq} {R : List Cell} {F G : Nat → Nat} (hπ : IsPerm π) (hσ : IsPerm σ)
    (h : MEmb π σ R F G) :
    MEmb (inverse π) (inverse σ) (R.map fun c => (c.2, c.1)) G F := by
  refine ⟨?_, ?_, ?_⟩
  · refine Emb.congr ?_ (h.emb.inverse hπ hσ)
    intro v hv
    simp only [length_inverse] at hv
    exact (h.G_eq hπ hv).symm
  · intro v hv
    simp only [length_inverse] at hv
    have ha := hπ.idxOf_lt hv
    have hr := h.emb.rng _ ha
    rw [getD_inverse π hv, h.G_eq hπ hv, getD_inverse σ (hσ.getD_lt hr), hσ.idxOf_getD hr]
  · intro c' hc' j hj hB
    obtain ⟨c, hc, rfl⟩ := List.mem_map.mp hc'
    simp only [length_inverse] at hj hB
    obtain ⟨hB1, hB2⟩ := hB
    apply h.free c hc (σ.idxOf j) (hσ.idxOf_lt hj)
    rw [getD_inverse σ hj] at hB2
    refine ⟨hB2, ?_⟩
    rw [hσ.getD_idxOf hj]; exact hB1

end C04L
