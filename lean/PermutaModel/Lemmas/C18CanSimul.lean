import PermutaModel.Lemmas.C18Simul
import PermutaModel.Lemmas.C18Can

/-! Unfolding the loop of `can_simul_shade` and transporting a shading of several cells through
    rotations. -/

namespace Spec.C18
open Model Model.C18 Proto

/-- `shade` of a list of cells commutes with the rotation (as sets of cells) -/
theorem shade_rot_list (μ : Mesh) (ps : List Cell) :
    MeshEq (shade (rotMesh μ) (ps.map fun p => (p.2, mlen μ - p.1))) (rotMesh (shade μ ps)) := by
  refine ⟨rfl, fun c => ?_⟩
  unfold rotMesh shade
  simp only [mem_union, List.mem_map, mlen]
  constructor
  · rintro (⟨d, hd, rfl⟩ | ⟨d, hd, rfl⟩)
    · exact ⟨d, Or.inl hd, rfl⟩
    · exact ⟨d, Or.inr hd, rfl⟩
  · rintro ⟨d, hd | hd, rfl⟩
    · exact Or.inl ⟨d, hd, rfl⟩
    · exact Or.inr ⟨d, hd, rfl⟩

theorem shade_rotN_list : ∀ (k : Nat) (μ : Mesh) (ps : List Cell),
    MeshEq (shade (rotMeshN k μ) (ps.map (rotCellN (mlen μ) k))) (rotMeshN k (shade μ ps))
  | 0, μ, ps => by
    have : ps.map (rotCellN (mlen μ) 0) = ps := by
      conv_rhs => rw [← List.map_id ps]
      apply List.map_congr_left; intro a _; rfl
    rw [this]; exact MeshEq.refl _
  | k + 1, μ, ps => by
    have h1 := shade_rotN_list k (rotMesh μ) (ps.map fun p => (p.2, mlen μ - p.1))
    have h2 : mlen (rotMesh μ) = mlen μ := by simp [rotMesh, mlen, rotate1_length]
    rw [h2, List.map_map] at h1
    exact h1.trans (MeshEq.rotN k (shade_rot_list μ ps))

/-- rotation transport of a shading of several cells -/
theorem shade_sound_of_rot_list {μ : Mesh} (hμ : ValidMesh μ) {ps : List Cell}
    (hpos : ∀ p ∈ ps, p.1 ≤ mlen μ ∧ p.2 ≤ mlen μ) {j : Nat} (hj : j ≤ 4)
    (hstep : ∀ τ, IsPerm τ → MeshContains τ (rotMeshN j μ) →
      MeshContains τ (shade (rotMeshN j μ) (ps.map (rotCellN (mlen μ) j))))
    {σ : NSeq} (hσ : IsPerm σ) (h : MeshContains σ μ) : MeshContains σ (shade μ ps) := by
  have hval : ValidMesh (shade μ ps) := by
    refine ⟨hμ.1, fun c hc => ?_⟩
    rcases mem_union.mp hc with hc | hc
    · exact hμ.2 c hc
    · exact hpos c hc
  have h1 := rotN_contains j hμ hσ h
  have h2 := hstep _ (rotPermN_isPerm j hσ) h1
  have h3 := (shade_rotN_list j μ ps).contains h2
  have h4 := rotN_contains (4 - j) (rotMeshN_valid j hval) (rotPermN_isPerm j hσ) h3
  rw [rotMeshN_add, rotPermN_add, show j + (4 - j) = 4 by omega] at h4
  have e1 : rotPermN 4 σ = σ := rotate1_four hσ
  rw [e1] at h4
  exact (show MeshEq (rotMeshN 4 (shade μ ps)) (shade μ ps) from rotMesh_four hval).contains h4

/-- line 548-549 of meshpatt.py: the higher cell first -/
def swapPair (q : Cell × Cell) : Cell × Cell := if q.1.2 < q.2.2 then (q.2, q.1) else q
/-- line 556 -/
def rotPair (n : Nat) (q : Cell × Cell) : Cell × Cell := ((q.1.2, n - q.1.1), (q.2.2, n - q.2.1))
/-- the pair of cells at the start of round `j` -/
def pairN (n : Nat) : Nat → Cell × Cell → Cell × Cell
  | 0, q => q
  | k + 1, q => pairN n k (rotPair n (swapPair q))

theorem canSimulFrom_ok (n : Nat) : ∀ (k rot : Nat) (m : Mesh) (q1 q2 : Cell) (l : List Nat),
    canSimulFrom n k rot m q1 q2 = .ok l → l ≠ [] →
      ∃ j, j < k ∧ neSimul (rotMeshN j m) (swapPair (pairN n j (q1, q2))).1
        (swapPair (pairN n j (q1, q2))).2 = .ok true
  | 0, _, _, _, _, l, h, hl => by
    simp only [canSimulFrom, Except.ok.injEq] at h
    exact absurd h.symm hl
  | k + 1, rot, m, q1, q2, l, h, hl => by
    unfold canSimulFrom at h
    simp only at h
    have e1 : (if q1.2 < q2.2 then q2 else q1) = (swapPair (q1, q2)).1 := by
      unfold swapPair; split <;> rfl
    have e2 : (if q1.2 < q2.2 then q1 else q2) = (swapPair (q1, q2)).2 := by
      unfold swapPair; split <;> rfl
    rw [e1, e2] at h
    cases hb : neSimul m (swapPair (q1, q2)).1 (swapPair (q1, q2)).2 with
    | error e => rw [hb] at h; cases h
    | ok b =>
      rw [hb] at h
      simp only at h
      cases hr : canSimulFrom n k (rot + 1) (rotMesh m)
          ((swapPair (q1, q2)).1.2, n - (swapPair (q1, q2)).1.1)
          ((swapPair (q1, q2)).2.2, n - (swapPair (q1, q2)).2.1) with
      | error e => rw [hr] at h; cases h
      | ok r =>
        rw [hr] at h
        simp only [Except.ok.injEq] at h
        by_cases hbt : b = true
        · exact ⟨0, by omega, by rw [← hbt]; exact hb⟩
        · have hrne : r ≠ [] := by
            intro hre
            apply hl
            rw [← h, hre]
            simp [hbt]
          obtain ⟨j, hj, hjt⟩ := canSimulFrom_ok n k (rot + 1) (rotMesh m) _ _ r hr hrne
          exact ⟨j + 1, by omega, hjt⟩

/-- up to order, the pair of round `j` is the pair of rotated cells -/
theorem pairN_set (n : Nat) : ∀ (j : Nat) (q : Cell × Cell) (c : Cell),
    (c = (swapPair (pairN n j q)).1 ∨ c = (swapPair (pairN n j q)).2) ↔
      (c = rotCellN n j q.1 ∨ c = rotCellN n j q.2)
  | 0, q, c => by
    unfold swapPair pairN rotCellN
    split
    · exact Or.comm
    · exact Iff.rfl
  | j + 1, q, c => by
    rw [pairN, pairN_set n j (rotPair n (swapPair q)) c]
    unfold rotPair swapPair
    simp only [rotCellN]
    split
    · exact Or.comm
    · exact Iff.rfl

theorem neSimul_ok_true {m : Mesh} {p1 p2 : Cell} (h : neSimul m p1 p2 = .ok true) :
    p1.1 ≤ mlen m ∧ neSimulB m p1 p2 = true := by
  unfold neSimul at h
  split at h
  · cases h
  · split at h
    · cases h
    · injection h with h; exact ⟨by omega, h⟩

end Spec.C18
