import PermutaModel.Lemmas.C20Digits

/-! `json.loads (json.dumps d)` on the BiSC fragment (C20 model). -/
namespace Model.C20

def jNats (p : List Nat) : J := J.arr (p.map J.num)
def jPerms (v : List (List Nat)) : J := J.arr (v.map jNats)
def jMembers (d : Dataset) : List (Str × J) := d.map fun m => (natDigits m.1, jPerms m.2)
/-- the JSON value denoted by the text `dumps d` -/
def toJ (d : Dataset) : J := J.obj (jMembers d)

theorem skipWs_cons {c : Char} (h : isWs c = false) (cs : Str) : skipWs (c :: cs) = c :: cs := by
  simp [skipWs, h]

theorem skipWs_space (cs : Str) : skipWs (' ' :: cs) = skipWs cs := by
  simp [skipWs, isWs]

theorem skipWs_natDigits (n : Nat) (rest : Str) : skipWs (natDigits n ++ rest) = natDigits n ++ rest := by
  obtain ⟨c, cs, hc, hd⟩ := natDigits_head_dig n
  rw [hc]
  exact skipWs_cons (isDig_not_ws hd) _

theorem expect_cons (c : Char) (r : Str) : expect c (c :: r) = some r := by simp [expect]

theorem expect_ne {c d : Char} (h : d ≠ c) (r : Str) : expect c (d :: r) = none := by simp [expect, h]

theorem parseValue_natDigits (n f : Nat) (rest : Str) (h : NoDigitHead rest) :
    parseValue (f + 1) (natDigits n ++ rest) = some (J.num n, rest) := by
  by_cases hn : n = 0
  · subst hn
    rw [natDigits_zero]
    simp [parseValue]
  · obtain ⟨c, cs, hc, hd, h0⟩ := natDigits_head n hn
    have ht := takeDigits_natDigits_stop n h
    rw [hc] at ht ⊢
    obtain ⟨h1, h2, h3, h4, h5, h6, -, -, -⟩ := isDig_dispatch hd
    simp only [List.cons_append] at ht ⊢
    simp [parseValue, h0, h1, h2, h3, h4, h5, h6, hd, ht]

theorem noDigitHead_showNatsTail (ns : List Nat) (rest : Str) : NoDigitHead (showNatsTail ns ++ rest) := by
  cases ns <;> simp [showNatsTail, NoDigitHead] <;> decide

theorem parseElems_nats (ns : List Nat) : ∀ (n : Nat) (rest : Str) (f : Nat), ns.length + 2 ≤ f →
    parseElems f (natDigits n ++ (showNatsTail ns ++ rest)) = some ((n :: ns).map J.num, rest) := by
  induction ns with
  | nil =>
    intro n rest f hf
    obtain ⟨f, rfl⟩ : ∃ g, f = g + 2 := ⟨f - 2, by omega⟩
    rw [parseElems, parseValue_natDigits n f _ (noDigitHead_showNatsTail [] rest)]
    simp [showNatsTail, skipWs, isWs, expect]
  | cons m ms ih =>
    intro n rest f hf
    obtain ⟨f, rfl⟩ : ∃ g, f = g + 2 := ⟨f - 2, by omega⟩
    rw [parseElems, parseValue_natDigits n f _ (noDigitHead_showNatsTail (m :: ms) rest)]
    have hsk : skipWs (showNatsTail (m :: ms) ++ rest) = ',' :: ' ' :: (natDigits m ++ (showNatsTail ms ++ rest)) := by
      simp [showNatsTail, skipWs, isWs]
    simp only [hsk]
    rw [expect_ne (by decide), expect_cons]
    simp only []
    rw [skipWs_space, skipWs_natDigits]
    rw [ih m rest (f + 1) (by simp at hf; omega)]
    simp

theorem showNats_head (p : List Nat) : ∃ t, showNats p = '[' :: t := by
  cases p <;> simp [showNats]

theorem parseValue_nats (p : List Nat) (rest : Str) (f : Nat) (hf : p.length + 2 ≤ f) :
    parseValue f (showNats p ++ rest) = some (jNats p, rest) := by
  obtain ⟨f, rfl⟩ : ∃ g, f = g + 1 := ⟨f - 1, by omega⟩
  cases p with
  | nil => simp [showNats, parseValue, skipWs, isWs, expect, jNats]
  | cons n ns =>
    obtain ⟨c, cs, hc, hd⟩ := natDigits_head_dig n
    have hne : c ≠ ']' := by
      rcases (isDig_iff c).mp hd with h | h | h | h | h | h | h | h | h | h <;> subst h <;> decide
    have hsk : skipWs (natDigits n ++ (showNatsTail ns ++ rest)) = natDigits n ++ (showNatsTail ns ++ rest) :=
      skipWs_natDigits n _
    have hex : expect ']' (natDigits n ++ (showNatsTail ns ++ rest)) = none := by
      rw [hc]; exact expect_ne hne _
    simp only [showNats, List.cons_append, List.append_assoc]
    rw [parseValue]
    simp only [hsk, hex]
    rw [parseElems_nats ns n rest f (by simp at hf; omega)]
    simp [jNats]

def needPerms : List (List Nat) → Nat
  | [] => 0
  | p :: ps => p.length + 3 + needPerms ps

theorem noDigitHead_showPermsTail (ps : List (List Nat)) (rest : Str) : NoDigitHead (showPermsTail ps ++ rest) := by
  cases ps <;> simp [showPermsTail, NoDigitHead] <;> decide

theorem skipWs_showNats (p : List Nat) (rest : Str) : skipWs (showNats p ++ rest) = showNats p ++ rest := by
  obtain ⟨t, ht⟩ := showNats_head p
  rw [ht]
  exact skipWs_cons (by decide) _

theorem parseElems_perms (ps : List (List Nat)) : ∀ (p : List Nat) (rest : Str) (f : Nat),
    needPerms (p :: ps) + 1 ≤ f →
    parseElems f (showNats p ++ (showPermsTail ps ++ rest)) = some ((p :: ps).map jNats, rest) := by
  induction ps with
  | nil =>
    intro p rest f hf
    obtain ⟨f, rfl⟩ : ∃ g, f = g + 1 := ⟨f - 1, by omega⟩
    rw [parseElems, parseValue_nats p _ f (by simp [needPerms] at hf; omega)]
    simp [showPermsTail, skipWs, isWs, expect]
  | cons q qs ih =>
    intro p rest f hf
    obtain ⟨f, rfl⟩ : ∃ g, f = g + 1 := ⟨f - 1, by omega⟩
    rw [parseElems, parseValue_nats p _ f (by simp [needPerms] at hf; omega)]
    have hsk : skipWs (showPermsTail (q :: qs) ++ rest) = ',' :: ' ' :: (showNats q ++ (showPermsTail qs ++ rest)) := by
      simp [showPermsTail, skipWs, isWs]
    simp only [hsk]
    rw [expect_ne (by decide), expect_cons]
    simp only []
    rw [skipWs_space, skipWs_showNats]
    rw [ih q rest f (by simp [needPerms] at hf ⊢; omega)]
    simp

theorem showPerms_head (v : List (List Nat)) : ∃ t, showPerms v = '[' :: t := by
  cases v <;> simp [showPerms]

theorem parseValue_perms (v : List (List Nat)) (rest : Str) (f : Nat) (hf : needPerms v + 2 ≤ f) :
    parseValue f (showPerms v ++ rest) = some (jPerms v, rest) := by
  obtain ⟨f, rfl⟩ : ∃ g, f = g + 1 := ⟨f - 1, by omega⟩
  cases v with
  | nil => simp [showPerms, parseValue, skipWs, isWs, expect, jPerms]
  | cons p ps =>
    obtain ⟨t, ht⟩ := showNats_head p
    have hsk : skipWs (showNats p ++ (showPermsTail ps ++ rest)) = showNats p ++ (showPermsTail ps ++ rest) :=
      skipWs_showNats p _
    have hex : expect ']' (showNats p ++ (showPermsTail ps ++ rest)) = none := by
      rw [ht]; exact expect_ne (by decide) _
    simp only [showPerms, List.cons_append, List.append_assoc]
    rw [parseValue]
    simp only [hsk, hex]
    rw [parseElems_perms ps p rest f (by omega)]
    simp [jPerms]

theorem parseStrBody_digits (l : Str) (h : ∀ c ∈ l, isDig c = true) (r : Str) :
    parseStrBody (l ++ '"' :: r) = some (l, r) := by
  induction l with
  | nil => simp [parseStrBody]
  | cons c cs ih =>
    obtain ⟨h1, -, -, -, -, -, -, h8, h9⟩ := isDig_dispatch (h c (by simp))
    have := ih (fun d hd => h d (by simp [hd]))
    simp [parseStrBody, h1, h8, h9, this]

def needMembers : Dataset → Nat
  | [] => 0
  | m :: ms => needPerms m.2 + 3 + needMembers ms

theorem skipWs_showPerms (v : List (List Nat)) (rest : Str) : skipWs (showPerms v ++ rest) = showPerms v ++ rest := by
  obtain ⟨t, ht⟩ := showPerms_head v
  rw [ht]
  exact skipWs_cons (by decide) _

theorem noDigitHead_showMembersTail (ms : Dataset) (rest : Str) : NoDigitHead (showMembersTail ms ++ rest) := by
  cases ms <;> simp [showMembersTail, NoDigitHead] <;> decide

theorem parseMembers_dataset (ms : Dataset) : ∀ (m : Nat × List (List Nat)) (rest : Str) (f : Nat),
    needMembers (m :: ms) + 1 ≤ f →
    parseMembers f (showMember m ++ (showMembersTail ms ++ rest)) = some (jMembers (m :: ms), rest) := by
  induction ms with
  | nil =>
    intro m rest f hf
    obtain ⟨f, rfl⟩ : ∃ g, f = g + 1 := ⟨f - 1, by omega⟩
    simp only [showMember, List.cons_append, List.append_assoc]
    rw [parseMembers, expect_cons]
    simp only []
    rw [parseStrBody_digits _ (natDigits_all_dig m.1)]
    simp only []
    rw [skipWs_cons (by decide), expect_cons]
    simp only []
    rw [skipWs_space, skipWs_showPerms, parseValue_perms m.2 _ f (by simp [needMembers] at hf; omega)]
    simp [showMembersTail, skipWs, isWs, expect, jMembers]
  | cons m' ms ih =>
    intro m rest f hf
    obtain ⟨f, rfl⟩ : ∃ g, f = g + 1 := ⟨f - 1, by omega⟩
    simp only [showMember, List.cons_append, List.append_assoc]
    rw [parseMembers, expect_cons]
    simp only []
    rw [parseStrBody_digits _ (natDigits_all_dig m.1)]
    simp only []
    rw [skipWs_cons (by decide), expect_cons]
    simp only []
    rw [skipWs_space, skipWs_showPerms, parseValue_perms m.2 _ f (by simp [needMembers] at hf; omega)]
    have hsk : skipWs (showMembersTail (m' :: ms) ++ rest) =
        ',' :: ' ' :: (showMember m' ++ (showMembersTail ms ++ rest)) := by
      simp [showMembersTail, skipWs, isWs]
    simp only [hsk]
    rw [expect_ne (by decide), expect_cons]
    simp only []
    rw [skipWs_space]
    have hsm : skipWs (showMember m' ++ (showMembersTail ms ++ rest)) = showMember m' ++ (showMembersTail ms ++ rest) := by
      simp only [showMember, List.cons_append]
      exact skipWs_cons (by decide) _
    simp only [hsm]
    rw [ih m' rest f (by simp [needMembers] at hf ⊢; omega)]
    simp [jMembers]

theorem parseValue_dumps (d : Dataset) (rest : Str) (f : Nat) (hf : needMembers d + 2 ≤ f) :
    parseValue f (dumps d ++ rest) = some (toJ d, rest) := by
  obtain ⟨f, rfl⟩ : ∃ g, f = g + 1 := ⟨f - 1, by omega⟩
  cases d with
  | nil => simp [dumps, parseValue, skipWs, isWs, expect, toJ, jMembers]
  | cons m ms =>
    have hsm : skipWs (showMember m ++ (showMembersTail ms ++ rest)) = showMember m ++ (showMembersTail ms ++ rest) := by
      simp only [showMember, List.cons_append]
      exact skipWs_cons (by decide) _
    have hex : expect '}' (showMember m ++ (showMembersTail ms ++ rest)) = none := by
      simp only [showMember, List.cons_append]
      exact expect_ne (by decide) _
    simp only [dumps, List.cons_append, List.append_assoc]
    rw [parseValue]
    simp only [hsm, hex]
    rw [parseMembers_dataset ms m rest f (by omega)]
    simp [toJ]

/-! fuel: the text is longer than the fuel it needs -/

theorem length_showNatsTail (ns : List Nat) : ns.length + 1 ≤ (showNatsTail ns).length := by
  induction ns with
  | nil => simp [showNatsTail]
  | cons n ns ih => simp [showNatsTail]; omega

theorem length_showNats (p : List Nat) : p.length + 2 ≤ (showNats p).length := by
  cases p with
  | nil => simp [showNats]
  | cons n ns =>
    have := length_showNatsTail ns
    have h1 : 1 ≤ (natDigits n).length := by
      have := natDigits_ne_nil n
      cases h : natDigits n with
      | nil => exact absurd h this
      | cons _ _ => simp
    simp [showNats]; omega

theorem length_showPermsTail (ps : List (List Nat)) : needPerms ps + 1 ≤ (showPermsTail ps).length := by
  induction ps with
  | nil => simp [showPermsTail, needPerms]
  | cons p ps ih =>
    have := length_showNats p
    simp [showPermsTail, needPerms]; omega

theorem length_showPerms (v : List (List Nat)) : needPerms v + 1 ≤ (showPerms v).length := by
  cases v with
  | nil => simp [showPerms, needPerms]
  | cons p ps =>
    have := length_showNats p
    have := length_showPermsTail ps
    simp [showPerms, needPerms]; omega

theorem length_showMember (m : Nat × List (List Nat)) : needPerms m.2 + 3 ≤ (showMember m).length := by
  have := length_showPerms m.2
  simp [showMember]; omega

theorem length_showMembersTail (ms : Dataset) : needMembers ms ≤ (showMembersTail ms).length := by
  induction ms with
  | nil => simp [needMembers]
  | cons m ms ih =>
    have := length_showMember m
    simp [showMembersTail, needMembers]; omega

theorem needMembers_le_length (d : Dataset) : needMembers d ≤ (dumps d).length := by
  cases d with
  | nil => simp [needMembers]
  | cons m ms =>
    have := length_showMember m
    have := length_showMembersTail ms
    simp [dumps, needMembers]; omega

/-- `json.loads(json.dumps(d))` is the value `d` denotes -/
theorem loads_dumps (d : Dataset) : loads (dumps d) = some (toJ d) := by
  have hsk : skipWs (dumps d) = dumps d := by
    cases d <;> simp [dumps, skipWs, isWs]
  have hp := parseValue_dumps d [] (2 * (dumps d).length + 2) (by have := needMembers_le_length d; omega)
  rw [List.append_nil] at hp
  simp [loads, hsk, hp, skipWs]

end Model.C20
