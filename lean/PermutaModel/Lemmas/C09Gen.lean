import PermutaModel.Lemmas.C09Rank

/-! Helper lemmas for C09: the levels of the `(length, lex)` enumeration, `first`, the decomposition of a rank. -/
open Nat

namespace C09

theorem mem_permsLex (n : Nat) (σ : NSeq) : σ ∈ Model.permsLex n ↔ IsPerm σ ∧ σ.length = n := by
  rw [Model.permsLex, mem_permsAux n _ σ List.nodup_range]
  constructor
  · rintro ⟨h1, h2, h3⟩
    exact ⟨⟨h2, fun x hx => by rw [h1]; exact List.mem_range.mp (h3 x hx)⟩, h1⟩
  · rintro ⟨⟨h2, h3⟩, h1⟩
    exact ⟨h1, h2, fun x hx => by rw [List.mem_range, ← h1]; exact h3 x hx⟩

theorem length_permsLex (n : Nat) : (Model.permsLex n).length = n ! :=
  length_permsAux n _ (by simp)

theorem sorted_permsLex (n : Nat) : (Model.permsLex n).Pairwise (fun a b => lexLt a b = true) :=
  sorted_permsAux n _ List.pairwise_lt_range

/-- the first arrangement is the candidate list itself -/
theorem head_permsAux : ∀ (t : Nat) (l : List Nat), l.Nodup → l.length = t → (Model.permsAux t l)[0]? = some l := by
  intro t
  induction t with
  | zero =>
    intro l _ hl
    rw [List.eq_nil_of_length_eq_zero hl]; simp [Model.permsAux]
  | succ t ih =>
    intro l hnd hl
    match l, hnd, hl with
    | a :: r, hnd, hl =>
      have := getElem?_permsAux_succ t (a :: r) hnd hl 0 (by simp) 0 (Nat.factorial_pos t)
      simp only [Nat.zero_mul, Nat.zero_add, List.eraseIdx_cons_zero, List.getElem_cons_zero] at this
      rw [this, ih r (List.nodup_cons.mp hnd).2 (by simpa using hl)]
      rfl

theorem head_permsLex (n : Nat) : (Model.permsLex n)[0]? = some (Model.identity n) :=
  head_permsAux n _ List.nodup_range (by simp)

/-! ### levels -/

/-- `count` consecutive levels starting at length `n` -/
def levelsFrom (n count : Nat) : List NSeq := (List.range' n count).flatMap Model.permsLex

theorem levelsFrom_succ (n c : Nat) : levelsFrom n (c + 1) = Model.permsLex n ++ levelsFrom (n + 1) c := by
  simp [levelsFrom, List.range'_succ]

theorem permsUpTo_eq_levels (N : Nat) : Model.permsUpTo N = levelsFrom 0 (N + 1) := by
  simp [Model.permsUpTo, levelsFrom, List.range_eq_range']

theorem permsUpTo_succ (N : Nat) : Model.permsUpTo (N + 1) = Model.permsUpTo N ++ Model.permsLex (N + 1) := by
  simp [Model.permsUpTo, List.range_succ]

theorem length_permsUpTo (N : Nat) : (Model.permsUpTo N).length = offset (N + 1) := by
  induction N with
  | zero => simp [Model.permsUpTo, offset, length_permsLex]
  | succ N ih => rw [permsUpTo_succ, List.length_append, ih, length_permsLex]; rfl

theorem firstLoop_eq : ∀ (c r n : Nat), r ≤ (levelsFrom n c).length →
    Model.firstLoop r n = (levelsFrom n c).take r := by
  intro c
  induction c with
  | zero =>
    intro r n h
    have : r = 0 := by simpa [levelsFrom] using h
    subst this
    rw [Model.firstLoop]; simp
  | succ c ih =>
    intro r n h
    rw [levelsFrom_succ] at h ⊢
    rw [Model.firstLoop]
    have hpos : 0 < (Model.permsLex n).length := by rw [length_permsLex]; exact Nat.factorial_pos n
    by_cases hlt : (Model.permsLex n).length < r
    · rw [dif_pos ⟨hpos, hlt⟩, ih (r - (Model.permsLex n).length) (n + 1)
        (by rw [List.length_append] at h; omega)]
      rw [List.take_append, List.take_of_length_le (le_of_lt hlt)]
    · rw [dif_neg (fun hh => hlt hh.2)]
      rw [List.take_append_of_le_length (by omega)]

theorem offset_lt (n : Nat) : n ≤ offset n := by
  induction n with
  | zero => simp [offset]
  | succ n ih => rw [offset]; have := Nat.factorial_pos n; omega

/-- a rank determines its level and its position in the level -/
theorem offset_decomp_unique (n m i j : Nat) (hi : i < n !) (hj : j < m !)
    (h : offset n + i = offset m + j) : n = m ∧ i = j := by
  rcases Nat.lt_trichotomy n m with hlt | heq | hgt
  · have := offset_le (n + 1) m hlt
    rw [offset] at this; omega
  · subst heq; exact ⟨rfl, by omega⟩
  · have := offset_le (m + 1) n hgt
    rw [offset] at this; omega

/-- position `offset n + i` of the `(length, lex)` enumeration is position `i` of level `n` -/
theorem getElem?_permsUpTo (N n i : Nat) (hn : n ≤ N) (hi : i < n !) :
    (Model.permsUpTo N)[offset n + i]? = (Model.permsLex n)[i]? := by
  induction N with
  | zero =>
    have : n = 0 := by omega
    subst this
    simp [Model.permsUpTo, offset]
  | succ N ih =>
    rw [permsUpTo_succ]
    by_cases hle : n ≤ N
    · rw [List.getElem?_append_left, ih hle]
      rw [length_permsUpTo]
      have := offset_le (n + 1) (N + 1) (by omega)
      rw [offset] at this; omega
    · have : n = N + 1 := by omega
      subst this
      rw [List.getElem?_append_right (by rw [length_permsUpTo]; omega), length_permsUpTo]
      congr 1; omega

/-- every permutation is some `(Model.permsLex n)[i]` -/
theorem exists_index (σ : NSeq) (h : IsPerm σ) : ∃ i, ∃ hi : i < σ.length !,
    σ = (Model.permsLex σ.length)[i]'(by rw [length_permsLex]; exact hi) := by
  obtain ⟨i, hi, e⟩ := List.getElem_of_mem ((mem_permsLex σ.length σ).mpr ⟨h, rfl⟩)
  exact ⟨i, by rwa [length_permsLex] at hi, e.symm⟩

end C09
