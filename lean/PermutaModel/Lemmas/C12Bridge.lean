import PermutaModel.Lemmas.C12Knuth
import PermutaModel.Lemmas.PermBasic
import PermutaModel.Lemmas.SubLen
/-! C12: bridges between the list-level statements (sublists, `Pairwise`) and the property's
    vocabulary (`IsPerm`, `Contains`, identity permutation). -/
open Model Spec List

namespace C12

/-! ### sublists are picked by strictly increasing index tuples -/

theorem map_getD_range (σ : List Nat) : (List.range σ.length).map (fun i => σ.getD i 0) = σ := by
  apply List.ext_getElem (by simp)
  intro i h1 h2
  simp [List.getD_eq_getElem?_getD, List.getElem?_eq_getElem (by simpa using h1 : i < σ.length)]

theorem sublist_of_pick {σ c : List Nat} (hinc : StrictInc c) (hr : ∀ i ∈ c, i < σ.length) :
    c.map (fun i => σ.getD i 0) <+ σ := by
  have h := ((sublist_range_iff σ.length c).mpr ⟨hinc, hr⟩).map (fun i => σ.getD i 0)
  rwa [map_getD_range] at h

theorem exists_pick_of_sublist {s σ : List Nat} (h : s <+ σ) :
    ∃ c, StrictInc c ∧ (∀ i ∈ c, i < σ.length) ∧ s = c.map (fun i => σ.getD i 0) := by
  induction h with
  | slnil => exact ⟨[], by simp [StrictInc], by simp, rfl⟩
  | cons a _ ih =>
    obtain ⟨c, h1, h2, h3⟩ := ih
    refine ⟨c.map (· + 1), ?_, ?_, ?_⟩
    · unfold StrictInc at *
      rw [pairwise_map]; exact h1.imp (by intro a b h; omega)
    · intro i hi
      obtain ⟨j, hj, rfl⟩ := mem_map.mp hi
      simp only [length_cons]; have := h2 j hj; omega
    · rw [h3, map_map]; apply map_congr_left; intro i _; simp
  | cons_cons a _ ih =>
    obtain ⟨c, h1, h2, h3⟩ := ih
    refine ⟨0 :: c.map (· + 1), ?_, ?_, ?_⟩
    · unfold StrictInc at *
      rw [pairwise_cons, pairwise_map]
      refine ⟨?_, h1.imp (by intro a b h; omega)⟩
      intro i hi
      obtain ⟨j, _, rfl⟩ := mem_map.mp hi; omega
    · intro i hi
      rcases mem_cons.mp hi with rfl | hi
      · simp
      · obtain ⟨j, hj, rfl⟩ := mem_map.mp hi
        simp only [length_cons]; have := h2 j hj; omega
    · rw [h3]; simp only [map_cons, map_map, getD_cons_zero]
      congr 1

/-! ### classical containment of a length-3 pattern -/

/-- `[a, b, c]` is order-isomorphic to the pattern `π` of length 3 -/
def Rel3 (π : NSeq) (a b c : Nat) : Prop :=
  ∀ x y, x < 3 → y < 3 → (π.getD x 0 < π.getD y 0 ↔ [a, b, c].getD x 0 < [a, b, c].getD y 0)

theorem contains3_iff (π σ : NSeq) (hπ : π.length = 3) : Contains σ π ↔ Has3 (Rel3 π) σ := by
  constructor
  · rintro ⟨c, hlen, hinc, hrng, hiso⟩
    rw [hπ] at hlen
    match c, hlen with
    | [i, j, k], _ =>
      refine ⟨σ.getD i 0, σ.getD j 0, σ.getD k 0, sublist_of_pick hinc hrng, ?_⟩
      intro x y hx hy
      have := hiso x y (by omega) (by omega)
      rw [this]
      have hx' : x = 0 ∨ x = 1 ∨ x = 2 := by omega
      have hy' : y = 0 ∨ y = 1 ∨ y = 2 := by omega
      rcases hx' with rfl | rfl | rfl <;> rcases hy' with rfl | rfl | rfl <;> simp
  · rintro ⟨a, b, c, hs, hrel⟩
    obtain ⟨idx, hinc, hrng, he⟩ := exists_pick_of_sublist hs
    have hl : idx.length = 3 := by
      have := congrArg List.length he; simpa using this.symm
    match idx, hl with
    | [i, j, k], _ =>
      simp only [map_cons, map_nil, cons.injEq, and_true] at he
      obtain ⟨rfl, rfl, rfl⟩ := he
      refine ⟨[i, j, k], by simp [hπ], hinc, hrng, ?_⟩
      intro x y hx hy
      rw [hπ] at hx hy
      rw [hrel x y hx hy]
      have hx' : x = 0 ∨ x = 1 ∨ x = 2 := by omega
      have hy' : y = 0 ∨ y = 1 ∨ y = 2 := by omega
      rcases hx' with rfl | rfl | rfl <;> rcases hy' with rfl | rfl | rfl <;> simp

theorem rel3_of {π : NSeq} {a b c : Nat} (p0 p1 p2 : Nat) (hπ : π = [p0, p1, p2])
    (h01 : p0 < p1 ↔ a < b) (h10 : p1 < p0 ↔ b < a) (h02 : p0 < p2 ↔ a < c) (h20 : p2 < p0 ↔ c < a)
    (h12 : p1 < p2 ↔ b < c) (h21 : p2 < p1 ↔ c < b) : Rel3 π a b c := by
  subst hπ
  intro x y hx hy
  have hx' : x = 0 ∨ x = 1 ∨ x = 2 := by omega
  have hy' : y = 0 ∨ y = 1 ∨ y = 2 := by omega
  rcases hx' with rfl | rfl | rfl <;> rcases hy' with rfl | rfl | rfl <;> simp <;> assumption

theorem rel3_231 (a b c : Nat) : Rel3 [1, 2, 0] a b c ↔ c < a ∧ a < b := by
  constructor
  · intro h
    have h1 := h 2 0 (by omega) (by omega)
    have h2 := h 0 1 (by omega) (by omega)
    simp at h1 h2; exact ⟨h1, h2⟩
  · rintro ⟨h1, h2⟩
    apply rel3_of 1 2 0 rfl <;> constructor <;> intro <;> omega

theorem rel3_321 (a b c : Nat) : Rel3 [2, 1, 0] a b c ↔ c < b ∧ b < a := by
  constructor
  · intro h
    have h1 := h 2 1 (by omega) (by omega)
    have h2 := h 1 0 (by omega) (by omega)
    simp at h1 h2; exact ⟨h1, h2⟩
  · rintro ⟨h1, h2⟩
    apply rel3_of 2 1 0 rfl <;> constructor <;> intro <;> omega

theorem rel3_123 (a b c : Nat) : Rel3 [0, 1, 2] a b c ↔ a < b ∧ b < c := by
  constructor
  · intro h
    have h1 := h 0 1 (by omega) (by omega)
    have h2 := h 1 2 (by omega) (by omega)
    simp at h1 h2; exact ⟨h1, h2⟩
  · rintro ⟨h1, h2⟩
    apply rel3_of 0 1 2 rfl <;> constructor <;> intro <;> omega

theorem rel3_132 (a b c : Nat) : Rel3 [0, 2, 1] a b c ↔ a < c ∧ c < b := by
  constructor
  · intro h
    have h1 := h 0 2 (by omega) (by omega)
    have h2 := h 2 1 (by omega) (by omega)
    simp at h1 h2; exact ⟨h1, h2⟩
  · rintro ⟨h1, h2⟩
    apply rel3_of 0 2 1 rfl <;> constructor <;> intro <;> omega

theorem has3_congr {r r' : Nat → Nat → Nat → Prop} (h : ∀ a b c, r a b c ↔ r' a b c) (l : List Nat) :
    Has3 r l ↔ Has3 r' l := by
  constructor <;> rintro ⟨a, b, c, hs, hr⟩
  · exact ⟨a, b, c, hs, (h a b c).mp hr⟩
  · exact ⟨a, b, c, hs, (h a b c).mpr hr⟩

theorem contains_231_iff (σ : NSeq) : Contains σ [1, 2, 0] ↔ Has231 σ :=
  (contains3_iff _ σ rfl).trans (has3_congr rel3_231 σ)

theorem contains_321_iff (σ : NSeq) : Contains σ [2, 1, 0] ↔ Has3 (fun a b c => c < b ∧ b < a) σ :=
  (contains3_iff _ σ rfl).trans (has3_congr rel3_321 σ)

theorem contains_123_iff (σ : NSeq) : Contains σ [0, 1, 2] ↔ Has3 (fun a b c => a < b ∧ b < c) σ :=
  (contains3_iff _ σ rfl).trans (has3_congr rel3_123 σ)

theorem contains_132_iff (σ : NSeq) : Contains σ [0, 2, 1] ↔ Has3 (fun a b c => a < c ∧ c < b) σ :=
  (contains3_iff _ σ rfl).trans (has3_congr rel3_132 σ)

/-- for distinct entries: "last entry below the two others" = 231 or 321 -/
theorem hasLow3_iff (σ : NSeq) (hnd : σ.Nodup) :
    HasLow3 σ ↔ Contains σ [1, 2, 0] ∨ Contains σ [2, 1, 0] := by
  rw [contains_231_iff, contains_321_iff]
  constructor
  · rintro ⟨a, b, c, hs, h1, h2⟩
    have hne : a ≠ b := by
      intro e; subst e
      have := hnd.sublist hs
      simp at this
    by_cases hab : a < b
    · exact Or.inl ⟨a, b, c, hs, h1, hab⟩
    · exact Or.inr ⟨a, b, c, hs, h2, by omega⟩
  · rintro (⟨a, b, c, hs, h1, h2⟩ | ⟨a, b, c, hs, h1, h2⟩)
    · exact ⟨a, b, c, hs, h1, by omega⟩
    · exact ⟨a, b, c, hs, by omega, h1⟩

/-! ### permutations -/

theorem isPerm_of_perm {l l' : List Nat} (p : l' ~ l) (h : IsPerm l) : IsPerm l' :=
  ⟨p.nodup_iff.mpr h.1, fun x hx => by rw [p.length_eq]; exact h.2 x (p.mem_iff.mp hx)⟩

theorem isPerm_perm_range {l : List Nat} (h : IsPerm l) : l ~ List.range l.length := by
  rw [perm_ext_iff_of_nodup h.1 nodup_range]
  intro a
  rw [mem_range]
  constructor
  · exact h.2 a
  · intro ha
    obtain ⟨i, hi, rfl⟩ := h.surj ha
    rw [List.getD_eq_getElem?_getD, List.getElem?_eq_getElem hi]
    exact getElem_mem hi

/-- a sorted permutation is the identity -/
theorem eq_range_of_sorted {l : List Nat} (h : IsPerm l) (hs : l.Pairwise (· < ·)) :
    l = List.range l.length :=
  (isPerm_perm_range h).eq_of_pairwise (le := (· < ·)) (fun a b _ _ h1 h2 => by omega) hs pairwise_lt_range

theorem isIncreasing_iff (p : NSeq) : isIncreasing p = true ↔ p = List.range p.length := by
  simp [isIncreasing]

theorem isIncreasing_iff_sorted {l : List Nat} (h : IsPerm l) :
    isIncreasing l = true ↔ l.Pairwise (· < ·) := by
  rw [isIncreasing_iff]
  constructor
  · intro e; rw [e]; exact pairwise_lt_range
  · exact eq_range_of_sorted h

end C12
