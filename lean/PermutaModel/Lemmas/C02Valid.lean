import PermutaModel.Lemmas.C02Class

/-! C02 helpers, part 5: `acceptable`, `validLoop`, `validInsertions` compute the intersection over
    the window of the re-indexed spot lists. -/
open List Model Model.C02

namespace C02L
open C10L

theorem nodup_eraseDups : ∀ (n : Nat) (l : List Nat), l.length ≤ n → l.eraseDups.Nodup
  | _, [], _ => by simp
  | 0, _ :: _, h => by simp at h
  | n+1, a :: as, h => by
    rw [List.eraseDups_cons, List.nodup_cons]
    refine ⟨?_, nodup_eraseDups n _ ?_⟩
    · intro hm
      have := List.mem_eraseDups.mp hm
      simp at this
    · have := List.length_filter_le (fun b => !b == a) as
      simp only [List.length_cons] at h; omega

/-- line 164-165: `v` is acceptable iff its re-indexed value is a spot -/
theorem mem_acceptable (spots : List Nat) (t v : Nat) :
    v ∈ acceptable spots t ↔ shiftVal v t ∈ spots := by
  unfold acceptable shiftVal
  simp only [List.mem_append, List.mem_filter, List.mem_map, decide_eq_true_eq]
  constructor
  · rintro (⟨h1, h2⟩ | ⟨k, ⟨hk1, hk2⟩, rfl⟩)
    · simp [h2, h1]
    · have : ¬ k + 1 ≤ t := by omega
      simpa [this] using hk1
  · intro h
    by_cases hv : v ≤ t
    · left; simpa [hv] using h
    · right
      simp only [hv, if_false] at h
      exact ⟨v - 1, ⟨h, by omega⟩, by omega⟩

theorem lookup_of_mem_keys {l : Level} {ρ : NSeq} (h : ρ ∈ l.keys) :
    ∃ e ∈ l, e.1 = ρ ∧ l.lookup ρ = some e.2 := by
  unfold Level.keys at h
  obtain ⟨e0, he0, rfl⟩ := List.mem_map.mp h
  unfold Level.lookup
  cases hf : l.find? (fun e => e.1 == e0.1) with
  | none =>
    have := List.find?_eq_none.mp hf e0 he0
    simp at this
  | some e =>
    have h1 := List.find?_some hf
    exact ⟨e, List.mem_of_find?_eq_some hf, by simpa using h1, rfl⟩

/-- the loop of `valid_insertions` over the positions `is`: given that every lookup succeeds and that
    membership in the `acceptable` list at position `i` means `Q i`, the result is (a duplicate-free
    list of) the values of `res` satisfying `Q i` for every `i` of `is` -/
theorem validLoop_spec (P : Level) (π : NSeq) (Q : Nat → Nat → Prop) :
    ∀ (is : List Nat) (res : Option (List Nat)),
    (∀ i ∈ is, ∃ spots, P.lookup (removeAt π i) = some (some spots) ∧
        ∀ v, v ∈ acceptable spots (π.getD i 0) ↔ Q i v) →
    (∀ r, res = some r → r.Nodup) →
    ∃ out, validLoop P π is res = .ok out ∧
      (match out with
       | none => res = none ∧ is = []
       | some r => r.Nodup ∧ ∀ v, v ∈ r ↔ (∀ r0, res = some r0 → v ∈ r0) ∧ ∀ i ∈ is, Q i v)
  | [], res, _, hr => by
    refine ⟨res, rfl, ?_⟩
    cases res with
    | none => exact ⟨rfl, rfl⟩
    | some r => exact ⟨hr r rfl, fun v => by simp⟩
  | i :: is, res, hl, hr => by
    obtain ⟨spots, hlk, hacc⟩ := hl i (by simp)
    have hl' : ∀ j ∈ is, ∃ spots, P.lookup (removeAt π j) = some (some spots) ∧
        ∀ v, v ∈ acceptable spots (π.getD j 0) ↔ Q j v := fun j hj => hl j (by simp [hj])
    cases res with
    | none =>
      simp only [validLoop, hlk]
      by_cases he : ((acceptable spots (π.getD i 0)).eraseDups).isEmpty
      · simp only [he, if_true]
        refine ⟨some [], rfl, by simp, fun v => ?_⟩
        have he' : (acceptable spots (π.getD i 0)).eraseDups = [] := by simpa using he
        have hno : ¬ Q i v := by
          rw [← hacc v, ← List.mem_eraseDups, he']; simp
        simp [hno]
      · simp only [he]
        obtain ⟨out, ho, hspec⟩ := validLoop_spec P π Q is
          (some (acceptable spots (π.getD i 0)).eraseDups) hl'
          (fun r hr' => by
            have : r = (acceptable spots (π.getD i 0)).eraseDups := by simpa using hr'.symm
            subst this; exact nodup_eraseDups _ _ (Nat.le_refl _))
        refine ⟨out, by simpa using ho, ?_⟩
        cases out with
        | none => simp at hspec
        | some r =>
          refine ⟨hspec.1, fun v => ?_⟩
          rw [hspec.2 v]
          simp only [Option.some.injEq, forall_eq', List.mem_eraseDups, hacc v, List.mem_cons,
            forall_eq_or_imp, reduceCtorEq, false_imp_iff, implies_true, true_and]
    | some r0 =>
      have hnd := hr r0 rfl
      simp only [validLoop, hlk]
      by_cases he : (r0.filter fun k => (acceptable spots (π.getD i 0)).contains k).isEmpty
      · simp only [he, if_true]
        refine ⟨some [], rfl, by simp, fun v => ?_⟩
        have he' : (r0.filter fun k => (acceptable spots (π.getD i 0)).contains k) = [] := by
          simpa using he
        have hno : ¬ (v ∈ r0 ∧ Q i v) := by
          rintro ⟨h1, h2⟩
          have : v ∈ (r0.filter fun k => (acceptable spots (π.getD i 0)).contains k) :=
            List.mem_filter.mpr ⟨h1, by simpa using (hacc v).mpr h2⟩
          rw [he'] at this; simp at this
        simp only [List.not_mem_nil, Option.some.injEq, forall_eq', List.mem_cons, forall_eq_or_imp,
          false_iff]
        tauto
      · simp only [he]
        obtain ⟨out, ho, hspec⟩ := validLoop_spec P π Q is
          (some (r0.filter fun k => (acceptable spots (π.getD i 0)).contains k)) hl'
          (fun r hr' => by
            have : r = (r0.filter fun k => (acceptable spots (π.getD i 0)).contains k) := by
              simpa using hr'.symm
            subst this; exact hnd.filter _)
        refine ⟨out, by simpa using ho, ?_⟩
        cases out with
        | none => simp at hspec
        | some r =>
          refine ⟨hspec.1, fun v => ?_⟩
          rw [hspec.2 v]
          simp only [Option.some.injEq, forall_eq', List.mem_filter, List.contains_iff_mem, hacc v,
            List.mem_cons, forall_eq_or_imp]
          tauto

/-- `valid_insertions(perm)`: a duplicate-free list of the values `v ≤ n` with `Q i v` for every
    window position `i` -/
theorem validInsertions_spec (P : Level) (m : Nat) (π : NSeq) (Q : Nat → Nat → Prop)
    (hQ : ∀ i v, Q i v → v ≤ π.length)
    (hl : ∀ i, π.length - m ≤ i → i < π.length → ∃ spots, P.lookup (removeAt π i) = some (some spots) ∧
        ∀ v, v ∈ acceptable spots (π.getD i 0) ↔ Q i v) :
    ∃ vals, validInsertions P m π = .ok vals ∧ vals.Nodup ∧
      ∀ v, v ∈ vals ↔ v ≤ π.length ∧ ∀ i, π.length - m ≤ i → i < π.length → Q i v := by
  have hmem : ∀ i, i ∈ List.range' (π.length - m) (π.length - (π.length - m)) ↔
      π.length - m ≤ i ∧ i < π.length := by
    intro i; rw [List.mem_range'_1]; omega
  obtain ⟨out, ho, hspec⟩ := validLoop_spec P π Q
    (List.range' (π.length - m) (π.length - (π.length - m))) none
    (fun i hi => hl i ((hmem i).mp hi).1 ((hmem i).mp hi).2) (by simp)
  unfold validInsertions
  rw [ho]
  cases out with
  | none =>
    refine ⟨List.range (π.length + 1), rfl, List.nodup_range, fun v => ?_⟩
    have hnil := hspec.2
    have hnone : ∀ i, π.length - m ≤ i → i < π.length → False := by
      intro i h1 h2
      have := (hmem i).mpr ⟨h1, h2⟩
      rw [hnil] at this; simp at this
    rw [List.mem_range]
    constructor
    · intro h; exact ⟨by omega, fun i h1 h2 => (hnone i h1 h2).elim⟩
    · intro h; omega
  | some r =>
    refine ⟨r, rfl, hspec.1, fun v => ?_⟩
    rw [hspec.2 v]
    simp only [reduceCtorEq, false_imp_iff, implies_true, true_and]
    constructor
    · intro h
      have hall : ∀ i, π.length - m ≤ i → i < π.length → Q i v :=
        fun i h1 h2 => h i ((hmem i).mpr ⟨h1, h2⟩)
      refine ⟨?_, hall⟩
      -- the window is non-empty here (otherwise the loop returns `none`)
      by_cases hw : π.length - m < π.length
      · exact hQ _ _ (hall (π.length - m) (Nat.le_refl _) hw)
      · have hlen : π.length - (π.length - m) = 0 := by omega
        rw [hlen] at ho
        simp [validLoop] at ho
    · intro h i hi
      exact h.2 i ((hmem i).mp hi).1 ((hmem i).mp hi).2

end C02L
