import PermutaModel.Lemmas.C12Bridge
/-! C12: repeated passes.  After one pass the maximum is in place, so `|σ|` passes sort every
    permutation; the counting loop returns the least number of passes. -/
open Model Spec List

namespace C12

theorem stackSort_length (l : List Nat) : (stackSort l).length = l.length := (stackSort_perm l).length_eq

/-- a maximum at the end stays at the end -/
theorem stackSort_append_max (τ : List Nat) (m : Nat) (h : ∀ x ∈ τ, x < m) :
    stackSort (τ ++ [m]) = stackSort τ ++ [m] := by
  rw [stackSort_eq_stackPass, stackSort_eq_stackPass, stackPass_split τ [] m h (by simp)]
  simp [stackPass, stackRun]

theorem stackSort_range (n : Nat) : stackSort (List.range n) = List.range n := by
  induction n with
  | zero => simp [stackSort_nil]
  | succ n ih =>
    rw [range_succ, stackSort_append_max _ _ (fun x hx => mem_range.mp hx), ih]

theorem isPerm_stackSort {σ : List Nat} (h : IsPerm σ) : IsPerm (stackSort σ) :=
  isPerm_of_perm (stackSort_perm σ) h

/-- one pass puts the maximum of a permutation of length `n+1` at the end, in front of it a
    permutation of length `n` -/
theorem stackSort_last {σ : List Nat} {n : Nat} (h : IsPerm σ) (hn : σ.length = n + 1) :
    ∃ τ, IsPerm τ ∧ τ.length = n ∧ stackSort σ = τ ++ [n] := by
  have hne : σ ≠ [] := by intro e; subst e; simp at hn
  obtain ⟨hd, hL, hR⟩ := maxPos_spec σ hne
  generalize take (maxPos σ).1 σ = L at *
  generalize drop ((maxPos σ).1 + 1) σ = R at *
  generalize (maxPos σ).2 = m at *
  have hnd := h.1
  rw [hd] at hnd
  have hmR : m ∉ R := (nodup_cons.mp (nodup_append.mp hnd).2.1).1
  have hR' : ∀ x ∈ R, x < m := by
    intro z hz
    have h1 := hR z hz
    have h2 : z ≠ m := fun e => hmR (e ▸ hz)
    omega
  -- the maximum of a permutation of length n+1 is n
  have hm : m = n := by
    have h1 : m < n + 1 := by rw [← hn]; exact h.2 m (by rw [hd]; simp)
    obtain ⟨i, hi, hv⟩ := h.surj (show n < σ.length by omega)
    have hmem : n ∈ σ := by
      rw [← hv, List.getD_eq_getElem?_getD, List.getElem?_eq_getElem hi]; exact getElem_mem hi
    rw [hd] at hmem
    rcases mem_append.mp hmem with hm | hm
    · have := hL n hm; omega
    · rcases mem_cons.mp hm with hm | hm
      · exact hm.symm
      · have := hR' n hm; omega
  subst hm
  have hp : stackSort L ++ stackSort R ~ L ++ R := (stackSort_perm L).append (stackSort_perm R)
  have hlen : (L ++ R).length = m := by
    have := congrArg List.length hd
    simp only [length_append, length_cons] at this ⊢; omega
  refine ⟨stackSort L ++ stackSort R, ⟨?_, ?_⟩, by rw [hp.length_eq, hlen], ?_⟩
  · rw [hp.nodup_iff]
    have := (perm_middle (a := m) (l₁ := L) (l₂ := R)).nodup_iff.mp hnd
    exact (nodup_cons.mp this).2
  · intro x hx
    rw [hp.length_eq, hlen]
    rcases mem_append.mp (hp.mem_iff.mp hx) with hx | hx
    · exact hL x hx
    · exact hR' x hx
  · rw [stackSort_eq_stackPass, stackSort_eq_stackPass, stackSort_eq_stackPass]
    conv => lhs; rw [hd]
    exact stackPass_split L R m hL hR

theorem passes_stackSort_isPerm {σ : List Nat} (h : IsPerm σ) : ∀ k, IsPerm (passes stackSort k σ) ∧
    (passes stackSort k σ).length = σ.length := by
  intro k
  induction k generalizing σ with
  | zero => exact ⟨h, rfl⟩
  | succ k ih =>
    have := ih (isPerm_stackSort h)
    simp only [passes]
    exact ⟨this.1, by rw [this.2, stackSort_length]⟩

theorem passes_stackSort_append_max {τ : List Nat} (h : IsPerm τ) :
    ∀ k, passes stackSort k (τ ++ [τ.length]) = passes stackSort k τ ++ [τ.length] := by
  intro k
  induction k generalizing τ with
  | zero => rfl
  | succ k ih =>
    simp only [passes]
    rw [stackSort_append_max _ _ h.2]
    have := ih (isPerm_stackSort h)
    rw [stackSort_length] at this
    exact this

/-- **`|σ|` passes through a stack sort every permutation** -/
theorem passes_stackSort_sorts : ∀ (n : Nat) (σ : List Nat), IsPerm σ → σ.length = n →
    passes stackSort n σ = List.range n
  | 0, σ, _, hn => by
    have : σ = [] := eq_nil_of_length_eq_zero hn
    subst this; rfl
  | n + 1, σ, h, hn => by
    obtain ⟨τ, hτ, hlen, he⟩ := stackSort_last h hn
    simp only [passes]
    rw [he, ← hlen, passes_stackSort_append_max hτ, hlen, passes_stackSort_sorts n τ hτ hlen, range_succ]

/-! ### the counting loop -/

theorem countGo_spec (step : List Nat → List Nat) (hstep : ∀ l, (step l).length = l.length) :
    ∀ (fuel : Nat) (l : List Nat) (k : Nat), (∃ j, j ≤ fuel ∧ passes step j l = List.range l.length) →
    ∃ j, countGo step fuel l k = some (k + j) ∧ passes step j l = List.range l.length ∧
      ∀ i, i < j → passes step i l ≠ List.range l.length := by
  intro fuel
  induction fuel with
  | zero =>
    rintro l k ⟨j, hj, he⟩
    have : j = 0 := by omega
    subst this
    simp only [passes] at he
    exact ⟨0, by simp [countGo, ← he], he, by intro i hi; omega⟩
  | succ fuel ih =>
    rintro l k ⟨j, hj, he⟩
    by_cases hl : l = List.range l.length
    · exact ⟨0, by rw [countGo]; simp [← hl], hl, by intro i hi; omega⟩
    · match j, hj, he with
      | 0, _, he => exact absurd he hl
      | j + 1, hj, he =>
        simp only [passes] at he
        obtain ⟨j', h1, h2, h3⟩ := ih (step l) (k + 1) ⟨j, by omega, by rw [hstep]; exact he⟩
        rw [hstep] at h2 h3
        refine ⟨j' + 1, ?_, h2, ?_⟩
        · rw [countGo]; simp only [hl, if_false]; rw [h1]; congr 1; omega
        · intro i hi
          match i with
          | 0 => exact hl
          | i + 1 => exact h3 i (by omega)

theorem passes_fixed (step : List Nat → List Nat) (l fix : List Nat) (hfix : step fix = fix) :
    ∀ (k : Nat), passes step k l = fix → ∀ j, k ≤ j → passes step j l = fix := by
  intro k
  induction k generalizing l with
  | zero =>
    intro h j _
    simp only [passes] at h; subst h
    clear * - hfix
    induction j with
    | zero => rfl
    | succ j ihj => simp only [passes, hfix]; exact ihj
  | succ k ih =>
    intro h j hj
    match j, hj with
    | j + 1, hj => simp only [passes] at h ⊢; exact ih (step l) h j (by omega)

end C12
