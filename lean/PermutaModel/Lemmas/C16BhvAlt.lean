import PermutaModel.Lemmas.C16BhvWedge
import PermutaModel.Lemmas.C16BhvES
/-!
# C16 — the unavoidable-substructures theorem: from a long alternation to a parallel alternation or a wedge

`AltH P m a b t`: points `a 0 < b 0 < a 1 < … < a (m-1)` (by abscissa) of `P`, the `a`s above the level `t`, the
`b`s below.  By Erdős–Szekeres (twice) both arms may be assumed monotone; equal directions give a parallel
alternation (literal `parAlt k` after a symmetry), opposite directions a wedge (`wedge_case`).
-/
namespace C16P

/-- a horizontal alternation of `m` upper and `m - 1` lower points of `P` about the level `t` -/
structure AltH (P : List Pt) (m : Nat) (a b : Nat → Pt) (t : Rat) : Prop where
  amem : ∀ i, i < m → a i ∈ P
  bmem : ∀ i, i + 1 < m → b i ∈ P
  ab : ∀ i, i + 1 < m → (a i).1 < (b i).1 ∧ (b i).1 < (a (i + 1)).1
  above : ∀ i, i < m → t < (a i).2
  below : ∀ i, i + 1 < m → (b i).2 < t

namespace AltH
variable {P : List Pt} {m : Nat} {a b : Nat → Pt} {t : Rat}

theorem ax_mono (h : AltH P m a b t) : ∀ d i, i + d < m → 0 < d → (a i).1 < (a (i + d)).1 := by
  intro d
  induction d with
  | zero => intro i _ h0; omega
  | succ d ih =>
    intro i hi _
    have h1 : (a (i + d)).1 < (a (i + d + 1)).1 :=
      Std.lt_trans (h.ab (i + d) (by omega)).1 (h.ab (i + d) (by omega)).2
    by_cases hd : d = 0
    · subst hd; simpa using h1
    · exact Std.lt_trans (ih i (by omega) (by omega)) h1

theorem ax_le (h : AltH P m a b t) {i j : Nat} (hij : i ≤ j) (hj : j < m) : (a i).1 ≤ (a j).1 := by
  rcases Nat.eq_or_lt_of_le hij with rfl | hlt
  · exact Rat.le_refl
  · have := h.ax_mono (j - i) i (by omega) (by omega)
    rw [show i + (j - i) = j by omega] at this
    exact Rat.le_of_lt this

/-- a sub-alternation along an increasing choice of indices -/
theorem sub (h : AltH P m a b t) (m' : Nat) (ι : Nat → Nat) (hι : ∀ s r, s < r → r < m' → ι s < ι r)
    (hb : ∀ s, s < m' → ι s < m) : AltH P m' (fun s => a (ι s)) (fun s => b (ι s)) t := by
  refine ⟨fun i hi => h.amem _ (hb i hi), fun i hi => h.bmem _ ?_, fun i hi => ?_, fun i hi => h.above _ (hb i hi),
    fun i hi => h.below _ ?_⟩
  · have := hι i (i + 1) (by omega) hi; have := hb (i + 1) hi; omega
  · have h1 := hι i (i + 1) (by omega) hi
    have h2 := hb (i + 1) hi
    have e := h.ab (ι i) (by omega)
    refine ⟨e.1, ?_⟩
    have := h.ax_le (show ι i + 1 ≤ ι (i + 1) by omega) h2
    grind
  · have := hι i (i + 1) (by omega) hi; have := hb (i + 1) hi; omega

end AltH

theorem map_parList (T : Pt → Pt) (k : Nat) (A B : Nat → Pt) :
    (parList k A B).map T = parList k (fun i => T (A i)) (fun j => T (B j)) := by
  simp [parList, List.map_append, List.map_map, Function.comp_def]

theorem mem_parList {k : Nat} {A B : Nat → Pt} {s : Pt} (h : s ∈ parList k A B) :
    ∃ i, i < k ∧ (s = A i ∨ s = B i) := by
  simp only [parList, List.mem_append, List.mem_map, List.mem_range] at h
  rcases h with ⟨i, hi, rfl⟩ | ⟨i, hi, rfl⟩
  · exact ⟨i, hi, Or.inl rfl⟩
  · exact ⟨i, hi, Or.inr rfl⟩

/-- **parallel alternation**: two increasing arms (after the symmetries `pre`), one above the other, with
    alternating abscissae `a 0 < b 0 < a 1 < … < b (k-1)` – a symmetric image of the literal `parAlt k` -/
theorem outcome_par (P : List Pt) (k : Nat) (pre : List Gen) (a b : Nat → Pt)
    (ha : ∀ i, i < k → a i ∈ P) (hb : ∀ i, i < k → b i ∈ P)
    (h1 : ∀ i, i < k → (applyAll pre (a i)).1 < (applyAll pre (b i)).1)
    (h2 : ∀ i, i + 1 < k → (applyAll pre (b i)).1 < (applyAll pre (a (i + 1))).1)
    (h3 : ∀ i j, i < j → j < k → (applyAll pre (a i)).2 < (applyAll pre (a j)).2)
    (h4 : ∀ i j, i < j → j < k → (applyAll pre (b i)).2 < (applyAll pre (b j)).2)
    (h5 : ∀ i j, i < k → j < k → (applyAll pre (b i)).2 < (applyAll pre (a j)).2) : Outcome P k := by
  let T : Pt → Pt := applyAll (pre ++ [Gen.sw, Gen.ny])
  have hT : ∀ p, T p = ((applyAll pre p).2, -(applyAll pre p).1) := applyAll_sw_ny pre
  let S0 := parList k b a
  have hmap : S0.map T = parList k (fun i => T (b i)) (fun j => T (a j)) := map_parList T k _ _
  have hlit : LitPar k (fun i => T (b i)) (fun j => T (a j)) := by
    refine ⟨?_, ?_, ?_, ?_⟩
    · intro i j hij hj
      simp only [hT]
      exact ⟨h4 i j hij hj, h3 i j hij hj⟩
    · intro i j hi hj
      simp only [hT]
      exact h5 i j hi hj
    · intro i hi
      simp only [hT]
      have := h1 i hi; grind
    · intro i hi
      simp only [hT]
      have := h2 i hi; grind
  have hnd : (S0.map T).Nodup := by rw [hmap]; exact litPar_nodup k _ _ hlit
  refine ⟨S0, pre ++ [Gen.sw, Gen.ny], C16Fam.parAlt k, ?_, List.Nodup.of_map _ hnd, ?_, Or.inl rfl⟩
  · intro s hs
    obtain ⟨i, hi, rfl | rfl⟩ := mem_parList hs
    · exact hb i hi
    · exact ha i hi
  · show Model.C14.permOfPts (S0.map T) = _
    rw [hmap]
    exact litPar_perm k _ _ hlit

/-- an alternation with monotone arms: parallel or wedge -/
theorem alt_mono_case (P : List Pt) (hG : Good P) (k : Nat) (hk : 1 ≤ k) (hno : ¬ HasPinCfg P k)
    (m : Nat) (hm : k * k + 3 ≤ m) (a b : Nat → Pt) (t : Rat) (h : AltH P m a b t)
    (hma : (∀ i j, i < j → j < m → (a i).2 < (a j).2) ∨ (∀ i j, i < j → j < m → (a j).2 < (a i).2))
    (hmb : (∀ i j, i < j → j + 1 < m → (b i).2 < (b j).2) ∨ (∀ i j, i < j → j + 1 < m → (b j).2 < (b i).2)) :
    Outcome P k := by
  have hkm : k + 1 < m := by
    have : k ≤ k * k := Nat.le_mul_self k
    omega
  rcases hma with hai | had <;> rcases hmb with hbi | hbd
  · -- both increasing: parallel
    refine outcome_par P k [] a b (fun i hi => h.amem i (by omega)) (fun i hi => h.bmem i (by omega))
      ?_ ?_ ?_ ?_ ?_
    · intro i hi; simp only [applyAll_nil]; exact (h.ab i (by omega)).1
    · intro i hi; simp only [applyAll_nil]; exact (h.ab i (by omega)).2
    · intro i j hij hj; simp only [applyAll_nil]; exact hai i j hij (by omega)
    · intro i j hij hj; simp only [applyAll_nil]; exact hbi i j hij (by omega)
    · intro i j hi hj
      simp only [applyAll_nil]
      exact Std.lt_trans (h.below i (by omega)) (h.above j (by omega))
  · -- upper arm increasing, lower arm decreasing: a wedge opening to the right
    refine wedge_case P hG k hk hno (m - 1) (by omega) b (fun j => a (j + 1)) ?_
    refine ⟨fun j hj => h.bmem j (by omega), fun j hj => h.amem _ (by omega), fun j hj => (h.ab j (by omega)).2,
      fun j hj => (h.ab (j + 1) (by omega)).1, fun j hj => hai _ _ (by omega) (by omega),
      fun j hj => hbd _ _ (by omega) (by omega), fun _ => ?_⟩
    exact Std.lt_trans (h.below 0 (by omega)) (h.above 1 (by omega))
  · -- upper arm decreasing, lower arm increasing: a wedge opening to the left; reflect
    apply outcome_of_map Gen.nx P k
    have hG' := good_map Gen.nx P hG
    have hno' : ¬ HasPinCfg (P.map Gen.nx.app) k := fun hh => hno (hasPinCfg_of_map Gen.nx P k hh)
    have hnx : ∀ s : Pt, Gen.nx.app s = (-s.1, s.2) := fun s => rfl
    refine wedge_case _ hG' k hk hno' (m - 1) (by omega) (fun j => Gen.nx.app (b (m - 2 - j)))
      (fun j => Gen.nx.app (a (m - 2 - j))) ?_
    refine ⟨fun j hj => List.mem_map_of_mem (h.bmem _ (by omega)),
      fun j hj => List.mem_map_of_mem (h.amem _ (by omega)), fun j hj => ?_, fun j hj => ?_, fun j hj => ?_,
      fun j hj => ?_, fun _ => ?_⟩
    · simp only [hnx]
      have := (h.ab (m - 2 - j) (by omega)).1; grind
    · simp only [hnx]
      have e := (h.ab (m - 2 - (j + 1)) (by omega)).2
      rw [show m - 2 - (j + 1) + 1 = m - 2 - j by omega] at e
      grind
    · simp only [hnx]
      exact had (m - 2 - (j + 1)) (m - 2 - j) (by omega) (by omega)
    · simp only [hnx]
      exact hbi (m - 2 - (j + 1)) (m - 2 - j) (by omega) (by omega)
    · simp only [hnx]
      exact Std.lt_trans (h.below _ (by omega)) (h.above _ (by omega))
  · -- both decreasing: parallel after reflection
    have hnx : ∀ s : Pt, applyAll [Gen.nx] s = (-s.1, s.2) := fun s => rfl
    refine outcome_par P k [Gen.nx] (fun i => a (k - i)) (fun i => b (k - 1 - i))
      (fun i hi => h.amem _ (by omega)) (fun i hi => h.bmem _ (by omega)) ?_ ?_ ?_ ?_ ?_
    · intro i hi
      simp only [hnx]
      have e := (h.ab (k - 1 - i) (by omega)).2
      rw [show k - 1 - i + 1 = k - i by omega] at e
      grind
    · intro i hi
      simp only [hnx]
      have e := (h.ab (k - 1 - i) (by omega)).1
      rw [show k - (i + 1) = k - 1 - i by omega]
      grind
    · intro i j hij hj
      simp only [hnx]
      exact had (k - j) (k - i) (by omega) (by omega)
    · intro i j hij hj
      simp only [hnx]
      exact hbd (k - 1 - j) (k - 1 - i) (by omega) (by omega)
    · intro i j hi hj
      simp only [hnx]
      exact Std.lt_trans (h.below _ (by omega)) (h.above _ (by omega))

/-- **a long alternation gives an outcome**: there is `m₀` such that every horizontal alternation of `m₀` upper
    points in a good configuration without proper pin sequence of `k` points yields a family member -/
theorem alt_case (k : Nat) (hk : 1 ≤ k) : ∃ m0, ∀ (P : List Pt), Good P → ¬ HasPinCfg P k →
    ∀ a b t, AltH P m0 a b t → Outcome P k := by
  obtain ⟨N2, hN2⟩ := erdos_szekeres (k * k + 3)
  obtain ⟨N1, hN1⟩ := erdos_szekeres (N2 + 1)
  refine ⟨N1, fun P hG hno a b t h => ?_⟩
  -- distinct points have distinct ordinates
  have hyne : ∀ p q : Pt, p ∈ P → q ∈ P → p.1 < q.1 → p.2 ≠ q.2 := by
    intro p q hp hq hlt
    have hpq : p ≠ q := by intro e; rw [e] at hlt; exact absurd hlt (by grind)
    simpa [co] using coord_ne hG.xnd hG.ynd hp hq hpq false
  -- first round: the upper arm
  obtain ⟨ι1, hι1, hb1, hmono1⟩ := hN1 (fun i => (a i).2) (by
    intro i j hij hj
    exact hyne _ _ (h.amem i (by omega)) (h.amem j hj)
      (by have := h.ax_mono (j - i) i (by omega) (by omega); rwa [show i + (j - i) = j by omega] at this))
  have h1 := h.sub (N2 + 1) ι1 hι1 hb1
  -- second round: the lower arm
  obtain ⟨ι2, hι2, hb2, hmono2⟩ := hN2 (fun i => (b (ι1 i)).2) (by
    intro i j hij hj
    have e1 := (h1.ab i (by omega)).2
    have e2 := h1.ax_le (show i + 1 ≤ j by omega) (by omega)
    have e3 := (h1.ab j (by omega)).1
    exact hyne _ _ (h1.bmem i (by omega)) (h1.bmem j (by omega)) (by grind))
  have h2 := h1.sub (k * k + 3) ι2 hι2 (fun s hs => by have := hb2 s hs; omega)
  refine alt_mono_case P hG k hk hno (k * k + 3) (Nat.le_refl _) _ _ t h2 ?_ ?_
  · rcases hmono1 with hm | hm
    · left
      intro i j hij hj
      exact hm (ι2 i) (ι2 j) (hι2 i j hij hj) (by have := hb2 j hj; omega)
    · right
      intro i j hij hj
      exact hm (ι2 i) (ι2 j) (hι2 i j hij hj) (by have := hb2 j hj; omega)
  · rcases hmono2 with hm | hm
    · left
      intro i j hij hj
      exact hm i j hij (by omega)
    · right
      intro i j hij hj
      exact hm i j hij (by omega)

end C16P
