import PermutaModel.Lemmas.C10Mono

/-! The runs of `monotone_block_decomposition*` are maximal on both sides: on a permutation, two
    consecutive runs are always separated by a non-step. -/
open Model Spec.C10

namespace C10L

/-- on a permutation, a run that cannot be extended to the right is followed by a non-step: two
    consecutive steps in opposite directions would repeat a value -/
theorem not_stepOk_of_not_extends {asc desc : Bool} {p : NSeq} (hp : IsPerm p) {s e : Nat}
    (hr : IsRun asc desc p s e) (he : e + 1 < p.length) (hx : ¬ Extends asc desc p s e) :
    ¬ stepOk asc desc (p.getD e 0) (p.getD (e + 1) 0) := by
  intro hstep
  obtain ⟨hse, _, d, hd⟩ := hr
  by_cases heq : s = e
  · exact hx ⟨hstep, Or.inl heq⟩
  · have hprev := (hd (e - 1) (by omega) (by omega)).1
    rw [show e - 1 + 1 = e by omega] at hprev
    have hne : (p.getD (e + 1) 0 : Int) - (p.getD e 0 : Int) ≠ (p.getD e 0 : Int) - (p.getD (e - 1) 0 : Int) :=
      fun h => hx ⟨hstep, Or.inr h⟩
    have : p.getD (e - 1) 0 = p.getD (e + 1) 0 := by
      unfold stepOk at hstep hprev
      omega
    have := hp.getD_inj (by omega) he this
    omega

/-- every member of a run partition: is a run, cannot be extended to the right, and (on a permutation)
    is preceded by a non-step unless it is the first one -/
theorem runPartition_mem {asc desc : Bool} {p : NSeq} (hp : IsPerm p) {s0 : Nat} {l : List (Nat × Nat)}
    (h : RunPartition asc desc p s0 l) :
    ∀ se ∈ l, s0 ≤ se.1 ∧ IsRun asc desc p se.1 se.2 ∧
      (se.2 + 1 < p.length → ¬ Extends asc desc p se.1 se.2) ∧
      (se.1 = s0 ∨ ¬ stepOk asc desc (p.getD (se.1 - 1) 0) (p.getD se.1 0)) := by
  induction h with
  | last hr =>
    intro se hse
    rw [List.mem_singleton] at hse
    subst hse
    have := hr.2.1
    exact ⟨Nat.le_refl _, hr, fun h => by simp only at h; omega, Or.inl rfl⟩
  | @cons s e rest hr he hx _ ih =>
    intro se hse
    rcases List.mem_cons.mp hse with rfl | hmem
    · exact ⟨Nat.le_refl _, hr, fun _ => hx, Or.inl rfl⟩
    · obtain ⟨h0, h1, h2, h3⟩ := ih se hmem
      have := hr.1
      refine ⟨by omega, h1, h2, Or.inr ?_⟩
      rcases h3 with h3 | h3
      · rw [h3, show e + 1 - 1 = e by omega]
        exact not_stepOk_of_not_extends hp hr he hx
      · exact h3

/-- the runs of the monotone block decomposition are maximal: preceded by a non-step, not extendable
    to the right, and not properly contained in any run of positions -/
theorem monoBlocks_maximal (k : MonoKind) {p : NSeq} (hp : IsPerm p) {s e : Nat}
    (h : (s, e) ∈ monoBlocks k p true) :
    IsRun (kAsc k) (kDesc k) p s e ∧
    (0 < s → ¬ stepOk (kAsc k) (kDesc k) (p.getD (s - 1) 0) (p.getD s 0)) ∧
    (e + 1 < p.length → ¬ stepOk (kAsc k) (kDesc k) (p.getD e 0) (p.getD (e + 1) 0)) ∧
    (∀ s' e', IsRun (kAsc k) (kDesc k) p s' e' → s' ≤ s → e ≤ e' → s' = s ∧ e' = e) := by
  have hn : 0 < p.length := by
    by_contra h0
    have : p.length = 0 := by omega
    simp [monoBlocks, this] at h
  obtain ⟨_, h1, h2, h3⟩ := runPartition_mem hp (monoBlocks_partition k p hn) (s, e) h
  simp only at h1 h2 h3
  have hL : 0 < s → ¬ stepOk (kAsc k) (kDesc k) (p.getD (s - 1) 0) (p.getD s 0) := by
    intro hs
    rcases h3 with h3 | h3
    · omega
    · exact h3
  have hR : e + 1 < p.length → ¬ stepOk (kAsc k) (kDesc k) (p.getD e 0) (p.getD (e + 1) 0) :=
    fun he => not_stepOk_of_not_extends hp h1 he (h2 he)
  refine ⟨h1, hL, hR, ?_⟩
  intro s' e' hr hs he
  obtain ⟨_, he'n, d, hd⟩ := hr
  have hse := h1.1
  constructor
  · by_contra hne
    have hlt : s' < s := by omega
    have := (hd (s - 1) (by omega) (by omega)).1
    rw [show s - 1 + 1 = s by omega] at this
    exact hL (by omega) this
  · by_contra hne
    have hlt : e < e' := by omega
    exact hR (by omega) (hd e (by omega) hlt).1

end C10L
