import PermutaModel.Lemmas.C16ConvBHV
/-!
# C16 converse, part 4c — proper pin sequences from two points reach every extreme point

`ProperFrom P p2 p1 L`: `L` is a proper pin sequence (newest first) of points of `P` beginning with `p1, p2`.
`reach_pin`: a pin of the hull of such a sequence is the newest point of another such sequence (cut the
sequence back to the first hull for which the point is a pin: there it is a *new* pin, hence a proper one).
`pin_cover`: in a configuration without proper interval the points that occur in such sequences span
everything, in particular every extreme point occurs (`extreme_reached`; Brignall–Huczynska–Vatter's
"right-reaching" pin sequences).
-/
namespace C16P

/-- `L` (newest first) is a proper pin sequence of points of `P` whose two oldest points are `p1`, `p2` -/
def ProperFrom (P : List Pt) (p2 p1 : Pt) (L : List Pt) : Prop :=
  (∃ v, PinSeqA v L) ∧ (∃ mid, L = mid ++ [p2, p1]) ∧ L.Nodup ∧ ∀ a ∈ L, a ∈ P

theorem properFrom_base {P : List Pt} {p2 p1 : Pt} (h2 : p2 ∈ P) (h1 : p1 ∈ P) (hne : p2 ≠ p1) :
    ProperFrom P p2 p1 [p2, p1] :=
  ⟨⟨true, pinSeqA_short _ _ (by simp)⟩, ⟨[], rfl⟩, by simp [hne], by
    intro a ha; simp only [List.mem_cons, List.not_mem_nil, or_false] at ha; rcases ha with rfl | rfl <;> assumption⟩

theorem coord_ne {P : List Pt} (hx : (P.map Prod.fst).Nodup) (hy : (P.map Prod.snd).Nodup) {a b : Pt}
    (ha : a ∈ P) (hb : b ∈ P) (hab : a ≠ b) (u : Bool) : co u a ≠ co u b := by
  intro h
  apply hab
  cases u
  · exact List.inj_on_of_nodup_map hy ha hb (by simpa [co] using h)
  · exact List.inj_on_of_nodup_map hx ha hb (by simpa [co] using h)

/-- **a pin of the hull of a proper pin sequence is reached by a proper pin sequence** with the same two
    first points -/
theorem reach_pin (P : List Pt) (hx : (P.map Prod.fst).Nodup) (hy : (P.map Prod.snd).Nodup) (p2 p1 : Pt) :
    ∀ (mid : List Pt), ProperFrom P p2 p1 (mid ++ [p2, p1]) → ∀ c ∈ P, ∀ w, IsPin w (mid ++ [p2, p1]) c →
      ∃ L', ProperFrom P p2 p1 (c :: L') := by
  intro mid
  induction mid with
  | nil =>
    intro hL c hc w hpin
    obtain ⟨_, _, hN, hsub⟩ := hL
    have hco : ¬ InHull [p2, p1] c := hpin.not_inHull
    have hc2 : c ≠ p2 := fun h => hco (h ▸ inHull_self (by simp))
    have hc1 : c ≠ p1 := fun h => hco (h ▸ inHull_self (by simp))
    refine ⟨[p2, p1], ⟨w, pinSeq_three_of_pin hpin
      ⟨coord_ne hx hy hc (hsub p2 (by simp)) hc2 w, coord_ne hx hy hc (hsub p1 (by simp)) hc1 w⟩⟩,
      ⟨[c], rfl⟩, ?_, ?_⟩
    · simp only [List.nil_append] at hN
      simp only [List.nodup_cons, List.mem_cons, List.not_mem_nil, or_false, not_or] at hN ⊢
      exact ⟨⟨hc2, hc1⟩, hN⟩
    · intro a ha
      rcases List.mem_cons.mp ha with rfl | ha
      · exact hc
      · exact hsub a ha
  | cons p mid ih =>
    intro hL c hc w hpin
    obtain ⟨⟨v, hP⟩, _, hN, hsub⟩ := hL
    -- the older part
    obtain ⟨q, rest, hqr, hrest⟩ : ∃ q rest, mid ++ [p2, p1] = q :: rest ∧ rest ≠ [] := by
      cases mid with
      | nil => exact ⟨p2, [p1], rfl, by simp⟩
      | cons a m => exact ⟨a, m ++ [p2, p1], rfl, by simp⟩
    have hLe : (p :: mid) ++ [p2, p1] = p :: q :: rest := by rw [← hqr]; rfl
    rw [hLe] at hP hN hsub hpin
    have htail : ProperFrom P p2 p1 (mid ++ [p2, p1]) := by
      refine ⟨⟨!v, ?_⟩, ⟨mid, rfl⟩, ?_, ?_⟩
      · rw [hqr]; exact pinSeqA_tail hP
      · rw [hqr]; exact (List.nodup_cons.mp hN).2
      · rw [hqr]; exact fun a ha => hsub a (List.mem_cons_of_mem _ ha)
    by_cases hold : ∃ w', IsPin w' (q :: rest) c
    · obtain ⟨w', hw'⟩ := hold
      exact ih htail c hc w' (hqr ▸ hw')
    · have hco : ¬ InHull (p :: q :: rest) c := hpin.not_inHull
      have hcp : c ≠ p := fun h => hco (h ▸ inHull_self (by simp))
      have hsep : SepA v p q rest := by
        rw [pinSeqA_cons hrest] at hP; exact hP.1
      obtain ⟨_, hs⟩ := sepA_of_new_pin hrest hsep hpin (fun w' hw' => hold ⟨w', hw'⟩)
        (fun u => coord_ne hx hy hc (hsub p (by simp)) hcp u)
      refine ⟨p :: q :: rest, ⟨!v, ?_⟩, ⟨c :: p :: mid, by rw [← hLe]; rfl⟩, ?_, ?_⟩
      · rw [pinSeqA_cons (by simp)]
        exact ⟨hs, by rwa [Bool.not_not]⟩
      · rw [List.nodup_cons]
        exact ⟨fun h => hco (inHull_self h), hN⟩
      · intro a ha
        rcases List.mem_cons.mp ha with rfl | ha
        · exact hc
        · exact hsub a ha

/-- `z` occurs in a proper pin sequence of `P` that begins with `p1, p2` -/
def Reached (P : List Pt) (p2 p1 : Pt) (z : Pt) : Prop := ∃ L, ProperFrom P p2 p1 L ∧ z ∈ L

/-- in coordinate `f`, `c` lies in the closed range of the reached points -/
def Cov (P : List Pt) (p2 p1 : Pt) (f : Pt → Rat) (c : Pt) : Prop :=
  (∃ u, Reached P p2 p1 u ∧ f u ≤ f c) ∧ (∃ u, Reached P p2 p1 u ∧ f c ≤ f u)

theorem reached_mem {P : List Pt} {p2 p1 z : Pt} (h : Reached P p2 p1 z) : z ∈ P := by
  obtain ⟨L, hL, hz⟩ := h
  exact hL.2.2.2 z hz

theorem p1_mem_of_properFrom {P : List Pt} {p2 p1 : Pt} {L : List Pt} (h : ProperFrom P p2 p1 L) : p1 ∈ L := by
  obtain ⟨mid, rfl⟩ := h.2.1
  simp

/-- **the reached points span everything** (Brignall–Huczynska–Vatter, the idea of right-reaching pin
    sequences): in a configuration without proper interval and with distinct coordinates, the hull of the
    points that occur in proper pin sequences beginning with two given points `p1 ≠ p2` contains every point -/
theorem pin_cover (P : List Pt) (hS : Simple P) (hx : (P.map Prod.fst).Nodup) (hy : (P.map Prod.snd).Nodup)
    (p2 p1 : Pt) (h2 : p2 ∈ P) (h1 : p1 ∈ P) (hne : p2 ≠ p1) :
    ∀ c ∈ P, Cov P p2 p1 (co true) c ∧ Cov P p2 p1 (co false) c := by
  have hbase := properFrom_base h2 h1 hne
  have hself : ∀ z, Reached P p2 p1 z → ∀ f, Cov P p2 p1 f z :=
    fun z hz f => ⟨⟨z, hz, Rat.le_refl⟩, ⟨z, hz, Rat.le_refl⟩⟩
  have hr2 : Reached P p2 p1 p2 := ⟨_, hbase, by simp⟩
  have hr1 : Reached P p2 p1 p1 := ⟨_, hbase, by simp⟩
  let S : Pt → Prop := fun c => Cov P p2 p1 (co true) c ∧ Cov P p2 p1 (co false) c
  have hSco : ∀ (u : Bool) c, S c → Cov P p2 p1 (co u) c := by
    intro u c h; cases u; exact h.2; exact h.1
  -- a point covered in one coordinate and not in the other is a pin of a proper sequence, hence reached
  have key : ∀ c ∈ P, ∀ v : Bool, Cov P p2 p1 (co v) c → ¬ Cov P p2 p1 (co (!v)) c → Reached P p2 p1 c := by
    intro c hc v hcov hncov
    obtain ⟨⟨u1, ⟨L1, hL1, hu1⟩, hle1⟩, ⟨u2, ⟨L2, hL2, hu2⟩, hle2⟩⟩ := hcov
    -- beyond all reached points on the other axis
    have hbey : (∀ u, Reached P p2 p1 u → co (!v) u < co (!v) c) ∨
        (∀ u, Reached P p2 p1 u → co (!v) c < co (!v) u) := by
      unfold Cov at hncov
      by_cases hlow : ∃ u, Reached P p2 p1 u ∧ co (!v) u ≤ co (!v) c
      · left
        intro u hu
        apply Classical.byContradiction
        intro hlt
        exact hncov ⟨hlow, u, hu, by grind⟩
      · right
        intro u hu
        apply Classical.byContradiction
        intro hlt
        exact hlow ⟨u, hu, by grind⟩
    -- a proper sequence whose range on the axis `v` contains `c`
    obtain ⟨L, hL, hin⟩ : ∃ L, ProperFrom P p2 p1 L ∧ InRange (co v) L c := by
      by_cases hp : co v p1 ≤ co v c
      · exact ⟨L2, hL2, ⟨p1, p1_mem_of_properFrom hL2, hp⟩, ⟨u2, hu2, hle2⟩⟩
      · exact ⟨L1, hL1, ⟨u1, hu1, hle1⟩, ⟨p1, p1_mem_of_properFrom hL1, by grind⟩⟩
    have hext : Extr (co (!v)) c L := by
      rcases hbey with h | h
      · exact Or.inl fun a ha => h a ⟨L, hL, ha⟩
      · exact Or.inr fun a ha => h a ⟨L, hL, ha⟩
    obtain ⟨mid, rfl⟩ := hL.2.1
    obtain ⟨L', hL'⟩ := reach_pin P hx hy p2 p1 mid hL c hc v ⟨hin, hext⟩
    exact ⟨_, hL', by simp⟩
  -- the covered points form an interval
  have hIv : Iv P S := by
    intro c hc hcS
    have hside : ∀ v : Bool, Out (co v) P S c := by
      intro v
      apply Classical.byContradiction
      intro hno
      unfold Out at hno
      have e1 : ∃ s ∈ P, S s ∧ co v s ≤ co v c := by
        apply Classical.byContradiction
        intro hn
        apply hno
        left
        intro s hs hSs
        apply Classical.byContradiction
        intro hlt
        exact hn ⟨s, hs, hSs, by grind⟩
      have e2 : ∃ s ∈ P, S s ∧ co v c ≤ co v s := by
        apply Classical.byContradiction
        intro hn
        apply hno
        right
        intro s hs hSs
        apply Classical.byContradiction
        intro hlt
        exact hn ⟨s, hs, hSs, by grind⟩
      obtain ⟨s1, _, hS1, hl1⟩ := e1
      obtain ⟨s2, _, hS2, hl2⟩ := e2
      obtain ⟨⟨u1, hu1, hle1⟩, _⟩ := hSco v s1 hS1
      obtain ⟨_, ⟨u2, hu2, hle2⟩⟩ := hSco v s2 hS2
      have hcov : Cov P p2 p1 (co v) c := ⟨⟨u1, hu1, by grind⟩, ⟨u2, hu2, by grind⟩⟩
      have hncov : ¬ Cov P p2 p1 (co (!v)) c := by
        intro h
        apply hcS
        cases v
        · exact ⟨h, hcov⟩
        · exact ⟨hcov, h⟩
      have := key c hc v hcov hncov
      exact hcS ⟨hself c this _, hself c this _⟩
    exact ⟨hside true, hside false⟩
  intro c hc
  apply Classical.byContradiction
  intro hcS
  exact hS S hIv ⟨⟨p2, h2, p1, h1, hne, ⟨hself p2 hr2 _, hself p2 hr2 _⟩, ⟨hself p1 hr1 _, hself p1 hr1 _⟩⟩,
    c, hc, hcS⟩

/-- **every extreme point is reached** ("right-reaching" pin sequences, and likewise left-, up- and
    down-reaching ones): a point of `P` that is extremal in one coordinate occurs in a proper pin sequence
    beginning with any two given points -/
theorem extreme_reached (P : List Pt) (hS : Simple P) (hx : (P.map Prod.fst).Nodup) (hy : (P.map Prod.snd).Nodup)
    (p2 p1 : Pt) (h2 : p2 ∈ P) (h1 : p1 ∈ P) (hne : p2 ≠ p1) (c : Pt) (hc : c ∈ P) (u : Bool)
    (hext : (∀ s ∈ P, co u s ≤ co u c) ∨ (∀ s ∈ P, co u c ≤ co u s)) : Reached P p2 p1 c := by
  have hcov := pin_cover P hS hx hy p2 p1 h2 h1 hne c hc
  have hcu : Cov P p2 p1 (co u) c := by cases u; exact hcov.2; exact hcov.1
  rcases hext with h | h
  · obtain ⟨z, hz, hle⟩ := hcu.2
    have hzP := reached_mem hz
    have : z = c := by
      apply Classical.byContradiction
      intro hzc
      have := coord_ne hx hy hzP hc hzc u
      have := h z hzP
      grind
    exact this ▸ hz
  · obtain ⟨z, hz, hle⟩ := hcu.1
    have hzP := reached_mem hz
    have : z = c := by
      apply Classical.byContradiction
      intro hzc
      have := coord_ne hx hy hzP hc hzc u
      have := h z hzP
      grind
    exact this ▸ hz

/-- a reached point other than the two starting points is the *newest* point of a proper pin sequence -/
theorem reached_newest {P : List Pt} {p2 p1 c : Pt} (h : Reached P p2 p1 c) (hc2 : c ≠ p2) (hc1 : c ≠ p1) :
    ∃ L', ProperFrom P p2 p1 (c :: L') := by
  obtain ⟨L, ⟨⟨v, hP⟩, ⟨mid, rfl⟩, hN, hsub⟩, hz⟩ := h
  have hcm : c ∈ mid := by
    simp only [List.mem_append, List.mem_cons, List.not_mem_nil, or_false] at hz
    rcases hz with h | h | h
    · exact h
    · exact absurd h hc2
    · exact absurd h hc1
  obtain ⟨s, t, rfl⟩ := List.append_of_mem hcm
  have e : (s ++ c :: t) ++ [p2, p1] = s ++ (c :: (t ++ [p2, p1])) := by simp
  rw [e] at hP hN hsub
  obtain ⟨v', hP'⟩ := pinSeqA_suffix s hP
  refine ⟨t ++ [p2, p1], ⟨v', hP'⟩, ⟨c :: t, rfl⟩, (List.nodup_append.mp hN).2.1, ?_⟩
  intro a ha
  exact hsub a (List.mem_append_right _ ha)

end C16P
