import PermutaModel.Lemmas.C04Orbit
/-! C04 helper lemmas: the symmetries of mesh patterns (pattern *and* cell maps) satisfy the same
    relations as the symmetries of permutations. -/
open Model

namespace C04L

theorem meshValid_iff (m : Mesh) :
    meshValid m = true ↔ ∀ c ∈ m.shading, c.1 ≤ m.pattern.length ∧ c.2 ≤ m.pattern.length := by
  simp [meshValid, List.all_eq_true]

theorem map_cells_id {l : List Cell} {f : Cell → Cell} (h : ∀ c ∈ l, f c = c) : l.map f = l := by
  conv_rhs => rw [← List.map_id l]
  exact List.map_congr_left h

/-! ### well-formedness is preserved -/
theorem meshOK_reverse {m : Mesh} (h : MeshOK m) : MeshOK (meshReverse m) := by
  refine ⟨isPerm_reverse h.1, ?_⟩
  intro c hc
  simp only [meshReverse, List.mem_map] at hc
  obtain ⟨d, hd, rfl⟩ := hc
  have := h.2 d hd
  simp only [meshReverse, length_reverse]; omega

theorem meshOK_complement {m : Mesh} (h : MeshOK m) : MeshOK (meshComplement m) := by
  refine ⟨isPerm_complement h.1, ?_⟩
  intro c hc
  simp only [meshComplement, List.mem_map] at hc
  obtain ⟨d, hd, rfl⟩ := hc
  have := h.2 d hd
  simp only [meshComplement, length_complement]; omega

theorem meshOK_inverse {m : Mesh} (h : MeshOK m) : MeshOK (meshInverse m) := by
  refine ⟨isPerm_inverse h.1, ?_⟩
  intro c hc
  simp only [meshInverse, List.mem_map] at hc
  obtain ⟨d, hd, rfl⟩ := hc
  have := h.2 d hd
  simp only [meshInverse, length_inverse]; omega

/-! ### generator relations, cells included -/
theorem meshReverse_reverse {m : Mesh} (h : MeshOK m) : meshReverse (meshReverse m) = m := by
  obtain ⟨p, sh⟩ := m
  simp only [meshReverse, length_reverse, C04L.reverse_reverse, List.map_map, Mesh.mk.injEq, true_and]
  apply map_cells_id
  intro c hc
  have := h.2 c hc
  simp only [Function.comp] at *
  ext <;> simp <;> omega

theorem meshComplement_complement {m : Mesh} (h : MeshOK m) : meshComplement (meshComplement m) = m := by
  obtain ⟨p, sh⟩ := m
  simp only [meshComplement, length_complement, C04L.complement_complement h.1, List.map_map,
    Mesh.mk.injEq, true_and]
  apply map_cells_id
  intro c hc
  have := h.2 c hc
  simp only [Function.comp] at *
  ext <;> simp <;> omega

theorem meshInverse_inverse {m : Mesh} (h : MeshOK m) : meshInverse (meshInverse m) = m := by
  obtain ⟨p, sh⟩ := m
  simp only [meshInverse, C04L.inverse_inverse h.1, List.map_map, Mesh.mk.injEq, true_and]
  apply map_cells_id
  intro c _; rfl

theorem meshComplement_reverse (m : Mesh) : meshComplement (meshReverse m) = meshReverse (meshComplement m) := by
  obtain ⟨p, sh⟩ := m
  simp [meshComplement, meshReverse, C04L.complement_reverse, Function.comp_def]

theorem meshInverse_reverse {m : Mesh} (h : MeshOK m) :
    meshInverse (meshReverse m) = meshComplement (meshInverse m) := by
  obtain ⟨p, sh⟩ := m
  simp [meshComplement, meshReverse, meshInverse, C04L.inverse_reverse h.1, Function.comp_def]

theorem meshInverse_complement {m : Mesh} (h : MeshOK m) :
    meshInverse (meshComplement m) = meshReverse (meshInverse m) := by
  obtain ⟨p, sh⟩ := m
  simp [meshComplement, meshReverse, meshInverse, C04L.inverse_complement h.1, Function.comp_def]

/-! ### the rotations in terms of the generators (cells included) -/
theorem meshRotate_one (m : Mesh) : meshRotate m 1 = meshComplement (meshInverse m) := by
  obtain ⟨p, sh⟩ := m
  have : rotate p 1 = complement (inverse p) := rot1_eq
  simp only [meshRotate]
  rw [if_neg (by decide : ¬ ((1:Int) % 4 = 0)), if_pos (by decide : (1:Int) % 4 = 1)]
  simp [meshComplement, meshInverse, this, Function.comp_def]

theorem meshRotate_two (m : Mesh) : meshRotate m 2 = meshReverse (meshComplement m) := by
  obtain ⟨p, sh⟩ := m
  have : rotate p 2 = reverse (complement p) := by
    rw [← reverseComplement_eq_reverse_complement]; rfl
  simp only [meshRotate]
  rw [if_neg (by decide : ¬ ((2:Int) % 4 = 0)), if_neg (by decide : ¬ ((2:Int) % 4 = 1)), if_pos (by decide : (2:Int) % 4 = 2)]
  simp [meshComplement, meshReverse, this, Function.comp_def]

theorem meshRotate_three (m : Mesh) : meshRotate m 3 = meshReverse (meshInverse m) := by
  obtain ⟨p, sh⟩ := m
  have : rotate p 3 = reverse (inverse p) := by rw [← rotate3_eq]; rfl
  simp only [meshRotate]
  rw [if_neg (by decide : ¬ ((3:Int) % 4 = 0)), if_neg (by decide : ¬ ((3:Int) % 4 = 1)), if_neg (by decide : ¬ ((3:Int) % 4 = 2))]
  simp [meshReverse, meshInverse, this, Function.comp_def]

/-- the action of `D8` on meshes -/
theorem meshOK_act {m : Mesh} (h : MeshOK m) (g : D8) : MeshOK (g.actMesh m) := by
  rcases g with ⟨r, c, i⟩
  cases r <;> cases c <;> cases i <;> simp only [D8.actMesh, if_true, Bool.false_eq_true, if_false] <;>
    repeat (first | exact h | apply meshOK_reverse | apply meshOK_complement | apply meshOK_inverse)

theorem actMesh_mul {m : Mesh} (hm : MeshOK m) (g h : D8) :
    g.actMesh (h.actMesh m) = (g.mul h).actMesh m := by
  rcases g with ⟨r, c, i⟩
  rcases h with ⟨r', c', i'⟩
  cases r <;> cases c <;> cases i <;> cases r' <;> cases c' <;> cases i' <;>
    simp (maxDischargeDepth := 8) [D8.actMesh, D8.mul, hm, meshOK_complement, meshOK_inverse, meshOK_reverse,
      meshInverse_reverse, meshInverse_complement, meshComplement_reverse, meshInverse_inverse,
      meshComplement_complement, meshReverse_reverse]

theorem meshRotate_eq_act (m : Mesh) (t : Int) : meshRotate m t = (rotD8 t).actMesh m := by
  have h : t % 4 = 0 ∨ t % 4 = 1 ∨ t % 4 = 2 ∨ t % 4 = 3 := by omega
  have hm : ∀ k : Int, k % 4 = t % 4 → meshRotate m t = meshRotate m k := by
    intro k hk; unfold meshRotate; rw [hk]
  rcases h with h | h | h | h
  · rw [hm 0 (by omega)]; unfold rotD8; rw [h]; rfl
  · rw [hm 1 (by omega), meshRotate_one]; unfold rotD8; rw [h]; rfl
  · rw [hm 2 (by omega), meshRotate_two]; unfold rotD8; rw [h]; rfl
  · rw [hm 3 (by omega), meshRotate_three]; unfold rotD8; rw [h]; rfl

theorem rotD8_add (s t : Int) : rotD8 (s + t) = (rotD8 s).mul (rotD8 t) := by
  have hs : s % 4 = 0 ∨ s % 4 = 1 ∨ s % 4 = 2 ∨ s % 4 = 3 := by omega
  have ht : t % 4 = 0 ∨ t % 4 = 1 ∨ t % 4 = 2 ∨ t % 4 = 3 := by omega
  unfold rotD8
  rcases hs with hs | hs | hs | hs <;> rcases ht with ht | ht | ht | ht <;>
    · have : (s + t) % 4 = (s % 4 + t % 4) % 4 := Int.add_emod s t 4
      rw [this, hs, ht]; rfl

theorem meshAllSymsList_eq {m : Mesh} (hm : MeshOK m) :
    meshAllSymsList m = codeOrder.map fun g => g.actMesh m := by
  simp only [meshAllSymsList, meshRotate_eq_act]
  have h1 : rotD8 1 = ⟨false, true, true⟩ := rfl
  rw [h1]
  simp only [codeOrder, List.map_cons, List.map_nil]
  rw [actMesh_mul hm, actMesh_mul hm]
  have a1 : D8.actMesh ⟨false, false, true⟩ m = meshInverse m := rfl
  have e : ∀ g : D8, meshInverse (g.actMesh m) = (D8.mul ⟨false, false, true⟩ g).actMesh m := by
    intro g; rw [← actMesh_mul hm]; rfl
  rw [e, e, e]
  rfl

end C04L
