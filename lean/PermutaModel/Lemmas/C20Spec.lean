import PermutaModel.Lemmas.C20Store
import PermutaModel.Spec.C20

/-! The validating `from_json` of the C20 model computes exactly `Spec.C20.decode`. -/
namespace Model.C20
open Spec.C20

theorem permOf_of_shape (j : J) :
    (shapeOkPerm j = true → ∃ p, asNats j = some p ∧ permOf j = .ok p) ∧
    (shapeOkPerm j = false → asNats j = none) := by
  cases j with
  | arr l =>
    by_cases h : l.all J.isNum = true
    · simp [shapeOkPerm, asNats, permOf, h]
    · simp [shapeOkPerm, asNats, h]
  | null => simp [shapeOkPerm, asNats]
  | bool b => simp [shapeOkPerm, asNats]
  | num n => simp [shapeOkPerm, asNats]
  | str s => simp [shapeOkPerm, asNats]
  | obj l => simp [shapeOkPerm, asNats]

theorem seq_perms_of_shape : ∀ (l : List J),
    (l.all shapeOkPerm = true → ∃ v, allSome (l.map asNats) = some v ∧ seqConv (l.map permOf) = .ok v) ∧
    (l.all shapeOkPerm = false → allSome (l.map asNats) = none)
  | [] => by simp [allSome, seqConv]
  | j :: js => by
    obtain ⟨ih1, ih2⟩ := seq_perms_of_shape js
    obtain ⟨hj1, hj2⟩ := permOf_of_shape j
    constructor
    · intro h
      simp only [List.all_cons, Bool.and_eq_true] at h
      obtain ⟨p, hp1, hp2⟩ := hj1 h.1
      obtain ⟨v, hv1, hv2⟩ := ih1 h.2
      exact ⟨p :: v, by simp [allSome, hp1, hv1], by simp [seqConv, hp2, hv2]⟩
    · intro h
      simp only [List.all_cons, Bool.and_eq_false_iff] at h
      rcases h with h | h
      · simp [allSome, hj2 h]
      · cases hq : asNats j with
        | none => simp [allSome, hq]
        | some q => simp [allSome, hq, ih2 h]

theorem permsOf_of_shape (j : J) :
    (shapeOkPerms j = true → ∃ v, asPerms j = some v ∧ permsOf j = .ok v) ∧
    (shapeOkPerms j = false → asPerms j = none) := by
  cases j with
  | arr l => simpa [shapeOkPerms, asPerms, permsOf] using seq_perms_of_shape l
  | null => simp [shapeOkPerms, asPerms]
  | bool b => simp [shapeOkPerms, asPerms]
  | num n => simp [shapeOkPerms, asPerms]
  | str s => simp [shapeOkPerms, asPerms]
  | obj l => simp [shapeOkPerms, asPerms]

theorem memberConv_of_shape (m : Str × J) :
    (shapeOkPerms m.2 = true →
      memberConv m = match decodeMember m with
        | some x => .ok x
        | none => .err .valueError) ∧
    (shapeOkPerms m.2 = false → decodeMember m = none) := by
  obtain ⟨h1, h2⟩ := permsOf_of_shape m.2
  constructor
  · intro h
    obtain ⟨v, hv1, hv2⟩ := h1 h
    cases hk : keyToNat m.1 with
    | none => simp [memberConv, decodeMember, hk, hv1]
    | some k => simp [memberConv, decodeMember, hk, hv1, hv2]
  · intro h
    simp [decodeMember, h2 h]

theorem seq_members_of_shape : ∀ (l : List (Str × J)),
    ((l.all fun m => shapeOkPerms m.2) = true →
      seqConv (l.map memberConv) = match allSome (l.map decodeMember) with
        | some d => .ok d
        | none => .err .valueError) ∧
    ((l.all fun m => shapeOkPerms m.2) = false → allSome (l.map decodeMember) = none)
  | [] => by simp [allSome, seqConv]
  | m :: ms => by
    obtain ⟨ih1, ih2⟩ := seq_members_of_shape ms
    obtain ⟨hm1, hm2⟩ := memberConv_of_shape m
    constructor
    · intro h
      simp only [List.all_cons, Bool.and_eq_true] at h
      have e1 := hm1 h.1
      have e2 := ih1 h.2
      simp only [List.map_cons]
      cases hd : decodeMember m with
      | none =>
        rw [hd] at e1
        simp [seqConv, e1, allSome]
      | some x =>
        rw [hd] at e1
        cases hr : allSome (ms.map decodeMember) with
        | none => rw [hr] at e2; simp [seqConv, e1, e2, allSome, hr]
        | some r => rw [hr] at e2; simp [seqConv, e1, e2, allSome, hr]
    · intro h
      simp only [List.all_cons, Bool.and_eq_false_iff] at h
      simp only [List.map_cons]
      rcases h with h | h
      · simp [allSome, hm2 h]
      · cases hd : decodeMember m with
        | none => simp [allSome]
        | some x => simp [allSome, ih2 h]

/-- with the shape validation, `from_json` returns exactly what the value denotes and raises
    `ValueError` for every value that denotes nothing -/
theorem fromJson_validating (j : J) :
    fromJson true j = match decode j with
      | some d => .ok d
      | none => .err .valueError := by
  cases j with
  | obj l =>
    obtain ⟨h1, h2⟩ := seq_members_of_shape (pyDict l)
    by_cases hs : ((pyDict l).all fun m => shapeOkPerms m.2) = true
    · have e := h1 hs
      cases hd : allSome ((pyDict l).map decodeMember) with
      | none => rw [hd] at e; simp [fromJson, shapeOk, hs, convJson, e, decode, hd]
      | some d => rw [hd] at e; simp [fromJson, shapeOk, hs, convJson, e, decode, hd]
    · have hs' : ((pyDict l).all fun m => shapeOkPerms m.2) = false := by simpa using hs
      simp [fromJson, shapeOk, hs', decode, h2 hs']
  | null => simp [fromJson, shapeOk, decode]
  | bool b => simp [fromJson, shapeOk, decode]
  | num n => simp [fromJson, shapeOk, decode]
  | str s => simp [fromJson, shapeOk, decode]
  | arr l => simp [fromJson, shapeOk, decode]

/-- a validating reader that parses the whole file and catches `OSError` and `ValueError` returns
    exactly the file's value, and reports everything else -/
theorem readBisc_eq_spec (cfg : Cfg) (hv : cfg.validateShape = true) (hr : cfg.readOneLine = false)
    (h1 : caught cfg.readCaught .fileNotFound = true) (h2 : caught cfg.readCaught .jsonDecode = true)
    (h3 : caught cfg.readCaught .valueError = true) (fs : FS) (path : Str) :
    readBisc cfg fs path = match fileValue fs path with
      | some d => .ok d
      | none => .invalid := by
  unfold readBisc fileValue
  cases hf : fsGet fs (path ++ dotJson) with
  | none => simp [handleRead, h1]
  | some content =>
    simp only [hr, hv, Bool.false_eq_true, if_false]
    unfold fromJsonStr
    cases hl : loads content with
    | none => simp [handleRead, h2]
    | some j =>
      simp only [fromJson_validating j]
      cases hd : decode j with
      | none => simp [handleRead, h3]
      | some d => simp

theorem decode_toJ (d : Dataset) (h : (d.map Prod.fst).Nodup) : decode (toJ d) = some d := by
  have := fromJson_validating (toJ d)
  rw [fromJson_toJ true d h] at this
  cases hd : decode (toJ d) with
  | none => rw [hd] at this; cases this
  | some d' => rw [hd] at this; cases this; rfl

end Model.C20
