import PermutaModel.Lemmas.C05Mesh
/-! Mesh containment between valid patterns is reflexive and transitive (through C06's soundness and
    completeness), and the sort key `(pattern, |shading|, sorted shading)` is a linear extension of it. -/
open Model Model.C08 Model.C05 Generated C06Lemmas

namespace C05

/-- what a reported containment consists of -/
theorem meshIn_elim (p host : MObj) (hp : IsPerm p.pattern) (hh : IsPerm host.pattern) (h : meshIn p host = true) :
    ∃ l c, Model.meshOccInMesh (toMesh p) (toMesh host) = .ok l ∧ c ∈ l ∧ MeshOcc (toMesh p) host.pattern c ∧
      ∃ sub, subMeshPattern (toMesh host) c = .ok sub ∧ ∀ cell ∈ p.shading, cell ∈ sub.shading := by
  obtain ⟨l, hl⟩ := C06.meshInMesh_total (toMesh p) (toMesh host) hp hh
  have h1 : meshInMeshE p host = .ok (!l.isEmpty) := by
    unfold meshInMeshE meshContainsItem
    exact inMeshAny_eq (toMesh p) (toMesh host) _ l hl
  simp only [meshIn, h1, Bool.not_eq_true', List.isEmpty_eq_false_iff] at h
  obtain ⟨c, hc⟩ := List.exists_mem_of_ne_nil _ h
  have hl' := hl
  unfold Model.meshOccInMesh at hl'
  obtain ⟨hcand, sub, hsub, hss⟩ := (mem_inMeshFilter (toMesh p) (toMesh host) _ l hl' c).mp hc
  rw [shadingSubset_iff] at hss
  exact ⟨l, c, hl, hc, (C03.mem_meshOccInPerm_iff (toMesh p) host.pattern hp hh c).mp hcand, sub, hsub, hss⟩

theorem meshIn_intro (p host : MObj) (hp : IsPerm p.pattern) (hh : IsPerm host.pattern)
    (l : List (List Nat)) (hl : Model.meshOccInMesh (toMesh p) (toMesh host) = .ok l) (c : List Nat) (hc : c ∈ l) :
    meshIn p host = true := by
  have h1 : meshInMeshE p host = .ok (!l.isEmpty) := by
    unfold meshInMeshE meshContainsItem
    exact inMeshAny_eq (toMesh p) (toMesh host) _ l hl
  simp only [meshIn, h1]
  cases l with
  | nil => simp at hc
  | cons a t => rfl

/-- semantic characterisation (C06 soundness + completeness): `p` is reported inside `host` iff some
    in-range index tuple `c` carries an occurrence of `p` for every occurrence of `host` in every permutation -/
theorem meshIn_iff_sem (p host : MObj) (hp : ValidM p) (hh : ValidM host) :
    meshIn p host = true ↔ ∃ c, (∀ j ∈ c, j < host.pattern.length) ∧
      ∀ σ d, IsPerm σ → MeshOcc (toMesh host) σ d → MeshOcc (toMesh p) σ (Spec.compose d c) := by
  constructor
  · intro h
    obtain ⟨l, c, hl, hc, hocc, _⟩ := meshIn_elim p host hp.perm hh.perm h
    exact ⟨c, hocc.occ.rng, fun σ d _ hd => C06.meshInMesh_sound (toMesh p) (toMesh host) hp.perm hh.perm l hl c hc σ d hd⟩
  · rintro ⟨c, hr, hsem⟩
    obtain ⟨l, hl⟩ := C06.meshInMesh_total (toMesh p) (toMesh host) hp.perm hh.perm
    exact meshIn_intro p host hp.perm hh.perm l hl c
      (C06.meshInMesh_complete (toMesh p) (toMesh host) hp.perm hh.perm hp.cells l hl c hr hsem)

theorem compose_range_left {d : List Nat} : Spec.compose d (List.range d.length) = d := by
  unfold Spec.compose
  apply List.ext_getElem
  · simp
  · intro i h1 h2
    simp [List.getD_eq_getElem?_getD, List.getElem?_eq_getElem (by simpa using h1 : i < d.length)]

/-- every valid pattern contains itself -/
theorem meshIn_refl (p : MObj) (hp : ValidM p) : meshIn p p = true := by
  rw [meshIn_iff_sem p p hp hp]
  refine ⟨List.range p.pattern.length, fun j hj => List.mem_range.mp hj, ?_⟩
  intro σ d _ hd
  have : d.length = p.pattern.length := hd.occ.len
  rw [← this, compose_range_left]
  exact hd

theorem compose_assoc (d c' c : List Nat) (hc : ∀ j ∈ c, j < c'.length) :
    Spec.compose (Spec.compose d c') c = Spec.compose d (Spec.compose c' c) := by
  unfold Spec.compose
  rw [List.map_map]
  apply List.map_congr_left
  intro j hj
  have hj' := hc j hj
  simp [Function.comp, List.getD_eq_getElem?_getD, List.getElem?_eq_getElem hj']

/-- containment between valid mesh patterns is transitive -/
theorem meshIn_trans (a b c : MObj) (ha : ValidM a) (hb : ValidM b) (hc : ValidM c)
    (h1 : meshIn a b = true) (h2 : meshIn b c = true) : meshIn a c = true := by
  obtain ⟨_, c1, _, _, hocc1, _⟩ := meshIn_elim a b ha.perm hb.perm h1
  obtain ⟨c1', hr1, hs1⟩ := (meshIn_iff_sem a b ha hb).mp h1
  obtain ⟨c2, hr2, hs2⟩ := (meshIn_iff_sem b c hb hc).mp h2
  rw [meshIn_iff_sem a c ha hc]
  -- c2 has the length of b's pattern (it is an occurrence of b in c's own pattern)
  have hlen2 : c2.length = b.pattern.length := by
    have := (hs2 c.pattern _ hc.perm (idOcc (toMesh c))).occ.len
    simpa [Spec.compose, toMesh] using this
  refine ⟨Spec.compose c2 c1', ?_, ?_⟩
  · intro j hj
    unfold Spec.compose at hj
    obtain ⟨i, hi, rfl⟩ := List.mem_map.mp hj
    have : i < c2.length := by rw [hlen2]; exact hr1 i hi
    exact hr2 _ (by rw [List.getD_eq_getElem?_getD, List.getElem?_eq_getElem this]; exact List.getElem_mem this)
  · intro σ d hσ hd
    rw [← compose_assoc d c2 c1' (by intro j hj; rw [hlen2]; exact hr1 j hj)]
    exact hs1 σ _ hσ (hs2 σ d hσ hd)

theorem pick_range (σ : NSeq) : Spec.pick σ (List.range σ.length) = σ := by
  unfold Spec.pick
  apply List.ext_getElem
  · simp
  · intro i h1 h2
    simp [List.getD_eq_getElem?_getD, List.getElem?_eq_getElem h2]

/-- **the sort key is a linear extension of mesh containment**: a valid pattern contained in a valid
    pattern with a different value is shorter, or has the same permutation and strictly fewer shaded cells -/
theorem key_linear_ext (x y : MObj) (hx : ValidM x) (hy : ValidM y) (h : meshIn x y = true)
    (hne : meshVal x ≠ meshVal y) : meshKey2Lt x y = true := by
  obtain ⟨l, c, hl, hc, hocc, sub, hsub, hss⟩ := meshIn_elim x y hx.perm hy.perm h
  have hcont : Contains y.pattern x.pattern := ⟨c, hocc.occ⟩
  rw [meshKey2Lt_eq]
  rcases Nat.lt_or_ge x.pattern.length y.pattern.length with hlt | hge
  · have hnp : (meshVal x).1 ≠ (meshVal y).1 := by
      intro e; simp only [meshVal] at e; rw [e] at hlt; omega
    rw [valKeyLt_of_ne hnp, permLt_iff]
    exact Or.inl hlt
  · have hleq : x.pattern.length = y.pattern.length := Nat.le_antisymm hcont.length_le hge
    have hpe : y.pattern = x.pattern := hcont.eq_of_length_eq hy.perm hx.perm hleq
    -- the occurrence is the identity
    have hs : List.Sublist c (List.range y.pattern.length) := (sublist_range_iff _ _).mpr ⟨hocc.occ.inc, hocc.occ.rng⟩
    have hceq : c = List.range y.pattern.length := by
      apply hs.eq_of_length
      rw [hocc.occ.len, List.length_range]; exact hleq
    -- so the induced sub-pattern shades only cells shaded in y
    obtain ⟨sh, hsub', hsh⟩ := subMesh_eval (toMesh y) c hy.perm hocc.occ.inc hocc.occ.rng
    rw [hsub] at hsub'
    injection hsub' with hsub'
    have hsubset : ∀ cell ∈ x.shading, cell ∈ y.shading := by
      rintro ⟨a, b⟩ hab
      have hin := hss _ hab
      rw [hsub'] at hin
      have hS := (hsh a b).mp hin
      have ha : a ≤ y.pattern.length := by have := hS.hx; rw [hceq, List.length_range] at this; exact this
      have hb : b ≤ y.pattern.length := by have := hS.hy; rw [hceq, List.length_range] at this; exact this
      apply hS.shaded a b ha hb
      · rw [hceq]; exact countLt_range ha
      · rw [hceq]
        show Spec.countLt (Spec.pick y.pattern (List.range y.pattern.length)) b = b
        rw [pick_range]; exact countLt_perm hy.perm hb
    have hndx : x.shading.Nodup := hx.canon.imp (fun hab => cellLt_strictTotal.ne_of_lt hab)
    have hndy : y.shading.Nodup := hy.canon.imp (fun hab => cellLt_strictTotal.ne_of_lt hab)
    have hsp : x.shading.Subperm y.shading := List.subperm_of_subset hndx hsubset
    have hpv : (meshVal x).1 = (meshVal y).1 := hpe.symm
    rw [valKeyLt_of_eq hpv]
    rcases Nat.lt_or_ge x.shading.length y.shading.length with hl2 | hg2
    · exact lenShLt_of_len_lt hl2
    · exfalso
      apply hne
      have hperm : x.shading.Perm y.shading := hsp.perm_of_length_le hg2
      have : x.shading = y.shading :=
        PySort.sorted_perm_unique cellLt_strictTotal _ _ hperm
          (hx.canon.imp (fun hab => cellLt_strictTotal.asymm hab))
          (hy.canon.imp (fun hab => cellLt_strictTotal.asymm hab))
      exact Prod.ext hpe.symm this

/-- antisymmetry on values -/
theorem meshIn_antisymm (x y : MObj) (hx : ValidM x) (hy : ValidM y) (h1 : meshIn x y = true)
    (h2 : meshIn y x = true) : meshVal x = meshVal y := by
  by_contra hne
  have k1 := key_linear_ext x y hx hy h1 hne
  have k2 := key_linear_ext y x hy hx h2 (fun e => hne e.symm)
  have := meshKey2Lt_strictWeak.asymm k1
  rw [k2] at this; exact absurd this (by decide)

end C05
