import PermutaModel.Lemmas.C12RSKGreeneDefs
open Model Spec List
namespace C12

theorem Knuth.perm {a b : List Nat} (h : Knuth a b) : a.Perm b := by
  induction h with
  | refl w => exact Perm.refl _
  | k1 u v x y z _ _ => exact Perm.append_left _ (Perm.swap _ _ _)
  | k2 u v x y z _ _ => exact Perm.append_left _ (Perm.cons _ (Perm.swap _ _ _))
  | symm _ ih => exact ih.symm
  | trans _ _ ih1 ih2 => exact ih1.trans ih2

def Good (c : Nat → Nat) (k : Nat) (a b : Nat) : Prop := c a = c b → c a < k → a < b

theorem isInc_iff (c : Nat → Nat) (k : Nat) (w : List Nat) :
    IsIncColouring c k w ↔ w.Pairwise (Good c k) := by
  unfold IsIncColouring colourClass Good
  simp only [pairwise_filter]
  simp only [pairwise_iff_forall_sublist, beq_iff_eq]
  constructor
  · intro h a b hab h1 h2
    exact h (c a) h2 hab rfl h1.symm
  · intro h i hi a b hab h1 h2
    exact h hab (h1.trans h2.symm) (h1 ▸ hi)

theorem pairwise_swap {R : Nat → Nat → Prop} {u v : List Nat} {a b : Nat}
    (h : (u ++ a :: b :: v).Pairwise R) (hba : R b a) : (u ++ b :: a :: v).Pairwise R := by
  simp only [pairwise_append, pairwise_cons, mem_cons] at h ⊢
  grind

theorem count_perm (c : Nat → Nat) (k : Nat) {w1 w2 : List Nat} (h : w1.Perm w2) :
    colouredCount c k w1 = colouredCount c k w2 := (h.filter _).length_eq

theorem count_congr {c c' : Nat → Nat} {k : Nat} {w : List Nat} (h : ∀ a ∈ w, (c' a < k ↔ c a < k)) :
    colouredCount c' k w = colouredCount c k w := by
  unfold colouredCount
  congr 1
  apply filter_congr
  intro a ha
  simp [h a ha]

theorem count_append (c : Nat → Nat) (k : Nat) (w1 w2 : List Nat) :
    colouredCount c k (w1 ++ w2) = colouredCount c k w1 + colouredCount c k w2 := by
  simp [colouredCount]

theorem count_cons (c : Nat → Nat) (k : Nat) (a : Nat) (w : List Nat) :
    colouredCount c k (a :: w) = (if c a < k then 1 else 0) + colouredCount c k w := by
  unfold colouredCount
  rw [filter_cons]
  by_cases h : c a < k
  · simp [h]; omega
  · simp [h]

theorem pw3 {R : Nat → Nat → Prop} {u v : List Nat} {a b d : Nat} :
    (u ++ a :: b :: d :: v).Pairwise R ↔
      u.Pairwise R ∧ v.Pairwise R ∧ (∀ p ∈ u, R p a) ∧ (∀ p ∈ u, R p b) ∧ (∀ p ∈ u, R p d) ∧
      (∀ p ∈ u, ∀ q ∈ v, R p q) ∧ R a b ∧ R a d ∧ R b d ∧
      (∀ q ∈ v, R a q) ∧ (∀ q ∈ v, R b q) ∧ (∀ q ∈ v, R d q) := by
  simp only [pairwise_append, pairwise_cons, mem_cons]
  constructor
  · rintro ⟨hu, ⟨ha, hb, hd, hv⟩, hall⟩
    refine ⟨hu, hv, fun p hp => hall p hp a (Or.inl rfl), fun p hp => hall p hp b (Or.inr (Or.inl rfl)),
      fun p hp => hall p hp d (Or.inr (Or.inr (Or.inl rfl))),
      fun p hp q hq => hall p hp q (Or.inr (Or.inr (Or.inr hq))),
      ha b (Or.inl rfl), ha d (Or.inr (Or.inl rfl)), hb d (Or.inl rfl),
      fun q hq => ha q (Or.inr (Or.inr hq)), fun q hq => hb q (Or.inr hq), hd⟩
  · rintro ⟨hu, hv, h1, h2, h3, h4, h5, h6, h7, h8, h9, h10⟩
    refine ⟨hu, ⟨?_, ?_, h10, hv⟩, ?_⟩
    · rintro q (rfl | rfl | hq)
      · exact h5
      · exact h6
      · exact h8 q hq
    · rintro q (rfl | hq)
      · exact h7
      · exact h9 q hq
    · rintro p hp q (rfl | rfl | rfl | hq)
      · exact h1 p hp
      · exact h2 p hp
      · exact h3 p hp
      · exact h4 p hp q hq

theorem nd3 {u v : List Nat} {a b d : Nat} (h : (u ++ a :: b :: d :: v).Nodup) :
    (∀ p ∈ u, p ≠ a ∧ p ≠ b ∧ p ≠ d ∧ p ∉ v) ∧ (∀ q ∈ v, q ≠ a ∧ q ≠ b ∧ q ≠ d) ∧
      a ≠ b ∧ a ≠ d ∧ b ≠ d := by
  have h' := (pw3 (R := (· ≠ ·))).1 h
  obtain ⟨hu, hv, h1, h2, h3, h4, h5, h6, h7, h8, h9, h10⟩ := h'
  refine ⟨fun p hp => ⟨h1 p hp, h2 p hp, h3 p hp, fun hq => h4 p hp p hq rfl⟩,
    fun q hq => ⟨fun e => h8 q hq e.symm, fun e => h9 q hq e.symm, fun e => h10 q hq e.symm⟩, h5, h6, h7⟩

theorem pw_same {c c' : Nat → Nat} {k : Nat} {u : List Nat} (hu : u.Pairwise (Good c k))
    (hcu : ∀ a ∈ u, c' a = c a) : u.Pairwise (Good c' k) :=
  hu.imp_of_mem (fun ha hb h => by unfold Good at *; rw [hcu _ ha, hcu _ hb]; exact h)

theorem k1_hardA (u v : List Nat) (x y z : Nat) (hxy : x < y) (hyz : y < z)
    (hnd : (u ++ x :: z :: y :: v).Nodup) (c : Nat → Nat) (k : Nat)
    (h : (u ++ x :: z :: y :: v).Pairwise (Good c k))
    (hxz : c x = c z) (hxk : c x < k) (hy : k ≤ c y) :
    ∃ c', (u ++ z :: x :: y :: v).Pairwise (Good c' k) ∧
      colouredCount c' k (u ++ z :: x :: y :: v) = colouredCount c k (u ++ x :: z :: y :: v) := by
  obtain ⟨c', hc'⟩ : ∃ c' : Nat → Nat, ∀ a, c' a = if a = y then c x else if a = z then c y else c a :=
    ⟨_, fun _ => rfl⟩
  obtain ⟨ndu, ndv, nxz, nxy, nzy⟩ := nd3 hnd
  have hcu : ∀ a ∈ u, c' a = c a := by
    intro a ha; have := ndu a ha; rw [hc']; simp [this]
  have hcv : ∀ a ∈ v, c' a = c a := by
    intro a ha; have := ndv a ha; rw [hc']; simp [this]
  have hcx : c' x = c x := by rw [hc']; simp [nxy, nxz]
  have hcy : c' y = c x := by rw [hc']; simp
  have hcz : c' z = c y := by rw [hc']; simp [nzy]
  obtain ⟨hu, hv, h1, h2, h3, h4, h5, h6, h7, h8, h9, h10⟩ := pw3.1 h
  refine ⟨c', ?_, ?_⟩
  · refine pw3.2 ⟨pw_same hu hcu, pw_same hv hcv, ?_, ?_, ?_, ?_, ?_, ?_, ?_, ?_, ?_, ?_⟩ <;>
      unfold Good at * <;> grind
  · simp only [count_append, count_cons]
    rw [count_congr (c := c) (c' := c') (w := u) (by grind), count_congr (c := c) (c' := c') (w := v) (by grind)]
    grind

theorem pw_swap {c c' : Nat → Nat} {k i j : Nat} {v : List Nat} (hv : v.Pairwise (Good c k))
    (hi : i < k) (hj : j < k)
    (hcv : ∀ a ∈ v, c' a = if c a = i then j else if c a = j then i else c a) :
    v.Pairwise (Good c' k) :=
  hv.imp_of_mem (fun {a b} ha hb h => by
    unfold Good at *; rw [hcv _ ha, hcv _ hb]; clear hcv hv; grind)

theorem k1_hardB (u v : List Nat) (x y z : Nat) (hxy : x < y) (hyz : y < z)
    (hnd : (u ++ x :: z :: y :: v).Nodup) (c : Nat → Nat) (k : Nat)
    (h : (u ++ x :: z :: y :: v).Pairwise (Good c k))
    (hxz : c x = c z) (hxk : c x < k) (hy : c y < k) :
    ∃ c', (u ++ z :: x :: y :: v).Pairwise (Good c' k) ∧
      colouredCount c' k (u ++ z :: x :: y :: v) = colouredCount c k (u ++ x :: z :: y :: v) := by
  obtain ⟨c', hc'⟩ : ∃ c' : Nat → Nat, ∀ a, c' a =
      if a ∈ v then (if c a = c x then c y else if c a = c y then c x else c a)
      else if a = z then c y else if a = y then c x else c a :=
    ⟨_, fun _ => rfl⟩
  obtain ⟨ndu, ndv, nxz, nxy, nzy⟩ := nd3 hnd
  have hcu : ∀ a ∈ u, c' a = c a := by
    intro a ha; have := ndu a ha; rw [hc']; simp [this]
  have hcv : ∀ a ∈ v, c' a = if c a = c x then c y else if c a = c y then c x else c a := by
    intro a ha; rw [hc']; simp [ha]
  have hxv : x ∉ v := fun hq => (ndv x hq).1 rfl
  have hzv : z ∉ v := fun hq => (ndv z hq).2.1 rfl
  have hyv : y ∉ v := fun hq => (ndv y hq).2.2 rfl
  have hcx : c' x = c x := by rw [hc']; simp [nxy, nxz, hxv]
  have hcy : c' y = c x := by rw [hc']; simp [hyv, Ne.symm nzy]
  have hcz : c' z = c y := by rw [hc']; simp [hzv]
  obtain ⟨hu, hv, h1, h2, h3, h4, h5, h6, h7, h8, h9, h10⟩ := pw3.1 h
  clear hc' hnd h
  refine ⟨c', ?_, ?_⟩
  · refine pw3.2 ⟨pw_same hu hcu, pw_swap hv hxk hy hcv, ?_, ?_, ?_, ?_, ?_, ?_, ?_, ?_, ?_, ?_⟩ <;>
      unfold Good at * <;> grind
  · simp only [count_append, count_cons]
    rw [count_congr (c := c) (c' := c') (w := u) (by grind), count_congr (c := c) (c' := c') (w := v) (by grind)]
    grind

theorem k2_hardA (u v : List Nat) (x y z : Nat) (hxy : x < y) (hyz : y < z)
    (hnd : (u ++ y :: x :: z :: v).Nodup) (c : Nat → Nat) (k : Nat)
    (h : (u ++ y :: x :: z :: v).Pairwise (Good c k))
    (hxz : c x = c z) (hxk : c x < k) (hy : k ≤ c y) :
    ∃ c', (u ++ y :: z :: x :: v).Pairwise (Good c' k) ∧
      colouredCount c' k (u ++ y :: z :: x :: v) = colouredCount c k (u ++ y :: x :: z :: v) := by
  obtain ⟨c', hc'⟩ : ∃ c' : Nat → Nat, ∀ a, c' a = if a = y then c x else if a = x then c y else c a :=
    ⟨_, fun _ => rfl⟩
  obtain ⟨ndu, ndv, nyx, nyz, nxz⟩ := nd3 hnd
  have hcu : ∀ a ∈ u, c' a = c a := by
    intro a ha; have := ndu a ha; rw [hc']; simp [this]
  have hcv : ∀ a ∈ v, c' a = c a := by
    intro a ha; have := ndv a ha; rw [hc']; simp [this]
  have hcx : c' x = c y := by rw [hc']; simp [Ne.symm nyx]
  have hcy : c' y = c x := by rw [hc']; simp
  have hcz : c' z = c z := by rw [hc']; simp [Ne.symm nyz, Ne.symm nxz]
  obtain ⟨hu, hv, h1, h2, h3, h4, h5, h6, h7, h8, h9, h10⟩ := pw3.1 h
  clear hc' hnd h
  refine ⟨c', ?_, ?_⟩
  · refine pw3.2 ⟨pw_same hu hcu, pw_same hv hcv, ?_, ?_, ?_, ?_, ?_, ?_, ?_, ?_, ?_, ?_⟩ <;>
      unfold Good at * <;> grind
  · simp only [count_append, count_cons]
    rw [count_congr (c := c) (c' := c') (w := u) (by grind), count_congr (c := c) (c' := c') (w := v) (by grind)]
    grind

theorem k2_hardB (u v : List Nat) (x y z : Nat) (hxy : x < y) (hyz : y < z)
    (hnd : (u ++ y :: x :: z :: v).Nodup) (c : Nat → Nat) (k : Nat)
    (h : (u ++ y :: x :: z :: v).Pairwise (Good c k))
    (hxz : c x = c z) (hxk : c x < k) (hy : c y < k) :
    ∃ c', (u ++ y :: z :: x :: v).Pairwise (Good c' k) ∧
      colouredCount c' k (u ++ y :: z :: x :: v) = colouredCount c k (u ++ y :: x :: z :: v) := by
  obtain ⟨c', hc'⟩ : ∃ c' : Nat → Nat, ∀ a, c' a =
      if a ∈ v then (if c a = c x then c y else if c a = c y then c x else c a)
      else if a = z then c y else c a :=
    ⟨_, fun _ => rfl⟩
  obtain ⟨ndu, ndv, nyx, nyz, nxz⟩ := nd3 hnd
  have hcu : ∀ a ∈ u, c' a = c a := by
    intro a ha; have := ndu a ha; rw [hc']; simp [this]
  have hcv : ∀ a ∈ v, c' a = if c a = c x then c y else if c a = c y then c x else c a := by
    intro a ha; rw [hc']; simp [ha]
  have hyv : y ∉ v := fun hq => (ndv y hq).1 rfl
  have hxv : x ∉ v := fun hq => (ndv x hq).2.1 rfl
  have hzv : z ∉ v := fun hq => (ndv z hq).2.2 rfl
  have hcx : c' x = c x := by rw [hc']; simp [nxz, hxv]
  have hcy : c' y = c y := by rw [hc']; simp [hyv, nyz]
  have hcz : c' z = c y := by rw [hc']; simp [hzv]
  obtain ⟨hu, hv, h1, h2, h3, h4, h5, h6, h7, h8, h9, h10⟩ := pw3.1 h
  clear hc' hnd h
  refine ⟨c', ?_, ?_⟩
  · refine pw3.2 ⟨pw_same hu hcu, pw_swap hv hxk hy hcv, ?_, ?_, ?_, ?_, ?_, ?_, ?_, ?_, ?_, ?_⟩ <;>
      unfold Good at * <;> grind
  · simp only [count_append, count_cons]
    rw [count_congr (c := c) (c' := c') (w := u) (by grind), count_congr (c := c) (c' := c') (w := v) (by grind)]
    grind

/-- two adjacent letters may be exchanged under the same colouring as soon as the new order is good -/
theorem hasCol_swap {u v : List Nat} {a b : Nat} {c : Nat → Nat} {k : Nat}
    (h : (u ++ a :: b :: v).Pairwise (Good c k)) (hba : Good c k b a) :
    HasCol k (u ++ b :: a :: v) (colouredCount c k (u ++ a :: b :: v)) :=
  ⟨c, (isInc_iff _ _ _).2 (pairwise_swap h hba),
    count_perm c k (Perm.append_left _ (Perm.swap _ _ _))⟩

theorem k1_bwd (u v : List Nat) (x y z : Nat) (hxy : x < y) (hyz : y < z) (k m : Nat)
    (h : HasCol k (u ++ z :: x :: y :: v) m) : HasCol k (u ++ x :: z :: y :: v) m := by
  obtain ⟨c, hc, rfl⟩ := h
  exact hasCol_swap ((isInc_iff _ _ _).1 hc) (fun _ _ => by omega)

theorem k2_bwd (u v : List Nat) (x y z : Nat) (hxy : x < y) (hyz : y < z) (k m : Nat)
    (h : HasCol k (u ++ y :: z :: x :: v) m) : HasCol k (u ++ y :: x :: z :: v) m := by
  obtain ⟨c, hc, rfl⟩ := h
  have e1 : u ++ y :: z :: x :: v = (u ++ [y]) ++ z :: x :: v := by simp
  have e2 : u ++ y :: x :: z :: v = (u ++ [y]) ++ x :: z :: v := by simp
  rw [e1] at hc ⊢
  rw [e2]
  exact hasCol_swap ((isInc_iff _ _ _).1 hc) (fun _ _ => by omega)

theorem k1_fwd (u v : List Nat) (x y z : Nat) (hxy : x < y) (hyz : y < z)
    (hnd : (u ++ x :: z :: y :: v).Nodup) (k m : Nat)
    (h : HasCol k (u ++ x :: z :: y :: v) m) : HasCol k (u ++ z :: x :: y :: v) m := by
  obtain ⟨c, hc, rfl⟩ := h
  rw [isInc_iff] at hc
  by_cases hg : c x = c z ∧ c x < k
  · by_cases hy : c y < k
    · obtain ⟨c', h1, h2⟩ := k1_hardB u v x y z hxy hyz hnd c k hc hg.1 hg.2 hy
      exact ⟨c', (isInc_iff _ _ _).2 h1, h2⟩
    · obtain ⟨c', h1, h2⟩ := k1_hardA u v x y z hxy hyz hnd c k hc hg.1 hg.2 (by omega)
      exact ⟨c', (isInc_iff _ _ _).2 h1, h2⟩
  · exact hasCol_swap hc (fun h1 h2 => absurd ⟨h1.symm, h1 ▸ h2⟩ hg)

theorem k2_fwd (u v : List Nat) (x y z : Nat) (hxy : x < y) (hyz : y < z)
    (hnd : (u ++ y :: x :: z :: v).Nodup) (k m : Nat)
    (h : HasCol k (u ++ y :: x :: z :: v) m) : HasCol k (u ++ y :: z :: x :: v) m := by
  obtain ⟨c, hc, rfl⟩ := h
  rw [isInc_iff] at hc
  by_cases hg : c x = c z ∧ c x < k
  · by_cases hy : c y < k
    · obtain ⟨c', h1, h2⟩ := k2_hardB u v x y z hxy hyz hnd c k hc hg.1 hg.2 hy
      exact ⟨c', (isInc_iff _ _ _).2 h1, h2⟩
    · obtain ⟨c', h1, h2⟩ := k2_hardA u v x y z hxy hyz hnd c k hc hg.1 hg.2 (by omega)
      exact ⟨c', (isInc_iff _ _ _).2 h1, h2⟩
  · have e1 : u ++ y :: z :: x :: v = (u ++ [y]) ++ z :: x :: v := by simp
    have e2 : u ++ y :: x :: z :: v = (u ++ [y]) ++ x :: z :: v := by simp
    rw [e2] at hc ⊢
    rw [e1]
    exact hasCol_swap hc (fun h1 h2 => absurd ⟨h1.symm, h1 ▸ h2⟩ hg)

theorem knuth_hasCol_aux {a b : List Nat} (h : Knuth a b) :
    a.Nodup → ∀ k m : Nat, HasCol k a m ↔ HasCol k b m := by
  induction h with
  | refl w => exact fun _ _ _ => Iff.rfl
  | k1 u v x y z hxy hyz =>
    exact fun hnd k m => ⟨k1_fwd u v x y z hxy hyz hnd k m, k1_bwd u v x y z hxy hyz k m⟩
  | k2 u v x y z hxy hyz =>
    exact fun hnd k m => ⟨k2_fwd u v x y z hxy hyz hnd k m, k2_bwd u v x y z hxy hyz k m⟩
  | symm h ih => exact fun hnd k m => (ih ((Knuth.perm h).nodup_iff.2 hnd) k m).symm
  | trans h1 _ ih1 ih2 =>
    exact fun hnd k m => (ih1 hnd k m).trans (ih2 ((Knuth.perm h1).nodup_iff.1 hnd) k m)

/-- the number of letters that `k` increasing subsequences can cover is a Knuth invariant -/
theorem knuth_hasCol {a b : List Nat} (h : Knuth a b) (hnd : a.Nodup) (k m : Nat) :
    HasCol k a m ↔ HasCol k b m := knuth_hasCol_aux h hnd k m

end C12
