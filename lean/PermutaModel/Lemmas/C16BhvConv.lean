import PermutaModel.Lemmas.C16BhvAlt
import PermutaModel.Lemmas.C16BhvTree
/-!
# C16 — the unavoidable-substructures theorem: converging pin sequences give an alternation

`AltG`: an alternation about a level on the axis `v`, the `a`s on the side `up`; `altG_case` brings it into the
horizontal position by symmetries.  `conv_sep`: if two proper pin sequences with maximality continue with the
same pin `x`, their pins before `x` (both on the side `up` of the level of `x`) are separated, in the other
coordinate, by a point on the other side of the level – otherwise each would be a pin for the hull of the other
sequence, and both would be the farthest one.
-/
namespace C16P

theorem maxPinSeq_suffix {P : List Pt} (pre : List Pt) : ∀ {v : Bool} {l : List Pt},
    MaxPinSeq P v (pre ++ l) → ∃ v', MaxPinSeq P v' l := by
  induction pre with
  | nil => intro v l h; exact ⟨v, h⟩
  | cons a pre ih => intro v l h; exact ih (maxPinSeq_tail h)

/-- two colours: a long family has a long sub-family on which a property is constant -/
theorem pigeon2 (m : Nat) : ∃ D, ∀ Q : Nat → Prop, ∃ ι : Nat → Nat, (∀ s t, s < t → t < m → ι s < ι t) ∧
    (∀ s, s < m → ι s < D) ∧ ((∀ s, s < m → Q (ι s)) ∨ (∀ s, s < m → ¬ Q (ι s))) := by
  obtain ⟨D, hD⟩ := pigeonhole_fn 2 m
  refine ⟨D, fun Q => ?_⟩
  classical
  obtain ⟨ι, cl, h1, h2, h3⟩ := hD (fun u => if Q u then 1 else 0) (fun u _ => by split <;> omega)
  refine ⟨ι, h1, h2, ?_⟩
  by_cases hcl : cl = 1
  · left
    intro s hs
    have := h3 s hs
    by_cases hq : Q (ι s)
    · exact hq
    · simp [hq] at this; omega
  · right
    intro s hs hq
    have := h3 s hs
    simp [hq] at this; omega

/-- order on the axis, read upwards or downwards -/
def ltS (up : Bool) (a b : Rat) : Prop := if up then a < b else b < a

/-- an alternation of `m` points `a` and `m - 1` points `b` of `P`, alternating in the coordinate `co (!v)`,
    about the level `t` of the coordinate `co v`: the `a`s on the side `up`, the `b`s on the other side -/
structure AltG (P : List Pt) (m : Nat) (a b : Nat → Pt) (v up : Bool) (t : Rat) : Prop where
  amem : ∀ i, i < m → a i ∈ P
  bmem : ∀ i, i + 1 < m → b i ∈ P
  ab : ∀ i, i + 1 < m → co (!v) (a i) < co (!v) (b i) ∧ co (!v) (b i) < co (!v) (a (i + 1))
  aside : ∀ i, i < m → ltS up t (co v (a i))
  bside : ∀ i, i + 1 < m → ltS up (co v (b i)) t

/-- every long alternation, in whatever position, gives an outcome -/
theorem altG_case (k : Nat) (hk : 1 ≤ k) : ∃ m0, ∀ (P : List Pt), Good P → ¬ HasPinCfg P k →
    ∀ a b v up t, AltG P m0 a b v up t → Outcome P k := by
  obtain ⟨m0, hm0⟩ := alt_case k hk
  refine ⟨m0, ?_⟩
  -- horizontal, upwards
  have base : ∀ (P : List Pt), Good P → ¬ HasPinCfg P k → ∀ a b t, AltG P m0 a b false true t → Outcome P k := by
    intro P hG hno a b t h
    refine hm0 P hG hno a b t ⟨h.amem, h.bmem, ?_, ?_, ?_⟩
    · intro i hi; simpa [co] using h.ab i hi
    · intro i hi; simpa [co, ltS] using h.aside i hi
    · intro i hi; simpa [co, ltS] using h.bside i hi
  -- horizontal, either side
  have horiz : ∀ (P : List Pt), Good P → ¬ HasPinCfg P k → ∀ a b up t, AltG P m0 a b false up t → Outcome P k := by
    intro P hG hno a b up t h
    cases up with
    | true => exact base P hG hno a b t h
    | false =>
      apply outcome_of_map Gen.ny P k
      refine base _ (good_map Gen.ny P hG) (fun hh => hno (hasPinCfg_of_map Gen.ny P k hh))
        (fun i => Gen.ny.app (a i)) (fun i => Gen.ny.app (b i)) (-t)
        ⟨fun i hi => List.mem_map_of_mem (h.amem i hi), fun i hi => List.mem_map_of_mem (h.bmem i hi), ?_, ?_, ?_⟩
      · intro i hi; simpa [co, Gen.app] using h.ab i hi
      · intro i hi
        have := h.aside i hi
        simp only [co, ltS, Gen.app, Bool.false_eq_true, if_false, if_true] at this ⊢
        grind
      · intro i hi
        have := h.bside i hi
        simp only [co, ltS, Gen.app, Bool.false_eq_true, if_false, if_true] at this ⊢
        grind
  intro P hG hno a b v up t h
  cases v with
  | false => exact horiz P hG hno a b up t h
  | true =>
    apply outcome_of_map Gen.sw P k
    refine horiz _ (good_map Gen.sw P hG) (fun hh => hno (hasPinCfg_of_map Gen.sw P k hh))
      (fun i => Gen.sw.app (a i)) (fun i => Gen.sw.app (b i)) up t
      ⟨fun i hi => List.mem_map_of_mem (h.amem i hi), fun i hi => List.mem_map_of_mem (h.bmem i hi), ?_, ?_, ?_⟩
    · intro i hi; simpa [co, Gen.app] using h.ab i hi
    · intro i hi; simpa [co, Gen.app] using h.aside i hi
    · intro i hi; simpa [co, Gen.app] using h.bside i hi

/-- **converging pin sequences are separated**: two proper pin sequences with maximality `x :: q₁ :: rest₁` and
    `x :: q₂ :: rest₂` (each `restᵢ` of at least two points) with `q₁`, `q₂` on the side `up` of the level of
    `x` are separated in the other coordinate by a point of `P` on the other side of the level -/
theorem conv_sep (P : List Pt) (hG : Good P) (v up : Bool) (x q1 q2 r1 r2 : Pt) (rest1 rest2 : List Pt)
    (hr1 : rest1 ≠ []) (hr2 : rest2 ≠ [])
    (hP1 : MaxPinSeq P v (x :: q1 :: r1 :: rest1)) (hP2 : MaxPinSeq P v (x :: q2 :: r2 :: rest2))
    (hs1 : ∀ a ∈ x :: q1 :: r1 :: rest1, a ∈ P) (hs2 : ∀ a ∈ x :: q2 :: r2 :: rest2, a ∈ P)
    (hu1 : ltS up (co v x) (co v q1)) (hu2 : ltS up (co v x) (co v q2))
    (hd1 : ∀ r ∈ r1 :: rest1, ltS up (co v r) (co v x)) (hd2 : ∀ r ∈ r2 :: rest2, ltS up (co v r) (co v x))
    (hlt : co (!v) q1 < co (!v) q2) :
    ∃ w ∈ P, ltS up (co v w) (co v x) ∧ co (!v) q1 < co (!v) w ∧ co (!v) w < co (!v) q2 := by
  apply Classical.byContradiction
  intro hno
  have hq1P : q1 ∈ P := hs1 q1 (by simp)
  have hq2P : q2 ∈ P := hs2 q2 (by simp)
  have hq12 : q1 ≠ q2 := by intro h; rw [h] at hlt; exact absurd hlt (by grind)
  -- the maximal-pin data of `q₁`, `q₂`
  have hm1 : ∃ pos, IsMaxPinS P (!v) pos (r1 :: rest1) q1 := by
    have := maxPinSeq_tail hP1
    rw [maxPinSeq_cons hr1] at this
    exact this.2.1
  have hm2 : ∃ pos, IsMaxPinS P (!v) pos (r2 :: rest2) q2 := by
    have := maxPinSeq_tail hP2
    rw [maxPinSeq_cons hr2] at this
    exact this.2.1
  obtain ⟨pos1, ⟨hin1, hbey1⟩, hmax1⟩ := hm1
  obtain ⟨pos2, ⟨hin2, hbey2⟩, hmax2⟩ := hm2
  rw [Bool.not_not] at hbey1 hbey2 hmax1 hmax2
  -- the sides are `up`
  have hpos1 : pos1 = up := by
    have := hd1 r1 (by simp)
    cases pos1 <;> cases up <;> simp only [Beyond, ltS, Bool.false_eq_true, if_false, if_true] at * <;>
      first | rfl | (have := hbey1 r1 (by simp); grind)
  have hpos2 : pos2 = up := by
    have := hd2 r2 (by simp)
    cases pos2 <;> cases up <;> simp only [Beyond, ltS, Bool.false_eq_true, if_false, if_true] at * <;>
      first | rfl | (have := hbey2 r2 (by simp); grind)
  rw [hpos1] at hbey1 hmax1
  rw [hpos2] at hbey2 hmax2
  -- a point of a `restᵢ` is on the other side of the level, hence differs from `q₁`, `q₂` in every coordinate
  have hne : ∀ r, (ltS up (co v r) (co v x)) → r ∈ P → ∀ q, q ∈ P → ltS up (co v x) (co v q) →
      co (!v) r ≠ co (!v) q := by
    intro r hr hrP q hqP hq
    apply coord_ne hG.xnd hG.ynd hrP hqP
    intro h; subst h
    cases up <;> simp only [ltS, Bool.false_eq_true, if_false, if_true] at hr hq <;> grind
  -- `q₂` is a pin for the hull of `r₁ :: rest₁` …
  have pin21 : IsPinS (!v) up (r1 :: rest1) q2 := by
    refine ⟨?_, ?_⟩
    · obtain ⟨⟨a, ha, hle⟩, ⟨b, hb, hge⟩⟩ := hin1
      refine ⟨⟨a, ha, by grind⟩, ?_⟩
      -- `b` is to the right of `q₁`, on the other side: not strictly between, so to the right of `q₂`
      have hbP : b ∈ P := hs1 b (by simp only [List.mem_cons] at hb ⊢; tauto)
      have hbd := hd1 b hb
      have n1 := hne b hbd hbP q1 hq1P hu1
      have n2 := hne b hbd hbP q2 hq2P hu2
      refine ⟨b, hb, ?_⟩
      apply Classical.byContradiction
      intro hlt2
      exact hno ⟨b, hbP, hbd, by grind, by grind⟩
    · rw [Bool.not_not]
      cases up <;> simp only [Beyond, ltS, Bool.false_eq_true, if_false, if_true] at * <;>
        intro r hr <;> have := hd1 r hr <;> grind
  -- … and `q₁` for the hull of `r₂ :: rest₂`
  have pin12 : IsPinS (!v) up (r2 :: rest2) q1 := by
    refine ⟨?_, ?_⟩
    · obtain ⟨⟨a, ha, hle⟩, ⟨b, hb, hge⟩⟩ := hin2
      refine ⟨?_, ⟨b, hb, by grind⟩⟩
      have haP : a ∈ P := hs2 a (by simp only [List.mem_cons] at ha ⊢; tauto)
      have had := hd2 a ha
      have n1 := hne a had haP q1 hq1P hu1
      have n2 := hne a had haP q2 hq2P hu2
      refine ⟨a, ha, ?_⟩
      apply Classical.byContradiction
      intro hlt2
      exact hno ⟨a, haP, had, by grind, by grind⟩
    · rw [Bool.not_not]
      cases up <;> simp only [Beyond, ltS, Bool.false_eq_true, if_false, if_true] at * <;>
        intro r hr <;> have := hd2 r hr <;> grind
  have f1 := hmax1 q2 hq2P pin21
  have f2 := hmax2 q1 hq1P pin12
  have hcne := coord_ne hG.xnd hG.ynd hq1P hq2P hq12 v
  cases up <;> simp only [Farther, Bool.false_eq_true, if_false, if_true] at f1 f2 <;> grind

end C16P
