import PermutaModel.Lemmas.C17Basic
/-! C17 helper lemmas about permutations: counting, uniqueness of the standardisation,
    one-point deletion (`delPoint`). -/

namespace Model.C17

theorem getD_of_lt (l : List Nat) (i : Nat) (h : i < l.length) : l.getD i 0 = l[i] := by
  simp [List.getD_eq_getElem?_getD, List.getElem?_eq_getElem h]

theorem getD_of_ge (l : List Nat) (i : Nat) (h : l.length ≤ i) : l.getD i 0 = 0 := by
  simp [List.getD_eq_getElem?_getD, List.getElem?_eq_none h]

/-- a permutation is a rearrangement of `range n` -/
theorem _root_.IsPerm.perm_range {p : NSeq} (h : IsPerm p) : p.Perm (List.range p.length) := by
  rw [List.perm_ext_iff_of_nodup h.1 List.nodup_range]
  intro a
  rw [List.mem_range]
  constructor
  · exact h.2 a
  · intro ha
    obtain ⟨i, hi, hia⟩ := h.surj ha
    rw [getD_of_lt p i hi] at hia
    rw [← hia]; exact List.getElem_mem hi

theorem countP_lt_range (n y : Nat) (h : y ≤ n) : (List.range n).countP (fun v => decide (v < y)) = y := by
  induction n with
  | zero => simp at h; subst h; simp
  | succ n ih =>
    rw [List.range_succ, List.countP_append]
    by_cases hy : y ≤ n
    · rw [ih hy]; simp; omega
    · have : y = n + 1 := by omega
      subst this
      have : (List.range n).countP (fun v => decide (v < n + 1)) = n := by
        rw [List.countP_eq_length_filter]
        have : (List.range n).filter (fun v => decide (v < n + 1)) = List.range n := by
          rw [List.filter_eq_self]; intro a ha; rw [List.mem_range] at ha; simp; omega
        rw [this]; simp
      rw [this]; simp

/-- in a permutation exactly `y` entries are below `y` -/
theorem _root_.IsPerm.countP_lt {p : NSeq} (h : IsPerm p) (y : Nat) (hy : y ≤ p.length) :
    p.countP (fun v => decide (v < y)) = y := by
  rw [(IsPerm.perm_range h).countP_eq, countP_lt_range _ _ hy]

theorem map_getD_range (p : NSeq) : (List.range p.length).map (fun k => p.getD k 0) = p := by
  apply List.ext_getElem
  · simp
  · intro i h1 h2
    simp only [List.getElem_map, List.getElem_range]
    exact getD_of_lt p i h2

theorem _root_.IsPerm.countP_idx_lt {p : NSeq} (h : IsPerm p) (y : Nat) (hy : y ≤ p.length) :
    (List.range p.length).countP (fun k => decide (p.getD k 0 < y)) = y := by
  have := IsPerm.countP_lt h y hy
  rw [← map_getD_range p, List.countP_map] at this
  simpa [Function.comp_def] using this

/-- two permutations of the same length with the same relative order are equal -/
theorem perm_eq_of_iso {π ρ : NSeq} (hπ : IsPerm π) (hρ : IsPerm ρ) (hl : π.length = ρ.length)
    (hiso : ∀ a b, a < π.length → b < π.length →
      (π.getD a 0 < π.getD b 0 ↔ ρ.getD a 0 < ρ.getD b 0)) : π = ρ := by
  have key : ∀ v, ∀ a, a < π.length → (π.getD a 0 = v ∨ ρ.getD a 0 = v) → π.getD a 0 = ρ.getD a 0 := by
    intro v
    induction v using Nat.strong_induction_on with
    | _ v ih =>
      intro a ha hv
      rcases Nat.lt_trichotomy (π.getD a 0) (ρ.getD a 0) with hlt | heq | hgt
      · exfalso
        rcases hv with hv | hv
        · -- π[a] = v < ρ[a]; the position b of v in ρ
          have hvl : v < ρ.length := by rw [← hl, ← hv]; exact hπ.getD_lt ha
          obtain ⟨b, hb, hbv⟩ := hρ.surj hvl
          have hb' : b < π.length := by omega
          have h1 : ρ.getD b 0 < ρ.getD a 0 := by omega
          have h2 : π.getD b 0 < π.getD a 0 := (hiso b a hb' ha).mpr h1
          have := ih (π.getD b 0) (by omega) b hb' (Or.inl rfl)
          omega
        · have := ih (π.getD a 0) (by omega) a ha (Or.inl rfl)
          omega
      · exact heq
      · exfalso
        rcases hv with hv | hv
        · have := ih (ρ.getD a 0) (by omega) a ha (Or.inr rfl)
          omega
        · have hvl : v < π.length := by rw [hl, ← hv]; exact hρ.getD_lt (by omega)
          obtain ⟨b, hb, hbv⟩ := hπ.surj hvl
          have h1 : π.getD b 0 < π.getD a 0 := by omega
          have h2 : ρ.getD b 0 < ρ.getD a 0 := (hiso b a hb ha).mp h1
          have := ih (ρ.getD b 0) (by omega) b hb (Or.inr rfl)
          omega
  apply List.ext_getElem hl
  intro i h1 h2
  have := key (π.getD i 0) i h1 (Or.inl rfl)
  rwa [getD_of_lt π i h1, getD_of_lt ρ i h2] at this

/-! ### one-point deletion -/

/-- position in the original permutation of position `k` of the permutation with `i` deleted -/
def lift (i k : Nat) : Nat := if k < i then k else k + 1
/-- inverse direction (for `k ≠ i`) -/
def unlift (i k : Nat) : Nat := if k < i then k else k - 1

theorem lift_unlift (i k : Nat) (h : k ≠ i) : lift i (unlift i k) = k := by
  unfold lift unlift
  by_cases h1 : k < i
  · simp [h1]
  · simp only [h1, if_false]
    have : ¬ (k - 1 < i) := by omega
    simp only [this, if_false]; omega

theorem length_delPoint (τ : NSeq) (i : Nat) (h : i < τ.length) : (delPoint τ i).length = τ.length - 1 := by
  unfold delPoint; simp [List.length_eraseIdx, h]

theorem delPoint_getD (τ : NSeq) (i k : Nat) (h : i < τ.length) (hk : k + 1 < τ.length) :
    (delPoint τ i).getD k 0 =
      if τ.getD (lift i k) 0 > τ.getD i 0 then τ.getD (lift i k) 0 - 1 else τ.getD (lift i k) 0 := by
  unfold delPoint
  rw [List.getD_eq_getElem?_getD, List.getElem?_map, List.getElem?_eraseIdx]
  unfold lift
  by_cases hki : k < i
  · simp only [hki, if_true]
    rw [List.getElem?_eq_getElem (by omega), getD_of_lt τ k (by omega)]
    simp
  · simp only [hki, if_false]
    rw [List.getElem?_eq_getElem (by omega), getD_of_lt τ (k+1) (by omega)]
    simp

/-- deleted value differs from every other one -/
theorem lift_val_ne {τ : NSeq} (hτ : IsPerm τ) (i k : Nat) (h : i < τ.length) (hk : k + 1 < τ.length) :
    τ.getD (lift i k) 0 ≠ τ.getD i 0 := by
  intro heq
  have hl : lift i k < τ.length := by unfold lift; split <;> omega
  have := hτ.getD_inj hl h heq
  unfold lift at this; split at this <;> omega

theorem delPoint_lt_iff {τ : NSeq} (hτ : IsPerm τ) (i a b : Nat) (h : i < τ.length)
    (ha : a + 1 < τ.length) (hb : b + 1 < τ.length) :
    ((delPoint τ i).getD a 0 < (delPoint τ i).getD b 0 ↔ τ.getD (lift i a) 0 < τ.getD (lift i b) 0) := by
  rw [delPoint_getD τ i a h ha, delPoint_getD τ i b h hb]
  have h1 := lift_val_ne hτ i a h ha
  have h2 := lift_val_ne hτ i b h hb
  split <;> split <;> omega

theorem isPerm_delPoint {τ : NSeq} (hτ : IsPerm τ) (i : Nat) (h : i < τ.length) : IsPerm (delPoint τ i) := by
  have hlen := length_delPoint τ i h
  constructor
  · rw [List.nodup_iff_injective_getElem]
    intro ⟨a, ha⟩ ⟨b, hb⟩ hab
    simp only at hab
    rw [← getD_of_lt _ a ha, ← getD_of_lt _ b hb] at hab
    have ha' : a + 1 < τ.length := by omega
    have hb' : b + 1 < τ.length := by omega
    have h1 := (delPoint_lt_iff hτ i a b h ha' hb')
    have h2 := (delPoint_lt_iff hτ i b a h hb' ha')
    have hne : ¬ τ.getD (lift i a) 0 < τ.getD (lift i b) 0 := by rw [← h1]; omega
    have hne2 : ¬ τ.getD (lift i b) 0 < τ.getD (lift i a) 0 := by rw [← h2]; omega
    have heq : τ.getD (lift i a) 0 = τ.getD (lift i b) 0 := by omega
    have hla : lift i a < τ.length := by unfold lift; split <;> omega
    have hlb : lift i b < τ.length := by unfold lift; split <;> omega
    have := hτ.getD_inj hla hlb heq
    apply Fin.ext
    simp only
    unfold lift at this; split at this <;> split at this <;> omega
  · intro x hx
    obtain ⟨k, hk, rfl⟩ := List.getElem_of_mem hx
    rw [← getD_of_lt _ k hk, delPoint_getD τ i k h (by omega), hlen]
    have hl : lift i k < τ.length := by unfold lift; split <;> omega
    have h1 := hτ.getD_lt hl
    have h2 := hτ.getD_lt h
    have h3 := lift_val_ne hτ i k h (by omega)
    split <;> omega

end Model.C17
