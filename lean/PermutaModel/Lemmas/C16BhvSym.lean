import PermutaModel.Lemmas.C16BhvDefs
/-!
# C16 — the symmetries of the plane preserve everything the proof uses

The three generators `Gen.nx`, `Gen.ny`, `Gen.sw` (and their compositions `applyAll`) map proper pin
sequences to proper pin sequences, simple configurations to simple configurations, and the permutation
of a transformed configuration is a dihedral image of the permutation of the configuration.
-/
namespace C16P.Sym

/-- the coordinate `g` after `T` is the coordinate `f`, possibly negated -/
def Rel (f g : Pt → Rat) (T : Pt → Pt) : Prop := (∀ p, g (T p) = f p) ∨ (∀ p, g (T p) = - f p)

theorem btw_map {f g : Pt → Rat} {T : Pt → Pt} (h : Rel f g T) {p q : Pt} {rest : List Pt}
    (hb : Btw f p q rest) : Btw g (T p) (T q) (rest.map T) := by
  unfold Btw at *
  simp only [List.forall_mem_map]
  rcases h with h | h
  · simp only [h]; exact hb
  · simp only [h]
    rcases hb with ⟨h1, h2⟩ | ⟨h1, h2⟩
    · right; exact ⟨fun r hr => by have := h1 r hr; grind, by grind⟩
    · left; exact ⟨fun r hr => by have := h1 r hr; grind, by grind⟩

theorem extr_map {f g : Pt → Rat} {T : Pt → Pt} (h : Rel f g T) {p : Pt} {l : List Pt}
    (hb : Extr f p l) : Extr g (T p) (l.map T) := by
  unfold Extr at *
  simp only [List.forall_mem_map]
  rcases h with h | h
  · simp only [h]; exact hb
  · simp only [h]
    rcases hb with h1 | h1
    · right; exact fun r hr => by have := h1 r hr; grind
    · left; exact fun r hr => by have := h1 r hr; grind

theorem out_back {f g : Pt → Rat} {T : Pt → Pt} (h : Rel f g T) {L : List Pt} {S' : Pt → Prop} {c : Pt}
    (ho : Out g (L.map T) S' (T c)) : Out f L (fun p => S' (T p)) c := by
  unfold Out at *
  simp only [List.forall_mem_map] at ho
  rcases h with h | h
  · simp only [h] at ho; exact ho
  · simp only [h] at ho
    rcases ho with h1 | h1
    · right; exact fun s hs hS => by have := h1 s hs hS; grind
    · left; exact fun s hs hS => by have := h1 s hs hS; grind

theorem rel_co (t : Gen) (v : Bool) : Rel (co v) (co (t.ax v)) t.app := by
  cases t <;> cases v
  · left; intro p; rfl
  · right; intro p; rfl
  · right; intro p; rfl
  · left; intro p; rfl
  · left; intro p; rfl
  · left; intro p; rfl

theorem ax_not (t : Gen) (v : Bool) : t.ax (!v) = !(t.ax v) := by
  cases t <;> cases v <;> rfl

theorem sepA_map (t : Gen) {v : Bool} {p q : Pt} {rest : List Pt} (h : SepA v p q rest) :
    SepA (t.ax v) (t.app p) (t.app q) (rest.map t.app) := by
  refine ⟨btw_map (rel_co t v) h.1, ?_⟩
  have := extr_map (rel_co t (!v)) h.2
  rw [ax_not] at this
  simpa using this

/-- the coordinate lists of a transformed configuration -/
theorem coords_nodup (t : Gen) {P : List Pt} (hx : (P.map Prod.fst).Nodup) (hy : (P.map Prod.snd).Nodup) :
    ((P.map t.app).map Prod.fst).Nodup ∧ ((P.map t.app).map Prod.snd).Nodup := by
  cases t
  · have e1 : (P.map (Gen.app .nx)).map Prod.fst = (P.map Prod.fst).map Neg.neg := by
      simp [Gen.app, List.map_map, Function.comp_def]
    have e2 : (P.map (Gen.app .nx)).map Prod.snd = P.map Prod.snd := by
      simp [Gen.app, List.map_map, Function.comp_def]
    rw [e1, e2]; exact ⟨C14S.neg_nodup hx, hy⟩
  · have e1 : (P.map (Gen.app .ny)).map Prod.fst = P.map Prod.fst := by
      simp [Gen.app, List.map_map, Function.comp_def]
    have e2 : (P.map (Gen.app .ny)).map Prod.snd = (P.map Prod.snd).map Neg.neg := by
      simp [Gen.app, List.map_map, Function.comp_def]
    rw [e1, e2]; exact ⟨hx, C14S.neg_nodup hy⟩
  · have e1 : (P.map (Gen.app .sw)).map Prod.fst = P.map Prod.snd := by
      simp [Gen.app, List.map_map, Function.comp_def]
    have e2 : (P.map (Gen.app .sw)).map Prod.snd = P.map Prod.fst := by
      simp [Gen.app, List.map_map, Function.comp_def]
    rw [e1, e2]; exact ⟨hy, hx⟩

theorem permOfPts_app (t : Gen) {P : List Pt} (hx : (P.map Prod.fst).Nodup) (hy : (P.map Prod.snd).Nodup) :
    Model.C14.permOfPts (P.map t.app) = t.d8.act (Model.C14.permOfPts P) := by
  cases t
  · exact C14S.permOfPts_negX hx
  · exact C14S.permOfPts_negY hx hy
  · exact C14S.permOfPts_swap hx hy

end C16P.Sym

namespace C16P
open C16P.Sym

theorem Gen.app_app (t : Gen) (p : Pt) : t.app (t.app p) = p := by
  cases t <;> simp [Gen.app]

theorem Gen.app_injective (t : Gen) : Function.Injective t.app := by
  intro a b h
  have := congrArg t.app h
  simpa [Gen.app_app] using this

theorem applyAll_injective (ts : List Gen) : Function.Injective (applyAll ts) := by
  induction ts with
  | nil => intro a b h; exact h
  | cons t ts ih =>
    intro a b h
    exact t.app_injective (ih h)

theorem applyAll_append (ts ts' : List Gen) (p : Pt) :
    applyAll (ts ++ ts') p = applyAll ts' (applyAll ts p) := by
  simp [applyAll, List.foldl_append]

/-- a proper pin sequence is mapped to a proper pin sequence (the transposition exchanges the axes) -/
theorem pinSeqA_map (t : Gen) : ∀ (v : Bool) (L : List Pt), PinSeqA v L → PinSeqA (t.ax v) (L.map t.app)
  | _, [], _ => trivial
  | _, [_], _ => trivial
  | _, [_, _], _ => trivial
  | v, p :: q :: r :: rest, h => by
    have h' : SepA v p q (r :: rest) ∧ PinSeqA (!v) (q :: r :: rest) := h
    have ih := pinSeqA_map t (!v) (q :: r :: rest) h'.2
    rw [ax_not] at ih
    exact ⟨sepA_map t h'.1, ih⟩

theorem simple_map (t : Gen) (P : List Pt) (h : Simple P) : Simple (P.map t.app) := by
  intro S' hiv hpr
  refine h (fun p => S' (t.app p)) ?_ ?_
  · intro c hc hS
    have := hiv (t.app c) (List.mem_map_of_mem hc) hS
    have hv : ∀ v, Out (co (t.ax v)) (P.map t.app) S' (t.app c) := fun v => out_co _ this
    exact ⟨out_back (rel_co t true) (hv true), out_back (rel_co t false) (hv false)⟩
  · obtain ⟨⟨a, ha, b, hb, hab, hSa, hSb⟩, c, hc, hSc⟩ := hpr
    obtain ⟨a0, ha0, rfl⟩ := List.mem_map.mp ha
    obtain ⟨b0, hb0, rfl⟩ := List.mem_map.mp hb
    obtain ⟨c0, hc0, rfl⟩ := List.mem_map.mp hc
    exact ⟨⟨a0, ha0, b0, hb0, fun e => hab (e ▸ rfl), hSa, hSb⟩, c0, hc0, hSc⟩

theorem good_map (t : Gen) (P : List Pt) (h : Good P) : Good (P.map t.app) :=
  ⟨simple_map t P h.simple, (coords_nodup t h.xnd h.ynd).1, (coords_nodup t h.xnd h.ynd).2⟩

theorem hasPinCfg_of_map (t : Gen) (P : List Pt) (k : Nat) (h : HasPinCfg (P.map t.app) k) :
    HasPinCfg P k := by
  obtain ⟨L, v, hpin, hnd, hlen, hmem⟩ := h
  refine ⟨L.map t.app, t.ax v, pinSeqA_map t v L hpin, hnd.map t.app_injective, by simpa using hlen, ?_⟩
  intro p hp
  obtain ⟨q, hq, rfl⟩ := List.mem_map.mp hp
  obtain ⟨r, hr, rfl⟩ := List.mem_map.mp (hmem q hq)
  rw [Gen.app_app]; exact hr

theorem outcome_of_map (t : Gen) (P : List Pt) (k : Nat) (h : Outcome (P.map t.app) k) : Outcome P k := by
  obtain ⟨S, ts, fam, hsub, hnd, hperm, hfam⟩ := h
  refine ⟨S.map t.app, t :: ts, fam, ?_, hnd.map t.app_injective, ?_, hfam⟩
  · intro p hp
    obtain ⟨q, hq, rfl⟩ := List.mem_map.mp hp
    obtain ⟨r, hr, rfl⟩ := List.mem_map.mp (hsub q hq)
    rw [Gen.app_app]; exact hr
  · rw [← hperm, List.map_map]
    congr 1
    apply List.map_congr_left
    intro s _
    show applyAll ts (t.app (t.app s)) = applyAll ts s
    rw [Gen.app_app]

/-- the permutation of a transformed configuration is a dihedral image of the permutation -/
theorem permOfPts_applyAll (ts : List Gen) (P : List Pt) (hx : (P.map Prod.fst).Nodup)
    (hy : (P.map Prod.snd).Nodup) :
    ∃ g : D8, Model.C14.permOfPts (P.map (applyAll ts)) = g.act (Model.C14.permOfPts P) := by
  induction ts generalizing P with
  | nil =>
    refine ⟨D8.one, ?_⟩
    have : P.map (applyAll []) = P := by
      rw [show applyAll [] = id from rfl]; simp
    rw [this]; rfl
  | cons t ts ih =>
    have hc := coords_nodup t hx hy
    obtain ⟨g, hg⟩ := ih (P.map t.app) hc.1 hc.2
    refine ⟨g.mul t.d8, ?_⟩
    have e : P.map (applyAll (t :: ts)) = (P.map t.app).map (applyAll ts) := by
      rw [List.map_map]; rfl
    rw [e, hg, permOfPts_app t hx hy, C04L.act_mul (C14L.permOfPts_isPerm hy)]

end C16P

