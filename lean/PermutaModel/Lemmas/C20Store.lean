import PermutaModel.Lemmas.C20Json

/-! `from_json` on decoded dumps, the file store, and what a history of writes leaves in a file
    (C20 model). -/
namespace Model.C20

/-! ## `from_json (loads (dumps d)) = d` -/

theorem seqConv_map_ok {α β : Type} (l : List β) (g : β → Conv α) (r : β → α)
    (h : ∀ x ∈ l, g x = .ok (r x)) : seqConv (l.map g) = .ok (l.map r) := by
  induction l with
  | nil => rfl
  | cons x xs ih =>
    have hx := h x (by simp)
    have hxs := ih (fun y hy => h y (by simp [hy]))
    simp [seqConv, hx, hxs]

theorem permOf_jNats (p : List Nat) : permOf (jNats p) = .ok p := by
  have h1 : (p.map J.num).all J.isNum = true := by
    simp [List.all_eq_true, J.isNum]
  have h2 : (p.map J.num).map J.numVal = p := by
    simp [List.map_map, Function.comp_def, J.numVal]
  simp [permOf, jNats, h1, h2]

theorem permsOf_jPerms (v : List (List Nat)) : permsOf (jPerms v) = .ok v := by
  simp only [permsOf, jPerms, List.map_map]
  have := seqConv_map_ok v (permOf ∘ jNats) id (fun p _ => permOf_jNats p)
  simpa using this

theorem skipWs_of_head_dig : ∀ (l : Str), (∀ c ∈ l, isDig c = true) → skipWs l = l
  | [], _ => rfl
  | c :: cs, h => skipWs_cons (isDig_not_ws (h c (by simp))) cs

theorem strip_of_all_dig (l : Str) (h : ∀ c ∈ l, isDig c = true) : strip l = l := by
  unfold strip
  rw [skipWs_of_head_dig l h, skipWs_of_head_dig l.reverse (fun c hc => h c (by simpa using hc))]
  simp

theorem keyToNat_natDigits (k : Nat) : keyToNat (natDigits k) = some k := by
  have hs := strip_of_all_dig _ (natDigits_all_dig k)
  have hne : (natDigits k).isEmpty = false := by
    cases h : natDigits k with
    | nil => exact absurd h (natDigits_ne_nil k)
    | cons _ _ => rfl
  have hall : (natDigits k).all isDig = true := by
    rw [List.all_eq_true]; exact natDigits_all_dig k
  have ht := takeDigits_natDigits_stop k (rest := []) trivial
  rw [List.append_nil] at ht
  simp [keyToNat, hs, hne, hall, ht]

theorem memberConv_member (m : Nat × List (List Nat)) :
    memberConv (natDigits m.1, jPerms m.2) = .ok m := by
  simp [memberConv, keyToNat_natDigits, permsOf_jPerms]

theorem dictSet_not_mem {κ ν : Type} [DecidableEq κ] : ∀ (l : List (κ × ν)) (kv : κ × ν),
    kv.1 ∉ l.map Prod.fst → dictSet l kv = l ++ [kv]
  | [], _, _ => rfl
  | (k, v) :: rest, kv, h => by
    have hk : k ≠ kv.1 := by
      intro e; apply h; simp [e]
    have hr : kv.1 ∉ rest.map Prod.fst := by
      intro e; apply h; simp only [List.map_cons, List.mem_cons]; exact Or.inr e
    simp [dictSet, hk, dictSet_not_mem rest kv hr]

theorem foldl_dictSet_nodup {κ ν : Type} [DecidableEq κ] : ∀ (l acc : List (κ × ν)),
    ((acc ++ l).map Prod.fst).Nodup → l.foldl dictSet acc = acc ++ l
  | [], acc, _ => by simp
  | x :: xs, acc, h => by
    have hx : x.1 ∉ acc.map Prod.fst := by
      intro hmem
      rw [List.map_append, List.nodup_append] at h
      exact h.2.2 _ hmem _ (by simp) rfl
    rw [List.foldl_cons, dictSet_not_mem acc x hx, foldl_dictSet_nodup xs (acc ++ [x]) (by simpa using h)]
    simp

/-- a list with distinct keys is its own `dict(...)` -/
theorem pyDict_nodup {κ ν : Type} [DecidableEq κ] (l : List (κ × ν)) (h : (l.map Prod.fst).Nodup) :
    pyDict l = l := by
  have := foldl_dictSet_nodup l [] (by simpa using h)
  simpa [pyDict] using this

theorem jMembers_keys_nodup (d : Dataset) (h : (d.map Prod.fst).Nodup) :
    ((jMembers d).map Prod.fst).Nodup := by
  have : (jMembers d).map Prod.fst = (d.map Prod.fst).map natDigits := by
    simp [jMembers, List.map_map, Function.comp_def]
  rw [this]
  exact List.Pairwise.map natDigits (fun a b hab e => hab (natDigits_injective e)) h

/-- `from_json` of the value denoted by `dumps d` is `d` (for a dictionary: distinct keys) -/
theorem convJson_toJ (d : Dataset) (h : (d.map Prod.fst).Nodup) : convJson (toJ d) = .ok d := by
  have h1 : pyDict (jMembers d) = jMembers d := pyDict_nodup _ (jMembers_keys_nodup d h)
  have h2 : seqConv ((jMembers d).map memberConv) = .ok d := by
    have := seqConv_map_ok d (fun m => memberConv (natDigits m.1, jPerms m.2)) id
      (fun m _ => memberConv_member m)
    simpa [jMembers, List.map_map, Function.comp_def] using this
  simp [convJson, toJ, h1, h2, pyDict_nodup d h]

theorem shapeOkPerms_jPerms (v : List (List Nat)) : shapeOkPerms (jPerms v) = true := by
  simp [shapeOkPerms, jPerms, jNats, shapeOkPerm, List.all_eq_true, J.isNum]

theorem shapeOk_toJ (d : Dataset) (h : (d.map Prod.fst).Nodup) : shapeOk (toJ d) = true := by
  have h1 : pyDict (jMembers d) = jMembers d := pyDict_nodup _ (jMembers_keys_nodup d h)
  simp only [shapeOk, toJ, h1, List.all_eq_true]
  intro m hm
  obtain ⟨x, _, rfl⟩ := List.mem_map.mp hm
  exact shapeOkPerms_jPerms x.2

/-- `from_json` of the value denoted by `dumps d` is `d`, with or without the shape validation -/
theorem fromJson_toJ (v : Bool) (d : Dataset) (h : (d.map Prod.fst).Nodup) : fromJson v (toJ d) = .ok d := by
  simp [fromJson, shapeOk_toJ d h, convJson_toJ d h]

/-! ## which exceptions `from_json` can raise -/

theorem seqConv_err {α : Type} : ∀ (cs : List (Conv α)) (e : PyErr), seqConv cs = .err e → Conv.err e ∈ cs
  | [], e, h => by simp [seqConv] at h
  | c :: cs, e, h => by
    unfold seqConv at h
    split at h
    · cases h; simp
    · rename_i e' hs; cases h; exact List.mem_cons_of_mem _ (seqConv_err cs _ hs)
    · cases h
    · rename_i e' hs; cases h; exact List.mem_cons_of_mem _ (seqConv_err cs _ hs)
    · cases h
    · cases h

theorem permOf_err (j : J) (e : PyErr) (h : permOf j = .err e) : e = .typeError := by
  unfold permOf at h
  split at h
  · cases h; rfl
  · cases h; rfl
  · cases h; rfl
  · split at h <;> cases h
  · split at h <;> cases h
  · split at h <;> cases h

theorem permsOf_err (j : J) (e : PyErr) (h : permsOf j = .err e) : e = .typeError := by
  unfold permsOf at h
  split at h
  · cases h; rfl
  · cases h; rfl
  · cases h; rfl
  · split at h <;> cases h
  · split at h <;> cases h
  · have := seqConv_err _ _ h
    obtain ⟨j', _, hj'⟩ := List.mem_map.mp this
    exact permOf_err j' e hj'

theorem memberConv_err (m : Str × J) (e : PyErr) (h : memberConv m = .err e) : e = .valueError ∨ e = .typeError := by
  unfold memberConv at h
  split at h
  · cases h; exact Or.inl rfl
  · split at h
    · cases h
    · cases h
    · rename_i e' he'
      cases h
      exact Or.inr (permsOf_err _ _ he')

theorem convJson_err (j : J) (e : PyErr) (h : convJson j = .err e) :
    e = .valueError ∨ e = .typeError ∨ e = .attributeError := by
  unfold convJson at h
  split at h
  · split at h
    · cases h
    · cases h
    · rename_i e' he'
      cases h
      have := seqConv_err _ _ he'
      obtain ⟨m, _, hm⟩ := List.mem_map.mp this
      rcases memberConv_err m e hm with h1 | h1
      · exact Or.inl h1
      · exact Or.inr (Or.inl h1)
  · cases h; exact Or.inr (Or.inr rfl)

theorem fromJson_err (v : Bool) (j : J) (e : PyErr) (h : fromJson v j = .err e) :
    e = .valueError ∨ e = .typeError ∨ e = .attributeError := by
  unfold fromJson at h
  split at h
  · cases h; exact Or.inl rfl
  · exact convJson_err j e h

/-- `from_json` raises nothing but `JSONDecodeError` (a `ValueError`), `ValueError`, `TypeError`
    and – for JSON that is not an object – `AttributeError` -/
theorem fromJsonStr_err (v : Bool) (s : Str) (e : PyErr) (h : fromJsonStr v s = .err e) :
    e = .jsonDecode ∨ e = .valueError ∨ e = .typeError ∨ e = .attributeError := by
  unfold fromJsonStr at h
  split at h
  · cases h; exact Or.inl rfl
  · exact Or.inr (fromJson_err v _ e h)

/-! ## no newline in `dumps`, so `readline` returns the whole text -/

theorem nl_natDigits (n : Nat) : ∀ c ∈ natDigits n, c ≠ '\n' :=
  fun c hc => (isDig_dispatch (natDigits_all_dig n c hc)).2.2.2.2.2.2.1

theorem nl_showNatsTail (ns : List Nat) : ∀ c ∈ showNatsTail ns, c ≠ '\n' := by
  induction ns with
  | nil => intro c hc; simp [showNatsTail] at hc; subst hc; decide
  | cons n ns ih =>
    intro c hc
    simp only [showNatsTail, List.mem_cons, List.mem_append] at hc
    rcases hc with rfl | rfl | h | h
    · decide
    · decide
    · exact nl_natDigits n c h
    · exact ih c h

theorem nl_showNats (p : List Nat) : ∀ c ∈ showNats p, c ≠ '\n' := by
  cases p with
  | nil => intro c hc; simp [showNats] at hc; rcases hc with rfl | rfl <;> decide
  | cons n ns =>
    intro c hc
    simp only [showNats, List.mem_cons, List.mem_append] at hc
    rcases hc with rfl | h | h
    · decide
    · exact nl_natDigits n c h
    · exact nl_showNatsTail ns c h

theorem nl_showPermsTail (ps : List (List Nat)) : ∀ c ∈ showPermsTail ps, c ≠ '\n' := by
  induction ps with
  | nil => intro c hc; simp [showPermsTail] at hc; subst hc; decide
  | cons p ps ih =>
    intro c hc
    simp only [showPermsTail, List.mem_cons, List.mem_append] at hc
    rcases hc with rfl | rfl | h | h
    · decide
    · decide
    · exact nl_showNats p c h
    · exact ih c h

theorem nl_showPerms (v : List (List Nat)) : ∀ c ∈ showPerms v, c ≠ '\n' := by
  cases v with
  | nil => intro c hc; simp [showPerms] at hc; rcases hc with rfl | rfl <;> decide
  | cons p ps =>
    intro c hc
    simp only [showPerms, List.mem_cons, List.mem_append] at hc
    rcases hc with rfl | h | h
    · decide
    · exact nl_showNats p c h
    · exact nl_showPermsTail ps c h

theorem nl_showMember (m : Nat × List (List Nat)) : ∀ c ∈ showMember m, c ≠ '\n' := by
  intro c hc
  simp only [showMember, List.mem_cons, List.mem_append] at hc
  rcases hc with rfl | h | rfl | rfl | rfl | h
  · decide
  · exact nl_natDigits m.1 c h
  · decide
  · decide
  · decide
  · exact nl_showPerms m.2 c h

theorem nl_showMembersTail (ms : Dataset) : ∀ c ∈ showMembersTail ms, c ≠ '\n' := by
  induction ms with
  | nil => intro c hc; simp [showMembersTail] at hc; subst hc; decide
  | cons m ms ih =>
    intro c hc
    simp only [showMembersTail, List.mem_cons, List.mem_append] at hc
    rcases hc with rfl | rfl | h | h
    · decide
    · decide
    · exact nl_showMember m c h
    · exact ih c h

theorem nl_dumps (d : Dataset) : ∀ c ∈ dumps d, c ≠ '\n' := by
  cases d with
  | nil => intro c hc; simp [dumps] at hc; rcases hc with rfl | rfl <;> decide
  | cons m ms =>
    intro c hc
    simp only [dumps, List.mem_cons, List.mem_append] at hc
    rcases hc with rfl | h | h
    · decide
    · exact nl_showMember m c h
    · exact nl_showMembersTail ms c h

theorem firstLine_of_no_nl : ∀ (s : Str), (∀ c ∈ s, c ≠ '\n') → firstLine s = s
  | [], _ => rfl
  | c :: cs, h => by
    have hc : c ≠ '\n' := h c (by simp)
    simp [firstLine, hc, firstLine_of_no_nl cs (fun d hd => h d (by simp [hd]))]

/-- `from_json(json.dumps(d)) = d` -/
theorem fromJsonStr_dumps (v : Bool) (d : Dataset) (hd : (d.map Prod.fst).Nodup) : fromJsonStr v (dumps d) = .ok d := by
  simp [fromJsonStr, loads_dumps, fromJson_toJ v d hd]

/-- reading a file that holds exactly `dumps d` returns `d` -/
theorem readBisc_of_content (cfg : Cfg) (fs : FS) (path : Str) (d : Dataset)
    (hc : fsGet fs (path ++ dotJson) = some (dumps d)) (hd : (d.map Prod.fst).Nodup) :
    readBisc cfg fs path = .ok d := by
  have hl : fromJsonStr cfg.validateShape (if cfg.readOneLine then firstLine (dumps d) else dumps d) = .ok d := by
    rw [firstLine_of_no_nl _ (nl_dumps d)]
    simp [fromJsonStr_dumps _ d hd]
  simp [readBisc, hc, hl]

/-! ## the file store -/

theorem fsGet_fsSet_same {β : Type} : ∀ (fs : List (Str × β)) (n : Str) (c : β), fsGet (fsSet fs n c) n = some c
  | [], n, c => by simp [fsSet, fsGet]
  | (k, v) :: rest, n, c => by
    by_cases h : k = n
    · simp [fsSet, fsGet, h]
    · simp [fsSet, fsGet, h, fsGet_fsSet_same rest n c]

theorem fsGet_fsSet_ne {β : Type} : ∀ (fs : List (Str × β)) (n m : Str) (c : β), n ≠ m →
    fsGet (fsSet fs n c) m = fsGet fs m
  | [], n, m, c, h => by simp [fsSet, fsGet, h]
  | (k, v) :: rest, n, m, c, h => by
    by_cases hk : k = n
    · subst hk
      simp [fsSet, fsGet, h]
    · by_cases hm : k = m
      · subst hm
        simp [fsSet, fsGet, hk]
      · simp [fsSet, fsGet, hk, hm, fsGet_fsSet_ne rest n m c h]

/-- modes that replace the content (`'w'` in the mode string) -/
def Truncating (mode : Str) : Prop := 'w' ∈ mode
/-- modes that create the file if needed and append (`'a'`, no `'w'`) -/
def Appending (mode : Str) : Prop := 'w' ∉ mode ∧ 'a' ∈ mode

instance (mode : Str) : Decidable (Truncating mode) := by unfold Truncating; infer_instance
instance (mode : Str) : Decidable (Appending mode) := by unfold Appending; infer_instance

theorem writeJson_truncating (cfg : Cfg) (h : Truncating cfg.writeMode) (fs : FS) (name : Str) (d : Dataset)
    (hn : dirMissing name = false) : writeJson cfg fs name d = (fsSet fs name (dumps d), .ok) := by
  unfold Truncating at h
  simp [writeJson, writeFile, hn, h]

theorem writeJson_appending (cfg : Cfg) (h : Appending cfg.writeMode) (fs : FS) (name : Str) (d : Dataset)
    (hn : dirMissing name = false) :
    writeJson cfg fs name d = (fsSet fs name ((fsGet fs name).getD [] ++ dumps d), .ok) := by
  obtain ⟨h1, h2⟩ := h
  simp [writeJson, writeFile, hn, h1, h2]

theorem fsGet_writeFile_ne (mode : Str) (fs fs' : FS) (n m data : Str) (h : n ≠ m)
    (hw : writeFile mode fs n data = .ok fs') : fsGet fs' m = fsGet fs m := by
  unfold writeFile at hw
  split at hw
  · cases hw
  · split at hw
    · cases hw; exact fsGet_fsSet_ne _ _ _ _ h
    · split at hw
      · cases hw; exact fsGet_fsSet_ne _ _ _ _ h
      · split at hw
        · split at hw
          · cases hw
          · cases hw; exact fsGet_fsSet_ne _ _ _ _ h
        · split at hw
          · split at hw
            · cases hw
            · cases hw; exact fsGet_fsSet_ne _ _ _ _ h
          · cases hw

/-- a write to one name leaves every other file alone, whatever the mode -/
theorem fsGet_writeJson_ne (cfg : Cfg) (fs : FS) (n m : Str) (d : Dataset) (h : n ≠ m) :
    fsGet (writeJson cfg fs n d).1 m = fsGet fs m := by
  unfold writeJson
  split
  · rename_i fs' hw
    exact fsGet_writeFile_ne _ _ _ _ _ _ h hw
  · rfl

/-- the data set last written to `name` by a list of writes -/
def lastWrite (ws : List (Str × Dataset)) (name : Str) : Option Dataset :=
  (ws.reverse.find? fun w => w.1 = name).map (·.2)

theorem lastWritten_eq (ops : List Op) (name : Str) : lastWritten ops name = lastWrite (ops.flatMap Op.writes) name := rfl

theorem lastWrite_cons (n : Str) (d : Dataset) (ws : List (Str × Dataset)) (name : Str) :
    lastWrite ((n, d) :: ws) name =
      match lastWrite ws name with
      | some d' => some d'
      | none => if n = name then some d else none := by
  unfold lastWrite
  rw [List.reverse_cons, List.find?_append]
  cases h : ws.reverse.find? fun w => decide (w.1 = name) with
  | some w => simp
  | none =>
    by_cases hn : n = name <;> simp [hn]

/-- in a truncating mode a file holds the dumps of the data set last written to it -/
theorem fsGet_applyWrites_truncating (cfg : Cfg) (h : Truncating cfg.writeMode) :
    ∀ (ws : List (Str × Dataset)) (fs : FS) (name : Str), (∀ w ∈ ws, dirMissing w.1 = false) →
      fsGet (applyWrites cfg fs ws) name =
        match lastWrite ws name with
        | some d => some (dumps d)
        | none => fsGet fs name
  | [], fs, name, _ => by simp [applyWrites, lastWrite]
  | (n, d) :: ws, fs, name, hd => by
    have hn : dirMissing n = false := hd (n, d) (by simp)
    rw [applyWrites, writeJson_truncating cfg h fs n d hn]
    simp only []
    rw [fsGet_applyWrites_truncating cfg h ws _ name (fun w hw => hd w (by simp [hw])), lastWrite_cons]
    cases hl : lastWrite ws name with
    | some d' => simp
    | none =>
      by_cases e : n = name
      · subst e; simp [fsGet_fsSet_same]
      · simp [e, fsGet_fsSet_ne _ _ _ _ e]

/-- in an appending mode a file that is written to once, and did not exist (or was empty), holds
    the dumps of that data set; files not written to are untouched -/
theorem fsGet_applyWrites_appending_once (cfg : Cfg) (h : Appending cfg.writeMode) :
    ∀ (ws : List (Str × Dataset)) (fs : FS) (name : Str), (∀ w ∈ ws, dirMissing w.1 = false) →
      (ws.map Prod.fst).Nodup →
      fsGet (applyWrites cfg fs ws) name =
        match lastWrite ws name with
        | some d => some ((fsGet fs name).getD [] ++ dumps d)
        | none => fsGet fs name
  | [], fs, name, _, _ => by simp [applyWrites, lastWrite]
  | (n, d) :: ws, fs, name, hd, hnd => by
    have hn : dirMissing n = false := hd (n, d) (by simp)
    have hnd' : (ws.map Prod.fst).Nodup := (List.nodup_cons.mp hnd).2
    have hnot : n ∉ ws.map Prod.fst := (List.nodup_cons.mp hnd).1
    rw [applyWrites, writeJson_appending cfg h fs n d hn]
    simp only []
    rw [fsGet_applyWrites_appending_once cfg h ws _ name (fun w hw => hd w (by simp [hw])) hnd', lastWrite_cons]
    cases hl : lastWrite ws name with
    | some d' =>
      -- `name` is written later, hence `n ≠ name`
      have hne : n ≠ name := by
        intro e
        apply hnot
        unfold lastWrite at hl
        cases hf : ws.reverse.find? (fun w => decide (w.1 = name)) with
        | none => simp [hf] at hl
        | some w =>
          have hm := List.mem_of_find?_eq_some hf
          have hp := List.find?_some hf
          simp at hp
          rw [e, ← hp]
          exact List.mem_map.mpr ⟨w, by simpa using hm, rfl⟩
      simp [fsGet_fsSet_ne _ _ _ _ hne]
    | none =>
      by_cases e : n = name
      · subst e; simp [fsGet_fsSet_same]
      · simp [e, fsGet_fsSet_ne _ _ _ _ e]

end Model.C20
