import PermutaModel.Spec.C18
import PermutaModel.Lemmas.PermBasic
import Mathlib.Data.List.Perm.Basic
import Mathlib.Data.List.Range

/-! Counting lemmas behind the cell coordinates of a mesh occurrence:
    thresholds in a strictly increasing index tuple and among the values of an occurrence. -/

namespace Spec.C18

/-- column of position `i` in the grid of `c` -/
abbrev colOf (c : List Nat) (i : Nat) : Nat := c.countP (fun k => decide (k < i))
/-- row of position `i` in the grid of `c` -/
abbrev rowOf (σ : NSeq) (c : List Nat) (i : Nat) : Nat :=
  c.countP (fun k => decide (σ.getD k 0 < σ.getD i 0))

theorem cellOf_eq (σ : NSeq) (c : List Nat) (i : Nat) : cellOf σ c i = (colOf c i, rowOf σ c i) := rfl

/-- in a strictly increasing list the entries below `i` are exactly the first `countP (· < i)` -/
theorem sorted_lt_iff {c : List Nat} (hc : c.Pairwise (· < ·)) {k : Nat} (hk : k < c.length) (i : Nat) :
    c.getD k 0 < i ↔ k < c.countP (fun j => decide (j < i)) := by
  induction c generalizing k with
  | nil => simp at hk
  | cons h t ih =>
    rw [List.pairwise_cons] at hc
    rw [List.countP_cons]
    have hzero : ¬ h < i → t.countP (fun j => decide (j < i)) = 0 := by
      intro hh
      rw [List.countP_eq_zero]
      intro a ha
      have := hc.1 a ha
      simp only [decide_eq_true_eq]; omega
    cases k with
    | zero =>
      simp only [List.getD_cons_zero]
      by_cases hh : h < i
      · simp [hh]
      · simp [hh, hzero hh]
    | succ k =>
      simp only [List.getD_cons_succ]
      have hk' : k < t.length := by simpa using hk
      have := ih hc.2 hk'
      by_cases hh : h < i
      · simp only [hh, decide_true, if_true]; omega
      · simp only [hh, decide_false, hzero hh]
        have hmem : t.getD k 0 ∈ t := by
          rw [List.getD_eq_getElem?_getD, List.getElem?_eq_getElem hk']
          exact List.getElem_mem hk'
        have := hc.1 _ hmem
        simp only [Bool.false_eq_true, if_false]
        omega

theorem colOf_mono (c : List Nat) {i j : Nat} (h : i ≤ j) : colOf c i ≤ colOf c j := by
  apply List.countP_mono_left
  intro k _ hk
  simp only [decide_eq_true_eq] at hk ⊢; omega

theorem rowOf_mono (σ : NSeq) (c : List Nat) {i j : Nat} (h : σ.getD i 0 ≤ σ.getD j 0) :
    rowOf σ c i ≤ rowOf σ c j := by
  apply List.countP_mono_left
  intro k _ hk
  simp only [decide_eq_true_eq] at hk ⊢; omega

/-- counting along two lists of equal length with a pointwise implication -/
theorem countP_le_pointwise {α β : Type} (p : α → Bool) (q : β → Bool) :
    ∀ (a : List α) (b : List β), a.length = b.length →
      (∀ j (h1 : j < a.length) (h2 : j < b.length), p a[j] = true → q b[j] = true) →
      a.countP p ≤ b.countP q
  | [], [], _, _ => by simp
  | [], _ :: _, h, _ => by simp at h
  | _ :: _, [], h, _ => by simp at h
  | x :: a, y :: b, h, hpq => by
    have ih := countP_le_pointwise p q a b (by simpa using h) (fun j h1 h2 hp => by
      have := hpq (j + 1) (by simpa using h1) (by simpa using h2)
      simpa using this hp)
    have h0 := hpq 0 (by simp) (by simp)
    simp only [List.getElem_cons_zero] at h0
    rw [List.countP_cons, List.countP_cons]
    by_cases hx : p x = true
    · simp [hx, h0 hx]; exact ih
    · simp [hx]; split <;> omega

theorem isPerm_perm_range {π : NSeq} (hπ : IsPerm π) : π.Perm (List.range π.length) := by
  rw [List.perm_ext_iff_of_nodup hπ.1 List.nodup_range]
  intro a
  rw [List.mem_range]
  constructor
  · exact hπ.2 a
  · intro ha
    obtain ⟨k, hk, rfl⟩ := hπ.surj ha
    rw [List.getD_eq_getElem?_getD, List.getElem?_eq_getElem hk]
    exact List.getElem_mem hk

/-- a permutation of `0..n-1` has exactly `t` entries below `t` -/
theorem isPerm_countP_lt {π : NSeq} (hπ : IsPerm π) {t : Nat} (ht : t ≤ π.length) :
    π.countP (fun v => decide (v < t)) = t := by
  rw [(isPerm_perm_range hπ).countP_eq]
  obtain ⟨d, hd⟩ : ∃ d, π.length = t + d := ⟨π.length - t, by omega⟩
  rw [hd, List.range_eq_range', ← List.range'_append_1 (s := 0) (m := t) (n := d)]
  rw [List.countP_append]
  have h1 : (List.range' 0 t).countP (fun v => decide (v < t)) = t := by
    rw [List.countP_eq_length.mpr]
    · simp
    · intro a ha; rw [List.mem_range'_1] at ha; simp only [decide_eq_true_eq]; omega
  have h2 : (List.range' (0 + t) d).countP (fun v => decide (v < t)) = 0 := by
    rw [List.countP_eq_zero]
    intro a ha; rw [List.mem_range'_1] at ha; simp only [decide_eq_true_eq]; omega
  rw [h1, h2]; omega

theorem getD_eq_getElem' (l : List Nat) {k : Nat} (hk : k < l.length) : l.getD k 0 = l[k] := by
  rw [List.getD_eq_getElem?_getD, List.getElem?_eq_getElem hk]; rfl

/-- among the values of an occurrence of a permutation `π`, those below `v` are exactly the
    ones at pattern values below `countP` -/
theorem occ_val_lt_iff {π σ : NSeq} {c : List Nat} (hπ : IsPerm π) (hc : IsOcc π σ c)
    {k : Nat} (hk : k < π.length) (v : Nat) :
    σ.getD (c.getD k 0) 0 < v ↔ π.getD k 0 < c.countP (fun j => decide (σ.getD j 0 < v)) := by
  have hlen := hc.len
  constructor
  · intro h
    have h1 : π.countP (fun w => decide (w < π.getD k 0 + 1)) ≤
        c.countP (fun j => decide (σ.getD j 0 < v)) := by
      apply countP_le_pointwise _ _ π c hlen.symm
      intro j h1 h2 hp
      simp only [decide_eq_true_eq] at hp ⊢
      have := hc.iso k j hk h1
      rw [getD_eq_getElem' π h1, getD_eq_getElem' c h2] at this
      omega
    rw [isPerm_countP_lt hπ (by have := hπ.getD_lt hk; omega)] at h1
    omega
  · intro h
    by_contra hn
    have h1 : c.countP (fun j => decide (σ.getD j 0 < v)) ≤
        π.countP (fun w => decide (w < π.getD k 0)) := by
      apply countP_le_pointwise _ _ c π hlen
      intro j h1 h2 hp
      simp only [decide_eq_true_eq] at hp ⊢
      have := hc.iso j k h2 hk
      rw [getD_eq_getElem' π h2, getD_eq_getElem' c h1] at this
      omega
    rw [isPerm_countP_lt hπ (by have := hπ.getD_lt hk; omega)] at h1
    omega

theorem sorted_getD_lt {c : List Nat} (hc : c.Pairwise (· < ·)) {a b : Nat} (hab : a < b) (hb : b < c.length) :
    c.getD a 0 < c.getD b 0 := by
  rw [getD_eq_getElem' c (by omega), getD_eq_getElem' c hb]
  exact List.pairwise_iff_getElem.mp hc _ _ (by omega) hb hab

/-- the column of the `k`-th occurrence point is `k` -/
theorem colOf_occ {c : List Nat} (hc : c.Pairwise (· < ·)) {k : Nat} (hk : k < c.length) :
    colOf c (c.getD k 0) = k := by
  show c.countP (fun j => decide (j < c.getD k 0)) = k
  have hle : c.countP (fun j => decide (j < c.getD k 0)) ≤ c.length := List.countP_le_length
  have key : ∀ j, j < c.length → (c.getD j 0 < c.getD k 0 ↔ j < c.countP (fun j => decide (j < c.getD k 0))) :=
    fun j hj => sorted_lt_iff hc hj _
  generalize c.countP (fun j => decide (j < c.getD k 0)) = m at *
  have h1 := key k hk
  by_contra hne
  have hlt : m < k := by omega
  have h2 := key m (by omega)
  have h3 := sorted_getD_lt hc hlt hk
  omega

/-- the row of the `k`-th occurrence point is `π[k]` -/
theorem rowOf_occ {π σ : NSeq} {c : List Nat} (hπ : IsPerm π) (hc : IsOcc π σ c)
    {k : Nat} (hk : k < π.length) : rowOf σ c (c.getD k 0) = π.getD k 0 := by
  have hlen := hc.len
  apply Nat.le_antisymm
  · have h1 : rowOf σ c (c.getD k 0) ≤ π.countP (fun w => decide (w < π.getD k 0)) := by
      apply countP_le_pointwise _ _ c π hlen
      intro j h1 h2 hp
      simp only [decide_eq_true_eq] at hp ⊢
      have := hc.iso j k h2 hk
      rw [getD_eq_getElem' π h2, getD_eq_getElem' c h1] at this
      exact this.mpr hp
    rwa [isPerm_countP_lt hπ (by have := hπ.getD_lt hk; omega)] at h1
  · have h1 : π.countP (fun w => decide (w < π.getD k 0)) ≤ rowOf σ c (c.getD k 0) := by
      apply countP_le_pointwise _ _ π c hlen.symm
      intro j h1 h2 hp
      simp only [decide_eq_true_eq] at hp ⊢
      have := hc.iso j k h1 hk
      rw [getD_eq_getElem' π h1, getD_eq_getElem' c h2] at this
      exact this.mp hp
    rwa [isPerm_countP_lt hπ (by have := hπ.getD_lt hk; omega)] at h1

end Spec.C18
