import PermutaModel.Lemmas.C13ES
import PermutaModel.Props.C04

/-! C13 helper lemmas, part 9: each of the ten minimal non-polynomial classes is closed under
    pattern containment.
    * juxtaposition classes: a sublist of "monotone then monotone" is "monotone then monotone", and
      order-isomorphism preserves monotonicity of prefixes / suffixes;
    * `L2` (direct sums of `1` and `21`) is characterised by "entries at distance `≥ 2` increase"
      (`Near`), which is visibly inherited by patterns;
    * the inverse / reversed classes follow from equivariance of containment (`Props/C04`). -/
open List Model.C13 Spec.C13

namespace C13

/-! ### order-isomorphism and monotone pieces -/

theorem oiso_take {a b : List Nat} (h : OIso a b) (k : Nat) : OIso (a.take k) (b.take k) := by
  refine ⟨by simp [h.1], ?_⟩
  intro p hp q hq
  have e : (a.take k).zip (b.take k) = (a.zip b).take k := by simp [List.zip, List.take_zipWith]
  rw [e] at hp hq
  exact h.2 p (List.mem_of_mem_take hp) q (List.mem_of_mem_take hq)

theorem oiso_drop {a b : List Nat} (h : OIso a b) (k : Nat) : OIso (a.drop k) (b.drop k) := by
  refine ⟨by simp [h.1], ?_⟩
  intro p hp q hq
  have e : (a.drop k).zip (b.drop k) = (a.zip b).drop k := by simp [List.zip, List.drop_zipWith]
  rw [e] at hp hq
  exact h.2 p (List.mem_of_mem_drop hp) q (List.mem_of_mem_drop hq)

theorem oiso_pairwise_lt {a b : List Nat} (h : OIso a b) (ha : a.Pairwise (· < ·)) : b.Pairwise (· < ·) := by
  rw [C02L.OIso_iff_getD] at h
  rw [List.pairwise_iff_getElem] at ha ⊢
  intro i j hi hj hij
  have hi' : i < a.length := by omega
  have hj' : j < a.length := by omega
  have := (h.2 i j hi' hj').mp (by rw [getD_of_lt a hi', getD_of_lt a hj']; exact ha i j hi' hj' hij)
  rwa [getD_of_lt b hi, getD_of_lt b hj] at this

theorem oiso_pairwise_gt {a b : List Nat} (h : OIso a b) (ha : a.Pairwise (· > ·)) : b.Pairwise (· > ·) := by
  rw [C02L.OIso_iff_getD] at h
  rw [List.pairwise_iff_getElem] at ha ⊢
  intro i j hi hj hij
  have hi' : i < a.length := by omega
  have hj' : j < a.length := by omega
  have := (h.2 j i hj' hi').mp (by rw [getD_of_lt a hi', getD_of_lt a hj']; exact ha i j hi' hj' hij)
  rwa [getD_of_lt b hi, getD_of_lt b hj] at this

theorem oiso_mono {a b : List Nat} (h : OIso a b) (up : Bool) (ha : Mono up a) : Mono up b := by
  cases up
  · simp only [Mono, Bool.false_eq_true, if_false] at ha ⊢; exact oiso_pairwise_gt h ha
  · simp only [Mono, if_true] at ha ⊢; exact oiso_pairwise_lt h ha

theorem mono_sublist {up : Bool} {l s : List Nat} (h : Mono up l) (hs : s <+ l) : Mono up s := by
  cases up
  · simp only [Mono, Bool.false_eq_true, if_false] at h ⊢; exact h.sublist hs
  · simp only [Mono, if_true] at h ⊢; exact h.sublist hs

theorem juxt_of_sublist {a b : Bool} {σ s : List Nat} (h : Juxt a b σ) (hs : s <+ σ) : Juxt a b s := by
  obtain ⟨k, h1, h2⟩ := h
  rw [← List.take_append_drop k σ] at hs
  obtain ⟨s1, s2, rfl, hs1, hs2⟩ := List.sublist_append_iff.mp hs
  refine ⟨s1.length, ?_, ?_⟩
  · rw [List.take_left']; exact mono_sublist h1 hs1; rfl
  · rw [List.drop_left']; exact mono_sublist h2 hs2; rfl

theorem juxt_of_oiso {a b : Bool} {π s : List Nat} (h : OIso π s) (hj : Juxt a b s) : Juxt a b π := by
  obtain ⟨k, h1, h2⟩ := hj
  have h' := C02L.OIso_symm h
  exact ⟨k, oiso_mono (oiso_take h' k) a h1, oiso_mono (oiso_drop h' k) b h2⟩

/-- **the juxtaposition classes are closed under containment** -/
theorem juxt_closed {a b : Bool} {σ π : NSeq} (h : Contains σ π) (hj : Juxt a b σ) : Juxt a b π := by
  obtain ⟨s, hs, hi⟩ := (C02L.SContains_iff_Contains σ π).mpr h
  exact juxt_of_oiso hi (juxt_of_sublist hj hs)

/-! ### `L2` = "entries at distance at least two increase" -/

/-- every pair of entries that is not adjacent is increasing -/
def Near (l : List Nat) : Prop := ∀ i j, i + 2 ≤ j → j < l.length → l.getD i 0 < l.getD j 0

/-- the same read from the right -/
def NearR (r : List Nat) : Prop := ∀ i j, i + 2 ≤ j → j < r.length → r.getD j 0 < r.getD i 0

/-- `Near` is inherited by patterns -/
theorem near_closed {σ π : NSeq} (h : Contains σ π) (hn : Near σ) : Near π := by
  obtain ⟨c, hc⟩ := h
  intro i j hij hj
  have hi : i < π.length := by omega
  rw [hc.iso i j hi hj]
  have h1 : c.getD i 0 < c.getD (i + 1) 0 := strictInc_getD hc.inc (by omega) (by rw [hc.len]; omega)
  have h2 : c.getD (i + 1) 0 < c.getD j 0 := strictInc_getD hc.inc (by omega) (by rw [hc.len]; omega)
  apply hn _ _ (by omega)
  exact hc.rng _ (C10L.getD_mem (by rw [hc.len]; exact hj))

theorem near_of_L2 {σ : NSeq} (h : L2 σ) : Near σ := by
  induction h with
  | nil => intro i j _ hj; simp at hj
  | @one p hp ih =>
    have hperm := isPerm_of_L2 hp
    intro i j hij hj
    simp only [Model.directSum, List.map_cons, List.map_nil, Nat.zero_add, List.length_append,
      List.length_cons, List.length_nil] at hj ⊢
    by_cases hjp : j < p.length
    · rw [List.getD_append _ _ _ _ (by omega), List.getD_append _ _ _ _ hjp]
      exact ih i j hij hjp
    · have hj' : j = p.length := by omega
      subst hj'
      rw [List.getD_append _ _ _ _ (by omega), List.getD_append_right _ _ _ _ (le_refl _)]
      simp only [Nat.sub_self, List.getD_cons_zero]
      exact hperm.getD_lt (by omega)
  | @two p hp ih =>
    have hperm := isPerm_of_L2 hp
    intro i j hij hj
    simp only [Model.directSum, List.map_cons, List.map_nil, Nat.zero_add, List.length_append,
      List.length_cons, List.length_nil] at hj ⊢
    by_cases hjp : j < p.length
    · rw [List.getD_append _ _ _ _ (by omega), List.getD_append _ _ _ _ hjp]
      exact ih i j hij hjp
    · by_cases hj' : j = p.length
      · subst hj'
        rw [List.getD_append _ _ _ _ (by omega), List.getD_append_right _ _ _ _ (le_refl _)]
        simp only [Nat.sub_self, List.getD_cons_zero]
        have := hperm.getD_lt (a := i) (by omega); omega
      · have hj'' : j = p.length + 1 := by omega
        subst hj''
        rw [List.getD_append _ _ _ _ (by omega), List.getD_append_right _ _ _ _ (by omega)]
        have : p.length + 1 - p.length = 1 := by omega
        simp only [this, List.getD_cons_succ, List.getD_cons_zero]
        exact hperm.getD_lt (by omega)

theorem nearR_tail {x : Nat} {r : List Nat} (h : NearR (x :: r)) : NearR r := by
  intro i j hij hj
  have := h (i + 1) (j + 1) (by omega) (by simp; omega)
  simpa using this

theorem nearR_reverse {σ : List Nat} (h : Near σ) : NearR σ.reverse := by
  intro i j hij hj
  simp only [List.length_reverse] at hj
  have hi : i < σ.length := by omega
  rw [getD_of_lt _ (by simpa using hj), getD_of_lt _ (by simpa using hi), List.getElem_reverse,
    List.getElem_reverse]
  have := h (σ.length - 1 - j) (σ.length - 1 - i) (by omega) (by omega)
  rwa [getD_of_lt _ (by omega), getD_of_lt _ (by omega)] at this

theorem length_le_of_all_lt {t : List Nat} (hnd : t.Nodup) {a : Nat} (h : ∀ x ∈ t, x < a) : t.length ≤ a := by
  have hsub : t ⊆ List.range a := fun x hx => List.mem_range.mpr (h x hx)
  have := (List.subperm_of_subset hnd hsub).length_le
  simpa using this

theorem ofType8R_of_nearR : ∀ r : NSeq, IsPerm r → NearR r → ofType8R r = true
  | [], _, _ => by simp [ofType8R]
  | [_], _, _ => by simp [ofType8R]
  | a :: b :: t, hp, hn => by
    have hnd := List.nodup_cons.mp hp.1
    have hnd2 := List.nodup_cons.mp hnd.2
    have hlt : ∀ x ∈ t, x < a := by
      intro x hx
      obtain ⟨k, hk, rfl⟩ := List.getElem_of_mem hx
      have := hn 0 (k + 2) (by omega) (by simp; omega)
      simp only [List.getD_cons_succ, List.getD_cons_zero, getD_of_lt t hk] at this
      exact this
    have hle : t.length ≤ a := length_le_of_all_lt hnd2.2 hlt
    have ha : a < t.length + 2 := by have := hp.2 a (by simp); simpa using this
    rw [ofType8R]
    by_cases h1 : a = t.length + 1
    · rw [if_pos h1]
      have hp' : IsPerm (b :: t) := by
        refine ⟨hnd.2, fun x hx => ?_⟩
        have hlt' := hp.2 x (List.mem_cons_of_mem _ hx)
        have hne : x ≠ a := fun e => hnd.1 (e ▸ hx)
        simp only [List.length_cons] at hlt' ⊢
        omega
      exact ofType8R_of_nearR (b :: t) hp' (nearR_tail hn)
    · rw [if_neg h1]
      have ha' : a = t.length := by omega
      have hb : b = t.length + 1 := by
        have hmem : t.length + 1 ∈ a :: b :: t := mem_of_isPerm hp (by simp)
        rcases List.mem_cons.mp hmem with e | hmem
        · omega
        · rcases List.mem_cons.mp hmem with e | hmem
          · exact e.symm
          · have := hlt _ hmem; omega
      rw [if_pos ⟨ha', hb⟩]
      have hp' : IsPerm t := by
        refine ⟨hnd2.2, fun x hx => ?_⟩
        have := hlt x hx; omega
      exact ofType8R_of_nearR t hp' (nearR_tail (nearR_tail hn))

/-- **`L2` is exactly the permutations whose non-adjacent pairs all increase** -/
theorem L2_iff_near {σ : NSeq} (hσ : IsPerm σ) : L2 σ ↔ Near σ := by
  constructor
  · exact near_of_L2
  · intro h
    rw [← ofType8_iff σ hσ]
    exact ofType8R_of_nearR σ.reverse (isPerm_reverse hσ) (nearR_reverse h)

/-- **`L2` is closed under containment** -/
theorem L2_closed {σ π : NSeq} (hπ : IsPerm π) (h : Contains σ π) (hl : L2 σ) : L2 π :=
  (L2_iff_near hπ).mpr (near_closed h (near_of_L2 hl))

/-- **each of the ten classes is closed under containment** -/
theorem polyClass_closed' {σ π : NSeq} (hσ : IsPerm σ) (hπ : IsPerm π) (h : Contains σ π) (t : Nat)
    (ht : polyClass t σ) : polyClass t π := by
  have hinv : Contains (Model.inverse σ) (Model.inverse π) := (C04.contains_inverse hπ hσ).mpr h
  have hrev : Contains (Model.reverse σ) (Model.reverse π) := (C04.contains_reverse σ π).mpr h
  rcases t with _|_|_|_|_|_|_|_|_|_|t
  · exact juxt_closed h ht
  · exact juxt_closed h ht
  · exact juxt_closed h ht
  · exact juxt_closed h ht
  · exact juxt_closed hinv ht
  · exact juxt_closed hinv ht
  · exact juxt_closed hinv ht
  · exact juxt_closed hinv ht
  · exact L2_closed hπ h ht
  · exact L2_closed (isPerm_reverse hπ) hrev ht
  · exact absurd ht (by simp [polyClass])

end C13
