import PermutaModel.Lemmas.C16ConvPlot
import PermutaModel.Lemmas.C16ConvBHV
import PermutaModel.Lemmas.C16Simple
/-!
# C16 converse, part 4b — the plot of a simple permutation has no proper interval
-/
namespace C16Conv
open C16P Spec.C16 Spec.C10

theorem exists_max_of_bounded (Q : Nat → Prop) : ∀ n, (∃ k, k < n ∧ Q k) →
    ∃ k, k < n ∧ Q k ∧ ∀ j, j < n → Q j → j ≤ k := by
  intro n
  induction n with
  | zero => rintro ⟨k, hk, _⟩; omega
  | succ n ih =>
    rintro ⟨k, hk, hQ⟩
    by_cases hn : Q n
    · exact ⟨n, by omega, hn, fun j hj _ => by omega⟩
    · have hk' : k < n := by
        rcases Nat.lt_succ_iff_lt_or_eq.mp hk with h | h
        · exact h
        · subst h; exact absurd hQ hn
      obtain ⟨k0, h1, h2, h3⟩ := ih ⟨k, hk', hQ⟩
      refine ⟨k0, by omega, h2, fun j hj hq => ?_⟩
      rcases Nat.lt_succ_iff_lt_or_eq.mp hj with h | h
      · exact h3 j h hq
      · subst h; exact absurd hq hn

theorem exists_min_of_bounded (Q : Nat → Prop) (n : Nat) (h : ∃ k, k < n ∧ Q k) :
    ∃ k, k < n ∧ Q k ∧ ∀ j, j < n → Q j → k ≤ j := by
  obtain ⟨k, hk, hQ⟩ := h
  induction k using Nat.strong_induction_on with
  | _ k ih =>
    by_cases hmin : ∀ j, j < n → Q j → k ≤ j
    · exact ⟨k, hk, hQ, hmin⟩
    · have : ∃ j, j < n ∧ Q j ∧ j < k := by
        apply Classical.byContradiction
        intro hno
        apply hmin
        intro j hj hq
        apply Classical.byContradiction
        intro hlt
        exact hno ⟨j, hj, hq, by omega⟩
      obtain ⟨j, hj, hq, hjk⟩ := this
      exact ih j hjk hj hq

/-- **the plot of a simple permutation has no proper interval** (the converse of `C16P.simple_permOfPts`):
    the interval definition of C10 and the geometric one of `Lemmas/C16PinGeo.lean` agree -/
theorem plot_simple_of_isSimple (τ : NSeq) (hτ : IsPerm τ) (hs : IsSimple τ) : Simple (plot τ) := by
  intro S hI hPr
  let pt : Nat → Pt := fun j => (((j : Nat) : Rat), ((τ.getD j 0 : Nat) : Rat))
  let M : Nat → Prop := fun j => S (pt j)
  have hmem : ∀ j, j < τ.length → pt j ∈ plot τ := fun j hj => mem_plot.mpr ⟨j, hj, rfl⟩
  -- the interval property, on positions and on values
  have hIx : ∀ j, j < τ.length → ¬ M j →
      (∀ k, k < τ.length → M k → j < k) ∨ (∀ k, k < τ.length → M k → k < j) := by
    intro j hj hM
    rcases (hI (pt j) (hmem j hj) hM).1 with h | h
    · left
      intro k hk hMk
      have := h (pt k) (hmem k hk) hMk
      simp [co, pt] at this; exact this
    · right
      intro k hk hMk
      have := h (pt k) (hmem k hk) hMk
      simp [co, pt] at this; exact this
  have hIy : ∀ j, j < τ.length → ¬ M j →
      (∀ k, k < τ.length → M k → τ.getD j 0 < τ.getD k 0) ∨
      (∀ k, k < τ.length → M k → τ.getD k 0 < τ.getD j 0) := by
    intro j hj hM
    rcases (hI (pt j) (hmem j hj) hM).2 with h | h
    · left
      intro k hk hMk
      have := h (pt k) (hmem k hk) hMk
      simp [co, pt] at this; exact this
    · right
      intro k hk hMk
      have := h (pt k) (hmem k hk) hMk
      simp [co, pt] at this; exact this
  -- two members, one non-member
  obtain ⟨⟨a, ha, b, hb, hab, hSa, hSb⟩, c, hc, hSc⟩ := hPr
  obtain ⟨ja, hja, rfl⟩ := mem_plot.mp ha
  obtain ⟨jb, hjb, rfl⟩ := mem_plot.mp hb
  obtain ⟨jc, hjc, rfl⟩ := mem_plot.mp hc
  have hMa : M ja := hSa
  have hMb : M jb := hSb
  have hMc : ¬ M jc := hSc
  have hjab : ja ≠ jb := fun h => hab (by rw [h])
  -- extreme member positions
  obtain ⟨i0, hi0, hM0, hmin⟩ := exists_min_of_bounded M τ.length ⟨ja, hja, hMa⟩
  obtain ⟨i1, hi1, hM1, hmax⟩ := exists_max_of_bounded M τ.length ⟨ja, hja, hMa⟩
  have hpos : ∀ j, j < τ.length → (M j ↔ i0 ≤ j ∧ j ≤ i1) := by
    intro j hj
    constructor
    · intro h; exact ⟨hmin j hj h, hmax j hj h⟩
    · rintro ⟨h1, h2⟩
      apply Classical.byContradiction
      intro hM
      rcases hIx j hj hM with h | h
      · have := h i0 hi0 hM0; omega
      · have := h i1 hi1 hM1; omega
  -- extreme member values
  let V : Nat → Prop := fun v => ∃ j, j < τ.length ∧ M j ∧ τ.getD j 0 = v
  obtain ⟨m, _, ⟨jm, hjm, hMm, hvm⟩, hvmin⟩ := exists_min_of_bounded V τ.length
    ⟨τ.getD ja 0, hτ.getD_lt hja, ja, hja, hMa, rfl⟩
  obtain ⟨mx, hmx, ⟨jx, hjx, hMx, hvx⟩, hvmax⟩ := exists_max_of_bounded V τ.length
    ⟨τ.getD ja 0, hτ.getD_lt hja, ja, hja, hMa, rfl⟩
  have hval : ∀ j, j < τ.length → (M j ↔ m ≤ τ.getD j 0 ∧ τ.getD j 0 ≤ mx) := by
    intro j hj
    constructor
    · intro h
      exact ⟨hvmin _ (hτ.getD_lt hj) ⟨j, hj, h, rfl⟩, hvmax _ (hτ.getD_lt hj) ⟨j, hj, h, rfl⟩⟩
    · rintro ⟨h1, h2⟩
      apply Classical.byContradiction
      intro hM
      rcases hIy j hj hM with h | h
      · have := h jm hjm hMm; omega
      · have := h jx hjx hMx; omega
  have hi01 : i0 < i1 := by
    have h1 := (hpos ja hja).mp hMa
    have h2 := (hpos jb hjb).mp hMb
    omega
  have hmmx : m ≤ mx := by have := (hval ja hja).mp hMa; omega
  -- the window
  let l := i1 - i0 + 1
  have hwin : ∀ v, v ∈ window τ i0 l ↔ m ≤ v ∧ v ≤ mx := by
    intro v
    rw [C16Simple.mem_window]
    constructor
    · rintro ⟨c, h1, h2, h3, rfl⟩
      exact (hval c h3).mp ((hpos c h3).mpr ⟨h1, by omega⟩)
    · rintro ⟨h1, h2⟩
      obtain ⟨j, hj, rfl⟩ := hτ.surj (show v < τ.length by omega)
      have := (hpos j hj).mp ((hval j hj).mpr ⟨h1, h2⟩)
      exact ⟨j, this.1, by omega, hj, rfl⟩
  have hwl : (window τ i0 l).length = l := C10L.length_window τ (by omega)
  have hwn : (window τ i0 l).Nodup := C10L.window_nodup hτ.1 i0 l
  have hcount : l = mx - m + 1 := by
    have h1 : window τ i0 l ⊆ List.range' m (mx - m + 1) := by
      intro x hx
      have := (hwin x).mp hx
      rw [List.mem_range']
      exact ⟨x - m, by omega, by omega⟩
    have h2 : List.range' m (mx - m + 1) ⊆ window τ i0 l := by
      intro x hx
      rw [List.mem_range'] at hx
      obtain ⟨i, hi, rfl⟩ := hx
      exact (hwin _).mpr ⟨by omega, by omega⟩
    have l1 := (List.subperm_of_subset hwn h1).length_le
    have l2 := (List.subperm_of_subset (List.nodup_range' (step := 1) (by omega)) h2).length_le
    simp only [List.length_range'] at l1 l2
    omega
  have hlt : l < τ.length := by
    have := (hpos jc hjc).not.mp hMc
    omega
  apply hs i0 l (by omega) hlt
  refine ⟨by omega, m, fun v => ?_⟩
  rw [hwin v]
  omega

theorem plot_ys_nodup (τ : NSeq) (hτ : IsPerm τ) : ((plot τ).map Prod.snd).Nodup := by
  have := plot_ys τ
  simp only [C14L.ys] at this
  rw [this]
  apply List.Nodup.map_on _ hτ.1
  intro a _ b _ h
  exact Rat.natCast_inj.mp h

/-- the interval definition of C10 and the geometric one agree on plots -/
theorem isSimple_iff_plot_simple (τ : NSeq) (hτ : IsPerm τ) : IsSimple τ ↔ Simple (plot τ) := by
  constructor
  · exact plot_simple_of_isSimple τ hτ
  · intro h
    have := simple_permOfPts (plot_xs_nodup τ) (plot_ys_nodup τ hτ) h
    rwa [permOfPts_plot τ hτ] at this

/-- **every simple permutation of length `≥ 3` contains a proper pin sequence of three points**, starting
    from its first two entries -/
theorem hasPinSeq_three (τ : NSeq) (hτ : IsPerm τ) (hs : IsSimple τ) (hlen : 3 ≤ τ.length) :
    HasPinSeq τ 3 := by
  have hS := plot_simple_of_isSimple τ hτ hs
  let pt : Nat → Pt := fun j => (((j : Nat) : Rat), ((τ.getD j 0 : Nat) : Rat))
  have hmem : ∀ j, j < τ.length → pt j ∈ plot τ := fun j hj => mem_plot.mpr ⟨j, hj, rfl⟩
  have hne : pt 1 ≠ pt 0 := by
    intro h
    have := congrArg Prod.fst h
    simp [pt] at this
  have hout : ∃ d ∈ plot τ, ¬ InHull [pt 1, pt 0] d := by
    refine ⟨pt 2, hmem 2 (by omega), fun h => ?_⟩
    obtain ⟨_, ⟨a, ha, hle⟩⟩ := h.1
    simp only [List.mem_cons, List.not_mem_nil, or_false] at ha
    rcases ha with rfl | rfl <;> simp only [co, if_true] at hle <;>
      have := Rat.natCast_le_natCast.mp hle <;> omega
  obtain ⟨c, hc, v, hP, hco⟩ := simple_starts_pin (plot τ) hS (plot_xs_nodup τ) (plot_ys_nodup τ hτ)
    (pt 1) (pt 0) (hmem 1 (by omega)) (hmem 0 (by omega)) hne hout
  refine ⟨[c, pt 1, pt 0], v, hP, ?_, rfl, ?_⟩
  · simp only [List.nodup_cons, List.mem_cons, List.not_mem_nil, or_false, not_or, List.nodup_nil,
      and_true, not_false_eq_true]
    refine ⟨⟨fun h => hco (h ▸ inHull_self (by simp)), fun h => hco (h ▸ inHull_self (by simp))⟩, hne⟩
  · intro p hp
    simp only [List.mem_cons, List.not_mem_nil, or_false] at hp
    rcases hp with rfl | rfl | rfl
    · exact hc
    · exact hmem 1 (by omega)
    · exact hmem 0 (by omega)

end C16Conv
