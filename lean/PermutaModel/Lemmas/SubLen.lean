import PermutaModel.Model.C01
import PermutaModel.Spec.Basic
import Mathlib.Data.List.Sort
import Mathlib.Data.List.Sublists

/-! `Spec.subLen k l` lists exactly the length-`k` sublists of `l`, once each, in lexicographic order. -/
open Spec List

theorem mem_subLen : ∀ (k : Nat) (l c : List Nat), c ∈ subLen k l ↔ c <+ l ∧ c.length = k
  | 0, l, c => by
    simp only [subLen, List.mem_singleton]
    constructor
    · rintro rfl; exact ⟨List.nil_sublist _, rfl⟩
    · rintro ⟨_, h⟩; exact List.eq_nil_of_length_eq_zero h
  | k+1, [], c => by
    simp only [subLen, List.not_mem_nil, List.sublist_nil, false_iff]
    rintro ⟨rfl, h⟩; simp at h
  | k+1, x :: xs, c => by
    simp only [subLen, List.mem_append, List.mem_map, mem_subLen k xs, mem_subLen (k+1) xs]
    constructor
    · rintro (⟨t, ⟨hs, hl⟩, rfl⟩ | ⟨hs, hl⟩)
      · exact ⟨hs.cons_cons x, by simp [hl]⟩
      · exact ⟨hs.cons x, hl⟩
    · rintro ⟨hs, hl⟩
      cases hs with
      | cons _ h => exact Or.inr ⟨h, hl⟩
      | cons_cons _ h =>
        rename_i t
        exact Or.inl ⟨t, ⟨h, by simpa using hl⟩, rfl⟩

theorem lexLt_cons_self (a : Nat) (s t : List Nat) : lexLt (a :: s) (a :: t) = lexLt s t := by
  simp [lexLt]

theorem subLen_sorted : ∀ (k : Nat) (l : List Nat), l.Pairwise (· < ·) →
    (subLen k l).Pairwise (fun a b => lexLt a b = true)
  | 0, l, _ => by simp [subLen]
  | k+1, [], _ => by simp [subLen]
  | k+1, x :: xs, h => by
    have hx : ∀ y ∈ xs, x < y := (List.pairwise_cons.mp h).1
    have hxs := (List.pairwise_cons.mp h).2
    simp only [subLen]
    rw [List.pairwise_append]
    refine ⟨?_, subLen_sorted (k+1) xs hxs, ?_⟩
    · rw [List.pairwise_map]
      exact (subLen_sorted k xs hxs).imp (by intro a b hab; simpa [lexLt] using hab)
    · intro a ha b hb
      obtain ⟨t, _, rfl⟩ := List.mem_map.mp ha
      obtain ⟨hbs, hbl⟩ := (mem_subLen _ _ _).mp hb
      cases b with
      | nil => simp at hbl
      | cons y ys =>
        have : x < y := hx y (hbs.subset (by simp))
        simp [lexLt, this]

theorem lexLt_irrefl : ∀ (a : List Nat), lexLt a a = false
  | [] => rfl
  | x :: xs => by simp [lexLt, lexLt_irrefl xs]

theorem subLen_nodup (k : Nat) (l : List Nat) (h : l.Pairwise (· < ·)) : (subLen k l).Nodup := by
  have := subLen_sorted k l h
  exact this.imp (by intro a b hab heq; subst heq; simp [lexLt_irrefl] at hab)

theorem sublist_range_iff (n : Nat) (c : List Nat) :
    c <+ List.range n ↔ StrictInc c ∧ ∀ i ∈ c, i < n := by
  constructor
  · intro h
    refine ⟨?_, fun i hi => List.mem_range.mp (h.subset hi)⟩
    exact List.Pairwise.sublist h List.pairwise_lt_range
  · rintro ⟨hinc, hlt⟩
    have hnd : c.Nodup := hinc.imp (fun h => Nat.ne_of_lt h)
    have hsub : c ⊆ List.range n := fun i hi => List.mem_range.mpr (hlt i hi)
    have hsp : c <+~ List.range n := List.subperm_of_subset hnd hsub
    exact List.sublist_of_subperm_of_pairwise hsp hinc List.pairwise_lt_range
