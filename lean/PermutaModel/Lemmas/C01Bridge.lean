import PermutaModel.Lemmas.C01Main
import PermutaModel.Lemmas.SubLen
import PermutaModel.Lemmas.PermBasic
/-! bridges between `IsPerm` and the hypotheses of the C01 search lemmas -/
open Model

namespace C01

theorem permHyp_of_isPerm {π σ : NSeq} (hπ : IsPerm π) (hσ : IsPerm σ) (hne : σ ≠ []) : PermHyp π σ where
  inj := fun _ _ ha hb h => hπ.getD_inj ha hb h
  surj := fun _ hv => hπ.surj hv
  bdd := fun _ ha => hπ.getD_lt ha
  σbdd := by
    intro j
    by_cases hj : j < σ.length
    · exact hσ.getD_lt hj
    · have : σ.getD j 0 = 0 := by simp [List.getD_eq_getElem?_getD, List.getElem?_eq_none (show σ.length ≤ j by omega)]
      rw [this]; exact List.length_pos_of_ne_nil hne

theorem pick_getD (σ : NSeq) (c : List Nat) (i : Nat) (hi : i < c.length) :
    (Spec.pick σ c).getD i 0 = σ.getD (c.getD i 0) 0 := by
  simp [Spec.pick, List.getD_eq_getElem?_getD, List.getElem?_eq_getElem hi]

theorem orderIsoB_pick (π σ : NSeq) (c : List Nat) (hc : c.length = π.length) :
    Spec.orderIsoB π (Spec.pick σ c) = fullIsoB π σ c := by
  unfold Spec.orderIsoB fullIsoB
  have hl : (π.length == (Spec.pick σ c).length) = true := by simp [Spec.pick, hc]
  rw [hl, Bool.true_and, Bool.eq_iff_iff]
  simp only [List.all_eq_true, List.mem_range]
  constructor
  · intro h a ha b hb
    have := h a ha b hb
    rwa [pick_getD σ c a (by omega), pick_getD σ c b (by omega)] at this
  · intro h a ha b hb
    rw [pick_getD σ c a (by omega), pick_getD σ c b (by omega)]
    exact h a ha b hb


end C01
