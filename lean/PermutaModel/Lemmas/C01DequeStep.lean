import PermutaModel.Lemmas.C01DequeSorted
/-! C01 deque: the loop invariant (the deque is a rotation of the pairs seen so far sorted by value,
    `smallest`/`biggest` are its ends) and one iteration of the `for` loop. -/
open Model

/-- invariant of the `for` loop after `idx ≥ 1` elements: the deque is a rotation of the
    `(value, index)` pairs seen so far sorted by value; `smallest`/`biggest` are its ends -/
def DqInv (π : NSeq) (idx : Nat) (st : DqState) : Prop :=
  ∃ S : Dq, st.deq ~r S ∧ S ≠ [] ∧ S.Pairwise lt1 ∧
    (∀ x, x ∈ S ↔ ∃ j < idx, x = (π.getD j 0, j)) ∧
    st.smallest = ((front S).1 : Int) ∧ st.biggest = ((back S).1 : Int)

theorem DqInv.toG {π : NSeq} {idx : Nat} {st : DqState} (h : DqInv π idx st) : DqG st := by
  obtain ⟨S, hr, hne, _, _, hs, hb⟩ := h
  exact ⟨⟨front S, hr.perm.mem_iff.mpr (front_mem hne), hs.symm⟩,
    ⟨back S, hr.perm.mem_iff.mpr (back_mem' hne), hb.symm⟩⟩

/-- the pair yielded for position `k` according to the specification -/
def outAt (π : NSeq) (k : Nat) : Int × Int :=
  ((match leftFloor π k with | none => (-1 : Int) | some j => (j : Int)),
   (match leftCeil π k with | none => (-1 : Int) | some j => (j : Int)))

theorem lfcStep_correct (π : NSeq) (idx : Nat) (st : DqState)
    (hinj : ∀ a b, a < π.length → b < π.length → π.getD a 0 = π.getD b 0 → a = b)
    (hidx : idx < π.length) (h0 : idx ≠ 0) (hI : DqInv π idx st) :
    ∃ st', lfcStep st idx (π.getD idx 0) = some (st', outAt π idx) ∧ DqInv π (idx+1) st' := by
  have hG := hI.toG
  obtain ⟨S, hr, hne, hS, hmem, hsm, hbg⟩ := hI
  have hinj' : ∀ a b, a < idx → b < idx → π.getD a 0 = π.getD b 0 → a = b :=
    fun a b ha hb => hinj a b (by omega) (by omega)
  have hmemS : ∀ j < idx, (π.getD j 0, j) ∈ S := fun j hj => (hmem _).mpr ⟨j, hj, rfl⟩
  have hne_val : ∀ x ∈ S, x.1 ≠ π.getD idx 0 := by
    intro x hx h
    obtain ⟨j, hj, rfl⟩ := (hmem x).mp hx
    have := hinj j idx (by omega) hidx h
    omega
  have hmem' : ∀ (S' : Dq), (∀ x, x ∈ S' ↔ x = (π.getD idx 0, idx) ∨ x ∈ S) →
      ∀ x, x ∈ S' ↔ ∃ j < idx + 1, x = (π.getD j 0, j) := by
    intro S' hS' x
    rw [hS', hmem]
    constructor
    · rintro (h | ⟨j, hj, h⟩)
      · exact ⟨idx, by omega, h⟩
      · exact ⟨j, by omega, h⟩
    · rintro ⟨j, hj, h⟩
      rcases Nat.lt_succ_iff_lt_or_eq.mp hj with h' | h'
      · exact Or.inr ⟨j, h', h⟩
      · subst h'; exact Or.inl h
  unfold lfcStep
  simp only [h0, if_false]
  by_cases h1 : ((π.getD idx 0 : Nat) : Int) < st.smallest
  · -- new minimum
    simp only [h1, if_true]
    obtain ⟨d', hd', hrot, hex⟩ := loop1_exit st hG
    rw [hd']
    have hdS : d' = S := rot_front_unique hS hne (hrot.trans hr) (by rw [hsm] at hex; exact_mod_cast hex)
    subst hdS
    have hlt : π.getD idx 0 < (front d').1 := by rw [hsm] at h1; exact_mod_cast h1
    obtain ⟨j0, hj0, hfj⟩ := (hmem _).mp (front_mem hne)
    have hfl : leftFloor π idx = none := leftFloor_eq_none (by
      intro j hj hlt'
      have : _ ≤ π.getD j 0 := sorted_front_le hS (hmemS j hj)
      omega)
    have hcl : leftCeil π idx = some j0 := leftCeil_eq_some hinj' hj0 (by rw [hfj] at hlt; exact hlt) (by
      intro j hj _
      have := sorted_front_le hS (hmemS j hj)
      rw [hfj] at this; exact this)
    have hout : outAt π idx = (-1, ((front d').2 : Int)) := by simp only [outAt, hfl, hcl, hfj]
    rw [hout, Option.map_some]
    refine ⟨_, rfl, ?_⟩
    · refine ⟨(π.getD idx 0, idx) :: d', List.IsRotated.refl _, by simp, ?_, ?_, ?_, ?_⟩
      · refine List.pairwise_cons.mpr ⟨?_, hS⟩
        intro x hx
        have := sorted_front_le hS hx
        simp only [lt1]; omega
      · exact hmem' _ (fun x => List.mem_cons)
      · simp [front]
      · show st.biggest = _
        rw [hbg]
        obtain ⟨s, t, rfl⟩ := List.exists_cons_of_ne_nil hne
        rw [show (π.getD idx 0, idx) :: s :: t = [(π.getD idx 0, idx)] ++ s :: t from rfl, back_append_cons]
  · simp only [h1, if_false]
    by_cases h2 : ((π.getD idx 0 : Nat) : Int) > st.biggest
    · -- new maximum
      simp only [h2, if_true]
      obtain ⟨d', hd', hrot, hex⟩ := loop2_exit st hG
      rw [hd']
      have hdS : d' = S := rot_back_unique hS hne (hrot.trans hr) (by rw [hbg] at hex; exact_mod_cast hex)
      subst hdS
      have hlt : (back d').1 < π.getD idx 0 := by rw [hbg] at h2; exact_mod_cast h2
      obtain ⟨j0, hj0, hfj⟩ := (hmem _).mp (back_mem' hne)
      have hcl : leftCeil π idx = none := leftCeil_eq_none (by
        intro j hj hlt'
        have : π.getD j 0 ≤ _ := sorted_back_ge hS (hmemS j hj)
        omega)
      have hfl : leftFloor π idx = some j0 := leftFloor_eq_some hinj' hj0 (by rw [hfj] at hlt; exact hlt) (by
        intro j hj _
        have := sorted_back_ge hS (hmemS j hj)
        rw [hfj] at this; exact this)
      have hout : outAt π idx = (((back d').2 : Int), -1) := by simp only [outAt, hfl, hcl, hfj]
      rw [hout, Option.map_some]
      refine ⟨_, rfl, ?_⟩
      · refine ⟨d' ++ [(π.getD idx 0, idx)], List.IsRotated.refl _, by simp, ?_, ?_, ?_, ?_⟩
        · refine List.pairwise_append.mpr ⟨hS, by simp, ?_⟩
          intro x hx y hy
          rw [List.mem_singleton] at hy; subst hy
          have := sorted_back_ge hS hx
          simp only [lt1]; omega
        · exact hmem' _ (fun x => by simp [or_comm])
        · show st.smallest = _
          rw [hsm, front_append _ hne]
        · simp [back]
    · -- in between
      simp only [h2, if_false]
      obtain ⟨d', hd', hrot, hexb, hexf⟩ := loop3_exit st hG _ h1 h2
      rw [hd']
      have hlo : (front S).1 < π.getD idx 0 := by
        have := hne_val _ (front_mem hne)
        rw [hsm] at h1
        have : (front S).1 ≤ π.getD idx 0 := by exact_mod_cast (Int.not_lt.mp h1)
        omega
      obtain ⟨init, z, y, ys, hSeq, hdeq⟩ := rot_between_split hS hne (hrot.trans hr) hlo hexb hexf
      subst hdeq
      have hbk : back (y :: ys ++ (init ++ [z])) = z := by rw [← List.append_assoc, back_concat]
      have hfr : front (y :: ys ++ (init ++ [z])) = y := by simp [front]
      rw [hbk] at hexb
      rw [hfr] at hexf
      have hzS : z ∈ S := by rw [hSeq]; simp
      have hyS : y ∈ S := by rw [hSeq]; simp
      have hz := hne_val z hzS
      have hy := hne_val y hyS
      obtain ⟨jz, hjz, hzj⟩ := (hmem _).mp hzS
      obtain ⟨jy, hjy, hyj⟩ := (hmem _).mp hyS
      have hSp := hS
      rw [hSeq] at hSp
      obtain ⟨hA, hB, hAB⟩ := List.pairwise_append.mp hSp
      have hAz : ∀ x ∈ init ++ [z], x.1 ≤ z.1 := by
        intro x hx
        have := sorted_back_ge hA hx
        rwa [back_concat] at this
      have hBy : ∀ x ∈ y :: ys, y.1 ≤ x.1 := by
        intro x hx
        have := sorted_front_le hB hx
        rwa [front_cons] at this
      have hsplit : ∀ j < idx, (π.getD j 0 ≤ z.1) ∨ (y.1 ≤ π.getD j 0) := by
        intro j hj
        have := hmemS j hj
        rw [hSeq] at this
        rcases List.mem_append.mp this with h | h
        · exact Or.inl (hAz _ h)
        · exact Or.inr (hBy _ h)
      have hfl : leftFloor π idx = some jz := leftFloor_eq_some hinj' hjz
        (by have hz' : z.1 = π.getD jz 0 := by rw [hzj]
            omega) (by
        intro j hj hlt
        rcases hsplit j hj with h | h
        · rw [hzj] at h; exact h
        · omega)
      have hcl : leftCeil π idx = some jy := leftCeil_eq_some hinj' hjy
        (by have hy' : y.1 = π.getD jy 0 := by rw [hyj]
            omega) (by
        intro j hj hlt
        rcases hsplit j hj with h | h
        · omega
        · rw [hyj] at h; exact h)
      have hout : outAt π idx = (((back (y :: ys ++ (init ++ [z]))).2 : Int),
          ((front (y :: ys ++ (init ++ [z]))).2 : Int)) := by
        rw [hbk, hfr]; simp only [outAt, hfl, hcl, hzj, hyj]
      rw [hout, Option.map_some]
      refine ⟨_, rfl, ?_⟩
      · refine ⟨(init ++ [z]) ++ ((π.getD idx 0, idx) :: y :: ys), ?_, by simp, ?_, ?_, ?_, ?_⟩
        · show ((π.getD idx 0, idx) :: y :: ys) ++ (init ++ [z]) ~r _
          exact List.isRotated_append
        · refine List.pairwise_append.mpr ⟨hA, List.pairwise_cons.mpr ⟨?_, hB⟩, ?_⟩
          · intro x hx
            have := hBy x hx
            simp only [lt1]; omega
          · intro a ha b hb
            rcases List.mem_cons.mp hb with h | h
            · have := hAz a ha
              subst h; simp only [lt1]; omega
            · exact hAB a ha b h
        · apply hmem'
          intro x
          rw [hSeq]
          simp only [List.mem_append, List.mem_cons]
          tauto
        · show st.smallest = _
          rw [hsm, hSeq, front_append (a := init ++ [z]) (y :: ys) (by simp),
            front_append (a := init ++ [z]) ((π.getD idx 0, idx) :: y :: ys) (by simp)]
        · show st.biggest = _
          rw [hbg, hSeq, back_append_cons, back_append_cons,
            show (π.getD idx 0, idx) :: y :: ys = [(π.getD idx 0, idx)] ++ y :: ys from rfl, back_append_cons]
