import PermutaModel.Lemmas.C16ConvReach
/-!
# C16 converse, part 4d — the same with Brignall–Huczynska–Vatter's *maximality condition*

In the cited paper a proper pin sequence also satisfies the maximality condition: every pin is the farthest
pin of its direction for the hull of its predecessors.  `MaxPinSeq P` adds this to `PinSeqA`; the reached
points of such sequences still span everything (`max_pin_cover`), so every extreme point is reached by a
proper pin sequence *with* maximality (`max_extreme_reached`).
-/
namespace C16P

/-- `c` lies on the upper (`pos = true`) / lower side of all of `A` in coordinate `f` -/
def Beyond (f : Pt → Rat) (pos : Bool) (c : Pt) (A : List Pt) : Prop :=
  if pos then ∀ a ∈ A, f a < f c else ∀ a ∈ A, f c < f a

theorem extr_iff_beyond {f : Pt → Rat} {c : Pt} {A : List Pt} : Extr f c A ↔ ∃ pos, Beyond f pos c A := by
  constructor
  · rintro (h | h)
    · exact ⟨true, by simpa [Beyond] using h⟩
    · exact ⟨false, by simpa [Beyond] using h⟩
  · rintro ⟨pos, h⟩
    cases pos
    · exact Or.inr (by simpa [Beyond] using h)
    · exact Or.inl (by simpa [Beyond] using h)

/-- a pin of axis `v` on the side `pos` -/
def IsPinS (v pos : Bool) (A : List Pt) (c : Pt) : Prop := InRange (co v) A c ∧ Beyond (co (!v)) pos c A

theorem IsPinS.isPin {v pos : Bool} {A : List Pt} {c : Pt} (h : IsPinS v pos A c) : IsPin v A c :=
  ⟨h.1, extr_iff_beyond.mpr ⟨pos, h.2⟩⟩

theorem isPin_iff_side {v : Bool} {A : List Pt} {c : Pt} : IsPin v A c ↔ ∃ pos, IsPinS v pos A c := by
  constructor
  · rintro ⟨h1, h2⟩
    obtain ⟨pos, hp⟩ := extr_iff_beyond.mp h2
    exact ⟨pos, h1, hp⟩
  · rintro ⟨pos, h⟩; exact h.isPin

/-- `c'` is at least as far out as `c` on the side `pos` -/
def Farther (f : Pt → Rat) (pos : Bool) (c c' : Pt) : Prop := if pos then f c ≤ f c' else f c' ≤ f c

/-- `c` is a maximal pin of `P` for the hull of `A`: no pin of the same axis and side lies farther out -/
def IsMaxPinS (P : List Pt) (v pos : Bool) (A : List Pt) (c : Pt) : Prop :=
  IsPinS v pos A c ∧ ∀ c' ∈ P, IsPinS v pos A c' → Farther (co (!v)) pos c' c

/-- proper pin sequence of points of `P` with the maximality condition -/
def MaxPinSeq (P : List Pt) : Bool → List Pt → Prop
  | v, p :: q :: r :: rest =>
      SepA v p q (r :: rest) ∧ (∃ pos, IsMaxPinS P v pos (q :: r :: rest) p) ∧ MaxPinSeq P (!v) (q :: r :: rest)
  | _, _ => True

theorem MaxPinSeq.pinSeqA {P : List Pt} : ∀ {v : Bool} {L : List Pt}, MaxPinSeq P v L → PinSeqA v L
  | _, [], _ => by simp [PinSeqA]
  | _, [_], _ => by simp [PinSeqA]
  | _, [_, _], _ => by simp [PinSeqA]
  | _, _ :: _ :: _ :: _, h => ⟨h.1, MaxPinSeq.pinSeqA h.2.2⟩

theorem maxPinSeq_tail {P : List Pt} {v : Bool} {p : Pt} {l : List Pt} (h : MaxPinSeq P v (p :: l)) :
    MaxPinSeq P (!v) l := by
  match l with
  | [] => simp [MaxPinSeq]
  | [_] => simp [MaxPinSeq]
  | q :: r :: rest => exact h.2.2

theorem maxPinSeq_short (P : List Pt) (v : Bool) (l : List Pt) (h : l.length ≤ 2) : MaxPinSeq P v l := by
  match l, h with
  | [], _ => simp [MaxPinSeq]
  | [_], _ => simp [MaxPinSeq]
  | [_, _], _ => simp [MaxPinSeq]

theorem maxPinSeq_cons {P : List Pt} {v : Bool} {p q : Pt} {rest : List Pt} (h : rest ≠ []) :
    MaxPinSeq P v (p :: q :: rest) ↔
      SepA v p q rest ∧ (∃ pos, IsMaxPinS P v pos (q :: rest) p) ∧ MaxPinSeq P (!v) (q :: rest) := by
  cases rest with
  | nil => exact absurd rfl h
  | cons r rest => simp [MaxPinSeq]

/-- among the points of a list with a property there is one that is farthest out -/
theorem exists_farthest (f : Pt → Rat) (pos : Bool) (Q : Pt → Prop) : ∀ (l : List Pt), (∃ c ∈ l, Q c) →
    ∃ m ∈ l, Q m ∧ ∀ c ∈ l, Q c → Farther f pos c m := by
  intro l
  induction l with
  | nil => rintro ⟨c, hc, _⟩; simp at hc
  | cons a l ih =>
    rintro ⟨c, hc, hQ⟩
    by_cases hl : ∃ c ∈ l, Q c
    · obtain ⟨m, hm, hQm, hmax⟩ := ih hl
      by_cases ha : Q a ∧ ¬ Farther f pos a m
      · refine ⟨a, by simp, ha.1, fun c hc hQc => ?_⟩
        rcases List.mem_cons.mp hc with rfl | hc
        · cases pos <;> simp [Farther]
        · have h1 := hmax c hc hQc
          have h2 := ha.2
          cases pos <;> simp only [Farther, Bool.false_eq_true, if_false, if_true] at h1 h2 ⊢ <;> grind
      · refine ⟨m, by simp [hm], hQm, fun c hc hQc => ?_⟩
        rcases List.mem_cons.mp hc with rfl | hc
        · apply Classical.byContradiction
          intro hn
          exact ha ⟨hQc, hn⟩
        · exact hmax c hc hQc
    · have hca : c = a := by
        rcases List.mem_cons.mp hc with h | h
        · exact h
        · exact absurd ⟨c, h, hQ⟩ hl
      subst hca
      refine ⟨c, by simp, hQ, fun c' hc' hQc' => ?_⟩
      rcases List.mem_cons.mp hc' with rfl | hc'
      · cases pos <;> simp [Farther]
      · exact absurd ⟨c', hc', hQc'⟩ hl

/-- `L` (newest first) is a proper pin sequence of `P` *with maximality* whose two oldest points are `p1, p2` -/
def MaxProperFrom (P : List Pt) (p2 p1 : Pt) (L : List Pt) : Prop :=
  (∃ v, MaxPinSeq P v L) ∧ (∃ mid, L = mid ++ [p2, p1]) ∧ L.Nodup ∧ ∀ a ∈ L, a ∈ P

theorem MaxProperFrom.properFrom {P : List Pt} {p2 p1 : Pt} {L : List Pt} (h : MaxProperFrom P p2 p1 L) :
    ProperFrom P p2 p1 L :=
  ⟨⟨h.1.choose, h.1.choose_spec.pinSeqA⟩, h.2⟩

/-- a *maximal* pin of the hull of a maximal proper pin sequence is the newest point of another one -/
theorem reach_max_pin (P : List Pt) (hx : (P.map Prod.fst).Nodup) (hy : (P.map Prod.snd).Nodup) (p2 p1 : Pt) :
    ∀ (mid : List Pt), MaxProperFrom P p2 p1 (mid ++ [p2, p1]) → ∀ c ∈ P, ∀ w pos,
      IsMaxPinS P w pos (mid ++ [p2, p1]) c → ∃ L', MaxProperFrom P p2 p1 (c :: L') := by
  intro mid
  induction mid with
  | nil =>
    intro hL c hc w pos hmax
    obtain ⟨_, _, hN, hsub⟩ := hL
    have hpin : IsPin w [p2, p1] c := hmax.1.isPin
    have hco : ¬ InHull [p2, p1] c := hpin.not_inHull
    have hc2 : c ≠ p2 := fun h => hco (h ▸ inHull_self (by simp))
    have hc1 : c ≠ p1 := fun h => hco (h ▸ inHull_self (by simp))
    have hP3 : PinSeqA w [c, p2, p1] := pinSeq_three_of_pin hpin
      ⟨coord_ne hx hy hc (hsub p2 (by simp)) hc2 w, coord_ne hx hy hc (hsub p1 (by simp)) hc1 w⟩
    refine ⟨[p2, p1], ⟨w, ?_⟩, ⟨[c], rfl⟩, ?_, ?_⟩
    · simp only [PinSeqA, and_true] at hP3
      exact ⟨hP3, ⟨pos, hmax⟩, trivial⟩
    · simp only [List.nil_append] at hN
      simp only [List.nodup_cons, List.mem_cons, List.not_mem_nil, or_false, not_or] at hN ⊢
      exact ⟨⟨hc2, hc1⟩, hN⟩
    · intro a ha
      rcases List.mem_cons.mp ha with rfl | ha
      · exact hc
      · exact hsub a ha
  | cons p mid ih =>
    intro hL c hc w pos hmax
    obtain ⟨⟨v, hP⟩, _, hN, hsub⟩ := hL
    obtain ⟨q, rest, hqr, hrest⟩ : ∃ q rest, mid ++ [p2, p1] = q :: rest ∧ rest ≠ [] := by
      cases mid with
      | nil => exact ⟨p2, [p1], rfl, by simp⟩
      | cons a m => exact ⟨a, m ++ [p2, p1], rfl, by simp⟩
    have hLe : (p :: mid) ++ [p2, p1] = p :: q :: rest := by rw [← hqr]; rfl
    rw [hLe] at hP hN hsub hmax
    have htail : MaxProperFrom P p2 p1 (mid ++ [p2, p1]) := by
      refine ⟨⟨!v, ?_⟩, ⟨mid, rfl⟩, ?_, ?_⟩
      · rw [hqr]; exact maxPinSeq_tail hP
      · rw [hqr]; exact (List.nodup_cons.mp hN).2
      · rw [hqr]; exact fun a ha => hsub a (List.mem_cons_of_mem _ ha)
    have hpin : IsPin w (p :: q :: rest) c := hmax.1.isPin
    have hsubs : ∀ x ∈ q :: rest, x ∈ p :: q :: rest := fun x hx => List.mem_cons_of_mem _ hx
    by_cases hold : ∃ w', IsPin w' (q :: rest) c
    · -- an old pin: it is maximal for the older hull as well (same axis, same side)
      obtain ⟨w', hw'⟩ := hold
      have hbey : ∀ u pos', Beyond (co u) pos' c (p :: q :: rest) → Beyond (co u) pos' c (q :: rest) := by
        intro u pos' h
        cases pos' <;> simp only [Beyond, Bool.false_eq_true, if_false, if_true] at h ⊢ <;>
          exact fun a ha => h a (hsubs a ha)
      -- the axis is the same: on the other axis `c` would be in range and beyond at once
      have hww : w' = w := by
        apply Classical.byContradiction
        intro hne
        have hw : w' = !w := by cases w <;> cases w' <;> simp_all
        subst hw
        have h1 : InRange (co (!w)) (q :: rest) c := hw'.1
        have h2 : Extr (co (!w)) c (q :: rest) := extr_iff_beyond.mpr ⟨pos, hbey _ _ hmax.1.2⟩
        exact not_inRange_of_extr h2 h1
      subst hww
      have hmax' : IsMaxPinS P w' pos (q :: rest) c := by
        refine ⟨⟨hw'.1, hbey _ _ hmax.1.2⟩, fun c' hc' hp' => ?_⟩
        -- a pin of the older hull that is farther out than `c` is a pin of the whole hull
        apply Classical.byContradiction
        intro hnf
        have hfar : Beyond (co (!w')) pos c' (p :: q :: rest) := by
          have hb := hmax.1.2
          cases pos <;> simp only [Beyond, Farther, Bool.false_eq_true, if_false, if_true] at hb hnf ⊢ <;>
            intro a ha <;> have := hb a ha <;> grind
        have hin : InRange (co w') (p :: q :: rest) c' :=
          ⟨⟨hp'.1.1.choose, hsubs _ hp'.1.1.choose_spec.1, hp'.1.1.choose_spec.2⟩,
           ⟨hp'.1.2.choose, hsubs _ hp'.1.2.choose_spec.1, hp'.1.2.choose_spec.2⟩⟩
        exact hnf (hmax.2 c' hc' ⟨hin, hfar⟩)
      exact ih htail c hc w' pos (hqr ▸ hmax')
    · have hco : ¬ InHull (p :: q :: rest) c := hpin.not_inHull
      have hcp : c ≠ p := fun h => hco (h ▸ inHull_self (by simp))
      have hsep : SepA v p q rest := by
        rw [maxPinSeq_cons hrest] at hP; exact hP.1
      obtain ⟨hwv, hs⟩ := sepA_of_new_pin hrest hsep hpin (fun w' hw' => hold ⟨w', hw'⟩)
        (fun u => coord_ne hx hy hc (hsub p (by simp)) hcp u)
      subst hwv
      refine ⟨p :: q :: rest, ⟨!v, ?_⟩, ⟨c :: p :: mid, by rw [← hLe]; rfl⟩, ?_, ?_⟩
      · rw [maxPinSeq_cons (by simp)]
        exact ⟨hs, ⟨pos, hmax⟩, by rwa [Bool.not_not]⟩
      · rw [List.nodup_cons]
        exact ⟨fun h => hco (inHull_self h), hN⟩
      · intro a ha
        rcases List.mem_cons.mp ha with rfl | ha
        · exact hc
        · exact hsub a ha

/-- `z` occurs in a maximal proper pin sequence of `P` that begins with `p1, p2` -/
def MaxReached (P : List Pt) (p2 p1 : Pt) (z : Pt) : Prop := ∃ L, MaxProperFrom P p2 p1 L ∧ z ∈ L

/-- **every extreme point is reached by a proper pin sequence with maximality** (Brignall–Huczynska–Vatter's
    right-reaching pin sequences, for all four sides): the proof of `pin_cover` with the farthest pin of the
    direction in place of the pin -/
theorem max_extreme_reached (P : List Pt) (hS : Simple P) (hx : (P.map Prod.fst).Nodup)
    (hy : (P.map Prod.snd).Nodup) (p2 p1 : Pt) (h2 : p2 ∈ P) (h1 : p1 ∈ P) (hne : p2 ≠ p1) (c : Pt) (hc : c ∈ P)
    (u : Bool) (hext : (∀ s ∈ P, co u s ≤ co u c) ∨ (∀ s ∈ P, co u c ≤ co u s)) : MaxReached P p2 p1 c := by
  have hbase : MaxProperFrom P p2 p1 [p2, p1] :=
    ⟨⟨true, maxPinSeq_short _ _ _ (by simp)⟩, ⟨[], rfl⟩, by simp [hne], by
      intro a ha; simp only [List.mem_cons, List.not_mem_nil, or_false] at ha; rcases ha with rfl | rfl <;> assumption⟩
  let CovM : (Pt → Rat) → Pt → Prop := fun f c =>
    (∃ z, MaxReached P p2 p1 z ∧ f z ≤ f c) ∧ (∃ z, MaxReached P p2 p1 z ∧ f c ≤ f z)
  have hself : ∀ z, MaxReached P p2 p1 z → ∀ f, CovM f z :=
    fun z hz f => ⟨⟨z, hz, Rat.le_refl⟩, ⟨z, hz, Rat.le_refl⟩⟩
  have hr2 : MaxReached P p2 p1 p2 := ⟨_, hbase, by simp⟩
  have hr1 : MaxReached P p2 p1 p1 := ⟨_, hbase, by simp⟩
  let S : Pt → Prop := fun c => CovM (co true) c ∧ CovM (co false) c
  have hSco : ∀ (u : Bool) c, S c → CovM (co u) c := by
    intro u c h; cases u; exact h.2; exact h.1
  have hp1L : ∀ L, MaxProperFrom P p2 p1 L → p1 ∈ L := fun L h => p1_mem_of_properFrom h.properFrom
  -- a point covered on one axis is covered on the other as well
  have key : ∀ c ∈ P, ∀ v : Bool, CovM (co v) c → CovM (co (!v)) c := by
    intro c hc v hcov
    apply Classical.byContradiction
    intro hncov
    obtain ⟨⟨u1, ⟨L1, hL1, hu1⟩, hle1⟩, ⟨u2, ⟨L2, hL2, hu2⟩, hle2⟩⟩ := hcov
    have hbey : ∃ pos : Bool, ∀ z, MaxReached P p2 p1 z → (if pos then co (!v) z < co (!v) c else co (!v) c < co (!v) z) := by
      by_cases hlow : ∃ z, MaxReached P p2 p1 z ∧ co (!v) z ≤ co (!v) c
      · refine ⟨true, fun z hz => ?_⟩
        simp only [if_true]
        apply Classical.byContradiction
        intro hlt
        exact hncov ⟨hlow, z, hz, by grind⟩
      · refine ⟨false, fun z hz => ?_⟩
        simp only [Bool.false_eq_true, if_false]
        apply Classical.byContradiction
        intro hlt
        exact hlow ⟨z, hz, by grind⟩
    obtain ⟨pos, hbey⟩ := hbey
    obtain ⟨L, hL, hin⟩ : ∃ L, MaxProperFrom P p2 p1 L ∧ InRange (co v) L c := by
      by_cases hp : co v p1 ≤ co v c
      · exact ⟨L2, hL2, ⟨p1, hp1L L2 hL2, hp⟩, ⟨u2, hu2, hle2⟩⟩
      · exact ⟨L1, hL1, ⟨u1, hu1, hle1⟩, ⟨p1, hp1L L1 hL1, by grind⟩⟩
    have hpinS : IsPinS v pos L c := by
      refine ⟨hin, ?_⟩
      cases pos <;> simp only [Beyond, Bool.false_eq_true, if_false, if_true] at hbey ⊢ <;>
        exact fun a ha => hbey a ⟨L, hL, ha⟩
    -- the farthest pin of this direction
    obtain ⟨m, hm, hQm, hmax⟩ := exists_farthest (co (!v)) pos (IsPinS v pos L) P ⟨c, hc, hpinS⟩
    obtain ⟨mid, rfl⟩ := hL.2.1
    obtain ⟨L', hL'⟩ := reach_max_pin P hx hy p2 p1 mid hL m hm v pos ⟨hQm, hmax⟩
    have hmr : MaxReached P p2 p1 m := ⟨_, hL', by simp⟩
    have h1 := hmax c hc hpinS
    have h2 := hbey m hmr
    cases pos <;> simp only [Farther, Bool.false_eq_true, if_false, if_true] at h1 h2 <;> grind
  have hIv : Iv P S := by
    intro c hc hcS
    have hside : ∀ v : Bool, Out (co v) P S c := by
      intro v
      apply Classical.byContradiction
      intro hno
      unfold Out at hno
      have e1 : ∃ s ∈ P, S s ∧ co v s ≤ co v c := by
        apply Classical.byContradiction
        intro hn
        apply hno
        left
        intro s hs hSs
        apply Classical.byContradiction
        intro hlt
        exact hn ⟨s, hs, hSs, by grind⟩
      have e2 : ∃ s ∈ P, S s ∧ co v c ≤ co v s := by
        apply Classical.byContradiction
        intro hn
        apply hno
        right
        intro s hs hSs
        apply Classical.byContradiction
        intro hlt
        exact hn ⟨s, hs, hSs, by grind⟩
      obtain ⟨s1, _, hS1, hl1⟩ := e1
      obtain ⟨s2, _, hS2, hl2⟩ := e2
      obtain ⟨⟨u1, hu1, hle1⟩, _⟩ := hSco v s1 hS1
      obtain ⟨_, ⟨u2, hu2, hle2⟩⟩ := hSco v s2 hS2
      have hcov : CovM (co v) c := ⟨⟨u1, hu1, by grind⟩, ⟨u2, hu2, by grind⟩⟩
      have hcov' := key c hc v hcov
      apply hcS
      cases v
      · exact ⟨hcov', hcov⟩
      · exact ⟨hcov, hcov'⟩
    exact ⟨hside true, hside false⟩
  have hall : ∀ c ∈ P, S c := by
    intro c hc
    apply Classical.byContradiction
    intro hcS
    exact hS S hIv ⟨⟨p2, h2, p1, h1, hne, ⟨hself p2 hr2 _, hself p2 hr2 _⟩, ⟨hself p1 hr1 _, hself p1 hr1 _⟩⟩,
      c, hc, hcS⟩
  have hcu : CovM (co u) c := hSco u c (hall c hc)
  have hmemP : ∀ z, MaxReached P p2 p1 z → z ∈ P := fun z ⟨L, hL, hz⟩ => hL.2.2.2 z hz
  rcases hext with h | h
  · obtain ⟨z, hz, hle⟩ := hcu.2
    have hzP := hmemP z hz
    have : z = c := by
      apply Classical.byContradiction
      intro hzc
      have := coord_ne hx hy hzP hc hzc u
      have := h z hzP
      grind
    exact this ▸ hz
  · obtain ⟨z, hz, hle⟩ := hcu.1
    have hzP := hmemP z hz
    have : z = c := by
      apply Classical.byContradiction
      intro hzc
      have := coord_ne hx hy hzP hc hzc u
      have := h z hzP
      grind
    exact this ▸ hz

end C16P
