import PermutaModel.Lemmas.C02Obj
import PermutaModel.Lemmas.C07Sched
import PermutaModel.Lemmas.C07Mono

/-! The sequential theory C07 needs (`C07L.SeqOK`), discharged from the C02 cache invariant:
    for a fixed basis `B`, "good" = the object has basis `B` and satisfies `ObjInv`. -/
open List Model Model.C02 Model.C07

namespace C02L

theorem getLast_cons_eq_getLastD {α} (a : α) (l : List α) :
    (a :: l).getLast (by simp) = l.getLastD a := by
  cases l with
  | nil => rfl
  | cons b t =>
    rw [List.getLast_cons (by simp), List.getLastD_eq_getLast?, List.getLast?_eq_some_getLast (by simp)]
    rfl

/-- **the hypothesis of the C07 schedule induction holds**: every state reachable inside
    `_ensure_level` shows spec keys on every visible level, never loses a level, the call is total, and
    its last state is good again with the requested level present, and no write shortens the cache -/
theorem seqOK (B : BasisV) : C07L.SeqOK (specLevel B) (fun o => ObjInv o ∧ o.basis = B) where
  visible := by
    rintro o ⟨h, rfl⟩ i hi
    exact h.keys hi
  total := by
    rintro o n ⟨h, _⟩
    obtain ⟨_, tr, _, h2, _⟩ := ensureLevel_correct o h n
    exact ⟨tr, h2⟩
  inter := by
    rintro o n tr ⟨h, rfl⟩ htr w hw
    obtain ⟨_, tr', _, h2, _, _, _, h6⟩ := ensureLevel_correct o h n
    rw [htr] at h2
    simp only [Except.ok.injEq] at h2
    subst h2
    have hext := h6 w hw
    refine ⟨fun i hi => ?_, hext.len⟩
    have := hext.inv.keys hi
    rwa [hext.basis] at this
  final := by
    rintro o n tr ⟨h, rfl⟩ htr
    obtain ⟨o', tr', _, h2, hext, hn, hlast, _⟩ := ensureLevel_correct o h n
    rw [htr] at h2
    simp only [Except.ok.injEq] at h2
    subst h2
    rw [getLast_cons_eq_getLastD, hlast]
    exact ⟨⟨hext.inv, hext.basis⟩, hn⟩
  mono := by
    rintro o n pre w post _ htr
    exact C07L.ensureTrace_mono_split o n pre w post htr

end C02L
