import PermutaModel.Lemmas.C17Proj
/-! A3 (top level): `mine` covers every occurrence of every pattern of a checked length in every
    input permutation of length at most `N`. -/

namespace Model.C17

/-! ### the hit set computed by the scan contains the positional hit cells -/

theorem hitBoxes_mem_of_split (cand pre post : List Nat) (e x0 : Nat) (he : cand.contains e = false) :
    (x0 + pre.countP (fun a => cand.contains a), (cand.filter (· < e)).length)
      ∈ hitBoxes cand (pre ++ e :: post) x0 := by
  induction pre generalizing x0 with
  | nil =>
    have : e ∉ cand := by simpa using he
    simp [hitBoxes, this]
  | cons a pre ih =>
    simp only [List.cons_append, hitBoxes]
    by_cases ha : cand.contains a = true
    · simp only [ha, if_true, List.countP_cons_of_pos]
      have := ih (x0 + 1)
      have e1 : x0 + 1 + pre.countP (fun a => cand.contains a) = x0 + (pre.countP (fun a => cand.contains a) + 1) := by omega
      rwa [e1] at this
    · simp only [ha, Bool.false_eq_true, if_false]
      rw [List.countP_cons_of_neg (by simpa using ha)]
      exact List.mem_cons_of_mem _ (ih x0)

theorem countP_range_mem (c : List Nat) (hc : c.Nodup) (n : Nat) :
    (List.range n).countP (fun k => decide (k ∈ c)) = c.countP (fun k => decide (k < n)) := by
  rw [List.countP_eq_length_filter, List.countP_eq_length_filter]
  apply List.Perm.length_eq
  rw [List.perm_ext_iff_of_nodup (List.nodup_range.filter _) (hc.filter _)]
  intro a
  simp only [List.mem_filter, List.mem_range, decide_eq_true_eq]
  exact ⟨fun h => ⟨h.2, h.1⟩, fun h => ⟨h.2, h.1⟩⟩

theorem take_eq_map_range (τ : NSeq) (i : Nat) (hi : i ≤ τ.length) :
    τ.take i = (List.range i).map (fun k => τ.getD k 0) := by
  apply List.ext_getElem
  · simp [hi]
  · intro k h1 h2
    simp only [List.length_take] at h1
    simp only [List.getElem_take, List.getElem_map, List.getElem_range]
    rw [getD_of_lt τ k (by omega)]

theorem mem_pick_iff {τ : NSeq} (hτ : IsPerm τ) (c : List Nat) (hc : ∀ k ∈ c, k < τ.length) (i : Nat)
    (hi : i < τ.length) : τ.getD i 0 ∈ pick τ c ↔ i ∈ c := by
  unfold pick
  rw [List.mem_map]
  constructor
  · rintro ⟨k, hk, hkv⟩
    have := hτ.getD_inj (hc k hk) hi hkv
    rwa [← this]
  · intro h; exact ⟨i, h, rfl⟩

/-- the cell of a point outside the occurrence is one of the `hit_boxes` -/
theorem hit_mem {τ : NSeq} (hτ : IsPerm τ) (c : List Nat) (hcn : c.Nodup) (hc : ∀ k ∈ c, k < τ.length)
    (i : Nat) (hi : i < τ.length) (hic : i ∉ c) :
    proj τ c (i, τ.getD i 0) ∈ hitBoxes (pick τ c) τ 0 := by
  have hsplit : τ = τ.take i ++ τ.getD i 0 :: τ.drop (i + 1) := by
    rw [getD_of_lt τ i hi]; simp
  have he : (pick τ c).contains (τ.getD i 0) = false := by
    rw [← Bool.not_eq_true, List.contains_iff_mem, mem_pick_iff hτ c hc i hi]; exact hic
  have := hitBoxes_mem_of_split (pick τ c) (τ.take i) (τ.drop (i + 1)) (τ.getD i 0) 0 he
  rw [← hsplit] at this
  have e1 : (τ.take i).countP (fun a => (pick τ c).contains a) = c.countP (fun k => decide (k < i)) := by
    rw [take_eq_map_range τ i (by omega), List.countP_map, ← countP_range_mem c hcn i]
    apply List.countP_congr
    intro k hk
    rw [List.mem_range] at hk
    simp only [Function.comp, List.contains_iff_mem, decide_eq_true_eq]
    exact mem_pick_iff hτ c hc k (by omega)
  have e2 : ((pick τ c).filter (· < τ.getD i 0)).length
      = c.countP (fun k => decide (τ.getD k 0 < τ.getD i 0)) := by
    rw [← List.countP_eq_length_filter]; unfold pick; rw [List.countP_map]; rfl
  unfold proj
  rw [e1, e2] at this
  simpa using this

/-! ### initialisation and the final antichain filter -/

theorem initLevel_get (ps : List NSeq) (p : NSeq) (hp : p ∈ ps) : alGet (initLevel ps) p = some [[]] := by
  unfold initLevel
  have gen : ∀ (ps : List NSeq) (lv : Level), (p ∈ ps ∨ alGet lv p = some [[]]) →
      alGet (ps.foldl (fun lv p => alSet lv p [[]]) lv) p = some [[]] := by
    intro ps
    induction ps with
    | nil => intro lv h; rcases h with h | h; cases h; exact h
    | cons a t ih =>
      intro lv h
      simp only [List.foldl_cons]
      apply ih
      by_cases hap : p = a
      · right; subst hap; exact alGet_alSet_same _ _ _
      · rcases h with h | h
        · rcases List.mem_cons.mp h with h | h
          · exact absurd h hap
          · left; exact h
        · right; rw [alGet_alSet_ne _ _ _ _ hap]; exact h
  exact gen ps [] (Or.inl hp)

theorem pruneSeq_covers (H : Shading) (orig : List Shading) : ∀ cur : List Shading,
    (∃ R ∈ cur, subsetB R H = true) → ∃ R ∈ pruneSeq orig cur, subsetB R H = true := by
  induction orig with
  | nil => intro cur h; exact h
  | cons R0 rest ih =>
    intro cur h
    unfold pruneSeq
    split
    · rename_i hcond
      apply ih
      obtain ⟨R, hR, hRH⟩ := h
      by_cases hp : setEqB R R0 = true
      · obtain ⟨S, hS, hSR⟩ := List.any_eq_true.mp hcond
        refine ⟨S, hS, ?_⟩
        unfold setEqB at hp
        simp only [Bool.and_eq_true] at hp
        exact subsetB_trans (subsetB_trans hSR hp.2) hRH
      · exact ⟨R, (List.mem_eraseP_of_neg (p := fun S => setEqB S R0) (a := R) (l := cur) hp).mpr hR, hRH⟩
    · exact ih cur h

theorem prune_step_mono (g : List Level) (j' j : Nat) (π : NSeq) (H : Shading) (h : Covers g j π H) :
    Covers (g.set j' (pruneLevel (g.getD j' []))) j π H := by
  unfold Covers at *
  by_cases hj : j' = j
  · subst hj
    by_cases hn : j' < g.length
    · rw [getD_set_self _ _ _ hn]
      obtain ⟨Rs, hRs, hex⟩ := h
      unfold pruneLevel
      rw [alGet_map (g.getD j' []) (fun Rs => pruneSeq Rs Rs) π, hRs]
      exact ⟨pruneSeq Rs Rs, rfl, pruneSeq_covers H Rs Rs hex⟩
    · rw [List.set_eq_of_length_le (by omega)]; exact h
  · rw [getD_set_ne _ _ _ _ hj]; exact h

theorem le_getLastD (t : List Nat) : ∀ a, (a :: t).Pairwise (· < ·) → ∀ x ∈ a :: t, x ≤ t.getLastD a := by
  induction t with
  | nil => intro a _ x hx; simp at hx; simp [hx]
  | cons b t' ih =>
    intro a hs x hx
    simp only [List.getLastD_cons]
    have hs' : (b :: t').Pairwise (· < ·) := (List.pairwise_cons.mp hs).2
    have hab : a < b := (List.pairwise_cons.mp hs).1 b (by simp)
    rcases List.mem_cons.mp hx with rfl | h
    · have := ih b hs' b (by simp); omega
    · exact ih b hs' x h

theorem headD_le_of_sorted (l : List Nat) (hs : l.Pairwise (· < ·)) (x : Nat) (hx : x ∈ l) :
    l.headD 0 ≤ x ∧ x ≤ l.getLastD 0 := by
  cases l with
  | nil => cases hx
  | cons a t =>
    simp only [List.headD_cons, List.getLastD_cons]
    refine ⟨?_, le_getLastD t a hs x hx⟩
    rcases List.mem_cons.mp hx with rfl | h
    · exact Nat.le_refl _
    · exact Nat.le_of_lt ((List.pairwise_cons.mp hs).1 x h)

end Model.C17

namespace Model.C17

theorem getLastD_mem (t : List Nat) : ∀ a, t.getLastD a ∈ a :: t := by
  induction t with
  | nil => intro a; simp
  | cons b t' ih =>
    intro a
    simp only [List.getLastD_cons]
    exact List.mem_cons_of_mem _ (ih b)

theorem mineCi_sorted (D : Nat → List NSeq) (M : Nat) : (mineCi D M).Pairwise (· < ·) :=
  List.Pairwise.filter _ List.pairwise_lt_range

theorem mineCi_le (D : Nat → List NSeq) (M : Nat) (j : Nat) (h : j ∈ mineCi D M) : j ≤ M := by
  unfold mineCi at h
  have := (List.mem_filter.mp h).1
  rw [List.mem_range] at this; omega

theorem mineInit_length (D : Nat → List NSeq) (M : Nat) : (mineInit D M).length = M + 1 := by
  simp [mineInit]

theorem mineInit_getD (D : Nat → List NSeq) (M j : Nat) (h : j ≤ M) :
    (mineInit D M).getD j [] = initLevel (D j) := by
  unfold mineInit
  rw [List.getD_eq_getElem?_getD, List.getElem?_map, List.getElem?_range (by omega)]
  simp

theorem mineLoop_length (D : Nat → List NSeq) (N a b : Nat) (gp : List Level) :
    (mineLoop D N a b gp).length = gp.length := by
  unfold mineLoop
  refine foldl_preserves (fun g : List Level => g.length = gp.length) _ _ ?_ gp rfl
  intro g i _ hg
  refine foldl_preserves (fun g : List Level => g.length = gp.length) _ _ ?_ g hg
  intro g' p _ hg'
  rw [addGood_length]; exact hg'

theorem mineLoop_mono (D : Nat → List NSeq) (N a b : Nat) (gp : List Level) (j : Nat) (π : NSeq)
    (H : Shading) (h : Covers gp j π H) : Covers (mineLoop D N a b gp) j π H := by
  unfold mineLoop
  refine foldl_preserves (fun g : List Level => Covers g j π H) _ _ ?_ gp h
  intro g i _ hg
  refine foldl_preserves (fun g : List Level => Covers g j π H) _ _ ?_ g hg
  intro g' p _ hg'
  exact addGood_mono _ _ _ _ _ _ _ _ _ _ hg'

theorem minePrune_mono (ci : List Nat) (gp : List Level) (j : Nat) (π : NSeq) (H : Shading)
    (h : Covers gp j π H) : Covers (minePrune ci gp) j π H := by
  unfold minePrune
  refine foldl_preserves (fun g : List Level => Covers g j π H) _ _ ?_ gp h
  intro g j' _ hg
  exact prune_step_mono g j' j π H hg

/-- **A3** `mine_covers` -/
theorem mine_covers (D : Nat → List NSeq) (M N : Nat)
    (hD : ∀ k, ∀ p ∈ D k, IsPerm p ∧ p.length = k)
    (σ : NSeq) (hσ : σ ∈ D σ.length) (hσN : σ.length ≤ N)
    (π : NSeq) (hπ : IsPerm π) (c : List Nat) (hc : IsOcc π σ c)
    (hj : π.length ∈ (mine D M N).1) :
    Covers (mine D M N).2 π.length π (hitBoxes (pick σ c) σ 0) := by
  have hσp : IsPerm σ := (hD _ σ hσ).1
  have hne : (mineCi D M).isEmpty = false := by
    cases he : (mineCi D M).isEmpty with
    | false => rfl
    | true => unfold mine at hj; rw [if_pos he] at hj; cases hj
  unfold mine at hj ⊢
  rw [if_neg (by simp [hne])] at hj ⊢
  simp only at hj ⊢
  have hjM := mineCi_le D M _ hj
  obtain ⟨hlo, hhi⟩ := headD_le_of_sorted _ (mineCi_sorted D M) _ hj
  have hmaxM : (mineCi D M).getLastD 0 ≤ M := by
    cases hci : mineCi D M with
    | nil => rw [hci] at hj; cases hj
    | cons a t =>
      simp only [List.getLastD_cons]
      have := getLastD_mem t a
      rw [← hci] at this
      exact mineCi_le D M _ this
  have hcn : c.Nodup := hc.inc.imp (fun h => Nat.ne_of_lt h)
  have hjle : π.length ≤ σ.length := by
    have := List.Nodup.length_le_of_subset hcn (l₂ := List.range σ.length)
      (fun x hx => List.mem_range.mpr (hc.rng x hx))
    simp at this; rw [hc.len] at this; exact this
  apply minePrune_mono
  by_cases heq : π.length = σ.length
  · -- the permutation itself
    have hcr : c = List.range σ.length :=
      eq_range_of_sorted c _ hc.inc hc.rng (by rw [hc.len, heq])
    have hπσ : π = σ := by
      apply perm_eq_of_iso hπ hσp heq
      intro a b ha hb
      rw [hc.iso a b ha hb, hcr]
      have e : ∀ a, a < σ.length → (List.range σ.length).getD a 0 = a := by
        intro a ha; rw [getD_of_lt _ a (by simpa using ha)]; simp
      rw [e a (by omega), e b (by omega)]
    apply mineLoop_mono
    unfold Covers
    rw [mineInit_getD D M _ hjM, hπσ]
    exact ⟨[[]], initLevel_get _ σ hσ, [], by simp, subsetB_nil _⟩
  · have hlt : π.length < σ.length := by omega
    obtain ⟨L, hL⟩ : ∃ L, σ.length = L + 1 := ⟨σ.length - 1, by omega⟩
    unfold mineLoop
    refine foldl_establish (fun g : List Level => Covers g π.length π _)
      (fun g : List Level => g.length = M + 1) _ _ σ.length (by rw [List.mem_range'_1]; omega)
      ?_ ?_ ?_ _ (mineInit_length D M)
    · intro g i hg
      refine foldl_preserves (fun g : List Level => g.length = M + 1) _ _ ?_ g hg
      intro g' p _ hg'
      rw [addGood_length]; exact hg'
    · intro g i _ hg
      refine foldl_preserves (fun g : List Level => Covers g π.length π _) _ _ ?_ g hg
      intro g' p _ hg'
      exact addGood_mono _ _ _ _ _ _ _ _ _ _ hg'
    · intro g hg
      refine foldl_establish (fun g : List Level => Covers g π.length π _)
        (fun g : List Level => g.length = M + 1) _ _ σ hσ ?_ ?_ ?_ g hg
      · intro g' p hg'; rw [addGood_length]; exact hg'
      · intro g' p _ hg'; exact addGood_mono _ _ _ _ _ _ _ _ _ _ hg'
      · intro g' hg'
        rw [hL]
        apply addGood_covers ((mineCi D M).headD 0) (min ((mineCi D M).getLastD 0) (L + 1)) M
          (by omega) π hπ _ hlo (by omega) L σ [] 0 g' c hσp hL hg' hc (by omega)
        · intro k hk; omega
        · intro cell hcell; cases hcell
        · intro cell hcell; cases hcell
        · intro i hi hic
          exact hit_mem hσp c hcn hc.rng i (by omega) hic

end Model.C17
