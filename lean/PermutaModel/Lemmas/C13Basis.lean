import PermutaModel.Lemmas.C13Fib
import PermutaModel.Lemmas.Contains

/-! C13 helper lemmas, part 11: `Basis(*perms)` (sort + prune) keeps, for every given permutation,
    a kept permutation contained in it, and keeps nothing else than given permutations.  Hence any
    downward-closed property is met by `B` iff it is met by `Basis(B)`. -/
open List Model.C13 Spec.C13

namespace C13

theorem acc_sub_pruneGo : ∀ (rest acc : List NSeq) (x : NSeq), x ∈ acc → x ∈ pruneGo acc rest
  | [], _, _, h => by simpa [pruneGo] using h
  | p :: r, acc, x, h => by
    unfold pruneGo
    split
    · exact acc_sub_pruneGo r _ x (List.mem_append_left _ h)
    · exact acc_sub_pruneGo r _ x h

theorem pruneGo_sub : ∀ (rest acc : List NSeq) (x : NSeq), x ∈ pruneGo acc rest → x ∈ acc ∨ x ∈ rest
  | [], _, _, h => by simp [pruneGo] at h; exact Or.inl h
  | p :: r, acc, x, h => by
    unfold pruneGo at h
    split at h
    · rcases pruneGo_sub r _ x h with h | h
      · rcases List.mem_append.mp h with h | h
        · exact Or.inl h
        · simp at h; subst h; exact Or.inr (List.mem_cons_self ..)
      · exact Or.inr (List.mem_cons_of_mem _ h)
    · rcases pruneGo_sub r _ x h with h | h
      · exact Or.inl h
      · exact Or.inr (List.mem_cons_of_mem _ h)

theorem pruneGo_covers : ∀ (rest acc : List NSeq), (∀ p ∈ acc, IsPerm p) → (∀ p ∈ rest, IsPerm p) →
    ∀ p ∈ rest, ∃ q ∈ pruneGo acc rest, Contains p q
  | [], _, _, _, p, hp => by simp at hp
  | p :: r, acc, hacc, hrest, x, hx => by
    have hp : IsPerm p := hrest p (List.mem_cons_self ..)
    have hr : ∀ q ∈ r, IsPerm q := fun q hq => hrest q (List.mem_cons_of_mem _ hq)
    unfold pruneGo
    split
    · have hacc' : ∀ q ∈ acc ++ [p], IsPerm q := by
        intro q hq
        rcases List.mem_append.mp hq with h | h
        · exact hacc q h
        · simp at h; subst h; exact hp
      rcases List.mem_cons.mp hx with rfl | hx
      · exact ⟨x, acc_sub_pruneGo r _ x (by simp), Contains.refl x⟩
      · exact pruneGo_covers r _ hacc' hr x hx
    · rename_i hav
      rcases List.mem_cons.mp hx with rfl | hx
      · rw [C01.avoidsAll_iff x acc hp hacc] at hav
        have : ∃ q ∈ acc, Contains x q := by
          by_contra hcon
          exact hav fun q hq hc => hcon ⟨q, hq, hc⟩
        obtain ⟨q, hq, hc⟩ := this
        exact ⟨q, acc_sub_pruneGo r _ q hq, hc⟩
      · exact pruneGo_covers r _ hacc hr x hx

theorem contains_nil (p : NSeq) : Contains p [] :=
  ⟨[], rfl, by simp [StrictInc], by simp, by intro a b ha; simp at ha⟩

/-- `Basis(*B)` only keeps given permutations -/
theorem basisOf_sub (B : List NSeq) : ∀ x ∈ basisOf B, x ∈ B := by
  intro x hx
  unfold basisOf at hx
  split at hx
  · simp at hx
  · split at hx
    · rename_i hne hhead
      simp at hx; subst hx
      cases hs : B.mergeSort (fun a b => Model.permLe a b) with
      | nil =>
        have := congrArg List.length hs
        rw [List.length_mergeSort] at this
        have : B = [] := List.length_eq_zero_iff.mp this
        simp [this] at hne
      | cons h t =>
        rw [hs] at hhead
        simp at hhead; subst hhead
        have : ([] : NSeq) ∈ B.mergeSort (fun a b => Model.permLe a b) := by rw [hs]; simp
        exact List.mem_mergeSort.mp this
    · rcases pruneGo_sub _ _ x hx with h | h
      · simp at h
      · exact List.mem_mergeSort.mp h

/-- `Basis(*B)` keeps, below every given permutation, a kept permutation -/
theorem basisOf_covers (B : List NSeq) (hB : ∀ b ∈ B, IsPerm b) :
    ∀ b ∈ B, ∃ q ∈ basisOf B, Contains b q := by
  intro b hb
  unfold basisOf
  split
  · rename_i he; simp at he; subst he; simp at hb
  · split
    · exact ⟨[], by simp, contains_nil b⟩
    · exact pruneGo_covers _ [] (by simp) (fun p hp => hB p (List.mem_mergeSort.mp hp)) b
        (List.mem_mergeSort.mpr hb)

/-- **a downward-closed property is met by `B` iff it is met by `Basis(*B)`** -/
theorem exists_basisOf_iff (P : NSeq → Prop)
    (hP : ∀ p q, IsPerm p → IsPerm q → Contains p q → P p → P q)
    (B : List NSeq) (hB : ∀ b ∈ B, IsPerm b) : (∃ b ∈ basisOf B, P b) ↔ ∃ b ∈ B, P b := by
  constructor
  · rintro ⟨b, hb, h⟩; exact ⟨b, basisOf_sub B b hb, h⟩
  · rintro ⟨b, hb, h⟩
    obtain ⟨q, hq, hc⟩ := basisOf_covers B hB b hb
    exact ⟨q, hq, hP b q (hB b hb) (hB q (basisOf_sub B q hq)) hc h⟩

theorem isIncreasing_closed (p q : NSeq) (_ : IsPerm p) (hq : IsPerm q) (h : Contains p q)
    (hi : Model.isIncreasing p = true) : Model.isIncreasing q = true := by
  unfold Model.isIncreasing at hi ⊢
  rw [beq_iff_eq] at hi ⊢
  rw [hi] at h
  exact increasing_perm_eq_identity hq (pattern_of_identity_increasing (n := p.length) h)

theorem isDecreasing_closed (p q : NSeq) (_ : IsPerm p) (hq : IsPerm q) (h : Contains p q)
    (hi : Model.isDecreasing p = true) : Model.isDecreasing q = true := by
  unfold Model.isDecreasing at hi ⊢
  rw [beq_iff_eq] at hi ⊢
  rw [hi] at h
  exact decreasing_perm_eq_monoDec hq (pattern_of_monoDec_decreasing (n := p.length) h)

end C13
