import PermutaModel.Lemmas.C16Special
import PermutaModel.Spec.C16
/-!
Explicit arbitrarily long families (parallel alternations, wedge permutations of the two kinds) avoid
the generated tables, for every length.

Method.  The positions of a family member are classified into finitely many *types*; for two
positions `p < q` the comparison of the entries is determined by the two types (or left open), and
only certain type sequences can occur along increasing positions.  A pattern `τ` is then avoided as
soon as every admissible type word of length `|τ|` conflicts with `τ` on some pair – a finite check,
done by `decide` on the *generated* pattern tables.
-/
open Model

namespace C16Fam
open C04L

variable {T : Type} [DecidableEq T] [Inhabited T]

/-- `rel s t = some v`: for positions `p < q` of types `s`, `t` the truth value of `σ[p] < σ[q]` is `v`;
    `adm s t`: types `s`, `t` can occur at positions `p < q` -/
structure Typing (T : Type) where
  rel : T → T → Option Bool
  adm : T → T → Bool

def conflict (ty : Typing T) (τ : NSeq) (ts : List T) : Bool :=
  (List.range τ.length).any fun a => (List.range τ.length).any fun b =>
    decide (a < b) &&
      (!ty.adm (ts.getD a default) (ts.getD b default) ||
        match ty.rel (ts.getD a default) (ts.getD b default) with
        | some v => decide (τ.getD a 0 < τ.getD b 0) != v
        | none => false)

/-- all words of length `n` over the list `all` -/
def words (all : List T) : Nat → List (List T)
  | 0 => [[]]
  | n + 1 => all.flatMap fun t => (words all n).map (t :: ·)

theorem mem_words (all : List T) (hall : ∀ t, t ∈ all) : ∀ (n : Nat) (l : List T), l.length = n → l ∈ words all n := by
  intro n
  induction n with
  | zero => intro l hl; simp [words, List.eq_nil_of_length_eq_zero hl]
  | succ n ih =>
    intro l hl
    cases l with
    | nil => simp at hl
    | cons t l =>
      simp only [words, List.mem_flatMap, List.mem_map]
      exact ⟨t, hall t, l, ih l (by simpa using hl), rfl⟩

def checkAvoid (ty : Typing T) (all : List T) (τ : NSeq) : Bool :=
  (words all τ.length).all fun ts => conflict ty τ ts

/-- the generic avoidance criterion -/
theorem avoids_of_typing (ty : Typing T) (all : List T) (hall : ∀ t, t ∈ all) (σ : NSeq) (tyOf : Nat → T)
    (hrel : ∀ p q, p < q → q < σ.length → ∀ v, ty.rel (tyOf p) (tyOf q) = some v →
      decide (σ.getD p 0 < σ.getD q 0) = v)
    (hadm : ∀ p q, p < q → q < σ.length → ty.adm (tyOf p) (tyOf q) = true)
    (τ : NSeq) (hcheck : checkAvoid ty all τ = true) : ¬ Contains σ τ := by
  intro hc
  obtain ⟨f, hmono, hrng, hiso⟩ := (contains_iff_emb σ τ).mp hc
  let ts : List T := (List.range τ.length).map fun a => tyOf (f a)
  have hts : ts ∈ words all τ.length := mem_words all hall _ ts (by simp [ts])
  have hget : ∀ a, a < τ.length → ts.getD a default = tyOf (f a) := by
    intro a ha
    simp [ts, List.getD_eq_getElem?_getD, ha]
  unfold checkAvoid at hcheck
  rw [List.all_eq_true] at hcheck
  have hconf := hcheck ts hts
  unfold conflict at hconf
  simp only [List.any_eq_true, List.mem_range, Bool.and_eq_true, decide_eq_true_eq, Bool.or_eq_true,
    Bool.not_eq_true'] at hconf
  obtain ⟨a, ha, b, hb, hab, h⟩ := hconf
  rw [hget a ha, hget b hb] at h
  have hfab : f a < f b := hmono a b hab hb
  have hfb : f b < σ.length := hrng b hb
  rcases h with h | h
  · rw [hadm (f a) (f b) hfab hfb] at h; exact absurd h (by decide)
  · cases hr : ty.rel (tyOf (f a)) (tyOf (f b)) with
    | none => rw [hr] at h; simp at h
    | some v =>
      rw [hr] at h
      have h1 := hrel (f a) (f b) hfab hfb v hr
      have h2 := hiso a b ha hb
      simp only [bne_iff_ne, ne_eq] at h
      apply h
      rw [← h1]
      exact decide_eq_decide.mpr h2

/-! ### the three families -/

theorem getD_mapRange (n : Nat) (e : Nat → Nat) (p : Nat) (hp : p < n) :
    ((List.range n).map e).getD p 0 = e p := by
  simp [List.getD_eq_getElem?_getD, hp]

inductive AltT | L | R deriving DecidableEq, Inhabited
def altTyping : Typing AltT where
  rel := fun s t => match s, t with
    | .L, .L => some false
    | .R, .R => some false
    | _, _ => none
  adm := fun s t => match s, t with
    | .R, .L => false
    | _, _ => true

theorem parAlt_avoids (m : Nat) (τ : NSeq) (h : checkAvoid altTyping [AltT.L, AltT.R] τ = true) :
    ¬ Contains (parAlt m) τ := by
  apply avoids_of_typing altTyping [AltT.L, AltT.R] (by intro t; cases t <;> simp) (parAlt m)
    (fun p => if p < m then AltT.L else AltT.R) _ _ τ h
  · intro p q hpq hq v hv
    have hq' : q < 2 * m := by simpa [parAlt] using hq
    rw [parAlt, getD_mapRange _ _ p (by omega), getD_mapRange _ _ q hq']
    unfold altEntry
    by_cases hp : p < m <;> by_cases hqm : q < m <;> simp only [hp, hqm, if_true, if_false, altTyping] at hv ⊢
    · cases hv; simp; omega
    · cases hv
    · cases hv
    · cases hv; simp; omega
  · intro p q hpq hq
    by_cases hp : p < m <;> by_cases hqm : q < m <;> simp [hp, hqm, altTyping]
    omega

inductive W1T | E | O | Last deriving DecidableEq, Inhabited
def w1Typing : Typing W1T where
  rel := fun s t => match s, t with
    | .E, .E => some false
    | .O, .O => some true
    | .E, .O => some true
    | .O, .E => some false
    | .E, .Last => some true
    | .O, .Last => some false
    | _, _ => none
  adm := fun s _ => match s with
    | .Last => false
    | _ => true

def w1Ty (m p : Nat) : W1T := if p = 2 * m then .Last else if p % 2 = 0 then .E else .O

theorem wedge1_avoids (m : Nat) (τ : NSeq) (h : checkAvoid w1Typing [W1T.E, W1T.O, W1T.Last] τ = true) :
    ¬ Contains (wedge1 m) τ := by
  apply avoids_of_typing w1Typing [W1T.E, W1T.O, W1T.Last] (by intro t; cases t <;> simp) (wedge1 m)
    (w1Ty m) _ _ τ h
  · intro p q hpq hq v hv
    have hq' : q < 2 * m + 1 := by simpa [wedge1] using hq
    rw [wedge1, getD_mapRange _ _ p (by omega), getD_mapRange _ _ q hq']
    unfold w1Entry
    unfold w1Ty at hv
    have hp2 : p ≠ 2 * m := by omega
    by_cases hq2 : q = 2 * m <;> by_cases hpe : p % 2 = 0 <;> by_cases hqe : q % 2 = 0 <;>
      simp only [hp2, hq2, hpe, hqe, if_true, if_false, w1Typing] at hv ⊢ <;>
      first
        | (cases hv; simp; omega)
        | cases hv
  · intro p q hpq hq
    have hq' : q < 2 * m + 1 := by simpa [wedge1] using hq
    have hp2 : p ≠ 2 * m := by omega
    unfold w1Ty
    by_cases hpe : p % 2 = 0 <;> simp [hp2, hpe, w1Typing]

inductive W2T | I | M | D | X deriving DecidableEq, Inhabited
def w2Typing : Typing W2T where
  rel := fun s t => match s, t with
    | .I, .I => some true
    | .I, .M => some true
    | .I, .X => some true
    | .M, .D => some false
    | .M, .X => some false
    | .D, .D => some false
    | .D, .X => some true
    | _, _ => none
  adm := fun s t => match s, t with
    | .I, _ => true
    | .M, .D => true
    | .M, .X => true
    | .D, .D => true
    | .D, .X => true
    | _, _ => false

def w2Ty (m p : Nat) : W2T :=
  if p + 1 < m then .I else if p + 1 = m then .M else if p < 2 * m then .D else .X

theorem w2_I {m p : Nat} (h : p + 1 < m) : w2Ty m p = .I ∧ w2Entry m p = 2 * p + 1 := by
  unfold w2Ty w2Entry; rw [if_pos h, if_pos h]; exact ⟨rfl, rfl⟩
theorem w2_M {m p : Nat} (h : p + 1 = m) : w2Ty m p = .M ∧ w2Entry m p = 2 * m := by
  unfold w2Ty w2Entry
  rw [if_neg (by omega), if_pos h, if_neg (by omega), if_pos h]; exact ⟨rfl, rfl⟩
theorem w2_D {m p : Nat} (h1 : m ≤ p) (h2 : p < 2 * m) : w2Ty m p = .D ∧ w2Entry m p = 2 * (2 * m - 1 - p) := by
  unfold w2Ty w2Entry
  rw [if_neg (by omega), if_neg (by omega), if_pos h2, if_neg (by omega), if_neg (by omega), if_pos h2]
  exact ⟨rfl, rfl⟩
theorem w2_X {m p : Nat} (hm : 1 ≤ m) (h : p = 2 * m) : w2Ty m p = .X ∧ w2Entry m p = 2 * m - 1 := by
  unfold w2Ty w2Entry
  rw [if_neg (by omega), if_neg (by omega), if_neg (by omega), if_neg (by omega), if_neg (by omega), if_neg (by omega)]
  exact ⟨rfl, rfl⟩

theorem w2_cases (m p : Nat) (hp : p < 2 * m + 1) :
    p + 1 < m ∨ p + 1 = m ∨ (m ≤ p ∧ p < 2 * m) ∨ p = 2 * m := by omega

theorem wedge2_avoids (m : Nat) (hm : 1 ≤ m) (τ : NSeq)
    (h : checkAvoid w2Typing [W2T.I, W2T.M, W2T.D, W2T.X] τ = true) : ¬ Contains (wedge2 m) τ := by
  apply avoids_of_typing w2Typing [W2T.I, W2T.M, W2T.D, W2T.X] (by intro t; cases t <;> simp) (wedge2 m)
    (w2Ty m) _ _ τ h
  · intro p q hpq hq v hv
    have hq' : q < 2 * m + 1 := by simpa [wedge2] using hq
    rw [wedge2, getD_mapRange _ _ p (by omega), getD_mapRange _ _ q hq']
    rcases w2_cases m p (by omega) with hp | hp | hp | hp <;>
    rcases w2_cases m q hq' with hq1 | hq1 | hq1 | hq1 <;>
      first
        | omega
        | (first | rw [(w2_I hp).1, (w2_I hp).2] at * | rw [(w2_M hp).1, (w2_M hp).2] at *
                 | rw [(w2_D hp.1 hp.2).1, (w2_D hp.1 hp.2).2] at * | rw [(w2_X hm hp).1, (w2_X hm hp).2] at *) <;>
          (first | rw [(w2_I hq1).1, (w2_I hq1).2] at * | rw [(w2_M hq1).1, (w2_M hq1).2] at *
                 | rw [(w2_D hq1.1 hq1.2).1, (w2_D hq1.1 hq1.2).2] at * | rw [(w2_X hm hq1).1, (w2_X hm hq1).2] at *) <;>
          simp only [w2Typing] at hv <;>
          first
            | (cases hv; first | (apply decide_eq_true; omega) | (apply decide_eq_false; omega))
            | cases hv
  · intro p q hpq hq
    have hq' : q < 2 * m + 1 := by simpa [wedge2] using hq
    rcases w2_cases m p (by omega) with hp | hp | hp | hp <;>
    rcases w2_cases m q hq' with hq1 | hq1 | hq1 | hq1 <;>
      first
        | omega
        | (first | rw [(w2_I hp).1] | rw [(w2_M hp).1] | rw [(w2_D hp.1 hp.2).1] | rw [(w2_X hm hp).1]) <;>
          (first | rw [(w2_I hq1).1] | rw [(w2_M hq1).1] | rw [(w2_D hq1.1 hq1.2).1] | rw [(w2_X hm hq1).1]) <;>
          rfl

end C16Fam

namespace C16Fam
open C04L

/-- a list `e 0, …, e (n-1)` with `e` injective and bounded on `[0, n)` is a permutation -/
theorem isPerm_mapRange (n : Nat) (e : Nat → Nat) (hlt : ∀ p, p < n → e p < n)
    (hinj : ∀ p q, p < n → q < n → e p = e q → p = q) : IsPerm ((List.range n).map e) := by
  refine ⟨?_, ?_⟩
  · rw [List.nodup_map_iff_inj_on List.nodup_range]
    intro p hp q hq h
    exact hinj p q (List.mem_range.mp hp) (List.mem_range.mp hq) h
  · intro x hx
    obtain ⟨p, hp, rfl⟩ := List.mem_map.mp hx
    simpa using hlt p (List.mem_range.mp hp)

theorem isPerm_parAlt (m : Nat) : IsPerm (parAlt m) := by
  apply isPerm_mapRange
  · intro p hp; unfold altEntry; split_ifs <;> omega
  · intro p q hp hq h; unfold altEntry at h; split_ifs at h <;> omega

theorem isPerm_wedge1 (m : Nat) : IsPerm (wedge1 m) := by
  apply isPerm_mapRange
  · intro p hp; unfold w1Entry; split_ifs <;> omega
  · intro p q hp hq h; unfold w1Entry at h; split_ifs at h <;> omega

theorem isPerm_wedge2 (m : Nat) (hm : 1 ≤ m) : IsPerm (wedge2 m) := by
  apply isPerm_mapRange
  · intro p hp; unfold w2Entry; split_ifs <;> omega
  · intro p q hp hq h; unfold w2Entry at h; split_ifs at h <;> omega

theorem length_act (g : D8) (p : NSeq) : (g.act p).length = p.length := by
  rcases g with ⟨r, c, i⟩
  cases r <;> cases c <;> cases i <;> simp [D8.act, Model.inverse, Model.complement, Model.reverse]

end C16Fam
