import PermutaModel.Model.C17Auto
import PermutaModel.Lemmas.C17Suffice
import PermutaModel.Lemmas.C17Sound
import PermutaModel.Lemmas.C09Perms
/-! `auto_bisc`: what a returned description has passed, fuel monotonicity, the set of all results. -/

namespace Model.C17

/-! ### the two sanity checks on the dictionaries with keys `0 … L` -/

theorem psGood_iff (sg : PattDict) (A : Nat → List NSeq) (L : Nat) :
    psGood sg A L = true ↔ ∀ k ≤ L, ∀ a ∈ A k, ∀ p ∈ meshesOf sg, Model.containsMesh a p = false := by
  unfold psGood
  rw [sufficeGood_true_iff]
  constructor
  · intro h k hk a ha p hp
    obtain ⟨As, hAs, hall⟩ := h k (List.mem_range.mpr (by omega))
    simp only [keysUpTo, hk, if_true, Option.some.injEq] at hAs
    subst hAs
    cases hc : Model.containsMesh a p with
    | false => rfl
    | true => have := (permContainsDict_iff a sg).mpr ⟨p, hp, hc⟩; rw [hall a ha] at this; cases this
  · intro h k hk
    have hk' : k ≤ L := by have := List.mem_range.mp hk; omega
    refine ⟨A k, by simp [keysUpTo, hk'], fun a ha => ?_⟩
    cases hc : permContainsDict a sg with
    | false => rfl
    | true =>
      obtain ⟨p, hp, hcp⟩ := (permContainsDict_iff a sg).mp hc
      rw [h k hk' a ha p hp] at hcp; cases hcp

theorem psBad_iff (sg : PattDict) (B : Nat → List NSeq) (L : Nat) :
    psBad sg B L = true ↔ ∀ k ≤ L, ∀ b ∈ B k, ∃ p ∈ meshesOf sg, Model.containsMesh b p = true := by
  unfold psBad
  rw [sufficeBad_true_iff]
  constructor
  · intro h k hk b hb
    obtain ⟨Bs, hBs, hall⟩ := h k (List.mem_range.mpr (by omega))
    simp only [keysUpTo, hk, if_true, Option.some.injEq] at hBs
    subst hBs
    exact (permContainsDict_iff b sg).mp (hall b hb)
  · intro h k hk
    have hk' : k ≤ L := by have := List.mem_range.mp hk; omega
    exact ⟨B k, by simp [keysUpTo, hk'], fun b hb => (permContainsDict_iff b sg).mpr (h k hk' b hb)⟩

theorem verdict_accept_iff (A B : Nat → List NSeq) (L : Nat) (sg : PattDict) :
    verdict A B L sg = .accept ↔ psBad sg B L = true ∧ psGood sg A L = true := by
  unfold verdict
  cases psBad sg B L <;> cases psGood sg A L <;> simp

/-- both checks only get harder when `L` grows -/
theorem psGood_mono (sg : PattDict) (A : Nat → List NSeq) {L L' : Nat} (h : L ≤ L')
    (h' : psGood sg A L' = true) : psGood sg A L = true := by
  rw [psGood_iff] at h' ⊢
  intro k hk; exact h' k (by omega)

theorem psBad_mono (sg : PattDict) (B : Nat → List NSeq) {L L' : Nat} (h : L ≤ L')
    (h' : psBad sg B L' = true) : psBad sg B L = true := by
  rw [psBad_iff] at h' ⊢
  intro k hk; exact h' k (by omega)

/-! ### a returned description has passed both checks -/

theorem autoInner_found (A B : Nat → List NSeq) (ch : Choice) (SG : PattDict) (L : Nat) (sg : PattDict) :
    ∀ (f n ib : Nat), autoInner A B ch SG L f n ib = .found sg → verdict A B L sg = .accept := by
  intro f
  induction f with
  | zero => intro n ib h; simp [autoInner] at h
  | succ f ih =>
    intro n ib h
    unfold autoInner at h
    split at h
    · cases h
    · exact ih _ _ h
    · split at h
      · exact ih _ _ h
      · cases h
      · rename_i hv
        cases h
        exact hv

/-- the inner loop leaves with a value of `n` that is larger than the one it was entered with -/
theorem autoInner_again (A B : Nat → List NSeq) (ch : Choice) (SG : PattDict) (L : Nat) (n' : Nat) :
    ∀ (f n ib : Nat), autoInner A B ch SG L f n ib = .again n' → n < n' := by
  intro f
  induction f with
  | zero => intro n ib h; simp [autoInner] at h
  | succ f ih =>
    intro n ib h
    unfold autoInner at h
    split at h
    · cases h
    · exact ih _ _ h
    · split at h
      · have := ih _ _ h; omega
      · cases h; omega
      · cases h

theorem autoOuter_found (A B : Nat → List NSeq) (ch : Choice) (sg : PattDict) :
    ∀ (f L n m : Nat), autoOuter A B ch f L n m = .found sg → ∃ L', L ≤ L' ∧ verdict A B L' sg = .accept := by
  intro f
  induction f with
  | zero => intro L n m h; simp [autoOuter] at h
  | succ f ih =>
    intro L n m h
    unfold autoOuter at h
    split at h
    · split at h
      · rename_i hin
        cases h
        exact ⟨L, Nat.le_refl _, autoInner_found A B ch _ L _ _ _ _ hin⟩
      · obtain ⟨L', hL, hv⟩ := ih _ _ _ h
        exact ⟨L', by omega, hv⟩
      · cases h
      · cases h
    · obtain ⟨L', hL, hv⟩ := ih _ _ _ h
      exact ⟨L', by omega, hv⟩

/-! ### more fuel does not change a result -/

theorem autoInner_fuel_succ (A B : Nat → List NSeq) (ch : Choice) (SG : PattDict) (L : Nat) :
    ∀ (f n ib : Nat), autoInner A B ch SG L f n ib ≠ .outOfFuel →
      autoInner A B ch SG L (f + 1) n ib = autoInner A B ch SG L f n ib := by
  intro f
  induction f with
  | zero => intro n ib h; simp [autoInner] at h
  | succ f ih =>
    intro n ib h
    have e1 := autoInner.eq_2 A B ch SG L n ib (f + 1)
    have e2 := autoInner.eq_2 A B ch SG L n ib f
    rw [e2] at h
    rw [e1, e2]
    split
    · rfl
    · rename_i heq
      rw [heq] at h
      exact ih _ _ h
    · rename_i b0 bs heq
      rw [heq] at h
      simp only at h ⊢
      split
      · rename_i hv
        rw [hv] at h
        exact ih _ _ h
      · rfl
      · rfl

theorem autoInner_fuel_mono (A B : Nat → List NSeq) (ch : Choice) (SG : PattDict) (L : Nat)
    (f n ib : Nat) (h : autoInner A B ch SG L f n ib ≠ .outOfFuel) (d : Nat) :
    autoInner A B ch SG L (f + d) n ib = autoInner A B ch SG L f n ib := by
  induction d with
  | zero => rfl
  | succ d ih =>
    rw [← Nat.add_assoc, autoInner_fuel_succ A B ch SG L (f + d) n ib (by rw [ih]; exact h), ih]

theorem autoOuter_fuel_succ (A B : Nat → List NSeq) (ch : Choice) :
    ∀ (f L n m : Nat), autoOuter A B ch f L n m ≠ .outOfFuel →
      autoOuter A B ch (f + 1) L n m = autoOuter A B ch f L n m := by
  intro f
  induction f with
  | zero => intro L n m h; simp [autoOuter] at h
  | succ f ih =>
    intro L n m h
    have e1 := autoOuter.eq_2 A B ch L n m (f + 1)
    have e2 := autoOuter.eq_2 A B ch L n m f
    rw [e2] at h
    rw [e1, e2]
    split
    · rename_i hl
      simp only [hl, if_true] at h
      have hne : autoInner A B ch (biscD (dflt A L) m n) L f n (ibStart (biscD (dflt A L) m n)) ≠ .outOfFuel := by
        intro hc; rw [hc] at h; exact h rfl
      rw [autoInner_fuel_succ A B ch _ L f n _ hne]
      split
      · rfl
      · rename_i n' heq
        rw [heq] at h
        exact ih _ _ _ h
      · rfl
      · rfl
    · rename_i hl
      simp only [hl] at h
      exact ih _ _ _ h

theorem autoOuter_fuel_mono (A B : Nat → List NSeq) (ch : Choice) (f L n m : Nat)
    (h : autoOuter A B ch f L n m ≠ .outOfFuel) (d : Nat) :
    autoOuter A B ch (f + d) L n m = autoOuter A B ch f L n m := by
  induction d with
  | zero => rfl
  | succ d ih =>
    rw [← Nat.add_assoc, autoOuter_fuel_succ A B ch (f + d) L n m (by rw [ih]; exact h), ih]

/-! ### every choice function's result is among `autoOuterAll` -/

theorem chosen_mem (ch : Choice) (n ib : Nat) (b0 : List PId) (bs : List (List PId)) :
    chosen ch n ib b0 bs ∈ b0 :: bs := by
  unfold chosen
  rw [List.getD_eq_getElem?_getD]
  cases h : (b0 :: bs)[ch n ib (b0 :: bs)]? with
  | none => simp
  | some b => simp only [Option.getD_some]; exact List.mem_of_getElem? h

theorem autoInner_mem_all (A B : Nat → List NSeq) (ch : Choice) (SG : PattDict) (L : Nat) :
    ∀ (f n ib : Nat), autoInner A B ch SG L f n ib ∈ autoInnerAll A B SG L f n ib := by
  intro f
  induction f with
  | zero => intro n ib; simp [autoInner, autoInnerAll]
  | succ f ih =>
    intro n ib
    unfold autoInner autoInnerAll
    split
    · simp
    · exact ih _ _
    · rename_i b0 bs heq
      have hmem := chosen_mem ch n ib b0 bs
      cases hv : verdict A B L (toSg (chosen ch n ib b0 bs)) with
      | badBasis =>
        dsimp only
        apply List.mem_append_right
        have : ((b0 :: bs).any fun b => decide (verdict A B L (toSg b) = Verdict.badBasis)) = true := by
          rw [List.any_eq_true]; exact ⟨_, hmem, by simp [hv]⟩
        rw [if_pos this]
        exact ih _ _
      | needLonger =>
        dsimp only
        apply List.mem_append_left
        apply List.mem_append_right
        have : ((b0 :: bs).any fun b => decide (verdict A B L (toSg b) = Verdict.needLonger)) = true := by
          rw [List.any_eq_true]; exact ⟨_, hmem, by simp [hv]⟩
        rw [if_pos this]
        simp
      | accept =>
        dsimp only
        apply List.mem_append_left
        apply List.mem_append_left
        rw [List.mem_map]
        exact ⟨_, List.mem_filter.mpr ⟨hmem, by simp [hv]⟩, rfl⟩

theorem autoOuter_mem_all (A B : Nat → List NSeq) (ch : Choice) :
    ∀ (f L n m : Nat), autoOuter A B ch f L n m ∈ autoOuterAll A B f L n m := by
  intro f
  induction f with
  | zero => intro L n m; simp [autoOuter, autoOuterAll]
  | succ f ih =>
    intro L n m
    unfold autoOuter autoOuterAll
    split
    · rw [List.mem_flatMap]
      refine ⟨_, autoInner_mem_all A B ch _ L f n _, ?_⟩
      split
      · simp
      · exact ih _ _ _
      · simp
      · simp
    · exact ih _ _ _

/-- conversely every listed result of the inner loop has passed both checks -/
theorem autoInnerAll_found (A B : Nat → List NSeq) (SG : PattDict) (L : Nat) (sg : PattDict) :
    ∀ (f n ib : Nat), InnerRes.found sg ∈ autoInnerAll A B SG L f n ib → verdict A B L sg = .accept := by
  intro f
  induction f with
  | zero => intro n ib h; simp [autoInnerAll] at h
  | succ f ih =>
    intro n ib h
    unfold autoInnerAll at h
    split at h
    · simp at h
    · exact ih _ _ h
    · rcases List.mem_append.mp h with h | h
      · rcases List.mem_append.mp h with h | h
        · obtain ⟨b, hb, hsg⟩ := List.mem_map.mp h
          cases hsg
          have := (List.mem_filter.mp hb).2
          simpa using this
        · split at h <;> simp at h
      · split at h
        · exact ih _ _ h
        · simp at h

theorem autoOuterAll_found (A B : Nat → List NSeq) (sg : PattDict) :
    ∀ (f L n m : Nat), AutoRes.found sg ∈ autoOuterAll A B f L n m →
      ∃ L', L ≤ L' ∧ verdict A B L' sg = .accept := by
  intro f
  induction f with
  | zero => intro L n m h; simp [autoOuterAll] at h
  | succ f ih =>
    intro L n m h
    unfold autoOuterAll at h
    split at h
    · obtain ⟨r, hr, hin⟩ := List.mem_flatMap.mp h
      cases r with
      | found sg' =>
        simp only [List.mem_singleton, AutoRes.found.injEq] at hin
        subst hin
        exact ⟨L, Nat.le_refl _, autoInnerAll_found A B _ L _ _ _ _ hr⟩
      | again n' =>
        obtain ⟨L', hL, hv⟩ := ih _ _ _ hin
        exact ⟨L', by omega, hv⟩
      | outOfFuel => simp at hin
      | err e => simp at hin
    · obtain ⟨L', hL, hv⟩ := ih _ _ _ h
      exact ⟨L', by omega, hv⟩

/-! ### a property all of whose permutations are good: the loop never ends -/

theorem factorial_eq : ∀ k, factorial k = Nat.factorial k
  | 0 => rfl
  | k + 1 => by rw [factorial, factorial_eq k, Nat.factorial_succ]

theorem length_permsLex (k : Nat) : (Model.permsLex k).length = factorial k := by
  rw [factorial_eq]; exact C09.length_permsAux k _ (by simp)

theorem biscD_full (D : Nat → List NSeq) (m n : Nat) (h : ∀ k ≤ m, (D k).length = factorial k) :
    biscD D m n = [] := by
  have hci : mineCi D m = [] := by
    unfold mineCi
    rw [List.filter_eq_nil_iff]
    intro j hj
    have := List.mem_range.mp hj
    simp [h j (by omega)]
  have hm : mine D m n = ([], []) := by unfold mine; simp [hci]
  unfold biscD
  rw [hm]
  simp [forb, forbBad]

theorem autoOuter_full (A B : Nat → List NSeq) (ch : Choice) (h : ∀ k, (A k).length = factorial k) :
    ∀ (f L n m : Nat), m ≤ n → n ≤ L → autoOuter A B ch f L n m = .outOfFuel := by
  intro f
  induction f with
  | zero => intro L n m _ _; rfl
  | succ f ih =>
    intro L n m hm hn
    unfold autoOuter
    have : biscD (dflt A L) m n = [] := by
      apply biscD_full
      intro k hk
      simp [dflt, show k ≤ L by omega, h k]
    rw [this]
    simp only [learnOk, List.isEmpty_nil, Bool.not_true, Bool.false_and, Bool.false_eq_true, if_false]
    exact ih _ _ _ (by omega) (by omega)

/-! ### `run_clean_up` cannot raise inside `auto_bisc` when the dictionaries come from a function -/

theorem runCleanUp_error (SG : PattDict) (Bk : Nat → List NSeq) (bm limit : Nat) (e : Proto.Err)
    (h : runCleanUp SG Bk bm limit = .error e) : meshesOf SG = [] := by
  unfold runCleanUp at h
  split at h
  · rename_i hmax
    rw [List.max?_eq_none_iff, List.map_eq_nil_iff, List.filter_eq_nil_iff] at hmax
    unfold meshesOf
    rw [List.flatMap_eq_nil_iff]
    intro lv hlv
    have := hmax lv hlv
    simp only [Bool.not_eq_true, Bool.not_eq_false'] at this
    rw [List.isEmpty_iff] at this
    rw [this]; rfl
  · split at h
    · rename_i hmin
      rw [List.min?_eq_none_iff, List.map_eq_nil_iff] at hmin
      rw [hmin]; rfl
    · cases h

theorem autoInner_err (A B : Nat → List NSeq) (ch : Choice) (SG : PattDict) (L : Nat) (e : Proto.Err) :
    ∀ (f n ib : Nat), autoInner A B ch SG L f n ib = .err e → meshesOf SG = [] := by
  intro f
  induction f with
  | zero => intro n ib h; simp [autoInner] at h
  | succ f ih =>
    intro n ib h
    unfold autoInner at h
    split at h
    · rename_i heq
      exact runCleanUp_error _ _ _ _ _ heq
    · exact ih _ _ h
    · split at h
      · exact ih _ _ h
      · cases h
      · cases h

/-- a non-empty learned dictionary means that some checked length `j ≤ m` is not entirely good -/
theorem biscD_nonempty (D : Nat → List NSeq) (m n : Nat) (h : biscD D m n ≠ []) :
    ∃ j ≤ m, (D j).length ≠ factorial j := by
  unfold biscD forb at h
  cases hfb : forbBad (mine D m n).2 (mine D m n).1 m with
  | nil => rw [hfb] at h; exact absurd rfl h
  | cons lv rest =>
    have hmem := (forbBad_mem (mine D m n).2 (mine D m n).1 m lv (by rw [hfb]; simp)).1
    unfold mine at hmem
    split at hmem
    · cases hmem
    · simp only [mineCi, List.mem_filter, List.mem_range] at hmem
      exact ⟨lv.1, by omega, by simpa using hmem.2⟩

theorem learnOk_prop_meshes (P : NSeq → Bool) (L n m : Nat) (hm : m ≤ L)
    (h : learnOk (biscD (dflt (goodOf P) L) m n) (badOf P) L = true) :
    meshesOf (biscD (dflt (goodOf P) L) m n) ≠ [] := by
  intro hnil
  unfold learnOk at h
  rw [Bool.and_eq_true] at h
  obtain ⟨hne, hbad⟩ := h
  have hne' : biscD (dflt (goodOf P) L) m n ≠ [] := by
    intro hc; rw [hc] at hne; simp at hne
  obtain ⟨j, hj, hlen⟩ := biscD_nonempty _ m n hne'
  simp only [dflt, show j ≤ L by omega, if_true, goodOf] at hlen
  rw [← length_permsLex j] at hlen
  have : ∃ p ∈ Model.permsLex j, P p = false := by
    apply Classical.byContradiction
    intro hno
    apply hlen
    rw [List.filter_eq_self.mpr]
    intro p hp
    cases hP : P p with
    | true => rfl
    | false => exact absurd ⟨p, hp, hP⟩ hno
  obtain ⟨p, hp, hP⟩ := this
  obtain ⟨q, hq, _⟩ := (psBad_iff _ _ L).mp hbad j (by omega) p
    (by unfold badOf; exact List.mem_filter.mpr ⟨hp, by simp [hP]⟩)
  rw [hnil] at hq; cases hq

theorem autoOuter_prop_no_err (P : NSeq → Bool) (ch : Choice) (e : Proto.Err) :
    ∀ (f L n m : Nat), m ≤ n → n ≤ L → autoOuter (goodOf P) (badOf P) ch f L n m ≠ .err e := by
  intro f
  induction f with
  | zero => intro L n m _ _ h; simp [autoOuter] at h
  | succ f ih =>
    intro L n m hm hn h
    unfold autoOuter at h
    split at h
    · rename_i hl
      split at h
      · cases h
      · rename_i n' heq
        have := autoInner_again _ _ ch _ L n' _ _ _ heq
        exact ih _ _ _ (by omega) (by omega) h
      · cases h
      · rename_i e' heq
        exact learnOk_prop_meshes P L n m (by omega) hl (autoInner_err _ _ ch _ L e' _ _ _ heq)
    · exact ih _ _ _ (by omega) (by omega) h

end Model.C17
