import PermutaModel.Lemmas.C18Count

/-! The replacement step of the shading lemma: in an occurrence of a mesh pattern, the corner point
    `(x-1, y-1)` is replaced by a point `q` of the permutation lying in the cell `(x, y)`. -/

namespace Spec.C18

theorem nodup_getD_inj {σ : NSeq} (hσ : σ.Nodup) {i j : Nat} (hi : i < σ.length) (hj : j < σ.length)
    (h : σ.getD i 0 = σ.getD j 0) : i = j := by
  rw [getD_eq_getElem' σ hi, getD_eq_getElem' σ hj] at h
  exact (List.Nodup.getElem_inj_iff hσ).mp h

theorem getD_set_eq (c : List Nat) (j q k : Nat) :
    (c.set j q).getD k 0 = if k = j ∧ j < c.length then q else c.getD k 0 := by
  rw [List.getD_eq_getElem?_getD, List.getD_eq_getElem?_getD, List.getElem?_set]
  by_cases h : j = k
  · subst h
    by_cases hj : j < c.length
    · simp [hj]
    · simp [hj]
  · have : ¬ (k = j ∧ j < c.length) := fun h' => h h'.1.symm
    simp [h, this]

theorem mem_getD {c : List Nat} {k : Nat} (hk : k < c.length) : c.getD k 0 ∈ c := by
  rw [getD_eq_getElem' c hk]; exact List.getElem_mem hk

theorem countP_set_getD (c : List Nat) (j : Nat) (p : Nat → Bool) (q : Nat) (h : j < c.length) :
    (c.set j q).countP p = c.countP p - (if p (c.getD j 0) then 1 else 0) + (if p q then 1 else 0) := by
  rw [List.countP_set h, getD_eq_getElem' c h]

theorem mem_set_of_ne {c : List Nat} {j k : Nat} (q : Nat) (hk : k < c.length) (hne : j ≠ k) :
    c.getD k 0 ∈ c.set j q := by
  have : (c.set j q)[k]'(by simpa using hk) = c[k] := List.getElem_set_ne hne _
  rw [getD_eq_getElem' c hk, ← this]; exact List.getElem_mem _

/-- hypotheses shared by the replacement lemmas -/
structure Corner (π σ : NSeq) (c : List Nat) (x y q : Nat) : Prop where
  hπ : IsPerm π
  hσ : σ.Nodup
  occ : IsOcc π σ c
  hx : 1 ≤ x
  hxn : x ≤ π.length
  hpt : π.getD (x - 1) 0 + 1 = y
  hq : q < σ.length
  hqc : q ∉ c
  hcol : colOf c q = x
  hrow : rowOf σ c q = y

namespace Corner
variable {π σ : NSeq} {c : List Nat} {x y q : Nat} (H : Corner π σ c x y q)
include H

theorem clen : c.length = π.length := H.occ.len
theorem xk : x - 1 < c.length := by have := H.clen; have := H.hx; have := H.hxn; omega

/-- the corner point is left of `q` -/
theorem P_lt_q : c.getD (x - 1) 0 < q := by
  rw [sorted_lt_iff H.occ.inc H.xk q]
  have := H.hcol; have := H.hx
  show x - 1 < colOf c q
  omega

/-- the corner point is below `q` -/
theorem σP_lt_σq : σ.getD (c.getD (x - 1) 0) 0 < σ.getD q 0 := by
  rw [occ_val_lt_iff H.hπ H.occ (by have := H.xk; have := H.clen; omega) (σ.getD q 0)]
  have := H.hrow; have := H.hpt
  show π.getD (x - 1) 0 < rowOf σ c q
  omega

/-- other occurrence points: left of `q` iff among the first `x` -/
theorem ck_lt_q {k : Nat} (hk : k < c.length) : c.getD k 0 < q ↔ k < x := by
  rw [sorted_lt_iff H.occ.inc hk q]
  have := H.hcol
  show k < colOf c q ↔ k < x
  omega

theorem q_lt_ck {k : Nat} (hk : k < c.length) (hkx : x ≤ k) : q < c.getD k 0 := by
  have h1 := (H.ck_lt_q hk)
  have h2 : c.getD k 0 ≠ q := fun h => H.hqc (h ▸ mem_getD hk)
  omega

/-- other occurrence points compare with `q` in value as they do with the corner point -/
theorem σck_lt_σq {k : Nat} (hk : k < c.length) (hkx : k ≠ x - 1) :
    σ.getD (c.getD k 0) 0 < σ.getD q 0 ↔ σ.getD (c.getD k 0) 0 < σ.getD (c.getD (x - 1) 0) 0 := by
  have hkπ : k < π.length := by have := H.clen; omega
  have hxπ : x - 1 < π.length := by have := H.xk; have := H.clen; omega
  rw [occ_val_lt_iff H.hπ H.occ hkπ (σ.getD q 0)]
  rw [← H.occ.iso k (x - 1) hkπ hxπ]
  have hne : π.getD k 0 ≠ π.getD (x - 1) 0 := fun h => hkx (H.hπ.getD_inj hkπ hxπ h)
  have := H.hrow; have := H.hpt
  show π.getD k 0 < rowOf σ c q ↔ _
  omega

theorem σq_lt_σck {k : Nat} (hk : k < c.length) (hkx : k ≠ x - 1) :
    σ.getD q 0 < σ.getD (c.getD k 0) 0 ↔ σ.getD (c.getD (x - 1) 0) 0 < σ.getD (c.getD k 0) 0 := by
  have h1 := H.σck_lt_σq hk hkx
  have hckσ : c.getD k 0 < σ.length := H.occ.rng _ (mem_getD hk)
  have hcxσ : c.getD (x - 1) 0 < σ.length := H.occ.rng _ (mem_getD H.xk)
  have h2 : σ.getD q 0 ≠ σ.getD (c.getD k 0) 0 := fun h =>
    H.hqc (nodup_getD_inj H.hσ H.hq hckσ h ▸ mem_getD hk)
  have h3 : σ.getD (c.getD (x - 1) 0) 0 ≠ σ.getD (c.getD k 0) 0 := by
    intro h
    have h4 := nodup_getD_inj H.hσ hcxσ hckσ h
    rcases Nat.lt_or_gt_of_ne hkx with h5 | h5
    · have := sorted_getD_lt H.occ.inc h5 H.xk; omega
    · have := sorted_getD_lt H.occ.inc h5 hk; omega
  omega

/-- the tuple with the corner point replaced by `q` is again an occurrence of `π` -/
theorem occ' : IsOcc π σ (c.set (x - 1) q) := by
  have hxk := H.xk
  have hlen := H.clen
  refine ⟨by rw [List.length_set]; exact hlen, ?_, ?_, ?_⟩
  · -- strictly increasing
    unfold StrictInc
    rw [List.pairwise_iff_getElem]
    intro a b ha hb hab
    rw [List.length_set] at ha hb
    rw [← getD_eq_getElem' _ (by rw [List.length_set]; exact ha),
      ← getD_eq_getElem' _ (by rw [List.length_set]; exact hb), getD_set_eq, getD_set_eq]
    by_cases h1 : a = x - 1
    · have h2 : ¬ (b = x - 1 ∧ x - 1 < c.length) := by omega
      rw [if_pos ⟨h1, hxk⟩, if_neg h2]
      exact H.q_lt_ck hb (by omega)
    · have h1' : ¬ (a = x - 1 ∧ x - 1 < c.length) := fun h => h1 h.1
      rw [if_neg h1']
      by_cases h2 : b = x - 1
      · rw [if_pos ⟨h2, hxk⟩]
        exact (H.ck_lt_q ha).mpr (by omega)
      · have h2' : ¬ (b = x - 1 ∧ x - 1 < c.length) := fun h => h2 h.1
        rw [if_neg h2']
        exact sorted_getD_lt H.occ.inc hab hb
  · intro i hi
    rcases List.mem_or_eq_of_mem_set hi with h | h
    · exact H.occ.rng i h
    · exact h ▸ H.hq
  · intro a b ha hb
    have hac : a < c.length := by omega
    have hbc : b < c.length := by omega
    rw [getD_set_eq, getD_set_eq, H.occ.iso a b ha hb]
    by_cases h1 : a = x - 1 <;> by_cases h2 : b = x - 1
    · subst h1; subst h2; simp
    · have h2' : ¬ (b = x - 1 ∧ x - 1 < c.length) := fun h => h2 h.1
      rw [if_pos ⟨h1, hxk⟩, if_neg h2', h1]
      exact (H.σq_lt_σck hbc h2).symm
    · have h1' : ¬ (a = x - 1 ∧ x - 1 < c.length) := fun h => h1 h.1
      rw [if_neg h1', if_pos ⟨h2, hxk⟩, h2]
      exact (H.σck_lt_σq hac h1).symm
    · have h1' : ¬ (a = x - 1 ∧ x - 1 < c.length) := fun h => h1 h.1
      have h2' : ¬ (b = x - 1 ∧ x - 1 < c.length) := fun h => h2 h.1
      rw [if_neg h1', if_neg h2']

/-- how the column of a position changes -/
theorem col_cases {i : Nat} (hiP : i ≠ c.getD (x - 1) 0) (hiq : i ≠ q) :
    (i < c.getD (x - 1) 0 ∧ colOf (c.set (x - 1) q) i = colOf c i ∧ colOf c i ≤ x - 1) ∨
    (c.getD (x - 1) 0 < i ∧ i < q ∧ colOf c i = x ∧ colOf (c.set (x - 1) q) i = x - 1) ∨
    (q < i ∧ colOf (c.set (x - 1) q) i = colOf c i ∧ x ≤ colOf c i) := by
  have hPq := H.P_lt_q
  have hx := H.hx
  have hthr := sorted_lt_iff H.occ.inc H.xk i
  have hnew : colOf (c.set (x - 1) q) i = colOf c i - (if c.getD (x - 1) 0 < i then 1 else 0) +
      (if q < i then 1 else 0) := by
    show (c.set (x - 1) q).countP _ = _
    rw [countP_set_getD c (x - 1) _ q H.xk]; simp only [decide_eq_true_eq]
  have hm1 : i ≤ q → colOf c i ≤ x := fun h => H.hcol ▸ colOf_mono c h
  have hm2 : q ≤ i → x ≤ colOf c i := fun h => H.hcol ▸ colOf_mono c h
  change _ ↔ x - 1 < colOf c i at hthr
  rcases Nat.lt_or_gt_of_ne hiP with h1 | h1
  · left
    have : ¬ c.getD (x - 1) 0 < i := by omega
    have h2 : ¬ q < i := by omega
    rw [if_neg this, if_neg h2] at hnew
    exact ⟨h1, by omega, by omega⟩
  · rcases Nat.lt_or_gt_of_ne hiq with h2 | h2
    · right; left
      have h3 : ¬ q < i := by omega
      rw [if_pos h1, if_neg h3] at hnew
      have := hm1 (by omega)
      exact ⟨h1, h2, by omega, by omega⟩
    · right; right
      rw [if_pos h1, if_pos h2] at hnew
      have := hm2 (by omega)
      exact ⟨h2, by omega, by omega⟩

/-- how the row of a position changes -/
theorem row_cases {i : Nat} (hi : i < σ.length) (hiP : i ≠ c.getD (x - 1) 0) (hiq : i ≠ q) :
    (σ.getD i 0 < σ.getD (c.getD (x - 1) 0) 0 ∧ rowOf σ (c.set (x - 1) q) i = rowOf σ c i ∧
        rowOf σ c i ≤ y - 1) ∨
    (σ.getD (c.getD (x - 1) 0) 0 < σ.getD i 0 ∧ σ.getD i 0 < σ.getD q 0 ∧ rowOf σ c i = y ∧
        rowOf σ (c.set (x - 1) q) i = y - 1) ∨
    (σ.getD q 0 < σ.getD i 0 ∧ rowOf σ (c.set (x - 1) q) i = rowOf σ c i ∧ y ≤ rowOf σ c i) := by
  have hPq := H.σP_lt_σq
  have hpt := H.hpt
  have hxπ : x - 1 < π.length := by have := H.xk; have := H.clen; omega
  have hthr := occ_val_lt_iff H.hπ H.occ hxπ (σ.getD i 0)
  have hnew : rowOf σ (c.set (x - 1) q) i = rowOf σ c i -
      (if σ.getD (c.getD (x - 1) 0) 0 < σ.getD i 0 then 1 else 0) +
      (if σ.getD q 0 < σ.getD i 0 then 1 else 0) := by
    show (c.set (x - 1) q).countP _ = _
    rw [countP_set_getD c (x - 1) _ q H.xk]; simp only [decide_eq_true_eq]
  have hm1 : σ.getD i 0 ≤ σ.getD q 0 → rowOf σ c i ≤ y := fun h => H.hrow ▸ rowOf_mono σ c h
  have hm2 : σ.getD q 0 ≤ σ.getD i 0 → y ≤ rowOf σ c i := fun h => H.hrow ▸ rowOf_mono σ c h
  change _ ↔ π.getD (x - 1) 0 < rowOf σ c i at hthr
  have hcxσ : c.getD (x - 1) 0 < σ.length := H.occ.rng _ (mem_getD H.xk)
  have hne1 : σ.getD i 0 ≠ σ.getD (c.getD (x - 1) 0) 0 := fun h => hiP (nodup_getD_inj H.hσ hi hcxσ h)
  have hne2 : σ.getD i 0 ≠ σ.getD q 0 := fun h => hiq (nodup_getD_inj H.hσ hi H.hq h)
  rcases Nat.lt_or_gt_of_ne hne1 with h1 | h1
  · left
    have : ¬ σ.getD (c.getD (x - 1) 0) 0 < σ.getD i 0 := by omega
    have h2 : ¬ σ.getD q 0 < σ.getD i 0 := by omega
    rw [if_neg this, if_neg h2] at hnew
    exact ⟨h1, by omega, by omega⟩
  · rcases Nat.lt_or_gt_of_ne hne2 with h2 | h2
    · right; left
      have h3 : ¬ σ.getD q 0 < σ.getD i 0 := by omega
      rw [if_pos h1, if_neg h3] at hnew
      have := hm1 (by omega)
      exact ⟨h1, h2, by omega, by omega⟩
    · right; right
      rw [if_pos h1, if_pos h2] at hnew
      have := hm2 (by omega)
      exact ⟨h2, by omega, by omega⟩

/-- **replacement step**: the new tuple has no point in a shaded cell nor in cell `(x,y)`,
    provided the lemma's conditions 3, 5, 6 hold and `q` is suitably extremal among the points
    of the cell -/
theorem free' (R : List Cell)
    (hfree : ∀ i, i < σ.length → i ∉ c → cellOf σ c i ∉ R)
    (h3 : (x - 1, y - 1) ∉ R)
    (h5 : ∀ a, a ≤ π.length → a ≠ x - 1 → a ≠ x → (a, y - 1) ∈ R → (a, y) ∈ R)
    (h6 : ∀ b, b ≤ π.length → b ≠ y - 1 → b ≠ y → (x - 1, b) ∈ R → (x, b) ∈ R)
    (hS : ∀ i, i < σ.length → i ∉ c → i ≠ q → cellOf σ c i = (x, y) →
      (i < q ∨ σ.getD i 0 < σ.getD q 0) ∧ (q < i → (x, y - 1) ∉ R) ∧
      (σ.getD q 0 < σ.getD i 0 → (x - 1, y) ∉ R)) :
    ∀ i, i < σ.length → i ∉ c.set (x - 1) q →
      cellOf σ (c.set (x - 1) q) i ∉ R ∧ cellOf σ (c.set (x - 1) q) i ≠ (x, y) := by
  intro i hi hic'
  have hx := H.hx
  have hpt := H.hpt
  have hiq : i ≠ q := fun h => hic' (h ▸ List.mem_set H.xk q)
  rw [cellOf_eq]
  by_cases hiP : i = c.getD (x - 1) 0
  · -- the old corner point
    have hPq := H.P_lt_q
    have hσPq := H.σP_lt_σq
    have hxπ : x - 1 < π.length := by have := H.xk; have := H.clen; omega
    have hc1 : colOf (c.set (x - 1) q) i = x - 1 := by
      show (c.set (x - 1) q).countP _ = _
      rw [countP_set_getD c (x - 1) _ q H.xk, hiP]
      have := colOf_occ H.occ.inc H.xk
      change c.countP _ = _ at this
      rw [this]
      have h2 : ¬ q < c.getD (x - 1) 0 := by omega
      simp only [decide_eq_true_eq, Nat.lt_irrefl, if_false, if_neg h2]; omega
    have hr1 : rowOf σ (c.set (x - 1) q) i = y - 1 := by
      show (c.set (x - 1) q).countP _ = _
      rw [countP_set_getD c (x - 1) _ q H.xk, hiP]
      have := rowOf_occ H.hπ H.occ hxπ
      change c.countP _ = _ at this
      rw [this]
      have h2 : ¬ σ.getD q 0 < σ.getD (c.getD (x - 1) 0) 0 := by omega
      simp only [decide_eq_true_eq, Nat.lt_irrefl, if_false, if_neg h2]; omega
    rw [hc1, hr1]
    refine ⟨h3, ?_⟩
    intro h; injection h with h1 h2; omega
  · have hic : i ∉ c := by
      intro hmem
      obtain ⟨k, hk, hki⟩ := List.getElem_of_mem hmem
      have hkx : x - 1 ≠ k := by
        intro h; apply hiP; rw [← hki, getD_eq_getElem' c H.xk]; simp [h]
      apply hic'
      rw [← hki, ← getD_eq_getElem' c hk]
      exact mem_set_of_ne q hk hkx
    have hold := hfree i hi hic
    have hcolb : colOf c i ≤ π.length := H.clen ▸ List.countP_le_length
    have hrowb : rowOf σ c i ≤ π.length := H.clen ▸ List.countP_le_length
    rw [cellOf_eq] at hold
    have hSi := hS i hi hic hiq
    rw [cellOf_eq] at hSi
    rcases H.col_cases hiP hiq with ⟨hp, hc', hcb⟩ | ⟨hp1, hp2, hc, hc'⟩ | ⟨hp, hc', hcb⟩ <;>
    rcases H.row_cases hi hiP hiq with ⟨hv, hr', hrb⟩ | ⟨hv1, hv2, hr, hr'⟩ | ⟨hv, hr', hrb⟩
    · rw [hc', hr']; exact ⟨hold, fun h => by injection h with h1 h2; omega⟩
    · rw [hc', hr']
      rw [hr] at hold
      refine ⟨?_, fun h => by injection h with h1 h2; omega⟩
      by_cases ha : colOf c i = x - 1
      · rw [ha]; exact h3
      · exact fun hm => hold (h5 _ hcolb ha (by omega) hm)
    · rw [hc', hr']; exact ⟨hold, fun h => by injection h with h1 h2; omega⟩
    · rw [hc', hr']
      rw [hc] at hold
      refine ⟨?_, fun h => by injection h with h1 h2; omega⟩
      by_cases hb : rowOf σ c i = y - 1
      · rw [hb]; exact h3
      · exact fun hm => hold (h6 _ hrowb hb (by omega) hm)
    · rw [hc', hr']; exact ⟨h3, fun h => by injection h with h1 h2; omega⟩
    · rw [hc', hr']
      rw [hc] at hold
      refine ⟨?_, fun h => by injection h with h1 h2; omega⟩
      by_cases hb : rowOf σ c i = y
      · have := (hSi (by rw [hc, hb])).2.2 hv
        rw [hb]; exact this
      · exact fun hm => hold (h6 _ hrowb (by omega) hb hm)
    · rw [hc', hr']; exact ⟨hold, fun h => by injection h with h1 h2; omega⟩
    · rw [hc', hr']
      rw [hr] at hold
      refine ⟨?_, fun h => by injection h with h1 h2; omega⟩
      by_cases ha : colOf c i = x
      · have := (hSi (by rw [ha, hr])).2.1 hp
        rw [ha]; exact this
      · exact fun hm => hold (h5 _ hcolb (by omega) ha hm)
    · rw [hc', hr']
      refine ⟨hold, ?_⟩
      intro h
      have := (hSi h).1
      omega

end Corner
end Spec.C18
