import PermutaModel.Lemmas.C10Std
import PermutaModel.Lemmas.C10Algebra
import PermutaModel.Spec.C10

/-! `sum_decomposition`: the running-maximum loop cuts exactly at the closed prefixes. -/
open Model Spec.C10

namespace C10L

/-- the prefix of length `c` only uses values below `c` -/
def closedAt (p : NSeq) (c : Nat) : Prop := ∀ x ∈ p.take c, x < c

theorem mem_take_iff_getD {p : NSeq} {c x : Nat} :
    x ∈ p.take c ↔ ∃ j, j < c ∧ j < p.length ∧ p.getD j 0 = x := by
  rw [List.mem_take_iff_getElem]
  constructor
  · rintro ⟨j, hj, rfl⟩
    have h1 : j < c := by omega
    have h2 : j < p.length := by omega
    exact ⟨j, h1, h2, getD_eq_getElem' h2⟩
  · rintro ⟨j, h1, h2, rfl⟩
    exact ⟨j, by omega, (getD_eq_getElem' h2).symm⟩

theorem closedAt_zero (p : NSeq) : closedAt p 0 := by simp [closedAt]

theorem closedAt_length {p : NSeq} (hp : IsPerm p) : closedAt p p.length := by
  intro x hx
  exact hp.2 x (List.mem_of_mem_take hx)

theorem take_isPerm_of_closed {p : NSeq} (hn : p.Nodup) {c : Nat} (hc : c ≤ p.length)
    (h : closedAt p c) : IsPerm (p.take c) := by
  refine ⟨hn.sublist (List.take_sublist _ _), ?_⟩
  intro x hx
  rw [List.length_take, Nat.min_eq_left hc]
  exact h x hx

theorem drop_ge_of_closed {p : NSeq} (hp : IsPerm p) {c : Nat} (hc : c ≤ p.length)
    (h : closedAt p c) : ∀ y ∈ p.drop c, c ≤ y := by
  intro y hy
  by_contra hlt
  have ht := take_isPerm_of_closed hp.1 hc h
  have hmem : y ∈ p.take c := (mem_iff ht).mpr (by rw [List.length_take, Nat.min_eq_left hc]; omega)
  have hn := hp.1
  rw [← List.take_append_drop c p, List.nodup_append] at hn
  exact hn.2.2 y hmem y hy rfl

/-- `closedAt` is the property's "everything before the cut is below everything after it" -/
theorem closedAt_iff_sumCut {p : NSeq} (hp : IsPerm p) {c : Nat} (hc : c ≤ p.length) :
    closedAt p c ↔ SumCut p c := by
  constructor
  · intro h x hx y hy
    have := h x hx
    have := drop_ge_of_closed hp hc h y hy
    omega
  · intro h x hx
    have hxn := hp.2 x (List.mem_of_mem_take hx)
    have hnd : ((p.drop c).map (· - (x + 1))).Nodup := by
      apply List.Nodup.map_on _ (hp.1.sublist (List.drop_sublist _ _))
      intro a ha b hb hab
      have := h x hx a ha
      have := h x hx b hb
      omega
    have hb : ∀ z ∈ (p.drop c).map (· - (x + 1)), z < p.length - (x + 1) := by
      intro z hz
      obtain ⟨y, hy, rfl⟩ := List.mem_map.mp hz
      have := h x hx y hy
      have := hp.2 y (List.mem_of_mem_drop hy)
      omega
    have := length_le_of_nodup_bounded hnd hb
    simp only [List.length_map, List.length_drop] at this
    omega

/-- the cut test `idx == max_val` of the loop, given that `m` is the maximum of the first `idx+1` entries -/
theorem cut_iff {p : NSeq} (hp : IsPerm p) {idx : Nat} (hi : idx < p.length) {m : Int}
    (hub : ∀ j, j < idx + 1 → (p.getD j 0 : Int) ≤ m)
    (hach : ∃ j, j < idx + 1 ∧ (p.getD j 0 : Int) = m) :
    (idx : Int) = m ↔ closedAt p (idx + 1) := by
  constructor
  · intro h x hx
    obtain ⟨j, hj, _, rfl⟩ := mem_take_iff_getD.mp hx
    have := hub j hj
    omega
  · intro h
    obtain ⟨j, hj, hjm⟩ := hach
    have h1 : p.getD j 0 < idx + 1 := h _ (mem_take_iff_getD.mpr ⟨j, hj, by omega, rfl⟩)
    have hnd : (p.take (idx + 1)).Nodup := hp.1.sublist (List.take_sublist _ _)
    have hb : ∀ x ∈ p.take (idx + 1), x < m.toNat + 1 := by
      intro x hx
      obtain ⟨j', hj', _, rfl⟩ := mem_take_iff_getD.mp hx
      have := hub j' hj'
      omega
    have := length_le_of_nodup_bounded hnd hb
    rw [List.length_take, Nat.min_eq_left (by omega)] at this
    omega

theorem take_append_slice (p : NSeq) {s e : Nat} (hse : s ≤ e) : p.take s ++ slice p s e = p.take e := by
  unfold slice
  rw [← List.drop_take]
  have : p.take s = (p.take e).take s := by rw [List.take_take, Nat.min_eq_left hse]
  rw [this, List.take_append_drop]

theorem length_slice (p : NSeq) {s e : Nat} (he : e ≤ p.length) : (slice p s e).length = e - s := by
  simp only [slice, List.length_take, List.length_drop]; omega

/-- facts about one block `p[start:e]` between two consecutive closed prefixes -/
theorem block_facts {p : NSeq} (hp : IsPerm p) {start e : Nat} (hse : start < e) (he : e ≤ p.length)
    (hcs : closedAt p start) (hce : closedAt p e)
    (hno : ∀ c, start < c → c < e → ¬ closedAt p c) :
    IsPerm ((slice p start e).map (· - start)) ∧
    standardize (slice p start e) = (slice p start e).map (· - start) ∧
    ((slice p start e).map (· - start)).map (· + start) = slice p start e ∧
    isSumDecomposable ((slice p start e).map (· - start)) = false := by
  have hlen := length_slice p (s := start) he
  have hnd : (slice p start e).Nodup :=
    (hp.1.sublist (List.drop_sublist _ _)).sublist (List.take_sublist _ _)
  have hlo : ∀ y ∈ slice p start e, start ≤ y := fun y hy =>
    drop_ge_of_closed hp (by omega) hcs y (List.mem_of_mem_take hy)
  have hhi : ∀ y ∈ slice p start e, y < start + (slice p start e).length := by
    intro y hy
    have hy' : y ∈ p.take e := by rw [← take_append_slice p (Nat.le_of_lt hse)]; exact List.mem_append_right _ hy
    have := hce y hy'
    omega
  obtain ⟨h1, h2, h3⟩ := standardize_block hnd hlo hhi
  refine ⟨h1, h2, h3, ?_⟩
  by_contra hdec
  have hdec' : isSumDecomposable ((slice p start e).map (· - start)) = true := by
    cases h : isSumDecomposable ((slice p start e).map (· - start)) with
    | true => rfl
    | false => exact absurd h hdec
  unfold isSumDecomposable at hdec'
  rw [List.any_eq_true] at hdec'
  obtain ⟨i, hi, hpre⟩ := hdec'
  rw [List.mem_range'_1] at hi
  simp only [List.length_map, hlen] at hi
  apply hno (start + i) (by omega) (by omega)
  intro x hx
  rw [List.take_add] at hx
  rcases List.mem_append.mp hx with hx | hx
  · have := hcs x hx; omega
  · have ht : List.take i (List.drop start p) = (List.take i ((slice p start e).map (· - start))).map (· + start) := by
      calc List.take i (List.drop start p) = List.take i (slice p start e) := by
            unfold slice; rw [List.take_take, Nat.min_eq_left (by omega)]
        _ = List.take i (((slice p start e).map (· - start)).map (· + start)) := by rw [h3]
        _ = _ := by rw [List.map_take]
    rw [ht] at hx
    obtain ⟨y, hy, rfl⟩ := List.mem_map.mp hx
    unfold prefixSetEq at hpre
    rw [Bool.and_eq_true, List.all_eq_true, List.all_eq_true] at hpre
    have := hpre.2 y hy
    simp at this
    omega

theorem drop_cons_facts {p : NSeq} {idx val : Nat} {rest : List Nat} (h : p.drop idx = val :: rest) :
    idx < p.length ∧ p.getD idx 0 = val ∧ p.drop (idx + 1) = rest := by
  have hi : idx < p.length := by
    by_contra hc
    rw [List.drop_of_length_le (by omega)] at h
    exact absurd h (by simp)
  rw [List.drop_eq_getElem_cons hi] at h
  injection h with h1 h2
  exact ⟨hi, by rw [getD_eq_getElem' hi]; exact h1, h2⟩

/-- loop invariant of `sum_decomposition` ⇒ the parts re-assemble to `p` and are sum-indecomposable
    non-empty permutations -/
theorem sumDecompGo_spec {p : NSeq} (hp : IsPerm p) :
    ∀ (rest : List Nat) (idx : Nat) (maxv : Int) (start : Nat),
      p.drop idx = rest → start ≤ idx → idx ≤ p.length →
      closedAt p start →
      (∀ j, j < idx → (p.getD j 0 : Int) ≤ maxv) →
      (maxv = -1 ∨ ∃ j, j < idx ∧ (p.getD j 0 : Int) = maxv) →
      (∀ c, start < c → c ≤ idx → ¬ closedAt p c) →
      (idx = p.length → start = p.length) →
      directSumGo (p.take start) start (sumDecompGo p rest idx maxv start) = p ∧
      ∀ part ∈ sumDecompGo p rest idx maxv start,
        IsPerm part ∧ part ≠ [] ∧ isSumDecomposable part = false := by
  intro rest
  induction rest with
  | nil =>
    intro idx maxv start hdrop hsi hin _ _ _ _ hend
    have : idx = p.length := by
      have := List.drop_eq_nil_iff.mp hdrop
      omega
    have hs := hend this
    simp only [sumDecompGo, directSumGo, List.not_mem_nil, false_imp_iff, implies_true, and_true]
    rw [hs, List.take_length]
  | cons val rest ih =>
    intro idx maxv start hdrop hsi hin hcs hub hach hno hend
    obtain ⟨hi, hval, hdrop'⟩ := drop_cons_facts hdrop
    have hub' : ∀ j, j < idx + 1 → (p.getD j 0 : Int) ≤ max maxv (val : Int) := by
      intro j hj
      by_cases hji : j < idx
      · have := hub j hji; omega
      · have : j = idx := by omega
        subst this; rw [hval]; omega
    have hach' : ∃ j, j < idx + 1 ∧ (p.getD j 0 : Int) = max maxv (val : Int) := by
      by_cases hmv : maxv ≤ (val : Int)
      · exact ⟨idx, by omega, by rw [hval]; omega⟩
      · rcases hach with h | ⟨j, hj, hjm⟩
        · omega
        · exact ⟨j, by omega, by omega⟩
    have hK := cut_iff hp hi hub' hach'
    unfold sumDecompGo
    split
    · next hcut =>
      have hce := hK.mp hcut
      obtain ⟨b1, b2, b3, b4⟩ := block_facts hp (start := start) (e := idx + 1) (by omega) (by omega) hcs hce
        (fun c h1 h2 => hno c h1 (by omega))
      have ih' := ih (idx + 1) (max maxv (val : Int)) (idx + 1) hdrop' (Nat.le_refl _) (by omega) hce hub'
        (Or.inr hach') (fun c h1 h2 => by omega) (fun _ => by omega)
      constructor
      · rw [directSumGo, b2, b3, take_append_slice p (by omega)]
        have : start + ((slice p start (idx + 1)).map (· - start)).length = idx + 1 := by
          rw [List.length_map, length_slice p (by omega)]; omega
        rw [this]
        exact ih'.1
      · intro part hpart
        rcases List.mem_cons.mp hpart with rfl | hpart
        · rw [b2]
          refine ⟨b1, ?_, b4⟩
          intro hnil
          have := congrArg List.length hnil
          rw [List.length_map, length_slice p (by omega)] at this
          simp at this
          omega
        · exact ih'.2 part hpart
    · next hcut =>
      have hnc : ¬ closedAt p (idx + 1) := fun h => hcut (hK.mpr h)
      have ih' := ih (idx + 1) (max maxv (val : Int)) start hdrop' (by omega) (by omega) hcs hub'
        (Or.inr hach')
        (fun c h1 h2 => by
          by_cases hc : c ≤ idx
          · exact hno c h1 hc
          · have : c = idx + 1 := by omega
            subst this; exact hnc)
        (fun h => by
          exfalso
          apply hnc
          rw [h]
          exact closedAt_length hp)
      exact ih'

theorem sumDecomposition_spec {p : NSeq} (hp : IsPerm p) :
    directSumN [] (sumDecomposition p) = p ∧
    ∀ part ∈ sumDecomposition p, IsPerm part ∧ part ≠ [] ∧ isSumDecomposable part = false := by
  have := sumDecompGo_spec hp p 0 (-1) 0 (by simp) (Nat.le_refl _) (Nat.zero_le _) (closedAt_zero p)
    (fun j hj => by omega) (Or.inl rfl) (fun c h1 h2 => by omega)
    (fun h => h)
  simpa [directSumN, sumDecomposition] using this

theorem prefixSetEq_zero_iff {p : NSeq} (hp : IsPerm p) {i : Nat} (hi : i ≤ p.length) :
    prefixSetEq p 0 i = true ↔ closedAt p i := by
  unfold prefixSetEq
  rw [Bool.and_eq_true, List.all_eq_true, List.all_eq_true]
  constructor
  · rintro ⟨_, h⟩ x hx
    have := h x hx
    simp at this
    omega
  · intro h
    have ht := take_isPerm_of_closed hp.1 hi h
    refine ⟨?_, ?_⟩
    · intro x hx
      rw [List.mem_range'_1] at hx
      rw [List.contains_iff_mem]
      exact (mem_iff ht).mpr (by rw [List.length_take, Nat.min_eq_left hi]; omega)
    · intro x hx
      have := h x hx
      simp; omega

theorem isSumDecomposable_iff_closed {p : NSeq} (hp : IsPerm p) :
    isSumDecomposable p = true ↔ ∃ c, 0 < c ∧ c < p.length ∧ closedAt p c := by
  unfold isSumDecomposable
  rw [List.any_eq_true]
  constructor
  · rintro ⟨i, hi, h⟩
    rw [List.mem_range'_1] at hi
    exact ⟨i, by omega, by omega, (prefixSetEq_zero_iff hp (by omega)).mp h⟩
  · rintro ⟨c, h0, h1, h⟩
    exact ⟨c, by rw [List.mem_range'_1]; omega, (prefixSetEq_zero_iff hp (by omega)).mpr h⟩

/-- `is_sum_decomposable` decides the property's notion -/
theorem isSumDecomposable_iff_spec {p : NSeq} (hp : IsPerm p) :
    isSumDecomposable p = true ↔ SumDecomposable p := by
  rw [isSumDecomposable_iff_closed hp]
  unfold SumDecomposable
  constructor
  · rintro ⟨c, h0, h1, h⟩; exact ⟨c, h0, h1, (closedAt_iff_sumCut hp (by omega)).mp h⟩
  · rintro ⟨c, h0, h1, h⟩; exact ⟨c, h0, h1, (closedAt_iff_sumCut hp (by omega)).mpr h⟩

theorem isSumDecomposable_directSum {a b : NSeq} (ha : IsPerm a) (hb : IsPerm b) (ha0 : a ≠ [])
    (hb0 : b ≠ []) : isSumDecomposable (directSum a b) = true := by
  rw [isSumDecomposable_iff_closed (directSum_isPerm ha hb)]
  have h1 : 0 < a.length := List.length_pos_iff.mpr ha0
  have h2 : 0 < b.length := List.length_pos_iff.mpr hb0
  refine ⟨a.length, h1, by rw [length_directSum]; omega, ?_⟩
  intro x hx
  unfold directSum at hx
  rw [List.take_left'] at hx
  · exact ha.2 x hx
  · rfl

theorem foldl_directSum_cons (a b : NSeq) (rest : List NSeq) :
    (b :: rest).foldl directSum a = directSum a (rest.foldl directSum b) := by
  induction rest generalizing a b with
  | nil => rfl
  | cons c rest ih =>
    simp only [List.foldl_cons] at ih ⊢
    rw [directSum_assoc, ih a (directSum b c)]

/-- sum-decomposable iff the decomposition has at least two parts -/
theorem isSumDecomposable_iff_parts {p : NSeq} (hp : IsPerm p) :
    isSumDecomposable p = true ↔ 2 ≤ (sumDecomposition p).length := by
  obtain ⟨h1, h2⟩ := sumDecomposition_spec hp
  rw [directSumN_eq_foldl] at h1
  cases hL : sumDecomposition p with
  | nil =>
    rw [hL] at h1
    simp only [List.foldl_nil] at h1
    subst h1
    simp [isSumDecomposable]
  | cons a t =>
    rw [hL] at h1 h2
    cases t with
    | nil =>
      simp only [List.foldl_cons, List.foldl_nil, directSum_nil_left] at h1
      subst h1
      have := (h2 a (by simp)).2.2
      simp [this]
    | cons b rest =>
      rw [foldl_directSum_cons, directSum_nil_left, foldl_directSum_cons] at h1
      simp only [List.length_cons]
      have ha := h2 a (by simp)
      have hb := h2 b (by simp)
      have hrest : IsPerm (rest.foldl directSum b) :=
        foldl_directSum_isPerm hb.1 (fun o ho => (h2 o (by simp [ho])).1)
      have hne : rest.foldl directSum b ≠ [] := by
        intro h
        have hl := length_foldl_directSum b rest
        have hbpos := List.length_pos_iff.mpr hb.2.1
        rw [h, List.length_nil] at hl
        omega
      rw [← h1, isSumDecomposable_directSum ha.1 hrest ha.2.1 hne]
      simp

end C10L
