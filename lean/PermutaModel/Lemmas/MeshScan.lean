import PermutaModel.Spec.Mesh
import PermutaModel.Lemmas.PermBasic
import PermutaModel.Lemmas.C01Bridge
/-! The scan of `_occurrences_in_perm` computes the cell of every non-occurrence point. -/
open Model

namespace MeshLemmas

theorem getD_eq_getElem (σ : NSeq) (i : Nat) (h : i < σ.length) : σ.getD i 0 = σ[i] := by
  simp [List.getD_eq_getElem?_getD, List.getElem?_eq_getElem h]

/-- membership by value in the candidate equals membership by index (σ injective) -/
theorem pick_contains (σ : NSeq) (c : List Nat) (hσ : IsPerm σ) (hr : ∀ j ∈ c, j < σ.length)
    (i : Nat) (hi : i < σ.length) :
    (Spec.pick σ c).contains (σ.getD i 0) = c.contains i := by
  rw [Bool.eq_iff_iff]
  simp only [List.contains_iff_mem, Spec.pick, List.mem_map]
  constructor
  · rintro ⟨j, hj, hji⟩
    have := hσ.getD_inj (hr j hj) hi hji
    subst this; exact hj
  · intro h; exact ⟨i, h, rfl⟩

theorem filter_pick_length (σ : NSeq) (c : List Nat) (e : Nat) :
    ((Spec.pick σ c).filter (· < e)).length = (c.filter fun j => σ.getD j 0 < e).length := by
  unfold Spec.pick
  rw [List.filter_map, List.length_map]
  rfl

theorem countLt_succ (c : List Nat) (hnd : c.Nodup) (i : Nat) :
    (c.filter (· < i+1)).length = (c.filter (· < i)).length + (if i ∈ c then 1 else 0) := by
  induction c with
  | nil => simp
  | cons a t ih =>
    have hnd' := (List.nodup_cons.mp hnd)
    have ih := ih hnd'.2
    simp only [List.filter_cons, List.mem_cons]
    by_cases h1 : a < i
    · have h2 : a < i + 1 := by omega
      have h3 : ¬ i = a := by omega
      simp only [h1, h2, decide_true, if_true, List.length_cons, h3, false_or]
      omega
    · by_cases h4 : a = i
      · subst h4
        have hni : a ∉ t := hnd'.1
        simp only [Nat.lt_irrefl, decide_false, Nat.lt_succ_self, decide_true, if_true,
          List.length_cons, true_or, Bool.false_eq_true, if_false]
        simp only [hni, if_false] at ih
        omega
      · have h2 : ¬ a < i + 1 := by omega
        have h3 : ¬ i = a := fun h => h4 h.symm
        simp only [h1, h2, decide_false, Bool.false_eq_true, if_false, h3, false_or]
        exact ih

theorem strictInc_nodup {c : List Nat} (h : StrictInc c) : c.Nodup :=
  h.imp (fun h => Nat.ne_of_lt h)

/-- the scan from position `i` on, started with the right counter, is the Boolean "no point at a
    position `≥ i` outside the occurrence lies in a shaded cell" -/
theorem meshScan_drop (R : List Cell) (σ : NSeq) (c : List Nat) (hσ : IsPerm σ) (hinc : StrictInc c)
    (hr : ∀ j ∈ c, j < σ.length) :
    ∀ (m i : Nat), m = σ.length - i → i ≤ σ.length →
    meshScan R (Spec.pick σ c) (σ.drop i) ((c.filter (· < i)).length)
      = (List.range' i m).all fun i => c.contains i || !R.contains (Spec.cellOf σ c i) := by
  intro m
  induction m with
  | zero =>
    intro i hm hi
    have : σ.drop i = [] := List.drop_eq_nil_of_le (by omega)
    simp [this, meshScan]
  | succ m ih =>
    intro i hm hi
    have hlt : i < σ.length := by omega
    rw [List.drop_eq_getElem_cons hlt, List.range'_succ, List.all_cons]
    have hg : σ[i] = σ.getD i 0 := (getD_eq_getElem σ i hlt).symm
    rw [hg]
    unfold meshScan
    rw [pick_contains σ c hσ hr i hlt]
    have ih' := ih (i+1) (by omega) (by omega)
    rw [countLt_succ c (strictInc_nodup hinc) i] at ih'
    by_cases hmem : i ∈ c
    · have hc : c.contains i = true := by simpa using hmem
      simp only [hmem, if_true] at ih'
      simp only [hc, if_true, Bool.true_or, Bool.true_and]
      exact ih'
    · have hc : c.contains i = false := by simpa using hmem
      simp only [hmem, if_false, Nat.add_zero] at ih'
      simp only [hc, Bool.false_eq_true, if_false, Bool.false_or]
      rw [filter_pick_length]
      show (if R.contains (Spec.cellOf σ c i) = true then false
          else meshScan R (Spec.pick σ c) (σ.drop (i+1)) ((c.filter (· < i)).length)) = _
      rw [ih']
      cases R.contains (Spec.cellOf σ c i) <;> simp

theorem meshScan_eq_meshOk (R : List Cell) (σ : NSeq) (c : List Nat) (hσ : IsPerm σ) (hinc : StrictInc c)
    (hr : ∀ j ∈ c, j < σ.length) :
    meshScan R (c.map fun i => σ.getD i 0) σ 0 = Spec.meshOk R σ c := by
  have h := meshScan_drop R σ c hσ hinc hr σ.length 0 (by omega) (by omega)
  simp only [List.drop_zero, Nat.not_lt_zero, decide_false, List.filter_false, List.length_nil] at h
  unfold Spec.meshOk
  rw [List.range_eq_range']
  exact h

end MeshLemmas
