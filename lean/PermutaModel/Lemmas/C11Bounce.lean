import PermutaModel.Lemmas.C11Cycles
/-! Helper lemmas for C11: `count_bounces` – the positions of the values `0 … k`, the specification's `cover`,
    and the agreement (and termination) of the two bounce loops. -/
open Model.Stat

namespace C11L
local notation:max σ "⟦" i "⟧" => List.getD σ i 0

/-- the largest position among the values `0 … k` -/
def maxPos (p : NSeq) (k : Nat) : Nat := maxNat ((List.range (k + 1)).map fun v => p.idxOf v)

theorem inverse_take (p : NSeq) (k : Nat) (hk : k < p.length) :
    (Model.inverse p).take (k + 1) = (List.range (k + 1)).map fun v => p.idxOf v := by
  unfold Model.inverse
  rw [← List.map_take, List.take_range, Nat.min_eq_left (by omega)]

theorem maxPos_spec (p : NSeq) (k : Nat) :
    (∀ v, v ≤ k → p.idxOf v ≤ maxPos p k) ∧ ∃ v, v ≤ k ∧ p.idxOf v = maxPos p k := by
  have hne : (List.range (k + 1)).map (fun v => p.idxOf v) ≠ [] := by
    intro h
    have : k + 1 = 0 := by simpa using congrArg List.length h
    omega
  obtain ⟨h1, h2⟩ := maxNat_mem _ hne
  refine ⟨fun v hv => h2 _ (List.mem_map.mpr ⟨v, List.mem_range.mpr (by omega), rfl⟩), ?_⟩
  obtain ⟨v, hv, e⟩ := List.mem_map.mp h1
  exact ⟨v, by have := List.mem_range.mp hv; omega, e⟩

/-- the values `0 … k` occupy `k+1` different positions, so the largest of them is at least `k` -/
theorem le_maxPos {p : NSeq} (hp : IsPerm p) {k : Nat} (hk : k < p.length) : k ≤ maxPos p k := by
  rcases Nat.lt_or_ge (maxPos p k) k with hlt | hge
  · exfalso
    have hmaps : ∀ v ∈ Finset.range (k + 1), p.idxOf v ∈ Finset.range k := by
      intro v hv
      have := (maxPos_spec p k).1 v (by have := Finset.mem_range.mp hv; omega)
      exact Finset.mem_range.mpr (by omega)
    have hcard : (Finset.range k).card < (Finset.range (k + 1)).card := by simp
    obtain ⟨a, ha, b, hb, hab, hf⟩ := Finset.exists_ne_map_eq_of_card_lt_of_maps_to hcard hmaps
    have ham : a ∈ p := mem_of_lt_length hp (by have := Finset.mem_range.mp ha; omega)
    exact hab ((List.idxOf_inj ham).mp hf)
  · exact hge

theorem maxPos_lt {p : NSeq} (hp : IsPerm p) {k : Nat} (hk : k < p.length) : maxPos p k < p.length := by
  obtain ⟨v, hv, e⟩ := (maxPos_spec p k).2
  rw [← e]
  exact List.idxOf_lt_length_of_mem (mem_of_lt_length hp (by omega))

/-- `v` is among the first `m` entries exactly when its position is below `m` -/
theorem mem_take_iff {p : NSeq} (hp : IsPerm p) {v : Nat} (hv : v < p.length) (m : Nat) :
    v ∈ p.take m ↔ p.idxOf v < m := by
  have hvm := mem_of_lt_length hp hv
  have hlt := List.idxOf_lt_length_of_mem hvm
  constructor
  · intro h
    obtain ⟨i, hi, e⟩ := List.getElem_of_mem h
    have hi' : i < m ∧ i < p.length := by simpa using hi
    have e' : p[i]'hi'.2 = v := by simpa using e
    have : p.idxOf v = i := by
      have h1 : p[p.idxOf v]'hlt = v := List.getElem_idxOf hlt
      exact (List.Nodup.getElem_inj_iff hp.1).mp (h1.trans e'.symm)
    omega
  · intro h
    have h1 : p[p.idxOf v]'hlt = v := List.getElem_idxOf hlt
    rw [← h1]
    exact List.mem_take_iff_getElem.mpr ⟨p.idxOf v, by omega, rfl⟩

/-- the specification's `cover`: the least prefix containing `0 … k` ends right after the last of these values -/
theorem cover_eq {p : NSeq} (hp : IsPerm p) {k : Nat} (hk : k < p.length) :
    Spec.Stat.cover p k = maxPos p k + 1 := by
  unfold Spec.Stat.cover
  have hP : ∀ m, ((List.range (k + 1)).all fun v => decide (v ≥ p.length) || (p.take m).contains v) = true ↔
      maxPos p k < m := by
    intro m
    simp only [List.all_eq_true, List.mem_range, Bool.or_eq_true, decide_eq_true_eq, List.contains_eq_mem]
    constructor
    · intro h
      obtain ⟨v, hv, e⟩ := (maxPos_spec p k).2
      rcases h v (by omega) with h | h
      · omega
      · rw [← e]; exact (mem_take_iff hp (by omega) m).mp h
    · intro h v hv
      right
      exact (mem_take_iff hp (by omega) m).mpr (by have := (maxPos_spec p k).1 v (by omega); omega)
  have hlt := maxPos_lt hp hk
  obtain ⟨k0, e1, _, e3, e4, e5⟩ := find?_range'_spec
    (fun m => (List.range (k + 1)).all fun v => decide (v ≥ p.length) || (p.take m).contains v) (p.length + 1) 0
    ⟨maxPos p k + 1, Nat.zero_le _, by omega, (hP _).mpr (by omega)⟩
  have hr : List.range (p.length + 1) = List.range' 0 (p.length + 1) := List.range_eq_range'
  rw [hr, e1]
  simp only [Option.getD_some]
  have h1 := (hP k0).mp e4
  rcases Nat.lt_or_ge (maxPos p k + 1) k0 with hlt' | hge
  · have := e5 (maxPos p k + 1) (Nat.zero_le _) hlt'
    rw [(hP _).mpr (by omega)] at this
    exact Bool.noConfusion this
  · omega

def bsum (n : Nat) (l : List Nat) : Int := (l.map fun (i : Nat) => (n : Int) - (i : Int)).sum

theorem bsum_append (n : Nat) (a b : List Nat) : bsum n (a ++ b) = bsum n a + bsum n b := by
  simp [bsum, List.sum_append]

theorem model_next {p : NSeq} (hp : IsPerm p) {b : Nat} (hb : b < p.length) :
    maxNat ((Model.inverse p).take (b + 1)) + 1 = Spec.Stat.cover p b := by
  rw [inverse_take p b hb, cover_eq hp hb]; rfl

/-- the two bounce loops agree (and the fuel suffices): `sum(arr) + [b<n](n-b) = sum(acc) + sum(path)` -/
theorem bounce_loops {p : NSeq} (hp : IsPerm p) : ∀ (f b : Nat) (acc : List Nat), b ≤ p.length → p.length - b ≤ f →
    ∃ arr, bounceGo (Model.inverse p) p.length f b acc = some arr ∧
      bsum p.length arr + (if b < p.length then (p.length : Int) - b else 0) =
        bsum p.length acc + bsum p.length (Spec.Stat.bouncePath p f b) := by
  intro f
  induction f with
  | zero =>
    intro b acc hb hf
    have : ¬ b < p.length := by omega
    refine ⟨acc, by simp [bounceGo, this], ?_⟩
    simp [this, Spec.Stat.bouncePath, bsum]
  | succ f ih =>
    intro b acc hb hf
    by_cases hlt : b < p.length
    · have hnext := model_next hp hlt
      have hcov : Spec.Stat.cover p b = maxPos p b + 1 := cover_eq hp hlt
      have h1 := le_maxPos hp hlt
      have h2 := maxPos_lt hp hlt
      obtain ⟨arr, e1, e2⟩ := ih (Spec.Stat.cover p b) (acc ++ [Spec.Stat.cover p b]) (by omega) (by omega)
      refine ⟨arr, ?_, ?_⟩
      · unfold bounceGo
        rw [if_pos hlt, hnext]; exact e1
      · simp only [Spec.Stat.bouncePath, hlt, if_true]
        rw [bsum_append] at e2
        have hcons : bsum p.length (b :: Spec.Stat.bouncePath p f (Spec.Stat.cover p b)) =
            ((p.length : Int) - b) + bsum p.length (Spec.Stat.bouncePath p f (Spec.Stat.cover p b)) := by
          simp [bsum]
        have hsingle : bsum p.length [Spec.Stat.cover p b] = (p.length : Int) - (Spec.Stat.cover p b : Nat) := by
          simp [bsum]
        rw [hcons]
        rw [hsingle] at e2
        by_cases hc : Spec.Stat.cover p b < p.length
        · rw [if_pos hc] at e2; omega
        · rw [if_neg hc] at e2; omega
    · refine ⟨acc, by simp [bounceGo, hlt], ?_⟩
      simp [hlt, Spec.Stat.bouncePath, bsum]

end C11L
