import Mathlib.Data.List.Dedup

namespace C16P.Tree

theorem count_le {γ β : Type} [DecidableEq β] (h : γ → β) (m : Nat) :
    ∀ (hs : List β) (L : List γ), (∀ x ∈ L, h x ∈ hs) →
      (∀ a, (L.filter (fun x => decide (h x = a))).length ≤ m) → L.length ≤ hs.length * m := by
  intro hs
  induction hs with
  | nil =>
    intro L hL _
    cases L with
    | nil => simp
    | cons x L => exact absurd (hL x (by simp)) (by simp)
  | cons a hs ih =>
    intro L hL hc
    have h1 := List.length_eq_length_filter_add (l := L) (fun x => decide (h x = a))
    have h2 := hc a
    have h3 := ih (L.filter (fun x => !decide (h x = a))) ?_ ?_
    · simp only [List.length_cons, Nat.succ_mul] at *
      omega
    · intro x hx
      simp only [List.mem_filter, Bool.not_eq_eq_eq_not, Bool.not_true, decide_eq_false_iff_not] at hx
      have := hL x hx.1
      simp only [List.mem_cons] at this
      rcases this with h | h
      · exact absurd h hx.2
      · exact h
    · intro b
      refine Nat.le_trans ?_ (hc b)
      rw [List.filter_comm]
      exact (List.filter_sublist).length_le

theorem extract (L : List Nat) (hp : L.Pairwise (· < ·)) (m : Nat) (hm : m ≤ L.length) :
    ∃ ι : Nat → Nat, (∀ s t, s < t → t < m → ι s < ι t) ∧ ∀ s, s < m → ι s ∈ L := by
  refine ⟨fun s => L.getD s 0, ?_, ?_⟩
  · intro s t hst htm
    have ht : t < L.length := by omega
    have hs : s < L.length := by omega
    simp only [List.getD_eq_getElem?_getD, List.getElem?_eq_getElem ht, List.getElem?_eq_getElem hs,
      Option.getD_some]
    exact (List.pairwise_iff_getElem.mp hp) s t hs ht hst
  · intro s hs
    have hs' : s < L.length := by omega
    simp only [List.getD_eq_getElem?_getD, List.getElem?_eq_getElem hs', Option.getD_some]
    exact List.getElem_mem hs'


theorem nodup_const_le {γ : Type} (c : γ) : ∀ (L : List γ), L.Nodup → (∀ x ∈ L, x = c) → L.length ≤ 1 := by
  intro L hn hc
  match L, hn, hc with
  | [], _, _ => simp
  | [_], _, _ => simp
  | x :: y :: L, hn, hc =>
    exfalso
    have hx := hc x (by simp)
    have hy := hc y (by simp)
    simp only [List.nodup_cons, List.mem_cons, not_or] at hn
    exact hn.1.1 (hx.trans hy.symm)

theorem tree_list {α : Type} [DecidableEq α] (D : Nat) (hD : 1 ≤ D) : ∀ k, ∃ N, ∀ Fs : List (List α),
    Fs.Nodup → (∀ x ∈ Fs, x.length ≤ k) → N ≤ Fs.length →
    ∃ (s : List α) (q : Nat → α) (rest : Nat → List α),
      (∀ u, u < D → s ++ q u :: rest u ∈ Fs) ∧ (∀ u v, u < v → v < D → q u ≠ q v) := by
  intro k
  induction k with
  | zero =>
    refine ⟨2, ?_⟩
    intro Fs hn hlen hN
    exfalso
    have := nodup_const_le ([] : List α) Fs hn (by
      intro x hx
      have := hlen x hx
      exact List.length_eq_zero_iff.mp (by omega))
    omega
  | succ k ih =>
    obtain ⟨Nk, hNk⟩ := ih
    refine ⟨D * Nk + 2, ?_⟩
    intro Fs hn hlen hN
    -- the nonempty members
    have hsplit := List.length_eq_length_filter_add (l := Fs) (fun x => decide (x = []))
    have hempty : (Fs.filter (fun x => decide (x = []))).length ≤ 1 :=
      nodup_const_le [] _ (hn.filter _) (by
        intro x hx
        simp only [List.mem_filter, decide_eq_true_eq] at hx
        exact hx.2)
    let Fs' := Fs.filter (fun x => !decide (x = []))
    have hFs' : D * Nk + 1 ≤ Fs'.length := by
      show D * Nk + 1 ≤ (Fs.filter (fun x => !decide (x = []))).length
      omega
    have hFs'mem : ∀ x ∈ Fs', x ∈ Fs ∧ x ≠ [] := by
      intro x hx
      simp only [Fs', List.mem_filter, Bool.not_eq_eq_eq_not, Bool.not_true,
        decide_eq_false_iff_not] at hx
      exact hx
    let hs := (Fs'.filterMap List.head?).dedup
    by_cases hcase : D ≤ hs.length
    · -- D distinct heads
      have hpos : 0 < hs.length := by omega
      have hget : ∀ u, u < D → ∃ r, hs.getD u (hs[0]) :: r ∈ Fs := by
        intro u hu
        have hu' : u < hs.length := by omega
        have hmem : hs.getD u (hs[0]) ∈ hs := by
          simp only [List.getD_eq_getElem?_getD, List.getElem?_eq_getElem hu', Option.getD_some]
          exact List.getElem_mem hu'
        simp only [hs, List.mem_dedup, List.mem_filterMap] at hmem
        obtain ⟨x, hx, hxh⟩ := hmem
        cases x with
        | nil => simp at hxh
        | cons a r =>
          simp only [List.head?_cons, Option.some.injEq] at hxh
          exact ⟨r, by rw [← hxh]; exact (hFs'mem _ hx).1⟩
      have hget' : ∀ u, ∃ r, u < D → hs.getD u (hs[0]) :: r ∈ Fs := by
        intro u
        by_cases hu : u < D
        · obtain ⟨r, hr⟩ := hget u hu
          exact ⟨r, fun _ => hr⟩
        · exact ⟨[], fun h => absurd h hu⟩
      choose rest hrest using hget'
      refine ⟨[], fun u => hs.getD u (hs[0]), rest, ?_, ?_⟩
      · intro u hu
        simpa using hrest u hu
      · intro u v huv hv
        have hv' : v < hs.length := by omega
        have hu' : u < hs.length := by omega
        have hnd : hs.Nodup := List.nodup_dedup _
        simp only [List.getD_eq_getElem?_getD, List.getElem?_eq_getElem hu',
          List.getElem?_eq_getElem hv', Option.getD_some]
        intro heq
        have := (List.Nodup.getElem_inj_iff hnd).mp heq
        omega
    · -- few heads: one is shared by many
      have hcase' : hs.length + 1 ≤ D := by omega
      have hex : ∃ a, Nk ≤ (Fs'.filter (fun x => decide (x.head? = some a))).length := by
        by_contra hne
        have hall : ∀ b : Option α, (Fs'.filter (fun x => decide (x.head? = b))).length ≤ Nk := by
          intro b
          cases b with
          | none =>
            have : Fs'.filter (fun x => decide (x.head? = none)) = [] := by
              rw [List.filter_eq_nil_iff]
              intro x hx
              have := (hFs'mem x hx).2
              simpa using this
            rw [this]; simp
          | some a =>
            by_contra hh
            exact hne ⟨a, by omega⟩
        have := count_le (fun x : List α => x.head?) Nk (hs.map some) Fs' (by
          intro x hx
          have hne := (hFs'mem x hx).2
          cases x with
          | nil => exact absurd rfl hne
          | cons a r =>
            simp only [List.head?_cons, List.mem_map, Option.some.injEq, exists_eq_right]
            simp only [hs, List.mem_dedup, List.mem_filterMap]
            exact ⟨a :: r, hx, rfl⟩) hall
        simp only [List.length_map] at this
        have h2 : hs.length * Nk + Nk ≤ D * Nk := by
          calc hs.length * Nk + Nk = (hs.length + 1) * Nk := by rw [Nat.succ_mul]
            _ ≤ D * Nk := Nat.mul_le_mul_right _ hcase'
        omega
      obtain ⟨a, ha⟩ := hex
      let G := Fs'.filter (fun x => decide (x.head? = some a))
      have hGmem : ∀ x ∈ G, x ∈ Fs ∧ ∃ r, x = a :: r := by
        intro x hx
        simp only [G, List.mem_filter, decide_eq_true_eq] at hx
        refine ⟨(hFs'mem x hx.1).1, ?_⟩
        cases x with
        | nil => simp at hx
        | cons b r =>
          simp only [List.head?_cons, Option.some.injEq] at hx
          exact ⟨r, by rw [hx.2]⟩
      have hGn : G.Nodup := (hn.filter _).filter _
      have hTn : (G.map List.tail).Nodup := by
        apply List.Nodup.map_on _ hGn
        intro x hx y hy hxy
        obtain ⟨_, r, rfl⟩ := hGmem x hx
        obtain ⟨_, r', rfl⟩ := hGmem y hy
        simp only [List.tail_cons] at hxy
        rw [hxy]
      obtain ⟨s, q, rest, h1, h2⟩ := hNk (G.map List.tail) hTn (by
        intro t ht
        simp only [List.mem_map] at ht
        obtain ⟨x, hx, rfl⟩ := ht
        obtain ⟨hxF, r, rfl⟩ := hGmem x hx
        have := hlen _ hxF
        simp only [List.length_cons, List.tail_cons] at *
        omega) (by simpa using ha)
      refine ⟨a :: s, q, rest, ?_, h2⟩
      intro u hu
      have := h1 u hu
      simp only [List.mem_map] at this
      obtain ⟨x, hx, hxt⟩ := this
      obtain ⟨hxF, r, rfl⟩ := hGmem x hx
      simp only [List.tail_cons] at hxt
      rw [List.cons_append, ← hxt]
      exact hxF

end C16P.Tree

namespace C16P

/-- finite pigeonhole, function form: among `D = C * m + 1` items coloured with `< C` colours, `m` have one colour -/
theorem pigeonhole_fn (C m : Nat) : ∃ D, ∀ c : Nat → Nat, (∀ u, u < D → c u < C) →
    ∃ (ι : Nat → Nat) (cl : Nat), (∀ s t, s < t → t < m → ι s < ι t) ∧ (∀ s, s < m → ι s < D) ∧
      ∀ s, s < m → c (ι s) = cl := by
  refine ⟨C * m + 1, ?_⟩
  intro c hc
  by_cases hex : ∃ cl, m ≤ ((List.range (C * m + 1)).filter (fun x => decide (c x = cl))).length
  · obtain ⟨cl, hcl⟩ := hex
    obtain ⟨ι, h1, h2⟩ := Tree.extract _ (List.pairwise_lt_range.filter _) m hcl
    refine ⟨ι, cl, h1, ?_, ?_⟩
    · intro s hs
      have := h2 s hs
      simp only [List.mem_filter, List.mem_range] at this
      exact this.1
    · intro s hs
      have := h2 s hs
      simp only [List.mem_filter, List.mem_range, decide_eq_true_eq] at this
      exact this.2
  · exfalso
    have hall : ∀ a, ((List.range (C * m + 1)).filter (fun x => decide (c x = a))).length ≤ m := by
      intro a
      by_contra hh
      exact hex ⟨a, by omega⟩
    have := Tree.count_le c m (List.range C) (List.range (C * m + 1))
      (by intro x hx; simp only [List.mem_range] at *; exact hc x hx) hall
    simp only [List.length_range] at this
    omega


/-- a large family of pairwise distinct short lists has a node of large branching: a common prefix `s` and
    `D` members `s ++ q u :: rest u` with pairwise distinct next letters `q u` -/
theorem tree_branch {α : Type} [DecidableEq α] (k D : Nat) : ∃ N, ∀ F : Nat → List α,
    (∀ i, i < N → (F i).length ≤ k) → (∀ i j, i < j → j < N → F i ≠ F j) →
    ∃ (s : List α) (ι : Nat → Nat) (q : Nat → α) (rest : Nat → List α),
      (∀ u, u < D → ι u < N ∧ F (ι u) = s ++ q u :: rest u) ∧ (∀ u v, u < v → v < D → q u ≠ q v) := by
  obtain ⟨N, hN⟩ := Tree.tree_list (α := α) (max D 1) (by omega) k
  refine ⟨N, ?_⟩
  intro F hlen hdist
  have hnd : ((List.range N).map F).Nodup := by
    apply List.Nodup.map_on _ List.nodup_range
    intro i hi j hj hij
    simp only [List.mem_range] at hi hj
    rcases Nat.lt_trichotomy i j with h | h | h
    · exact absurd hij (hdist i j h hj)
    · exact h
    · exact absurd hij.symm (hdist j i h hi)
  obtain ⟨s, q, rest, h1, h2⟩ := hN ((List.range N).map F) hnd (by
    intro x hx
    simp only [List.mem_map, List.mem_range] at hx
    obtain ⟨i, hi, rfl⟩ := hx
    exact hlen i hi) (by simp)
  have hι : ∀ u, ∃ i, u < D → i < N ∧ F i = s ++ q u :: rest u := by
    intro u
    by_cases hu : u < D
    · have := h1 u (by omega)
      simp only [List.mem_map, List.mem_range] at this
      obtain ⟨i, hi, hFi⟩ := this
      exact ⟨i, fun _ => ⟨hi, hFi⟩⟩
    · exact ⟨0, fun h => absurd h hu⟩
  choose ι hι' using hι
  exact ⟨s, ι, q, rest, hι', fun u v huv hv => h2 u v huv (by omega)⟩

end C16P

