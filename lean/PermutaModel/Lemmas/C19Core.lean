import PermutaModel.Lemmas.C19Contain

/-! C19 helper lemmas, part 2: error-freeness of the shape helpers on permutations of length ≥ 2,
    the `all` / `next(...)` loops, symmetric images. -/
open Model.C13 Model.C19
open Proto (Err)

namespace C19
open C13 (idxOf_lt_of_isPerm mem_of_isPerm rotate_one_nodup length_inverse)

/-! ### images of permutations are permutations -/

theorem isPerm_inverse {p : NSeq} (hp : IsPerm p) : IsPerm (Model.inverse p) := by
  refine ⟨?_, ?_⟩
  · unfold Model.inverse
    refine List.Nodup.map_on ?_ List.nodup_range
    intro x hx y hy hxy
    exact (List.idxOf_inj (mem_of_isPerm hp (List.mem_range.mp hx))).mp hxy
  · intro x hx
    rw [length_inverse]
    unfold Model.inverse at hx
    obtain ⟨v, hv, rfl⟩ := List.mem_map.mp hx
    exact idxOf_lt_of_isPerm hp (List.mem_range.mp hv)

theorem length_rotate_one (p : NSeq) : (Model.rotate p 1).length = p.length := by
  simp [Model.rotate, Model.rotate1]

theorem isPerm_rotate_one {p : NSeq} (hp : IsPerm p) : IsPerm (Model.rotate p 1) := by
  refine ⟨rotate_one_nodup hp, ?_⟩
  intro x hx
  rw [length_rotate_one]
  have : Model.rotate p 1 = Model.rotate1 p := by simp [Model.rotate]
  rw [this] at hx
  unfold Model.rotate1 at hx
  obtain ⟨v, hv, rfl⟩ := List.mem_map.mp hx
  have := List.mem_range.mp hv
  omega

/-- a basis element the strategies can handle: a non-empty permutation -/
def Good (q : NSeq) : Prop := IsPerm q ∧ 1 ≤ q.length

theorem good_inverse {q : NSeq} (h : Good q) : Good (Model.inverse q) :=
  ⟨isPerm_inverse h.1, by rw [length_inverse]; exact h.2⟩

theorem good_rotate {q : NSeq} (h : Good q) : Good (Model.rotate q 1) :=
  ⟨isPerm_rotate_one h.1, by rw [length_rotate_one]; exact h.2⟩

theorem good_map_inverse {b : List NSeq} (h : ∀ q ∈ b, Good q) : ∀ q ∈ b.map Model.inverse, Good q := by
  intro q hq; obtain ⟨r, hr, rfl⟩ := List.mem_map.mp hq; exact good_inverse (h r hr)

theorem good_map_rotate {b : List NSeq} (h : ∀ q ∈ b, Good q) : ∀ q ∈ b.map (Model.rotate · 1), Good q := by
  intro q hq; obtain ⟨r, hr, rfl⟩ := List.mem_map.mp hq; exact good_rotate (h r hr)

theorem good_symSets {B : List NSeq} (h : ∀ q ∈ B, Good q) : ∀ b ∈ symSets B, ∀ q ∈ b, Good q := by
  have r1 := good_map_rotate h
  have r2 := good_map_rotate r1
  have r3 := good_map_rotate r2
  intro b hb
  simp only [symSets, List.mem_cons, List.not_mem_nil, or_false] at hb
  rcases hb with rfl | rfl | rfl | rfl | rfl | rfl | rfl | rfl
  · exact h
  · exact good_map_inverse h
  · exact r1
  · exact good_map_inverse r1
  · exact r2
  · exact good_map_inverse r2
  · exact r3
  · exact good_map_inverse r3

/-- the eight images of two lists with the same elements have the same elements, image by image -/
theorem symSets_mem_congr {B B' : List NSeq} (h : ∀ p, p ∈ B ↔ p ∈ B') :
    List.Forall₂ (fun b b' => ∀ p, p ∈ b ↔ p ∈ b') (symSets B) (symSets B') := by
  have map_congr : ∀ (f : NSeq → NSeq) {b b' : List NSeq}, (∀ p, p ∈ b ↔ p ∈ b') →
      ∀ p, p ∈ b.map f ↔ p ∈ b'.map f := by
    intro f b b' hb p
    simp only [List.mem_map]
    exact exists_congr fun q => and_congr_left fun _ => hb q
  have r1 := map_congr (Model.rotate · 1) h
  have r2 := map_congr (Model.rotate · 1) r1
  have r3 := map_congr (Model.rotate · 1) r2
  unfold symSets
  exact .cons h (.cons (map_congr _ h) (.cons r1 (.cons (map_congr _ r1) (.cons r2 (.cons (map_congr _ r2)
    (.cons r3 (.cons (map_congr _ r3) .nil)))))))

/-! ### the shape helpers do not raise on permutations of length ≥ 2 -/

theorem isEmpty_false {q : NSeq} (h : q ≠ []) : ¬ q.isEmpty = true := by
  cases q with
  | nil => exact absurd rfl h
  | cons a t => simp

theorem fstrip_ok {q : NSeq} (h : q ≠ []) : ∃ r, fstrip q = .ok r ∧ (2 ≤ q.length → r ≠ []) := by
  by_cases ha : q.headD 0 = 0
  · refine ⟨q.tail.map (· - 1), ?_, ?_⟩
    · unfold fstrip; rw [if_neg (isEmpty_false h), if_pos ha]
    · intro hl
      cases q with
      | nil => simp at hl
      | cons a t =>
        cases t with
        | nil => simp at hl
        | cons b t' => simp
  · refine ⟨q, ?_, fun _ => h⟩
    unfold fstrip; rw [if_neg (isEmpty_false h), if_neg ha]

theorem bstrip_ok {q : NSeq} (h : q ≠ []) : ∃ r, bstrip q = .ok r ∧ (2 ≤ q.length → r ≠ []) := by
  by_cases ha : q.getLastD 0 = q.length - 1
  · refine ⟨q.dropLast, ?_, ?_⟩
    · unfold bstrip; rw [if_neg (isEmpty_false h), if_pos ha]
    · intro hl he
      have := congrArg List.length he
      simp at this
      omega
  · refine ⟨q, ?_, fun _ => h⟩
    unfold bstrip; rw [if_neg (isEmpty_false h), if_neg ha]

theorem zeroPlusSkewind_ok {q : NSeq} (h : q ≠ []) : ∃ v, zeroPlusSkewind q = .ok v := by
  obtain ⟨r, hr, _⟩ := fstrip_ok h
  unfold zeroPlusSkewind
  rw [if_neg (isEmpty_false h)]
  by_cases h0 : q.headD 0 = 0
  · rw [if_pos h0, hr]; exact ⟨_, rfl⟩
  · rw [if_neg h0]; exact ⟨_, rfl⟩

theorem zeroPlusSumind_ok {q : NSeq} (h : q ≠ []) : ∃ v, zeroPlusSumind q = .ok v := by
  obtain ⟨r, hr, _⟩ := fstrip_ok h
  unfold zeroPlusSumind
  rw [if_neg (isEmpty_false h)]
  by_cases h0 : q.headD 0 = 0
  · rw [if_pos h0, hr]; exact ⟨_, rfl⟩
  · rw [if_neg h0]; exact ⟨_, rfl⟩

theorem zeroPlusPerm_ok {q : NSeq} (h : q ≠ []) : ∃ v, zeroPlusPerm q = .ok v := by
  unfold zeroPlusPerm
  rw [if_neg (isEmpty_false h)]; exact ⟨_, rfl⟩

theorem zeroPlusSumind_total (q : NSeq) : ∃ v, zeroPlusSumind q = .ok v := by
  by_cases h : q = []
  · subst h; exact ⟨false, rfl⟩
  · exact zeroPlusSumind_ok h

theorem sumindBstrip_ok {q : NSeq} (h : q ≠ []) : ∃ v, sumindBstrip q = .ok v := by
  obtain ⟨r, hr, _⟩ := bstrip_ok h
  obtain ⟨v, hv⟩ := zeroPlusSumind_total r
  exact ⟨v, by simp [sumindBstrip, hr, hv]⟩

theorem lastSumComponent_ok (q : NSeq) : ∃ r, lastSumComponent q = .ok r := by
  unfold lastSumComponent
  by_cases h : q.isEmpty = true
  · rw [if_pos h]; exact ⟨_, rfl⟩
  · rw [if_neg h]; exact ⟨_, rfl⟩

theorem lastSkewComponent_ok (q : NSeq) : ∃ r, lastSkewComponent q = .ok r := by
  unfold lastSkewComponent
  by_cases h : q.isEmpty = true
  · rw [if_pos h]; exact ⟨_, rfl⟩
  · rw [if_neg h]; exact ⟨_, rfl⟩

/-- **no exception** from `is_valid_extension` on non-empty permutations -/
theorem valid_ok (s : Strat) {q : NSeq} (h : 1 ≤ q.length) : ∃ v, s.valid q = .ok v := by
  have hne : q ≠ [] := by intro e; subst e; simp at h
  cases s
  · exact zeroPlusSkewind_ok hne
  · exact zeroPlusSumind_ok hne
  · exact zeroPlusPerm_ok hne
  · exact zeroPlusSkewind_ok hne
  · exact sumindBstrip_ok hne
  · obtain ⟨v, hv⟩ := zeroPlusSkewind_ok hne
    obtain ⟨w, hw⟩ := sumindBstrip_ok hne
    cases v <;> simp [Strat.valid, hv, hw]
  · obtain ⟨r, hr, _⟩ := fstrip_ok hne
    obtain ⟨lc, hlc⟩ := lastSumComponent_ok r
    simp [Strat.valid, validRd2134, hr, hlc]
  · obtain ⟨r, hr, _⟩ := fstrip_ok hne
    obtain ⟨lc, hlc⟩ := lastSkewComponent_ok r
    simp only [Strat.valid, validRu2143]
    rw [if_neg (isEmpty_false hne)]
    by_cases h0 : q.headD 0 ≠ 0
    · rw [if_pos h0]; exact ⟨_, rfl⟩
    · rw [if_neg h0]
      by_cases hm : Model.containsMesh r ⟨[0, 1], mShading⟩ = true <;> simp [hr, hlc, hm]

/-! ### the loops -/

theorem allValid_true_iff (valid : NSeq → Except Err Bool) : ∀ l : List NSeq,
    allValid valid l = .ok true ↔ ∀ q ∈ l, valid q = .ok true
  | [] => by simp [allValid]
  | p :: rest => by
    rw [allValid]
    cases hv : valid p with
    | error e => simp [hv]
    | ok v =>
      cases v with
      | false => simp [hv]
      | true => simp [hv, allValid_true_iff valid rest]

theorem allValid_ok (valid : NSeq → Except Err Bool) : ∀ l : List NSeq,
    (∀ q ∈ l, ∃ v, valid q = .ok v) → ∃ v, allValid valid l = .ok v
  | [], _ => ⟨true, rfl⟩
  | p :: rest, h => by
    obtain ⟨v, hv⟩ := h p (List.mem_cons_self ..)
    rw [allValid, hv]
    cases v with
    | false => exact ⟨false, rfl⟩
    | true => exact allValid_ok valid rest fun q hq => h q (List.mem_cons_of_mem _ hq)

theorem anySym_ok (f : List NSeq → Except Err Bool) : ∀ l : List (List NSeq),
    (∀ b ∈ l, ∃ v, f b = .ok v) → ∃ v, anySym f l = .ok v ∧ (v = true ↔ ∃ b ∈ l, f b = .ok true)
  | [], _ => ⟨false, rfl, by simp⟩
  | b :: rest, h => by
    obtain ⟨v, hv⟩ := h b (List.mem_cons_self ..)
    rw [anySym, hv]
    cases v with
    | true => exact ⟨true, rfl, by simp [hv]⟩
    | false =>
      obtain ⟨w, hw, hiff⟩ := anySym_ok f rest fun b' hb' => h b' (List.mem_cons_of_mem _ hb')
      refine ⟨w, hw, ?_⟩
      rw [hiff]
      simp [hv]

/-- `anySym` only looks at its list through a relation that preserves `f` -/
theorem anySym_congr (f : List NSeq → Except Err Bool) {l l' : List (List NSeq)}
    (h : List.Forall₂ (fun b b' => f b = f b') l l') : anySym f l = anySym f l' := by
  induction h with
  | nil => rfl
  | cons hb _ ih => rw [anySym, anySym, hb, ih]

end C19
