import PermutaModel.Model.C09Repr
/-! Helper lemmas for C09: reading `repr` texts (`Model/C09Repr.lean`).  Core only. -/
open Model

namespace C09

/-! ## decimal numerals -/

theorem natChars_isDigit (n : Nat) : ∀ c ∈ natChars n, c.isDigit = true :=
  fun _ hc => Nat.isDigit_of_mem_toDigits (by decide) (by decide) hc

theorem natChars_ne_nil (n : Nat) : natChars n ≠ [] := Nat.toDigits_ne_nil

theorem natChars_head_ne_zero (n : Nat) (h : 0 < n) : (natChars n).head? ≠ some '0' := by
  induction n using Nat.strongRecOn with
  | _ n ih =>
    unfold natChars
    rw [Nat.toDigits_eq_if (by decide)]
    split
    · simp; omega
    · have h2 := ih (n / 10) (by omega) (by omega)
      unfold natChars at h2
      cases h : Nat.toDigits 10 (n / 10) with
      | nil => exact absurd h Nat.toDigits_ne_nil
      | cons d ds => rw [h] at h2; simpa using h2

theorem natChars_no_leading_zero (n : Nat) : ¬ ((natChars n).head? = some '0' ∧ 1 < (natChars n).length) := by
  rintro ⟨h1, h2⟩
  by_cases hn : n < 10
  · unfold natChars at h2
    rw [Nat.toDigits_of_lt_base hn] at h2
    simp at h2
  · exact natChars_head_ne_zero n (by omega) h1

/-- the first character of a numeral is a digit -/
theorem natChars_cons (n : Nat) : ∃ d ds, natChars n = d :: ds ∧ d.isDigit = true := by
  cases h : natChars n with
  | nil => exact absurd h (natChars_ne_nil n)
  | cons d ds => exact ⟨d, ds, rfl, natChars_isDigit n d (by rw [h]; simp)⟩

/-- `rest` does not continue a numeral -/
def NoDigitHead (rest : List Char) : Prop := ∀ c, rest.head? = some c → c.isDigit = false

theorem noDigitHead_nil : NoDigitHead [] := by intro c h; simp at h

theorem noDigitHead_cons (c : Char) (t : List Char) (h : c.isDigit = false) : NoDigitHead (c :: t) := by
  intro d hd; simp at hd; subst hd; exact h

theorem takeWhile_noDigitHead (rest : List Char) (h : NoDigitHead rest) : rest.takeWhile Char.isDigit = [] := by
  cases rest with
  | nil => rfl
  | cons c t => simp [h c rfl]

theorem dropWhile_noDigitHead (rest : List Char) (h : NoDigitHead rest) : rest.dropWhile Char.isDigit = rest := by
  cases rest with
  | nil => rfl
  | cons c t => simp [h c rfl]

/-- **numerals are read back**: `readNat (str(n) ++ rest) = (n, rest)` whenever `rest` does not start with a digit -/
theorem readNat_natChars (n : Nat) (rest : List Char) (hr : NoDigitHead rest) :
    readNat (natChars n ++ rest) = some (n, rest) := by
  have h1 : (natChars n ++ rest).takeWhile Char.isDigit = natChars n := by
    rw [List.takeWhile_append_of_pos (natChars_isDigit n), takeWhile_noDigitHead rest hr, List.append_nil]
  have h2 : (natChars n ++ rest).dropWhile Char.isDigit = rest := by
    rw [List.dropWhile_append_of_pos (natChars_isDigit n), dropWhile_noDigitHead rest hr]
  unfold readNat
  rw [h1, h2, if_neg (natChars_ne_nil n), if_neg (natChars_no_leading_zero n)]
  unfold natChars
  rw [Nat.ofDigitChars_ten_toDigits]

/-! ## tuples -/

/-- the text after the first entry: `, a, b, c` -/
def itemsChars (t : List Nat) : List Char := t.flatMap fun i => ',' :: ' ' :: natChars i

theorem noDigitHead_items (t : List Nat) (c : Char) (rest : List Char) (hc : c.isDigit = false) :
    NoDigitHead (itemsChars t ++ c :: rest) := by
  cases t with
  | nil => exact noDigitHead_cons c rest hc
  | cons a t => exact noDigitHead_cons _ _ (by decide)

theorem readItems_items : ∀ (t : List Nat) (fuel : Nat) (rest : List Char), t.length < fuel →
    readItems fuel (itemsChars t ++ ')' :: rest) = some (t, rest)
  | [], fuel + 1, rest, _ => by simp [itemsChars, readItems]
  | a :: t, fuel + 1, rest, h => by
    have e : itemsChars (a :: t) ++ ')' :: rest = ',' :: ' ' :: (natChars a ++ (itemsChars t ++ ')' :: rest)) := by
      simp [itemsChars]
    rw [e, readItems, readNat_natChars a _ (noDigitHead_items t ')' rest (by decide))]
    simp only
    rw [readItems_items t fuel rest (by simp at h; omega)]

theorem length_itemsChars (t : List Nat) : t.length ≤ (itemsChars t).length := by
  induction t with
  | nil => simp [itemsChars]
  | cons a t ih => simp [itemsChars] at ih ⊢; omega

theorem readTuple_digit (d : Char) (ds : List Char) (hd : d.isDigit = true) :
    readTuple ('(' :: d :: ds) =
      match readNat (d :: ds) with
      | none => none
      | some (n, r) => readTupleRest n r := by
  have hne : d ≠ ')' := by rintro rfl; simp at hd
  unfold readTuple
  split
  · next heq => injection heq with _ h2; injection h2 with h3 _; exact absurd h3 hne
  · next heq => injection heq with _ h2; subst h2; rfl
  · next h1 h2 => exact absurd rfl (h2 _)

/-- **tuple displays are read back** -/
theorem readTuple_tupleRepr (s : NSeq) (rest : List Char) :
    readTuple (tupleReprChars s ++ rest) = some (s, rest) := by
  match s with
  | [] => rfl
  | [a] =>
    obtain ⟨d, ds, hd, hdig⟩ := natChars_cons a
    have e : tupleReprChars [a] ++ rest = '(' :: (natChars a ++ ',' :: ')' :: rest) := by simp [tupleReprChars]
    rw [e]
    have e2 : natChars a ++ ',' :: ')' :: rest = d :: (ds ++ ',' :: ')' :: rest) := by rw [hd]; rfl
    rw [e2, readTuple_digit d _ hdig, ← e2, readNat_natChars a _ (noDigitHead_cons _ _ (by decide))]
    rfl
  | a :: b :: t =>
    obtain ⟨d, ds, hd, hdig⟩ := natChars_cons a
    have e : tupleReprChars (a :: b :: t) ++ rest = '(' :: (natChars a ++ (itemsChars (b :: t) ++ ')' :: rest)) := by
      simp [tupleReprChars, itemsChars]
    rw [e]
    have e2 : natChars a ++ (itemsChars (b :: t) ++ ')' :: rest)
        = d :: (ds ++ (itemsChars (b :: t) ++ ')' :: rest)) := by rw [hd]; rfl
    rw [e2, readTuple_digit d _ hdig, ← e2, readNat_natChars a _ (noDigitHead_items (b :: t) ')' rest (by decide))]
    simp only
    have e3 : itemsChars (b :: t) ++ ')' :: rest = ',' :: ' ' :: (natChars b ++ (itemsChars t ++ ')' :: rest)) := by
      simp [itemsChars]
    have hr := readItems_items (b :: t) ((itemsChars (b :: t) ++ ')' :: rest).length + 1) rest
      (by have := length_itemsChars (b :: t); simp at this ⊢; omega)
    unfold readTupleRest
    rw [hr]
    rw [e3]
    rfl

theorem readPerm_reprChars (s : NSeq) (rest : List Char) : readPerm (reprChars s ++ rest) = some (s, rest) := by
  have e : reprChars s ++ rest = 'P' :: 'e' :: 'r' :: 'm' :: '(' :: (tupleReprChars s ++ (')' :: rest)) := by
    simp [reprChars]
  rw [e, readPerm, readTuple_tupleRepr]
  rfl

theorem parseReprChars_reprChars (s : NSeq) : parseReprChars (reprChars s) = some s := by
  have h := readPerm_reprChars s []
  rw [List.append_nil] at h
  unfold parseReprChars
  rw [h]

/-! ## lists of pairs, mesh patterns -/

theorem readPair_pairRepr (c : Cell) (rest : List Char) : readPair (pairReprChars c ++ rest) = some (c, rest) := by
  have e : pairReprChars c ++ rest = '(' :: (natChars c.1 ++ ',' :: ' ' :: (natChars c.2 ++ ')' :: rest)) := by
    simp [pairReprChars]
  rw [e, readPair, readNat_natChars c.1 _ (noDigitHead_cons _ _ (by decide))]
  simp only
  rw [readNat_natChars c.2 _ (noDigitHead_cons _ _ (by decide))]
  rfl

/-- the text after the first pair: `, (a, b), (c, d)` -/
def pairsChars (t : List Cell) : List Char := t.flatMap fun d => ',' :: ' ' :: pairReprChars d

theorem readPairs_pairs : ∀ (t : List Cell) (fuel : Nat) (rest : List Char), t.length < fuel →
    readPairs fuel (pairsChars t ++ ']' :: rest) = some (t, rest)
  | [], fuel + 1, rest, _ => by simp [pairsChars, readPairs]
  | a :: t, fuel + 1, rest, h => by
    have e : pairsChars (a :: t) ++ ']' :: rest = ',' :: ' ' :: (pairReprChars a ++ (pairsChars t ++ ']' :: rest)) := by
      simp [pairsChars]
    rw [e, readPairs, readPair_pairRepr]
    simp only
    rw [readPairs_pairs t fuel rest (by simp at h; omega)]

theorem length_pairsChars (t : List Cell) : t.length ≤ (pairsChars t).length := by
  induction t with
  | nil => simp [pairsChars]
  | cons a t ih => simp [pairsChars] at ih ⊢; omega

theorem readCells_open (x : List Char) :
    readCells ('[' :: '(' :: x) =
      match readPair ('(' :: x) with
      | none => none
      | some (c, r) =>
        match readPairs (r.length + 1) r with
        | none => none
        | some (cs, r') => some (c :: cs, r') := by
  unfold readCells
  split
  · next heq => injection heq with _ h2; injection h2 with h3 _; exact absurd h3 (by decide)
  · next heq => injection heq with _ h2; subst h2; rfl
  · next h1 h2 => exact absurd rfl (h2 _)

/-- **list displays of pairs are read back** -/
theorem readCells_cellsRepr (cs : List Cell) (rest : List Char) :
    readCells (cellsReprChars cs ++ rest) = some (cs, rest) := by
  match cs with
  | [] => rfl
  | c :: t =>
    have e : cellsReprChars (c :: t) ++ rest = '[' :: '(' :: (natChars c.1 ++ ',' :: ' ' :: (natChars c.2 ++ ')' ::
        (pairsChars t ++ ']' :: rest))) := by
      simp [cellsReprChars, pairReprChars, pairsChars]
    have e2 : '(' :: (natChars c.1 ++ ',' :: ' ' :: (natChars c.2 ++ ')' :: (pairsChars t ++ ']' :: rest)))
        = pairReprChars c ++ (pairsChars t ++ ']' :: rest) := by simp [pairReprChars]
    rw [e, readCells_open, e2, readPair_pairRepr]
    simp only
    rw [readPairs_pairs t _ rest (by have := length_pairsChars t; simp; omega)]

theorem parseMeshReprChars_raw (p : NSeq) (cs : List Cell) :
    parseMeshReprChars ("MeshPatt(".toList ++ reprChars p ++ ',' :: ' ' :: cellsReprChars cs ++ [')']) = some ⟨p, cs⟩ := by
  have e : "MeshPatt(".toList ++ reprChars p ++ ',' :: ' ' :: cellsReprChars cs ++ [')']
      = 'M' :: 'e' :: 's' :: 'h' :: 'P' :: 'a' :: 't' :: 't' :: '(' ::
          (reprChars p ++ ',' :: ' ' :: (cellsReprChars cs ++ [')'])) := by simp
  rw [e, parseMeshReprChars, readPerm_reprChars]
  simp only
  rw [readCells_cellsRepr]
  rfl

theorem mem_cellInsert (c d : Cell) (l : List Cell) : d ∈ cellInsert c l ↔ d = c ∨ d ∈ l := by
  induction l with
  | nil => simp [cellInsert]
  | cons e t ih =>
    unfold cellInsert
    split
    · simp
    · simp [ih, or_left_comm]

theorem mem_cellSort (d : Cell) (l : List Cell) : d ∈ cellSort l ↔ d ∈ l := by
  induction l with
  | nil => simp [cellSort]
  | cons c t ih => simp [cellSort, mem_cellInsert, ih]

theorem length_cellInsert (c : Cell) (l : List Cell) : (cellInsert c l).length = l.length + 1 := by
  induction l with
  | nil => rfl
  | cons e t ih => unfold cellInsert; split <;> simp [ih]

theorem length_cellSort (l : List Cell) : (cellSort l).length = l.length := by
  induction l with
  | nil => rfl
  | cons c t ih => simp [cellSort, length_cellInsert, ih]

/-- a list that is already in increasing order is left alone -/
theorem cellSort_sorted : ∀ (l : List Cell), l.Pairwise (fun a b => cellLe' a b = true) → cellSort l = l
  | [], _ => rfl
  | [c], _ => rfl
  | c :: d :: t, h => by
    have ht := cellSort_sorted (d :: t) (List.Pairwise.of_cons h)
    rw [cellSort, ht, cellInsert, if_pos ((List.pairwise_cons.mp h).1 d (by simp))]

/-! ## the parser accepts only what `repr` writes -/

theorem digitChar_ofNat : ∀ k, k < 10 → Nat.digitChar k = Char.ofNat (48 + k) := by decide

theorem digitChar_of_isDigit (c : Char) (h : c.isDigit = true) : Nat.digitChar (c.toNat - 48) = c := by
  have h' : 48 ≤ c.toNat ∧ c.toNat ≤ 57 := by
    simp only [Char.isDigit, Bool.and_eq_true, decide_eq_true_eq] at h
    exact ⟨by have := h.1; exact this, by have := h.2; exact this⟩
  rw [digitChar_ofNat _ (by omega)]
  have : 48 + (c.toNat - 48) = c.toNat := by omega
  rw [this, Char.ofNat_toNat]

theorem toDigits_ofDigitChars_pos : ∀ (cs : List Char) (init : Nat), 0 < init → (∀ c ∈ cs, c.isDigit = true) →
    Nat.toDigits 10 (Nat.ofDigitChars 10 cs init) = Nat.toDigits 10 init ++ cs
  | [], init, _, _ => by simp
  | c :: cs, init, h0, hd => by
    have hc := hd c (by simp)
    have hv : c.toNat - 48 < 10 := by
      simp only [Char.isDigit, Bool.and_eq_true, decide_eq_true_eq] at hc
      have := hc.2
      have h57 : c.toNat ≤ 57 := this
      omega
    rw [Nat.ofDigitChars_cons]
    have e48 : '0'.toNat = 48 := rfl
    rw [e48, toDigits_ofDigitChars_pos cs _ (by omega) (fun x hx => hd x (by simp [hx])),
      ← Nat.toDigits_append_toDigits (by decide) h0 hv, Nat.toDigits_of_lt_base hv, digitChar_of_isDigit c hc]
    simp

/-- a digit string without superfluous leading zero is the decimal text of its value -/
theorem natChars_ofDigitChars (ds : List Char) (hd : ∀ c ∈ ds, c.isDigit = true) (hne : ds ≠ [])
    (hz : ¬ (ds.head? = some '0' ∧ 1 < ds.length)) : natChars (Nat.ofDigitChars 10 ds 0) = ds := by
  unfold natChars
  match ds, hne with
  | c :: cs, _ =>
    have hc := hd c (by simp)
    by_cases h0 : c = '0'
    · subst h0
      have : cs = [] := by
        cases cs with
        | nil => rfl
        | cons x t => exact absurd ⟨rfl, by simp⟩ hz
      subst this
      decide
    · have hv : c.toNat - 48 < 10 := by
        simp only [Char.isDigit, Bool.and_eq_true, decide_eq_true_eq] at hc
        have h57 : c.toNat ≤ 57 := hc.2
        omega
      have hpos : 0 < c.toNat - 48 := by
        rcases Nat.eq_zero_or_pos (c.toNat - 48) with h | h
        · have := digitChar_of_isDigit c hc
          rw [h] at this
          exact absurd this.symm h0
        · exact h
      rw [Nat.ofDigitChars_cons]
      have e48 : '0'.toNat = 48 := rfl
      rw [e48, Nat.mul_zero, Nat.zero_add,
        toDigits_ofDigitChars_pos cs _ hpos (fun x hx => hd x (by simp [hx])),
        Nat.toDigits_of_lt_base hv, digitChar_of_isDigit c hc]
      rfl

theorem of_mem_takeWhile {α} (p : α → Bool) : ∀ (l : List α) (c : α), c ∈ l.takeWhile p → p c = true
  | [], _, h => by simp at h
  | a :: t, c, h => by
    rw [List.takeWhile_cons] at h
    split at h
    · next hp =>
      rcases List.mem_cons.mp h with rfl | h'
      · exact hp
      · exact of_mem_takeWhile p t c h'
    · simp at h

theorem readNat_some (s : List Char) (n : Nat) (r : List Char) (h : readNat s = some (n, r)) :
    s = natChars n ++ r := by
  unfold readNat at h
  split at h
  · cases h
  · split at h
    · cases h
    · next h1 h2 =>
      injection h with h
      injection h with hn hr
      rw [← hn, ← hr, natChars_ofDigitChars _ (fun c hc => of_mem_takeWhile _ _ c hc) h1 h2,
        List.takeWhile_append_dropWhile]

theorem readItems_some : ∀ (fuel : Nat) (s : List Char) (ns : List Nat) (r : List Char),
    readItems fuel s = some (ns, r) → s = itemsChars ns ++ ')' :: r := by
  intro fuel s
  fun_induction readItems fuel s with
  | case1 => intro ns r h; cases h
  | case2 fuel rest => intro ns r h; cases h; simp [itemsChars]
  | case3 fuel rest hn => intro ns r h; cases h
  | case4 fuel rest n rest' hn hi ih => intro ns r h; cases h
  | case5 fuel rest n rest' hn ns' r' hi ih =>
    intro ns r h
    cases h
    rw [readNat_some _ _ _ hn, ih _ _ hi]
    simp [itemsChars]
  | case6 => intro ns r h; cases h

theorem readTupleRest_some (n : Nat) (r : List Char) (ns : List Nat) (r' : List Char)
    (h : readTupleRest n r = some (ns, r')) : '(' :: (natChars n ++ r) = tupleReprChars ns ++ r' := by
  unfold readTupleRest at h
  split at h
  · cases h; simp [tupleReprChars]
  · split at h
    · cases h
    · cases h
    · next hne ms r'' hnil hi =>
      cases h
      have e := readItems_some _ _ _ _ hi
      cases ms with
      | nil => exact (hnil rfl).elim
      | cons b t => rw [e]; simp [tupleReprChars, itemsChars]

theorem readTuple_some (s : List Char) (ns : List Nat) (r : List Char) (h : readTuple s = some (ns, r)) :
    s = tupleReprChars ns ++ r := by
  unfold readTuple at h
  split at h
  · cases h; rfl
  · split at h
    · cases h
    · next n r0 hn => rw [readNat_some _ _ _ hn]; exact readTupleRest_some _ _ _ _ h
  · cases h

theorem readPerm_some (s : List Char) (ns : NSeq) (r : List Char) (h : readPerm s = some (ns, r)) :
    s = reprChars ns ++ r := by
  unfold readPerm at h
  split at h
  · split at h
    · next ms r0 ht => cases h; rw [readTuple_some _ _ _ ht]; simp [reprChars]
    · cases h
  · cases h

theorem parseReprChars_some (s : List Char) (ns : NSeq) (h : parseReprChars s = some ns) : s = reprChars ns := by
  unfold parseReprChars at h
  split at h
  · next ms hp => cases h; simpa using readPerm_some _ _ _ hp
  · cases h

theorem readPair_some (s : List Char) (c : Cell) (r : List Char) (h : readPair s = some (c, r)) :
    s = pairReprChars c ++ r := by
  unfold readPair at h
  split at h
  · split at h
    · next x r0 hx =>
      split at h
      · next y r1 hy =>
        cases h
        have e1 := readNat_some _ _ _ hx
        have e2 := readNat_some _ _ _ hy
        rw [e1, e2]; simp [pairReprChars]
      · cases h
    · cases h
  · cases h

theorem readPairs_some : ∀ (fuel : Nat) (s : List Char) (cs : List Cell) (r : List Char),
    readPairs fuel s = some (cs, r) → s = pairsChars cs ++ ']' :: r := by
  intro fuel s
  fun_induction readPairs fuel s with
  | case1 => intro cs r h; cases h
  | case2 fuel rest => intro cs r h; cases h; simp [pairsChars]
  | case3 fuel rest hn => intro cs r h; cases h
  | case4 fuel rest c rest' hn hi ih => intro cs r h; cases h
  | case5 fuel rest c rest' hn cs' r' hi ih =>
    intro cs r h
    cases h
    rw [readPair_some _ _ _ hn, ih _ _ hi]
    simp [pairsChars]
  | case6 => intro cs r h; cases h

theorem readCells_some (s : List Char) (cs : List Cell) (r : List Char) (h : readCells s = some (cs, r)) :
    s = cellsReprChars cs ++ r := by
  unfold readCells at h
  split at h
  · cases h; rfl
  · split at h
    · cases h
    · next c r0 hc =>
      split at h
      · cases h
      · next cs' r1 hp =>
        cases h
        rw [readPair_some _ _ _ hc, readPairs_some _ _ _ _ hp]
        simp [cellsReprChars, pairsChars]
  · cases h

theorem parseMeshReprChars_some (s : List Char) (m : Mesh) (h : parseMeshReprChars s = some m) :
    s = "MeshPatt(".toList ++ reprChars m.pattern ++ ',' :: ' ' :: cellsReprChars m.shading ++ [')'] := by
  unfold parseMeshReprChars at h
  split at h
  · split at h
    · next p r0 hp =>
      split at h
      · next cs hc =>
        cases h
        rw [readPerm_some _ _ _ hp, readCells_some _ _ _ hc]
        simp
      · cases h
    · cases h
  · cases h

end C09
