import Mathlib.Data.List.Perm.Basic
import PermutaModel.Lemmas.C17MineSem
import PermutaModel.Lemmas.C17Canon
/-! Order independence (part 5): `bisc` on rearranged inputs prints the same line. -/

namespace Model.C17
open Driver.C17

/-- for level-wise rearranged dictionaries, any two executions of `forb ∘ mine` print the same line -/
theorem forbRun_mine_show (D D' : Nat → List NSeq) (hperm : ∀ k, (D k).Perm (D' k)) (M N : Nat)
    (hD : ∀ k, ∀ p ∈ D k, IsPerm p ∧ p.length = k) (out out' : PattDict)
    (h : ForbRun (mine D M N).2 (mine D M N).1 M out)
    (h' : ForbRun (mine D' M N).2 (mine D' M N).1 M out') : showDict out = showDict out' := by
  obtain ⟨h1, h2, h3⟩ := forb_mine_order_independent D D' hperm M N hD out out' h h'
  exact showDict_congr h1 h2 h3

theorem forb_mine_show (D D' : Nat → List NSeq) (hperm : ∀ k, (D k).Perm (D' k)) (M N : Nat)
    (hD : ∀ k, ∀ p ∈ D k, IsPerm p ∧ p.length = k) :
    showDict (forb (mine D M N).2 (mine D M N).1 M) = showDict (forb (mine D' M N).2 (mine D' M N).1 M) :=
  forbRun_mine_show D D' hperm M N hD _ _ (forb_isRun _ _ _) (forb_isRun _ _ _)

theorem maxLen_perm {A A' : List NSeq} (h : A.Perm A') : maxLen A = maxLen A' := by
  unfold maxLen
  exact h.foldl_eq' (fun x _ y _ z => by omega) 0

theorem mkD_list_perm {A A' : List NSeq} (h : A.Perm A') (n k : Nat) :
    (mkD .list A n k).Perm (mkD .list A' n k) := h.filter _

theorem mkD_list_isPerm {A : List NSeq} (hA : ∀ p ∈ A, IsPerm p) (n : Nat) :
    ∀ k, ∀ p ∈ mkD .list A n k, IsPerm p ∧ p.length = k := by
  intro k p hp
  simp only [mkD, List.mem_filter, beq_iff_eq] at hp
  exact ⟨hA p hp.1, hp.2⟩

theorem mkD_pred_perm {A A' : List NSeq} (h : A.Perm A') (n : Nat) : mkD .pred A n = mkD .pred A' n := by
  funext k
  simp only [mkD]
  split
  · apply List.filter_congr
    intro p _
    rw [Bool.eq_iff_iff, List.contains_iff_mem, List.contains_iff_mem]
    exact h.mem_iff
  · rfl

/-- **`bisc` reads its input as a set** (every representation, `n` given or not): the line printed
    for the result, or the error, is the same for a rearranged input -/
theorem bisc_show_perm (rep : Rep) (A A' : List NSeq) (hperm : A.Perm A') (hA : ∀ p ∈ A, IsPerm p)
    (m : Nat) (n : Option Nat) :
    Proto.showExcept showDict (bisc rep A m n) = Proto.showExcept showDict (bisc rep A' m n) := by
  have key : ∀ n : Nat, showDict (forb (mine (mkD .list A n) m n).2 (mine (mkD .list A n) m n).1 m) =
      showDict (forb (mine (mkD .list A' n) m n).2 (mine (mkD .list A' n) m n).1 m) :=
    fun n => forb_mine_show _ _ (mkD_list_perm hperm n) m n (mkD_list_isPerm hA n)
  have hml := maxLen_perm hperm
  cases rep with
  | list =>
    cases n with
    | none =>
      simp only [bisc]
      by_cases hnil : A = []
      · subst hnil
        rw [List.nil_perm.mp hperm]
      · have hnil' : A' ≠ [] := fun h0 => hnil (by subst h0; exact List.perm_nil.mp hperm)
        rw [if_neg (by simpa [List.isEmpty_iff] using hnil), if_neg (by simpa [List.isEmpty_iff] using hnil')]
        simp only [Proto.showExcept, ← hml]
        exact key _
    | some n =>
      simp only [bisc, Proto.showExcept]
      exact key n
  | dict =>
    cases n with
    | none =>
      simp only [bisc, ← hml]
      split
      · rfl
      · simp only [Proto.showExcept]
        exact key _
    | some n =>
      simp only [bisc, ← hml]
      split
      · rfl
      · simp only [Proto.showExcept]
        exact key n
  | pred =>
    cases n with
    | none => simp only [bisc, mkD_pred_perm hperm]
    | some n => simp only [bisc, mkD_pred_perm hperm]

end Model.C17
