import PermutaModel.Lemmas.C10Cover
import PermutaModel.Lemmas.Contains

/-! One-point deletions are exactly the contained patterns one shorter:
    `children` = the permutations of length `n-1` contained in `p`,
    `coveredby` = the permutations of length `n+1` containing `p`. -/
open Model

namespace C10L

/-- the position map of a one-point deletion: skip position `i` -/
def skip (i a : Nat) : Nat := if a < i then a else a + 1

theorem skip_lt {i a b : Nat} (h : a < b) : skip i a < skip i b := by
  unfold skip; split <;> split <;> omega

theorem skip_ne (i a : Nat) : skip i a ≠ i := by unfold skip; split <;> omega

theorem skip_bound {i a m : Nat} (ha : a < m) : skip i a < m + 1 := by unfold skip; split <;> omega

theorem getD_take_append_drop (p : NSeq) {i a : Nat} (hi : i < p.length) (ha : a + 1 < p.length) :
    (p.take i ++ p.drop (i + 1)).getD a 0 = p.getD (skip i a) 0 := by
  unfold skip
  split
  · next h =>
    rw [List.getD_append _ _ _ _ (by simp; omega)]
    simp [List.getD_eq_getElem?_getD, h]
  · next h =>
    rw [List.getD_append_right _ _ _ _ (by simp; omega)]
    simp only [List.length_take, Nat.min_eq_left (Nat.le_of_lt hi), List.getD_eq_getElem?_getD,
      List.getElem?_drop]
    congr 2
    omega

/-- the entries of a one-point deletion -/
theorem removeAt_getD {p : NSeq} (hn : p.Nodup) {i a : Nat} (hi : i < p.length) (ha : a + 1 < p.length) :
    (removeAt p i).getD a 0 = unbump (p.getD i 0) (p.getD (skip i a) 0) := by
  rw [removeAt_eq, removeElement_eq, filter_ne_getD hn hi]
  have hlen : a < (p.take i ++ p.drop (i + 1)).length := by
    simp only [List.length_append, List.length_take, List.length_drop]; omega
  rw [getD_map_of_lt _ hlen, getD_take_append_drop p hi ha]

theorem unbump_lt_iff {sel x y : Nat} (hx : x ≠ sel) (hy : y ≠ sel) :
    unbump sel x < unbump sel y ↔ x < y := by
  unfold unbump; split <;> split <;> omega

/-- a one-point deletion keeps the relative order of the remaining entries -/
theorem removeAt_iso {p : NSeq} (hp : IsPerm p) {i a b : Nat} (hi : i < p.length) (ha : a + 1 < p.length)
    (hb : b + 1 < p.length) :
    ((removeAt p i).getD a 0 < (removeAt p i).getD b 0 ↔ p.getD (skip i a) 0 < p.getD (skip i b) 0) := by
  rw [removeAt_getD hp.1 hi ha, removeAt_getD hp.1 hi hb]
  have ha' : skip i a < p.length := by have := skip_bound (i := i) (show a < p.length - 1 by omega); omega
  have hb' : skip i b < p.length := by have := skip_bound (i := i) (show b < p.length - 1 by omega); omega
  apply unbump_lt_iff
  · intro h
    exact skip_ne i a (hp.getD_inj ha' hi h)
  · intro h
    exact skip_ne i b (hp.getD_inj hb' hi h)

theorem getD_range_map_skip {m i a : Nat} (ha : a < m) : ((List.range m).map (skip i)).getD a 0 = skip i a := by
  simp [List.getD_eq_getElem?_getD, ha]

/-- a one-point deletion is contained in the permutation -/
theorem contains_removeAt {p : NSeq} (hp : IsPerm p) {i : Nat} (hi : i < p.length) :
    Contains p (removeAt p i) := by
  have hl := length_removeAt hp.1 hi
  refine ⟨(List.range (p.length - 1)).map (skip i), ?_, ?_, ?_, ?_⟩
  · simp [hl]
  · unfold StrictInc
    rw [List.pairwise_map]
    exact List.pairwise_lt_range.imp (fun h => skip_lt h)
  · intro x hx
    obtain ⟨a, ha, rfl⟩ := List.mem_map.mp hx
    have := skip_bound (i := i) (List.mem_range.mp ha)
    omega
  · intro a b ha hb
    rw [hl] at ha hb
    rw [getD_range_map_skip ha, getD_range_map_skip hb]
    exact removeAt_iso hp hi (by omega) (by omega)

/-- a strictly increasing list grows by at least one per step -/
theorem strictInc_growth {c : List Nat} (hc : StrictInc c) {a : Nat} :
    ∀ d, a + d < c.length → c.getD a 0 + d ≤ c.getD (a + d) 0 := by
  intro d
  induction d with
  | zero => intro _; simp
  | succ d ih =>
    intro h
    have h1 := ih (by omega)
    have h2 := hc.getD_lt (show a + d < a + (d + 1) by omega) h
    omega

/-- a strictly increasing choice of `m` positions out of `m+1` skips exactly one position -/
theorem exists_skip {c : List Nat} {m : Nat} (hlen : c.length = m) (hinc : StrictInc c)
    (hr : ∀ x ∈ c, x < m + 1) : ∃ i, i ≤ m ∧ ∀ a, a < m → c.getD a 0 = skip i a := by
  have hlo : ∀ a, a < m → a ≤ c.getD a 0 := by
    intro a ha
    have := strictInc_growth hinc (a := 0) a (by omega)
    simp only [Nat.zero_add] at this
    omega
  have hhi : ∀ a, a < m → c.getD a 0 ≤ a + 1 := by
    intro a ha
    have h1 := strictInc_growth hinc (a := a) (m - 1 - a) (by omega)
    have h2 : c.getD (a + (m - 1 - a)) 0 < m + 1 := hr _ (getD_mem_of_lt (by omega))
    omega
  by_cases hex : ∃ a, a < m ∧ c.getD a 0 ≠ a
  · classical
    refine ⟨Nat.find hex, ?_, ?_⟩
    · have := (Nat.find_spec hex).1; omega
    · intro a ha
      have hi := Nat.find_spec hex
      unfold skip
      split
      · next hlt =>
        have := Nat.find_min hex hlt
        by_contra hne
        exact this ⟨ha, hne⟩
      · next hge =>
        have h1 := hlo _ hi.1
        have h2 := hhi _ hi.1
        have h3 := strictInc_growth hinc (a := Nat.find hex) (a - Nat.find hex) (by omega)
        rw [show Nat.find hex + (a - Nat.find hex) = a by omega] at h3
        have h4 := hhi a ha
        omega
  · refine ⟨m, Nat.le_refl _, ?_⟩
    intro a ha
    unfold skip
    rw [if_pos ha]
    by_contra hne
    exact hex ⟨a, ha, hne⟩

/-- a contained permutation that is one shorter is a one-point deletion -/
theorem removeAt_of_contains {p q : NSeq} (hp : IsPerm p) (hq : IsPerm q) (hl : q.length + 1 = p.length)
    (h : Contains p q) : ∃ i, i < p.length ∧ q = removeAt p i := by
  obtain ⟨c, hc⟩ := h
  obtain ⟨i, hi, hsk⟩ := exists_skip (m := q.length) hc.len hc.inc (fun x hx => by have := hc.rng x hx; omega)
  have hi' : i < p.length := by omega
  have hrl := length_removeAt hp.1 hi'
  refine ⟨i, hi', ?_⟩
  symm
  apply Contains.eq_of_length_eq _ (removeAt_isPerm hp hi').1 hq (by omega)
  refine ⟨List.range q.length, ?_, ?_, ?_, ?_⟩
  · simp
  · exact List.pairwise_lt_range
  · intro x hx
    have := List.mem_range.mp hx
    omega
  · intro a b ha hb
    rw [getD_range' _ _ ha, getD_range' _ _ hb, removeAt_iso hp hi' (by omega) (by omega),
      ← hsk a ha, ← hsk b hb]
    exact hc.iso a b ha hb

/-- one-point deletions = contained permutations of length one less -/
theorem exists_removeAt_iff_contains {p q : NSeq} (hp : IsPerm p) (hq : IsPerm q)
    (hl : q.length + 1 = p.length) : (∃ i, i < p.length ∧ q = removeAt p i) ↔ Contains p q := by
  constructor
  · rintro ⟨i, hi, rfl⟩; exact contains_removeAt hp hi
  · exact removeAt_of_contains hp hq hl

/-- **children** = the permutations of length `n-1` contained in `p` -/
theorem mem_children_iff_contains {p : NSeq} (hp : IsPerm p) (q : NSeq) :
    q ∈ children p ↔ IsPerm q ∧ q.length + 1 = p.length ∧ Contains p q := by
  constructor
  · intro h
    obtain ⟨h1, h2⟩ := children_isPerm hp h
    exact ⟨h1, h2, (exists_removeAt_iff_contains hp h1 h2).mp ((mem_children p q).mp h)⟩
  · rintro ⟨h1, h2, h3⟩
    exact (mem_children p q).mpr ((exists_removeAt_iff_contains hp h1 h2).mpr h3)

/-- **coveredby** = the permutations of length `n+1` containing `p` -/
theorem mem_coveredby_iff_contains {p : NSeq} (hp : IsPerm p) (q : NSeq) :
    q ∈ coveredby p ↔ IsPerm q ∧ q.length = p.length + 1 ∧ Contains q p := by
  rw [mem_coveredby_iff hp]
  constructor
  · rintro ⟨h1, h2, i, hi, h⟩
    exact ⟨h1, h2, (exists_removeAt_iff_contains h1 hp (by omega)).mp ⟨i, hi, h.symm⟩⟩
  · rintro ⟨h1, h2, h3⟩
    obtain ⟨i, hi, h⟩ := (exists_removeAt_iff_contains h1 hp (by omega)).mpr h3
    exact ⟨h1, h2, i, hi, h.symm⟩

end C10L
