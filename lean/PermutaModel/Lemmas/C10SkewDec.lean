import PermutaModel.Lemmas.C10SumDec

/-! `skew_decomposition`: the running-minimum loop cuts exactly at the prefixes that use the top values. -/
open Model Spec.C10

namespace C10L

/-- the prefix of length `c` only uses the `c` largest values -/
def skewClosedAt (p : NSeq) (c : Nat) : Prop := ∀ x ∈ p.take c, p.length - c ≤ x

theorem skewClosedAt_zero {p : NSeq} : skewClosedAt p 0 := by simp [skewClosedAt]

theorem skewClosedAt_length (p : NSeq) : skewClosedAt p p.length := by
  intro x _; omega

/-- a skew-closed prefix contains every one of the `c` largest values -/
theorem mem_take_of_skewClosed {p : NSeq} (hp : IsPerm p) {c : Nat} (hc : c ≤ p.length)
    (h : skewClosedAt p c) {x : Nat} (h1 : p.length - c ≤ x) (h2 : x < p.length) : x ∈ p.take c := by
  have hq : IsPerm ((p.take c).map (· - (p.length - c))) := by
    refine ⟨List.Nodup.map_on (fun a ha b hb hab => ?_) (hp.1.sublist (List.take_sublist _ _)), ?_⟩
    · have := h a ha; have := h b hb; omega
    · intro z hz
      obtain ⟨y, hy, rfl⟩ := List.mem_map.mp hz
      have := h y hy
      have := hp.2 y (List.mem_of_mem_take hy)
      simp only [List.length_map, List.length_take]; omega
  have : x - (p.length - c) ∈ (p.take c).map (· - (p.length - c)) :=
    (mem_iff hq).mpr (by simp only [List.length_map, List.length_take]; omega)
  obtain ⟨y, hy, hyx⟩ := List.mem_map.mp this
  have := h y hy
  have : y = x := by omega
  exact this ▸ hy

theorem drop_lt_of_skewClosed {p : NSeq} (hp : IsPerm p) {c : Nat} (hc : c ≤ p.length)
    (h : skewClosedAt p c) : ∀ y ∈ p.drop c, y < p.length - c := by
  intro y hy
  by_contra hge
  have hmem := mem_take_of_skewClosed hp hc h (x := y) (by omega) (hp.2 y (List.mem_of_mem_drop hy))
  have hn := hp.1
  rw [← List.take_append_drop c p, List.nodup_append] at hn
  exact hn.2.2 y hmem y hy rfl

theorem skewClosedAt_iff_skewCut {p : NSeq} (hp : IsPerm p) {c : Nat} (hc : c ≤ p.length) :
    skewClosedAt p c ↔ SkewCut p c := by
  constructor
  · intro h x hx y hy
    have := h x hx
    have := drop_lt_of_skewClosed hp hc h y hy
    omega
  · intro h x hx
    have hnd : (p.drop c).Nodup := hp.1.sublist (List.drop_sublist _ _)
    have hb : ∀ z ∈ p.drop c, z < x := fun z hz => h x hx z hz
    have := length_le_of_nodup_bounded hnd hb
    simp only [List.length_drop] at this
    omega

theorem cut_iff_skew {p : NSeq} (hp : IsPerm p) {idx : Nat} (hi : idx < p.length) {m : Nat}
    (hlb : ∀ j, j < idx + 1 → m ≤ p.getD j 0) (hach : ∃ j, j < idx + 1 ∧ p.getD j 0 = m) :
    p.length - idx - 1 = m ↔ skewClosedAt p (idx + 1) := by
  constructor
  · intro h x hx
    obtain ⟨j, hj, _, rfl⟩ := mem_take_iff_getD.mp hx
    have := hlb j hj
    omega
  · intro h
    obtain ⟨j, hj, hjm⟩ := hach
    have h1 : p.length - (idx + 1) ≤ p.getD j 0 := h _ (mem_take_iff_getD.mpr ⟨j, hj, by omega, rfl⟩)
    have hnd : ((p.take (idx + 1)).map (· - m)).Nodup := by
      apply List.Nodup.map_on _ (hp.1.sublist (List.take_sublist _ _))
      intro a ha b hb hab
      obtain ⟨ja, hja, _, rfl⟩ := mem_take_iff_getD.mp ha
      obtain ⟨jb, hjb, _, rfl⟩ := mem_take_iff_getD.mp hb
      have := hlb ja hja; have := hlb jb hjb
      omega
    have hb : ∀ z ∈ (p.take (idx + 1)).map (· - m), z < p.length - m := by
      intro z hz
      obtain ⟨y, hy, rfl⟩ := List.mem_map.mp hz
      obtain ⟨jy, hjy, hjy2, rfl⟩ := mem_take_iff_getD.mp hy
      have := hlb jy hjy
      have := hp.getD_lt hjy2
      omega
    have := length_le_of_nodup_bounded hnd hb
    rw [List.length_map, List.length_take, Nat.min_eq_left (by omega)] at this
    omega

/-- facts about one block `p[start:e]` between two consecutive skew-closed prefixes -/
theorem block_facts_skew {p : NSeq} (hp : IsPerm p) {start e : Nat} (hse : start < e) (he : e ≤ p.length)
    (hcs : skewClosedAt p start) (hce : skewClosedAt p e)
    (hno : ∀ c, start < c → c < e → ¬ skewClosedAt p c) :
    IsPerm ((slice p start e).map (· - (p.length - e))) ∧
    standardize (slice p start e) = (slice p start e).map (· - (p.length - e)) ∧
    ((slice p start e).map (· - (p.length - e))).map (· + (p.length - e)) = slice p start e ∧
    isSkewDecomposable ((slice p start e).map (· - (p.length - e))) = false := by
  have hlen := length_slice p (s := start) he
  have hnd : (slice p start e).Nodup :=
    (hp.1.sublist (List.drop_sublist _ _)).sublist (List.take_sublist _ _)
  have hhi : ∀ y ∈ slice p start e, y < p.length - e + (slice p start e).length := by
    intro y hy
    have := drop_lt_of_skewClosed hp (by omega) hcs y (List.mem_of_mem_take hy)
    omega
  have hlo : ∀ y ∈ slice p start e, p.length - e ≤ y := by
    intro y hy
    have hy' : y ∈ p.take e := by rw [← take_append_slice p (Nat.le_of_lt hse)]; exact List.mem_append_right _ hy
    exact hce y hy'
  obtain ⟨h1, h2, h3⟩ := standardize_block hnd hlo hhi
  refine ⟨h1, h2, h3, ?_⟩
  by_contra hdec
  have hdec' : isSkewDecomposable ((slice p start e).map (· - (p.length - e))) = true := by
    cases h : isSkewDecomposable ((slice p start e).map (· - (p.length - e))) with
    | true => rfl
    | false => exact absurd h hdec
  unfold isSkewDecomposable at hdec'
  rw [List.any_eq_true] at hdec'
  obtain ⟨i, hi, hpre⟩ := hdec'
  rw [List.mem_range'_1] at hi
  simp only [List.length_map, hlen] at hi hpre
  apply hno (start + i) (by omega) (by omega)
  intro x hx
  rw [List.take_add] at hx
  rcases List.mem_append.mp hx with hx | hx
  · have := hcs x hx; omega
  · have ht : List.take i (List.drop start p) =
        (List.take i ((slice p start e).map (· - (p.length - e)))).map (· + (p.length - e)) := by
      calc List.take i (List.drop start p) = List.take i (slice p start e) := by
            unfold slice; rw [List.take_take, Nat.min_eq_left (by omega)]
        _ = List.take i (((slice p start e).map (· - (p.length - e))).map (· + (p.length - e))) := by rw [h3]
        _ = _ := by rw [List.map_take]
    rw [ht] at hx
    obtain ⟨y, hy, rfl⟩ := List.mem_map.mp hx
    unfold prefixSetEq at hpre
    rw [Bool.and_eq_true, List.all_eq_true, List.all_eq_true] at hpre
    have := hpre.2 y hy
    simp at this
    omega

/-- loop invariant of `skew_decomposition` -/
theorem skewDecompGo_spec {p : NSeq} (hp : IsPerm p) :
    ∀ (rest : List Nat) (idx minv start : Nat),
      p.drop idx = rest → start ≤ idx → idx ≤ p.length →
      skewClosedAt p start →
      (∀ j, j < idx → minv ≤ p.getD j 0) →
      (minv = p.length + 1 ∨ ∃ j, j < idx ∧ p.getD j 0 = minv) →
      (∀ c, start < c → c ≤ idx → ¬ skewClosedAt p c) →
      (idx = p.length → start = p.length) →
      ((skewDecompGo p rest idx minv start).map List.length).sum = p.length - start ∧
      skewSumGo (p.take start) (p.length - start) (skewDecompGo p rest idx minv start) = p ∧
      ∀ part ∈ skewDecompGo p rest idx minv start,
        IsPerm part ∧ part ≠ [] ∧ isSkewDecomposable part = false := by
  intro rest
  induction rest with
  | nil =>
    intro idx minv start hdrop hsi hin _ _ _ _ hend
    have : idx = p.length := by
      have := List.drop_eq_nil_iff.mp hdrop
      omega
    have hs := hend this
    simp only [skewDecompGo, skewSumGo, List.not_mem_nil, false_imp_iff, implies_true, and_true,
      List.map_nil, List.sum_nil]
    rw [hs, List.take_length]
    exact ⟨by omega, rfl⟩
  | cons val rest ih =>
    intro idx minv start hdrop hsi hin hcs hlb hach hno hend
    obtain ⟨hi, hval, hdrop'⟩ := drop_cons_facts hdrop
    have hlb' : ∀ j, j < idx + 1 → min minv val ≤ p.getD j 0 := by
      intro j hj
      by_cases hji : j < idx
      · have := hlb j hji; omega
      · have : j = idx := by omega
        subst this; rw [hval]; omega
    have hvn : val < p.length := by rw [← hval]; exact hp.getD_lt hi
    have hach' : ∃ j, j < idx + 1 ∧ p.getD j 0 = min minv val := by
      by_cases hmv : val ≤ minv
      · exact ⟨idx, by omega, by rw [hval]; omega⟩
      · rcases hach with h | ⟨j, hj, hjm⟩
        · omega
        · exact ⟨j, by omega, by omega⟩
    have hK := cut_iff_skew hp hi hlb' hach'
    unfold skewDecompGo
    split
    · next hcut =>
      have hce := hK.mp hcut
      obtain ⟨b1, b2, b3, b4⟩ := block_facts_skew hp (start := start) (e := idx + 1) (by omega) (by omega)
        hcs hce (fun c h1 h2 => hno c h1 (by omega))
      have ih' := ih (idx + 1) (min minv val) (idx + 1) hdrop' (Nat.le_refl _) (by omega) hce hlb'
        (Or.inr hach') (fun c h1 h2 => by omega) (fun _ => by omega)
      have hql : ((slice p start (idx + 1)).map (· - (p.length - (idx + 1)))).length = idx + 1 - start := by
        rw [List.length_map, length_slice p (by omega)]
      refine ⟨?_, ?_, ?_⟩
      · rw [List.map_cons, List.sum_cons, ih'.1, b2, hql]; omega
      · rw [skewSumGo, b2, hql]
        have e1 : p.length - start - (idx + 1 - start) = p.length - (idx + 1) := by omega
        rw [e1, b3, take_append_slice p (by omega)]
        exact ih'.2.1
      · intro part hpart
        rcases List.mem_cons.mp hpart with rfl | hpart
        · rw [b2]
          refine ⟨b1, ?_, b4⟩
          intro hnil
          have := congrArg List.length hnil
          rw [hql] at this
          simp at this
          omega
        · exact ih'.2.2 part hpart
    · next hcut =>
      have hnc : ¬ skewClosedAt p (idx + 1) := fun h => hcut (hK.mpr h)
      have ih' := ih (idx + 1) (min minv val) start hdrop' (by omega) (by omega) hcs hlb'
        (Or.inr hach')
        (fun c h1 h2 => by
          by_cases hc : c ≤ idx
          · exact hno c h1 hc
          · have : c = idx + 1 := by omega
            subst this; exact hnc)
        (fun h => by
          exfalso
          apply hnc
          rw [h]
          exact skewClosedAt_length p)
      exact ih'

theorem skewDecomposition_spec {p : NSeq} (hp : IsPerm p) :
    skewSumN [] (skewDecomposition p) = p ∧
    ∀ part ∈ skewDecomposition p, IsPerm part ∧ part ≠ [] ∧ isSkewDecomposable part = false := by
  have := skewDecompGo_spec hp p 0 (p.length + 1) 0 (by simp) (Nat.le_refl _) (Nat.zero_le _)
    skewClosedAt_zero (fun j hj => by omega) (Or.inl rfl) (fun c h1 h2 => by omega) (fun h => h)
  obtain ⟨h0, h1, h2⟩ := this
  refine ⟨?_, h2⟩
  unfold skewSumN skewDecomposition
  rw [h0]
  simpa using h1

theorem prefixSetEq_skew_iff {p : NSeq} (hp : IsPerm p) {i : Nat} (hi : i ≤ p.length) :
    prefixSetEq p (p.length - i) i = true ↔ skewClosedAt p i := by
  unfold prefixSetEq
  rw [Bool.and_eq_true, List.all_eq_true, List.all_eq_true]
  constructor
  · rintro ⟨_, h⟩ x hx
    have := h x hx
    simp at this
    omega
  · intro h
    refine ⟨?_, ?_⟩
    · intro x hx
      rw [List.mem_range'_1] at hx
      rw [List.contains_iff_mem]
      exact mem_take_of_skewClosed hp hi h (by omega) (by omega)
    · intro x hx
      have := h x hx
      have := hp.2 x (List.mem_of_mem_take hx)
      simp; omega

theorem isSkewDecomposable_iff_closed {p : NSeq} (hp : IsPerm p) :
    isSkewDecomposable p = true ↔ ∃ c, 0 < c ∧ c < p.length ∧ skewClosedAt p c := by
  unfold isSkewDecomposable
  rw [List.any_eq_true]
  constructor
  · rintro ⟨i, hi, h⟩
    rw [List.mem_range'_1] at hi
    exact ⟨i, by omega, by omega, (prefixSetEq_skew_iff hp (by omega)).mp h⟩
  · rintro ⟨c, h0, h1, h⟩
    exact ⟨c, by rw [List.mem_range'_1]; omega, (prefixSetEq_skew_iff hp (by omega)).mpr h⟩

/-- `is_skew_decomposable` decides the property's notion -/
theorem isSkewDecomposable_iff_spec {p : NSeq} (hp : IsPerm p) :
    isSkewDecomposable p = true ↔ SkewDecomposable p := by
  rw [isSkewDecomposable_iff_closed hp]
  unfold SkewDecomposable
  constructor
  · rintro ⟨c, h0, h1, h⟩; exact ⟨c, h0, h1, (skewClosedAt_iff_skewCut hp (by omega)).mp h⟩
  · rintro ⟨c, h0, h1, h⟩; exact ⟨c, h0, h1, (skewClosedAt_iff_skewCut hp (by omega)).mpr h⟩

theorem isSkewDecomposable_skewSum {a b : NSeq} (ha : IsPerm a) (hb : IsPerm b) (ha0 : a ≠ [])
    (hb0 : b ≠ []) : isSkewDecomposable (skewSum a b) = true := by
  rw [isSkewDecomposable_iff_closed (skewSum_isPerm ha hb)]
  have h1 : 0 < a.length := List.length_pos_iff.mpr ha0
  have h2 : 0 < b.length := List.length_pos_iff.mpr hb0
  refine ⟨a.length, h1, by rw [length_skewSum]; omega, ?_⟩
  intro x hx
  rw [length_skewSum]
  unfold skewSum at hx
  rw [List.take_left' (by simp)] at hx
  obtain ⟨y, _, rfl⟩ := List.mem_map.mp hx
  omega

theorem foldl_skewSum_cons (a b : NSeq) (rest : List NSeq) :
    (b :: rest).foldl skewSum a = skewSum a (rest.foldl skewSum b) := by
  induction rest generalizing a b with
  | nil => rfl
  | cons c rest ih =>
    simp only [List.foldl_cons] at ih ⊢
    rw [skewSum_assoc, ih a (skewSum b c)]

/-- skew-decomposable iff the decomposition has at least two parts -/
theorem isSkewDecomposable_iff_parts {p : NSeq} (hp : IsPerm p) :
    isSkewDecomposable p = true ↔ 2 ≤ (skewDecomposition p).length := by
  obtain ⟨h1, h2⟩ := skewDecomposition_spec hp
  rw [skewSumN_eq_foldl] at h1
  cases hL : skewDecomposition p with
  | nil =>
    rw [hL] at h1
    simp only [List.foldl_nil] at h1
    subst h1
    simp [isSkewDecomposable]
  | cons a t =>
    rw [hL] at h1 h2
    cases t with
    | nil =>
      simp only [List.foldl_cons, List.foldl_nil, skewSum_nil_left] at h1
      subst h1
      have := (h2 a (by simp)).2.2
      simp [this]
    | cons b rest =>
      rw [foldl_skewSum_cons, skewSum_nil_left, foldl_skewSum_cons] at h1
      simp only [List.length_cons]
      have ha := h2 a (by simp)
      have hb := h2 b (by simp)
      have hrest : IsPerm (rest.foldl skewSum b) :=
        foldl_skewSum_isPerm hb.1 (fun o ho => (h2 o (by simp [ho])).1)
      have hne : rest.foldl skewSum b ≠ [] := by
        intro h
        have hl := length_foldl_skewSum b rest
        have hbpos := List.length_pos_iff.mpr hb.2.1
        rw [h, List.length_nil] at hl
        omega
      rw [← h1, isSkewDecomposable_skewSum ha.1 hrest ha.2.1 hne]
      simp

end C10L
