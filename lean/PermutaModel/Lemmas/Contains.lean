import PermutaModel.Lemmas.SubLen
import PermutaModel.Lemmas.PermBasic
/-! Classical pattern containment (`Contains` of Spec/Basic) is a partial order on permutations,
    graded by length: reflexive, transitive, `Contains σ π → |π| ≤ |σ|`, and equal lengths force equality. -/
open List

theorem getD_range' (n a : Nat) (h : a < n) : (List.range n).getD a 0 = a := by
  simp [List.getD_eq_getElem?_getD, h]

theorem StrictInc.getD_lt {c : List Nat} (hc : StrictInc c) {a b : Nat} (hab : a < b) (hb : b < c.length) :
    c.getD a 0 < c.getD b 0 := by
  have ha : a < c.length := by omega
  rw [List.getD_eq_getElem?_getD, List.getD_eq_getElem?_getD, List.getElem?_eq_getElem ha,
    List.getElem?_eq_getElem hb]
  exact (List.pairwise_iff_getElem.mp hc) a b ha hb hab

theorem getD_mem_of_lt {c : List Nat} {a : Nat} (ha : a < c.length) : c.getD a 0 ∈ c := by
  rw [List.getD_eq_getElem?_getD, List.getElem?_eq_getElem ha]
  exact List.getElem_mem ha

theorem getD_map_of_lt {c : List Nat} (f : Nat → Nat) {a : Nat} (ha : a < c.length) :
    (c.map f).getD a 0 = f (c.getD a 0) := by
  simp [List.getD_eq_getElem?_getD, ha]

/-- every sequence contains itself (identity occurrence) -/
theorem Contains.refl (p : NSeq) : Contains p p := by
  refine ⟨List.range p.length, ?_, ?_, ?_, ?_⟩
  · simp
  · exact List.pairwise_lt_range
  · intro i hi; exact List.mem_range.mp hi
  · intro a b ha hb
    rw [getD_range' _ _ ha, getD_range' _ _ hb]

/-- an occurrence needs room: the pattern is not longer than the host -/
theorem Contains.length_le {σ π : NSeq} (h : Contains σ π) : π.length ≤ σ.length := by
  obtain ⟨c, hc⟩ := h
  have hs : c <+ List.range σ.length := (sublist_range_iff _ _).mpr ⟨hc.inc, hc.rng⟩
  have := hs.length_le
  rw [hc.len, List.length_range] at this
  exact this

/-- containment is transitive: occurrences compose -/
theorem Contains.trans {σ τ π : NSeq} (h1 : Contains σ τ) (h2 : Contains τ π) : Contains σ π := by
  obtain ⟨c1, hc1⟩ := h1
  obtain ⟨c2, hc2⟩ := h2
  refine ⟨c2.map (fun i => c1.getD i 0), ?_, ?_, ?_, ?_⟩
  · simp [hc2.len]
  · unfold StrictInc
    rw [List.pairwise_map]
    refine List.Pairwise.imp_of_mem ?_ hc2.inc
    intro a b _ hb hab
    exact hc1.inc.getD_lt hab (by rw [hc1.len]; exact hc2.rng b hb)
  · intro i hi
    obtain ⟨j, hj, rfl⟩ := List.mem_map.mp hi
    exact hc1.rng _ (getD_mem_of_lt (by rw [hc1.len]; exact hc2.rng j hj))
  · intro a b ha hb
    have ha2 : a < c2.length := by rw [hc2.len]; exact ha
    have hb2 : b < c2.length := by rw [hc2.len]; exact hb
    rw [getD_map_of_lt _ ha2, getD_map_of_lt _ hb2]
    rw [hc2.iso a b ha hb]
    exact hc1.iso _ _ (hc2.rng _ (getD_mem_of_lt ha2)) (hc2.rng _ (getD_mem_of_lt hb2))

/-- one half of "order-isomorphic permutations of the same length are equal" -/
theorem perm_le_of_iso {π σ : NSeq} (hπ : IsPerm π) (hlen : π.length = σ.length)
    (hiso : ∀ a b, a < π.length → b < π.length → (π.getD a 0 < π.getD b 0 ↔ σ.getD a 0 < σ.getD b 0)) :
    ∀ v a, a < π.length → π.getD a 0 = v → v ≤ σ.getD a 0 := by
  intro v
  induction v with
  | zero => intro a _ _; exact Nat.zero_le _
  | succ w ih =>
    intro a ha hv
    have hvlt : w + 1 < π.length := hv ▸ hπ.getD_lt ha
    obtain ⟨a', ha', hw⟩ := hπ.surj (show w < π.length by omega)
    have h1 : π.getD a' 0 < π.getD a 0 := by omega
    have h2 := (hiso a' a ha' ha).mp h1
    have h3 := ih a' ha' hw
    omega

/-- equal lengths force equality -/
theorem Contains.eq_of_length_eq {σ π : NSeq} (h : Contains σ π) (hσ : IsPerm σ) (hπ : IsPerm π)
    (hlen : π.length = σ.length) : σ = π := by
  obtain ⟨c, hc⟩ := h
  have hs : c <+ List.range σ.length := (sublist_range_iff _ _).mpr ⟨hc.inc, hc.rng⟩
  have hceq : c = List.range σ.length := hs.eq_of_length (by rw [hc.len, hlen, List.length_range])
  have hiso : ∀ a b, a < π.length → b < π.length → (π.getD a 0 < π.getD b 0 ↔ σ.getD a 0 < σ.getD b 0) := by
    intro a b ha hb
    have := hc.iso a b ha hb
    rwa [hceq, getD_range' _ _ (by omega), getD_range' _ _ (by omega)] at this
  have hiso' : ∀ a b, a < σ.length → b < σ.length → (σ.getD a 0 < σ.getD b 0 ↔ π.getD a 0 < π.getD b 0) :=
    fun a b ha hb => (hiso a b (by omega) (by omega)).symm
  apply List.ext_getElem hlen.symm
  intro a ha1 ha2
  have e1 := perm_le_of_iso hπ hlen hiso (π.getD a 0) a ha2 rfl
  have e2 := perm_le_of_iso hσ hlen.symm hiso' (σ.getD a 0) a ha1 rfl
  have g1 : π.getD a 0 = π[a] := by simp [List.getD_eq_getElem?_getD, ha2]
  have g2 : σ.getD a 0 = σ[a] := by simp [List.getD_eq_getElem?_getD, ha1]
  omega

/-- antisymmetry -/
theorem Contains.antisymm {σ π : NSeq} (h1 : Contains σ π) (h2 : Contains π σ) (hσ : IsPerm σ) (hπ : IsPerm π) :
    σ = π :=
  h1.eq_of_length_eq hσ hπ (Nat.le_antisymm h1.length_le h2.length_le)
