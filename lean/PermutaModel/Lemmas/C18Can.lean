import PermutaModel.Lemmas.C18Rot4

/-! Unfolding the loop of `can_shade`. -/

namespace Spec.C18
open Model Model.C18 Proto

/-- if the loop of `can_shade` returns normally, every round's test returned normally, and a
    non-empty answer means that some round's test returned `True` -/
theorem canShadeFrom_ok (n : Nat) : ∀ (k rot : Nat) (m : Mesh) (p : Cell) (l : List Nat),
    canShadeFrom n k rot m p = .ok l →
      (∀ j, j < k → ∃ b, neCond (rotMeshN j m) (rotCellN n j p) = .ok b) ∧
      (l ≠ [] → ∃ j, j < k ∧ neCond (rotMeshN j m) (rotCellN n j p) = .ok true)
  | 0, _, _, _, l, h => by
    simp only [canShadeFrom, Except.ok.injEq] at h
    subst h
    exact ⟨fun j hj => absurd hj (by omega), fun h => absurd rfl h⟩
  | k + 1, rot, m, p, l, h => by
    unfold canShadeFrom at h
    cases hb : neCond m p with
    | error e => rw [hb] at h; cases h
    | ok b =>
      rw [hb] at h
      simp only at h
      cases hr : canShadeFrom n k (rot + 1) (rotMesh m) (p.2, n - p.1) with
      | error e => rw [hr] at h; cases h
      | ok r =>
        rw [hr] at h
        simp only [Except.ok.injEq] at h
        obtain ⟨ih1, ih2⟩ := canShadeFrom_ok n k (rot + 1) (rotMesh m) (p.2, n - p.1) r hr
        constructor
        · intro j hj
          cases j with
          | zero => exact ⟨b, hb⟩
          | succ j => exact ih1 j (by omega)
        · intro hl
          by_cases hbt : b = true
          · exact ⟨0, by omega, by rw [← hbt]; exact hb⟩
          · have hrne : r ≠ [] := by
              intro hre
              apply hl
              rw [← h, hre]
              simp [hbt]
            obtain ⟨j, hj, hjt⟩ := ih2 hrne
            exact ⟨j + 1, by omega, hjt⟩

theorem neCond_ok_bound {m : Mesh} {p : Cell} {b : Bool} (h : neCond m p = .ok b) : p.1 ≤ mlen m := by
  unfold neCond at h
  split at h
  · cases h
  · omega

end Spec.C18
