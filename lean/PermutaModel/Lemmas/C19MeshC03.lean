import PermutaModel.Props.C03
import PermutaModel.Model.C19
import PermutaModel.Lemmas.C19Occ

/-! C19, the mesh conditions of Rd2134 / Ru2143 read through **C03** (`C03.mem_meshOccs_iff`,
    `C03.mem_meshOccInPerm_iff`, `C03.containsMesh_iff`; vocabulary of `Spec/Mesh.lean`: `MeshOcc`, `Spec.cellOf`).
    `Props/C19.lean` states the same facts through `C04.containsMesh_iff` because `Spec/Mesh.lean` and `Spec/C04.lean`
    both declare `Spec.countLt` / `MeshContains` and cannot be imported into one file; this file is the cross-check
    that the characterisation does not depend on which of the two proved semantics is used, and it is stronger in
    one respect: it describes the *list of occurrences* `MeshPatt.occurrences_in`, not only containment. -/
open Model.C19

namespace C19M
open C19

/-- the cell of a further point `k` relative to the two points at `i < j` is unshaded exactly when it is
    the bottom-left or the bottom-right box -/
theorem cell_free_iff (σ : NSeq) {i j k : Nat} (hij : i < j) (hki : k ≠ i) (hkj : k ≠ j) :
    Spec.cellOf σ [i, j] k ∉ mShading ↔
      (k < i ∨ j < k) ∧ ¬ σ.getD i 0 < σ.getD k 0 ∧ ¬ σ.getD j 0 < σ.getD k 0 := by
  unfold Spec.cellOf
  simp only [List.filter_cons, List.filter_nil]
  generalize σ.getD i 0 = vi
  generalize σ.getD j 0 = vj
  generalize σ.getD k 0 = vk
  by_cases h1 : i < k <;> by_cases h2 : j < k <;> by_cases h3 : vi < vk <;>
    by_cases h4 : vj < vk <;> simp [h1, h2, h3, h4, mShading] <;> omega

/-- **box form, `(21, M)`**: `c` is a mesh occurrence ⇔ `c = [i, j]` is a descent with every other point in the
    bottom-left or bottom-right box -/
theorem meshOcc_rd_iff_boxes (q : NSeq) (hq : IsPerm q) (c : List Nat) :
    MeshOcc ⟨[1, 0], mShading⟩ q c ↔ ∃ i j, c = [i, j] ∧ i < j ∧ j < q.length ∧ q.getD j 0 < q.getD i 0 ∧
      ∀ k, k < q.length → k ≠ i → k ≠ j → (k < i ∨ j < k) ∧ q.getD k 0 < q.getD j 0 := by
  constructor
  · rintro ⟨hocc, hfree⟩
    obtain ⟨i, j, rfl, hij, hj, hv⟩ := (isOcc_10_iff q c).mp hocc
    refine ⟨i, j, rfl, hij, hj, hv, fun k hk hki hkj => ?_⟩
    have := (cell_free_iff q hij hki hkj).mp (hfree k hk (by simp [hki, hkj]))
    refine ⟨this.1, ?_⟩
    have hne : q.getD k 0 ≠ q.getD j 0 := fun e => hkj (hq.getD_inj hk hj e)
    omega
  · rintro ⟨i, j, rfl, hij, hj, hv, hall⟩
    refine ⟨(isOcc_10_iff q _).mpr ⟨i, j, rfl, hij, hj, hv⟩, fun k hk hkc => ?_⟩
    simp only [List.mem_cons, List.not_mem_nil, or_false, not_or] at hkc
    have := hall k hk hkc.1 hkc.2
    exact (cell_free_iff q hij hkc.1 hkc.2).mpr ⟨this.1, by omega, by omega⟩

/-- **box form, `(12, M)`** -/
theorem meshOcc_ru_iff_boxes (q : NSeq) (hq : IsPerm q) (c : List Nat) :
    MeshOcc ⟨[0, 1], mShading⟩ q c ↔ ∃ i j, c = [i, j] ∧ i < j ∧ j < q.length ∧ q.getD i 0 < q.getD j 0 ∧
      ∀ k, k < q.length → k ≠ i → k ≠ j → (k < i ∨ j < k) ∧ q.getD k 0 < q.getD i 0 := by
  constructor
  · rintro ⟨hocc, hfree⟩
    obtain ⟨i, j, rfl, hij, hj, hv⟩ := (isOcc_01_iff q c).mp hocc
    refine ⟨i, j, rfl, hij, hj, hv, fun k hk hki hkj => ?_⟩
    have := (cell_free_iff q hij hki hkj).mp (hfree k hk (by simp [hki, hkj]))
    refine ⟨this.1, ?_⟩
    have hne : q.getD k 0 ≠ q.getD i 0 := fun e => hki (hq.getD_inj hk (by omega) e)
    omega
  · rintro ⟨i, j, rfl, hij, hj, hv, hall⟩
    refine ⟨(isOcc_01_iff q _).mpr ⟨i, j, rfl, hij, hj, hv⟩, fun k hk hkc => ?_⟩
    simp only [List.mem_cons, List.not_mem_nil, or_false, not_or] at hkc
    have := hall k hk hkc.1 hkc.2
    exact (cell_free_iff q hij hkc.1 hkc.2).mpr ⟨this.1, by omega, by omega⟩

/-- **the occurrences of `Rd2134._M_PATT`**: `MeshPatt.occurrences_in` lists `c` ⇔ `c = [i, i+1]` where the
    maximum sits at `i` and the second largest value at `i + 1` (so there is at most one occurrence) -/
theorem mem_meshOccInPerm_rd_iff (q : NSeq) (hq : IsPerm q) (c : List Nat) :
    c ∈ Model.meshOccInPerm ⟨[1, 0], mShading⟩ q ↔
      ∃ i, c = [i, i + 1] ∧ i + 1 < q.length ∧ q.getD i 0 = q.length - 1 ∧ q.getD (i + 1) 0 = q.length - 2 := by
  rw [C03.mem_meshOccInPerm_iff _ q (by decide) hq, meshOcc_rd_iff_boxes q hq]
  constructor
  · rintro ⟨i, j, rfl, hij, hj, hv, hall⟩
    have hji : j = i + 1 := by
      by_contra hne
      have := (hall (i + 1) (by omega) (by omega) (by omega)).1
      omega
    subst hji
    have := top_two hq (by omega) hj hv fun k hk hka hkb => (hall k hk hka hkb).2
    exact ⟨i, rfl, hj, this.1, this.2⟩
  · rintro ⟨i, rfl, hi, h1, h2⟩
    refine ⟨i, i + 1, rfl, by omega, hi, by omega, fun k hk hki hkj => ⟨by omega, ?_⟩⟩
    have := below_top_two hq (by omega) hi h1 h2 k hk hki hkj
    omega

/-- **the occurrences of `Ru2143._M_PATT`**: `c = [i, i+1]`, second largest value at `i`, maximum at `i + 1` -/
theorem mem_meshOccInPerm_ru_iff (q : NSeq) (hq : IsPerm q) (c : List Nat) :
    c ∈ Model.meshOccInPerm ⟨[0, 1], mShading⟩ q ↔
      ∃ i, c = [i, i + 1] ∧ i + 1 < q.length ∧ q.getD i 0 = q.length - 2 ∧ q.getD (i + 1) 0 = q.length - 1 := by
  rw [C03.mem_meshOccInPerm_iff _ q (by decide) hq, meshOcc_ru_iff_boxes q hq]
  constructor
  · rintro ⟨i, j, rfl, hij, hj, hv, hall⟩
    have hji : j = i + 1 := by
      by_contra hne
      have := (hall (i + 1) (by omega) (by omega) (by omega)).1
      omega
    subst hji
    have := top_two hq hj (by omega) hv fun k hk hka hkb => (hall k hk hkb hka).2
    exact ⟨i, rfl, hj, this.2, this.1⟩
  · rintro ⟨i, rfl, hi, h1, h2⟩
    refine ⟨i, i + 1, rfl, by omega, hi, by omega, fun k hk hki hkj => ⟨by omega, ?_⟩⟩
    have := below_top_two hq hi (by omega) h2 h1 k hk hkj hki
    omega

/-- the same on C03's specification list (`C03.mem_meshOccs_iff`) -/
theorem mem_meshOccs_rd_iff (q : NSeq) (hq : IsPerm q) (c : List Nat) :
    c ∈ Spec.meshOccs ⟨[1, 0], mShading⟩ q ↔
      ∃ i, c = [i, i + 1] ∧ i + 1 < q.length ∧ q.getD i 0 = q.length - 1 ∧ q.getD (i + 1) 0 = q.length - 2 := by
  rw [← C03.meshOcc_eq_spec _ q (by decide) hq]
  exact mem_meshOccInPerm_rd_iff q hq c

theorem mem_meshOccs_ru_iff (q : NSeq) (hq : IsPerm q) (c : List Nat) :
    c ∈ Spec.meshOccs ⟨[0, 1], mShading⟩ q ↔
      ∃ i, c = [i, i + 1] ∧ i + 1 < q.length ∧ q.getD i 0 = q.length - 2 ∧ q.getD (i + 1) 0 = q.length - 1 := by
  rw [← C03.meshOcc_eq_spec _ q (by decide) hq]
  exact mem_meshOccInPerm_ru_iff q hq c

/-- **containment, through C03**: the statements of `C19.meshRd_iff_adjacent` / `C19.meshRu_iff_adjacent` -/
theorem containsMesh_rd_iff_adjacent (q : NSeq) (hq : IsPerm q) :
    Model.containsMesh q ⟨[1, 0], mShading⟩ = true ↔
      ∃ i, i + 1 < q.length ∧ q.getD i 0 = q.length - 1 ∧ q.getD (i + 1) 0 = q.length - 2 := by
  rw [C03.containsMesh_iff q _ (by decide) hq]
  constructor
  · rintro ⟨c, hc⟩
    obtain ⟨i, _, h⟩ := (mem_meshOccInPerm_rd_iff q hq c).mp ((C03.mem_meshOccInPerm_iff _ q (by decide) hq c).mpr hc)
    exact ⟨i, h⟩
  · rintro ⟨i, h⟩
    exact ⟨[i, i + 1], (C03.mem_meshOccInPerm_iff _ q (by decide) hq _).mp
      ((mem_meshOccInPerm_rd_iff q hq _).mpr ⟨i, rfl, h⟩)⟩

theorem containsMesh_ru_iff_adjacent (q : NSeq) (hq : IsPerm q) :
    Model.containsMesh q ⟨[0, 1], mShading⟩ = true ↔
      ∃ i, i + 1 < q.length ∧ q.getD i 0 = q.length - 2 ∧ q.getD (i + 1) 0 = q.length - 1 := by
  rw [C03.containsMesh_iff q _ (by decide) hq]
  constructor
  · rintro ⟨c, hc⟩
    obtain ⟨i, _, h⟩ := (mem_meshOccInPerm_ru_iff q hq c).mp ((C03.mem_meshOccInPerm_iff _ q (by decide) hq c).mpr hc)
    exact ⟨i, h⟩
  · rintro ⟨i, h⟩
    exact ⟨[i, i + 1], (C03.mem_meshOccInPerm_iff _ q (by decide) hq _).mp
      ((mem_meshOccInPerm_ru_iff q hq _).mpr ⟨i, rfl, h⟩)⟩

/-- non-vacuity: in `1 4 3 2` the only occurrence of `(21, M)` is at positions `1, 2` -/
example : [1, 2] ∈ Model.meshOccInPerm ⟨[1, 0], mShading⟩ [0, 3, 2, 1] ∧
    [2, 3] ∉ Model.meshOccInPerm ⟨[1, 0], mShading⟩ [0, 3, 2, 1] := by
  refine ⟨(mem_meshOccInPerm_rd_iff _ (by decide) _).mpr ⟨1, rfl, by decide, by decide, by decide⟩, fun h => ?_⟩
  obtain ⟨i, hc, _, h1, _⟩ := (mem_meshOccInPerm_rd_iff _ (by decide) _).mp h
  have : i = 2 := by simpa using (List.cons.inj hc).1.symm
  subst this
  simp at h1

end C19M
