import PermutaModel.Lemmas.C07Sched
import PermutaModel.Lemmas.C02Ensure

/-! The writes of `_ensure_level` never shorten the cache: along `ensureTrace` the cache length is
    non-decreasing (appends add one level, compaction replaces a level in place).  This is what the
    lock-free fast path of `_get_level` relies on: a level seen to exist still exists when it is read.
    Holds for every object and every request, no invariant needed. -/
open Model Model.C02 Model.C07

namespace C07L

theorem le_getLastD {α} (f : α → Nat) : ∀ (tr : List α) (c : α),
    (c :: tr).Pairwise (fun a b => f a ≤ f b) → ∀ a ∈ c :: tr, f a ≤ f (tr.getLastD c) := by
  intro tr
  induction tr with
  | nil => intro c _ a ha; simp at ha; subst ha; exact Nat.le_refl _
  | cons x xs ih =>
    intro c hp a ha
    rw [List.getLastD_cons]
    rw [List.pairwise_cons] at hp
    rcases List.mem_cons.mp ha with rfl | ha'
    · exact Nat.le_trans (hp.1 x (by simp)) (ih x hp.2 x (by simp))
    · exact ih x hp.2 a ha'

theorem pairwise_const {α} (f : α → Nat) (m : Nat) : ∀ (l : List α), (∀ b ∈ l, f b = m) →
    l.Pairwise (fun a b => f a ≤ f b) := by
  intro l
  induction l with
  | nil => intro _; exact List.Pairwise.nil
  | cons x xs ih =>
    intro h
    refine List.Pairwise.cons ?_ (ih fun b hb => h b (by simp [hb]))
    intro b hb
    rw [h x (by simp), h b (by simp [hb])]

theorem pairwise_append_const {α} (f : α → Nat) (l1 l2 : List α) (m : Nat)
    (h1 : l1.Pairwise (fun a b => f a ≤ f b)) (hle : ∀ a ∈ l1, f a ≤ m) (h2 : ∀ b ∈ l2, f b = m) :
    (l1 ++ l2).Pairwise (fun a b => f a ≤ f b) := by
  rw [List.pairwise_append]
  refine ⟨h1, pairwise_const f m l2 h2, ?_⟩
  intro a ha b hb
  rw [h2 b hb]; exact hle a ha

theorem buildOne_length_le (b : List NSeq) (c c' : List Level) (h : buildOne b c = .ok c') :
    c.length ≤ c'.length := by
  unfold buildOne at h
  split at h
  · cases h
  · simp only [Except.ok.injEq] at h
    subst h
    simp [setLast]
    omega

theorem buildTrace_mono (b : List NSeq) : ∀ (k : Nat) (c : List Level) (tr : List (List Level)),
    buildTrace b k c = .ok tr → (c :: tr).Pairwise (fun a b => a.length ≤ b.length) := by
  intro k
  induction k with
  | zero => intro c tr h; simp [buildTrace] at h; subst h; simp
  | succ k ih =>
    intro c tr h
    unfold buildTrace at h
    cases h1 : buildOne b c with
    | error e => simp [h1] at h
    | ok c' =>
      simp only [h1] at h
      cases h2 : buildTrace b k c' with
      | error e => simp [h2] at h
      | ok rest =>
        simp only [h2, Except.ok.injEq] at h
        subst h
        have hp := ih c' rest h2
        have hle := buildOne_length_le b c c' h1
        refine List.Pairwise.cons ?_ hp
        intro x hx
        rcases List.mem_cons.mp hx with rfl | hx'
        · exact hle
        · exact Nat.le_trans hle ((List.pairwise_cons.mp hp).1 x hx')

theorem meshTrace_mono (b : List Mesh) : ∀ (k : Nat) (c : List Level),
    (c :: meshTrace b k c).Pairwise (fun a b => a.length ≤ b.length) := by
  intro k
  induction k with
  | zero => intro c; simp [meshTrace]
  | succ k ih =>
    intro c
    simp only [meshTrace]
    have hp := ih (c ++ [meshLevel b c.length])
    refine List.Pairwise.cons ?_ hp
    intro x hx
    have hle : c.length ≤ (c ++ [meshLevel b c.length]).length := by simp
    rcases List.mem_cons.mp hx with rfl | hx'
    · exact hle
    · exact Nat.le_trans hle ((List.pairwise_cons.mp hp).1 x hx')

theorem compactTrace_length_eq (c : List Level) (start n : Nat) :
    ∀ w ∈ compactTrace c start n, w.length = c.length := by
  intro w hw
  simp only [compactTrace, List.mem_map] at hw
  obtain ⟨L, _, rfl⟩ := hw
  exact C02L.length_compact c start L

/-- build part followed by compaction part: lengths non-decreasing from the start cache on -/
theorem trace_mono (c : List Level) (tr : List (List Level)) (start n : Nat)
    (h : (c :: tr).Pairwise (fun a b => a.length ≤ b.length)) :
    (c :: (tr ++ compactTrace (tr.getLastD c) start n)).Pairwise (fun a b => a.length ≤ b.length) := by
  rw [← List.cons_append]
  exact pairwise_append_const List.length _ _ (tr.getLastD c).length h (le_getLastD List.length tr c h)
    (compactTrace_length_eq _ start n)

/-- **the cache never shrinks inside `_ensure_level`** (any object, any request) -/
theorem ensureTrace_mono (o : AvObj) (n : Nat) (tr : List AvObj) (h : ensureTrace o n = .ok tr) :
    (o :: tr).Pairwise (fun a b => a.cache.length ≤ b.cache.length) := by
  unfold ensureTrace at h
  cases hb : o.basis with
  | classical b =>
    simp only [hb] at h
    cases h1 : buildTrace b (n + 1 - o.cache.length) o.cache with
    | error e => simp [h1] at h
    | ok t1 =>
      simp only [h1, Except.ok.injEq] at h
      subst h
      have := trace_mono o.cache t1 (o.cache.length - 2) n (buildTrace_mono b _ _ _ h1)
      have h2 := (List.pairwise_map (f := fun c => ({ o with cache := c } : AvObj))
        (R := fun a b => a.cache.length ≤ b.cache.length)).mpr this
      simpa [hb] using h2
  | mesh b =>
    simp only [hb, Except.ok.injEq] at h
    subst h
    have := trace_mono o.cache _ (o.cache.length - 2) n (meshTrace_mono b (n + 1 - o.cache.length) o.cache)
    have h2 := (List.pairwise_map (f := fun c => ({ o with cache := c } : AvObj))
      (R := fun a b => a.cache.length ≤ b.cache.length)).mpr this
    simpa [hb] using h2

/-- the form `SeqOK.mono` asks for: the state before a write is never longer than the state after it -/
theorem ensureTrace_mono_split (o : AvObj) (n : Nat) (pre : List AvObj) (w : AvObj) (post : List AvObj)
    (h : ensureTrace o n = .ok (pre ++ w :: post)) :
    ((o :: pre).getLast (by simp)).cache.length ≤ w.cache.length := by
  have hp := ensureTrace_mono o n _ h
  rw [← List.cons_append, List.pairwise_append] at hp
  exact hp.2.2 _ (List.getLast_mem _) w (by simp)

end C07L
