import PermutaModel.Lemmas.Order
/-! What Python's dispatch computes, class by class, for the dunder table *generated from the current
    source*: every lemma here is proved by evaluating `Model.C08.richcmp` on the generated table, so it
    is re-checked whenever a guard, a failure value or a body kind changes in the repository. -/
open Model Model.C08 Generated

namespace C08

/-- the four mesh-type pattern classes -/
def IsMeshCls (c : DCls) : Prop :=
  c = .MeshPatt ∨ c = .BivincularPatt ∨ c = .VincularPatt ∨ c = .CovincularPatt

instance (c : DCls) : Decidable (IsMeshCls c) := by unfold IsMeshCls; infer_instance

/-- objects that can exist: a mesh-type object has one of the four mesh classes -/
def Atom.WF : Atom → Prop
  | .perm _ => True
  | .mesh m => IsMeshCls m.cls

def Obj.WF : Obj → Prop
  | .atom a => Atom.WF a
  | .basis _ => True
  | .mbasis es => ∀ m ∈ es, IsMeshCls m.cls

theorem meshKeyEq_comm (x y : MObj) : meshKeyEq x y = meshKeyEq y x := by
  unfold meshKeyEq
  rw [Bool.eq_iff_iff]
  simp only [Bool.and_eq_true, beq_iff_eq]
  constructor <;> (rintro ⟨a, b⟩; exact ⟨a.symm, b.symm⟩)

/-- **what `x op y` is for two mesh-type patterns**: `==`/`!=` compare pattern and shading whatever
    the classes, and all four order operators are defined for every pair of classes and compare the
    keys `(pattern, sorted(shading))` -/
def meshCmpSpec : DMeth → MObj → MObj → Except Proto.Err Bool
  | .eq, x, y => .ok (meshKeyEq x y)
  | .ne, x, y => .ok (!meshKeyEq x y)
  | .lt, x, y => .ok (meshKeyLt x y)
  | .le, x, y => .ok (meshKeyLt x y || meshKeyEq x y)
  | .gt, x, y => .ok (meshKeyLt y x)
  | .ge, x, y => .ok (meshKeyLt y x || meshKeyEq y x)

/-- the same with the operand order the dispatch really uses for `==` (reflected call first when the
    right operand's class is a proper subclass) -/
def meshCmpRaw : DMeth → MObj → MObj → Except Proto.Err Bool
  | .eq, x, y => .ok (if y.cls != x.cls && isSubclass y.cls x.cls then meshKeyEq y x else meshKeyEq x y)
  | .ne, x, y => .ok (!(if y.cls != x.cls && isSubclass y.cls x.cls then meshKeyEq y x else meshKeyEq x y))
  | m, x, y => meshCmpSpec m x y

theorem cmpAtom_mesh_raw (m : DMeth) (x y : MObj) (hx : IsMeshCls x.cls) (hy : IsMeshCls y.cls) :
    cmpAtom m (.mesh x) (.mesh y) = meshCmpRaw m x y := by
  obtain ⟨cx, px, sx⟩ := x
  obtain ⟨cy, py, sy⟩ := y
  simp only at hx hy
  rcases hx with rfl | rfl | rfl | rfl <;> rcases hy with rfl | rfl | rfl | rfl <;> cases m <;> rfl

theorem cmpAtom_mesh (m : DMeth) (x y : MObj) (hx : IsMeshCls x.cls) (hy : IsMeshCls y.cls) :
    cmpAtom m (.mesh x) (.mesh y) = meshCmpSpec m x y := by
  rw [cmpAtom_mesh_raw m x y hx hy]
  cases m <;> simp only [meshCmpRaw, meshCmpSpec, meshKeyEq_comm y x, ite_self]

/-- what `p op q` is for two permutations: `==` is tuple equality, the order is `(len, tuple)` -/
def permCmpSpec : DMeth → NSeq → NSeq → Bool
  | .eq, p, q => p == q
  | .ne, p, q => !(p == q)
  | .lt, p, q => permLt p q
  | .le, p, q => permLt p q || p == q
  | .gt, p, q => permLt q p
  | .ge, p, q => permLt q p || q == p

theorem cmpAtom_perm (m : DMeth) (p q : NSeq) :
    cmpAtom m (.perm p) (.perm q) = .ok (permCmpSpec m p q) := by
  cases m <;> rfl

/-- a permutation against a mesh-type pattern: never equal, never ordered -/
def mixedSpec : DMeth → Except Proto.Err Bool
  | .eq => .ok false
  | .ne => .ok true
  | _ => .error .typeError

theorem cmpAtom_perm_mesh (m : DMeth) (p : NSeq) (y : MObj) (hy : IsMeshCls y.cls) :
    cmpAtom m (.perm p) (.mesh y) = mixedSpec m := by
  obtain ⟨cy, py, sy⟩ := y
  simp only at hy
  rcases hy with rfl | rfl | rfl | rfl <;> cases m <;> rfl

theorem cmpAtom_mesh_perm (m : DMeth) (x : MObj) (q : NSeq) (hx : IsMeshCls x.cls) :
    cmpAtom m (.mesh x) (.perm q) = mixedSpec m := by
  obtain ⟨cx, px, sx⟩ := x
  simp only at hx
  rcases hx with rfl | rfl | rfl | rfl <;> cases m <;> rfl

/-! ### patterns inside the object universe -/

theorem callDunder_atom (fuel : Nat) (m : DMeth) (a b : Atom) :
    callDunder objOps fuel m (.atom a) (.atom b) = callDunder atomOps fuel m a b := by
  induction fuel generalizing m a b with
  | zero => rfl
  | succ n ih =>
    simp only [callDunder]
    have hcls : objOps.cls (.atom a) = atomOps.cls a := rfl
    rw [hcls]
    cases hres : resolve (atomOps.cls a) m with
    | none =>
      simp only
      cases htb : tupleBased (atomOps.cls a) with
      | true => rfl
      | false =>
        cases m <;> simp only [ih] <;> rfl
    | some d =>
      obtain ⟨g, f, bd⟩ := d
      have hinst : ∀ c, objOps.inst (.atom b) c = atomOps.inst b c := fun _ => rfl
      simp only [hinst]
      cases g <;> cases bd <;> simp only [ih] <;> rfl

theorem cmp_atom (m : DMeth) (a b : Atom) : cmp m (.atom a) (.atom b) = cmpAtom m a b := by
  unfold cmp cmpAtom richcmp
  simp only [callDunder_atom]
  rfl

/-! ### bases -/

theorem itemsCmp_eq_perms : ∀ (xs ys : List NSeq),
    itemsCmp .eq (xs.map Atom.perm) (ys.map Atom.perm) = .ok (xs == ys)
  | [], [] => rfl
  | [], _ :: _ => rfl
  | _ :: _, [] => rfl
  | x :: xs, y :: ys => by
    simp only [List.map_cons, itemsCmp, cmpAtom_perm, permCmpSpec]
    by_cases h : x = y
    · subst h
      simp only [beq_self_eq_true, itemsCmp_eq_perms xs ys]
      simp
    · have : (x == y) = false := by simp [h]
      simp [this]

/-- element-wise value equality of two tuples of mesh objects -/
def meshListEq : List MObj → List MObj → Bool
  | [], [] => true
  | x :: xs, y :: ys => meshKeyEq x y && meshListEq xs ys
  | _, _ => false

theorem itemsCmp_eq_meshes : ∀ (xs ys : List MObj), (∀ m ∈ xs, IsMeshCls m.cls) → (∀ m ∈ ys, IsMeshCls m.cls) →
    itemsCmp .eq (xs.map Atom.mesh) (ys.map Atom.mesh) = .ok (meshListEq xs ys)
  | [], [], _, _ => rfl
  | [], _ :: _, _, _ => rfl
  | _ :: _, [], _, _ => rfl
  | x :: xs, y :: ys, hx, hy => by
    have hx0 := hx x (List.mem_cons_self ..)
    have hy0 := hy y (List.mem_cons_self ..)
    simp only [List.map_cons, itemsCmp, cmpAtom_mesh .eq x y hx0 hy0, meshCmpSpec, meshListEq]
    cases h : meshKeyEq x y with
    | true =>
      simp only [Bool.true_and]
      exact itemsCmp_eq_meshes xs ys (fun m hm => hx m (List.mem_cons_of_mem _ hm))
        (fun m hm => hy m (List.mem_cons_of_mem _ hm))
    | false => rfl

theorem cmp_eq_basis (xs ys : List NSeq) : cmp .eq (.basis xs) (.basis ys) = .ok (xs == ys) := by
  have h : cmp .eq (.basis xs) (.basis ys) =
      (match itemsCmp .eq (xs.map Atom.perm) (ys.map Atom.perm) with
        | .ok r => .ok r | .error e => .error e) := by
    cases hh : itemsCmp .eq (xs.map Atom.perm) (ys.map Atom.perm) <;>
      simp [cmp, richcmp, callDunder, dunderFuel, objOps, Obj.cls, resolve, resolveFuel, dunder, Obj.inst, isSubclass,
        isSubFuel, objBody, objTupleCmp, Obj.items, hh]
  rw [h, itemsCmp_eq_perms]

theorem cmp_eq_mbasis (xs ys : List MObj) (hx : ∀ m ∈ xs, IsMeshCls m.cls) (hy : ∀ m ∈ ys, IsMeshCls m.cls) :
    cmp .eq (.mbasis xs) (.mbasis ys) = .ok (meshListEq xs ys) := by
  have h : cmp .eq (.mbasis xs) (.mbasis ys) =
      (match itemsCmp .eq (xs.map Atom.mesh) (ys.map Atom.mesh) with
        | .ok r => .ok r | .error e => .error e) := by
    cases hh : itemsCmp .eq (xs.map Atom.mesh) (ys.map Atom.mesh) <;>
      simp [cmp, richcmp, callDunder, dunderFuel, objOps, Obj.cls, resolve, resolveFuel, dunder, Obj.inst, isSubclass,
        isSubFuel, objBody, objTupleCmp, Obj.items, hh]
  rw [h, itemsCmp_eq_meshes xs ys hx hy]

theorem cmp_eq_basis_mbasis (xs : List NSeq) (ys : List MObj) :
    cmp .eq (.basis xs) (.mbasis ys) = .ok false ∧ cmp .eq (.mbasis ys) (.basis xs) = .ok false := by
  constructor <;> rfl

theorem cmp_ne_basis (xs ys : List NSeq) : cmp .ne (.basis xs) (.basis ys) = .ok (!(xs == ys)) := by
  have h : cmp .ne (.basis xs) (.basis ys) =
      (match itemsCmp .eq (xs.map Atom.perm) (ys.map Atom.perm) with
        | .ok r => .ok (!r) | .error e => .error e) := by
    cases hh : itemsCmp .eq (xs.map Atom.perm) (ys.map Atom.perm) <;>
      simp [cmp, richcmp, callDunder, dunderFuel, objOps, Obj.cls, resolve, resolveFuel, dunder, Obj.inst, isSubclass,
        isSubFuel, objBody, objTupleCmp, Obj.items, hh]
  rw [h, itemsCmp_eq_perms]

theorem cmp_ne_mbasis (xs ys : List MObj) (hx : ∀ m ∈ xs, IsMeshCls m.cls) (hy : ∀ m ∈ ys, IsMeshCls m.cls) :
    cmp .ne (.mbasis xs) (.mbasis ys) = .ok (!meshListEq xs ys) := by
  have h : cmp .ne (.mbasis xs) (.mbasis ys) =
      (match itemsCmp .eq (xs.map Atom.mesh) (ys.map Atom.mesh) with
        | .ok r => .ok (!r) | .error e => .error e) := by
    cases hh : itemsCmp .eq (xs.map Atom.mesh) (ys.map Atom.mesh) <;>
      simp [cmp, richcmp, callDunder, dunderFuel, objOps, Obj.cls, resolve, resolveFuel, dunder, Obj.inst, isSubclass,
        isSubFuel, objBody, objTupleCmp, Obj.items, hh]
  rw [h, itemsCmp_eq_meshes xs ys hx hy]

theorem cmp_ne_basis_mbasis (xs : List NSeq) (ys : List MObj) :
    cmp .ne (.basis xs) (.mbasis ys) = .ok true ∧ cmp .ne (.mbasis ys) (.basis xs) = .ok true := by
  constructor <;> rfl

theorem meshListEq_refl : ∀ xs : List MObj, meshListEq xs xs = true
  | [] => rfl
  | x :: xs => by simp [meshListEq, meshKeyEq, meshListEq_refl xs]

theorem meshListEq_symm : ∀ xs ys : List MObj, meshListEq xs ys = meshListEq ys xs
  | [], [] => rfl
  | [], _ :: _ => rfl
  | _ :: _, [] => rfl
  | x :: xs, y :: ys => by simp only [meshListEq, meshKeyEq_comm x y, meshListEq_symm xs ys]

theorem meshKeyEq_trans {x y z : MObj} (h1 : meshKeyEq x y = true) (h2 : meshKeyEq y z = true) :
    meshKeyEq x z = true := by
  rw [meshKeyEq_iff] at *
  exact ⟨h1.1.trans h2.1, h1.2.trans h2.2⟩

theorem meshListEq_trans : ∀ xs ys zs : List MObj, meshListEq xs ys = true → meshListEq ys zs = true →
    meshListEq xs zs = true
  | [], [], [], _, _ => rfl
  | [], [], _ :: _, _, h => by simp [meshListEq] at h
  | [], _ :: _, _, h, _ => by simp [meshListEq] at h
  | _ :: _, [], _, h, _ => by simp [meshListEq] at h
  | _ :: _, _ :: _, [], _, h => by simp [meshListEq] at h
  | x :: xs, y :: ys, z :: zs, h1, h2 => by
    simp only [meshListEq, Bool.and_eq_true] at *
    exact ⟨meshKeyEq_trans h1.1 h2.1, meshListEq_trans xs ys zs h1.2 h2.2⟩


end C08
