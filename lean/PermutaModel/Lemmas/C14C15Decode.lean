import PermutaModel.Lemmas.C14C15
import PermutaModel.Lemmas.C14Rank
/-! C14 ↔ C15: C15's own copies of `pinword_to_perm` / `pinwords_of_length` agree with C14's. -/
namespace C14C15
open Model.C14 Model.C14.Letter Spec.C14 Proto C14L

theorem ratMax_foldl (rest : List Rat) : ∀ a : Rat,
    rest.foldl (fun acc x => match acc with
      | none => some x
      | some m => some (if m < x then x else m)) (some a) = some (rest.foldl max a) := by
  induction rest with
  | nil => intro a; rfl
  | cons b r ih =>
    intro a
    simp only [List.foldl_cons, ih]
    congr 2
    grind

theorem ratMin_foldl (rest : List Rat) : ∀ a : Rat,
    rest.foldl (fun acc x => match acc with
      | none => some x
      | some m => some (if x < m then x else m)) (some a) = some (rest.foldl min a) := by
  induction rest with
  | nil => intro a; rfl
  | cons b r ih =>
    intro a
    simp only [List.foldl_cons, ih]
    congr 2
    grind

theorem ratMax_eq (l : List Rat) (h : l ≠ []) : Model.C15.ratMax? l = some (maxL l) := by
  cases l with
  | nil => exact absurd rfl h
  | cons a rest => simp only [Model.C15.ratMax?, List.foldl_cons, maxL]; exact ratMax_foldl rest a

theorem ratMin_eq (l : List Rat) (h : l ≠ []) : Model.C15.ratMin? l = some (minL l) := by
  cases l with
  | nil => exact absurd rfl h
  | cons a rest => simp only [Model.C15.ratMin?, List.foldl_cons, minL]; exact ratMin_foldl rest a

theorem maxL_reverse (l : List Rat) (h : l ≠ []) : maxL l.reverse = maxL l := by
  have h' : l.reverse ≠ [] := by simpa using h
  have h1 := le_maxL (l := l) (List.mem_reverse.mp (maxL_mem h'))
  have h2 := le_maxL (l := l.reverse) (List.mem_reverse.mpr (maxL_mem h))
  grind

theorem minL_reverse (l : List Rat) (h : l ≠ []) : minL l.reverse = minL l := by
  have h' : l.reverse ≠ [] := by simpa using h
  have h1 := minL_le (l := l) (List.mem_reverse.mp (minL_mem h'))
  have h2 := minL_le (l := l.reverse) (List.mem_reverse.mpr (minL_mem h))
  grind

theorem maxX_rev (pts : List Pt) (h : pts ≠ []) :
    Model.C15.maxX pts.reverse = .ok (maxL (pts.map Prod.fst)) := by
  have hne : pts.map Prod.fst ≠ [] := by simpa using h
  simp only [Model.C15.maxX, List.map_reverse]
  rw [ratMax_eq _ (by simpa using hne), maxL_reverse _ hne]
theorem minX_rev (pts : List Pt) (h : pts ≠ []) :
    Model.C15.minX pts.reverse = .ok (minL (pts.map Prod.fst)) := by
  have hne : pts.map Prod.fst ≠ [] := by simpa using h
  simp only [Model.C15.minX, List.map_reverse]
  rw [ratMin_eq _ (by simpa using hne), minL_reverse _ hne]
theorem maxY_rev (pts : List Pt) (h : pts ≠ []) :
    Model.C15.maxY pts.reverse = .ok (maxL (pts.map Prod.snd)) := by
  have hne : pts.map Prod.snd ≠ [] := by simpa using h
  simp only [Model.C15.maxY, List.map_reverse]
  rw [ratMax_eq _ (by simpa using hne), maxL_reverse _ hne]
theorem minY_rev (pts : List Pt) (h : pts ≠ []) :
    Model.C15.minY pts.reverse = .ok (minL (pts.map Prod.snd)) := by
  have hne : pts.map Prod.snd ≠ [] := by simpa using h
  simp only [Model.C15.minY, List.map_reverse]
  rw [ratMin_eq _ (by simpa using hne), minL_reverse _ hne]


theorem numeral_bridge (xPos yPos : Bool) (pts : List Pt) (p : Pt)
    (h : charNumeral xPos yPos pts = .ok p) :
    pts ≠ [] ∧ p = (beyond xPos (pts.map Prod.fst), beyond yPos (pts.map Prod.snd)) := by
  unfold charNumeral at h
  cases pts with
  | nil => simp at h
  | cons a t => simp at h; exact ⟨by simp, h.symm⟩

theorem vert_bridge (pos : Bool) (pts : List Pt) (p : Pt) (h : charDir true pos pts = .ok p) :
    Model.C15.charVert pos pts.reverse = .ok p := by
  cases pts with
  | nil => simp [charDir] at h
  | cons last init =>
    simp only [charDir, if_true] at h
    cases hs : separate last.1 (init.map Prod.fst) with
    | error e => simp [hs] at h
    | ok x =>
      simp only [hs, Except.ok.injEq] at h
      subst h
      unfold separate at hs
      have hne : init ≠ [] := by
        intro h0; subst h0; simp at hs
      have hE : (init.map Prod.fst).isEmpty = false := by cases init <;> simp_all
      simp only [hE, Bool.false_eq_true, if_false] at hs
      have hrest : ((last :: init).reverse).dropLast = init.reverse := by simp
      have hlast : ((last :: init).reverse).getLast?.getD (0, 0) = last := by simp
      unfold Model.C15.charVert
      simp only [hrest, hlast, maxX_rev init hne, minX_rev init hne,
        maxY_rev (last :: init) (by simp), minY_rev (last :: init) (by simp)]
      cases pos
      · simp only [bind, Except.bind, pure, Except.pure, Bool.false_eq_true, if_false, beyond]
        split at hs
        · rename_i h1
          simp only [h1, if_true]
          simp only [Except.ok.injEq] at hs
          rw [← hs]; rfl
        · rename_i h1
          split at hs
          · rename_i h2
            simp only [h1, h2, if_false, if_true]
            simp only [Except.ok.injEq] at hs
            rw [← hs]; rfl
          · cases hs
      · simp only [bind, Except.bind, pure, Except.pure, if_true, beyond]
        split at hs
        · rename_i h1
          simp only [h1, if_true]
          simp only [Except.ok.injEq] at hs
          rw [← hs]; rfl
        · rename_i h1
          split at hs
          · rename_i h2
            simp only [h1, h2, if_false, if_true]
            simp only [Except.ok.injEq] at hs
            rw [← hs]; rfl
          · cases hs

theorem horiz_bridge (pos : Bool) (pts : List Pt) (p : Pt) (h : charDir false pos pts = .ok p) :
    Model.C15.charHoriz pos pts.reverse = .ok p := by
  cases pts with
  | nil => simp [charDir] at h
  | cons last init =>
    simp only [charDir, Bool.false_eq_true, if_false] at h
    cases hs : separate last.2 (init.map Prod.snd) with
    | error e => simp [hs] at h
    | ok x =>
      simp only [hs, Except.ok.injEq] at h
      subst h
      unfold separate at hs
      have hne : init ≠ [] := by
        intro h0; subst h0; simp at hs
      have hE : (init.map Prod.snd).isEmpty = false := by cases init <;> simp_all
      simp only [hE, Bool.false_eq_true, if_false] at hs
      have hrest : ((last :: init).reverse).dropLast = init.reverse := by simp
      have hlast : ((last :: init).reverse).getLast?.getD (0, 0) = last := by simp
      unfold Model.C15.charHoriz
      simp only [hrest, hlast, maxY_rev init hne, minY_rev init hne,
        maxX_rev (last :: init) (by simp), minX_rev (last :: init) (by simp)]
      cases pos
      · simp only [bind, Except.bind, pure, Except.pure, Bool.false_eq_true, if_false, beyond]
        split at hs
        · rename_i h1
          simp only [h1, if_true]
          simp only [Except.ok.injEq] at hs
          rw [← hs]; rfl
        · rename_i h1
          split at hs
          · rename_i h2
            simp only [h1, h2, if_false, if_true]
            simp only [Except.ok.injEq] at hs
            rw [← hs]; rfl
          · cases hs
      · simp only [bind, Except.bind, pure, Except.pure, if_true, beyond]
        split at hs
        · rename_i h1
          simp only [h1, if_true]
          simp only [Except.ok.injEq] at hs
          rw [← hs]; rfl
        · rename_i h1
          split at hs
          · rename_i h2
            simp only [h1, h2, if_false, if_true]
            simp only [Except.ok.injEq] at hs
            rw [← hs]; rfl
          · cases hs


theorem ofChar_cases (c : Char) :
    (c = '1' ∧ ofChar c = q1) ∨ (c = '2' ∧ ofChar c = q2) ∨ (c = '3' ∧ ofChar c = q3)
    ∨ (c = '4' ∧ ofChar c = q4) ∨ (c = 'U' ∧ ofChar c = U) ∨ (c = 'L' ∧ ofChar c = L)
    ∨ (c = 'D' ∧ ofChar c = D) ∨ (c = 'R' ∧ ofChar c = R)
    ∨ ((c ≠ '1' ∧ c ≠ '2' ∧ c ≠ '3' ∧ c ≠ '4' ∧ c ≠ 'U' ∧ c ≠ 'L' ∧ c ≠ 'D' ∧ c ≠ 'R') ∧ ofChar c = X c) := by
  unfold ofChar
  by_cases h1 : c = '1'; · simp [h1]
  by_cases h2 : c = '2'; · simp [h2]
  by_cases h3 : c = '3'; · simp [h3]
  by_cases h4 : c = '4'; · simp [h4]
  by_cases h5 : c = 'U'; · simp [h5]
  by_cases h6 : c = 'L'; · simp [h6]
  by_cases h7 : c = 'D'; · simp [h7]
  by_cases h8 : c = 'R'; · simp [h8]
  simp [h1, h2, h3, h4, h5, h6, h7, h8]

theorem call_bridge (c : Char) (pts : List Pt) (p : Pt) (h : call (ofChar c) pts = .ok p) :
    Model.C15.callChar c pts.reverse = .ok p := by
  rcases ofChar_cases c with ⟨rfl, e⟩ | ⟨rfl, e⟩ | ⟨rfl, e⟩ | ⟨rfl, e⟩ | ⟨rfl, e⟩ | ⟨rfl, e⟩ | ⟨rfl, e⟩
      | ⟨rfl, e⟩ | ⟨_, e⟩ <;> rw [e] at h <;> simp only [call] at h
  · obtain ⟨hne, rfl⟩ := numeral_bridge _ _ _ _ h
    simp [Model.C15.callChar, maxX_rev _ hne, maxY_rev _ hne, beyond, bind, Except.bind, pure, Except.pure]
  · obtain ⟨hne, rfl⟩ := numeral_bridge _ _ _ _ h
    simp [Model.C15.callChar, minX_rev _ hne, maxY_rev _ hne, beyond, bind, Except.bind, pure, Except.pure]
  · obtain ⟨hne, rfl⟩ := numeral_bridge _ _ _ _ h
    simp [Model.C15.callChar, minX_rev _ hne, minY_rev _ hne, beyond, bind, Except.bind, pure, Except.pure]
  · obtain ⟨hne, rfl⟩ := numeral_bridge _ _ _ _ h
    simp [Model.C15.callChar, maxX_rev _ hne, minY_rev _ hne, beyond, bind, Except.bind, pure, Except.pure]
  · simpa [Model.C15.callChar] using vert_bridge _ _ _ h
  · simpa [Model.C15.callChar] using horiz_bridge _ _ _ h
  · simpa [Model.C15.callChar] using vert_bridge _ _ _ h
  · simpa [Model.C15.callChar] using horiz_bridge _ _ _ h
  · cases h


theorem build_bridge (u : CW) : ∀ pts pts' : List Pt, buildPts pts (toL u) = .ok pts' →
    Model.C15.placePins pts.reverse u = .ok pts'.reverse := by
  induction u with
  | nil => intro pts pts' h; simp only [toL, List.map_nil, buildPts, Except.ok.injEq] at h; subst h; rfl
  | cons c u ih =>
    intro pts pts' h
    simp only [toL, List.map_cons, buildPts] at h
    cases hs : stepPts pts (ofChar c) with
    | error e => simp [hs] at h
    | ok pts1 =>
      simp only [hs] at h
      unfold stepPts at hs
      cases hc : call (ofChar c) pts with
      | error e => simp [hc] at hs
      | ok p =>
        simp only [hc] at hs
        split at hs
        · cases hs
        · rename_i hz
          simp only [Except.ok.injEq] at hs
          subst hs
          have := ih (p :: pts) pts' h
          simp only [Model.C15.placePins, call_bridge c pts p hc, bind, Except.bind]
          have hz' : (p.1 == 0 || p.2 == 0) = false := by
            simp only [not_or] at hz
            simp [hz.1, hz.2]
          simp only [hz', Bool.false_eq_true, if_false]
          simpa using this

theorem ptLe_antisymm (a b : Pt) (h1 : ptLe a b = true) (h2 : ptLe b a = true) : a = b := by
  simp only [ptLe, Bool.or_eq_true, Bool.and_eq_true, decide_eq_true_eq] at h1 h2
  apply Prod.ext <;> grind

theorem sorted_reverse (l : List Pt) : l.reverse.mergeSort ptLe = l.mergeSort ptLe := by
  apply List.Perm.eq_of_pairwise (le := fun a b => ptLe a b = true)
  · intro a b _ _ h1 h2; exact ptLe_antisymm a b h1 h2
  · exact List.pairwise_mergeSort ptLe_trans ptLe_total _
  · exact List.pairwise_mergeSort ptLe_trans ptLe_total _
  · exact (List.mergeSort_perm _ _).trans ((List.reverse_perm l).trans (List.mergeSort_perm _ _).symm)

/-- C15's copy of `pinword_to_perm` computes what C14's does, whenever the latter succeeds -/
theorem decode_bridge (u : CW) (π : NSeq) (h : pinwordToPerm (toL u) = .ok π) :
    Model.C15.pinwordToPerm u = .ok π := by
  unfold pinwordToPerm pinPoints at h
  cases hb : buildPts [origin] (toL u) with
  | error e => simp [hb] at h
  | ok pts =>
    simp only [hb, Except.ok.injEq] at h
    obtain ⟨newer, rfl, _⟩ := buildPts_suffix _ _ _ hb
    have hp := build_bridge u [origin] _ hb
    simp only [List.reverse_cons, List.reverse_nil, List.nil_append, List.reverse_append,
      List.cons_append] at hp
    have hcmp : (fun a b : Pt => decide (a.1 < b.1) || (a.1 == b.1 && decide (a.2 ≤ b.2))) = ptLe := by
      funext a b; simp only [ptLe]; congr 2
    simp only [Model.C15.pinwordToPerm, origin] at hp ⊢
    simp only [hp, bind, Except.bind, pure, Except.pure, List.drop_one, List.tail_cons, hcmp,
      sorted_reverse]
    rw [← h, List.dropLast_concat, permOfPts_eq]
    simp only [sortedPins, ys, List.map_map]
    congr 1
    apply List.map_congr_left
    intro p _
    simp only [Function.comp, rank, List.countP_eq_length_filter, List.filter_map, List.length_map]
    rfl

end C14C15
