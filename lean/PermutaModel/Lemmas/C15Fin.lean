import PermutaModel.Model.C15
import Mathlib.Data.Fintype.Card
import Mathlib.Data.Fintype.Pigeonhole
/-!
`isFiniteB` (the model's finiteness test of an explicit DFA) is correct: for a well-formed DFA all
of whose states are reachable, the test succeeds iff the accepted words are bounded in length.
-/
namespace C15Fin
open Model.C15

/-- transitions stay inside the state set -/
def WF (d : DFA) : Prop := ∀ q, q < d.size → ∀ i, i < DIRS.length → d.step q i < d.size

/-- acceptance starting from state `q` -/
def accFrom (d : DFA) (q : Nat) (w : Word) : Bool :=
  match d.run (some q) w with
  | some r => d.acc.getD r false
  | none => false

theorem accepts_eq (d : DFA) (w : Word) : d.accepts w = accFrom d 0 w := rfl

theorem run_none (d : DFA) (w : Word) : d.run none w = none := by cases w <;> rfl

theorem run_cons (d : DFA) (q : Nat) (c : Char) (w : Word) :
    d.run (some q) (c :: w) = d.run ((letterIdx c).map (d.step q)) w := rfl

theorem run_append (d : DFA) (w1 w2 : Word) : ∀ s, d.run s (w1 ++ w2) = d.run (d.run s w1) w2 := by
  induction w1 with
  | nil => intro s; cases s <;> cases w2 <;> rfl
  | cons c w ih =>
    intro s
    cases s with
    | none => simp [run_none]
    | some q => simp only [List.cons_append, run_cons]; exact ih _

theorem letterIdx_lt {c : Char} {i : Nat} (h : letterIdx c = some i) : i < DIRS.length := by
  unfold letterIdx at h
  simp only at h
  split at h
  · rename_i hlt; cases h; exact hlt
  · cases h

theorem letterIdx_dirs : ∀ i, i < DIRS.length → letterIdx (DIRS.getD i ' ') = some i := by decide

theorem run_lt (d : DFA) (hwf : WF d) (w : Word) : ∀ q r, q < d.size → d.run (some q) w = some r → r < d.size := by
  induction w with
  | nil => intro q r hq h; simp [DFA.run] at h; omega
  | cons c w ih =>
    intro q r hq h
    rw [run_cons] at h
    cases hl : letterIdx c with
    | none => rw [hl] at h; simp [run_none] at h
    | some i =>
      rw [hl] at h
      exact ih _ r (hwf q hq i (letterIdx_lt hl)) h

theorem accFrom_nil (d : DFA) (q : Nat) : accFrom d q [] = d.acc.getD q false := rfl

theorem accFrom_cons (d : DFA) (q : Nat) (c : Char) (w : Word) :
    accFrom d q (c :: w) = match letterIdx c with
      | some i => accFrom d (d.step q i) w
      | none => false := by
  unfold accFrom
  rw [run_cons]
  cases letterIdx c <;> simp [run_none]

theorem accFrom_append (d : DFA) (q r : Nat) (u v : Word) (h : d.run (some q) u = some r) :
    accFrom d q (u ++ v) = accFrom d r v := by
  unfold accFrom; rw [run_append, h]

/-! ### Boolean arrays indexed by states -/

theorem getD_mapRange (n : Nat) (f : Nat → Bool) (q : Nat) (hq : q < n) :
    ((Array.range n).map f).getD q false = f q := by
  simp [Array.getD, hq]

theorem any_mapRange (n : Nat) (f : Nat → Bool) :
    ((Array.range n).map f).any id = true ↔ ∃ q, q < n ∧ f q = true := by
  rw [Array.any_eq_true]
  constructor
  · rintro ⟨i, hi, h⟩
    simp at hi
    exact ⟨i, hi, by simpa using h⟩
  · rintro ⟨q, hq, h⟩
    exact ⟨q, by simpa using hq, by simpa using h⟩

/-- one round of backward closure -/
def G (d : DFA) (co : Array Bool) : Array Bool :=
  (Array.range d.size).map fun q =>
    co.getD q false || (List.range DIRS.length).any fun i => co.getD (d.step q i) false

/-- one round of peeling -/
def F (d : DFA) (g : Array Bool) : Array Bool :=
  (Array.range d.size).map fun q =>
    g.getD q false && (List.range DIRS.length).any fun i => g.getD (d.step q i) false

theorem coreachLoop_succ (d : DFA) (k : Nat) (co : Array Bool) :
    coreachLoop d (k + 1) co = coreachLoop d k (G d co) := rfl

theorem peelLoop_succ (d : DFA) (k : Nat) (g : Array Bool) :
    peelLoop d (k + 1) g = peelLoop d k (F d g) := rfl

theorem G_get (d : DFA) (co : Array Bool) (q : Nat) (hq : q < d.size) :
    (G d co).getD q false = true ↔
      co.getD q false = true ∨ ∃ i, i < DIRS.length ∧ co.getD (d.step q i) false = true := by
  unfold G
  rw [getD_mapRange _ _ _ hq]
  simp [List.any_eq_true]

theorem F_get (d : DFA) (g : Array Bool) (q : Nat) (hq : q < d.size) :
    (F d g).getD q false = true ↔
      g.getD q false = true ∧ ∃ i, i < DIRS.length ∧ g.getD (d.step q i) false = true := by
  unfold F
  rw [getD_mapRange _ _ _ hq]
  simp [List.any_eq_true]

/-- the run of `w` from `q` ends in a state marked by `co` -/
def EndsIn (d : DFA) (co : Array Bool) (q : Nat) (w : Word) : Prop :=
  ∃ r, d.run (some q) w = some r ∧ co.getD r false = true

theorem run_snoc_dir (d : DFA) (q r i : Nat) (w : Word) (h : d.run (some q) w = some r) (hi : i < DIRS.length) :
    d.run (some q) (w ++ [DIRS.getD i ' ']) = some (d.step r i) := by
  rw [run_append, h, run_cons, letterIdx_dirs i hi]; rfl

theorem coreachLoop_spec (d : DFA) (hwf : WF d) (k : Nat) : ∀ (co : Array Bool) (q : Nat), q < d.size →
    ((coreachLoop d k co).getD q false = true ↔ ∃ w, w.length ≤ k ∧ EndsIn d co q w) := by
  induction k with
  | zero =>
    intro co q _
    simp only [coreachLoop]
    constructor
    · intro h; exact ⟨[], by simp, q, rfl, h⟩
    · rintro ⟨w, hw, r, hr, hco⟩
      have : w = [] := List.eq_nil_of_length_eq_zero (by omega)
      subst this
      simp [DFA.run] at hr; subst hr; exact hco
  | succ k ih =>
    intro co q hq
    rw [coreachLoop_succ, ih (G d co) q hq]
    constructor
    · rintro ⟨w, hw, r, hr, hG⟩
      have hr' := run_lt d hwf w q r hq hr
      rcases (G_get d co r hr').mp hG with h | ⟨i, hi, h⟩
      · exact ⟨w, by omega, r, hr, h⟩
      · exact ⟨w ++ [DIRS.getD i ' '], by simp; omega, d.step r i, run_snoc_dir d q r i w hr hi, h⟩
    · rintro ⟨w, hw, r, hr, hco⟩
      by_cases hlen : w.length ≤ k
      · exact ⟨w, hlen, r, hr, (G_get d co r (run_lt d hwf w q r hq hr)).mpr (Or.inl hco)⟩
      · -- split off the last letter
        rcases List.eq_nil_or_concat w with rfl | ⟨w', c, rfl⟩
        · simp at hlen
        · rw [List.concat_eq_append] at hr hw
          rw [run_append] at hr
          cases hr1 : d.run (some q) w' with
          | none => rw [hr1] at hr; simp [run_none] at hr
          | some r1 =>
            rw [hr1, run_cons] at hr
            cases hl : letterIdx c with
            | none => rw [hl] at hr; simp [DFA.run] at hr
            | some i =>
              rw [hl] at hr
              simp [DFA.run] at hr
              subst hr
              have hr1' := run_lt d hwf w' q r1 hq hr1
              refine ⟨w', by simp at hw; omega, r1, hr1, (G_get d co r1 hr1').mpr (Or.inr ⟨i, letterIdx_lt hl, hco⟩)⟩

/-- a state is live if some word is accepted from it -/
def Live (d : DFA) (q : Nat) : Prop := ∃ w, accFrom d q w = true

theorem accFrom_iff_endsIn (d : DFA) (q : Nat) (w : Word) : accFrom d q w = true ↔ EndsIn d d.acc q w := by
  unfold accFrom EndsIn
  cases d.run (some q) w with
  | none => simp
  | some r => simp

/-- removing a loop: an accepted word of length `≥ n` can be shortened -/
theorem shorten (d : DFA) (hwf : WF d) (q : Nat) (hq : q < d.size) :
    ∀ (L : Nat) (w : Word), w.length = L → accFrom d q w = true →
      ∃ w', w'.length < d.size ∧ accFrom d q w' = true := by
  intro L
  induction L using Nat.strong_induction_on with
  | _ L ih =>
    intro w hL hacc
    by_cases hshort : w.length < d.size
    · exact ⟨w, hshort, hacc⟩
    · -- states after the prefixes of length 0..n
      have hsome : ∀ j, ∃ r, d.run (some q) (w.take j) = some r ∧ r < d.size := by
        intro j
        cases hr : d.run (some q) (w.take j) with
        | none =>
          have : d.run (some q) w = none := by
            rw [← List.take_append_drop j w, run_append, hr, run_none]
          unfold accFrom at hacc; rw [this] at hacc; simp at hacc
        | some r => exact ⟨r, rfl, run_lt d hwf _ q r hq hr⟩
      let f : Fin (d.size + 1) → Fin d.size := fun j =>
        ⟨(hsome j.val).choose, (hsome j.val).choose_spec.2⟩
      obtain ⟨a, b, hab, hf⟩ := Fintype.exists_ne_map_eq_of_card_lt f (by simp)
      -- wlog a < b
      have key : ∀ a b : Fin (d.size + 1), a.val < b.val → f a = f b →
          ∃ w', w'.length < d.size ∧ accFrom d q w' = true := by
        intro a b hlt hf
        have ha := (hsome a.val).choose_spec.1
        have hb := (hsome b.val).choose_spec.1
        have hf' : (hsome a.val).choose = (hsome b.val).choose := by
          have := congrArg Fin.val hf; simpa [f] using this
        let w' := w.take a.val ++ w.drop b.val
        have hrun : d.run (some q) w' = d.run (some q) w := by
          show d.run (some q) (w.take a.val ++ w.drop b.val) = _
          rw [run_append, ha, hf', ← hb, ← run_append, List.take_append_drop]
        have hacc' : accFrom d q w' = true := by unfold accFrom; rw [hrun]; exact hacc
        have hb_le : b.val ≤ w.length := by have := b.isLt; omega
        have hlen : w'.length < L := by
          show (w.take a.val ++ w.drop b.val).length < L
          simp only [List.length_append, List.length_take, List.length_drop]
          omega
        exact ih w'.length hlen w' rfl hacc'
      rcases Nat.lt_or_gt_of_ne (fun h => hab (Fin.ext h)) with h | h
      · exact key a b h hf
      · exact key b a h hf.symm

theorem coreach_iff_live (d : DFA) (hwf : WF d) (q : Nat) (hq : q < d.size) :
    (coreach d).getD q false = true ↔ Live d q := by
  unfold coreach Live
  rw [coreachLoop_spec d hwf d.size d.acc q hq]
  constructor
  · rintro ⟨w, _, h⟩; exact ⟨w, (accFrom_iff_endsIn d q w).mpr h⟩
  · rintro ⟨w, h⟩
    obtain ⟨w', hlen, h'⟩ := shorten d hwf q hq w.length w rfl h
    exact ⟨w', by omega, (accFrom_iff_endsIn d q w').mp h'⟩

/-! ### peeling -/

/-- `q` starts a walk of `k` steps inside the marked set -/
def HasWalk (d : DFA) (g : Array Bool) : Nat → Nat → Prop
  | 0, q => g.getD q false = true
  | k + 1, q => g.getD q false = true ∧ ∃ i, i < DIRS.length ∧ HasWalk d g k (d.step q i)

theorem HasWalk.head {d : DFA} {g : Array Bool} : ∀ {k q}, HasWalk d g k q → g.getD q false = true
  | 0, _, h => h
  | _ + 1, _, h => h.1

theorem HasWalk.shorter {d : DFA} {g : Array Bool} : ∀ {k q}, HasWalk d g (k + 1) q → HasWalk d g k q
  | 0, _, h => h.1
  | k + 1, _, ⟨h1, i, hi, h2⟩ => ⟨h1, i, hi, HasWalk.shorter h2⟩

theorem peelLoop_succ' (d : DFA) : ∀ (k : Nat) (g : Array Bool), peelLoop d (k + 1) g = F d (peelLoop d k g) := by
  intro k
  induction k with
  | zero => intro g; rfl
  | succ k ih => intro g; rw [peelLoop_succ, ih (F d g)]; rfl

theorem peelLoop_spec (d : DFA) (hwf : WF d) (g : Array Bool) : ∀ (k q : Nat), q < d.size →
    ((peelLoop d k g).getD q false = true ↔ HasWalk d g k q) := by
  intro k
  induction k with
  | zero => intro q _; rfl
  | succ k ih =>
    intro q hq
    rw [peelLoop_succ', F_get d _ q hq, ih q hq]
    constructor
    · rintro ⟨h1, i, hi, h2⟩
      exact ⟨h1.head, i, hi, (ih _ (hwf q hq i hi)).mp h2⟩
    · rintro h
      refine ⟨h.shorter, ?_⟩
      obtain ⟨_, i, hi, h2⟩ := h
      exact ⟨i, hi, (ih _ (hwf q hq i hi)).mpr h2⟩

/-- a walk of `k` steps spelled out: a word whose prefixes all lead to marked states -/
theorem HasWalk.word {d : DFA} {g : Array Bool} : ∀ {k q}, HasWalk d g k q →
    ∃ w : Word, w.length = k ∧ ∀ j, j ≤ k → ∃ r, d.run (some q) (w.take j) = some r ∧ g.getD r false = true
  | 0, q, h => ⟨[], rfl, fun j _ => ⟨q, by simp [DFA.run], h⟩⟩
  | k + 1, q, ⟨h1, i, hi, h2⟩ => by
    obtain ⟨w, hw, hall⟩ := HasWalk.word h2
    refine ⟨DIRS.getD i ' ' :: w, by simp [hw], ?_⟩
    intro j hj
    cases j with
    | zero => exact ⟨q, by simp [DFA.run], h1⟩
    | succ j =>
      obtain ⟨r, hr, hg⟩ := hall j (by omega)
      refine ⟨r, ?_, hg⟩
      rw [List.take_succ_cons, run_cons, letterIdx_dirs i hi]
      exact hr

/-- every state on an accepting run is live, so a long accepted word gives a long live walk -/
theorem walk_of_accepted (d : DFA) (hwf : WF d) : ∀ (k q : Nat) (w : Word), q < d.size → k ≤ w.length →
    accFrom d q w = true → HasWalk d (coreach d) k q := by
  intro k
  induction k with
  | zero =>
    intro q w hq _ h
    exact (coreach_iff_live d hwf q hq).mpr ⟨w, h⟩
  | succ k ih =>
    intro q w hq hk h
    cases w with
    | nil => simp at hk
    | cons c w =>
      rw [accFrom_cons] at h
      cases hl : letterIdx c with
      | none => rw [hl] at h; simp at h
      | some i =>
        rw [hl] at h
        have hi := letterIdx_lt hl
        exact ⟨(coreach_iff_live d hwf q hq).mpr ⟨c :: w, by rw [accFrom_cons, hl]; exact h⟩, i, hi,
          ih _ w (hwf q hq i hi) (by simpa using hk) h⟩

/-- repeating a cycle -/
def cpow (c : Word) : Nat → Word
  | 0 => []
  | k + 1 => c ++ cpow c k

theorem run_cpow (d : DFA) (r : Nat) (c : Word) (h : d.run (some r) c = some r) :
    ∀ k, d.run (some r) (cpow c k) = some r
  | 0 => by simp [cpow, DFA.run]
  | k + 1 => by rw [cpow, run_append, h]; exact run_cpow d r c h k

theorem length_cpow (c : Word) : ∀ k, (cpow c k).length = k * c.length
  | 0 => by simp [cpow]
  | k + 1 => by rw [cpow, List.length_append, length_cpow c k, Nat.succ_mul]; omega

theorem isFiniteB_iff_noWalk (d : DFA) (hwf : WF d) (hpos : 0 < d.size) :
    isFiniteB d = true ↔ ∀ q, q < d.size → ¬ HasWalk d (coreach d) d.size q := by
  unfold isFiniteB
  obtain ⟨m, hm⟩ : ∃ m, d.size = m + 1 := ⟨d.size - 1, by omega⟩
  rw [Bool.not_eq_true', ← Bool.not_eq_true]
  have hshape : peelLoop d d.size (coreach d) = F d (peelLoop d m (coreach d)) := by
    rw [hm]; exact peelLoop_succ' d m _
  constructor
  · intro h q hq hw
    apply h
    rw [hshape]
    unfold F
    rw [any_mapRange]
    refine ⟨q, hq, ?_⟩
    have := (peelLoop_spec d hwf (coreach d) d.size q hq).mpr hw
    rw [hshape] at this
    unfold F at this
    rwa [getD_mapRange _ _ _ hq] at this
  · intro h hany
    rw [hshape] at hany
    unfold F at hany
    rw [any_mapRange] at hany
    obtain ⟨q, hq, hF⟩ := hany
    apply h q hq
    apply (peelLoop_spec d hwf (coreach d) d.size q hq).mp
    rw [hshape]
    unfold F
    rwa [getD_mapRange _ _ _ hq]

/-- **the model's finiteness test is exact**: for a well-formed DFA all of whose states are reachable,
    `isFiniteB` holds iff the accepted words are bounded in length (then by the number of states) -/
theorem isFiniteB_iff_bounded (d : DFA) (hwf : WF d) (hpos : 0 < d.size)
    (hreach : ∀ q, q < d.size → ∃ u, d.run (some 0) u = some q) :
    isFiniteB d = true ↔ ∃ N, ∀ w, d.accepts w = true → w.length ≤ N := by
  rw [isFiniteB_iff_noWalk d hwf hpos]
  constructor
  · intro h
    refine ⟨d.size, fun w hacc => ?_⟩
    by_contra hlong
    exact h 0 hpos (walk_of_accepted d hwf d.size 0 w hpos (by omega) hacc)
  · rintro ⟨N, hN⟩ q hq hw
    obtain ⟨w, hwlen, hall⟩ := hw.word
    -- two prefixes reach the same state
    have hsome : ∀ j : Fin (d.size + 1), ∃ r, d.run (some q) (w.take j.val) = some r ∧
        (coreach d).getD r false = true := fun j => hall j.val (by have := j.isLt; omega)
    obtain ⟨st, hst⟩ := Classical.axiomOfChoice hsome
    let f : Fin (d.size + 1) → Fin d.size := fun j => ⟨st j, run_lt d hwf _ q _ hq (hst j).1⟩
    obtain ⟨a, b, hab, hf⟩ := Fintype.exists_ne_map_eq_of_card_lt f (by simp)
    have key : ∀ a b : Fin (d.size + 1), a.val < b.val → f a = f b → False := by
      intro a b hlt hf
      have ha := hst a
      have hb := hst b
      have hf' : st a = st b := by
        have := congrArg Fin.val hf; simpa [f] using this
      rw [← hf'] at hb
      generalize st a = r at ha hb
      have hrlt : r < d.size := run_lt d hwf _ q _ hq ha.1
      -- the cycle: letters a..b
      let c : Word := (w.take b.val).drop a.val
      have hble : b.val ≤ w.length := by have := b.isLt; omega
      have hc_len : c.length = b.val - a.val := by
        show ((w.take b.val).drop a.val).length = _
        simp only [List.length_drop, List.length_take]; omega
      have htake : w.take b.val = w.take a.val ++ c := by
        show _ = _ ++ (w.take b.val).drop a.val
        have : w.take a.val = (w.take b.val).take a.val := by
          rw [List.take_take]; congr 1; omega
        rw [this, List.take_append_drop]
      have hcyc : d.run (some r) c = some r := by
        have := hb.1
        rw [htake, run_append, ha.1] at this
        exact this
      obtain ⟨u, hu⟩ := hreach r hrlt
      obtain ⟨v, hv⟩ := (coreach_iff_live d hwf r hrlt).mp ha.2
      have hacc : d.accepts (u ++ cpow c (N + 1) ++ v) = true := by
        rw [accepts_eq, List.append_assoc, accFrom_append d 0 r u _ hu,
          accFrom_append d r r _ v (run_cpow d r c hcyc (N + 1))]
        exact hv
      have := hN _ hacc
      simp only [List.length_append, length_cpow] at this
      have hc1 : 1 ≤ c.length := by omega
      have : (N + 1) * c.length ≥ N + 1 := Nat.le_mul_of_pos_right _ hc1
      omega
    rcases Nat.lt_or_gt_of_ne (fun h => hab (Fin.ext h)) with h | h
    · exact key a b h hf
    · exact key b a h hf.symm

end C15Fin

namespace C15Fin
open Model.C15

theorem wf_of_wfB (d : DFA) (h : d.wfB = true) : WF d ∧ 0 < d.size := by
  unfold DFA.wfB at h
  simp only [Bool.and_eq_true, decide_eq_true_eq, List.all_eq_true, List.mem_range] at h
  exact ⟨fun q hq i hi => h.2 q hq i hi, h.1⟩

theorem reach_of_reachB (d : DFA) (h : d.reachB = true) :
    ∀ q, q < d.size → ∃ u, d.run (some 0) u = some q := by
  unfold DFA.reachB at h
  simp only [List.all_eq_true, List.mem_range, Bool.or_eq_true, beq_iff_eq, List.any_eq_true] at h
  intro q
  induction q using Nat.strong_induction_on with
  | _ q ih =>
    intro hq
    rcases h q hq with rfl | ⟨p, hp, i, hi, hstep⟩
    · exact ⟨[], rfl⟩
    · obtain ⟨u, hu⟩ := ih p hp (by omega)
      exact ⟨u ++ [DIRS.getD i ' '], by rw [run_snoc_dir d 0 p i u hu hi, hstep]⟩

/-- the finiteness test is exact on every automaton carrying the run-time certificate -/
theorem isFiniteB_iff_bounded_cert (d : DFA) (h : d.certB = true) :
    isFiniteB d = true ↔ ∃ N, ∀ w, d.accepts w = true → w.length ≤ N := by
  unfold DFA.certB at h
  rw [Bool.and_eq_true] at h
  obtain ⟨hwf, hpos⟩ := wf_of_wfB d h.1
  exact isFiniteB_iff_bounded d hwf hpos (reach_of_reachB d h.2)

end C15Fin
