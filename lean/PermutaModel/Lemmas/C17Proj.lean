import PermutaModel.Lemmas.C17Mine
import Batteries.Data.List.Perm
/-! A3 (second half): projection of cells through a one-point deletion and the main induction. -/

namespace Model.C17

/-- cell of the pattern grid that the cell `cell` of `τ`'s grid falls into, for the occurrence at
    positions `c` -/
def proj (τ : NSeq) (c : List Nat) (cell : Cell) : Cell :=
  (c.countP (fun k => decide (k < cell.1)), c.countP (fun k => decide (τ.getD k 0 < cell.2)))

theorem unlift_lift (i k : Nat) : unlift i (lift i k) = k := by
  unfold lift unlift
  by_cases h : k < i
  · simp [h]
  · simp only [h, if_false]
    have : ¬ (k + 1 < i) := by omega
    simp only [this, if_false]; omega

theorem lift_ne (i k : Nat) : lift i k ≠ i := by
  unfold lift; split <;> omega

theorem lift_lt_iff (i a b : Nat) : lift i a < lift i b ↔ a < b := by
  unfold lift; split <;> split <;> omega

section step
variable {τ : NSeq} (hτ : IsPerm τ) {L : Nat} (hL : τ.length = L + 1) {i0 : Nat} (hi : i0 < L + 1)
  {c' : List Nat} (hc' : ∀ k ∈ c', k < L)
include hτ hL hi hc'

/-- PROJ1: a cell shifted past the deleted point projects like the original cell -/
theorem proj_shift (x y : Nat) :
    proj (delPoint τ i0) c' (x - (if x > i0 then 1 else 0), y - (if y > τ.getD i0 0 then 1 else 0))
      = proj τ (c'.map (lift i0)) (x, y) := by
  unfold proj
  rw [List.countP_map, List.countP_map]
  simp only [Prod.mk.injEq]
  constructor
  · apply List.countP_congr
    intro k _
    simp only [Function.comp, decide_eq_true_eq]
    unfold lift
    split <;> split <;> omega
  · apply List.countP_congr
    intro k hk
    simp only [Function.comp, decide_eq_true_eq]
    have hk' := hc' k hk
    rw [delPoint_getD τ i0 k (by omega) (by omega)]
    have hne := lift_val_ne hτ i0 k (by omega) (by omega)
    split <;> split <;> omega

/-- PROJ3: the cell the deleted point falls into -/
theorem proj_deleted :
    proj (delPoint τ i0) c' (i0, τ.getD i0 0) = proj τ (c'.map (lift i0)) (i0, τ.getD i0 0) := by
  unfold proj
  rw [List.countP_map, List.countP_map]
  simp only [Prod.mk.injEq]
  constructor
  · apply List.countP_congr
    intro k _
    simp only [Function.comp, decide_eq_true_eq]
    unfold lift
    split <;> omega
  · apply List.countP_congr
    intro k hk
    simp only [Function.comp, decide_eq_true_eq]
    have hk' := hc' k hk
    rw [delPoint_getD τ i0 k (by omega) (by omega)]
    have hne := lift_val_ne hτ i0 k (by omega) (by omega)
    split <;> omega

/-- PROJ2: the cell of a surviving point -/
theorem proj_survivor (i : Nat) (hiL : i < L) :
    proj (delPoint τ i0) c' (i, (delPoint τ i0).getD i 0)
      = proj τ (c'.map (lift i0)) (lift i0 i, τ.getD (lift i0 i) 0) := by
  unfold proj
  rw [List.countP_map, List.countP_map]
  simp only [Prod.mk.injEq]
  constructor
  · apply List.countP_congr
    intro k _
    simp only [Function.comp, decide_eq_true_eq]
    exact (lift_lt_iff i0 k i).symm
  · apply List.countP_congr
    intro k hk
    simp only [Function.comp, decide_eq_true_eq]
    have hk' := hc' k hk
    exact delPoint_lt_iff hτ i0 k i (by omega) (by omega) (by omega)

end step

/-- the occurrence after deleting a point outside it -/
theorem isOcc_delPoint {π τ : NSeq} {c : List Nat} (hτ : IsPerm τ) {L : Nat} (hL : τ.length = L + 1)
    {i0 : Nat} (hi : i0 < L + 1) (hocc : IsOcc π τ c) (hic : i0 ∉ c) :
    IsOcc π (delPoint τ i0) (c.map (unlift i0)) := by
  have hne : ∀ k ∈ c, k ≠ i0 := fun k hk h => hic (h ▸ hk)
  refine ⟨by simpa using hocc.len, ?_, ?_, ?_⟩
  · unfold StrictInc
    rw [List.pairwise_map]
    apply List.Pairwise.imp_of_mem _ hocc.inc
    intro a b ha hb hab
    have := hne a ha; have := hne b hb
    unfold unlift; split <;> split <;> omega
  · intro k hk
    obtain ⟨k0, hk0, rfl⟩ := List.mem_map.mp hk
    have h1 := hocc.rng k0 hk0
    have h2 := hne k0 hk0
    rw [length_delPoint τ i0 (by omega), hL]
    unfold unlift; split <;> omega
  · intro a b ha hb
    rw [hocc.iso a b ha hb]
    have hca : a < c.length := by rw [hocc.len]; exact ha
    have hcb : b < c.length := by rw [hocc.len]; exact hb
    have e1 : (c.map (unlift i0)).getD a 0 = unlift i0 (c.getD a 0) := by
      rw [getD_of_lt _ a (by simpa using hca), getD_of_lt c a hca]; simp
    have e2 : (c.map (unlift i0)).getD b 0 = unlift i0 (c.getD b 0) := by
      rw [getD_of_lt _ b (by simpa using hcb), getD_of_lt c b hcb]; simp
    rw [e1, e2]
    have ma : c.getD a 0 ∈ c := by rw [getD_of_lt c a hca]; exact List.getElem_mem hca
    have mb : c.getD b 0 ∈ c := by rw [getD_of_lt c b hcb]; exact List.getElem_mem hcb
    have ra := hocc.rng _ ma; have rb := hocc.rng _ mb
    have na := hne _ ma; have nb := hne _ mb
    have ua : unlift i0 (c.getD a 0) + 1 < τ.length := by rw [hL]; unfold unlift; split <;> omega
    have ub : unlift i0 (c.getD b 0) + 1 < τ.length := by rw [hL]; unfold unlift; split <;> omega
    rw [delPoint_lt_iff hτ i0 _ _ (by omega) ua ub, lift_unlift _ _ na, lift_unlift _ _ nb]

theorem map_lift_unlift (i0 : Nat) (c : List Nat) (hic : i0 ∉ c) :
    (c.map (unlift i0)).map (lift i0) = c := by
  rw [List.map_map]
  conv => rhs; rw [← List.map_id c]
  apply List.map_congr_left
  intro k hk
  simp only [Function.comp, id]
  exact lift_unlift i0 k (fun h => hic (h ▸ hk))

theorem exists_min_nat {P : Nat → Prop} (h : ∃ n, P n) : ∃ n, P n ∧ ∀ k, k < n → ¬ P k := by
  obtain ⟨n, hn⟩ := h
  induction n using Nat.strong_induction_on with
  | _ n ih =>
    by_cases hk : ∃ k, k < n ∧ P k
    · obtain ⟨k, hkn, hPk⟩ := hk
      exact ih k hkn hPk
    · exact ⟨n, hn, fun k hkn hPk => hk ⟨k, hkn, hPk⟩⟩

/-- a strictly increasing list of `n` naturals below `n` is `range n` -/
theorem eq_range_of_sorted (l : List Nat) (n : Nat) (hs : l.Pairwise (· < ·)) (hb : ∀ x ∈ l, x < n)
    (hl : l.length = n) : l = List.range n := by
  have hnd : l.Nodup := hs.imp (fun h => Nat.ne_of_lt h)
  have hsub : l ⊆ List.range n := fun x hx => List.mem_range.mpr (hb x hx)
  have hperm : l.Perm (List.range n) :=
    (List.subperm_of_subset hnd hsub).perm_of_length_le (by simp [hl])
  exact List.Perm.eq_of_pairwise (le := (· < ·)) (fun a b _ _ h1 h2 => by omega) hs
    List.pairwise_lt_range hperm

theorem proj_range_id {τ : NSeq} (hτ : IsPerm τ) (cell : Cell) (h1 : cell.1 ≤ τ.length)
    (h2 : cell.2 ≤ τ.length) : proj τ (List.range τ.length) cell = cell := by
  unfold proj
  rw [countP_lt_range _ _ h1, IsPerm.countP_idx_lt hτ _ h2]

/-- one level of `add_good_shadings_to_goodpatts`, given the statement for the next level -/
theorem addGood_step (minLen maxLen M : Nat) (hM : maxLen ≤ M) (π : NSeq) (hπ : IsPerm π)
    (H : Shading) (hmin : minLen ≤ π.length) (hmax : π.length ≤ maxLen) {L : Nat}
    (τ : NSeq) (sh : Shading) (loc : Nat) (gp : List Level) (c : List Nat)
    (hτ : IsPerm τ) (hL : τ.length = L + 1) (hgp : gp.length = M + 1) (hocc : IsOcc π τ c)
    (hj : π.length ≤ L) (hloc : ∀ k, k < loc → k ∈ c)
    (hrng : ∀ cell ∈ sh, cell.1 ≤ L + 1 ∧ cell.2 ≤ L + 1)
    (hsh : ∀ cell ∈ sh, proj τ c cell ∈ H)
    (hhit : ∀ i, i < L + 1 → i ∉ c → proj τ c (i, τ.getD i 0) ∈ H)
    (ih : ∀ (L' : Nat), L = L' + 1 → ∀ (τ : NSeq) (sh : Shading) (loc : Nat) (gp : List Level) (c : List Nat),
      IsPerm τ → τ.length = L' + 1 → gp.length = M + 1 → IsOcc π τ c → π.length ≤ L' →
      (∀ k, k < loc → k ∈ c) →
      (∀ cell ∈ sh, cell.1 ≤ L' + 1 ∧ cell.2 ≤ L' + 1) →
      (∀ cell ∈ sh, proj τ c cell ∈ H) →
      (∀ i, i < L' + 1 → i ∉ c → proj τ c (i, τ.getD i 0) ∈ H) →
      Covers (addGood minLen maxLen (L' + 1) τ sh loc gp) π.length π H) :
    Covers (addGood minLen maxLen (L + 1) τ sh loc gp) π.length π H := by
  have hjc : c.length = π.length := hocc.len
  have hcnd : c.Nodup := hocc.inc.imp (fun h => Nat.ne_of_lt h)
  have hex : ∃ i, i < L + 1 ∧ i ∉ c := by
    apply Classical.byContradiction
    intro hno
    have hsub : List.range (L + 1) ⊆ c := by
      intro x hx; rw [List.mem_range] at hx
      apply Classical.byContradiction
      intro hxc; exact hno ⟨x, hx, hxc⟩
    have := List.Nodup.length_le_of_subset List.nodup_range hsub
    simp at this; omega
  obtain ⟨i0, ⟨hi0, hi0c⟩, hmin0⟩ := exists_min_nat hex
  have hbelow : ∀ k, k < i0 → k ∈ c := by
    intro k hk
    apply Classical.byContradiction
    intro hkc; exact hmin0 k hk ⟨by omega, hkc⟩
  have hloc0 : loc ≤ i0 := by
    apply Classical.byContradiction
    intro hlt; exact hi0c (hloc i0 (by omega))
  have hi0j : i0 ≤ π.length := by
    have hsub : List.range i0 ⊆ c := fun x hx => hbelow x (List.mem_range.mp hx)
    have := List.Nodup.length_le_of_subset List.nodup_range hsub
    simp at this; omega
  simp only [addGood]
  rw [if_pos ⟨by omega, by omega⟩]
  have hmem : i0 ∈ List.range' loc (min (maxLen + 1) (L + 1) - loc) := by
    rw [List.mem_range'_1]; omega
  refine foldl_establish (fun g : List Level => Covers g π.length π H)
    (fun g : List Level => g.length = M + 1) _ _ i0 hmem ?_ ?_ ?_ gp hgp
  · intro b a hb
    split
    · rw [addGood_length]; split
      · rw [record_length]; exact hb
      · exact hb
    · split
      · rw [record_length]; exact hb
      · exact hb
  · intro b a _ hb
    split
    · apply addGood_mono; split
      · exact record_mono _ _ _ _ _ _ _ hb
      · exact hb
    · split
      · exact record_mono _ _ _ _ _ _ _ hb
      · exact hb
  · intro b hb
    have hτ'p : IsPerm (delPoint τ i0) := isPerm_delPoint hτ i0 (by omega)
    have hτ'l : (delPoint τ i0).length = L := by rw [length_delPoint τ i0 (by omega), hL]; simp
    have hocc' : IsOcc π (delPoint τ i0) (c.map (unlift i0)) := isOcc_delPoint hτ hL hi0 hocc hi0c
    have hcc : (c.map (unlift i0)).map (lift i0) = c := map_lift_unlift i0 c hi0c
    have hc'b : ∀ k ∈ c.map (unlift i0), k < L := by
      intro k hk; have := hocc'.rng k hk; omega
    have D1 : ∀ cell ∈ shiftShading sh i0 (τ.getD i0 0),
        proj (delPoint τ i0) (c.map (unlift i0)) cell ∈ H := by
      intro cell hcell
      unfold shiftShading at hcell
      rcases List.mem_append.mp hcell with h | h
      · obtain ⟨c0, hc0, rfl⟩ := List.mem_map.mp h
        rw [proj_shift hτ hL hi0 hc'b c0.1 c0.2, hcc]
        exact hsh c0 hc0
      · simp only [List.mem_singleton] at h; subst h
        rw [proj_deleted hτ hL hi0 hc'b, hcc]
        exact hhit i0 hi0 hi0c
    have D2 : ∀ i, i < L → i ∉ c.map (unlift i0) →
        proj (delPoint τ i0) (c.map (unlift i0)) (i, (delPoint τ i0).getD i 0) ∈ H := by
      intro i hiL hic'
      rw [proj_survivor hτ hL hi0 hc'b i hiL, hcc]
      apply hhit
      · unfold lift; split <;> omega
      · intro hl; apply hic'
        have : unlift i0 (lift i0 i) ∈ c.map (unlift i0) := List.mem_map.mpr ⟨_, hl, rfl⟩
        rwa [unlift_lift] at this
    have D3 : ∀ cell ∈ shiftShading sh i0 (τ.getD i0 0), cell.1 ≤ L ∧ cell.2 ≤ L := by
      intro cell hcell
      have hv : τ.getD i0 0 < L + 1 := by have := hτ.getD_lt (a := i0) (by omega); omega
      unfold shiftShading at hcell
      rcases List.mem_append.mp hcell with h | h
      · obtain ⟨c0, hc0, rfl⟩ := List.mem_map.mp h
        have := hrng c0 hc0
        simp only; constructor <;> split <;> omega
      · simp only [List.mem_singleton] at h; subst h; simp only; omega
    have D5 : ∀ k, k < i0 → k ∈ c.map (unlift i0) := by
      intro k hk
      have : unlift i0 k ∈ c.map (unlift i0) := List.mem_map.mpr ⟨k, hbelow k hk, rfl⟩
      have e : unlift i0 k = k := by unfold unlift; simp [hk]
      rwa [e] at this
    by_cases hjL : π.length = L
    · have hc'r : c.map (unlift i0) = List.range L :=
        eq_range_of_sorted _ L hocc'.inc hc'b (by rw [hocc'.len, hjL])
      have hπτ : π = delPoint τ i0 := by
        apply perm_eq_of_iso hπ hτ'p (by omega)
        intro a b ha hb'
        rw [hocc'.iso a b ha hb', hc'r]
        have e : ∀ a, a < L → (List.range L).getD a 0 = a := by
          intro a ha; rw [getD_of_lt _ a (by simpa using ha)]; simp
        rw [e a (by omega), e b (by omega)]
      have hsub : subsetB (shiftShading sh i0 (τ.getD i0 0)) H = true := by
        rw [subsetB_iff]
        intro cell hcell
        have h1 := D1 cell hcell
        have h3 := D3 cell hcell
        rw [hc'r, ← hτ'l, proj_range_id hτ'p cell (by omega) (by omega)] at h1
        exact h1
      have hrec : Covers (record b L (delPoint τ i0) (shiftShading sh i0 (τ.getD i0 0))) π.length π H := by
        have := record_new b L (delPoint τ i0) _ H (by omega) hsub
        rw [hjL]; rw [← hπτ] at this ⊢; exact this
      have hLm : L ≤ maxLen := by omega
      split <;> (try apply addGood_mono) <;> (try rw [if_pos hLm]) <;> exact hrec
    · have hlt : π.length < L := by omega
      obtain ⟨L', rfl⟩ : ∃ L', L = L' + 1 := ⟨L - 1, by omega⟩
      rw [if_pos (by omega)]
      apply ih L' rfl (delPoint τ i0) _ i0 _ (c.map (unlift i0)) hτ'p hτ'l
      · split
        · rw [record_length]; exact hb
        · exact hb
      · exact hocc'
      · omega
      · exact D5
      · exact D3
      · exact D1
      · exact D2

/-- **main induction** over the recursion of `add_good_shadings_to_goodpatts` -/
theorem addGood_covers (minLen maxLen M : Nat) (hM : maxLen ≤ M) (π : NSeq) (hπ : IsPerm π)
    (H : Shading) (hmin : minLen ≤ π.length) (hmax : π.length ≤ maxLen) (L : Nat) :
    ∀ (τ : NSeq) (sh : Shading) (loc : Nat) (gp : List Level) (c : List Nat),
      IsPerm τ → τ.length = L + 1 → gp.length = M + 1 → IsOcc π τ c → π.length ≤ L →
      (∀ k, k < loc → k ∈ c) →
      (∀ cell ∈ sh, cell.1 ≤ L + 1 ∧ cell.2 ≤ L + 1) →
      (∀ cell ∈ sh, proj τ c cell ∈ H) →
      (∀ i, i < L + 1 → i ∉ c → proj τ c (i, τ.getD i 0) ∈ H) →
      Covers (addGood minLen maxLen (L + 1) τ sh loc gp) π.length π H := by
  induction L with
  | zero =>
    intro τ sh loc gp c hτ hL hgp hocc hj hloc hrng hsh hhit
    exact addGood_step minLen maxLen M hM π hπ H hmin hmax τ sh loc gp c hτ hL hgp hocc hj hloc hrng hsh
      hhit (fun L' h => absurd h (by omega))
  | succ L ih =>
    intro τ sh loc gp c hτ hL hgp hocc hj hloc hrng hsh hhit
    exact addGood_step minLen maxLen M hM π hπ H hmin hmax τ sh loc gp c hτ hL hgp hocc hj hloc hrng hsh
      hhit (fun L' h => by have : L = L' := by omega
                           subst this; exact ih)

end Model.C17
