import PermutaModel.Lemmas.C12SS
/-! C12: Simion–Schmidt, assembled: the raw loops on a permutation. -/
open Model Spec List

namespace C12

theorem IsPerm.mem_of_lt {p : NSeq} (h : IsPerm p) {v : Nat} (hv : v < p.length) : v ∈ p :=
  (isPerm_perm_range h).mem_iff.mpr (mem_range.mpr hv)

theorem ssRaw_cons (x : Nat) (rest : List Nat) :
    ssRaw (x :: rest) = consOk x (ssGo (rest.length + 1) rest x [x]) := by
  simp only [ssRaw, length_cons]; rfl

theorem ssInvRaw_cons (x : Nat) (rest : List Nat) :
    ssInvRaw (x :: rest) = consOk x (ssInvGo (rest.length + 1) rest x [x]) := by
  simp only [ssInvRaw, length_cons]; rfl

theorem invSt_init {x : Nat} {rest : List Nat} (h : IsPerm (x :: rest)) :
    InvSt (rest.length + 1) rest x [x] where
  nd := (nodup_cons.mp h.1).2
  low := by
    intro v hv
    have hx : x < rest.length + 1 := by simpa using h.2 x (by simp)
    have := IsPerm.mem_of_lt h (v := v) (by simp only [length_cons]; omega)
    rcases mem_cons.mp this with e | h'
    · omega
    · exact h'
  lt := fun v hv => by simpa using h.2 v (mem_cons_of_mem _ hv)
  und := by simp
  ur := by
    intro u hu
    simp only [mem_singleton] at hu; subst hu
    exact ⟨Nat.le_refl _, by simpa using h.2 u (by simp)⟩
  len := by simp; omega

theorem cover_init {x : Nat} {rest : List Nat} (h : IsPerm (x :: rest)) :
    Cover (rest.length + 1) rest [x] x where
  nd := (nodup_cons.mp h.1).2
  lt := fun v hv => by simpa using h.2 v (mem_cons_of_mem _ hv)
  disj := by
    intro v hv hu
    simp only [mem_singleton] at hu; subst hu
    exact (nodup_cons.mp h.1).1 hv
  cov := by
    intro v hv
    have := IsPerm.mem_of_lt h (v := v) (by simpa using hv)
    rcases mem_cons.mp this with rfl | h'
    · exact Or.inr (by simp)
    · exact Or.inl h'
  mn_used := by simp

theorem isPerm_image {x n : Nat} {t : List Nat} (hlen : t.length + 1 = n) (hnd : (t ++ [x]).Nodup)
    (hx : x < n) (hlt : ∀ v ∈ t, v < n) : IsPerm (x :: t) := by
  refine ⟨(perm_append_singleton x t).nodup_iff.mp hnd, ?_⟩
  intro v hv
  simp only [length_cons, hlen]
  rcases mem_cons.mp hv with rfl | hv
  · exact hx
  · exact hlt v hv

/-- the forward loop on a permutation -/
theorem ssRaw_main (σ : NSeq) (h : IsPerm σ) :
    ∃ τ, ssRaw σ = .ok τ ∧ IsPerm τ ∧ τ.length = σ.length ∧ ltrMin τ = ltrMin σ ∧
      ¬ Has3 (fun a b c => a < c ∧ c < b) τ ∧
      (¬ Has3 (fun a b c => a < b ∧ b < c) σ → ssInvRaw τ = .ok σ) := by
  match σ, h with
  | [], _ =>
    refine ⟨[], rfl, by decide, rfl, rfl, ?_, fun _ => rfl⟩
    rintro ⟨a, b, c, hs, _⟩; simp at hs
  | x :: rest, h =>
    have inv := invSt_init h
    obtain ⟨t, hgo, hlen, hnd, hlt⟩ := ssGo_ok (rest.length + 1) rest x [x] inv.nd inv.low inv.lt inv.und
      inv.ur (by simp) inv.len
    have hx : x < rest.length + 1 := (inv.ur x (by simp)).2
    have hτ : IsPerm (x :: t) := isPerm_image (by omega) hnd hx hlt
    refine ⟨x :: t, by rw [ssRaw_cons, hgo]; rfl, hτ, by simp [hlen], ?_, ?_, ?_⟩
    · simp only [ltrMin, ltrMinGo]
      rw [ssGo_ltrMin rest x [x] t _ hgo]
    · rintro ⟨a, b, c, hs, hac, hcb⟩
      obtain ⟨t1, t2, e, ha, hc⟩ := sub3_split hs
      match t1, e, ha with
      | w :: t1', e, ha =>
        simp only [cons_append, cons.injEq] at e
        obtain ⟨rfl, e⟩ := e
        have := ssGo_between rest x [x] t hgo (by simp) t1' b t2 e a
          (by simpa using ha) (by omega) c hac hcb
        have hc1 : c ∈ x :: t1' := by simpa using this
        have hnd' := hτ.1
        rw [e, ← cons_append] at hnd'
        exact (nodup_append.mp hnd').2.2 c hc1 c (mem_cons_of_mem _ hc) rfl
    · intro hno
      rw [ssInvRaw_cons, hlen, ssInvGo_congr rest t x [x] (ssGo_sameSk rest x [x] t hgo),
        ssInvGo_self rest x [x] (cover_init h) hno]
      rfl

/-- the inverse loop on a permutation -/
theorem ssInvRaw_main (τ : NSeq) (h : IsPerm τ) :
    ∃ σ, ssInvRaw τ = .ok σ ∧ IsPerm σ ∧ σ.length = τ.length ∧ ltrMin σ = ltrMin τ ∧
      ¬ Has3 (fun a b c => a < b ∧ b < c) σ ∧
      (¬ Has3 (fun a b c => a < c ∧ c < b) τ → ssRaw σ = .ok τ) := by
  match τ, h with
  | [], _ =>
    refine ⟨[], rfl, by decide, rfl, rfl, ?_, fun _ => rfl⟩
    rintro ⟨a, b, c, hs, _⟩; simp at hs
  | x :: rest, h =>
    have inv := invSt_init h
    obtain ⟨t, hgo, hlen, hnd, hlt⟩ := ssInvGo_ok (rest.length + 1) rest x [x] inv.nd inv.low inv.lt inv.und
      inv.ur inv.len
    have hx : x < rest.length + 1 := (inv.ur x (by simp)).2
    have hσ : IsPerm (x :: t) := isPerm_image (by omega) hnd hx hlt
    refine ⟨x :: t, by rw [ssInvRaw_cons, hgo]; rfl, hσ, by simp [hlen], ?_, ?_, ?_⟩
    · simp only [ltrMin, ltrMinGo]
      rw [ssInvGo_ltrMin rest x [x] t _ inv.low inv.nd inv.len inv.und inv.ur inv.lt hgo]
    · rintro ⟨a, b, c, hs, hab, hbc⟩
      obtain ⟨t1, t2, e, ha, hc⟩ := sub3_split hs
      match t1, e, ha with
      | w :: t1', e, ha =>
        simp only [cons_append, cons.injEq] at e
        obtain ⟨rfl, e⟩ := e
        have hcn : c < rest.length + 1 := by
          have := hσ.2 c (hs.subset (by simp))
          simpa [hlen] using this
        have := ssInvGo_between rest x [x] t hgo inv t1' b t2 e a
          (by simpa using ha) hab c hbc hcn
        have hc1 : c ∈ x :: t1' := by simpa using this
        have hnd' := hσ.1
        rw [e, ← cons_append] at hnd'
        exact (nodup_append.mp hnd').2.2 c hc1 c (mem_cons_of_mem _ hc) rfl
    · intro hno
      rw [ssRaw_cons, hlen, ssGo_congr rest t x [x] (ssInvGo_sameSk rest x [x] t hgo inv),
        ssGo_self rest x [x] (cover_init h) hno]
      rfl

end C12
