import PermutaModel.Lemmas.C07Sched

/-! Bookkeeping and progress for the C07 small-step machine.

* `account t` = levels already returned ++ level in flight ++ levels still to ask for; the list
  `threads.map account` never changes, so a finished thread has answered exactly its requests, in order.
* `mu fast s` = an upper bound on the number of non-stuttering steps still possible (`2n+4` per level `n` still
  to fetch: acquire, at most `2n+1` writes, release, read; one more with the lock-free fast path: the test).  Every step either stutters (`step s tid = s`)
  or decreases `mu`; in a reachable state that is not finished some thread can decrease it.  Hence
  no deadlock, and every schedule made of `mu s` *fair rounds* (segments containing every thread id)
  finishes all threads. -/
namespace C07L
open Model.C02 Model.C07

/-! ## bookkeeping -/

/-- the level a thread is currently fetching (committed to the locked path, inside the critical section,
    or about to read) -/
def pending (t : Thread) : List Nat :=
  match t.phase with
  | .waiting n => [n]
  | .holding n _ => [n]
  | .reading n => [n]
  | .idle => []
  | .failed _ => []

/-- levels answered ++ level in flight ++ levels not yet asked for -/
def account (t : Thread) : List Nat := t.got.map (·.1) ++ pending t ++ t.todo

/-- cost bound of fetching level `n`: (with the fast path: the lock-free test +) acquire + at most
    `2n+1` writes + release + read -/
def lvlCost (fast : Bool) (n : Nat) : Nat := 2 * n + 4 + fast.toNat

def todoCost (fast : Bool) (td : List Nat) : Nat := (td.map (lvlCost fast)).sum

/-- upper bound on the number of non-stuttering steps thread `t` can still take -/
def cost (fast : Bool) (t : Thread) : Nat :=
  match t.phase with
  | .failed _ => 0
  | .idle => todoCost fast t.todo
  | .waiting n => 2 * n + 4 + todoCost fast t.todo
  | .holding _ plan => plan.length + 2 + todoCost fast t.todo
  | .reading _ => 1 + todoCost fast t.todo

def mu (fast : Bool) (s : Sys) : Nat := (s.threads.map (cost fast)).sum

/-- thread `t` can take a non-stuttering step in `s` -/
def Active (d : Disc) (s : Sys) (t : Thread) : Prop :=
  match t.phase with
  | .failed _ => False
  | .idle => t.todo ≠ [] ∧ (d.fast = true ∨ s.lock = none)
  | .waiting _ => s.lock = none
  | .holding _ _ => True
  | .reading _ => True

/-- a finished thread: nothing left to ask, not in the middle of a query -/
def Done (t : Thread) : Prop := t.phase = .idle ∧ t.todo = []

def AllDone (s : Sys) : Prop := ∀ t ∈ s.threads, Done t

/-- the lock is held only by a thread that is inside the critical section -/
def LockOK (s : Sys) : Prop :=
  ∀ h, s.lock = some h → ∃ t n plan, s.threads[h]? = some t ∧ t.phase = .holding n plan

def NoFail (s : Sys) : Prop := ∀ t ∈ s.threads, ∀ e, t.phase ≠ .failed e

/-! ## trace lengths -/

theorem buildTrace_length (b : List NSeq) : ∀ (k : Nat) (c : List Level) (tr : List (List Level)),
    buildTrace b k c = .ok tr → tr.length = k := by
  intro k
  induction k with
  | zero => intro c tr h; simp [buildTrace] at h; subst h; rfl
  | succ k ih =>
    intro c tr h
    unfold buildTrace at h
    cases h1 : buildOne b c with
    | error e => simp [h1] at h
    | ok c' =>
      simp only [h1] at h
      cases h2 : buildTrace b k c' with
      | error e => simp [h2] at h
      | ok rest =>
        simp only [h2, Except.ok.injEq] at h
        subst h
        simp [ih c' rest h2]

theorem meshTrace_length (b : List Mesh) : ∀ (k : Nat) (c : List Level), (meshTrace b k c).length = k := by
  intro k
  induction k with
  | zero => intro c; rfl
  | succ k ih => intro c; simp [meshTrace, ih]

theorem compactTrace_length (c : List Level) (start n : Nat) :
    (compactTrace c start n).length = n - (start + 1) := by
  simp [compactTrace]

/-- `_ensure_level(n)` performs at most `2n+1` shared-memory writes, from any state -/
theorem ensureTrace_length_le (o : AvObj) (n : Nat) (tr : List AvObj) (h : ensureTrace o n = .ok tr) :
    tr.length ≤ 2 * n + 1 := by
  unfold ensureTrace at h
  cases hb : o.basis with
  | classical b =>
    simp only [hb] at h
    cases h1 : buildTrace b (n + 1 - o.cache.length) o.cache with
    | error e => simp [h1] at h
    | ok t1 =>
      simp only [h1, Except.ok.injEq] at h
      subst h
      have := buildTrace_length b _ _ _ h1
      simp only [List.length_map, List.length_append, compactTrace_length, this]
      omega
  | mesh b =>
    simp only [hb, Except.ok.injEq] at h
    subst h
    simp only [List.length_map, List.length_append, compactTrace_length, meshTrace_length]
    omega

/-! ## list helpers -/

theorem map_set_same {α β} (f : α → β) {l : List α} {i : Nat} {t t' : α}
    (h : l[i]? = some t) (hf : f t' = f t) : (l.set i t').map f = l.map f := by
  apply List.ext_getElem?
  intro j
  simp only [List.getElem?_map, List.getElem?_set]
  by_cases hij : i = j
  · subst hij
    obtain ⟨hlt, rfl⟩ := List.getElem?_eq_some_iff.mp h
    simp [hlt, hf]
  · simp [hij]

theorem sum_map_set_lt {α} (f : α → Nat) : ∀ {l : List α} {i : Nat} {t t' : α},
    l[i]? = some t → f t' < f t → ((l.set i t').map f).sum < (l.map f).sum := by
  intro l
  induction l with
  | nil => intro i t t' h; simp at h
  | cons a l ih =>
    intro i t t' h hf
    cases i with
    | zero =>
      simp only [List.getElem?_cons_zero, Option.some.injEq] at h
      subst h
      simp only [List.set_cons_zero, List.map_cons, List.sum_cons]
      omega
    | succ i =>
      simp only [List.getElem?_cons_succ] at h
      have := ih h hf
      simp only [List.set_cons_succ, List.map_cons, List.sum_cons]
      omega

/-! ## the master case analysis of one step -/

/-- entering the critical section: blocked (no change), or the thread's record is replaced by a failed
    one / by one holding the lock with a plan of at most `2n+1` writes -/
theorem tryAcquire_cases (s : Sys) (tid : Nat) (t : Thread) (n : Nat) (rest : List Nat) :
    (tryAcquire s tid t n rest = s ∧ ∃ h, s.lock = some h) ∨
    (s.lock = none ∧ ∃ t', (tryAcquire s tid t n rest).threads = s.threads.set tid t' ∧
      ((∃ e, t' = { t with todo := n :: rest, phase := .failed e }) ∨
       (∃ plan, t' = { t with todo := rest, phase := .holding n plan } ∧ plan.length ≤ 2 * n + 1))) := by
  unfold tryAcquire
  cases hl : s.lock with
  | some h => exact .inl ⟨rfl, h, rfl⟩
  | none =>
    simp only []
    cases he : ensureTrace s.obj n with
    | error e => exact .inr ⟨by trivial, _, rfl, .inl ⟨e, rfl⟩⟩
    | ok plan => exact .inr ⟨by trivial, _, rfl, .inr ⟨plan, rfl, ensureTrace_length_le _ _ _ he⟩⟩

/-- one step either stutters (and then the thread was not active) or replaces the stepping thread's
    record by one with the same account and a strictly smaller cost -/
theorem step_cases (d : Disc) (s : Sys) (tid : Nat) :
    (step d s tid = s ∧ ∀ t, s.threads[tid]? = some t → ¬ Active d s t) ∨
    (∃ t t', s.threads[tid]? = some t ∧ (step d s tid).threads = s.threads.set tid t' ∧
      account t' = account t ∧ cost d.fast t' < cost d.fast t) := by
  unfold step
  cases htid : s.threads[tid]? with
  | none => exact .inl ⟨rfl, by intro t h; cases h⟩
  | some t =>
    simp only []
    cases hp : t.phase with
    | failed e =>
      exact .inl ⟨rfl, by intro t' h; cases h; simp [Active, hp]⟩
    | idle =>
      simp only []
      cases htd : t.todo with
      | nil => exact .inl ⟨rfl, by intro t' h; cases h; simp [Active, hp, htd]⟩
      | cons n rest =>
        simp only []
        cases hf : d.fast with
        | false =>
          simp only []
          rcases tryAcquire_cases s tid t n rest with ⟨h1, h, hl⟩ | ⟨hl, t', hth, hc⟩
          · exact .inl ⟨h1, by intro t' h'; cases h'; simp [Active, hp, hl, hf]⟩
          · refine .inr ⟨t, t', rfl, hth, ?_⟩
            rcases hc with ⟨e, rfl⟩ | ⟨plan, rfl, hlen⟩
            · refine ⟨by simp [account, pending, hp, htd], ?_⟩
              simp [cost, hp, htd, todoCost, lvlCost] <;> omega
            · refine ⟨by simp [account, pending, hp, htd], ?_⟩
              simp [cost, hp, htd, todoCost, lvlCost] <;> omega
        | true =>
          simp only []
          cases hg : d.guard n s.obj.cache.length with
          | true =>
            refine .inr ⟨t, _, rfl, rfl, ?_, ?_⟩
            · simp [account, pending, hp, htd]
            · simp [cost, hp, htd, todoCost, lvlCost] <;> omega
          | false =>
            refine .inr ⟨t, _, rfl, rfl, ?_, ?_⟩
            · simp [account, pending, hp, htd]
            · simp [cost, hp, htd, todoCost, lvlCost] <;> omega
    | waiting n =>
      simp only []
      rcases tryAcquire_cases s tid t n t.todo with ⟨h1, h, hl⟩ | ⟨hl, t', hth, hc⟩
      · exact .inl ⟨h1, by intro t' h'; cases h'; simp [Active, hp, hl]⟩
      · refine .inr ⟨t, t', rfl, hth, ?_⟩
        rcases hc with ⟨e, rfl⟩ | ⟨plan, rfl, hlen⟩
        · refine ⟨by simp [account, pending, hp], ?_⟩
          simp [cost, hp, todoCost] <;> omega
        · refine ⟨by simp [account, pending, hp], ?_⟩
          simp [cost, hp] <;> omega
    | holding n plan =>
      cases plan with
      | cons w ws =>
        refine .inr ⟨t, _, rfl, rfl, ?_, ?_⟩
        · simp [account, pending, hp]
        · simp [cost, hp] <;> omega
      | nil =>
        refine .inr ⟨t, _, rfl, rfl, ?_, ?_⟩
        · simp [account, pending, hp]
        · simp [cost, hp] <;> omega
    | reading n =>
      refine .inr ⟨t, _, rfl, rfl, ?_, ?_⟩
      · simp [account, pending, hp]
      · simp [cost, hp] <;> omega

/-- **bookkeeping invariant**: no step changes any thread's account -/
theorem step_account (d : Disc) (s : Sys) (tid : Nat) :
    (step d s tid).threads.map account = s.threads.map account := by
  rcases step_cases d s tid with ⟨h, _⟩ | ⟨t, t', ht, hth, hacc, _⟩
  · rw [h]
  · rw [hth]; exact map_set_same account ht hacc

theorem run_account (d : Disc) (sched : List Nat) : ∀ (s : Sys),
    (run d s sched).threads.map account = s.threads.map account := by
  induction sched with
  | nil => intro s; rfl
  | cons a rest ih => intro s; show (run d (step d s a) rest).threads.map account = _; rw [ih, step_account]

theorem step_length (d : Disc) (s : Sys) (tid : Nat) : (step d s tid).threads.length = s.threads.length := by
  have := congrArg List.length (step_account d s tid)
  simpa using this

theorem run_length (d : Disc) (sched : List Nat) (s : Sys) : (run d s sched).threads.length = s.threads.length := by
  have := congrArg List.length (run_account d sched s)
  simpa using this

/-- every step stutters or strictly decreases `mu` -/
theorem step_dich (d : Disc) (s : Sys) (tid : Nat) : step d s tid = s ∨ mu d.fast (step d s tid) < mu d.fast s := by
  rcases step_cases d s tid with ⟨h, _⟩ | ⟨t, t', ht, hth, _, hc⟩
  · exact .inl h
  · right; unfold mu; rw [hth]; exact sum_map_set_lt (cost d.fast) ht hc

/-- an active thread's step strictly decreases `mu` -/
theorem step_active {d : Disc} {s : Sys} {tid : Nat} {t : Thread} (ht : s.threads[tid]? = some t)
    (ha : Active d s t) : mu d.fast (step d s tid) < mu d.fast s := by
  rcases step_cases d s tid with ⟨_, h⟩ | ⟨t, t', ht, hth, _, hc⟩
  · exact absurd ha (h t ht)
  · unfold mu; rw [hth]; exact sum_map_set_lt (cost d.fast) ht hc

theorem step_mu_le (d : Disc) (s : Sys) (tid : Nat) : mu d.fast (step d s tid) ≤ mu d.fast s := by
  rcases step_dich d s tid with h | h
  · rw [h]; exact Nat.le_refl _
  · exact Nat.le_of_lt h

theorem run_mu_le (d : Disc) (sched : List Nat) : ∀ (s : Sys), mu d.fast (run d s sched) ≤ mu d.fast s := by
  induction sched with
  | nil => intro s; exact Nat.le_refl _
  | cons a rest ih =>
    intro s
    show mu d.fast (run d (step d s a) rest) ≤ mu d.fast s
    exact Nat.le_trans (ih _) (step_mu_le d s a)

/-- if thread `tid` can decrease `mu` now, any schedule segment that contains `tid` decreases `mu`
    (either an earlier step already did, or the state is unchanged when `tid`'s turn comes) -/
theorem run_lt_of_mem {d : Disc} {s : Sys} {tid : Nat} (h : mu d.fast (step d s tid) < mu d.fast s) :
    ∀ seg : List Nat, tid ∈ seg → mu d.fast (run d s seg) < mu d.fast s := by
  intro seg
  induction seg with
  | nil => intro hm; cases hm
  | cons a rest ih =>
    intro hm
    show mu d.fast (run d (step d s a) rest) < mu d.fast s
    rcases step_dich d s a with hst | hlt
    · rw [hst]
      apply ih
      rcases List.mem_cons.mp hm with rfl | hm'
      · rw [hst] at h; exact absurd h (Nat.lt_irrefl _)
      · exact hm'
    · exact Nat.lt_of_le_of_lt (run_mu_le d rest _) hlt

/-! ## finished states are stable -/

theorem step_allDone {d : Disc} {s : Sys} (h : AllDone s) (tid : Nat) : step d s tid = s := by
  unfold step
  cases htid : s.threads[tid]? with
  | none => rfl
  | some t =>
    have hd := h t (List.mem_iff_getElem?.mpr ⟨tid, htid⟩)
    simp [hd.1, hd.2]

theorem run_allDone {d : Disc} {s : Sys} (h : AllDone s) (sched : List Nat) : run d s sched = s := by
  induction sched with
  | nil => rfl
  | cons a rest ih => show run d (step d s a) rest = s; rw [step_allDone h]; exact ih

/-! ## the lock-holder invariant -/

/-- replacing the record of a thread that is not inside the critical section by another such record
    (lock untouched) keeps the lock-holder invariant -/
theorem lockOK_setThread {s : Sys} (h : LockOK s) {tid : Nat} {t t' : Thread}
    (htid : s.threads[tid]? = some t) (hnh : ∀ n plan, t.phase ≠ .holding n plan) :
    LockOK (s.setThread tid t') := by
  intro h' hh
  have hh' : s.lock = some h' := by simpa [Sys.setThread] using hh
  obtain ⟨th, n', plan', hth, hph⟩ := h h' hh'
  rw [getElem?_setThread]
  by_cases hc : tid = h' ∧ tid < s.threads.length
  · obtain ⟨rfl, _⟩ := hc
    rw [htid] at hth; cases hth
    exact absurd hph (hnh n' plan')
  · rw [if_neg hc]; exact ⟨th, n', plan', hth, hph⟩

theorem tryAcquire_lockOK {s : Sys} (h : LockOK s) {tid : Nat} {t : Thread}
    (htid : s.threads[tid]? = some t) (n : Nat) (rest : List Nat) : LockOK (tryAcquire s tid t n rest) := by
  have hlt := lt_of_getElem? htid
  unfold tryAcquire
  cases hl : s.lock with
  | some h' => simpa using h
  | none =>
    simp only []
    cases he : ensureTrace s.obj n with
    | error e =>
      intro h' hh
      simp [Sys.setThread, hl] at hh
    | ok plan =>
      intro h' hh
      simp only [Sys.setThread, Option.some.injEq] at hh
      subst hh
      refine ⟨{ t with todo := rest, phase := .holding n plan }, n, plan, ?_, rfl⟩
      rw [getElem?_setThread]
      simp [hlt]

theorem step_lockOK {d : Disc} {s : Sys} (h : LockOK s) (tid : Nat) : LockOK (step d s tid) := by
  unfold step
  cases htid : s.threads[tid]? with
  | none => exact h
  | some t =>
    have hlt := lt_of_getElem? htid
    simp only []
    cases hp : t.phase with
    | failed e => exact h
    | idle =>
      simp only []
      cases htd : t.todo with
      | nil => exact h
      | cons n rest =>
        simp only []
        cases hf : d.fast with
        | false => exact tryAcquire_lockOK h htid n rest
        | true =>
          simp only []
          cases hg : d.guard n s.obj.cache.length with
          | true => exact lockOK_setThread h htid (by rw [hp]; intro _ _ h; cases h)
          | false => exact lockOK_setThread h htid (by rw [hp]; intro _ _ h; cases h)
    | waiting n => exact tryAcquire_lockOK h htid n t.todo
    | holding n plan =>
      cases plan with
      | cons w ws =>
        intro h' hh
        have hh' : s.lock = some h' := by simpa [Sys.setThread] using hh
        obtain ⟨th, n', plan', hth, hph⟩ := h h' hh'
        rw [getElem?_setThread]
        by_cases hc : tid = h' ∧ tid < ({ s with obj := w } : Sys).threads.length
        · rw [if_pos hc]; exact ⟨_, n, ws, rfl, rfl⟩
        · rw [if_neg hc]; exact ⟨th, n', plan', hth, hph⟩
      | nil =>
        intro h' hh
        simp [Sys.setThread] at hh
    | reading n => exact lockOK_setThread h htid (by rw [hp]; intro _ _ h; cases h)

theorem run_lockOK {d : Disc} (sched : List Nat) : ∀ {s : Sys}, LockOK s → LockOK (run d s sched) := by
  induction sched with
  | nil => intro s h; exact h
  | cons a rest ih => intro s h; exact ih (step_lockOK h a)

theorem init_lockOK (o : AvObj) (todos : List (List Nat)) : LockOK (initSys o todos) := by
  intro h hh; cases hh

theorem allDone_lock_free {s : Sys} (hL : LockOK s) (hd : AllDone s) : s.lock = none := by
  cases hl : s.lock with
  | none => rfl
  | some h =>
    obtain ⟨t, n, plan, ht, hp⟩ := hL h hl
    have := (hd t (List.mem_iff_getElem?.mpr ⟨h, ht⟩)).1
    rw [hp] at this; cases this

/-! ## reachable states: never stuck -/

/-- the facts about a reachable state that progress needs -/
structure Live (s : Sys) : Prop where
  lockOK : LockOK s
  noFail : NoFail s

theorem inv_noFail {spec Good base s} (hi : Inv spec Good base s) : NoFail s := by
  intro t ht e he
  obtain ⟨i, hi'⟩ := List.mem_iff_getElem?.mp ht
  have := (hi.thr i t hi').1
  rw [he] at this; exact this

/-- **no deadlock, one step**: in a live state in which no thread can decrease `mu`, all threads are done -/
theorem allDone_of_stuck {d : Disc} {s : Sys} (hL : Live s)
    (hno : ∀ tid, tid < s.threads.length → ¬ mu d.fast (step d s tid) < mu d.fast s) : AllDone s := by
  cases hl : s.lock with
  | some h =>
    obtain ⟨t, n, plan, ht, hp⟩ := hL.lockOK h hl
    exact absurd (step_active ht (by simp [Active, hp])) (hno h (lt_of_getElem? ht))
  | none =>
    intro t ht
    obtain ⟨i, hi⟩ := List.mem_iff_getElem?.mp ht
    have hna : ¬ Active d s t := fun ha => hno i (lt_of_getElem? hi) (step_active hi ha)
    unfold Done
    cases hp : t.phase with
    | failed e => exact absurd hp (hL.noFail t ht e)
    | waiting n => exact absurd (by simp [Active, hp, hl]) hna
    | holding n plan => exact absurd (by simp [Active, hp]) hna
    | reading n => exact absurd (by simp [Active, hp]) hna
    | idle =>
      refine ⟨rfl, ?_⟩
      cases htd : t.todo with
      | nil => rfl
      | cons n rest => exact absurd (by simp [Active, hp, htd, hl]) hna

theorem exists_enabled {d : Disc} {s : Sys} (hL : Live s) (hnd : ¬ AllDone s) :
    ∃ tid, tid < s.threads.length ∧ mu d.fast (step d s tid) < mu d.fast s := by
  apply Classical.byContradiction
  intro hne
  exact hnd (allDone_of_stuck hL fun tid hlt hmu => hne ⟨tid, hlt, hmu⟩)

/-- a *fair round* (a segment containing every thread id) either starts in a finished state or
    strictly decreases `mu` -/
theorem round_progress {d : Disc} {s : Sys} (hL : Live s) (seg : List Nat)
    (hfair : ∀ tid, tid < s.threads.length → tid ∈ seg) : AllDone s ∨ mu d.fast (run d s seg) < mu d.fast s := by
  by_cases hd : AllDone s
  · exact .inl hd
  · obtain ⟨tid, hlt, hmu⟩ := exists_enabled (d := d) hL hd
    exact .inr (run_lt_of_mem hmu seg (hfair tid hlt))

/-- reachability package: the C07 invariant (for some base) and the lock-holder invariant -/
def Reach (spec : Nat → List NSeq) (Good : AvObj → Prop) (s : Sys) : Prop :=
  (∃ base, Inv spec Good base s) ∧ LockOK s

theorem Reach.live {spec Good s} (h : Reach spec Good s) : Live s :=
  let ⟨⟨_, hi⟩, hl⟩ := h
  ⟨hl, inv_noFail hi⟩

theorem Reach.run {spec Good} (hs : SeqOK spec Good) {d : Disc} (hd : d.OK) {s : Sys}
    (h : Reach spec Good s) (sched : List Nat) : Reach spec Good (run d s sched) :=
  let ⟨⟨_, hi⟩, hl⟩ := h
  ⟨run_inv hs hd sched hi, run_lockOK sched hl⟩

theorem Reach.init {spec Good} (hs : SeqOK spec Good) (o : AvObj) (ho : Good o) (todos : List (List Nat)) :
    Reach spec Good (initSys o todos) :=
  ⟨⟨o, init_inv hs o ho todos⟩, init_lockOK o todos⟩

/-- **deadlock freedom with an explicit bound**: from every reachable state there is a continuation of
    at most `mu s` steps after which all threads are finished -/
theorem exists_completion {spec Good} (hs : SeqOK spec Good) {d : Disc} (hd : d.OK) : ∀ (k : Nat) {s : Sys},
    Reach spec Good s → mu d.fast s ≤ k →
    ∃ cont : List Nat, cont.length ≤ mu d.fast s ∧ AllDone (run d s cont) := by
  intro k
  induction k with
  | zero =>
    intro s hr hk
    refine ⟨[], Nat.zero_le _, ?_⟩
    show AllDone s
    exact allDone_of_stuck (d := d) hr.live fun tid _ h => by omega
  | succ k ih =>
    intro s hr hk
    by_cases hdn : AllDone s
    · exact ⟨[], Nat.zero_le _, hdn⟩
    · obtain ⟨tid, _, hmu⟩ := exists_enabled (d := d) hr.live hdn
      have hr' : Reach spec Good (step d s tid) := hr.run hs hd [tid]
      obtain ⟨cont, hlen, hdone⟩ := ih hr' (by omega)
      exact ⟨tid :: cont, by simp only [List.length_cons]; omega, hdone⟩

/-- **progress under fairness**: `mu s` fair rounds finish every thread, whatever else the rounds contain -/
theorem fair_rounds_finish {spec Good} (hs : SeqOK spec Good) {d : Disc} (hd : d.OK) :
    ∀ (segs : List (List Nat)) {s : Sys},
    Reach spec Good s → (∀ seg ∈ segs, ∀ tid, tid < s.threads.length → tid ∈ seg) →
    mu d.fast s ≤ segs.length → AllDone (run d s segs.flatten) := by
  intro segs
  induction segs with
  | nil =>
    intro s hr _ hk
    show AllDone s
    exact allDone_of_stuck (d := d) hr.live fun tid _ h => by simp at hk; omega
  | cons seg segs ih =>
    intro s hr hfair hk
    have hsplit : run d s (seg :: segs).flatten = run d (run d s seg) segs.flatten := by
      simp [run, List.foldl_append]
    rw [hsplit]
    rcases round_progress (d := d) hr.live seg (hfair seg (by simp)) with hdn | hlt
    · rw [run_allDone hdn seg, run_allDone hdn]; exact hdn
    · apply ih (hr.run hs hd seg)
      · intro seg' hseg' tid htid
        rw [run_length] at htid
        exact hfair seg' (by simp [hseg']) tid htid
      · simp only [List.length_cons] at hk; omega

/-! ## the initial state -/

/-- total cost bound of a workload: `2n+4` (`2n+5` with the fast path) per requested level `n` -/
def totalCost (fast : Bool) (todos : List (List Nat)) : Nat := (todos.map (todoCost fast)).sum

theorem init_account (o : AvObj) (todos : List (List Nat)) :
    (initSys o todos).threads.map account = todos := by
  simp [initSys, account, pending, Function.comp_def]

theorem init_mu (fast : Bool) (o : AvObj) (todos : List (List Nat)) :
    mu fast (initSys o todos) = totalCost fast todos := by
  simp [initSys, mu, totalCost, cost, Function.comp_def]

theorem init_length (o : AvObj) (todos : List (List Nat)) : (initSys o todos).threads.length = todos.length := by
  simp [initSys]

/-! ## the plain discipline does not use the extra phase -/

/-- no thread is committed-and-blocked (`waiting`): the extra phase of double-checked locking is unused -/
def NoWaiting (s : Sys) : Prop := ∀ t ∈ s.threads, ∀ n, t.phase ≠ .waiting n

theorem noWaiting_setThread {s : Sys} (h : NoWaiting s) (tid : Nat) (t' : Thread)
    (ht' : ∀ n, t'.phase ≠ .waiting n) : NoWaiting (s.setThread tid t') := by
  intro t ht n
  obtain ⟨j, hj⟩ := List.mem_iff_getElem?.mp ht
  rw [getElem?_setThread] at hj
  by_cases hc : tid = j ∧ tid < s.threads.length
  · rw [if_pos hc] at hj; cases hj; exact ht' n
  · rw [if_neg hc] at hj; exact h t (List.mem_iff_getElem?.mpr ⟨j, hj⟩) n

theorem tryAcquire_noWaiting {s : Sys} (h : NoWaiting s) (tid : Nat) (t : Thread) (n : Nat) (rest : List Nat) :
    NoWaiting (tryAcquire s tid t n rest) := by
  unfold tryAcquire
  cases s.lock with
  | some _ => exact h
  | none =>
    simp only []
    cases ensureTrace s.obj n with
    | error e => exact noWaiting_setThread h tid _ (by intro m hm; cases hm)
    | ok plan =>
      exact noWaiting_setThread (s := { s with lock := some tid }) h tid _ (by intro m hm; cases hm)

/-- under the plain discipline the machine never uses the `waiting` phase: it is the machine without it -/
theorem step_noWaiting {d : Disc} (hf : d.fast = false) {s : Sys} (h : NoWaiting s) (tid : Nat) :
    NoWaiting (step d s tid) := by
  unfold step
  cases htid : s.threads[tid]? with
  | none => exact h
  | some t =>
    simp only []
    cases hp : t.phase with
    | failed e => exact h
    | idle =>
      simp only []
      cases htd : t.todo with
      | nil => exact h
      | cons n rest => simp only [hf]; exact tryAcquire_noWaiting h tid t n rest
    | waiting n => exact tryAcquire_noWaiting h tid t n t.todo
    | holding n plan =>
      cases plan with
      | cons w ws => exact noWaiting_setThread (s := { s with obj := w }) h tid _ (by intro m hm; cases hm)
      | nil => exact noWaiting_setThread (s := { s with lock := none }) h tid _ (by intro m hm; cases hm)
    | reading n => exact noWaiting_setThread h tid _ (by intro m hm; cases hm)

theorem run_noWaiting {d : Disc} (hf : d.fast = false) (sched : List Nat) :
    ∀ {s : Sys}, NoWaiting s → NoWaiting (run d s sched) := by
  induction sched with
  | nil => intro s h; exact h
  | cons a rest ih => intro s h; exact ih (step_noWaiting hf h a)

theorem init_noWaiting (o : AvObj) (todos : List (List Nat)) : NoWaiting (initSys o todos) := by
  intro t ht n
  simp only [initSys, List.mem_map] at ht
  obtain ⟨td, _, rfl⟩ := ht
  intro h; cases h

end C07L
