import PermutaModel.Model.C01
open Model

/-- prefix version of the fold, to do induction on the prefix length -/
def floorUpTo (π : NSeq) (k m : Nat) : Option Nat :=
  (List.range m).foldl (fun best j =>
    if π.getD j 0 < π.getD k 0 then
      match best with
      | none => some j
      | some b => if π.getD b 0 < π.getD j 0 then some j else some b
    else best) none

theorem floorUpTo_succ (π : NSeq) (k m : Nat) :
    floorUpTo π k (m+1) =
      (if π.getD m 0 < π.getD k 0 then
        match floorUpTo π k m with
        | none => some m
        | some b => if π.getD b 0 < π.getD m 0 then some m else some b
      else floorUpTo π k m) := by
  simp [floorUpTo, List.range_succ, List.foldl_append]

def FloorSpec (π : NSeq) (k m : Nat) : Option Nat → Prop
  | none => ∀ j < m, ¬ π.getD j 0 < π.getD k 0
  | some f => f < m ∧ π.getD f 0 < π.getD k 0 ∧
      ∀ j < m, π.getD j 0 < π.getD k 0 → π.getD j 0 ≤ π.getD f 0

theorem floorUpTo_spec (π : NSeq) (k m : Nat) : FloorSpec π k m (floorUpTo π k m) := by
  induction m with
  | zero => simp [floorUpTo, FloorSpec]
  | succ m ih =>
    rw [floorUpTo_succ]
    split
    · next hlt =>
      cases hb : floorUpTo π k m with
      | none =>
        rw [hb] at ih
        simp only [FloorSpec] at ih ⊢
        refine ⟨by omega, hlt, ?_⟩
        intro j hj hjk
        rcases Nat.lt_succ_iff_lt_or_eq.mp hj with h | h
        · exact absurd hjk (ih j h)
        · subst h; exact Nat.le_refl _
      | some b =>
        rw [hb] at ih
        simp only [FloorSpec] at ih
        obtain ⟨hbm, hbk, hmax⟩ := ih
        by_cases hbm' : π.getD b 0 < π.getD m 0
        · simp only [if_pos hbm', FloorSpec]
          refine ⟨by omega, hlt, ?_⟩
          intro j hj hjk
          rcases Nat.lt_succ_iff_lt_or_eq.mp hj with h | h
          · have := hmax j h hjk; omega
          · subst h; exact Nat.le_refl _
        · simp only [if_neg hbm', FloorSpec]
          refine ⟨by omega, hbk, ?_⟩
          intro j hj hjk
          rcases Nat.lt_succ_iff_lt_or_eq.mp hj with h | h
          · exact hmax j h hjk
          · subst h; omega
    · next hlt =>
      cases hb : floorUpTo π k m with
      | none =>
        rw [hb] at ih
        simp only [FloorSpec] at ih ⊢
        intro j hj
        rcases Nat.lt_succ_iff_lt_or_eq.mp hj with h | h
        · exact ih j h
        · subst h; exact hlt
      | some b =>
        rw [hb] at ih
        simp only [FloorSpec] at ih ⊢
        obtain ⟨hbm, hbk, hmax⟩ := ih
        refine ⟨by omega, hbk, ?_⟩
        intro j hj hjk
        rcases Nat.lt_succ_iff_lt_or_eq.mp hj with h | h
        · exact hmax j h hjk
        · subst h; exact absurd hjk hlt

theorem leftFloor_spec (π : NSeq) (k : Nat) : FloorSpec π k k (leftFloor π k) :=
  floorUpTo_spec π k k
