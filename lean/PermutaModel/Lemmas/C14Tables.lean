import PermutaModel.Lemmas.C14Rank
/-! C14 helper lemmas: the word → permutation table and its inversion. -/
namespace C14L
open Model.C14 Model.C14.Letter Spec.C14 Proto

theorem mem_decodeAll {ws : List Word} {t : List (Word × NSeq)} (h : decodeAll ws = .ok t)
    (w : Word) (σ : NSeq) : (w, σ) ∈ t ↔ w ∈ ws ∧ pinwordToPerm w = .ok σ := by
  induction ws generalizing t with
  | nil => simp only [decodeAll, Except.ok.injEq] at h; subst h; simp
  | cons v vs ih =>
    simp only [decodeAll] at h
    cases hv : pinwordToPerm v with
    | error e => simp [hv] at h
    | ok τ =>
      simp only [hv] at h
      cases hvs : decodeAll vs with
      | error e => simp [hvs] at h
      | ok t' =>
        simp only [hvs, Except.ok.injEq] at h
        subst h
        simp only [List.mem_cons, Prod.mk.injEq, ih hvs]
        constructor
        · rintro (⟨rfl, rfl⟩ | ⟨h1, h2⟩)
          · exact ⟨Or.inl rfl, hv⟩
          · exact ⟨Or.inr h1, h2⟩
        · rintro ⟨rfl | h1, h2⟩
          · left; rw [hv] at h2; exact ⟨rfl, (Except.ok.inj h2).symm⟩
          · exact Or.inr ⟨h1, h2⟩

theorem decodeAll_keys {ws : List Word} {t : List (Word × NSeq)} (h : decodeAll ws = .ok t) :
    t.map Prod.fst = ws := by
  induction ws generalizing t with
  | nil => simp only [decodeAll, Except.ok.injEq] at h; subst h; rfl
  | cons v vs ih =>
    simp only [decodeAll] at h
    cases hv : pinwordToPerm v with
    | error e => simp [hv] at h
    | ok τ =>
      simp only [hv] at h
      cases hvs : decodeAll vs with
      | error e => simp [hvs] at h
      | ok t' =>
        simp only [hvs, Except.ok.injEq] at h
        subst h
        simp [ih hvs]

theorem decodeAll_total {ws : List Word} (hall : ∀ w ∈ ws, ∃ σ, pinwordToPerm w = .ok σ) :
    ∃ t, decodeAll ws = .ok t := by
  induction ws with
  | nil => exact ⟨[], rfl⟩
  | cons v vs ih =>
    obtain ⟨σ, hσ⟩ := hall v List.mem_cons_self
    obtain ⟨t, ht⟩ := ih fun w hw => hall w (List.mem_cons_of_mem _ hw)
    exact ⟨(v, σ) :: t, by simp [decodeAll, hσ, ht]⟩

/-- `w` is listed under the key `σ` -/
def Rel (res : List (NSeq × List Word)) (σ : NSeq) (w : Word) : Prop := ∃ ws, (σ, ws) ∈ res ∧ w ∈ ws

theorem rel_addTo (res : List (NSeq × List Word)) (σ τ : NSeq) (w v : Word) :
    Rel (addTo res σ w) τ v ↔ Rel res τ v ∨ (τ = σ ∧ v = w) := by
  induction res with
  | nil =>
    simp only [addTo, Rel, List.mem_singleton, Prod.mk.injEq, List.not_mem_nil, false_and,
      exists_false, false_or]
    constructor
    · rintro ⟨ws, ⟨rfl, rfl⟩, hv⟩; exact ⟨rfl, by simpa using hv⟩
    · rintro ⟨rfl, rfl⟩; exact ⟨[v], ⟨rfl, rfl⟩, by simp⟩
  | cons e rest ih =>
    obtain ⟨κ, ws0⟩ := e
    simp only [addTo]
    by_cases hk : κ = σ
    · subst hk
      simp only [if_true, Rel, List.mem_cons, Prod.mk.injEq]
      constructor
      · rintro ⟨ws, (⟨rfl, rfl⟩ | hm), hv⟩
        · by_cases hmem : w ∈ ws0
          · simp only [hmem, if_true] at hv; exact Or.inl ⟨ws0, Or.inl ⟨rfl, rfl⟩, hv⟩
          · simp only [hmem, if_false, List.mem_append, List.mem_singleton] at hv
            rcases hv with hv | rfl
            · exact Or.inl ⟨ws0, Or.inl ⟨rfl, rfl⟩, hv⟩
            · exact Or.inr ⟨rfl, rfl⟩
        · exact Or.inl ⟨ws, Or.inr hm, hv⟩
      · rintro (⟨ws, (⟨rfl, rfl⟩ | hm), hv⟩ | ⟨rfl, rfl⟩)
        · refine ⟨_, Or.inl ⟨rfl, rfl⟩, ?_⟩
          split
          · exact hv
          · exact List.mem_append_left _ hv
        · exact ⟨ws, Or.inr hm, hv⟩
        · refine ⟨_, Or.inl ⟨rfl, rfl⟩, ?_⟩
          split
          · assumption
          · simp
    · simp only [hk, if_false]
      have : ∀ res', Rel ((κ, ws0) :: res') τ v ↔ (τ = κ ∧ v ∈ ws0) ∨ Rel res' τ v := by
        intro res'
        simp only [Rel, List.mem_cons, Prod.mk.injEq]
        constructor
        · rintro ⟨ws, (⟨rfl, rfl⟩ | hm), hv⟩
          · exact Or.inl ⟨rfl, hv⟩
          · exact Or.inr ⟨ws, hm, hv⟩
        · rintro (⟨rfl, hv⟩ | ⟨ws, hm, hv⟩)
          · exact ⟨ws0, Or.inl ⟨rfl, rfl⟩, hv⟩
          · exact ⟨ws, Or.inr hm, hv⟩
      rw [this, this, ih]
      tauto

theorem keys_addTo (res : List (NSeq × List Word)) (σ : NSeq) (w : Word) :
    (addTo res σ w).map Prod.fst =
      if σ ∈ res.map Prod.fst then res.map Prod.fst else res.map Prod.fst ++ [σ] := by
  induction res with
  | nil => simp [addTo]
  | cons e rest ih =>
    obtain ⟨κ, ws0⟩ := e
    simp only [addTo]
    by_cases hk : κ = σ
    · subst hk; simp
    · simp only [hk, if_false, List.map_cons, ih, List.mem_cons]
      have : ¬ σ = κ := fun h => hk h.symm
      simp only [this, false_or]
      split <;> simp

theorem keys_nodup_addTo {res : List (NSeq × List Word)} (h : (res.map Prod.fst).Nodup)
    (σ : NSeq) (w : Word) : ((addTo res σ w).map Prod.fst).Nodup := by
  rw [keys_addTo]
  split
  · exact h
  · rename_i hn
    exact List.nodup_append.mpr ⟨h, by simp, by
      intro a ha b hb; simp only [List.mem_singleton] at hb; subst hb
      intro hab; subst hab; exact hn ha⟩

theorem nonempty_addTo {res : List (NSeq × List Word)} (h : ∀ e ∈ res, e.2 ≠ [])
    (σ : NSeq) (w : Word) : ∀ e ∈ addTo res σ w, e.2 ≠ [] := by
  induction res with
  | nil => intro e he; simp only [addTo, List.mem_singleton] at he; subst he; simp
  | cons e0 rest ih =>
    obtain ⟨κ, ws0⟩ := e0
    intro e he
    simp only [addTo] at he
    split at he
    · rcases List.mem_cons.mp he with rfl | he
      · have := h (κ, ws0) List.mem_cons_self
        simp only at this ⊢
        split
        · exact this
        · simp
      · exact h e (List.mem_cons_of_mem _ he)
    · rcases List.mem_cons.mp he with rfl | he
      · exact h _ List.mem_cons_self
      · exact ih (fun e he => h e (List.mem_cons_of_mem _ he)) e he

theorem foldl_addTo (tbl : List (Word × NSeq)) (res : List (NSeq × List Word)) :
    (∀ τ v, Rel (tbl.foldl (fun r kv => addTo r kv.2 kv.1) res) τ v ↔ Rel res τ v ∨ (v, τ) ∈ tbl)
    ∧ ((res.map Prod.fst).Nodup → ((tbl.foldl (fun r kv => addTo r kv.2 kv.1) res).map Prod.fst).Nodup)
    ∧ ((∀ e ∈ res, e.2 ≠ []) → ∀ e ∈ tbl.foldl (fun r kv => addTo r kv.2 kv.1) res, e.2 ≠ []) := by
  induction tbl generalizing res with
  | nil => simp
  | cons kv rest ih =>
    obtain ⟨h1, h2, h3⟩ := ih (addTo res kv.2 kv.1)
    simp only [List.foldl_cons]
    refine ⟨fun τ v => ?_, fun hn => h2 (keys_nodup_addTo hn _ _), fun hne => h3 (nonempty_addTo hne _ _)⟩
    rw [h1, rel_addTo, List.mem_cons]
    obtain ⟨k, s⟩ := kv
    simp only [Prod.mk.injEq]
    tauto

theorem rel_groupWords (tbl : List (Word × NSeq)) (σ : NSeq) (w : Word) :
    Rel (groupWords tbl) σ w ↔ (w, σ) ∈ tbl := by
  have := (foldl_addTo tbl []).1 σ w
  simpa [groupWords, Rel] using this

theorem groupWords_keys_nodup (tbl : List (Word × NSeq)) : ((groupWords tbl).map Prod.fst).Nodup :=
  (foldl_addTo tbl []).2.1 (by simp)

theorem groupWords_nonempty (tbl : List (Word × NSeq)) : ∀ e ∈ groupWords tbl, e.2 ≠ [] :=
  (foldl_addTo tbl []).2.2 (by simp)

theorem rel_strictFilter (t : List (NSeq × List Word)) (σ : NSeq) (w : Word) :
    Rel (strictFilter t) σ w ↔ Rel t σ w ∧ isStrict w = true := by
  simp only [Rel, strictFilter, List.mem_map]
  constructor
  · rintro ⟨ws, ⟨⟨κ, ws0⟩, hm, heq⟩, hw⟩
    simp only [Prod.mk.injEq] at heq
    obtain ⟨rfl, rfl⟩ := heq
    rw [List.mem_filter] at hw
    exact ⟨⟨ws0, hm, hw.1⟩, hw.2⟩
  · rintro ⟨⟨ws, hm, hw⟩, hs⟩
    exact ⟨ws.filter isStrict, ⟨(σ, ws), hm, rfl⟩, List.mem_filter.mpr ⟨hw, hs⟩⟩

end C14L
