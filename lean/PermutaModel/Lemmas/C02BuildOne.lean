import PermutaModel.Lemmas.C02Build

/-! C02 helpers, part 7: `buildOne` preserves the cache invariant and appends exactly the next level. -/
open List Model Model.C02

namespace C02L
open C10L

theorem getLastD_eq_getD (c : List Level) : c.getLastD [] = c.getD (c.length - 1) [] := by
  rw [List.getLastD_eq_getLast?, List.getLast?_eq_getElem?, List.getD_eq_getElem?_getD]

theorem getD_setLast_append (c : List Level) (hc : 0 < c.length) (x y : Level) (i : Nat) :
    (setLast c x ++ [y]).getD i [] =
      if i + 1 < c.length then c.getD i [] else if i + 1 = c.length then x
      else if i = c.length then y else [] := by
  unfold setLast
  simp only [List.getD_eq_getElem?_getD, List.getElem?_append, List.length_append, List.length_dropLast,
    List.length_cons, List.length_nil]
  split_ifs <;> first | omega | skip
  · rw [List.getElem?_dropLast]; simp [*]
  · have : i - (c.length - 1) = 0 := by omega
    rw [this]; rfl
  · have : i - (c.length - 1 + (0 + 1)) = 0 := by omega
    rw [this]; rfl
  · rw [List.getElem?_eq_none (by simp; omega)]; rfl

/-- for a key of the last level, `valid_insertions` succeeds, and the values that survive the
    `smaller_elems` test are exactly the valid end-insertions, each once -/
theorem goodVals_spec {b : List NSeq} (hb : ValidBasis b) {c : List Level} (h : CacheInv b c)
    {e : NSeq × Option (List Nat)} (he : e ∈ c.getD (c.length - 1) []) :
    (∃ vals, validInsertions (c.getD (c.length - 2) []) (maxSize b) e.1 = .ok vals) ∧
    (goodVals (c.getD (c.length - 2) []) (maxSize b) (b.filter fun p => p.length == c.length) e.1).Nodup ∧
    ∀ v, v ∈ goodVals (c.getD (c.length - 2) []) (maxSize b) (b.filter fun p => p.length == c.length) e.1 ↔
      ValidIns b e.1 v := by
  have hpos := h.pos
  have hπk : e.1 ∈ (c.getD (c.length - 1) []).keys := List.mem_map_of_mem he
  obtain ⟨hin, hlen⟩ := (h.mem_keys (by omega)).mp hπk
  have hlevel : Spec.C02.level b (c.length - 1) ≠ [] := by
    intro h0
    have := (h.keys (c.length - 1) (by omega)).mem_iff.mp hπk
    rw [h0] at this; simp at this
  obtain ⟨vals, hv, hnd, hmem⟩ := validInsertions_spec (c.getD (c.length - 2) []) (maxSize b) e.1
    (fun i v => v ≤ e.1.length ∧ InAv b (appendValue (removeAt e.1 i) (shiftVal v (e.1.getD i 0))))
    (fun i v hq => hq.1)
    (by
      intro i _ h2
      have hL : 2 ≤ c.length := by omega
      have hρ := InAv_removeAt hb hin h2
      have hρl := (removeAt_isPerm hin.1 h2).2
      have hρk : removeAt e.1 i ∈ (c.getD (c.length - 2) []).keys :=
        (h.mem_keys (by omega)).mpr ⟨hρ, by omega⟩
      obtain ⟨e', he', he1, hlk⟩ := lookup_of_mem_keys hρk
      obtain ⟨spots, hs, hok⟩ := h.prev hL e' he'
      refine ⟨spots, by rw [hlk, hs], fun v => ?_⟩
      rw [mem_acceptable]
      have ht := hin.1.getD_lt h2
      constructor
      · intro hm
        have hne : Spec.C02.level b (e'.1.length + 1) ≠ [] := by
          have : e'.1.length + 1 = c.length - 1 := by rw [he1]; omega
          rw [this]; exact hlevel
        have hvalid := hok.1.2 hne _ hm
        rw [he1] at hvalid
        refine ⟨?_, hvalid.2⟩
        have h1 := hvalid.1
        rw [hρl] at h1
        unfold shiftVal at h1
        split_ifs at h1 <;> omega
      · rintro ⟨hvl, hin'⟩
        apply hok.2
        rw [he1]
        exact ⟨shiftVal_le hin.1 h2 hvl, hin'⟩)
  refine ⟨⟨vals, hv⟩, ?_, fun v => ?_⟩
  · simp only [goodVals, hv]; exact hnd.filter _
  · simp only [goodVals, hv, List.mem_filter, hmem v]
    have hforb : v ≤ e.1.length → ((b.filter fun p => p.length == c.length).contains (appendValue e.1 v) = true ↔
        appendValue e.1 v ∈ b) := by
      intro _
      rw [List.contains_iff_mem, List.mem_filter]
      have : (appendValue e.1 v).length = c.length := by rw [length_appendValue]; omega
      simp [this]
    unfold ValidIns
    constructor
    · rintro ⟨⟨hvl, hall⟩, hnf⟩
      refine ⟨hvl, (InAv_appendValue_iff hb hin hvl).mpr ⟨?_, fun i h1 h2 => (hall i h1 h2).2⟩⟩
      intro hmemb
      rw [(hforb hvl).mpr hmemb] at hnf; simp at hnf
    · rintro ⟨hvl, hav⟩
      obtain ⟨hnb, hall⟩ := (InAv_appendValue_iff hb hin hvl).mp hav
      refine ⟨⟨hvl, fun i h1 h2 => ⟨hvl, hall i h1 h2⟩⟩, ?_⟩
      cases hc : (b.filter fun p => p.length == c.length).contains (appendValue e.1 v) with
      | false => rfl
      | true => exact (hnb ((hforb hvl).mp hc)).elim

theorem getD_setLast_append_last (c : List Level) (hc : 0 < c.length) (x y : Level) :
    (setLast c x ++ [y]).getD (c.length - 1) [] = x := by
  rw [getD_setLast_append c hc, if_neg (by omega), if_pos (by omega)]

theorem getD_setLast_append_new (c : List Level) (hc : 0 < c.length) (x y : Level) :
    (setLast c x ++ [y]).getD c.length [] = y := by
  rw [getD_setLast_append c hc, if_neg (by omega), if_neg (by omega), if_pos rfl]

theorem length_setLast_append (c : List Level) (hc : 0 < c.length) (x y : Level) :
    (setLast c x ++ [y]).length = c.length + 1 := by
  simp [setLast, List.length_dropLast]; omega

/-- **T1**: one round of the builder appends exactly the next level and keeps the invariant -/
theorem buildOne_correct {b : List NSeq} (hb : ValidBasis b) {c : List Level} (h : CacheInv b c) :
    ∃ c', buildOne b c = .ok c' ∧ CacheInv b c' ∧ c'.length = c.length + 1 ∧
      ∀ i, i < c.length → (c'.getD i []).keys = (c.getD i []).keys := by
  have hpos := h.pos
  have hbl := buildLoop_spec (c.getD (c.length - 2) []) (maxSize b)
    (b.filter fun p => p.length == c.length) (c.getD (c.length - 1) [])
    (fun e he => ⟨(by obtain ⟨l, hl, _⟩ := h.last e he; exact ⟨l, hl⟩), (goodVals_spec hb h he).1⟩)
  generalize hgv : goodVals (c.getD (c.length - 2) []) (maxSize b)
    (b.filter fun p => p.length == c.length) = gv at hbl
  have hgs : ∀ e ∈ c.getD (c.length - 1) [], (gv e.1).Nodup ∧ ∀ v, v ∈ gv e.1 ↔ ValidIns b e.1 v := by
    intro e he; rw [← hgv]; exact (goodVals_spec hb h he).2
  have hlastk : ∀ σ, σ ∈ (c.getD (c.length - 1) []).keys ↔ σ ∈ Spec.C02.level b (c.length - 1) :=
    fun σ => (h.keys (c.length - 1) (by omega)).mem_iff
  have hsucc : c.length - 1 + 1 = c.length := by omega
  -- the new level
  have hnewk : Level.keys ((c.getD (c.length - 1) []).flatMap
      (fun e => (gv e.1).map (fun v => (appendValue e.1 v, (some [] : Option (List Nat)))))) =
      (c.getD (c.length - 1) []).flatMap (fun e => (gv e.1).map (appendValue e.1)) := by
    simp [Level.keys, List.map_flatMap, Function.comp_def]
  have hnew_mem : ∀ σ, σ ∈ (c.getD (c.length - 1) []).flatMap (fun e => (gv e.1).map (appendValue e.1)) ↔
      σ ∈ Spec.C02.level b c.length := by
    intro σ
    have hms := mem_level_succ hb (n := c.length - 1) (σ := σ)
    rw [hsucc] at hms
    rw [hms, List.mem_flatMap]
    constructor
    · rintro ⟨e, he, hσ⟩
      obtain ⟨v, hv, rfl⟩ := List.mem_map.mp hσ
      exact ⟨e.1, (hlastk _).mp (List.mem_map_of_mem he), v, ((hgs e he).2 v).mp hv, rfl⟩
    · rintro ⟨π, hπ, v, hv, rfl⟩
      obtain ⟨e, he, rfl⟩ := List.mem_map.mp ((hlastk π).mpr hπ)
      exact ⟨e, he, List.mem_map.mpr ⟨v, ((hgs e he).2 v).mpr hv, rfl⟩⟩
  have hnew_nd : ((c.getD (c.length - 1) []).flatMap (fun e => (gv e.1).map (appendValue e.1))).Nodup := by
    rw [List.nodup_flatMap]
    constructor
    · intro e he
      exact (hgs e he).1.map_on (fun x _ y _ hxy => (appendValue_inj hxy).2)
    · have hk := h.keys_nodup (i := c.length - 1) (by omega)
      unfold Level.keys at hk
      rw [List.nodup_iff_pairwise_ne, List.pairwise_map] at hk
      refine hk.imp ?_
      intro e e' hne
      simp only [Function.onFun]
      intro σ h1 h2
      obtain ⟨v, _, rfl⟩ := List.mem_map.mp h1
      obtain ⟨v', _, hσ⟩ := List.mem_map.mp h2
      exact hne (appendValue_inj hσ).1.symm
  refine ⟨setLast c ((c.getD (c.length - 1) []).map (fun e => (e.1, some (e.2.getD [] ++ gv e.1)))) ++
      [(c.getD (c.length - 1) []).flatMap (fun e => (gv e.1).map (fun v => (appendValue e.1 v, some [])))],
    ?_, ⟨?_, ?_, ?_, ?_⟩, length_setLast_append c hpos _ _, ?_⟩
  · unfold buildOne
    rw [getLastD_eq_getD, hbl]
  · rw [length_setLast_append c hpos]; omega
  · intro i hi
    rw [length_setLast_append c hpos] at hi
    rw [getD_setLast_append c hpos]
    split_ifs with h1 h2 h3
    · exact h.keys i (by omega)
    · have : i = c.length - 1 := by omega
      subst this
      have hk := h.keys (c.length - 1) (by omega)
      simpa [Level.keys, Function.comp_def] using hk
    · subst h3
      rw [hnewk]
      exact (List.perm_ext_iff_of_nodup hnew_nd (level_nodup b _)).mpr hnew_mem
    · omega
  · intro e he
    have h3 : c.length + 1 - 1 = c.length := by omega
    rw [length_setLast_append c hpos, h3, getD_setLast_append_new c hpos] at he
    obtain ⟨e0, _, hσ⟩ := List.mem_flatMap.mp he
    obtain ⟨v, _, rfl⟩ := List.mem_map.mp hσ
    exact ⟨[], rfl, by simp [LastOK]⟩
  · intro _ e he
    have h3 : c.length + 1 - 2 = c.length - 1 := by omega
    rw [length_setLast_append c hpos, h3, getD_setLast_append_last c hpos] at he
    obtain ⟨e0, he0, rfl⟩ := List.mem_map.mp he
    obtain ⟨l, hl, hlast⟩ := h.last e0 he0
    refine ⟨l ++ gv e0.1, by simp [hl], ⟨?_, ?_⟩, ?_⟩
    · intro v hv
      rcases List.mem_append.mp hv with hv | hv
      · exact hlast.1 v hv
      · exact (((hgs e0 he0).2 v).mp hv).1
    · intro hne v hv
      rcases List.mem_append.mp hv with hv | hv
      · exact hlast.2 hne v hv
      · exact ((hgs e0 he0).2 v).mp hv
    · intro v hv
      exact List.mem_append.mpr (Or.inr (((hgs e0 he0).2 v).mpr hv))
  · intro i hi
    rw [getD_setLast_append c hpos]
    split_ifs with h1 h2
    · rfl
    · have : i = c.length - 1 := by omega
      subst this
      simp [Level.keys, Function.comp_def]
    · omega
    · omega

end C02L
