import PermutaModel.Lemmas.Order
import Mathlib.Data.List.Perm.Basic
/-! Correctness of the modelled `sorted` (`count_run` + binary insertion, `Model.C08.pySort`):
    when the comparison never raises on the elements of the list and is a strict weak order,
    the result is a sorted permutation of the input. -/
open Model Model.C08

/-- strict weak order (a total preorder's strict part): what `sorted` needs -/
structure StrictWeak {α : Type} (r : α → α → Bool) : Prop where
  irrefl : ∀ a, r a a = false
  trans : ∀ a b c, r a b = true → r b c = true → r a c = true
  negtrans : ∀ a b c, r a b = false → r b c = false → r a c = false

namespace StrictWeak
variable {α : Type} {r : α → α → Bool}

theorem asymm (h : StrictWeak r) {a b : α} (hab : r a b = true) : r b a = false := by
  cases hba : r b a with
  | false => rfl
  | true => have := h.trans a b a hab hba; rw [h.irrefl] at this; exact absurd this (by decide)

/-- `a < b ≤ c → a < c` -/
theorem lt_of_lt_of_le (h : StrictWeak r) {a b c : α} (hab : r a b = true) (hbc : r c b = false) : r a c = true := by
  cases hac : r a c with
  | true => rfl
  | false => have := h.negtrans a c b hac hbc; rw [hab] at this; exact absurd this (by decide)

/-- `a ≤ b < c → a < c` -/
theorem lt_of_le_of_lt (h : StrictWeak r) {a b c : α} (hab : r b a = false) (hbc : r b c = true) : r a c = true := by
  cases hac : r a c with
  | true => rfl
  | false =>
    -- r b a = false, r a c = false → r b c = false
    have := h.negtrans b a c hab hac; rw [hbc] at this; exact absurd this (by decide)

end StrictWeak

theorem StrictTotal.strictWeak {α : Type} {r : α → α → Bool} (h : StrictTotal r) : StrictWeak r where
  irrefl := h.irrefl
  trans := h.trans
  negtrans := by
    intro a b c h1 h2
    rw [h.not_lt_iff] at h1 h2 ⊢
    rcases h1 with rfl | h1
    · exact h2
    · rcases h2 with rfl | h2
      · exact Or.inr h1
      · exact Or.inr (h.trans _ _ _ h2 h1)

/-- pulling a strict weak order back along a key function -/
theorem StrictWeak.comap {α β : Type} {r : β → β → Bool} (h : StrictWeak r) (f : α → β) :
    StrictWeak (fun a b => r (f a) (f b)) where
  irrefl := fun a => h.irrefl (f a)
  trans := fun a b c => h.trans (f a) (f b) (f c)
  negtrans := fun a b c => h.negtrans (f a) (f b) (f c)

theorem meshKeyLt_strictWeak : StrictWeak meshKeyLt where
  irrefl := meshKeyLt_irrefl
  trans := meshKeyLt_trans
  negtrans := by
    intro a b c h1 h2
    cases hac : meshKeyLt a c with
    | false => rfl
    | true =>
      -- a < c; b is not above a and c is not above b
      rcases meshKeyLt_tri a b with h | h | h
      · rw [h1] at h; exact absurd h (by decide)
      · -- a ≡ b: then b < c
        obtain ⟨e1, e2⟩ := (meshKeyEq_iff _ _).mp h
        have : meshKeyLt b c = meshKeyLt a c := by simp only [meshKeyLt, e1, e2]
        rw [this, hac] at h2; exact absurd h2 (by decide)
      · have := meshKeyLt_trans b a c h hac
        rw [h2] at this; exact absurd this (by decide)


namespace PySort
variable {α : Type} (lt : α → α → Except Proto.Err Bool) (r : α → α → Bool)

/-- `a ≤ b` -/
abbrev Le (a b : α) : Prop := r b a = false

/-- the comparison is defined (and given by `r`) on a set of elements -/
def DefOn (S : List α) : Prop := ∀ a ∈ S, ∀ b ∈ S, lt a b = .ok (r a b)

variable {lt r}

theorem DefOn.mono {S T : List α} (h : DefOn lt r T) (hs : ∀ a ∈ S, a ∈ T) : DefOn lt r S :=
  fun a ha b hb => h a (hs a ha) b (hs b hb)

theorem le_trans (hr : StrictWeak r) {a b c : α} (h1 : Le r a b) (h2 : Le r b c) : Le r a c :=
  hr.negtrans c b a h2 h1

/-! ### runs -/

theorem runAsc_spec (hr : StrictWeak r) : ∀ (prev : α) (xs : List α), DefOn lt r (prev :: xs) →
    ∃ k, runAsc lt prev xs = .ok k ∧ k ≤ xs.length ∧ (prev :: xs.take k).Pairwise (Le r)
  | prev, [], _ => ⟨0, rfl, Nat.le_refl _, by simp⟩
  | prev, x :: xs, hd => by
    have h1 : lt x prev = .ok (r x prev) := hd x (by simp) prev (by simp)
    simp only [runAsc, h1]
    cases hx : r x prev with
    | true => exact ⟨0, rfl, Nat.zero_le _, by simp⟩
    | false =>
      obtain ⟨k, hk, hlen, hs⟩ := runAsc_spec hr x xs (hd.mono (by intro a ha; simp at ha ⊢; tauto))
      refine ⟨k+1, by simp [hk], by simp; omega, ?_⟩
      simp only [List.take_succ_cons]
      rw [List.pairwise_cons]
      refine ⟨?_, hs⟩
      intro y hy
      rcases List.mem_cons.mp hy with rfl | hy
      · exact hx
      · exact le_trans hr hx ((List.pairwise_cons.mp hs).1 y hy)

theorem runDesc_spec (hr : StrictWeak r) : ∀ (prev : α) (xs : List α), DefOn lt r (prev :: xs) →
    ∃ k, runDesc lt prev xs = .ok k ∧ k ≤ xs.length ∧
      (prev :: xs.take k).Pairwise (fun a b => r b a = true)
  | prev, [], _ => ⟨0, rfl, Nat.le_refl _, by simp⟩
  | prev, x :: xs, hd => by
    have h1 : lt x prev = .ok (r x prev) := hd x (by simp) prev (by simp)
    simp only [runDesc, h1]
    cases hx : r x prev with
    | false => exact ⟨0, rfl, Nat.zero_le _, by simp⟩
    | true =>
      obtain ⟨k, hk, hlen, hs⟩ := runDesc_spec hr x xs (hd.mono (by intro a ha; simp at ha ⊢; tauto))
      refine ⟨k+1, by simp [hk], by simp; omega, ?_⟩
      simp only [List.take_succ_cons]
      rw [List.pairwise_cons]
      refine ⟨?_, hs⟩
      intro y hy
      rcases List.mem_cons.mp hy with rfl | hy
      · exact hx
      · exact hr.trans _ _ _ ((List.pairwise_cons.mp hs).1 y hy) hx

/-- after `count_run` (and the reversal of a descending run) the prefix is sorted -/
theorem countRun_spec (hr : StrictWeak r) (l : List α) (hd : DefOn lt r l) :
    ∃ n desc, countRun lt l = .ok (n, desc) ∧ n ≤ l.length ∧
      (if desc then (l.take n).reverse else l.take n).Pairwise (Le r) := by
  match l, hd with
  | [], _ => exact ⟨0, false, rfl, Nat.le_refl _, by simp⟩
  | [a], _ => exact ⟨1, false, rfl, Nat.le_refl _, by simp⟩
  | a :: b :: rest, hd =>
    have h1 : lt b a = .ok (r b a) := hd b (by simp) a (by simp)
    have hd' : DefOn lt r (b :: rest) := hd.mono (by intro x hx; simp at hx ⊢; tauto)
    simp only [countRun, h1]
    cases hba : r b a with
    | true =>
      obtain ⟨k, hk, hlen, hs⟩ := runDesc_spec hr b rest hd'
      refine ⟨k+2, true, by simp [hk], by simp; omega, ?_⟩
      simp only [if_true, List.take_succ_cons]
      rw [List.pairwise_reverse]
      rw [List.pairwise_cons]
      constructor
      · intro y hy
        rcases List.mem_cons.mp hy with rfl | hy
        · exact hr.asymm hba
        · have := hr.trans _ _ _ ((List.pairwise_cons.mp hs).1 y hy) hba
          exact hr.asymm this
      · exact hs.imp (fun h => hr.asymm h)
    | false =>
      obtain ⟨k, hk, hlen, hs⟩ := runAsc_spec hr b rest hd'
      refine ⟨k+2, false, by simp [hk], by simp; omega, ?_⟩
      simp only [Bool.false_eq_true, if_false, List.take_succ_cons]
      rw [List.pairwise_cons]
      refine ⟨?_, hs⟩
      intro y hy
      rcases List.mem_cons.mp hy with rfl | hy
      · exact hba
      · exact le_trans hr hba ((List.pairwise_cons.mp hs).1 y hy)

/-! ### binary search -/

theorem binSearchF_spec (hr : StrictWeak r) (pivot : α) (arr : List α) (hs : arr.Pairwise (Le r))
    (hd : ∀ x ∈ arr, lt pivot x = .ok (r pivot x)) :
    ∀ (fuel l rr : Nat), rr - l ≤ fuel → l ≤ rr → rr ≤ arr.length →
      (∀ x ∈ arr.take l, r pivot x = false) → (∀ x ∈ arr.drop rr, r pivot x = true) →
      ∃ i, binSearchF lt pivot arr fuel l rr = .ok i ∧ i ≤ arr.length ∧
        (∀ x ∈ arr.take i, r pivot x = false) ∧ (∀ x ∈ arr.drop i, r pivot x = true) := by
  intro fuel
  induction fuel with
  | zero =>
    intro l rr hn hlr hra hlo hhi
    have : l = rr := by omega
    subst this
    exact ⟨l, rfl, hra, hlo, hhi⟩
  | succ n ih =>
    intro l rr hn hlr hra hlo hhi
    unfold binSearchF
    by_cases hlt : l < rr
    · simp only [hlt, if_true]
      have hp : l + (rr - l) / 2 < arr.length := by omega
      have hget : arr[l + (rr - l) / 2]? = some (arr[l + (rr - l) / 2]) := List.getElem?_eq_getElem hp
      rw [hget]
      simp only
      have hmem : arr[l + (rr - l) / 2] ∈ arr := List.getElem_mem hp
      rw [hd _ hmem]
      -- the decomposition of the sorted array around position p
      have hsplit : arr = arr.take (l + (rr - l) / 2) ++ arr[l + (rr - l) / 2] :: arr.drop (l + (rr - l) / 2 + 1) := by
        rw [List.getElem_cons_drop, List.take_append_drop]
      have hs' := hs
      rw [hsplit, List.pairwise_append] at hs'
      obtain ⟨_, hs2, hs3⟩ := hs'
      cases hpx : r pivot arr[l + (rr - l) / 2] with
      | true =>
        simp only
        apply ih l (l + (rr - l) / 2) (by omega) (by omega) (by omega) hlo
        intro x hx
        rw [← List.getElem_cons_drop (h := hp)] at hx
        rcases List.mem_cons.mp hx with rfl | hx
        · exact hpx
        · have : Le r arr[l + (rr - l) / 2] x := (List.pairwise_cons.mp hs2).1 x hx
          exact hr.lt_of_lt_of_le hpx this
      | false =>
        simp only
        apply ih (l + (rr - l) / 2 + 1) rr (by omega) (by omega) hra _ hhi
        intro x hx
        rw [List.take_add_one, List.getElem?_eq_getElem hp] at hx
        simp only [Option.toList_some, List.mem_append, List.mem_singleton] at hx
        rcases hx with hx | rfl
        · have : Le r x arr[l + (rr - l) / 2] := hs3 x hx _ (List.mem_cons_self ..)
          -- r pivot p = false, r p x = false → r pivot x = false
          exact hr.negtrans _ _ _ hpx this
        · exact hpx
    · simp only [hlt, if_false]
      have : l = rr := by omega
      subst this
      exact ⟨l, rfl, hra, hlo, hhi⟩

theorem binSearch_spec (hr : StrictWeak r) (pivot : α) (arr : List α) (hs : arr.Pairwise (Le r))
    (hd : ∀ x ∈ arr, lt pivot x = .ok (r pivot x)) :
    ∃ i, binSearch lt pivot arr 0 arr.length = .ok i ∧ i ≤ arr.length ∧
      (∀ x ∈ arr.take i, r pivot x = false) ∧ (∀ x ∈ arr.drop i, r pivot x = true) :=
  binSearchF_spec hr pivot arr hs hd (arr.length - 0) 0 arr.length (Nat.le_refl _) (Nat.zero_le _) (Nat.le_refl _)
    (by simp) (by simp)

/-! ### insertion and the whole sort -/

theorem binInsertAll_spec (hr : StrictWeak r) : ∀ (rest pre : List α), DefOn lt r (pre ++ rest) →
    pre.Pairwise (Le r) →
    ∃ s, binInsertAll lt pre rest = .ok s ∧ s.Perm (pre ++ rest) ∧ s.Pairwise (Le r)
  | [], pre, _, hs => ⟨pre, rfl, by simp, hs⟩
  | x :: xs, pre, hd, hs => by
    have hdx : ∀ y ∈ pre, lt x y = .ok (r x y) := fun y hy => hd x (by simp) y (by simp [hy])
    obtain ⟨i, hi, hilen, hlo, hhi⟩ := binSearch_spec hr x pre hs hdx
    simp only [binInsertAll, hi]
    have hperm : (pre.take i ++ x :: pre.drop i).Perm (x :: pre) := by
      have : (pre.take i ++ x :: pre.drop i).Perm (x :: (pre.take i ++ pre.drop i)) := List.perm_middle
      rwa [List.take_append_drop] at this
    have hsorted : (pre.take i ++ x :: pre.drop i).Pairwise (Le r) := by
      have hs' := hs
      rw [← List.take_append_drop i pre, List.pairwise_append] at hs'
      obtain ⟨h1, h2, h3⟩ := hs'
      rw [List.pairwise_append]
      refine ⟨h1, ?_, ?_⟩
      · rw [List.pairwise_cons]
        exact ⟨fun y hy => hr.asymm (hhi y hy), h2⟩
      · intro a ha b hb
        rcases List.mem_cons.mp hb with rfl | hb
        · exact hlo a ha
        · exact h3 a ha b hb
    have hd' : DefOn lt r ((pre.take i ++ x :: pre.drop i) ++ xs) := by
      apply hd.mono
      intro a ha
      rcases List.mem_append.mp ha with ha | ha
      · have := hperm.mem_iff.mp ha
        simp at this ⊢; tauto
      · simp [ha]
    obtain ⟨s, hs1, hs2, hs3⟩ := binInsertAll_spec hr xs _ hd' hsorted
    refine ⟨s, hs1, hs2.trans ?_, hs3⟩
    have : ((pre.take i ++ x :: pre.drop i) ++ xs).Perm ((x :: pre) ++ xs) := hperm.append_right xs
    refine this.trans ?_
    simpa using (List.perm_middle (l₁ := pre) (l₂ := xs) (a := x)).symm

/-- **`sorted` is correct**: if the comparison is defined on the elements and is a strict weak order,
    `pySort` returns a sorted permutation of its input -/
theorem pySort_spec (hr : StrictWeak r) (l : List α) (hd : DefOn lt r l) :
    ∃ s, pySort lt l = .ok s ∧ s.Perm l ∧ s.Pairwise (Le r) := by
  obtain ⟨n, desc, hc, hn, hs⟩ := countRun_spec hr l hd
  unfold pySort
  simp only [hc]
  have hperm : ((if desc then (l.take n).reverse else l.take n) ++ l.drop n).Perm l := by
    have : (if desc then (l.take n).reverse else l.take n).Perm (l.take n) := by
      cases desc
      · simp
      · simp
    have h2 := this.append_right (l.drop n)
    rwa [List.take_append_drop] at h2
  have hd' : DefOn lt r ((if desc then (l.take n).reverse else l.take n) ++ l.drop n) :=
    hd.mono (fun a ha => hperm.mem_iff.mp ha)
  obtain ⟨s, hs1, hs2, hs3⟩ := binInsertAll_spec hr (l.drop n) _ hd' hs
  exact ⟨s, hs1, hs2.trans hperm, hs3⟩

/-- two sorted permutations of the same list coincide when the order is strict total -/
theorem sorted_perm_unique (hr : StrictTotal r) : ∀ (s t : List α), s.Perm t →
    s.Pairwise (Le r) → t.Pairwise (Le r) → s = t
  | [], t, hp, _, _ => by simpa using hp.symm.eq_nil
  | a :: s, [], hp, _, _ => by simpa using hp.eq_nil
  | a :: s, b :: t, hp, hs, ht => by
    have hab : a = b := by
      have ha : a ∈ b :: t := hp.mem_iff.mp (List.mem_cons_self ..)
      have hb : b ∈ a :: s := hp.mem_iff.mpr (List.mem_cons_self ..)
      rcases List.mem_cons.mp ha with h | h
      · exact h
      · rcases List.mem_cons.mp hb with h' | h'
        · exact h'.symm
        · have h1 : r b a = false := (List.pairwise_cons.mp hs).1 b h'
          have h2 : r a b = false := (List.pairwise_cons.mp ht).1 a h
          rcases hr.tri a b with h3 | h3 | h3
          · rw [h2] at h3; exact absurd h3 (by decide)
          · exact h3
          · rw [h1] at h3; exact absurd h3 (by decide)
    subst hab
    rw [sorted_perm_unique hr s t (List.Perm.cons_inv hp) (List.pairwise_cons.mp hs).2 (List.pairwise_cons.mp ht).2]

/-- the same when trichotomy is only known on the elements of the list -/
theorem sorted_perm_unique_on : ∀ (s t : List α), s.Perm t →
    (∀ a ∈ s, ∀ b ∈ s, r a b = true ∨ a = b ∨ r b a = true) →
    s.Pairwise (Le r) → t.Pairwise (Le r) → s = t
  | [], t, hp, _, _, _ => by simpa using hp.symm.eq_nil
  | a :: s, [], hp, _, _, _ => by simpa using hp.eq_nil
  | a :: s, b :: t, hp, htri, hs, ht => by
    have hb : b ∈ a :: s := hp.mem_iff.mpr (List.mem_cons_self ..)
    have hab : a = b := by
      have ha : a ∈ b :: t := hp.mem_iff.mp (List.mem_cons_self ..)
      rcases List.mem_cons.mp ha with h | h
      · exact h
      · rcases List.mem_cons.mp hb with h' | h'
        · exact h'.symm
        · have h1 : r b a = false := (List.pairwise_cons.mp hs).1 b h'
          have h2 : r a b = false := (List.pairwise_cons.mp ht).1 a h
          rcases htri a (List.mem_cons_self ..) b hb with h3 | h3 | h3
          · rw [h2] at h3; exact absurd h3 (by decide)
          · exact h3
          · rw [h1] at h3; exact absurd h3 (by decide)
    subst hab
    rw [sorted_perm_unique_on s t (List.Perm.cons_inv hp)
      (fun x hx y hy => htri x (List.mem_cons_of_mem _ hx) y (List.mem_cons_of_mem _ hy))
      (List.pairwise_cons.mp hs).2 (List.pairwise_cons.mp ht).2]

section map
variable {α β : Type} (f : β → α) (lt : α → α → Except Proto.Err Bool)

theorem runAsc_map : ∀ (prev : β) (xs : List β),
    runAsc lt (f prev) (xs.map f) = runAsc (fun a b => lt (f a) (f b)) prev xs
  | _, [] => rfl
  | prev, x :: xs => by
    simp only [List.map_cons, runAsc, runAsc_map x xs]

theorem runDesc_map : ∀ (prev : β) (xs : List β),
    runDesc lt (f prev) (xs.map f) = runDesc (fun a b => lt (f a) (f b)) prev xs
  | _, [] => rfl
  | prev, x :: xs => by
    simp only [List.map_cons, runDesc, runDesc_map x xs]

theorem countRun_map : ∀ (l : List β), countRun lt (l.map f) = countRun (fun a b => lt (f a) (f b)) l
  | [] => rfl
  | [_] => rfl
  | a :: b :: rest => by
    simp only [List.map_cons, countRun, runAsc_map, runDesc_map]

theorem binSearchF_map (pivot : β) (arr : List β) : ∀ (fuel l r : Nat),
    binSearchF lt (f pivot) (arr.map f) fuel l r = binSearchF (fun a b => lt (f a) (f b)) pivot arr fuel l r
  | 0, _, _ => rfl
  | fuel+1, l, r => by
    simp only [binSearchF, List.getElem?_map]
    cases arr[l + (r - l) / 2]? with
    | none => rfl
    | some x => simp only [Option.map_some, binSearchF_map pivot arr fuel]

theorem binInsertAll_map : ∀ (rest pre : List β),
    binInsertAll lt (pre.map f) (rest.map f) =
      (binInsertAll (fun a b => lt (f a) (f b)) pre rest).map (List.map f)
  | [], pre => rfl
  | x :: xs, pre => by
    simp only [List.map_cons, binInsertAll, binSearch, List.length_map, binSearchF_map]
    cases binSearchF (fun a b => lt (f a) (f b)) x pre (pre.length - 0) 0 pre.length with
    | error e => rfl
    | ok i =>
      simp only
      rw [← binInsertAll_map xs]
      simp [List.map_take, List.map_drop]

/-- sorting the images is the image of sorting with the pulled-back comparison -/
theorem pySort_map (l : List β) :
    pySort lt (l.map f) = (pySort (fun a b => lt (f a) (f b)) l).map (List.map f) := by
  unfold pySort
  rw [countRun_map]
  cases countRun (fun a b => lt (f a) (f b)) l with
  | error e => rfl
  | ok nd =>
    obtain ⟨n, desc⟩ := nd
    simp only
    rw [← binInsertAll_map]
    cases desc <;> simp [List.map_take, List.map_drop, List.map_reverse]

end map

end PySort
