import PermutaModel.Lemmas.C17Basic
/-! A2: every set returned by the hitting-set recursion contains the partial set it was called with
    and meets every member of the list it was called with. -/

namespace Model.C17

theorem hitting_inv (perm : NSeq) (bad : PattDict) (ci : List Nat) (C forb : Shading) (lst : List Shading) :
    ∀ H ∈ hitting perm bad ci C forb lst,
      (∀ b ∈ C, b ∈ H) ∧ ∀ L ∈ lst, ∃ b ∈ H, b ∈ L := by
  fun_induction hitting perm bad ci C forb lst with
  | case1 C forb lst h => intro H hH; cases hH
  | case2 C forb lst hno hfil =>
    intro H hH
    simp only [List.mem_singleton] at hH
    subst hH
    refine ⟨fun b hb => hb, fun L hL => ?_⟩
    have : L ∉ lst.filter (fun L => disjointB H L) := by rw [hfil]; simp
    rw [List.mem_filter] at this
    have hd : disjointB H L = false := by
      cases hdl : disjointB H L with
      | false => rfl
      | true => exact absurd ⟨hL, hdl⟩ this
    exact disjointB_false_iff.mp hd
  | case3 C forb lst hno lst0 rest hfil hpr ih =>
    intro H hH
    obtain ⟨hC, hall⟩ := ih H hH
    refine ⟨hC, fun L hL => ?_⟩
    by_cases hd : disjointB C L = true
    · exact hall L (by rw [← hfil]; exact List.mem_filter.mpr ⟨hL, hd⟩)
    · simp only [Bool.not_eq_true] at hd
      obtain ⟨b, hb, hbL⟩ := disjointB_false_iff.mp hd
      exact ⟨b, hC b hb, hbL⟩
  | case4 C forb lst hno lst0 rest hfil hpr ih1 ih2 =>
    intro H hH
    rcases List.mem_append.mp hH with hH | hH
    · obtain ⟨hC, hall⟩ := ih1 H hH
      have hC' : ∀ b ∈ C, b ∈ H := fun b hb => hC b (List.mem_cons_of_mem _ hb)
      refine ⟨hC', fun L hL => ?_⟩
      by_cases hd : disjointB C L = true
      · exact hall L (by rw [← hfil]; exact List.mem_filter.mpr ⟨hL, hd⟩)
      · simp only [Bool.not_eq_true] at hd
        obtain ⟨b, hb, hbL⟩ := disjointB_false_iff.mp hd
        exact ⟨b, hC' b hb, hbL⟩
    · obtain ⟨hC, hall⟩ := ih2 H hH
      refine ⟨hC, fun L hL => ?_⟩
      by_cases hd : disjointB C L = true
      · exact hall L (by rw [← hfil]; exact List.mem_filter.mpr ⟨hL, hd⟩)
      · simp only [Bool.not_eq_true] at hd
        obtain ⟨b, hb, hbL⟩ := disjointB_false_iff.mp hd
        exact ⟨b, hC b hb, hbL⟩

theorem keepMinimal_subset (l : List Shading) : ∀ r ∈ keepMinimal l, r ∈ l := by
  induction l with
  | nil => intro r hr; cases hr
  | cons a t ih =>
    intro r hr
    unfold keepMinimal at hr
    by_cases h : t.any (fun s => subsetB s a) = true
    · simp only [h, if_true] at hr; exact List.mem_cons_of_mem _ (ih r hr)
    · simp only [h] at hr
      rcases List.mem_cons.mp hr with rfl | hr
      · simp
      · exact List.mem_cons_of_mem _ (ih r hr)

end Model.C17
