import PermutaModel.Lemmas.C10Basic
import PermutaModel.Spec.C10
import Mathlib.Data.List.Perm.Subperm

/-! `block_decomposition`: the running min/max test finds exactly the intervals. -/
open Model Spec.C10

namespace C10L

def IsMinOf (m : Nat) (w : NSeq) : Prop := m ∈ w ∧ ∀ x ∈ w, m ≤ x
def IsMaxOf (m : Nat) (w : NSeq) : Prop := m ∈ w ∧ ∀ x ∈ w, x ≤ m

theorem IsMinOf.unique {a b : Nat} {w : NSeq} (ha : IsMinOf a w) (hb : IsMinOf b w) : a = b :=
  Nat.le_antisymm (ha.2 b hb.1) (hb.2 a ha.1)
theorem IsMaxOf.unique {a b : Nat} {w : NSeq} (ha : IsMaxOf a w) (hb : IsMaxOf b w) : a = b :=
  Nat.le_antisymm (hb.2 a ha.1) (ha.2 b hb.1)

theorem IsMinOf.snoc {m : Nat} {w : NSeq} (h : IsMinOf m w) (e : Nat) : IsMinOf (min m e) (w ++ [e]) := by
  refine ⟨?_, ?_⟩
  · rcases Nat.le_total m e with h' | h'
    · rw [Nat.min_eq_left h']; exact List.mem_append_left _ h.1
    · rw [Nat.min_eq_right h']; simp
  · intro x hx
    rcases List.mem_append.mp hx with hx | hx
    · exact Nat.le_trans (Nat.min_le_left _ _) (h.2 x hx)
    · have : x = e := by simpa using hx
      subst this; exact Nat.min_le_right _ _

theorem IsMaxOf.snoc {m : Nat} {w : NSeq} (h : IsMaxOf m w) (e : Nat) : IsMaxOf (max m e) (w ++ [e]) := by
  refine ⟨?_, ?_⟩
  · rcases Nat.le_total m e with h' | h'
    · rw [Nat.max_eq_right h']; simp
    · rw [Nat.max_eq_left h']; exact List.mem_append_left _ h.1
  · intro x hx
    rcases List.mem_append.mp hx with hx | hx
    · exact Nat.le_trans (h.2 x hx) (Nat.le_max_left _ _)
    · have : x = e := by simpa using hx
      subst this; exact Nat.le_max_right _ _

theorem window_succ (p : NSeq) {i l : Nat} (h : i + l < p.length) :
    window p i (l + 1) = window p i l ++ [p.getD (i + l) 0] := by
  unfold window
  rw [List.take_add_one, List.getElem?_drop, List.getElem?_eq_getElem h, getD_eq_getElem' h]
  rfl

theorem window_one (p : NSeq) {i : Nat} (h : i < p.length) : window p i 1 = [p.getD i 0] := by
  have := window_succ p (i := i) (l := 0) (by simpa using h)
  simpa [window] using this

theorem length_window (p : NSeq) {i l : Nat} (h : i + l ≤ p.length) : (window p i l).length = l := by
  simp only [window, List.length_take, List.length_drop]; omega

theorem window_nodup {p : NSeq} (h : p.Nodup) (i l : Nat) : (window p i l).Nodup :=
  (h.sublist (List.drop_sublist _ _)).sublist (List.take_sublist _ _)

/-- the loop invariant of the inner loop of `block_decomposition` -/
theorem mem_blockInner (p : NSeq) (idx : Nat) :
    ∀ (fuel length mn mx : Nat), 1 ≤ length → idx + length + fuel = p.length + 1 →
      IsMinOf mn (window p idx (length - 1)) → IsMaxOf mx (window p idx (length - 1)) →
      ∀ l, l ∈ blockInner p p.length idx fuel length mn mx ↔
        (length ≤ l ∧ l < length + fuel ∧ l ≠ p.length ∧
          ∃ a b, IsMinOf a (window p idx l) ∧ IsMaxOf b (window p idx l) ∧ b - a = l - 1) := by
  intro fuel
  induction fuel with
  | zero =>
    intro length mn mx _ _ _ _ l
    simp only [blockInner, List.not_mem_nil, false_iff]
    omega
  | succ fuel ih =>
    intro length mn mx h1 hsum hmn hmx l
    unfold blockInner
    split
    · next hn =>
      have hf : fuel = 0 := by omega
      subst hf
      simp only [blockInner, List.not_mem_nil, false_iff]
      omega
    · next hn =>
      have hlt : idx + (length - 1) < p.length := by omega
      have hw : window p idx length = window p idx (length - 1) ++ [p.getD (idx + length - 1) 0] := by
        have := window_succ p hlt
        rw [show length - 1 + 1 = length by omega, show idx + (length - 1) = idx + length - 1 by omega] at this
        exact this
      have hmn' := hmn.snoc (p.getD (idx + length - 1) 0)
      have hmx' := hmx.snoc (p.getD (idx + length - 1) 0)
      rw [← hw] at hmn' hmx'
      have ih' := ih (length + 1) _ _ (by omega) (by omega)
        (by rw [show length + 1 - 1 = length by omega]; exact hmn')
        (by rw [show length + 1 - 1 = length by omega]; exact hmx') l
      split
      · next hc =>
        rw [List.mem_cons, ih']
        constructor
        · rintro (rfl | h)
          · exact ⟨Nat.le_refl _, by omega, hn, _, _, hmn', hmx', hc⟩
          · exact ⟨by omega, by omega, h.2.2⟩
        · rintro ⟨h1', h2', h3'⟩
          by_cases hl : l = length
          · exact Or.inl hl
          · exact Or.inr ⟨by omega, by omega, h3'⟩
      · next hc =>
        rw [ih']
        constructor
        · rintro h; exact ⟨by omega, by omega, h.2.2⟩
        · rintro ⟨h1', h2', h3', a, b, ha, hb, hab⟩
          by_cases hl : l = length
          · subst hl
            exfalso
            rw [ha.unique hmn', hb.unique hmx'] at hab
            exact hc hab
          · exact ⟨by omega, by omega, h3', a, b, ha, hb, hab⟩

/-- a duplicate-free list of `l ≥ 1` values has `max - min = l - 1` iff the values are `l`
    consecutive integers -/
theorem minmax_iff_consecutive {w : NSeq} (hn : w.Nodup) {l : Nat} (hl : w.length = l) (h1 : 1 ≤ l) :
    (∃ a b, IsMinOf a w ∧ IsMaxOf b w ∧ b - a = l - 1) ↔ ∃ m, ∀ v, v ∈ w ↔ m ≤ v ∧ v < m + l := by
  constructor
  · rintro ⟨a, b, ha, hb, hab⟩
    refine ⟨a, fun v => ⟨fun hv => ?_, fun hv => ?_⟩⟩
    · have := ha.2 v hv
      have := hb.2 v hv
      have := hb.2 a ha.1
      omega
    · have hsub : w ⊆ List.range' a l := by
        intro x hx
        have := ha.2 x hx
        have := hb.2 x hx
        have := hb.2 a ha.1
        rw [List.mem_range']
        exact ⟨x - a, by omega, by omega⟩
      have hperm : w.Perm (List.range' a l) :=
        (List.subperm_of_subset hn hsub).perm_of_length_le (by simp [hl])
      apply hperm.mem_iff.mpr
      rw [List.mem_range']
      exact ⟨v - a, by omega, by omega⟩
  · rintro ⟨m, hm⟩
    refine ⟨m, m + l - 1, ⟨(hm m).mpr (by omega), fun x hx => ((hm x).mp hx).1⟩,
      ⟨(hm (m + l - 1)).mpr (by omega), fun x hx => by have := ((hm x).mp hx).2; omega⟩, by omega⟩

theorem mem_blockLens {p : NSeq} (hp : p.Nodup) {idx : Nat} (hi : idx < p.length) (l : Nat) :
    l ∈ blockLens p idx ↔ 2 ≤ l ∧ l < p.length ∧ IsInterval p idx l := by
  unfold blockLens
  have h1 := window_one p hi
  rw [mem_blockInner p idx (p.length - idx - 1) 2 _ _ (by omega) (by omega)
    (by rw [h1]; exact ⟨by simp, by simp⟩) (by rw [h1]; exact ⟨by simp, by simp⟩) l]
  unfold IsInterval
  constructor
  · rintro ⟨h2, h3, h4, h5⟩
    have hle : idx + l ≤ p.length := by omega
    refine ⟨h2, by omega, hle, ?_⟩
    exact (minmax_iff_consecutive (window_nodup hp idx l) (length_window p hle) (by omega)).mp h5
  · rintro ⟨h2, h3, hle, h5⟩
    refine ⟨h2, by omega, by omega, ?_⟩
    exact (minmax_iff_consecutive (window_nodup hp idx l) (length_window p hle) (by omega)).mpr h5

@[simp] theorem length_blockDecomposition (p : NSeq) : (blockDecomposition p).length = p.length := by
  simp [blockDecomposition]

/-- **blocks = intervals**: `i` is listed under length `l` iff `2 ≤ l < n` and positions
    `i … i+l-1` carry consecutive values -/
theorem mem_blockDecomposition {p : NSeq} (hp : p.Nodup) (i l : Nat) :
    i ∈ (blockDecomposition p).getD l [] ↔ 2 ≤ l ∧ l < p.length ∧ IsInterval p i l := by
  unfold blockDecomposition
  by_cases hl : l < p.length
  · rw [List.getD_eq_getElem?_getD, List.getElem?_map, List.getElem?_range hl]
    simp only [Option.map_some, Option.getD_some, List.mem_filter, List.mem_range, List.contains_iff_mem]
    constructor
    · rintro ⟨hi, h⟩
      exact (mem_blockLens hp hi l).mp h
    · rintro h
      have hi : i < p.length := by have := h.2.2.1; omega
      exact ⟨hi, (mem_blockLens hp hi l).mpr h⟩
  · rw [List.getD_eq_default _ _ (by simpa using hl)]
    simp only [List.not_mem_nil, false_iff]
    omega

theorem getD_of_getElem? {bs : List (List Nat)} {k : Nat} {b : List Nat} (h : bs[k]? = some b) :
    bs.getD k [] = b := by
  simp [List.getD_eq_getElem?_getD, h]

/-- `maximum_block` reports length 0 exactly when no proper interval exists -/
theorem isSimple_iff {p : NSeq} (hp : p.Nodup) : isSimple p = true ↔ IsSimple p := by
  unfold isSimple maximumBlock
  cases hf : (blockDecomposition p).zipIdx.reverse.find? (fun bl => !bl.1.isEmpty) with
  | none =>
    simp only [beq_self_eq_true, true_iff]
    rw [List.find?_eq_none] at hf
    intro i l h2 hl hint
    have hmem := (mem_blockDecomposition hp i l).mpr ⟨h2, hl, hint⟩
    have hlt : l < (blockDecomposition p).length := by simpa using hl
    have hz : ((blockDecomposition p)[l], l) ∈ (blockDecomposition p).zipIdx.reverse := by
      rw [List.mem_reverse, List.mem_zipIdx_iff_getElem?]
      exact List.getElem?_eq_getElem hlt
    have := hf _ hz
    rw [getD_of_getElem? (List.getElem?_eq_getElem hlt)] at hmem
    cases hb : (blockDecomposition p)[l] with
    | nil => rw [hb] at hmem; simp at hmem
    | cons a t => rw [hb] at this; simp at this
  | some bl =>
    have hne := List.find?_some hf
    have hmem := List.mem_of_find?_eq_some hf
    rw [List.mem_reverse, List.mem_zipIdx_iff_getElem?] at hmem
    have hget := getD_of_getElem? hmem
    cases hb : bl.1 with
    | nil => rw [hb] at hne; simp at hne
    | cons a t =>
      have ha : a ∈ (blockDecomposition p).getD bl.2 [] := by rw [hget, hb]; simp
      have hspec := (mem_blockDecomposition hp a bl.2).mp ha
      constructor
      · intro h
        have : bl.2 = 0 := by simpa using h
        omega
      · intro h
        exact absurd hspec.2.2 (h a bl.2 hspec.1 hspec.2.1)

end C10L
