import PermutaModel.Lemmas.C15Explore
/-!
The model's Moore minimisation (`minimize`) preserves the language, and its fuel suffices: the
refinement loop only ever returns a *stable* partition (the number of classes did not grow), never
because the fuel ran out.
-/
namespace C15Min
open Model.C15 C15Ex

/-! ### counting classes -/

/-- number of distinct values of `f` on `0 … n-1` -/
def nvals {β : Type} [DecidableEq β] (n : Nat) (f : Nat → β) : Nat := ((Finset.range n).image f).card

theorem card_image_congr {β γ : Type} [DecidableEq β] [DecidableEq γ] (f : Nat → β) (g : Nat → γ) (s : Finset Nat) :
    (∀ a ∈ s, ∀ b ∈ s, f a = f b ↔ g a = g b) → (s.image f).card = (s.image g).card := by
  induction s using Finset.induction_on with
  | empty => intro _; simp
  | insert a s ha ih =>
    intro h
    have ih' := ih (fun x hx y hy => h x (Finset.mem_insert_of_mem hx) y (Finset.mem_insert_of_mem hy))
    rw [Finset.image_insert, Finset.image_insert]
    by_cases hf : f a ∈ s.image f
    · have hg : g a ∈ s.image g := by
        obtain ⟨b, hb, hfb⟩ := Finset.mem_image.mp hf
        exact Finset.mem_image.mpr ⟨b, hb,
          (h b (Finset.mem_insert_of_mem hb) a (Finset.mem_insert_self a s)).mp hfb⟩
      rw [Finset.insert_eq_of_mem hf, Finset.insert_eq_of_mem hg, ih']
    · have hg : g a ∉ s.image g := by
        intro hg
        obtain ⟨b, hb, hgb⟩ := Finset.mem_image.mp hg
        exact hf (Finset.mem_image.mpr ⟨b, hb,
          (h b (Finset.mem_insert_of_mem hb) a (Finset.mem_insert_self a s)).mpr hgb⟩)
      rw [Finset.card_insert_of_notMem hf, Finset.card_insert_of_notMem hg, ih']

theorem nvals_le {β : Type} [DecidableEq β] (n : Nat) (f : Nat → β) : nvals n f ≤ n := by
  unfold nvals
  have := Finset.card_image_le (s := Finset.range n) (f := f)
  simpa using this

/-- a refinement has at least as many classes; with equally many it is the same partition -/
theorem nvals_comp {β γ : Type} [DecidableEq β] [DecidableEq γ] (n : Nat) (f : Nat → β) (h : β → γ) :
    nvals n (h ∘ f) ≤ nvals n f ∧
    (nvals n (h ∘ f) = nvals n f → ∀ a, a < n → ∀ b, b < n → h (f a) = h (f b) → f a = f b) := by
  unfold nvals
  rw [← Finset.image_image]
  refine ⟨Finset.card_image_le, ?_⟩
  intro heq a ha b hb hab
  have hinj := Finset.card_image_iff.mp heq
  exact hinj (Finset.mem_coe.mpr (Finset.mem_image.mpr ⟨a, Finset.mem_range.mpr ha, rfl⟩))
    (Finset.mem_coe.mpr (Finset.mem_image.mpr ⟨b, Finset.mem_range.mpr hb, rfl⟩)) hab

/-! ### one round of refinement -/

/-- the signature of a state: own class, classes of the successors -/
def sig (d : DFA) (cls : Array Nat) (q : Nat) : List Nat :=
  cls.getD q 0 :: (List.range DIRS.length).map fun i => cls.getD (d.step q i) 0

abbrev Tbl := List (List Nat × Nat)

def rstep (d : DFA) (cls : Array Nat) (acc : Array Nat × Tbl) (q : Nat) : Array Nat × Tbl :=
  match acc.2.lookup (sig d cls q) with
  | some k => (acc.1.push k, acc.2)
  | none => (acc.1.push acc.2.length, (sig d cls q, acc.2.length) :: acc.2)

theorem refineOnce_eq (d : DFA) (cls : Array Nat) :
    refineOnce d cls = (((List.range d.size).foldl (rstep d cls) (#[], [])).1,
      ((List.range d.size).foldl (rstep d cls) (#[], [])).2.length) := rfl

theorem lookup_cons' (s k : List Nat) (v : Nat) (t : Tbl) :
    ((k, v) :: t).lookup s = if s = k then some v else t.lookup s := by
  rw [List.lookup_cons]
  by_cases h : s = k
  · simp [h]
  · have : (s == k) = false := by simpa using h
    simp [this, h]

structure J (d : DFA) (cls : Array Nat) (m : Nat) (acc : Array Nat × Tbl) : Prop where
  sz : acc.1.size = m
  fwd : ∀ q, q < m → acc.2.lookup (sig d cls q) = some (acc.1.getD q 0)
  bwd : ∀ s k, acc.2.lookup s = some k → k < acc.2.length ∧ ∃ q, q < m ∧ sig d cls q = s
  inj : ∀ s s' k, acc.2.lookup s = some k → acc.2.lookup s' = some k → s = s'
  cnt : acc.2.length = nvals m (sig d cls)

theorem J_step (d : DFA) (cls : Array Nat) (m : Nat) (acc : Array Nat × Tbl) (h : J d cls m acc) :
    J d cls (m + 1) (rstep d cls acc m) := by
  unfold rstep
  cases hl : acc.2.lookup (sig d cls m) with
  | some k =>
    dsimp only
    refine ⟨by rw [Array.size_push, h.sz], ?_, ?_, h.inj, ?_⟩
    · intro q hq
      rw [getD_push, h.sz]
      by_cases hqm : q < m
      · rw [if_pos hqm]; exact h.fwd q hqm
      · have : q = m := by omega
        subst this
        rw [if_neg hqm, if_pos rfl]; exact hl
    · intro s k' hs
      obtain ⟨h1, q, hq, h2⟩ := h.bwd s k' hs
      exact ⟨h1, q, by omega, h2⟩
    · rw [h.cnt]
      unfold nvals
      rw [Finset.range_add_one, Finset.image_insert, Finset.insert_eq_of_mem]
      obtain ⟨_, q, hq, h2⟩ := h.bwd _ k hl
      exact Finset.mem_image.mpr ⟨q, Finset.mem_range.mpr hq, h2⟩
  | none =>
    dsimp only
    have hnew : ∀ q, q < m → sig d cls q ≠ sig d cls m := by
      intro q hq heq
      have := h.fwd q hq
      rw [heq, hl] at this
      cases this
    refine ⟨by rw [Array.size_push, h.sz], ?_, ?_, ?_, ?_⟩
    · intro q hq
      rw [getD_push, h.sz, lookup_cons']
      by_cases hqm : q < m
      · rw [if_pos hqm, if_neg (hnew q hqm)]; exact h.fwd q hqm
      · have : q = m := by omega
        subst this
        rw [if_neg hqm, if_pos rfl, if_pos rfl]
    · intro s k hs
      rw [lookup_cons'] at hs
      rw [List.length_cons]
      by_cases hsm : s = sig d cls m
      · rw [if_pos hsm] at hs
        cases hs
        exact ⟨by omega, m, by omega, hsm.symm⟩
      · rw [if_neg hsm] at hs
        obtain ⟨h1, q, hq, h2⟩ := h.bwd s k hs
        exact ⟨by omega, q, by omega, h2⟩
    · intro s s' k hs hs'
      rw [lookup_cons'] at hs hs'
      by_cases hsm : s = sig d cls m
      · rw [if_pos hsm] at hs
        cases hs
        by_cases hsm' : s' = sig d cls m
        · rw [hsm, hsm']
        · rw [if_neg hsm'] at hs'
          have := (h.bwd s' _ hs').1
          omega
      · rw [if_neg hsm] at hs
        by_cases hsm' : s' = sig d cls m
        · rw [if_pos hsm'] at hs'
          cases hs'
          have := (h.bwd s _ hs).1
          omega
        · rw [if_neg hsm'] at hs'
          exact h.inj s s' k hs hs'
    · rw [List.length_cons, h.cnt]
      unfold nvals
      rw [Finset.range_add_one, Finset.image_insert, Finset.card_insert_of_notMem]
      intro hmem
      obtain ⟨q, hq, h2⟩ := Finset.mem_image.mp hmem
      exact hnew q (Finset.mem_range.mp hq) h2

theorem J_fold (d : DFA) (cls : Array Nat) : ∀ m, J d cls m ((List.range m).foldl (rstep d cls) (#[], [])) := by
  intro m
  induction m with
  | zero =>
    refine ⟨rfl, fun q hq => by omega, fun s k hs => by simp at hs, fun s s' k hs => by simp at hs, ?_⟩
    simp [nvals]
  | succ m ih =>
    rw [List.range_succ, List.foldl_append]
    exact J_step d cls m _ ih

/-- what one round of refinement computes -/
theorem refineOnce_spec (d : DFA) (cls : Array Nat) :
    (refineOnce d cls).1.size = d.size ∧
    (∀ q, q < d.size → ∀ q', q' < d.size →
      ((refineOnce d cls).1.getD q 0 = (refineOnce d cls).1.getD q' 0 ↔ sig d cls q = sig d cls q')) ∧
    (refineOnce d cls).2 = nvals d.size (sig d cls) := by
  rw [refineOnce_eq]
  have h := J_fold d cls d.size
  refine ⟨h.sz, ?_, h.cnt⟩
  intro q hq q' hq'
  dsimp only
  constructor
  · intro heq
    have h1 := h.fwd q hq
    have h2 := h.fwd q' hq'
    rw [heq] at h1
    exact h.inj _ _ _ h1 h2
  · intro heq
    have h1 := h.fwd q hq
    have h2 := h.fwd q' hq'
    rw [heq, h2] at h1
    exact (Option.some.inj h1).symm

/-! ### the refinement loop -/

/-- the class of a state -/
def clsf (cls : Array Nat) : Nat → Nat := fun q => cls.getD q 0

theorem sig_eq_iff (d : DFA) (cls : Array Nat) (q q' : Nat) :
    sig d cls q = sig d cls q' ↔ clsf cls q = clsf cls q' ∧
      ∀ i, i < DIRS.length → clsf cls (d.step q i) = clsf cls (d.step q' i) := by
  unfold sig clsf
  rw [List.cons.injEq, List.map_inj_left]
  simp only [List.mem_range]

/-- the partition has one class per state and separates accepting from rejecting states -/
structure Part (d : DFA) (cls : Array Nat) : Prop where
  sz : cls.size = d.size
  acc : ∀ q, q < d.size → ∀ q', q' < d.size → clsf cls q = clsf cls q' →
    d.acc.getD q false = d.acc.getD q' false

/-- … and is a congruence for the transitions -/
structure Stable (d : DFA) (cls : Array Nat) : Prop extends Part d cls where
  step : ∀ q, q < d.size → ∀ q', q' < d.size → clsf cls q = clsf cls q' →
    ∀ i, i < DIRS.length → clsf cls (d.step q i) = clsf cls (d.step q' i)

theorem refineLoop_succ (d : DFA) (fuel : Nat) (cls : Array Nat) (k : Nat) :
    refineLoop d (fuel + 1) cls k =
      if (refineOnce d cls).2 == k then (refineOnce d cls).1
      else refineLoop d fuel (refineOnce d cls).1 (refineOnce d cls).2 := rfl

theorem head_sig (d : DFA) (cls : Array Nat) : (fun l : List Nat => l.headD 0) ∘ sig d cls = clsf cls := rfl

/-- **the fuel of the refinement loop suffices**: started with the exact number of classes and fuel
    exceeding the number of states minus that number, the loop returns a stable partition -/
theorem refineLoop_spec (d : DFA) (hwf : C15Fin.WF d) : ∀ (fuel : Nat) (cls : Array Nat) (k : Nat),
    Part d cls → k = nvals d.size (clsf cls) → d.size < fuel + k → Stable d (refineLoop d fuel cls k) := by
  intro fuel
  induction fuel with
  | zero =>
    intro cls k _ hk hf
    have := nvals_le d.size (clsf cls)
    omega
  | succ fuel ih =>
    intro cls k hp hk hf
    rw [refineLoop_succ]
    obtain ⟨r1, r2, r3⟩ := refineOnce_spec d cls
    have hcomp := nvals_comp d.size (sig d cls) (fun l : List Nat => l.headD 0)
    rw [head_sig] at hcomp
    have hrefines : ∀ q, q < d.size → ∀ q', q' < d.size →
        clsf (refineOnce d cls).1 q = clsf (refineOnce d cls).1 q' → clsf cls q = clsf cls q' := by
      intro q hq q' hq' h
      exact ((sig_eq_iff d cls q q').mp ((r2 q hq q' hq').mp h)).1
    have hpart : Part d (refineOnce d cls).1 :=
      ⟨r1, fun q hq q' hq' h => hp.acc q hq q' hq' (hrefines q hq q' hq' h)⟩
    by_cases hstop : (refineOnce d cls).2 = k
    · rw [if_pos (by simpa using hstop)]
      have hinj := hcomp.2 (by rw [← r3, hstop, hk])
      refine ⟨hpart, ?_⟩
      intro q hq q' hq' h i hi
      have hs := (sig_eq_iff d cls q q').mp ((r2 q hq q' hq').mp h)
      have hc := hs.2 i hi
      have hsig := hinj _ (hwf q hq i hi) _ (hwf q' hq' i hi) hc
      exact (r2 _ (hwf q hq i hi) _ (hwf q' hq' i hi)).mpr hsig
    · rw [if_neg (by simpa using hstop)]
      apply ih _ _ hpart
      · rw [r3]
        unfold nvals
        apply card_image_congr
        intro a ha b hb
        exact (r2 a (Finset.mem_range.mp ha) b (Finset.mem_range.mp hb)).symm
      · have := hcomp.1
        rw [← r3, ← hk] at this
        omega

/-! ### the initial partition -/

theorem cls0_getD (acc : Array Bool) (q : Nat) :
    clsf (acc.map fun b => if b then 1 else 0) q = if acc.getD q false then 1 else 0 := by
  unfold clsf
  simp only [Array.getD_eq_getD_getElem?, Array.getElem?_map]
  cases acc[q]? <;> simp

theorem all_id_iff (acc : Array Bool) : acc.all id = true ↔ ∀ q, q < acc.size → acc.getD q false = true := by
  rw [Array.all_eq_true]
  constructor
  · intro h q hq
    have := h q hq
    simp only [Array.getD, hq, dif_pos]
    simpa using this
  · intro h q hq
    have := h q hq
    simp only [Array.getD, hq, dif_pos] at this
    simpa using this

theorem all_not_iff (acc : Array Bool) : acc.all (!·) = true ↔ ∀ q, q < acc.size → acc.getD q false = false := by
  rw [Array.all_eq_true]
  constructor
  · intro h q hq
    have := h q hq
    simp only [Array.getD, hq, dif_pos]
    simpa using this
  · intro h q hq
    have := h q hq
    simp only [Array.getD, hq, dif_pos] at this
    simpa using this

theorem nvals_const (n : Nat) (hn : 0 < n) (f : Nat → Nat) (c : Nat) (h : ∀ q, q < n → f q = c) : nvals n f = 1 := by
  unfold nvals
  have : (Finset.range n).image f = {c} := by
    ext x
    simp only [Finset.mem_image, Finset.mem_range, Finset.mem_singleton]
    constructor
    · rintro ⟨q, hq, rfl⟩; exact h q hq
    · rintro rfl; exact ⟨0, hn, h 0 hn⟩
  rw [this]; rfl

theorem k0_spec (acc : Array Bool) (n : Nat) (hsz : acc.size = n) (hn : 0 < n) :
    (if acc.all id || acc.all (!·) then 1 else 2) = nvals n (clsf (acc.map fun b => if b then 1 else 0)) := by
  by_cases h1 : acc.all id = true
  · rw [h1, Bool.true_or, if_pos rfl]
    symm
    apply nvals_const n hn _ 1
    intro q hq
    rw [cls0_getD, (all_id_iff acc).mp h1 q (by omega)]; rfl
  · by_cases h2 : acc.all (!·) = true
    · rw [h2, Bool.or_true, if_pos rfl]
      symm
      apply nvals_const n hn _ 0
      intro q hq
      rw [cls0_getD, (all_not_iff acc).mp h2 q (by omega)]; rfl
    · have h1' : acc.all id = false := by simpa using h1
      have h2' : acc.all (!·) = false := by simpa using h2
      rw [h1', h2', Bool.or_false, if_neg (by simp)]
      rw [all_id_iff] at h1
      rw [all_not_iff] at h2
      obtain ⟨q1, hq1, hv1⟩ : ∃ q, q < acc.size ∧ acc.getD q false = false := by
        by_contra hcon
        apply h1
        intro q hq
        cases hv : acc.getD q false with
        | true => rfl
        | false => exact absurd ⟨q, hq, hv⟩ hcon
      obtain ⟨q2, hq2, hv2⟩ : ∃ q, q < acc.size ∧ acc.getD q false = true := by
        by_contra hcon
        apply h2
        intro q hq
        cases hv : acc.getD q false with
        | false => rfl
        | true => exact absurd ⟨q, hq, hv⟩ hcon
      unfold nvals
      have : (Finset.range n).image (clsf (acc.map fun b => if b then 1 else 0)) = {0, 1} := by
        ext x
        simp only [Finset.mem_image, Finset.mem_range, Finset.mem_insert, Finset.mem_singleton]
        constructor
        · rintro ⟨q, _, rfl⟩
          rw [cls0_getD]
          cases acc.getD q false <;> simp
        · rintro (rfl | rfl)
          · exact ⟨q1, by omega, by rw [cls0_getD, hv1]; rfl⟩
          · exact ⟨q2, by omega, by rw [cls0_getD, hv2]; rfl⟩
      rw [this]; rfl

theorem part0 (d : DFA) (hasz : d.acc.size = d.size) : Part d (d.acc.map fun b => if b then 1 else 0) := by
  refine ⟨by rw [Array.size_map, hasz], ?_⟩
  intro q _ q' _ h
  rw [cls0_getD, cls0_getD] at h
  cases h1 : d.acc.getD q false <;> cases h2 : d.acc.getD q' false <;> simp [h1, h2] at h ⊢

/-- the partition `minimize` works with -/
def finalCls (d : DFA) : Array Nat :=
  refineLoop d d.size (d.acc.map fun b => if b then 1 else 0)
    (if d.acc.all id || d.acc.all (!·) then 1 else 2)

theorem finalCls_stable (d : DFA) (hd : Good d) : Stable d (finalCls d) := by
  unfold finalCls
  apply refineLoop_spec d hd.wf _ _ _ (part0 d hd.asz) (k0_spec d.acc d.size hd.asz hd.pos)
  have : 1 ≤ (if d.acc.all id || d.acc.all (!·) then 1 else 2) := by split <;> omega
  omega

/-! ### class count, representatives -/

theorem foldl_max_spec : ∀ (l : List Nat) (init : Nat),
    init ≤ l.foldl (fun m c => max m (c + 1)) init ∧ ∀ c ∈ l, c < l.foldl (fun m c => max m (c + 1)) init := by
  intro l
  induction l with
  | nil => intro init; exact ⟨Nat.le_refl _, fun c hc => by simp at hc⟩
  | cons x l ih =>
    intro init
    rw [List.foldl_cons]
    obtain ⟨h1, h2⟩ := ih (max init (x + 1))
    refine ⟨by omega, ?_⟩
    intro c hc
    rcases List.mem_cons.mp hc with rfl | hc'
    · omega
    · exact h2 c hc'

def nCls (cls : Array Nat) : Nat := cls.foldl (fun m c => max m (c + 1)) 0

theorem clsf_lt_nCls (cls : Array Nat) (q : Nat) (hq : q < cls.size) : clsf cls q < nCls cls := by
  unfold nCls clsf
  rw [← Array.foldl_toList]
  apply (foldl_max_spec cls.toList 0).2
  simp only [Array.getD, hq, dif_pos]
  exact Array.getElem_mem_toList hq

theorem getD_set' (a : Array Nat) (j x i dflt : Nat) :
    (a.setIfInBounds j x).getD i dflt = if i = j ∧ j < a.size then x else a.getD i dflt := by
  simp only [Array.getD_eq_getD_getElem?, Array.getElem?_setIfInBounds]
  split
  · subst_vars
    split
    · simp [*]
    · rename_i h; simp [h]
  · rename_i h; simp [Ne.symm h]

def repStep (cls : Array Nat) (n : Nat) (r : Array Nat) (q : Nat) : Array Nat :=
  if r.getD (cls.getD q 0) n == n then r.setIfInBounds (cls.getD q 0) q else r

def repArr (cls : Array Nat) (n : Nat) : Array Nat :=
  (List.range n).foldl (repStep cls n) (Array.replicate (nCls cls) n)

structure K (cls : Array Nat) (n m : Nat) (r : Array Nat) : Prop where
  sz : r.size = nCls cls
  ok : ∀ c, c < nCls cls → r.getD c n = n ∨ (r.getD c n < m ∧ clsf cls (r.getD c n) = c)
  hit : ∀ q, q < m → r.getD (clsf cls q) n ≠ n

theorem K_step (cls : Array Nat) (n m : Nat) (hsz : cls.size = n) (hm : m < n) (r : Array Nat) (h : K cls n m r) :
    K cls n (m + 1) (repStep cls n r m) := by
  have hc : clsf cls m < nCls cls := clsf_lt_nCls cls m (by omega)
  unfold repStep
  by_cases hfree : r.getD (cls.getD m 0) n = n
  · rw [if_pos (by simpa using hfree)]
    refine ⟨by rw [Array.size_setIfInBounds, h.sz], ?_, ?_⟩
    · intro c hcn
      rw [getD_set', h.sz]
      by_cases hcc : c = cls.getD m 0
      · rw [if_pos ⟨hcc, hc⟩]
        exact Or.inr ⟨by omega, hcc.symm⟩
      · rw [if_neg (fun hh => hcc hh.1)]
        rcases h.ok c hcn with h1 | ⟨h1, h2⟩
        · exact Or.inl h1
        · exact Or.inr ⟨by omega, h2⟩
    · intro q hq
      rw [getD_set', h.sz]
      by_cases hcc : clsf cls q = cls.getD m 0
      · rw [if_pos ⟨hcc, hc⟩]; omega
      · rw [if_neg (fun hh => hcc hh.1)]
        have : q ≠ m := fun hh => hcc (by rw [hh]; rfl)
        exact h.hit q (by omega)
  · rw [if_neg (by simpa using hfree)]
    refine ⟨h.sz, ?_, ?_⟩
    · intro c hcn
      rcases h.ok c hcn with h1 | ⟨h1, h2⟩
      · exact Or.inl h1
      · exact Or.inr ⟨by omega, h2⟩
    · intro q hq
      by_cases hqm : q = m
      · subst hqm; exact hfree
      · exact h.hit q (by omega)

theorem K_fold (cls : Array Nat) (n : Nat) (hsz : cls.size = n) : ∀ m, m ≤ n →
    K cls n m ((List.range m).foldl (repStep cls n) (Array.replicate (nCls cls) n)) := by
  intro m
  induction m with
  | zero =>
    intro _
    refine ⟨by simp, ?_, fun q hq => by omega⟩
    intro c hc
    left
    simp [Array.getD, hc]
  | succ m ih =>
    intro hm
    rw [List.range_succ, List.foldl_append]
    exact K_step cls n m hsz (by omega) _ (ih (by omega))

/-- representative of a class, as `minimize` reads it -/
def repf (cls : Array Nat) (n : Nat) : Nat → Nat := fun c => (repArr cls n).getD c 0

theorem getD_dflt (a : Array Nat) (c x y : Nat) (h : c < a.size) : a.getD c x = a.getD c y := by
  simp [Array.getD, h]

theorem repf_spec (cls : Array Nat) (n : Nat) (hsz : cls.size = n) :
    (∀ c, c < nCls cls → repf cls n c ≤ n) ∧
    (∀ q, q < n → repf cls n (clsf cls q) < n ∧ clsf cls (repf cls n (clsf cls q)) = clsf cls q) := by
  have h := K_fold cls n hsz n (Nat.le_refl _)
  change K cls n n (repArr cls n) at h
  constructor
  · intro c hc
    unfold repf
    rw [getD_dflt _ c 0 n (by rw [h.sz]; exact hc)]
    rcases h.ok c hc with h1 | ⟨h1, _⟩ <;> omega
  · intro q hq
    have hc := clsf_lt_nCls cls q (by omega)
    unfold repf
    rw [getD_dflt _ _ 0 n (by rw [h.sz]; exact hc)]
    rcases h.ok _ hc with h1 | ⟨h1, h2⟩
    · exact absurd h1 (h.hit q hq)
    · exact ⟨h1, h2⟩

/-! ### the minimised automaton -/

def minSucc (d : DFA) (cls : Array Nat) : Nat → List Nat := fun c =>
  (List.range DIRS.length).map fun i => cls.getD (d.step (repf cls d.size c) i) 0

theorem minimize_eq (d : DFA) : minimize d =
    ⟨(explore (minSucc d (finalCls d)) ((finalCls d).getD 0 0) (nCls (finalCls d))).rows,
     (explore (minSucc d (finalCls d)) ((finalCls d).getD 0 0) (nCls (finalCls d))).seen.map fun c =>
       d.acc.getD (repf (finalCls d) d.size c) false⟩ := rfl

theorem step_size (d : DFA) (i : Nat) : d.step d.size i = 0 := by
  unfold DFA.step DFA.size
  have : d.trans.getD d.trans.size #[] = #[] := by simp [Array.getD]
  rw [this]; simp [Array.getD]

theorem minSucc_closed (d : DFA) (hd : Good d) (cls : Array Nat) (hsz : cls.size = d.size) :
    Closed (minSucc d cls) (nCls cls) := by
  refine ⟨fun c _ => by simp [minSucc], ?_⟩
  intro c hc t ht
  obtain ⟨i, hi, rfl⟩ := List.mem_map.mp ht
  have hi : i < DIRS.length := by simpa using hi
  have hle := (repf_spec cls d.size hsz).1 c hc
  have hlt : d.step (repf cls d.size c) i < d.size := by
    by_cases h : repf cls d.size c < d.size
    · exact hd.wf _ h i hi
    · have : repf cls d.size c = d.size := by omega
      rw [this, step_size]; exact hd.pos
  exact clsf_lt_nCls cls _ (by omega)

theorem minSucc_getD (d : DFA) (cls : Array Nat) (c i : Nat) (hi : i < DIRS.length) :
    (minSucc d cls c).getD i 0 = clsf cls (d.step (repf cls d.size c) i) := by
  unfold minSucc
  rw [List.getD_eq_getElem?_getD, List.getElem?_map, List.getElem?_range hi]
  rfl

theorem min_crun (d : DFA) (hd : Good d) (cls : Array Nat) (hst : Stable d cls) (w : Word) :
    ∀ q, q < d.size → crun (minSucc d cls) (some (clsf cls q)) w = (d.run (some q) w).map (clsf cls) := by
  induction w with
  | nil => intro q _; rfl
  | cons x w ih =>
    intro q hq
    simp only [crun, C15Fin.run_cons]
    cases hl : letterIdx x with
    | none => simp [crun_none, C15Fin.run_none]
    | some i =>
      have hi := C15Fin.letterIdx_lt hl
      simp only [Option.map_some]
      rw [minSucc_getD d cls _ i hi]
      obtain ⟨hr1, hr2⟩ := (repf_spec cls d.size hst.sz).2 q hq
      rw [hst.step _ hr1 q hq hr2 i hi]
      exact ih _ (hd.wf q hq i hi)

/-- **Moore minimisation preserves the language** -/
theorem minimize_accepts (d : DFA) (hd : Good d) (w : Word) : (minimize d).accepts w = d.accepts w := by
  have hst := finalCls_stable d hd
  have hstart : (finalCls d).getD 0 0 < nCls (finalCls d) :=
    clsf_lt_nCls (finalCls d) 0 (by rw [hst.sz]; exact hd.pos)
  have hspec := explore_spec (minSucc d (finalCls d)) ((finalCls d).getD 0 0) (nCls (finalCls d))
    (minSucc_closed d hd _ hst.sz) hstart
  rw [minimize_eq, explored_accepts _ _ _ _ _ hspec]
  unfold cacc DFA.accepts
  have := min_crun d hd (finalCls d) hst w 0 hd.pos
  change crun _ (some ((finalCls d).getD 0 0)) w = _ at this
  rw [this]
  cases hr : d.run (some 0) w with
  | none => rfl
  | some r =>
    have hr' := C15Fin.run_lt d hd.wf w 0 r hd.pos hr
    simp only [Option.map_some]
    obtain ⟨hr1, hr2⟩ := (repf_spec (finalCls d) d.size hst.sz).2 r hr'
    exact hst.acc _ hr1 r hr' hr2

theorem minimize_good (d : DFA) (hd : Good d) : Good (minimize d) := by
  have hst := finalCls_stable d hd
  have hstart : (finalCls d).getD 0 0 < nCls (finalCls d) :=
    clsf_lt_nCls (finalCls d) 0 (by rw [hst.sz]; exact hd.pos)
  have hspec := explore_spec (minSucc d (finalCls d)) ((finalCls d).getD 0 0) (nCls (finalCls d))
    (minSucc_closed d hd _ hst.sz) hstart
  rw [minimize_eq]
  exact explored_good _ _ _ _ _ hspec

end C15Min
