import PermutaModel.Lemmas.C14C15
import PermutaModel.Lemmas.C14SoundSel
/-! C14 soundness helpers: an accepted occurrence tuple of `pinword_contains` is a marking. -/
namespace C14S
open Model.C14 Model.C14.Letter Spec.C14 Proto C14L C14C15

/-- the letter before index `i` (as `Spec.C14.signs` reads it) -/
def prevAt (w : Word) (i : Nat) : Letter := w.getD (i - 1) (X ' ')

theorem signs_eq (w : Word) (i : Nat) : signs w i = signsOf (prevAt w i) (w.getD i (X ' ')) := rfl

theorem prevAt_succ (w : Word) (i : Nat) (hi : i < w.length) : prevAt w (i + 1) = w[i] := by
  simp [prevAt, List.getD_eq_getElem?_getD, List.getElem?_eq_getElem hi]

theorem sel_nil_all (w : Word) : ∀ prev ps, Sel prev ps w [] := by
  induction w with
  | nil => intro prev ps; exact Sel.nil _ _
  | cons c w ih => intro prev ps; exact Sel.skip (ih c false)

theorem sel_skip_to (w u : Word) (k : Nat) : ∀ (i : Nat) (ps : Bool), i + k ≤ w.length →
    Sel (prevAt w (i + k)) (if k = 0 then ps else false) (w.drop (i + k)) u →
    Sel (prevAt w i) ps (w.drop i) u := by
  induction k with
  | zero => intro i ps _ h; simpa using h
  | succ k ih =>
    intro i ps hik h
    have hi : i < w.length := by omega
    rw [List.drop_eq_getElem_cons hi]
    apply Sel.skip
    rw [← prevAt_succ w i hi]
    apply ih (i + 1) false (by omega)
    rw [show i + 1 + k = i + (k + 1) from by omega]
    simpa using h

theorem sel_dirs (w u : Word) (ds : Word) : ∀ (j : Nat), ds <+: w.drop j → (∀ d ∈ ds, d.isDir = true) →
    Sel (prevAt w (j + ds.length)) true (w.drop (j + ds.length)) u →
    Sel (prevAt w j) true (w.drop j) (ds ++ u) := by
  induction ds with
  | nil => intro j _ _ h; simpa using h
  | cons d ds ih =>
    intro j hp hd h
    have hj : j < w.length := by
      by_contra hc
      rw [List.drop_eq_nil_of_le (by omega)] at hp
      simp at hp
    rw [List.drop_eq_getElem_cons hj] at hp ⊢
    rw [List.cons_prefix_cons] at hp
    obtain ⟨rfl, hp⟩ := hp
    rw [List.cons_append]
    apply Sel.takeDir (hd _ List.mem_cons_self)
    rw [← prevAt_succ w j hj]
    apply ih (j + 1) hp (fun d hd' => hd d (List.mem_cons_of_mem _ hd'))
    rw [show j + 1 + ds.length = j + (w[j] :: ds).length from by simp; omega]
    exact h

/-- the factors are numeral-led and continue with direction letters -/
def Shape (fs : List Word) : Prop :=
  ∀ f ∈ fs, ∃ q ds, f = q :: ds ∧ q.isQuad = true ∧ ∀ d ∈ ds, d.isDir = true

theorem good_sel (w : Word) (hw : inLang w = true) (fs : List Word) : ∀ (i : Nat) (first : Bool),
    Shape fs → Good w fs i first → i ≤ w.length →
    (first = true → ∀ c, w[i]? = some c → c.isQuad = true) →
    Sel (prevAt w i) true (w.drop i) fs.flatten := by
  induction fs with
  | nil => intro i first _ _ _ _; exact sel_nil_all _ _ _
  | cons f fs ih =>
    intro i first hsh hg hi hfirst
    obtain ⟨q, ds, rfl, hq, hds⟩ := hsh _ List.mem_cons_self
    obtain ⟨occ, h1, h2, h3, h4, h5⟩ := hg
    rw [occSpTest_ok w hw q ds hq occ h2] at h3
    simp only [Except.ok.injEq, Bool.and_eq_true, decide_eq_true_eq] at h3
    obtain ⟨hquad, hslice⟩ := h3
    rw [slice_iff] at hslice
    have hlen : occ + 1 + ds.length ≤ w.length := by
      have := hslice.length_le
      simp only [List.length_drop] at this
      omega
    have hrec := ih (occ + (q :: ds).length) false (fun f hf => hsh f (List.mem_cons_of_mem _ hf)) h5
      (by simp only [List.length_cons]; omega) (by intro h; cases h)
    rw [show occ + (q :: ds).length = occ + 1 + ds.length from by simp; omega] at hrec
    have hd := sel_dirs w fs.flatten ds (occ + 1) hslice hds hrec
    -- the numeral reading of `w[occ]`
    have hnum : ∀ ps : Bool, (ps = false ∨ quadAt w occ = true) →
        Sel (prevAt w occ) ps (w.drop occ) ((q :: ds) ++ fs.flatten) := by
      intro ps hps
      rw [List.drop_eq_getElem_cons h2, List.cons_append, ← hquad, signs_eq]
      have hget : w.getD occ (X ' ') = w[occ] := by
        simp [List.getD_eq_getElem?_getD, List.getElem?_eq_getElem h2]
      rw [hget]
      apply Sel.takeNum
      · rcases hps with h | h
        · exact Or.inl h
        · right; simpa [quadAt, List.getElem?_eq_getElem h2] using h
      · rw [← prevAt_succ w occ h2]; exact hd
    rw [List.flatten_cons]
    by_cases hoi : occ = i
    · subst hoi
      apply hnum true
      right
      rcases h4 with h | h | h
      · have := hfirst h _ (List.getElem?_eq_getElem h2)
        simpa [quadAt, List.getElem?_eq_getElem h2] using this
      · exact absurd rfl h
      · exact h
    · obtain ⟨k, rfl⟩ : ∃ k, occ = i + k := ⟨occ - i, by omega⟩
      apply sel_skip_to w _ k i true (by omega)
      have hk : k ≠ 0 := by omega
      simp only [hk, if_false]
      exact hnum false (Or.inl rfl)

end C14S
