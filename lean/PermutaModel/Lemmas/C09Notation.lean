import PermutaModel.Lemmas.C09Std
import Mathlib.Tactic.IntervalCases
import Mathlib.Tactic.Ring

/-! Helper lemmas for C09: string / integer / validated notations. -/
open List

namespace C09

/-! ### `str` and `from_string` -/

theorem charDigit_digitChar (a : Nat) (h : a < 10) : Model.charDigit (Nat.digitChar a) = .ok a := by
  interval_cases a <;> rfl

theorem digitChar_ne_eps (a : Nat) (h : a < 10) : Nat.digitChar a ≠ 'ε' := by
  interval_cases a <;> decide

theorem natChars_lt (a : Nat) (h : a < 10) : Model.natChars a = [Nat.digitChar a] :=
  Nat.toDigits_of_lt_base h

theorem charsToDigits_flatMap (σ : List Nat) (h : ∀ x ∈ σ, x < 10) :
    Model.charsToDigits (σ.flatMap Model.natChars) = .ok σ := by
  induction σ with
  | nil => rfl
  | cons a t ih =>
    rw [flatMap_cons, natChars_lt a (h a (by simp)), singleton_append, Model.charsToDigits,
      charDigit_digitChar a (h a (by simp)), ih (fun x hx => h x (by simp [hx]))]

/-! ### decimal digits -/

/-- value of a digit list, least significant digit first -/
def valLE : List Nat → Nat
  | [] => 0
  | d :: t => d + 10 * valLE t

theorem foldl_digits (t : List Nat) (a : Nat) :
    t.foldl (fun a d => a * 10 + d) a = a * 10 ^ t.length + t.foldl (fun a d => a * 10 + d) 0 := by
  induction t generalizing a with
  | nil => simp
  | cons d t ih =>
    rw [foldl_cons, ih, foldl_cons, ih (0 * 10 + d), length_cons, pow_succ]
    ring

theorem digitsToNat_cons (d : Nat) (t : List Nat) :
    Model.digitsToNat (d :: t) = d * 10 ^ t.length + Model.digitsToNat t := by
  unfold Model.digitsToNat
  rw [foldl_cons, foldl_digits]; simp

theorem digitsToNat_append_singleton (t : List Nat) (d : Nat) :
    Model.digitsToNat (t ++ [d]) = Model.digitsToNat t * 10 + d := by
  simp [Model.digitsToNat, foldl_append]

theorem valLE_eq (rs : List Nat) : valLE rs = Model.digitsToNat rs.reverse := by
  induction rs with
  | nil => rfl
  | cons d t ih => rw [reverse_cons, digitsToNat_append_singleton, ← ih, valLE]; omega

theorem digitsToNat_eq_valLE (ds : List Nat) : Model.digitsToNat ds = valLE ds.reverse := by
  rw [valLE_eq, reverse_reverse]

theorem digitsToNat_lt (ds : List Nat) (h : ∀ d ∈ ds, d < 10) : Model.digitsToNat ds < 10 ^ ds.length := by
  induction ds with
  | nil => simp [Model.digitsToNat]
  | cons d t ih =>
    rw [digitsToNat_cons, length_cons, pow_succ]
    have h1 := ih (fun x hx => h x (by simp [hx]))
    have h2 : d ≤ 9 := by have := h d (by simp); omega
    have h3 := Nat.mul_le_mul_right (10 ^ t.length) h2
    omega

theorem digitLoop_zero (fuel : Nat) : Model.digitLoop fuel 0 = [] := by
  cases fuel <;> simp [Model.digitLoop]

theorem valLE_pos : ∀ (rs : List Nat) (h : rs ≠ []), rs.getLast h ≠ 0 → 0 < valLE rs
  | [d], _, hl => by simp at hl; simp [valLE]; omega
  | d :: e :: u, _, hl => by
    rw [getLast_cons (by simp)] at hl
    have := valLE_pos (e :: u) (by simp) hl
    rw [valLE]; omega

/-- the digit loop recovers a least-significant-first digit list without a leading (= last) zero -/
theorem digitLoop_valLE : ∀ (rs : List Nat), (∀ d ∈ rs, d < 10) → (∀ h : rs ≠ [], rs.getLast h ≠ 0) →
    ∀ fuel, valLE rs ≤ fuel → Model.digitLoop fuel (valLE rs) = rs := by
  intro rs
  induction rs with
  | nil => intro _ _ fuel _; exact digitLoop_zero fuel
  | cons d t ih =>
    intro hd hlast fuel hf
    have hdlt := hd d (by simp)
    have hpos : 0 < valLE (d :: t) := valLE_pos (d :: t) (by simp) (hlast (by simp))
    cases fuel with
    | zero => omega
    | succ fuel =>
      rw [Model.digitLoop, if_neg (by omega)]
      have h1 : valLE (d :: t) % 10 = d := by simp only [valLE]; omega
      have h2 : valLE (d :: t) / 10 = valLE t := by simp only [valLE]; omega
      rw [h1, h2]
      congr 1
      apply ih (fun x hx => hd x (by simp [hx]))
      · intro h; have := hlast (by simp); rwa [getLast_cons h] at this
      · simp only [valLE] at hf; omega

theorem digitLoop_digitsToNat (ds : List Nat) (hd : ∀ d ∈ ds, d < 10) (hhead : ∀ h : ds ≠ [], ds.head h ≠ 0) :
    (Model.digitLoop (Model.digitsToNat ds) (Model.digitsToNat ds)).reverse = ds := by
  rw [digitsToNat_eq_valLE, digitLoop_valLE ds.reverse (by simpa using hd) ?_ _ (le_refl _), reverse_reverse]
  intro h
  rw [getLast_reverse]
  exact hhead _

/-- value of the descending digits `b-1, …, 1, 0` -/
def descVal : Nat → Nat
  | 0 => 0
  | b + 1 => b * 10 ^ b + descVal b

/-- a number written with `b ≤ 10` distinct digits below `b` is at most `(b-1)…210` -/
theorem digitsToNat_le_descVal : ∀ (b : Nat) (ds : List Nat), b ≤ 10 → ds.length = b → ds.Nodup →
    (∀ d ∈ ds, d < b) → Model.digitsToNat ds ≤ descVal b := by
  intro b
  induction b with
  | zero => intro ds _ hl _ _; rw [List.eq_nil_of_length_eq_zero hl]; simp [Model.digitsToNat]
  | succ b ih =>
    intro ds hb hl hnd hlt
    match ds, hl, hnd, hlt with
    | d :: t, hl, hnd, hlt =>
      have htl : t.length = b := by simpa using hl
      rw [nodup_cons] at hnd
      rw [digitsToNat_cons, htl, descVal]
      have hdb : d < b + 1 := hlt d (by simp)
      by_cases hd : d = b
      · subst hd
        have := ih t (by omega) htl hnd.2 (fun x hx => by
          have := hlt x (by simp [hx])
          have : x ≠ d := fun e => hnd.1 (e ▸ hx)
          omega)
        omega
      · have h10 := digitsToNat_lt t (fun x hx => by have := hlt x (by simp [hx]); omega)
        rw [htl] at h10
        have h1 : d + 1 ≤ b := by omega
        have h2 : (d + 1) * 10 ^ b ≤ b * 10 ^ b := Nat.mul_le_mul_right _ h1
        rw [Nat.succ_mul] at h2
        omega

theorem descVal_ten : descVal 10 = 9876543210 := by decide

/-! ### standardisation of shifted permutations -/

theorem toStandard_map_succ (σ : NSeq) (h : IsPerm σ) : Model.toStandard (σ.map (· + 1)) = σ := by
  refine (stdIso_unique (σ.map (· + 1)) σ _ h (isPerm_toStandard _) ?_ (stdIso_toStandard _)).symm
  refine ⟨by simp, ?_⟩
  intro i j hi hj
  have hi' : i < σ.length := by simpa using hi
  have hj' : j < σ.length := by simpa using hj
  simp only [List.getD_eq_getElem?_getD, getElem?_map, hi', hj', getElem?_eq_getElem, Option.map_some,
    Option.getD_some]
  constructor
  · rintro (h1 | ⟨h1, h2⟩)
    · omega
    · have := (h.1.getElem_inj_iff).mp (Nat.succ_injective h1)
      omega
  · intro h1; left; omega

/-! ### validated constructor -/

theorem validateLoop_ints (n : Nat) : ∀ (l : List Nat) (used : List Int),
    (Model.validateLoop n (l.map fun v => Model.PyVal.int (v : Nat)) used = .ok () ↔
      (∀ v ∈ l, v < n) ∧ l.Nodup ∧ ∀ v ∈ l, ((v : Nat) : Int) ∉ used) ∧
    (Model.validateLoop n (l.map fun v => Model.PyVal.int (v : Nat)) used = .ok () ∨
      Model.validateLoop n (l.map fun v => Model.PyVal.int (v : Nat)) used = .error .valueError) := by
  intro l
  induction l with
  | nil => intro used; simp [Model.validateLoop]
  | cons a t ih =>
    intro used
    simp only [map_cons, Model.validateLoop]
    by_cases h1 : a < n
    · have h1' : (0 ≤ (a : Int) ∧ (a : Int) < n) := by omega
      rw [if_neg (not_not.mpr h1')]
      by_cases h2 : used.contains (a : Int) = true
      · rw [if_pos h2]
        refine ⟨?_, Or.inr rfl⟩
        constructor
        · intro h; cases h
        · rintro ⟨_, _, h3⟩
          have := h3 a (by simp)
          simp at h2; exact absurd h2 this
      · rw [if_neg h2]
        obtain ⟨ih1, ih2⟩ := ih ((a : Int) :: used)
        refine ⟨?_, ih2⟩
        rw [ih1]
        have h2' : (a : Int) ∉ used := by simpa using h2
        constructor
        · rintro ⟨h3, h4, h5⟩
          refine ⟨?_, ?_, ?_⟩
          · intro v hv
            rcases mem_cons.mp hv with rfl | hv
            · exact h1
            · exact h3 v hv
          · rw [nodup_cons]
            refine ⟨fun hmem => ?_, h4⟩
            exact h5 a hmem (by simp)
          · intro v hv
            rcases mem_cons.mp hv with rfl | hv
            · exact h2'
            · exact fun hm => h5 v hv (mem_cons_of_mem _ hm)
        · rintro ⟨h3, h4, h5⟩
          rw [nodup_cons] at h4
          refine ⟨fun v hv => h3 v (by simp [hv]), h4.2, ?_⟩
          intro v hv hm
          rcases mem_cons.mp hm with e | hm
          · have e' : v = a := by exact_mod_cast e
            exact h4.1 (e' ▸ hv)
          · exact h5 v (by simp [hv]) hm
    · have h1' : ¬ (0 ≤ (a : Int) ∧ (a : Int) < n) := by omega
      rw [if_pos h1']
      refine ⟨?_, Or.inr rfl⟩
      constructor
      · intro h; cases h
      · rintro ⟨h3, _⟩; exact absurd (h3 a (by simp)) h1

/-- whatever the input objects are, an accepted tuple is a permutation -/
theorem validateLoop_ok (n : Nat) : ∀ (vs : List Model.PyVal) (used : List Int),
    Model.validateLoop n vs used = .ok () →
      (∀ v ∈ vs, ∃ k : Nat, v = .int k ∧ k < n ∧ (k : Int) ∉ used) ∧
      (vs.map Model.PyVal.toNat).Nodup := by
  intro vs
  induction vs with
  | nil => intro used _; simp
  | cons a t ih =>
    intro used h
    cases a with
    | other => simp [Model.validateLoop] at h
    | int v =>
      simp only [Model.validateLoop] at h
      by_cases h1 : (0 ≤ v ∧ v < n)
      · rw [if_neg (not_not.mpr h1)] at h
        by_cases h2 : used.contains v = true
        · rw [if_pos h2] at h; cases h
        · rw [if_neg h2] at h
          obtain ⟨ih1, ih2⟩ := ih (v :: used) h
          have h2' : v ∉ used := by simpa using h2
          constructor
          · intro w hw
            rcases mem_cons.mp hw with rfl | hw
            · exact ⟨v.toNat, by congr 1; omega, by omega, by rwa [Int.toNat_of_nonneg h1.1]⟩
            · obtain ⟨k, hk1, hk2, hk3⟩ := ih1 w hw
              exact ⟨k, hk1, hk2, fun hm => hk3 (mem_cons_of_mem _ hm)⟩
          · simp only [map_cons, nodup_cons]
            refine ⟨?_, ih2⟩
            intro hm
            obtain ⟨w, hw, hwe⟩ := mem_map.mp hm
            obtain ⟨k, hk1, _, hk3⟩ := ih1 w hw
            subst hk1
            simp only [Model.PyVal.toNat, Int.toNat_natCast] at hwe
            apply hk3
            have : (k : Int) = v := by omega
            rw [this]; simp
      · rw [if_pos h1] at h; cases h

end C09

namespace C09

/-- a valid prefix of integers is consumed without an error -/
theorem validateLoop_append_ints (n : Nat) (rest : List Model.PyVal) : ∀ (pre : List Nat) (used : List Int),
    (∀ v ∈ pre, v < n) → pre.Nodup → (∀ v ∈ pre, ((v : Nat) : Int) ∉ used) →
    ∃ used', Model.validateLoop n (pre.map (fun v => Model.PyVal.int (v : Nat)) ++ rest) used =
      Model.validateLoop n rest used' := by
  intro pre
  induction pre with
  | nil => intro used _ _ _; exact ⟨used, rfl⟩
  | cons a t ih =>
    intro used h1 h2 h3
    rw [List.nodup_cons] at h2
    have ha : (0 ≤ (a : Int) ∧ (a : Int) < n) := by have := h1 a (by simp); omega
    have hu : ¬ (used.contains (a : Int) = true) := by simpa using h3 a (by simp)
    obtain ⟨used', h⟩ := ih ((a : Int) :: used) (fun v hv => h1 v (by simp [hv])) h2.2 (by
      intro v hv hm
      rcases List.mem_cons.mp hm with e | hm
      · have e' : v = a := by exact_mod_cast e
        exact h2.1 (e' ▸ hv)
      · exact h3 v (by simp [hv]) hm)
    refine ⟨used', ?_⟩
    simp only [List.map_cons, List.cons_append, Model.validateLoop]
    rw [if_neg (not_not.mpr ha), if_neg hu, h]

/-- a non-zero number written with digits `ds` (no leading zero, within the assert bound) is read
    back as the standardisation of `ds` -/
theorem fromInteger_digits (ds : List Nat) (hne : ds ≠ []) (hd : ∀ d ∈ ds, d < 10)
    (hhead : ds.head hne ≠ 0) (hb : Model.digitsToNat ds ≤ 9876543210) :
    Model.fromInteger (Model.digitsToNat ds : Nat) = .ok (Model.toStandard ds) := by
  have hpos : 0 < Model.digitsToNat ds := by
    rw [digitsToNat_eq_valLE]
    apply valLE_pos ds.reverse (by simpa using hne)
    rw [List.getLast_reverse]; exact hhead
  unfold Model.fromInteger
  rw [if_neg (by omega), if_neg (by omega)]
  simp only [Int.toNat_natCast]
  rw [digitLoop_digitsToNat ds hd (fun _ => hhead)]

end C09
