import PermutaModel.Lemmas.C17Perm
/-! A3 (first half): the recursive deletion of `mine` records, for every occurrence of a pattern of
    admissible length in the permutation it is started on, a set of cells contained in the hit set
    of that occurrence. -/

namespace Model.C17

/-- `goodpatts[j][π]` holds a set included in `H` -/
def Covers (gp : List Level) (j : Nat) (π : NSeq) (H : Shading) : Prop :=
  ∃ Rs, alGet (gp.getD j []) π = some Rs ∧ ∃ R ∈ Rs, subsetB R H = true

theorem recordLevel_new (lv : Level) (p : NSeq) (sh H : Shading) (h : subsetB sh H = true) :
    ∃ Rs, alGet (recordLevel lv p sh) p = some Rs ∧ ∃ R ∈ Rs, subsetB R H = true := by
  unfold recordLevel
  cases hg : alGet lv p with
  | none => exact ⟨[sh], by simp [alGet_alSet_same], sh, by simp, h⟩
  | some Rs =>
    simp only
    by_cases hany : Rs.any (fun U => subsetB U sh) = true
    · simp only [hany, if_true]
      obtain ⟨U, hU, hUs⟩ := List.any_eq_true.mp hany
      exact ⟨Rs, hg, U, hU, subsetB_trans hUs h⟩
    · simp only [hany]
      exact ⟨Rs ++ [sh], by simp [alGet_alSet_same], sh, by simp, h⟩

theorem recordLevel_mono (lv : Level) (p : NSeq) (sh : Shading) (p' : NSeq) (H : Shading)
    (h : ∃ Rs, alGet lv p' = some Rs ∧ ∃ R ∈ Rs, subsetB R H = true) :
    ∃ Rs, alGet (recordLevel lv p sh) p' = some Rs ∧ ∃ R ∈ Rs, subsetB R H = true := by
  obtain ⟨Rs, hRs, R, hR, hRH⟩ := h
  unfold recordLevel
  by_cases hp : p' = p
  · subst hp
    rw [hRs]
    simp only
    by_cases hany : Rs.any (fun U => subsetB U sh) = true
    · simp only [hany, if_true]; exact ⟨Rs, hRs, R, hR, hRH⟩
    · simp only [hany]
      exact ⟨Rs ++ [sh], by simp [alGet_alSet_same], R, by simp [hR], hRH⟩
  · cases hg : alGet lv p with
    | none => simp only; rw [alGet_alSet_ne _ _ _ _ hp]; exact ⟨Rs, hRs, R, hR, hRH⟩
    | some Rs' =>
      simp only
      by_cases hany : Rs'.any (fun U => subsetB U sh) = true
      · simp only [hany, if_true]; exact ⟨Rs, hRs, R, hR, hRH⟩
      · rw [if_neg hany, alGet_alSet_ne _ _ _ _ hp]; exact ⟨Rs, hRs, R, hR, hRH⟩

theorem record_length (gp : List Level) (nL : Nat) (p : NSeq) (sh : Shading) :
    (record gp nL p sh).length = gp.length := by simp [record]

theorem getD_set_self (gp : List Level) (j : Nat) (lv : Level) (h : j < gp.length) :
    (gp.set j lv).getD j [] = lv := by
  simp [List.getD_eq_getElem?_getD, List.getElem?_set_self h]

theorem getD_set_ne (gp : List Level) (i j : Nat) (lv : Level) (h : i ≠ j) :
    (gp.set i lv).getD j [] = gp.getD j [] := by
  simp [List.getD_eq_getElem?_getD, List.getElem?_set_ne h]

theorem record_new (gp : List Level) (nL : Nat) (p : NSeq) (sh H : Shading) (hn : nL < gp.length)
    (h : subsetB sh H = true) : Covers (record gp nL p sh) nL p H := by
  unfold Covers record
  rw [getD_set_self _ _ _ hn]
  exact recordLevel_new _ p sh H h

theorem record_mono (gp : List Level) (nL : Nat) (p : NSeq) (sh : Shading) (j : Nat) (π : NSeq)
    (H : Shading) (h : Covers gp j π H) : Covers (record gp nL p sh) j π H := by
  unfold Covers record at *
  by_cases hj : nL = j
  · subst hj
    by_cases hn : nL < gp.length
    · rw [getD_set_self _ _ _ hn]; exact recordLevel_mono _ p sh π H h
    · rw [List.set_eq_of_length_le (by omega)]; exact h
  · rw [getD_set_ne _ _ _ _ hj]; exact h

theorem addGood_length (minLen maxLen : Nat) (L : Nat) : ∀ (τ : NSeq) (sh : Shading) (loc : Nat)
    (gp : List Level), (addGood minLen maxLen L τ sh loc gp).length = gp.length := by
  induction L with
  | zero => intro τ sh loc gp; simp [addGood]
  | succ L ih =>
    intro τ sh loc gp
    simp only [addGood]
    split
    · refine foldl_preserves (fun g : List Level => g.length = gp.length) _ _ ?_ gp rfl
      intro b a _ hb
      split
      · rw [ih]; split
        · rw [record_length]; exact hb
        · exact hb
      · split
        · rw [record_length]; exact hb
        · exact hb
    · rfl

theorem addGood_mono (minLen maxLen : Nat) (j : Nat) (π : NSeq) (H : Shading) (L : Nat) :
    ∀ (τ : NSeq) (sh : Shading) (loc : Nat) (gp : List Level),
      Covers gp j π H → Covers (addGood minLen maxLen L τ sh loc gp) j π H := by
  induction L with
  | zero => intro τ sh loc gp h; simpa [addGood] using h
  | succ L ih =>
    intro τ sh loc gp h
    simp only [addGood]
    split
    · refine foldl_preserves (fun g : List Level => Covers g j π H) _ _ ?_ gp h
      intro b a _ hb
      split
      · apply ih; split
        · exact record_mono _ _ _ _ _ _ _ hb
        · exact hb
      · split
        · exact record_mono _ _ _ _ _ _ _ hb
        · exact hb
    · exact h

end Model.C17
