import PermutaModel.Lemmas.C18Rot

/-! Four rotations are the identity; mesh patterns up to equality of shading *sets*. -/

namespace Spec.C18
open Model Model.C18

/-- same pattern, same set of shaded cells -/
def MeshEq (μ ν : Mesh) : Prop := μ.pattern = ν.pattern ∧ ∀ c, c ∈ μ.shading ↔ c ∈ ν.shading

theorem MeshEq.refl (μ : Mesh) : MeshEq μ μ := ⟨rfl, fun _ => Iff.rfl⟩
theorem MeshEq.symm {μ ν : Mesh} (h : MeshEq μ ν) : MeshEq ν μ := ⟨h.1.symm, fun c => (h.2 c).symm⟩
theorem MeshEq.trans {μ ν ρ : Mesh} (h : MeshEq μ ν) (h' : MeshEq ν ρ) : MeshEq μ ρ :=
  ⟨h.1.trans h'.1, fun c => (h.2 c).trans (h'.2 c)⟩

theorem MeshEq.contains {μ ν : Mesh} (h : MeshEq μ ν) {σ : NSeq} (hc : MeshContains σ μ) :
    MeshContains σ ν := by
  obtain ⟨c, hocc, hfree⟩ := hc
  exact ⟨c, h.1 ▸ hocc, fun i hi hic hm => hfree i hi hic ((h.2 _).mpr hm)⟩

theorem MeshEq.rot {μ ν : Mesh} (h : MeshEq μ ν) : MeshEq (rotMesh μ) (rotMesh ν) := by
  refine ⟨by simp [rotMesh, h.1], fun c => ?_⟩
  unfold rotMesh
  simp only [List.mem_map, mlen, h.1]
  constructor
  · rintro ⟨d, hd, rfl⟩; exact ⟨d, (h.2 d).mp hd, rfl⟩
  · rintro ⟨d, hd, rfl⟩; exact ⟨d, (h.2 d).mpr hd, rfl⟩

theorem MeshEq.valid {μ ν : Mesh} (h : MeshEq μ ν) (hv : ValidMesh μ) : ValidMesh ν :=
  ⟨h.1 ▸ hv.1, fun c hc => h.1 ▸ hv.2 c ((h.2 c).mpr hc)⟩

theorem rotMesh_valid {μ : Mesh} (hμ : ValidMesh μ) : ValidMesh (rotMesh μ) := by
  refine ⟨rotate1_isPerm hμ.1, ?_⟩
  intro c hc
  unfold rotMesh at hc ⊢
  simp only [List.mem_map] at hc
  obtain ⟨d, hd, rfl⟩ := hc
  have := hμ.2 d hd
  simp only [rotate1_length, mlen]
  omega

/-- `shade` commutes with the rotation (as sets of cells) -/
theorem shade_rot (μ : Mesh) (pos : Cell) :
    MeshEq (shade (rotMesh μ) [(pos.2, mlen μ - pos.1)]) (rotMesh (shade μ [pos])) := by
  refine ⟨rfl, fun c => ?_⟩
  unfold rotMesh shade
  simp only [mem_union, List.mem_map, List.mem_singleton, mlen]
  constructor
  · rintro (⟨d, hd, rfl⟩ | rfl)
    · exact ⟨d, Or.inl hd, rfl⟩
    · exact ⟨pos, Or.inr rfl, rfl⟩
  · rintro ⟨d, hd | rfl, rfl⟩
    · exact Or.inl ⟨d, hd, rfl⟩
    · exact Or.inr rfl

/-! ### four rotations -/

theorem idxOf_rotate1 {q : NSeq} (hq : IsPerm q) {w : Nat} (hw : w < q.length) :
    (rotate1 q).idxOf w = q.getD (q.length - 1 - w) 0 := by
  have hk : q.length - 1 - w < q.length := by omega
  have hv := hq.getD_lt hk
  have h1 : (rotate1 q).getD (q.getD (q.length - 1 - w) 0) 0 = w := by
    rw [rotate1_at_value hq hk]; omega
  have := idxOf_getD (rotate1_isPerm hq).1 (k := q.getD (q.length - 1 - w) 0) (by rw [rotate1_length]; exact hv)
  rw [h1] at this
  exact this

theorem rotate1_four {p : NSeq} (hp : IsPerm p) : rotate1 (rotate1 (rotate1 (rotate1 p))) = p := by
  have h1 := rotate1_isPerm hp
  have h2 := rotate1_isPerm h1
  have h3 := rotate1_isPerm h2
  have l1 := rotate1_length p
  have l2 := rotate1_length (rotate1 p)
  have l3 := rotate1_length (rotate1 (rotate1 p))
  have l4 := rotate1_length (rotate1 (rotate1 (rotate1 p)))
  apply List.ext_getElem (by omega)
  intro v hv1 hv2
  rw [← getD_eq_getElem' _ hv1, ← getD_eq_getElem' _ hv2]
  have e4 := rotate1_getD (rotate1 (rotate1 (rotate1 p))) (v := v) (by omega)
  have i3 := idxOf_rotate1 h2 (w := v) (by omega)
  have e2 := rotate1_getD (rotate1 p) (v := p.length - 1 - v) (by omega)
  have i1 := idxOf_rotate1 hp (w := p.length - 1 - v) (by omega)
  have hb := hp.getD_lt hv2
  rw [e4, i3, l3, l2, l1, e2, i1, l1]
  have : p.length - 1 - (p.length - 1 - v) = v := by omega
  rw [this]
  omega

theorem rotMesh_four {μ : Mesh} (hμ : ValidMesh μ) :
    MeshEq (rotMesh (rotMesh (rotMesh (rotMesh μ)))) μ := by
  refine ⟨rotate1_four hμ.1, fun c => ?_⟩
  simp only [rotMesh, mlen, rotate1_length, List.map_map, List.mem_map, Function.comp]
  constructor
  · rintro ⟨d, hd, rfl⟩
    have := hμ.2 d hd
    have e1 : μ.pattern.length - (μ.pattern.length - d.1) = d.1 := by omega
    have e2 : μ.pattern.length - (μ.pattern.length - d.2) = d.2 := by omega
    rw [e1, e2]; exact hd
  · intro hc
    have := hμ.2 c hc
    refine ⟨c, hc, ?_⟩
    have e1 : μ.pattern.length - (μ.pattern.length - c.1) = c.1 := by omega
    have e2 : μ.pattern.length - (μ.pattern.length - c.2) = c.2 := by omega
    rw [e1, e2]

/-! ### iterated rotation -/

def rotMeshN : Nat → Mesh → Mesh
  | 0, μ => μ
  | k + 1, μ => rotMeshN k (rotMesh μ)

def rotPermN : Nat → NSeq → NSeq
  | 0, σ => σ
  | k + 1, σ => rotPermN k (rotate1 σ)

def rotCellN (n : Nat) : Nat → Cell → Cell
  | 0, c => c
  | k + 1, c => rotCellN n k (c.2, n - c.1)

theorem rotMeshN_valid : ∀ (k : Nat) {μ : Mesh}, ValidMesh μ → ValidMesh (rotMeshN k μ)
  | 0, _, h => h
  | k + 1, _, h => rotMeshN_valid k (rotMesh_valid h)

theorem rotPermN_isPerm : ∀ (k : Nat) {σ : NSeq}, IsPerm σ → IsPerm (rotPermN k σ)
  | 0, _, h => h
  | k + 1, _, h => rotPermN_isPerm k (rotate1_isPerm h)

theorem rotMeshN_mlen : ∀ (k : Nat) (μ : Mesh), mlen (rotMeshN k μ) = mlen μ
  | 0, _ => rfl
  | k + 1, μ => by rw [rotMeshN, rotMeshN_mlen k]; simp [rotMesh, mlen, rotate1_length]

theorem MeshEq.rotN : ∀ (k : Nat) {μ ν : Mesh}, MeshEq μ ν → MeshEq (rotMeshN k μ) (rotMeshN k ν)
  | 0, _, _, h => h
  | k + 1, _, _, h => MeshEq.rotN k h.rot

theorem rotN_contains : ∀ (k : Nat) {μ : Mesh} {σ : NSeq}, ValidMesh μ → IsPerm σ →
    MeshContains σ μ → MeshContains (rotPermN k σ) (rotMeshN k μ)
  | 0, _, _, _, _, h => h
  | k + 1, _, _, hμ, hσ, ⟨_, hc⟩ =>
    rotN_contains k (rotMesh_valid hμ) (rotate1_isPerm hσ) ⟨_, rot_step hμ hσ hc⟩

theorem rotMeshN_add : ∀ (j k : Nat) (μ : Mesh), rotMeshN k (rotMeshN j μ) = rotMeshN (j + k) μ
  | 0, k, μ => by simp [rotMeshN]
  | j + 1, k, μ => by rw [rotMeshN, rotMeshN_add j k, show j + 1 + k = (j + k) + 1 by omega, rotMeshN]

theorem rotPermN_add : ∀ (j k : Nat) (σ : NSeq), rotPermN k (rotPermN j σ) = rotPermN (j + k) σ
  | 0, k, σ => by simp [rotPermN]
  | j + 1, k, σ => by rw [rotPermN, rotPermN_add j k, show j + 1 + k = (j + k) + 1 by omega, rotPermN]

/-- `shade` commutes with `k` rotations -/
theorem shade_rotN : ∀ (k : Nat) (μ : Mesh) (pos : Cell),
    MeshEq (shade (rotMeshN k μ) [rotCellN (mlen μ) k pos]) (rotMeshN k (shade μ [pos]))
  | 0, μ, pos => MeshEq.refl _
  | k + 1, μ, pos => by
    have h1 := shade_rotN k (rotMesh μ) (pos.2, mlen μ - pos.1)
    have h2 : mlen (rotMesh μ) = mlen μ := by simp [rotMesh, mlen, rotate1_length]
    rw [h2] at h1
    exact h1.trans (MeshEq.rotN k (shade_rot μ pos))

/-- **rotation transport of a one-cell shading**: if shading the rotated cell is harmless for the
    `j`-fold rotated pattern (`j ≤ 4`), shading the cell is harmless for the pattern -/
theorem shade_sound_of_rot {μ : Mesh} (hμ : ValidMesh μ) {pos : Cell}
    (hpos : pos.1 ≤ mlen μ ∧ pos.2 ≤ mlen μ) {j : Nat} (hj : j ≤ 4)
    (hstep : ∀ τ, IsPerm τ → MeshContains τ (rotMeshN j μ) →
      MeshContains τ (shade (rotMeshN j μ) [rotCellN (mlen μ) j pos]))
    {σ : NSeq} (hσ : IsPerm σ) (h : MeshContains σ μ) : MeshContains σ (shade μ [pos]) := by
  have hval : ValidMesh (shade μ [pos]) := by
    refine ⟨hμ.1, fun c hc => ?_⟩
    rcases mem_union.mp hc with hc | hc
    · exact hμ.2 c hc
    · simp only [List.mem_singleton] at hc; subst hc; exact hpos
  have h1 := rotN_contains j hμ hσ h
  have h2 := hstep _ (rotPermN_isPerm j hσ) h1
  have h3 := (shade_rotN j μ pos).contains h2
  have h4 := rotN_contains (4 - j) (rotMeshN_valid j hval) (rotPermN_isPerm j hσ) h3
  rw [rotMeshN_add, rotPermN_add, show j + (4 - j) = 4 by omega] at h4
  have e1 : rotPermN 4 σ = σ := rotate1_four hσ
  rw [e1] at h4
  exact (show MeshEq (rotMeshN 4 (shade μ [pos])) (shade μ [pos]) from rotMesh_four hval).contains h4

end Spec.C18
