import PermutaModel.Lemmas.C18Count
import PermutaModel.Props.C01

/-! Bridge: the executable `Model.containsMesh` (the scan of `MeshPatt._occurrences_in_perm`)
    decides `Spec.C18.MeshContains`. -/

namespace Spec.C18
open Model

theorem countP_succ (c : List Nat) (k : Nat) :
    c.countP (fun j => decide (j < k + 1)) = c.countP (fun j => decide (j < k)) + c.count k := by
  induction c with
  | nil => simp
  | cons h t ih =>
    rw [List.countP_cons, List.countP_cons, List.count_cons, ih]
    by_cases h1 : h < k
    · have : h < k + 1 := by omega
      have h2 : ¬ h = k := by omega
      simp [h1, this, h2]; omega
    · by_cases h2 : h = k
      · subst h2; simp
        omega
      · have : ¬ h < k + 1 := by omega
        simp [h1, this, h2]

theorem colOf_succ {c : List Nat} (hc : c.Nodup) (k : Nat) :
    colOf c (k + 1) = colOf c k + (if k ∈ c then 1 else 0) := by
  show c.countP _ = c.countP _ + _
  rw [countP_succ]
  by_cases h : k ∈ c
  · rw [if_pos h, List.count_eq_one_of_mem hc h]
  · rw [if_neg h, List.count_eq_zero_of_not_mem h]

theorem colOf_zero (c : List Nat) : colOf c 0 = 0 := by
  show c.countP _ = 0
  rw [List.countP_eq_zero]; intro a _; simp

/-- the scan from position `k` on checks exactly the non-occurrence points at positions `≥ k` -/
theorem meshScan_iff {σ : NSeq} {c : List Nat} (R : List Cell) (hσ : σ.Nodup) (hcn : c.Nodup)
    (hrng : ∀ i ∈ c, i < σ.length) : ∀ (m k : Nat), k + m = σ.length →
    (meshScan R (c.map fun i => σ.getD i 0) (σ.drop k) (colOf c k) = true ↔
      ∀ i, k ≤ i → i < σ.length → i ∉ c → cellOf σ c i ∉ R)
  | 0, k, hk => by
    rw [List.drop_of_length_le (by omega)]
    simp only [meshScan, true_iff]
    intro i h1 h2; omega
  | m + 1, k, hk => by
    have hkl : k < σ.length := by omega
    rw [List.drop_eq_getElem_cons hkl]
    unfold meshScan
    have hcont : (c.map fun i => σ.getD i 0).contains σ[k] = true ↔ k ∈ c := by
      rw [List.contains_iff_mem, List.mem_map]
      constructor
      · rintro ⟨j, hj, h⟩
        rw [← getD_eq_getElem' σ hkl] at h
        have := (List.Nodup.getElem_inj_iff hσ).mp
          (by rw [← getD_eq_getElem' σ (hrng j hj), ← getD_eq_getElem' σ hkl]; exact h :
            σ[j]'(hrng j hj) = σ[k])
        exact this ▸ hj
      · intro h; exact ⟨k, h, getD_eq_getElem' σ hkl⟩
    have ih := meshScan_iff R hσ hcn hrng m (k + 1) (by omega)
    have hrow : ((c.map fun i => σ.getD i 0).filter fun x => decide (x < σ[k])).length = rowOf σ c k := by
      rw [← List.countP_eq_length_filter, List.countP_map]
      show _ = c.countP _
      rw [getD_eq_getElem' σ hkl]; rfl
    by_cases hkc : k ∈ c
    · rw [if_pos (hcont.mpr hkc)]
      have := colOf_succ hcn k
      rw [if_pos hkc] at this
      rw [← this, ih]
      constructor
      · intro h i h1 h2 h3
        have : i ≠ k := fun e => h3 (e ▸ hkc)
        exact h i (by omega) h2 h3
      · intro h i h1 h2 h3; exact h i (by omega) h2 h3
    · have hnc : ¬ (c.map fun i => σ.getD i 0).contains σ[k] = true := fun h => hkc (hcont.mp h)
      rw [if_neg hnc, hrow]
      have this : colOf c (k + 1) = colOf c k := by
        have := colOf_succ hcn k
        rw [if_neg hkc] at this; omega
      by_cases hsh : R.contains (colOf c k, rowOf σ c k) = true
      · rw [if_pos hsh]
        simp only [Bool.false_eq_true, false_iff]
        intro h
        exact h k (Nat.le_refl _) hkl hkc (by rw [cellOf_eq]; simpa using hsh)
      · rw [if_neg hsh, ← this, ih]
        constructor
        · intro h i h1 h2 h3
          by_cases e : i = k
          · subst e; rw [cellOf_eq]; simpa using hsh
          · exact h i (by omega) h2 h3
        · intro h i h1 h2 h3; exact h i (by omega) h2 h3

/-- **the model of `Perm.contains(mesh)` / `MeshPatt` avoidance decides mesh containment** -/
theorem containsMesh_iff {μ : Mesh} (hμ : IsPerm μ.pattern) {σ : NSeq} (hσ : IsPerm σ) :
    Model.containsMesh σ μ = true ↔ MeshContains σ μ := by
  unfold Model.containsMesh Model.meshOccInPerm MeshContains
  rw [Bool.not_eq_true', List.isEmpty_eq_false_iff_exists_mem]
  constructor
  · rintro ⟨c, hc⟩
    rw [List.mem_filter] at hc
    have hocc := (C01.mem_occurrencesIn_iff μ.pattern σ hμ hσ c).mp hc.1
    have hnd : c.Nodup := hocc.inc.imp (fun h => Nat.ne_of_lt h)
    have := (meshScan_iff μ.shading hσ.1 hnd hocc.rng σ.length 0 (by omega)).mp
      (by rw [colOf_zero]; simpa using hc.2)
    exact ⟨c, hocc, fun i hi hic => this i (Nat.zero_le _) hi hic⟩
  · rintro ⟨c, hocc, hfree⟩
    have hnd : c.Nodup := hocc.inc.imp (fun h => Nat.ne_of_lt h)
    refine ⟨c, List.mem_filter.mpr ⟨(C01.mem_occurrencesIn_iff μ.pattern σ hμ hσ c).mpr hocc, ?_⟩⟩
    have := (meshScan_iff μ.shading hσ.1 hnd hocc.rng σ.length 0 (by omega)).mpr
      (fun i _ hi hic => hfree i hi hic)
    rw [colOf_zero] at this
    simpa using this

end Spec.C18
