import PermutaModel.Lemmas.C08Dispatch
/-! Hash lemmas for the `__hash__` bodies generated from the current source. -/
open Model Model.C08 Generated

namespace C08

/-- every mesh-type class ends up with the value hash `hash((self.pattern, self.shading))` -/
theorem hashAtom_mesh (m : MObj) (hm : IsMeshCls m.cls) (n : Nat) : hashAtom n (.mesh m) = .ok (meshValKey m) := by
  obtain ⟨c, p, s⟩ := m
  simp only at hm
  rcases hm with rfl | rfl | rfl | rfl <;> rfl

/-- every pattern has a history-independent hash -/
theorem atomStable_wf (a : Atom) (hwf : Atom.WF a) : atomStable a = true := by
  cases a with
  | perm p => rfl
  | mesh m =>
    obtain ⟨c, p, s⟩ := m
    simp only [Atom.WF] at hwf
    rcases hwf with rfl | rfl | rfl | rfl <;> rfl

theorem atomStable_perm (p : NSeq) : atomStable (.perm p) = true := rfl

theorem hashAtom_indep (a : Atom) (hs : atomStable a = true) (n n' : Nat) : hashAtom n a = hashAtom n' a := by
  unfold atomStable at hs
  unfold hashAtom
  cases hk : hashKind a.cls <;> simp only [hk] at hs ⊢ <;> first | rfl | (cases a <;> rfl) | exact absurd hs (by decide)

theorem hashItems_indep : ∀ (xs : List Atom), xs.all atomStable = true → ∀ h h' : AllocHistory,
    hashItems h xs = hashItems h' xs
  | [], _, _, _ => rfl
  | x :: xs, hs, h, h' => by
    simp only [List.all_cons, Bool.and_eq_true] at hs
    simp only [hashItems, hashAtom_indep x hs.1 (h.headD 0) (h'.headD 0), hashItems_indep xs hs.2 h.tail h'.tail]

/-- a `stable` object's hash does not depend on the allocation history -/
theorem hash_indep (x : Obj) (hs : stable x = true) (h h' : AllocHistory) : Model.C08.hash h x = Model.C08.hash h' x := by
  cases x with
  | atom a => exact hashAtom_indep a hs _ _
  | basis es =>
    have hk : hashKind (Obj.basis es).cls = .tuple := rfl
    simp only [stable, hk, Obj.items] at hs
    simp only [Model.C08.hash, hk, Obj.items, hashItems_indep _ hs h h']
  | mbasis es =>
    have hk : hashKind (Obj.mbasis es).cls = .tuple := rfl
    simp only [stable, hk, Obj.items] at hs
    simp only [Model.C08.hash, hk, Obj.items, hashItems_indep _ hs h h']

theorem hashItems_meshes_eq : ∀ (xs ys : List MObj), (∀ m ∈ xs, IsMeshCls m.cls) → (∀ m ∈ ys, IsMeshCls m.cls) →
    meshListEq xs ys = true → ∀ h, hashItems h (xs.map Atom.mesh) = hashItems h (ys.map Atom.mesh)
  | [], [], _, _, _, _ => rfl
  | [], _ :: _, _, _, he, _ => by simp [meshListEq] at he
  | _ :: _, [], _, _, he, _ => by simp [meshListEq] at he
  | x :: xs, y :: ys, hx, hy, he, h => by
    simp only [meshListEq, Bool.and_eq_true] at he
    have hx0 := hx x (List.mem_cons_self ..)
    have hy0 := hy y (List.mem_cons_self ..)
    have ih := hashItems_meshes_eq xs ys (fun m hm => hx m (List.mem_cons_of_mem _ hm))
      (fun m hm => hy m (List.mem_cons_of_mem _ hm)) he.2 h.tail
    obtain ⟨e1, e2⟩ := (meshKeyEq_iff _ _).mp he.1
    have hk : meshValKey x = meshValKey y := by simp only [meshValKey, e1, e2]
    simp only [List.map_cons, hashItems, hashAtom_mesh x hx0, hashAtom_mesh y hy0, hk, ih]

/-- every object has a history-independent hash -/
theorem stable_wf (x : Obj) (hwf : Obj.WF x) : stable x = true := by
  cases x with
  | atom a => exact atomStable_wf a hwf
  | basis es =>
    simp only [stable, Obj.items, show hashKind (Obj.basis es).cls = .tuple from rfl, List.all_map, List.all_eq_true]
    intro x _; rfl
  | mbasis es =>
    simp only [stable, Obj.items, show hashKind (Obj.mbasis es).cls = .tuple from rfl, List.all_map, List.all_eq_true]
    intro m hm
    exact atomStable_wf (.mesh m) (hwf m hm)

/-- every object of the universe is hashable at this commit -/
theorem hashAtom_ok (a : Atom) (hwf : Atom.WF a) (n : Nat) : ∃ k, hashAtom n a = .ok k := by
  cases a with
  | perm p => exact ⟨_, rfl⟩
  | mesh m =>
    obtain ⟨c, p, s⟩ := m
    simp only [Atom.WF] at hwf
    rcases hwf with rfl | rfl | rfl | rfl <;> exact ⟨_, rfl⟩

theorem hashItems_perms_ok : ∀ (xs : List NSeq) (h : AllocHistory), ∃ k, hashItems h (xs.map Atom.perm) = .ok k
  | [], _ => ⟨_, rfl⟩
  | x :: xs, h => by
    obtain ⟨k, hk⟩ := hashItems_perms_ok xs h.tail
    exact ⟨permKey x ++ .sep :: k, by simp only [List.map_cons, hashItems, hk]; rfl⟩

theorem hashItems_meshes_ok : ∀ (ys : List MObj), (∀ m ∈ ys, IsMeshCls m.cls) → ∀ (h : AllocHistory),
    ∃ k, hashItems h (ys.map Atom.mesh) = .ok k
  | [], _, _ => ⟨_, rfl⟩
  | y :: ys, hy, h => by
    obtain ⟨k, hk⟩ := hashItems_meshes_ok ys (fun m hm => hy m (List.mem_cons_of_mem _ hm)) h.tail
    exact ⟨meshValKey y ++ .sep :: k, by simp only [List.map_cons, hashItems, hashAtom_mesh y (hy y (List.mem_cons_self ..)), hk]⟩

theorem beq_symm' {α : Type} [BEq α] [LawfulBEq α] (a b : α) : (a == b) = (b == a) := by
  rw [Bool.eq_iff_iff]
  simp only [beq_iff_eq]
  exact ⟨Eq.symm, Eq.symm⟩

/-- all address tokens of a key are `.addr c` -/
def AddrOnly (c : Nat) (k : HashKey) : Prop := ∀ m, HTok.addr m ∈ k → m = c

theorem addrOnly_permKey (c : Nat) (p : NSeq) : AddrOnly c (permKey p) := by
  intro m hm
  simp [permKey] at hm

theorem addrOnly_meshValKey (c : Nat) (x : MObj) : AddrOnly c (meshValKey x) := by
  intro m hm
  simp [meshValKey, permKey] at hm

theorem hashAtom_addrOnly (n : Nat) (a : Atom) (k : HashKey) (h : hashAtom n a = .ok k) : AddrOnly n k := by
  unfold hashAtom at h
  split at h <;> try (cases h)
  all_goals first
    | (intro m hm; simp at hm; exact hm)
    | exact addrOnly_permKey n _
    | exact addrOnly_meshValKey n _

/-- an unstable pattern's hash is exactly the address of the temporary -/
theorem hashAtom_unstable (n : Nat) (a : Atom) (hu : atomStable a = false) : hashAtom n a = .ok [.addr n] := by
  unfold atomStable at hu
  unfold hashAtom
  cases hk : hashKind a.cls <;> simp only [hk] at hu ⊢ <;> first | rfl | exact absurd hu (by decide)

/-- a stable pattern's key has no address token at all -/
theorem hashAtom_stable_noaddr (n : Nat) (a : Atom) (hs : atomStable a = true) (k : HashKey)
    (h : hashAtom n a = .ok k) : ∀ m, HTok.addr m ∉ k := by
  intro m hm
  have h0 := hashAtom_addrOnly 0 a k (by rw [← h]; exact hashAtom_indep a hs 0 n)
  have h1 := hashAtom_addrOnly 1 a k (by rw [← h]; exact hashAtom_indep a hs 1 n)
  have := h0 m hm
  have := h1 m hm
  omega

theorem hashItems_addrOnly (c : Nat) : ∀ (xs : List Atom) (N : Nat) (k : HashKey), xs.length ≤ N →
    hashItems (List.replicate N c) xs = .ok k → AddrOnly c k
  | [], _, k, _, h => by
    simp only [hashItems] at h
    cases h
    intro m hm; simp at hm
  | x :: xs, N, k, hN, h => by
    obtain ⟨N', rfl⟩ : ∃ N', N = N' + 1 := ⟨N - 1, by simp at hN; omega⟩
    simp only [hashItems, List.replicate_succ, List.headD_cons, List.tail_cons] at h
    cases h1 : hashAtom c x with
    | error e => simp [h1] at h
    | ok k1 =>
      cases h2 : hashItems (List.replicate N' c) xs with
      | error e => simp [h1, h2] at h
      | ok k2 =>
        simp only [h1, h2] at h
        cases h
        intro m hm
        simp only [List.mem_append, List.mem_cons] at hm
        rcases hm with hm | hm | hm
        · exact hashAtom_addrOnly c x k1 h1 m hm
        · cases hm
        · exact hashItems_addrOnly c xs N' k2 (by simp at hN; omega) h2 m hm

theorem hashItems_has_addr (c : Nat) : ∀ (xs : List Atom) (N : Nat) (k : HashKey), xs.length ≤ N →
    xs.all atomStable = false → hashItems (List.replicate N c) xs = .ok k → HTok.addr c ∈ k
  | [], _, _, _, hu, _ => by simp at hu
  | x :: xs, N, k, hN, hu, h => by
    obtain ⟨N', rfl⟩ : ∃ N', N = N' + 1 := ⟨N - 1, by simp at hN; omega⟩
    simp only [hashItems, List.replicate_succ, List.headD_cons, List.tail_cons] at h
    cases h1 : hashAtom c x with
    | error e => simp [h1] at h
    | ok k1 =>
      cases h2 : hashItems (List.replicate N' c) xs with
      | error e => simp [h1, h2] at h
      | ok k2 =>
        simp only [h1, h2] at h
        cases h
        cases hx : atomStable x with
        | false =>
          rw [hashAtom_unstable c x hx] at h1
          cases h1
          simp
        | true =>
          have : xs.all atomStable = false := by simpa [hx] using hu
          have := hashItems_has_addr c xs N' k2 (by simp at hN; omega) this h2
          simp [this]

/-- how many temporaries a hash computation may create -/
def Obj.size : Obj → Nat
  | .atom _ => 1
  | .basis es => es.length
  | .mbasis es => es.length

theorem hash_addrOnly (c N : Nat) (x : Obj) (k : HashKey) (hN : Obj.size x < N)
    (h : Model.C08.hash (List.replicate N c) x = .ok k) : AddrOnly c k := by
  obtain ⟨N', rfl⟩ : ∃ N', N = N' + 1 := ⟨N - 1, by omega⟩
  cases x with
  | atom a =>
    simp only [Model.C08.hash, List.replicate_succ, List.headD_cons] at h
    exact hashAtom_addrOnly c a k h
  | basis es =>
    have hk : hashKind (Obj.basis es).cls = .tuple := rfl
    simp only [Model.C08.hash, hk, Obj.items] at h
    cases h2 : hashItems (List.replicate (N'+1) c) (es.map Atom.perm) with
    | error e => simp [h2] at h
    | ok k2 =>
      simp only [h2] at h
      cases h
      intro m hm
      simp only [List.mem_cons] at hm
      rcases hm with hm | hm
      · cases hm
      · exact hashItems_addrOnly c _ _ k2 (by simp [Obj.size] at hN ⊢; omega) h2 m hm
  | mbasis es =>
    have hk : hashKind (Obj.mbasis es).cls = .tuple := rfl
    simp only [Model.C08.hash, hk, Obj.items] at h
    cases h2 : hashItems (List.replicate (N'+1) c) (es.map Atom.mesh) with
    | error e => simp [h2] at h
    | ok k2 =>
      simp only [h2] at h
      cases h
      intro m hm
      simp only [List.mem_cons] at hm
      rcases hm with hm | hm
      · cases hm
      · exact hashItems_addrOnly c _ _ k2 (by simp [Obj.size] at hN ⊢; omega) h2 m hm

theorem hash_has_addr (c N : Nat) (x : Obj) (k : HashKey) (hN : Obj.size x < N) (hu : stable x = false)
    (h : Model.C08.hash (List.replicate N c) x = .ok k) : HTok.addr c ∈ k := by
  obtain ⟨N', rfl⟩ : ∃ N', N = N' + 1 := ⟨N - 1, by omega⟩
  cases x with
  | atom a =>
    simp only [Model.C08.hash, List.replicate_succ, List.headD_cons] at h
    rw [hashAtom_unstable c a hu] at h
    cases h
    simp
  | basis es =>
    have hs : stable (.basis es) = true := by
      simp only [stable, Obj.items, show hashKind (Obj.basis es).cls = .tuple from rfl, List.all_map, List.all_eq_true]
      intro x _; rfl
    rw [hs] at hu; exact absurd hu (by decide)
  | mbasis es =>
    have hk : hashKind (Obj.mbasis es).cls = .tuple := rfl
    simp only [stable, hk, Obj.items] at hu
    simp only [Model.C08.hash, hk, Obj.items] at h
    cases h2 : hashItems (List.replicate (N'+1) c) (es.map Atom.mesh) with
    | error e => simp [h2] at h
    | ok k2 =>
      simp only [h2] at h
      cases h
      have := hashItems_has_addr c _ _ k2 (by simp [Obj.size] at hN ⊢; omega) hu h2
      simp [this]

end C08
