import PermutaModel.Spec.C15
import Mathlib.Data.List.Induction
/-!
Language of the model NFA of `make_nfa_for_pinword`.

`Reach E w q` = state `q` is in the subset reached from `{0}` on `w`.  The proof never follows
paths: it uses the snoc unfolding of the subset simulation (a state is reached on `w·c` iff some
predecessor along a `c`-edge is reached on `w`), the fact that every stage of the construction
only adds edges *into new states*, and an `A*` lemma for a state whose incoming edges are its
loops plus finitely many entry edges.
-/
namespace C15Nfa
open Model.C15 Spec.C15

abbrev Edges := List (Nat × Char × Nat)

def Reach (E : Edges) (w : Word) (q : Nat) : Prop := q ∈ nfaRun E [0] w

theorem mem_dedupNat (x : Nat) (l : List Nat) : x ∈ dedupNat l ↔ x ∈ l := by
  induction l with
  | nil => simp [dedupNat]
  | cons y ys ih =>
    by_cases h : y ∈ ys
    · simp only [dedupNat, List.contains_iff_mem, h, if_true, ih, List.mem_cons]
      constructor
      · exact Or.inr
      · rintro (rfl | h')
        · exact h
        · exact h'
    · simp [dedupNat, h, ih]

theorem mem_nfaStep (E : Edges) (S : List Nat) (c : Char) (q : Nat) :
    q ∈ nfaStep E S c ↔ ∃ p, p ∈ S ∧ (p, c, q) ∈ E := by
  unfold nfaStep
  rw [mem_dedupNat]
  simp only [List.mem_map, List.mem_filter, Bool.and_eq_true, List.contains_iff_mem, beq_iff_eq]
  constructor
  · rintro ⟨⟨p, c', q'⟩, ⟨he, hp, hc⟩, hq⟩
    simp at hp hc hq
    subst hc; subst hq
    exact ⟨p, hp, he⟩
  · rintro ⟨p, hp, he⟩
    exact ⟨(p, c, q), ⟨he, by simpa using hp, rfl⟩, rfl⟩

theorem reach_nil (E : Edges) (q : Nat) : Reach E [] q ↔ q = 0 := by
  simp [Reach, nfaRun]

theorem reach_snoc (E : Edges) (w : Word) (c : Char) (q : Nat) :
    Reach E (w ++ [c]) q ↔ ∃ p, Reach E w p ∧ (p, c, q) ∈ E := by
  unfold Reach nfaRun
  rw [List.foldl_append]
  simp only [List.foldl_cons, List.foldl_nil]
  exact mem_nfaStep E _ c q

/-- all edges stay below `n` -/
def EdgesBelow (E : Edges) (n : Nat) : Prop := ∀ e ∈ E, e.1 < n ∧ e.2.2 < n

theorem below_tgt {E : Edges} {n p q : Nat} {x : Char} (h : EdgesBelow E n) (he : (p, x, q) ∈ E) : q < n :=
  (h _ he).2

theorem below_src {E : Edges} {n p q : Nat} {x : Char} (h : EdgesBelow E n) (he : (p, x, q) ∈ E) : p < n :=
  (h _ he).1

/-- adding edges whose targets are new states does not change what is reached among the old states -/
theorem reach_extend (E N : Edges) (n : Nat) (hE : EdgesBelow E n) (hN : ∀ e ∈ N, n ≤ e.2.2)
    (w : Word) : ∀ q, q < n → (Reach (E ++ N) w q ↔ Reach E w q) := by
  induction w using List.reverseRecOn with
  | nil => intro q _; simp [reach_nil]
  | append_singleton w c ih =>
    intro q hq
    rw [reach_snoc, reach_snoc]
    constructor
    · rintro ⟨p, hp, he⟩
      rcases List.mem_append.mp he with he | he
      · exact ⟨p, (ih p (hE _ he).1).mp hp, he⟩
      · have := hN _ he; simp at this; omega
    · rintro ⟨p, hp, he⟩
      exact ⟨p, (ih p (hE _ he).1).mpr hp, List.mem_append_left _ he⟩

theorem append_eq_snoc {α} (w1 w2 w : List α) (c : α) (h : w1 ++ w2 = w ++ [c]) :
    (w2 = [] ∧ w1 = w ++ [c]) ∨ ∃ w2', w2 = w2' ++ [c] ∧ w = w1 ++ w2' := by
  rcases List.eq_nil_or_concat w2 with rfl | ⟨w2', b, rfl⟩
  · left; simpa using h
  · right
    rw [List.concat_eq_append, ← List.append_assoc] at h
    have := List.append_inj' h rfl
    simp at this
    exact ⟨w2', by rw [List.concat_eq_append, this.2], this.1.symm⟩

theorem astar_nil : AStar [] := by intro c hc; simp at hc

theorem astar_append {w1 w2 : Word} : AStar (w1 ++ w2) ↔ AStar w1 ∧ AStar w2 := by
  unfold AStar
  constructor
  · intro h; exact ⟨fun c hc => h c (by simp [hc]), fun c hc => h c (by simp [hc])⟩
  · rintro ⟨h1, h2⟩ c hc
    rcases List.mem_append.mp hc with hc | hc
    · exact h1 c hc
    · exact h2 c hc

theorem astar_singleton {c : Char} : AStar [c] ↔ c ∈ DIRS := by
  unfold AStar; simp

/-- a state whose incoming edges are exactly its loops on `DIRS` and the entry edges `ent` -/
theorem reach_star (E : Edges) (d : Nat) (ent : List (Nat × Char))
    (hin : ∀ p c, (p, c, d) ∈ E ↔ (p = d ∧ c ∈ DIRS) ∨ (p, c) ∈ ent) (w : Word) :
    Reach E w d ↔ ∃ w1 w2, w = w1 ++ w2 ∧ AStar w2 ∧
      ((w1 = [] ∧ d = 0) ∨ ∃ pc, pc ∈ ent ∧ ∃ w0, w1 = w0 ++ [pc.2] ∧ Reach E w0 pc.1) := by
  induction w using List.reverseRecOn with
  | nil =>
    rw [reach_nil]
    constructor
    · intro h; exact ⟨[], [], rfl, astar_nil, Or.inl ⟨rfl, h⟩⟩
    · rintro ⟨w1, w2, h, _, h3⟩
      have h' := h.symm
      simp at h'
      rcases h3 with ⟨_, hd⟩ | ⟨pc, _, w0, hw, _⟩
      · exact hd
      · rw [h'.1] at hw; simp at hw
  | append_singleton w c ih =>
    rw [reach_snoc]
    constructor
    · rintro ⟨p, hp, he⟩
      rcases (hin p c).mp he with ⟨rfl, hc⟩ | hent
      · obtain ⟨w1, w2, rfl, hA, h3⟩ := ih.mp hp
        refine ⟨w1, w2 ++ [c], by simp, ?_, h3⟩
        exact astar_append.mpr ⟨hA, astar_singleton.mpr hc⟩
      · exact ⟨w ++ [c], [], by simp, astar_nil, Or.inr ⟨(p, c), hent, w, rfl, hp⟩⟩
    · rintro ⟨w1, w2, h, hA, h3⟩
      rcases append_eq_snoc w1 w2 w c h.symm with ⟨rfl, rfl⟩ | ⟨w2', rfl, rfl⟩
      · rcases h3 with ⟨h0, _⟩ | ⟨pc, hpc, w0, hw, hr⟩
        · simp at h0
        · have := List.append_inj' hw rfl
          simp at this
          obtain ⟨rfl, rfl⟩ := this
          exact ⟨pc.1, hr, (hin pc.1 pc.2).mpr (Or.inr hpc)⟩
      · have hA' := astar_append.mp hA
        refine ⟨d, ih.mpr ⟨w1, w2', rfl, hA'.1, h3⟩, (hin d c).mpr (Or.inl ⟨rfl, astar_singleton.mp hA'.2⟩)⟩

/-- a state with a single incoming edge -/
theorem reach_single (E : Edges) (b : Nat) (hb : b ≠ 0) (a : Nat) (x : Char)
    (hin : ∀ p c, (p, c, b) ∈ E ↔ (p = a ∧ c = x)) (w : Word) :
    Reach E w b ↔ ∃ w0, w = w0 ++ [x] ∧ Reach E w0 a := by
  induction w using List.reverseRecOn with
  | nil =>
    rw [reach_nil]
    constructor
    · intro h; exact absurd h hb
    · rintro ⟨w0, h, _⟩; simp at h
  | append_singleton w c _ =>
    rw [reach_snoc]
    constructor
    · rintro ⟨p, hp, he⟩
      obtain ⟨rfl, rfl⟩ := (hin p c).mp he
      exact ⟨w, rfl, hp⟩
    · rintro ⟨w0, h, hr⟩
      have := List.append_inj' h rfl
      simp at this
      obtain ⟨rfl, rfl⟩ := this
      exact ⟨a, hr, (hin a c).mpr ⟨rfl, rfl⟩⟩

/-! ### the invariant of the construction -/

/-- `m` is well formed and its last state is reached exactly on the words of `P` -/
structure Inv (m : NFA) (P : Word → Prop) : Prop where
  pos : 1 ≤ m.n
  below : EdgesBelow m.edges m.n
  lang : ∀ w, Reach m.edges w (m.n - 1) ↔ P w

/-- weaker invariant used inside the chain: some state `pos` is reached exactly on `Q` -/
structure InvAt (m : NFA) (pos : Nat) (Q : Word → Prop) : Prop where
  lt : pos < m.n
  below : EdgesBelow m.edges m.n
  lang : ∀ w, Reach m.edges w pos ↔ Q w

def loops (d : Nat) : Edges := DIRS.map fun x => (d, x, d)

theorem mem_loops (d p q : Nat) (c : Char) : (p, c, q) ∈ loops d ↔ p = d ∧ q = d ∧ c ∈ DIRS := by
  unfold loops
  simp only [List.mem_map, Prod.mk.injEq]
  constructor
  · rintro ⟨x, hx, rfl, rfl, rfl⟩; exact ⟨rfl, rfl, hx⟩
  · rintro ⟨rfl, rfl, hc⟩; exact ⟨c, hc, rfl, rfl, rfl⟩

theorem inv_start : Inv nfaStart AStar := by
  refine ⟨by simp [nfaStart, addAStar], ?_, ?_⟩
  · intro e he
    obtain ⟨p, c, q⟩ := e
    have : (p, c, q) ∈ loops 0 := by simpa [nfaStart, addAStar, loops] using he
    rw [mem_loops] at this
    simp [nfaStart, addAStar, this.1, this.2.1]
  · intro w
    have hE : nfaStart.edges = loops 0 := by simp [nfaStart, addAStar, loops]
    have hn : nfaStart.n - 1 = 0 := by simp [nfaStart, addAStar]
    rw [hn, hE, reach_star (loops 0) 0 [] (by intro p c; simp [mem_loops]) w]
    constructor
    · rintro ⟨w1, w2, rfl, hA, h3⟩
      rcases h3 with ⟨rfl, _⟩ | ⟨pc, hpc, _⟩
      · simpa using hA
      · simp at hpc
    · intro hA; exact ⟨[], w, rfl, hA, Or.inl ⟨rfl, rfl⟩⟩

/-- last step of a chain: a new `A*` state entered from `pos` on `c` -/
theorem invAt_chain_last (m : NFA) (pos : Nat) (Q : Word → Prop) (c : Char) (h : InvAt m pos Q) :
    Inv (addEdge (addAStar m) pos c m.n)
      (fun w => ∃ w0 w2, w = w0 ++ [c] ++ w2 ∧ Q w0 ∧ AStar w2) := by
  have hEdges : (addEdge (addAStar m) pos c m.n).edges = m.edges ++ (loops m.n ++ [(pos, c, m.n)]) := by
    simp [addEdge, addAStar, loops]
  have hn : (addEdge (addAStar m) pos c m.n).n = m.n + 1 := by simp [addEdge, addAStar]
  have hlt := h.lt
  refine ⟨by omega, ?_, ?_⟩
  · intro e he
    rw [hEdges] at he
    rw [hn]
    rcases List.mem_append.mp he with he | he
    · have := h.below e he; omega
    · obtain ⟨p, x, q⟩ := e
      rcases List.mem_append.mp he with he | he
      · rw [mem_loops] at he; simp [he.1, he.2.1]
      · simp at he; simp [he.1, he.2.2]; omega
  · intro w
    rw [hn, hEdges]
    have hnew : ∀ e ∈ loops m.n ++ [(pos, c, m.n)], m.n ≤ e.2.2 := by
      intro e he
      obtain ⟨p, x, q⟩ := e
      rcases List.mem_append.mp he with he | he
      · rw [mem_loops] at he; simp [he.2.1]
      · simp at he; simp [he.2.2]
    have hin : ∀ p x, (p, x, m.n) ∈ m.edges ++ (loops m.n ++ [(pos, c, m.n)]) ↔
        (p = m.n ∧ x ∈ DIRS) ∨ (p, x) ∈ [(pos, c)] := by
      intro p x
      simp only [List.mem_append, mem_loops, List.mem_singleton, Prod.mk.injEq]
      constructor
      · rintro (he | he | he)
        · have := below_tgt h.below he; omega
        · exact Or.inl ⟨he.1, he.2.2⟩
        · exact Or.inr ⟨he.1, he.2.1⟩
      · rintro (⟨rfl, hx⟩ | ⟨rfl, rfl⟩)
        · exact Or.inr (Or.inl (by simp [hx]))
        · exact Or.inr (Or.inr (by simp))
    have : m.n + 1 - 1 = m.n := by omega
    rw [this, reach_star _ m.n [(pos, c)] hin w]
    constructor
    · rintro ⟨w1, w2, rfl, hA, h3⟩
      rcases h3 with ⟨_, h0⟩ | ⟨pc, hpc, w0, rfl, hr⟩
      · omega
      · simp at hpc; subst hpc
        rw [reach_extend m.edges _ m.n h.below hnew w0 pos hlt, h.lang] at hr
        exact ⟨w0, w2, rfl, hr, hA⟩
    · rintro ⟨w0, w2, rfl, hQ, hA⟩
      refine ⟨w0 ++ [c], w2, rfl, hA, Or.inr ⟨(pos, c), by simp, w0, rfl, ?_⟩⟩
      rw [reach_extend m.edges _ m.n h.below hnew w0 pos hlt, h.lang]
      exact hQ

/-- inner step of a chain: a new plain state entered from `pos` on `c` -/
theorem invAt_chain_step (m : NFA) (pos : Nat) (Q : Word → Prop) (c : Char) (h : InvAt m pos Q) :
    InvAt (addEdge (newState m) pos c m.n) m.n (fun w => ∃ w0, w = w0 ++ [c] ∧ Q w0) := by
  have hEdges : (addEdge (newState m) pos c m.n).edges = m.edges ++ [(pos, c, m.n)] := by
    simp [addEdge, newState]
  have hn : (addEdge (newState m) pos c m.n).n = m.n + 1 := by simp [addEdge, newState]
  have hlt := h.lt
  refine ⟨by omega, ?_, ?_⟩
  · intro e he
    rw [hEdges] at he
    rw [hn]
    rcases List.mem_append.mp he with he | he
    · have := h.below e he; omega
    · simp at he; subst he; simp; omega
  · intro w
    rw [hEdges]
    have hnew : ∀ e ∈ [(pos, c, m.n)], m.n ≤ e.2.2 := by
      intro e he; simp at he; subst he; simp
    have hin : ∀ p x, (p, x, m.n) ∈ m.edges ++ [(pos, c, m.n)] ↔ (p = pos ∧ x = c) := by
      intro p x
      simp only [List.mem_append, List.mem_singleton, Prod.mk.injEq]
      constructor
      · rintro (he | he)
        · have := below_tgt h.below he; omega
        · exact ⟨he.1, he.2.1⟩
      · rintro ⟨rfl, rfl⟩; exact Or.inr (by simp)
    rw [reach_single _ m.n (by omega) pos c hin w]
    constructor
    · rintro ⟨w0, rfl, hr⟩
      rw [reach_extend m.edges _ m.n h.below hnew w0 pos hlt, h.lang] at hr
      exact ⟨w0, rfl, hr⟩
    · rintro ⟨w0, rfl, hQ⟩
      refine ⟨w0, rfl, ?_⟩
      rw [reach_extend m.edges _ m.n h.below hnew w0 pos hlt, h.lang]
      exact hQ

theorem inv_chain (x : Word) (hx : x ≠ []) : ∀ (m : NFA) (pos : Nat) (Q : Word → Prop), InvAt m pos Q →
    Inv (addChain m pos x) (fun w => ∃ w0 w2, w = w0 ++ x ++ w2 ∧ Q w0 ∧ AStar w2) := by
  induction x with
  | nil => exact absurd rfl hx
  | cons c t ih =>
    intro m pos Q h
    cases t with
    | nil =>
      simp only [addChain]
      exact invAt_chain_last m pos Q c h
    | cons c' t' =>
      simp only [addChain]
      have h1 := invAt_chain_step m pos Q c h
      have h2 := ih (by simp) _ _ _ h1
      refine ⟨h2.pos, h2.below, ?_⟩
      intro w
      rw [h2.lang]
      constructor
      · rintro ⟨w0, w2, rfl, ⟨w00, rfl, hQ⟩, hA⟩
        exact ⟨w00, w2, by simp, hQ, hA⟩
      · rintro ⟨w0, w2, rfl, hQ, hA⟩
        exact ⟨w0 ++ [c], w2, by simp, ⟨w0, rfl, hQ⟩, hA⟩

theorem inv_to_invAt {m : NFA} {P : Word → Prop} (h : Inv m P) : InvAt m (m.n - 1) P :=
  ⟨by have := h.pos; omega, h.below, h.lang⟩

/-- the two-branch gadget of a lone numeral -/
theorem inv_gadget (m : NFA) (P : Word → Prop) (a1 b1 a2 b2 : Char) (h : Inv m P) :
    Inv (addSp m [[a1, b1], [a2, b2]])
      (fun w => ∃ w0 v w2, w = w0 ++ v ++ w2 ∧ P w0 ∧ v ∈ [[a1, b1], [a2, b2]] ∧ AStar w2) := by
  let N : Edges := loops (m.n + 2) ++
    [(m.n - 1, a1, m.n), (m.n - 1, a2, m.n + 1), (m.n, b1, m.n + 2), (m.n + 1, b2, m.n + 2)]
  have hEdges : (addSp m [[a1, b1], [a2, b2]]).edges = m.edges ++ N := by
    simp [addSp, addAStar, newState, loops, N]
  have hn : (addSp m [[a1, b1], [a2, b2]]).n = m.n + 3 := by simp [addSp, addAStar, newState]
  have hpos := h.pos
  have hmemN : ∀ p x q, (p, x, q) ∈ N ↔ (p = m.n + 2 ∧ q = m.n + 2 ∧ x ∈ DIRS) ∨
      (p = m.n - 1 ∧ x = a1 ∧ q = m.n) ∨ (p = m.n - 1 ∧ x = a2 ∧ q = m.n + 1) ∨
      (p = m.n ∧ x = b1 ∧ q = m.n + 2) ∨ (p = m.n + 1 ∧ x = b2 ∧ q = m.n + 2) := by
    intro p x q
    simp only [N, List.mem_append, mem_loops, List.mem_cons, Prod.mk.injEq, List.not_mem_nil, or_false]
  have hnew : ∀ e ∈ N, m.n ≤ e.2.2 := by
    intro e he
    obtain ⟨p, x, q⟩ := e
    rcases (hmemN p x q).mp he with h' | h' | h' | h' | h' <;> simp <;> omega
  have hold : ∀ w q, q < m.n → (Reach (m.edges ++ N) w q ↔ Reach m.edges w q) :=
    fun w => reach_extend m.edges N m.n h.below hnew w
  refine ⟨by omega, ?_, ?_⟩
  · intro e he
    rw [hEdges] at he
    rw [hn]
    rcases List.mem_append.mp he with he | he
    · have := h.below e he; omega
    · obtain ⟨p, x, q⟩ := e
      rcases (hmemN p x q).mp he with h' | h' | h' | h' | h' <;> simp <;> omega
  · intro w
    rw [hn, hEdges]
    have hb : ∀ w, Reach (m.edges ++ N) w m.n ↔ ∃ w0, w = w0 ++ [a1] ∧ P w0 := by
      intro w
      rw [reach_single _ m.n (by omega) (m.n - 1) a1 ?_ w]
      · constructor
        · rintro ⟨w0, rfl, hr⟩
          exact ⟨w0, rfl, (h.lang w0).mp ((hold w0 _ (by omega)).mp hr)⟩
        · rintro ⟨w0, rfl, hP⟩
          exact ⟨w0, rfl, (hold w0 _ (by omega)).mpr ((h.lang w0).mpr hP)⟩
      · intro p x
        rw [List.mem_append, hmemN]
        constructor
        · rintro (he | h' | h' | h' | h' | h')
          · have := below_tgt h.below he; omega
          · omega
          · exact ⟨h'.1, h'.2.1⟩
          · omega
          · omega
          · omega
        · rintro ⟨rfl, rfl⟩; exact Or.inr (Or.inr (Or.inl (by simp)))
    have hc : ∀ w, Reach (m.edges ++ N) w (m.n + 1) ↔ ∃ w0, w = w0 ++ [a2] ∧ P w0 := by
      intro w
      rw [reach_single _ (m.n + 1) (by omega) (m.n - 1) a2 ?_ w]
      · constructor
        · rintro ⟨w0, rfl, hr⟩
          exact ⟨w0, rfl, (h.lang w0).mp ((hold w0 _ (by omega)).mp hr)⟩
        · rintro ⟨w0, rfl, hP⟩
          exact ⟨w0, rfl, (hold w0 _ (by omega)).mpr ((h.lang w0).mpr hP)⟩
      · intro p x
        rw [List.mem_append, hmemN]
        constructor
        · rintro (he | h' | h' | h' | h' | h')
          · have := below_tgt h.below he; omega
          · omega
          · omega
          · exact ⟨h'.1, h'.2.1⟩
          · omega
          · omega
        · rintro ⟨rfl, rfl⟩; exact Or.inr (Or.inr (Or.inr (Or.inl (by simp))))
    have hin : ∀ p x, (p, x, m.n + 2) ∈ m.edges ++ N ↔
        (p = m.n + 2 ∧ x ∈ DIRS) ∨ (p, x) ∈ [(m.n, b1), (m.n + 1, b2)] := by
      intro p x
      rw [List.mem_append, hmemN]
      simp only [List.mem_cons, Prod.mk.injEq, List.not_mem_nil, or_false]
      constructor
      · rintro (he | h' | h' | h' | h' | h')
        · have := below_tgt h.below he; omega
        · exact Or.inl ⟨h'.1, h'.2.2⟩
        · omega
        · omega
        · exact Or.inr (Or.inl ⟨h'.1, h'.2.1⟩)
        · exact Or.inr (Or.inr ⟨h'.1, h'.2.1⟩)
      · rintro (⟨rfl, hx⟩ | ⟨rfl, rfl⟩ | ⟨rfl, rfl⟩)
        · exact Or.inr (Or.inl (by simp [hx]))
        · exact Or.inr (Or.inr (Or.inr (Or.inr (Or.inl (by simp)))))
        · exact Or.inr (Or.inr (Or.inr (Or.inr (Or.inr (by simp)))))
    have : m.n + 3 - 1 = m.n + 2 := by omega
    rw [this, reach_star _ (m.n + 2) [(m.n, b1), (m.n + 1, b2)] hin w]
    constructor
    · rintro ⟨w1, w2, rfl, hA, h3⟩
      rcases h3 with ⟨_, h0⟩ | ⟨pc, hpc, w0, rfl, hr⟩
      · omega
      · simp at hpc
        rcases hpc with rfl | rfl
        · obtain ⟨w00, rfl, hP⟩ := (hb w0).mp hr
          exact ⟨w00, [a1, b1], w2, by simp, hP, by simp, hA⟩
        · obtain ⟨w00, rfl, hP⟩ := (hc w0).mp hr
          exact ⟨w00, [a2, b2], w2, by simp, hP, by simp, hA⟩
    · rintro ⟨w0, v, w2, rfl, hP, hv, hA⟩
      simp at hv
      rcases hv with rfl | rfl
      · exact ⟨w0 ++ [a1] ++ [b1], w2, by simp, hA, Or.inr ⟨(m.n, b1), by simp, w0 ++ [a1], rfl,
          (hb _).mpr ⟨w0, rfl, hP⟩⟩⟩
      · exact ⟨w0 ++ [a2] ++ [b2], w2, by simp, hA, Or.inr ⟨(m.n + 1, b2), by simp, w0 ++ [a2], rfl,
          (hc _).mpr ⟨w0, rfl, hP⟩⟩⟩

/-- the shapes `sp_to_m` produces: two two-letter alternatives, or one non-empty word -/
def GoodAlts (alts : List Word) : Prop :=
  (∃ a1 b1 a2 b2, alts = [[a1, b1], [a2, b2]]) ∨ (∃ x, x ≠ [] ∧ alts = [x])

theorem inv_addSp (m : NFA) (P : Word → Prop) (alts : List Word) (hg : GoodAlts alts) (h : Inv m P) :
    Inv (addSp m alts) (fun w => ∃ w0 v w2, w = w0 ++ v ++ w2 ∧ P w0 ∧ v ∈ alts ∧ AStar w2) := by
  rcases hg with ⟨a1, b1, a2, b2, rfl⟩ | ⟨x, hx, rfl⟩
  · exact inv_gadget m P a1 b1 a2 b2 h
  · have : addSp m [x] = addChain m (m.n - 1) x := by
      unfold addSp
      split
      · rename_i heq; simp at heq
      · rename_i heq; simp at heq; subst heq; rfl
      · rename_i h1 h2; exact absurd rfl (h2 x)
    rw [this]
    have hc := inv_chain x hx m (m.n - 1) P (inv_to_invAt h)
    refine ⟨hc.pos, hc.below, ?_⟩
    intro w
    rw [hc.lang]
    constructor
    · rintro ⟨w0, w2, rfl, hP, hA⟩; exact ⟨w0, x, w2, rfl, hP, by simp, hA⟩
    · rintro ⟨w0, v, w2, rfl, hP, hv, hA⟩
      simp at hv; subst hv
      exact ⟨w0, w2, rfl, hP, hA⟩

theorem inv_foldl (fs : List (List Word)) : ∀ (m : NFA) (P : Word → Prop), Inv m P →
    (∀ alts ∈ fs, GoodAlts alts) →
    Inv (fs.foldl addSp m) (fun w => ∃ w0 w1, w = w0 ++ w1 ∧ P w0 ∧ tailLang fs w1) := by
  induction fs with
  | nil =>
    intro m P h _
    refine ⟨h.pos, h.below, ?_⟩
    intro w
    simp only [List.foldl_nil, h.lang, tailLang]
    constructor
    · intro hP; exact ⟨w, [], by simp, hP, rfl⟩
    · rintro ⟨w0, w1, rfl, hP, rfl⟩; simpa using hP
  | cons alts rest ih =>
    intro m P h hg
    have h1 := inv_addSp m P alts (hg alts (by simp)) h
    have h2 := ih _ _ h1 (fun a ha => hg a (by simp [ha]))
    refine ⟨h2.pos, h2.below, ?_⟩
    intro w
    simp only [List.foldl_cons]
    rw [h2.lang]
    constructor
    · rintro ⟨w0, w1, rfl, ⟨w00, v, w2, rfl, hP, hv, hA⟩, ht⟩
      exact ⟨w00, v ++ w2 ++ w1, by simp, hP, v, w2, w1, rfl, hv, hA, ht⟩
    · rintro ⟨w0, w1, rfl, hP, v, w2, w3, rfl, hv, hA, ht⟩
      exact ⟨w0 ++ v ++ w2, w3, by simp, ⟨w0, v, w2, rfl, hP, hv, hA⟩, ht⟩

/-- language of the automaton built from any list of well-shaped alternatives -/
theorem nfaOfDecomp_language (fs : List (List Word)) (hg : ∀ alts ∈ fs, GoodAlts alts) (w : Word) :
    nfaAccepts (nfaOfDecomp fs) w = true ↔ regexLang fs w := by
  have h := inv_foldl fs nfaStart AStar inv_start hg
  unfold nfaAccepts regexLang
  rw [List.contains_iff_mem]
  exact h.lang w

/-! ### `sp_to_m` of a factor has the required shape -/

theorem spLetterDict_len :
    ∀ q ∈ QUADS, (Generated.c15_spLetterDict.lookup q).map List.length = some 2 := by
  decide

theorem spLetterDict_total (q : Char) (hq : q ∈ QUADS) :
    ∃ a b, Generated.c15_spLetterDict.lookup q = some [a, b] := by
  have h2 := spLetterDict_len q hq
  cases h : Generated.c15_spLetterDict.lookup q with
  | none => simp [h] at h2
  | some l =>
    simp [h] at h2
    match l, h2 with
    | [a, b], _ => exact ⟨a, b, rfl⟩

theorem spToM_good (f : Word) (hf : f ≠ []) : GoodAlts (spToM f) := by
  cases f with
  | nil => exact absurd rfl hf
  | cons q t =>
    unfold spToM
    by_cases hq : QUADS.contains q = true
    · simp only [hq, if_true]
      obtain ⟨a, b, hl⟩ := spLetterDict_total q (by simpa using hq)
      rw [hl]
      cases t with
      | nil => exact Or.inl ⟨a, b, b, a, by simp⟩
      | cons d t' =>
        simp only
        split
        · exact Or.inr ⟨_, by simp, rfl⟩
        · exact Or.inr ⟨_, by simp, rfl⟩
    · simp only [hq]
      exact Or.inr ⟨q :: t, by simp, by simp⟩

theorem factor_ne_nil (u : Word) : ∀ f ∈ factorPinword u, f ≠ [] := by
  fun_induction factorPinword u with
  | case1 => intro f hf; simp at hf
  | case2 c t ih =>
    intro f hf
    rcases List.mem_cons.mp hf with rfl | hf
    · simp
    · exact ih f hf

end C15Nfa
