import PermutaModel.Lemmas.C15Fin
import Mathlib.Data.Finset.Card
/-!
The model's breadth-first exploration `explore` (arrays, fuel) is correct: for a successor function
on codes `< bound` that is closed and has one successor per letter, the explored automaton
simulates the abstract automaton on codes, every state of it is reachable, and the fuel `bound`
suffices (the loop stops because every discovered code has been processed, never because the fuel
ran out).
-/
namespace C15Ex
open Model.C15

theorem getD_push (a : Array Nat) (x i : Nat) :
    (a.push x).getD i 0 = if i < a.size then a.getD i 0 else if i = a.size then x else 0 := by
  simp only [Array.getD_eq_getD_getElem?, Array.getElem?_push]
  split
  · subst_vars; simp
  · split
    · rfl
    · rename_i h1 h2
      rw [Array.getElem?_eq_none (by omega)]; rfl

theorem getD_set (a : Array Nat) (j x i : Nat) :
    (a.setIfInBounds j x).getD i 0 = if i = j ∧ j < a.size then x else a.getD i 0 := by
  simp only [Array.getD_eq_getD_getElem?, Array.getElem?_setIfInBounds]
  split
  · subst_vars
    split
    · simp [*]
    · rename_i h; simp [h]
  · rename_i h; simp [Ne.symm h]

theorem getD_ge (a : Array Nat) (i : Nat) (h : a.size ≤ i) : a.getD i 0 = 0 := by
  simp [Array.getD, Nat.not_lt.mpr h]

/-- one successor per letter, all below `bound` -/
structure Closed (succ : Nat → List Nat) (bound : Nat) : Prop where
  len : ∀ c, c < bound → (succ c).length = DIRS.length
  lt : ∀ c, c < bound → ∀ t ∈ succ c, t < bound

/-- `index` is the inverse of `seen` (shifted by one, `0` = unseen) -/
structure ExInv (bound : Nat) (e : Ex) : Prop where
  isz : e.index.size = bound
  fwd : ∀ p, p < e.seen.size → e.seen.getD p 0 < bound ∧ e.index.getD (e.seen.getD p 0) 0 = p + 1
  bwd : ∀ c, c < bound → e.index.getD c 0 ≠ 0 →
    e.index.getD c 0 - 1 < e.seen.size ∧ e.seen.getD (e.index.getD c 0 - 1) 0 = c

theorem ExInv.rows {bound : Nat} {e : Ex} (h : ExInv bound e) (r : Array (Array Nat)) :
    ExInv bound { e with rows := r } := ⟨h.isz, h.fwd, h.bwd⟩

/-- the discovered codes are distinct and below `bound`, hence at most `bound` many -/
theorem ExInv.size_le {bound : Nat} {e : Ex} (h : ExInv bound e) : e.seen.size ≤ bound := by
  have := Finset.card_le_card_of_injOn (s := Finset.range e.seen.size) (t := Finset.range bound)
    (fun p => e.seen.getD p 0)
    (by
      intro p hp
      simp only [Finset.coe_range, Set.mem_Iio] at hp ⊢
      exact (h.fwd p hp).1)
    (by
      intro p hp q hq hpq
      simp only [Finset.coe_range, Set.mem_Iio] at hp hq
      have hpq : e.seen.getD p 0 = e.seen.getD q 0 := hpq
      have h1 := (h.fwd p hp).2
      have h2 := (h.fwd q hq).2
      rw [hpq] at h1; omega)
  simpa using this

theorem visit_spec (bound : Nat) (e : Ex) (h : ExInv bound e) (code : Nat) (hc : code < bound) :
    ExInv bound (e.visit code).1 ∧ (e.visit code).1.rows = e.rows ∧
    e.seen.size ≤ (e.visit code).1.seen.size ∧
    (∀ p, p < e.seen.size → (e.visit code).1.seen.getD p 0 = e.seen.getD p 0) ∧
    (e.visit code).2 < (e.visit code).1.seen.size ∧
    (e.visit code).1.seen.getD (e.visit code).2 0 = code ∧
    ((e.visit code).1.seen.size = e.seen.size ∨
      ((e.visit code).1.seen.size = e.seen.size + 1 ∧ (e.visit code).2 = e.seen.size)) := by
  by_cases hk : e.index.getD code 0 = 0
  · have hv : e.visit code = ((⟨e.seen.push code,
        e.index.setIfInBounds code (e.seen.size + 1), e.rows⟩ : Ex), e.seen.size) := by
      unfold Ex.visit
      simp only [hk, bne_self_eq_false, Bool.false_eq_true, if_false]
    rw [hv]
    dsimp only
    refine ⟨⟨?_, ?_, ?_⟩, rfl, ?_, ?_, ?_, ?_, Or.inr ⟨?_, rfl⟩⟩
    · dsimp only; rw [Array.size_setIfInBounds]; exact h.isz
    · intro p hp
      dsimp only at hp ⊢
      rw [Array.size_push] at hp
      rw [getD_push, getD_set, h.isz]
      by_cases hp' : p < e.seen.size
      · rw [if_pos hp']
        have := h.fwd p hp'
        refine ⟨this.1, ?_⟩
        have hne : e.seen.getD p 0 ≠ code := by
          intro heq; rw [heq] at this; omega
        rw [if_neg (fun hh => hne hh.1)]; exact this.2
      · have : p = e.seen.size := by omega
        subst this
        rw [if_neg hp', if_pos rfl, if_pos ⟨rfl, hc⟩]
        exact ⟨hc, rfl⟩
    · intro c hcb
      dsimp only
      rw [getD_set, h.isz, Array.size_push]
      by_cases hcc : c = code
      · subst hcc
        rw [if_pos ⟨rfl, hc⟩]
        intro _
        refine ⟨by omega, ?_⟩
        rw [getD_push, Nat.add_sub_cancel, if_neg (Nat.lt_irrefl _), if_pos rfl]
      · rw [if_neg (fun hh => hcc hh.1)]
        intro hne
        have := h.bwd c hcb hne
        refine ⟨by omega, ?_⟩
        rw [getD_push, if_pos this.1]; exact this.2
    · rw [Array.size_push]; omega
    · intro p hp
      rw [getD_push, if_pos hp]
    · rw [Array.size_push]; omega
    · rw [getD_push, if_neg (Nat.lt_irrefl _), if_pos rfl]
    · rw [Array.size_push]
  · have hv : e.visit code = (e, e.index.getD code 0 - 1) := by
      unfold Ex.visit
      have hk' : (e.index.getD code 0 != 0) = true := by
        rw [bne_iff_ne]; exact hk
      simp only [hk', if_true]
    rw [hv]
    have := h.bwd code hc hk
    exact ⟨h, rfl, Nat.le_refl _, fun _ _ => rfl, this.1, this.2, Or.inl rfl⟩

/-- the inner loop: look all successors up, collecting their positions -/
def visitAll (ts : List Nat) (acc : Ex × Array Nat) : Ex × Array Nat :=
  ts.foldl (fun (acc : Ex × Array Nat) t =>
    let v := acc.1.visit t
    (v.1, acc.2.push v.2)) acc

theorem visitAll_spec (bound : Nat) : ∀ (ts : List Nat) (e : Ex) (r : Array Nat), ExInv bound e →
    (∀ t ∈ ts, t < bound) →
    ExInv bound (visitAll ts (e, r)).1 ∧ (visitAll ts (e, r)).1.rows = e.rows ∧
    e.seen.size ≤ (visitAll ts (e, r)).1.seen.size ∧
    (∀ p, p < e.seen.size → (visitAll ts (e, r)).1.seen.getD p 0 = e.seen.getD p 0) ∧
    (visitAll ts (e, r)).2.size = r.size + ts.length ∧
    (∀ j, j < r.size → (visitAll ts (e, r)).2.getD j 0 = r.getD j 0) ∧
    (∀ j, j < ts.length → (visitAll ts (e, r)).2.getD (r.size + j) 0 < (visitAll ts (e, r)).1.seen.size ∧
      (visitAll ts (e, r)).1.seen.getD ((visitAll ts (e, r)).2.getD (r.size + j) 0) 0 = ts.getD j 0) ∧
    (∀ p, e.seen.size ≤ p → p < (visitAll ts (e, r)).1.seen.size →
      ∃ j, j < ts.length ∧ (visitAll ts (e, r)).2.getD (r.size + j) 0 = p) := by
  intro ts
  induction ts with
  | nil =>
    intro e r h _
    refine ⟨h, rfl, Nat.le_refl _, fun _ _ => rfl, rfl, fun _ _ => rfl, fun j hj => ?_,
      fun p h1 h2 => ?_⟩
    · simp at hj
    · change p < e.seen.size at h2; omega
  | cons t ts ih =>
    intro e r h hts
    have hv := visit_spec bound e h t (hts t (by simp))
    obtain ⟨hv1, hv2, hv3, hv4, hv5, hv6, hv7⟩ := hv
    have hrec := ih (e.visit t).1 (r.push (e.visit t).2) hv1 (fun x hx => hts x (by simp [hx]))
    have hunf : visitAll (t :: ts) (e, r) = visitAll ts ((e.visit t).1, r.push (e.visit t).2) := rfl
    rw [hunf]
    obtain ⟨i1, i2, i3, i4, i5, i6, i7, i8⟩ := hrec
    refine ⟨i1, i2.trans hv2, by omega, ?_, ?_, ?_, ?_, ?_⟩
    · intro p hp; rw [i4 p (by omega), hv4 p hp]
    · rw [i5]; simp; omega
    · intro j hj
      rw [i6 j (by simp; omega), getD_push]; simp [hj]
    · intro j hj
      cases j with
      | zero =>
        have h0 := i6 r.size (by simp)
        rw [getD_push] at h0
        simp only [Nat.lt_irrefl, if_false, if_true] at h0
        simp only [Nat.add_zero, List.getD_cons_zero, h0]
        exact ⟨by omega, by rw [i4 _ hv5, hv6]⟩
      | succ j =>
        have := i7 j (by simpa using hj)
        simp only [Array.size_push] at this
        have hidx : r.size + (j + 1) = r.size + 1 + j := by omega
        rw [hidx]
        simpa using this
    · intro p hp1 hp2
      by_cases hp : (e.visit t).1.seen.size ≤ p
      · obtain ⟨j, hj, hjp⟩ := i8 p hp hp2
        refine ⟨j + 1, by simpa using hj, ?_⟩
        simp only [Array.size_push] at hjp
        have hidx : r.size + (j + 1) = r.size + 1 + j := by omega
        rw [hidx]; exact hjp
      · rcases hv7 with h7 | ⟨h7, h7'⟩
        · omega
        · have : p = e.seen.size := by omega
          refine ⟨0, by simp, ?_⟩
          have h0 := i6 r.size (by simp)
          rw [getD_push] at h0
          simp only [Nat.lt_irrefl, if_false, if_true] at h0
          rw [Nat.add_zero, h0, h7', this]

/-- position reached from `p` by letter `j` in the rows built so far -/
def rstep (e : Ex) (p j : Nat) : Nat := (e.rows.getD p #[]).getD j 0

/-- the outer loop invariant: the first `i` discovered codes have been processed -/
structure LoopInv (succ : Nat → List Nat) (start bound : Nat) (i : Nat) (e : Ex) : Prop where
  inv : ExInv bound e
  rsz : e.rows.size = i
  ile : i ≤ e.seen.size
  st : 0 < e.seen.size ∧ e.seen.getD 0 0 = start
  row : ∀ p, p < i → ∀ j, j < DIRS.length →
    rstep e p j < e.seen.size ∧ e.seen.getD (rstep e p j) 0 = (succ (e.seen.getD p 0)).getD j 0
  reach : ∀ p, p < e.seen.size → p = 0 ∨ ∃ p', p' < p ∧ p' < i ∧ ∃ j, j < DIRS.length ∧ rstep e p' j = p

theorem rows_getD_push (rows : Array (Array Nat)) (r : Array Nat) (p : Nat) :
    (rows.push r).getD p #[] = if p < rows.size then rows.getD p #[] else if p = rows.size then r else #[] := by
  simp only [Array.getD_eq_getD_getElem?, Array.getElem?_push]
  split
  · subst_vars; simp
  · split
    · rfl
    · rename_i h1 h2
      rw [Array.getElem?_eq_none (by omega)]; rfl

theorem loop_step (succ : Nat → List Nat) (start bound : Nat) (hcl : Closed succ bound) (i : Nat) (e : Ex)
    (h : LoopInv succ start bound i e) (hi : i < e.seen.size) :
    LoopInv succ start bound (i + 1)
      { (visitAll (succ (e.seen.getD i 0)) (e, #[])).1 with
        rows := (visitAll (succ (e.seen.getD i 0)) (e, #[])).1.rows.push
          (visitAll (succ (e.seen.getD i 0)) (e, #[])).2 } := by
  have hs := (h.inv.fwd i hi).1
  have hv := visitAll_spec bound (succ (e.seen.getD i 0)) e #[] h.inv (hcl.lt _ hs)
  have hlen := hcl.len _ hs
  generalize visitAll (succ (e.seen.getD i 0)) (e, #[]) = out at hv
  obtain ⟨v1, v2, v3, v4, v5, v6, v7, v8⟩ := hv
  simp only [Array.size_empty, Nat.zero_add] at v5 v7 v8
  have hrows : ∀ p j, p < i → rstep { out.1 with rows := out.1.rows.push out.2 } p j = rstep e p j := by
    intro p j hp
    unfold rstep
    simp only [rows_getD_push, v2, h.rsz, hp, if_true]
  have hrowi : ∀ j, rstep { out.1 with rows := out.1.rows.push out.2 } i j = out.2.getD j 0 := by
    intro j
    unfold rstep
    simp only [rows_getD_push, v2, h.rsz, Nat.lt_irrefl, if_false, if_true]
  refine ⟨v1.rows _, by simp [v2, h.rsz], by show i + 1 ≤ out.1.seen.size; omega,
    ⟨by show 0 < out.1.seen.size; omega, by show out.1.seen.getD 0 0 = start; rw [v4 0 (by omega)]; exact h.st.2⟩,
    ?_, ?_⟩
  · intro p hp j hj
    show _ < out.1.seen.size ∧ out.1.seen.getD _ 0 = (succ (out.1.seen.getD p 0)).getD j 0
    by_cases hpi : p < i
    · rw [hrows p j hpi]
      have := h.row p hpi j hj
      rw [v4 _ this.1, v4 p (by omega)]
      exact ⟨by omega, this.2⟩
    · have : p = i := by omega
      subst this
      rw [hrowi j, v4 p hi]
      exact v7 j (by omega)
  · intro p hp
    have hp : p < out.1.seen.size := hp
    by_cases hpo : p < e.seen.size
    · rcases h.reach p hpo with h0 | ⟨p', hp', hp'i, j, hj, hst⟩
      · exact Or.inl h0
      · exact Or.inr ⟨p', hp', by omega, j, hj, by rw [hrows p' j hp'i]; exact hst⟩
    · obtain ⟨j, hj, hjp⟩ := v8 p (by omega) hp
      exact Or.inr ⟨i, by omega, by omega, j, by omega, by rw [hrowi j]; exact hjp⟩

theorem exploreLoop_spec (succ : Nat → List Nat) (start bound : Nat) (hcl : Closed succ bound) :
    ∀ (fuel i : Nat) (e : Ex), LoopInv succ start bound i e → bound ≤ fuel + i →
      LoopInv succ start bound (exploreLoop succ fuel i e).seen.size (exploreLoop succ fuel i e) := by
  intro fuel
  induction fuel with
  | zero =>
    intro i e h hb
    have := h.inv.size_le
    have hi : i = e.seen.size := by have := h.ile; omega
    simp only [exploreLoop]
    rw [← hi]; exact h
  | succ fuel ih =>
    intro i e h hb
    by_cases hi : i < e.seen.size
    · have hunf : exploreLoop succ (fuel + 1) i e = exploreLoop succ fuel (i + 1)
          { (visitAll (succ (e.seen.getD i 0)) (e, #[])).1 with
            rows := (visitAll (succ (e.seen.getD i 0)) (e, #[])).1.rows.push
              (visitAll (succ (e.seen.getD i 0)) (e, #[])).2 } := by
        simp only [exploreLoop, hi, if_true]
        rfl
      rw [hunf]
      exact ih _ _ (loop_step succ start bound hcl i e h hi) (by omega)
    · have hunf : exploreLoop succ (fuel + 1) i e = e := by
        simp only [exploreLoop, hi, if_false]
      rw [hunf]
      have : i = e.seen.size := by have := h.ile; omega
      rw [← this]; exact h

/-- the result of `explore`: every discovered code has been processed -/
theorem explore_spec (succ : Nat → List Nat) (start bound : Nat) (hcl : Closed succ bound) (hs : start < bound) :
    LoopInv succ start bound (explore succ start bound).seen.size (explore succ start bound) := by
  unfold explore
  apply exploreLoop_spec succ start bound hcl bound 0 _ _ (by omega)
  refine ⟨⟨by simp, ?_, ?_⟩, rfl, by simp, ⟨by simp, by simp [Array.getD]⟩, fun p hp => by omega, ?_⟩
  · intro p hp
    have : p = 0 := by simpa using hp
    subst this
    have h0 : (#[start] : Array Nat).getD 0 0 = start := by simp [Array.getD]
    simp only [h0, getD_set, Array.size_replicate]
    simp [hs]
  · intro c hc
    simp only [getD_set, Array.size_replicate]
    by_cases hcs : c = start
    · subst hcs; simp [hc, Array.getD]
    · simp only [hcs, false_and, if_false]
      intro hne
      exfalso; apply hne
      simp [Array.getD, hc]
  · intro p hp
    have : p = 0 := by simpa using hp
    exact Or.inl this

/-! ### the explored automaton simulates the abstract automaton on codes -/

/-- the abstract automaton on codes -/
def crun (succ : Nat → List Nat) : Option Nat → Word → Option Nat
  | q, [] => q
  | none, _ :: _ => none
  | some c, x :: w => crun succ ((letterIdx x).map fun i => (succ c).getD i 0) w

theorem crun_none (succ : Nat → List Nat) (w : Word) : crun succ none w = none := by cases w <;> rfl

/-- acceptance in the abstract automaton -/
def cacc (succ : Nat → List Nat) (f : Nat → Bool) (start : Nat) (w : Word) : Bool :=
  match crun succ (some start) w with
  | some c => f c
  | none => false

/-- shape of the automata the model's constructions produce -/
structure Good (d : DFA) : Prop where
  pos : 0 < d.size
  asz : d.acc.size = d.size
  wf : C15Fin.WF d
  reach : ∀ q, q < d.size → ∃ u, d.run (some 0) u = some q

section
variable (succ : Nat → List Nat) (start bound : Nat) (f : Nat → Bool)

theorem sim_run (e : Ex) (h : LoopInv succ start bound e.seen.size e) (w : Word) :
    ∀ p, p < e.seen.size →
      (DFA.run ⟨e.rows, e.seen.map f⟩ (some p) w).map (fun r => e.seen.getD r 0) =
        crun succ (some (e.seen.getD p 0)) w := by
  induction w with
  | nil => intro p _; rfl
  | cons x w ih =>
    intro p hp
    rw [C15Fin.run_cons]
    simp only [crun]
    cases hl : letterIdx x with
    | none => simp [C15Fin.run_none, crun_none]
    | some j =>
      have hj := C15Fin.letterIdx_lt hl
      have hr := h.row p hp j hj
      simp only [Option.map_some]
      have hstep : DFA.step ⟨e.rows, e.seen.map f⟩ p j = rstep e p j := rfl
      rw [hstep, ih _ hr.1, hr.2]

theorem explored_good (e : Ex) (h : LoopInv succ start bound e.seen.size e) :
    Good ⟨e.rows, e.seen.map f⟩ := by
  have hsz : DFA.size ⟨e.rows, e.seen.map f⟩ = e.seen.size := h.rsz
  have hwf : C15Fin.WF ⟨e.rows, e.seen.map f⟩ := by
    intro q hq j hj
    rw [hsz] at hq ⊢
    exact (h.row q hq j hj).1
  refine ⟨by rw [hsz]; exact h.st.1, by rw [hsz]; simp, hwf, ?_⟩
  intro q
  induction q using Nat.strong_induction_on with
  | _ q ih =>
    intro hq
    rw [hsz] at hq
    rcases h.reach q hq with rfl | ⟨p, hp, hpi, j, hj, hstep⟩
    · exact ⟨[], rfl⟩
    · obtain ⟨u, hu⟩ := ih p hp (by rw [hsz]; omega)
      refine ⟨u ++ [DIRS.getD j ' '], ?_⟩
      rw [C15Fin.run_snoc_dir _ 0 p j u hu hj]
      exact congrArg some hstep

/-- the explored automaton carries the run-time certificate `certB` (breadth-first numbering: every
    state but `0` is the successor of a smaller-numbered state) -/
theorem explored_cert (e : Ex) (h : LoopInv succ start bound e.seen.size e) :
    DFA.certB ⟨e.rows, e.seen.map f⟩ = true := by
  have hsz : DFA.size ⟨e.rows, e.seen.map f⟩ = e.seen.size := h.rsz
  unfold DFA.certB DFA.wfB DFA.reachB
  simp only [Bool.and_eq_true, decide_eq_true_eq, List.all_eq_true, List.mem_range, Bool.or_eq_true,
    beq_iff_eq, List.any_eq_true]
  rw [hsz]
  refine ⟨⟨h.st.1, fun q hq j hj => (h.row q hq j hj).1⟩, ?_⟩
  intro q hq
  rcases h.reach q hq with h0 | ⟨p, hp, _, j, hj, hstep⟩
  · exact Or.inl h0
  · exact Or.inr ⟨p, hp, j, hj, hstep⟩

theorem explored_accepts (e : Ex) (h : LoopInv succ start bound e.seen.size e) (w : Word) :
    DFA.accepts ⟨e.rows, e.seen.map f⟩ w = cacc succ f start w := by
  unfold DFA.accepts cacc
  have hs := sim_run succ start bound f e h w 0 h.st.1
  rw [h.st.2] at hs
  rw [← hs]
  cases hr : DFA.run ⟨e.rows, e.seen.map f⟩ (some 0) w with
  | none => rfl
  | some r =>
    have hlt : r < e.seen.size := by
      have := C15Fin.run_lt _ (explored_good succ start bound f e h).wf w 0 r
        (explored_good succ start bound f e h).pos hr
      exact h.rsz ▸ this
    simp [Array.getD, hlt]

end

/-- every DFA rejects the words that contain a letter outside `DIRS` -/
theorem accepts_astar (d : DFA) (w : Word) (h : d.accepts w = true) : ∀ c ∈ w, c ∈ DIRS := by
  have key : ∀ (w : Word) (q : Nat), C15Fin.accFrom d q w = true → ∀ c ∈ w, c ∈ DIRS := by
    intro w
    induction w with
    | nil => intro _ _ c hc; simp at hc
    | cons x w ih =>
      intro q hacc c hc
      rw [C15Fin.accFrom_cons] at hacc
      cases hl : letterIdx x with
      | none => rw [hl] at hacc; simp at hacc
      | some i =>
        rw [hl] at hacc
        rcases List.mem_cons.mp hc with rfl | hc'
        · unfold letterIdx at hl
          simp only at hl
          split at hl
          · rename_i hlt; exact List.idxOf_lt_length_iff.mp hlt
          · cases hl
        · exact ih _ hacc c hc'
  exact key w 0 h

end C15Ex
