import PermutaModel.Model.C17AutoSrc
import PermutaModel.Lemmas.C17Auto
/-! `auto_bisc` on a list / a pair of dictionaries (`Model/C17AutoSrc.lean`): the function source is the old model,
    what a returned description has passed, agreement of the list source with the function source. -/

namespace Model.C17

theorem psBadK_iff' (sg : PattDict) (B : Nat → List NSeq) (K L : Nat) :
    psBadK sg B K L = true ↔ L ≤ K ∧ psBad sg B L = true := by
  unfold psBadK psBad
  rw [sufficeBad_true_iff, sufficeBad_true_iff]
  constructor
  · intro h
    have hL : L ≤ K := by
      obtain ⟨Bs, hBs, _⟩ := h L (List.mem_range.mpr (by omega))
      by_cases hc : L ≤ K
      · exact hc
      · simp [keysUpTo, hc] at hBs
    refine ⟨hL, fun k hk => ?_⟩
    obtain ⟨Bs, hBs, hall⟩ := h k hk
    have hk' : k ≤ L := by have := List.mem_range.mp hk; omega
    refine ⟨Bs, ?_, hall⟩
    simp only [keysUpTo] at hBs ⊢
    rw [if_pos (by omega)] at hBs ⊢
    exact hBs
  · rintro ⟨hL, h⟩ k hk
    obtain ⟨Bs, hBs, hall⟩ := h k hk
    have hk' : k ≤ L := by have := List.mem_range.mp hk; omega
    refine ⟨Bs, ?_, hall⟩
    simp only [keysUpTo] at hBs ⊢
    rw [if_pos (by omega)] at hBs ⊢
    exact hBs

theorem psGoodK_iff' (sg : PattDict) (A : Nat → List NSeq) (K L : Nat) :
    psGoodK sg A K L = true ↔ L ≤ K ∧ psGood sg A L = true := by
  unfold psGoodK psGood
  rw [sufficeGood_true_iff, sufficeGood_true_iff]
  constructor
  · intro h
    have hL : L ≤ K := by
      obtain ⟨Bs, hBs, _⟩ := h L (List.mem_range.mpr (by omega))
      by_cases hc : L ≤ K
      · exact hc
      · simp [keysUpTo, hc] at hBs
    refine ⟨hL, fun k hk => ?_⟩
    obtain ⟨Bs, hBs, hall⟩ := h k hk
    have hk' : k ≤ L := by have := List.mem_range.mp hk; omega
    refine ⟨Bs, ?_, hall⟩
    simp only [keysUpTo] at hBs ⊢
    rw [if_pos (by omega)] at hBs ⊢
    exact hBs
  · rintro ⟨hL, h⟩ k hk
    obtain ⟨Bs, hBs, hall⟩ := h k hk
    have hk' : k ≤ L := by have := List.mem_range.mp hk; omega
    refine ⟨Bs, ?_, hall⟩
    simp only [keysUpTo] at hBs ⊢
    rw [if_pos (by omega)] at hBs ⊢
    exact hBs

/-- with all keys `0 … L` present the checks are the ones of the function model -/
theorem psBadK_eq (sg : PattDict) (B : Nat → List NSeq) {K L : Nat} (h : L ≤ K) : psBadK sg B K L = psBad sg B L := by
  cases hb : psBad sg B L with
  | true => exact (psBadK_iff' sg B K L).mpr ⟨h, hb⟩
  | false =>
    cases hk : psBadK sg B K L with
    | false => rfl
    | true => rw [((psBadK_iff' sg B K L).mp hk).2] at hb; cases hb

theorem psGoodK_eq (sg : PattDict) (A : Nat → List NSeq) {K L : Nat} (h : L ≤ K) :
    psGoodK sg A K L = psGood sg A L := by
  cases hb : psGood sg A L with
  | true => exact (psGoodK_iff' sg A K L).mpr ⟨h, hb⟩
  | false =>
    cases hk : psGoodK sg A K L with
    | false => rfl
    | true => rw [((psGoodK_iff' sg A K L).mp hk).2] at hb; cases hb

theorem verdictS_eq (src : Source) (A B : Nat → List NSeq) (L : Nat) (sg : PattDict)
    (hA : L ≤ src.kA L) (hB : L ≤ src.kB L) : verdictS src A B L sg = verdict A B L sg := by
  unfold verdictS verdict
  rw [psBadK_eq sg B hB, psGoodK_eq sg A hA]

theorem verdictS_function (A B : Nat → List NSeq) (L : Nat) (sg : PattDict) :
    verdictS .function A B L sg = verdict A B L sg :=
  verdictS_eq .function A B L sg (Nat.le_refl _) (Nat.le_refl _)

theorem learnOkS_eq (src : Source) (SG : PattDict) (B : Nat → List NSeq) (L : Nat) (hB : L ≤ src.kB L) :
    learnOkS src SG B L = learnOk SG B L := by
  unfold learnOkS learnOk
  rw [psBadK_eq SG B hB]

theorem verdictS_accept_iff (src : Source) (A B : Nat → List NSeq) (L : Nat) (sg : PattDict) :
    verdictS src A B L sg = .accept ↔
      psBadK sg B (src.kB L) L = true ∧ psGoodK sg A (src.kA L) L = true := by
  unfold verdictS
  cases psBadK sg B (src.kB L) L <;> cases psGoodK sg A (src.kA L) L <;> simp

/-! ### the inner loop -/

theorem autoInnerS_eq (src : Source) (A B : Nat → List NSeq) (ch : Choice) (SG : PattDict) (L : Nat)
    (hA : L ≤ src.kA L) (hB : L ≤ src.kB L) :
    ∀ (f n ib : Nat), autoInnerS src A B ch SG L f n ib = autoInner A B ch SG L f n ib := by
  intro f
  induction f with
  | zero => intro n ib; simp [autoInnerS, autoInner]
  | succ f ih =>
    intro n ib
    unfold autoInnerS autoInner
    simp only [verdictS_eq src A B L _ hA hB, ih] <;> rfl

theorem autoInnerS_found (src : Source) (A B : Nat → List NSeq) (ch : Choice) (SG : PattDict) (L : Nat)
    (sg : PattDict) :
    ∀ (f n ib : Nat), autoInnerS src A B ch SG L f n ib = .found sg → verdictS src A B L sg = .accept := by
  intro f
  induction f with
  | zero => intro n ib h; simp [autoInnerS] at h
  | succ f ih =>
    intro n ib h
    unfold autoInnerS at h
    split at h
    · cases h
    · exact ih _ _ h
    · split at h
      · exact ih _ _ h
      · cases h
      · rename_i hv
        cases h
        exact hv

/-! ### the growth step -/

theorem grow_function (L n : Nat) : Source.grow .function L n = some (max L (n + 1)) := by
  unfold Source.grow
  split
  · simp only [Option.some.injEq]; omega
  · simp only [Option.some.injEq]; omega

theorem grow_ge (src : Source) {L n L' : Nat} (h : src.grow L n = some L') : L ≤ L' ∧ n + 1 ≤ L' := by
  unfold Source.grow at h
  split at h
  · cases src with
    | function => simp only [Option.some.injEq] at h; omega
    | list a =>
      simp only at h
      split at h
      · cases h
      · simp only [Option.some.injEq] at h; omega
    | pair a b =>
      simp only at h
      split at h
      · cases h
      · simp only [Option.some.injEq] at h; omega
  · simp only [Option.some.injEq] at h; omega

/-- the list source grows like the function source as long as the new `L` stays within the list -/
theorem grow_list (N : Nat) {L n L' : Nat} (h : Source.grow (.list N) L n = some L') (hL : L ≤ N) :
    L' = max L (n + 1) ∧ L' ≤ N := by
  unfold Source.grow at h
  split at h
  · simp only at h
    split at h
    · cases h
    · simp only [Option.some.injEq] at h; omega
  · simp only [Option.some.injEq] at h; omega

/-! ### the outer loop -/

theorem autoOuterS_function (A B : Nat → List NSeq) (ch : Choice) :
    ∀ (f L n m : Nat), autoOuterS .function A B ch f L n m = (autoOuter A B ch f L n m).toSrc := by
  intro f
  induction f with
  | zero => intro L n m; simp [autoOuterS, autoOuter, AutoRes.toSrc]
  | succ f ih =>
    intro L n m
    unfold autoOuterS autoOuter
    rw [learnOkS_eq .function _ B L (Nat.le_refl _),
      autoInnerS_eq .function A B ch _ L (Nat.le_refl _) (Nat.le_refl _)]
    cases learnOk (biscD (dflt A L) m n) B L with
    | true =>
      simp only [↓reduceIte]
      cases autoInner A B ch (biscD (dflt A L) m n) L f n (ibStart (biscD (dflt A L) m n)) with
      | found sg => rfl
      | again n' => simp only [grow_function, ih]
      | outOfFuel => rfl
      | err e => rfl
    | false =>
      simp only [Bool.false_eq_true, ↓reduceIte, grow_function, ih]

theorem autoOuterS_found (src : Source) (A B : Nat → List NSeq) (ch : Choice) (sg : PattDict) :
    ∀ (f L n m : Nat), autoOuterS src A B ch f L n m = .found sg →
      ∃ L', L ≤ L' ∧ verdictS src A B L' sg = .accept := by
  intro f
  induction f with
  | zero => intro L n m h; simp [autoOuterS] at h
  | succ f ih =>
    intro L n m h
    unfold autoOuterS at h
    split at h
    · split at h
      · rename_i hin
        cases h
        exact ⟨L, Nat.le_refl _, autoInnerS_found src A B ch _ L _ _ _ _ hin⟩
      · split at h
        · cases h
        · rename_i hg
          obtain ⟨L', hL, hv⟩ := ih _ _ _ h
          exact ⟨L', by have := (grow_ge src hg).1; omega, hv⟩
      · cases h
      · cases h
    · split at h
      · cases h
      · rename_i hg
        obtain ⟨L', hL, hv⟩ := ih _ _ _ h
        exact ⟨L', by have := (grow_ge src hg).1; omega, hv⟩

/-- **list = function while `L` stays within the list**: a run on the list source that does not end with the
    "longer list" exit is, step by step, the run on the function source -/
theorem autoOuterS_list_eq (N : Nat) (A B : Nat → List NSeq) (ch : Choice) :
    ∀ (f L n m : Nat), L ≤ N → autoOuterS (.list N) A B ch f L n m ≠ .needLonger →
      autoOuterS (.list N) A B ch f L n m = autoOuterS .function A B ch f L n m := by
  intro f
  induction f with
  | zero => intro L n m _ _; simp [autoOuterS]
  | succ f ih =>
    intro L n m hL hne
    have hkA : L ≤ (Source.list N).kA L := hL
    have hkB : L ≤ (Source.list N).kB L := hL
    unfold autoOuterS at hne ⊢
    rw [learnOkS_eq (.list N) _ B L hkB, autoInnerS_eq (.list N) A B ch _ L hkA hkB] at hne ⊢
    rw [learnOkS_eq .function _ B L (Nat.le_refl _),
      autoInnerS_eq .function A B ch _ L (Nat.le_refl _) (Nat.le_refl _)]
    split
    · rename_i hl
      rw [if_pos hl] at hne
      split
      · rfl
      · rename_i n' hin
        rw [hin] at hne
        simp only at hne
        rw [grow_function]
        cases hg : Source.grow (.list N) L n' with
        | none => rw [hg] at hne; exact absurd rfl hne
        | some L' =>
          rw [hg] at hne
          simp only at hne ⊢
          obtain ⟨hL', hN⟩ := grow_list N hg hL
          subst hL'
          exact ih _ _ _ hN hne
      · rfl
      · rfl
    · rename_i hl
      rw [if_neg hl] at hne
      rw [grow_function]
      cases hg : Source.grow (.list N) L (n + 1) with
      | none => rw [hg] at hne; exact absurd rfl hne
      | some L' =>
        rw [hg] at hne
        simp only at hne ⊢
        obtain ⟨hL', hN⟩ := grow_list N hg hL
        subst hL'
        exact ih _ _ _ hN hne

/-- the function source never gives up -/
theorem autoOuterS_function_ne_none (A B : Nat → List NSeq) (ch : Choice) (f L n m : Nat) :
    autoOuterS .function A B ch f L n m ≠ .needLonger ∧ autoOuterS .function A B ch f L n m ≠ .tooShort := by
  rw [autoOuterS_function]
  cases autoOuter A B ch f L n m <;> simp [AutoRes.toSrc]

/-- no loop of `autoOuterS` produces the initial exit -/
theorem autoOuterS_ne_tooShort (src : Source) (A B : Nat → List NSeq) (ch : Choice) :
    ∀ (f L n m : Nat), autoOuterS src A B ch f L n m ≠ .tooShort := by
  intro f
  induction f with
  | zero => intro L n m h; simp [autoOuterS] at h
  | succ f ih =>
    intro L n m h
    unfold autoOuterS at h
    split at h
    · split at h
      · cases h
      · split at h
        · cases h
        · exact ih _ _ _ h
      · cases h
      · cases h
    · split at h
      · cases h
      · exact ih _ _ _ h

/-! ### the dictionaries of a list -/

theorem mem_listA (lst : List NSeq) (k : Nat) (σ : NSeq) : σ ∈ listA lst k ↔ σ ∈ lst ∧ σ.length = k := by
  simp [listA]

theorem mem_listB (lst : List NSeq) (k : Nat) (σ : NSeq) :
    σ ∈ listB lst k ↔ σ ∈ permsLex k ∧ ¬ (σ ∈ lst ∧ σ.length = k) := by
  unfold listB
  rw [List.mem_filter]
  have hc : ((listA lst k).contains σ = true) ↔ (σ ∈ lst ∧ σ.length = k) := by
    rw [List.contains_iff_mem, mem_listA]
  cases hb : (listA lst k).contains σ with
  | true =>
    have h := hc.mp hb
    constructor
    · rintro ⟨_, h2⟩; cases h2
    · rintro ⟨_, h2⟩; exact absurd h h2
  | false =>
    have h : ¬ (σ ∈ lst ∧ σ.length = k) := fun h => by rw [hc.mpr h] at hb; cases hb
    constructor
    · rintro ⟨h1, _⟩; exact ⟨h1, h⟩
    · rintro ⟨h1, _⟩; exact ⟨h1, rfl⟩

end Model.C17
