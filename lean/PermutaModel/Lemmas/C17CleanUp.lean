import PermutaModel.Lemmas.C17Complete
/-! B3: every basis returned by the clean-up phase has, for every bad permutation it was tested
    on, a pattern that occurs in it. -/

namespace Model.C17

/-- some mesh pattern of the monitor occurs in `perm` -/
def Hits (perm : NSeq) (m : List PId) : Prop :=
  ∃ x ∈ m, Model.containsMesh perm ⟨x.2.1, x.2.2⟩ = true

theorem hits_append (perm : NSeq) (m : List PId) (x : PId) (h : Hits perm m) : Hits perm (m ++ [x]) := by
  obtain ⟨y, hy, hc⟩ := h
  exact ⟨y, List.mem_append_left _ hy, hc⟩

theorem hits_of_not_fail (perm : NSeq) (L : Nat) (m : List PId)
    (h : ((m.filter fun x => x.1 < L).all fun x => !Model.containsMesh perm ⟨x.2.1, x.2.2⟩) = false) :
    Hits perm m := by
  rw [← Bool.not_eq_true, List.all_eq_true] at h
  apply Classical.byContradiction
  intro hno
  apply h
  intro x hx
  cases hc : Model.containsMesh perm ⟨x.2.1, x.2.2⟩ with
  | false => rfl
  | true => exact absurd ⟨x, (List.mem_filter.mp hx).1, hc⟩ hno

theorem reduceMon_subset (l : List (List PId)) : ∀ m ∈ reduceMon l, m ∈ l := by
  induction h : l.length using Nat.strong_induction_on generalizing l with
  | _ n ih =>
    cases l with
    | nil => intro m hm; rw [reduceMon] at hm; cases hm
    | cons r rest =>
      intro m hm
      rw [reduceMon] at hm
      rcases List.mem_cons.mp hm with rfl | hm
      · simp
      · have hlen : (rest.filter fun s => !gaur r s).length < n := by
          subst h; simp only [List.length_cons]
          exact Nat.lt_succ_of_le (List.length_filter_le _ _)
        have := ih _ hlen _ rfl m hm
        exact List.mem_cons_of_mem _ (List.mem_filter.mp this).1

/-- the loop over `loop_monitor`: monitors that do not hit `perm` are all removed, everything added
    hits `perm`, and everything still hits the permutations tested before -/
theorem monLoop_inv (perm : NSeq) (L limit : Nat) (saviors larger : List PId)
    (hsav : ∀ x ∈ saviors, Model.containsMesh perm ⟨x.2.1, x.2.2⟩ = true)
    (hlar : ∀ x ∈ larger, Model.containsMesh perm ⟨x.2.1, x.2.2⟩ = true)
    (Prev : List PId → Prop) (hPrev : ∀ m x, Prev m → Prev (m ++ [x])) :
    ∀ (todo : List (List PId)) (st : List (List PId) × Bool),
      (∀ m ∈ todo, Prev m) → (∀ m ∈ st.1, Prev m) →
      (∀ v, ¬ Hits perm v → st.1.count v ≤ todo.count v) →
      (∀ m ∈ (monLoop perm L limit saviors larger todo st).1, Prev m) ∧
      (∀ m ∈ (monLoop perm L limit saviors larger todo st).1, Hits perm m) := by
  intro todo
  induction todo with
  | nil =>
    intro st _ hst hcnt
    simp only [monLoop]
    refine ⟨hst, fun m hm => ?_⟩
    apply Classical.byContradiction
    intro hno
    have := hcnt m hno
    simp only [List.count_nil, Nat.le_zero] at this
    exact (List.count_eq_zero.mp this) hm
  | cons mon rest ih =>
    intro st htodo hst hcnt
    obtain ⟨monitor, failed⟩ := st
    simp only [monLoop]
    have hrest : ∀ m ∈ rest, Prev m := fun m hm => htodo m (List.mem_cons_of_mem _ hm)
    have hmonP : Prev mon := htodo mon (by simp)
    split
    · rename_i hfail
      have hext : ∀ m ∈ saviors.map (fun x => mon ++ [x]) ++ larger.map (fun x => mon ++ [x]),
          Prev m ∧ Hits perm m := by
        intro m hm
        rcases List.mem_append.mp hm with h | h
        · obtain ⟨x, hx, rfl⟩ := List.mem_map.mp h
          exact ⟨hPrev _ _ hmonP, x, by simp, hsav x hx⟩
        · obtain ⟨x, hx, rfl⟩ := List.mem_map.mp h
          exact ⟨hPrev _ _ hmonP, x, by simp, hlar x hx⟩
      have hcnt_erase : ∀ v, ¬ Hits perm v → (monitor.erase mon).count v ≤ rest.count v := by
        intro v hv
        have := hcnt v hv
        simp only at this
        rw [List.count_cons] at this
        rw [List.count_erase]
        by_cases hmv : (mon == v) = true
        · simp only [hmv, if_true] at this ⊢; omega
        · simp only [hmv, Bool.false_eq_true, if_false] at this ⊢; omega
      split
      · apply ih
        · exact hrest
        · intro m hm; exact hst m (List.mem_of_mem_erase hm)
        · exact hcnt_erase
      · apply ih
        · exact hrest
        · intro m hm
          simp only [List.append_assoc] at hm
          rcases List.mem_append.mp hm with h | h
          · exact hst m (List.mem_of_mem_erase h)
          · exact (hext m h).1
        · intro v hv
          simp only [List.append_assoc, List.count_append]
          have h0 : (saviors.map (fun x => mon ++ [x]) ++ larger.map (fun x => mon ++ [x])).count v = 0 := by
            rw [List.count_eq_zero]
            intro hm; exact hv (hext v hm).2
          rw [List.count_append] at h0
          have := hcnt_erase v hv
          omega
    · rename_i hnf
      apply ih
      · exact hrest
      · exact hst
      · intro v hv
        have := hcnt v hv
        simp only at this
        rw [List.count_cons] at this
        have hne : (mon == v) = false := by
          rw [beq_eq_false_iff_ne]
          intro h; subst h
          exact hv (hits_of_not_fail perm L mon (by simpa using hnf))
        simp only [hne, Bool.false_eq_true, if_false, Nat.add_zero] at this
        exact this

theorem largerOf_contains (SG : PattDict) (L : Nat) (perm : NSeq) (hperm : IsPerm perm) :
    ∀ x ∈ largerOf SG L perm, Model.containsMesh perm ⟨x.2.1, x.2.2⟩ = true := by
  intro x hx
  unfold largerOf at hx
  split at hx
  · split at hx
    · obtain ⟨R, _, rfl⟩ := List.mem_map.mp hx
      exact containsMesh_self hperm R
    · cases hx
  · cases hx

theorem afterLoop_subset (r : List (List PId) × Bool) (ms : List (List PId))
    (h : afterLoop r = some ms) : ∀ m ∈ ms, m ∈ r.1 := by
  intro m hm
  unfold afterLoop at h
  split at h
  · split at h
    · cases h
    · simp only [Option.some.injEq] at h
      subst h
      exact List.mem_mergeSort.mp (reduceMon_subset _ m hm)
  · simp only [Option.some.injEq] at h
    subst h; exact hm

/-- one tested permutation -/
theorem stepPerm_inv (SG : PattDict) (lcp : List Nat) (L limit : Nat) (perm : NSeq) (hperm : IsPerm perm)
    (tested : List NSeq) (mon : Option (List (List PId)))
    (h : ∀ ms, mon = some ms → ∀ m ∈ ms, ∀ P ∈ tested, Hits P m) :
    ∀ ms, stepPerm SG lcp L limit mon perm = some ms → ∀ m ∈ ms, ∀ P ∈ tested ++ [perm], Hits P m := by
  intro ms hms m hm P hP
  unfold stepPerm at hms
  cases mon with
  | none => simp at hms
  | some ms0 =>
    cases ms0 with
    | nil => simp at hms
    | cons m0 rest =>
      simp only at hms
      have inv := monLoop_inv perm L limit (saviorsOf SG lcp L perm) (largerOf SG L perm)
        (fun x hx => (List.mem_filter.mp hx).2) (largerOf_contains SG L perm hperm)
        (fun m => ∀ P ∈ tested, Hits P m)
        (fun m x hm P hP => hits_append P m x (hm P hP)) (m0 :: rest) (m0 :: rest, false)
        (fun m hm => h _ rfl m hm) (fun m hm => h _ rfl m hm) (fun v _ => Nat.le_refl _)
      have hfin := afterLoop_subset _ ms hms m hm
      rcases List.mem_append.mp hP with hP | hP
      · exact inv.1 m hfin P hP
      · simp only [List.mem_singleton] at hP; subst hP
        exact inv.2 m hfin

theorem foldPerms_inv (SG : PattDict) (lcp : List Nat) (L limit : Nat) (perms : List NSeq)
    (hperms : ∀ P ∈ perms, IsPerm P) : ∀ (tested : List NSeq) (mon : Option (List (List PId))),
    (∀ ms, mon = some ms → ∀ m ∈ ms, ∀ P ∈ tested, Hits P m) →
    ∀ ms, perms.foldl (stepPerm SG lcp L limit) mon = some ms →
      ∀ m ∈ ms, ∀ P ∈ tested ++ perms, Hits P m := by
  induction perms with
  | nil => intro tested mon h ms hms m hm P hP; simp at hP hms; exact h ms hms m hm P hP
  | cons a t ih =>
    intro tested mon h ms hms m hm P hP
    simp only [List.foldl_cons] at hms
    have := ih (fun P hP => hperms P (List.mem_cons_of_mem _ hP)) (tested ++ [a]) _
      (stepPerm_inv SG lcp L limit a (hperms a (by simp)) tested mon h) ms hms m hm P
    apply this
    simp only [List.append_assoc, List.singleton_append]; exact hP

/-- **B3** every basis returned by `clean_up` has, for every tested bad permutation, a pattern
    occurring in it -/
theorem cleanUp_hits (SG : PattDict) (Bk : Nat → List NSeq) (permMin permMax pattMin pattMax limit : Nat)
    (hB : ∀ L, ∀ P ∈ Bk L, IsPerm P) :
    ∀ b ∈ cleanUp SG Bk permMin permMax pattMin pattMax limit,
      ∀ L, permMin ≤ L → L ≤ permMax → ∀ P ∈ Bk L, Hits P b := by
  intro b hb L hL1 hL2 P hP
  unfold cleanUp at hb
  simp only at hb
  split at hb
  · cases hb
  · have gen : ∀ (Ls : List Nat) (tested : List NSeq) (mon : Option (List (List PId))),
        (∀ ms, mon = some ms → ∀ m ∈ ms, ∀ P ∈ tested, Hits P m) →
        ∀ ms, Ls.foldl (fun mon L => (Bk L).foldl
            (stepPerm SG ((List.range' pattMin (pattMax + 1 - pattMin)).filter
              fun x => (SG.lookup x).isSome) L limit) mon) mon = some ms →
          ∀ m ∈ ms, ∀ P ∈ tested ++ Ls.flatMap Bk, Hits P m := by
      intro Ls
      induction Ls with
      | nil => intro tested mon h ms hms m hm P hP; simp at hP hms; exact h ms hms m hm P hP
      | cons a t ih =>
        intro tested mon h ms hms m hm P hP
        simp only [List.foldl_cons] at hms
        have := ih (tested ++ Bk a) _ (foldPerms_inv SG _ a limit (Bk a) (hB a) tested mon h) ms hms m hm P
        apply this
        simp only [List.flatMap_cons, List.append_assoc] at hP ⊢; exact hP
    cases hr : (List.range' permMin (permMax + 1 - permMin)).foldl (fun mon L => (Bk L).foldl
        (stepPerm SG ((List.range' pattMin (pattMax + 1 - pattMin)).filter
          fun x => (SG.lookup x).isSome) L limit) mon)
        (some (oneForEach (((SG.lookup (((List.range' pattMin (pattMax + 1 - pattMin)).filter
          fun x => (SG.lookup x).isSome).headD 0)).getD []).map fun e => e.2.map fun R =>
            ((((List.range' pattMin (pattMax + 1 - pattMin)).filter
              fun x => (SG.lookup x).isSome).headD 0), e.1, R)))) with
    | none => rw [hr] at hb; simp at hb
    | some ms =>
      rw [hr] at hb; simp only [Option.getD_some] at hb
      have := gen _ [] _ (fun ms _ m _ P hP => by cases hP) ms hr b hb P
      apply this
      simp only [List.nil_append, List.mem_flatMap]
      exact ⟨L, by rw [List.mem_range'_1]; omega, hP⟩

end Model.C17
