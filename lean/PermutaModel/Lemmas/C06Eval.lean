import PermutaModel.Lemmas.C06Sub
/-! `sub_mesh_pattern` on a strictly increasing in-range index list: value and meaning. -/
open Model Proto

namespace C06Lemmas
open MeshLemmas

def shadedB (μ : Mesh) (l b r t : Nat) : Bool :=
  (List.range' b (t + 1 - b)).all fun y => (List.range' l (r + 1 - l)).all fun x => μ.shading.contains (x, y)

def pointfreeB (μ : Mesh) (l b r t : Nat) : Bool :=
  !(List.range' l (r - l)).any fun idx => b ≤ μ.pattern.getD idx 0 && μ.pattern.getD idx 0 < t

theorem shadedB_iff (μ : Mesh) (l b r t : Nat) : shadedB μ l b r t = true ↔ rectShaded μ l b r t := by
  simp only [shadedB, List.all_eq_true, List.mem_range'_1, List.contains_iff_mem, rectShaded]
  constructor
  · intro h y hy1 hy2 x hx1 hx2
    exact h y ⟨hy1, by omega⟩ x ⟨hx1, by omega⟩
  · intro h y hy x hx
    exact h y hy.1 (by omega) x hx.1 (by omega)

theorem pointfreeB_iff (μ : Mesh) (l b r t : Nat) : pointfreeB μ l b r t = true ↔ rectPointfree μ l b r t := by
  simp only [pointfreeB, Bool.not_eq_true', List.any_eq_false, List.mem_range'_1, Bool.and_eq_true,
    decide_eq_true_eq, rectPointfree]
  constructor
  · intro h idx h1 h2; exact h idx ⟨h1, by omega⟩
  · intro h idx hidx; exact h idx hidx.1 (by omega)

theorem isShadedRect_eq (μ : Mesh) (l b r t : Nat) (hl : l ≤ μ.pattern.length) (hb : b ≤ μ.pattern.length)
    (hr : r ≤ μ.pattern.length) (ht : t ≤ μ.pattern.length) (hlr : l ≤ r) (hbt : b ≤ t) :
    isShadedRect μ l b r t = .ok (shadedB μ l b r t) := by
  unfold isShadedRect shadedB
  simp only [hl, hb, hr, ht, hlr, hbt, and_self, not_true_eq_false, if_false]

theorem isPointfree_eq (μ : Mesh) (l b r t : Nat) (hl : l ≤ μ.pattern.length) (hb : b ≤ μ.pattern.length)
    (hr : r ≤ μ.pattern.length) (ht : t ≤ μ.pattern.length) (hlr : l ≤ r) (hbt : b ≤ t) :
    isPointfree μ l b r t = .ok (pointfreeB μ l b r t) := by
  unfold isPointfree pointfreeB
  simp only [hl, hb, hr, ht, hlr, hbt, and_self, not_true_eq_false, if_false]

theorem subCellKept_ok (μ : Mesh) (V H : List Nat) (xy : Cell)
    (hl : V.getD xy.1 0 ≤ μ.pattern.length) (hb : H.getD xy.2 0 ≤ μ.pattern.length)
    (hr : V.getD (xy.1+1) 0 - 1 ≤ μ.pattern.length) (ht : H.getD (xy.2+1) 0 - 1 ≤ μ.pattern.length)
    (hlr : V.getD xy.1 0 ≤ V.getD (xy.1+1) 0 - 1) (hbt : H.getD xy.2 0 ≤ H.getD (xy.2+1) 0 - 1) :
    subCellKept μ V H xy = .ok
      (shadedB μ (V.getD xy.1 0) (H.getD xy.2 0) (V.getD (xy.1+1) 0 - 1) (H.getD (xy.2+1) 0 - 1) &&
       pointfreeB μ (V.getD xy.1 0) (H.getD xy.2 0) (V.getD (xy.1+1) 0 - 1) (H.getD (xy.2+1) 0 - 1)) := by
  unfold subCellKept
  rw [isShadedRect_eq μ _ _ _ _ hl hb hr ht hlr hbt]
  cases hs : shadedB μ (V.getD xy.1 0) (H.getD xy.2 0) (V.getD (xy.1+1) 0 - 1) (H.getD (xy.2+1) 0 - 1)
  · rfl
  · simp only [Bool.true_and]
    exact isPointfree_eq μ _ _ _ _ hl hb hr ht hlr hbt

theorem countLt_self {c : List Nat} (hc : c.Pairwise (· < ·)) {j : Nat} (hj : j < c.length) :
    (c.filter (· < c.getD j 0)).length = j := by
  rw [countLt_eq_iff c hc _ j (by omega)]
  refine ⟨?_, fun _ => Nat.le_refl _⟩
  by_cases h0 : j = 0
  · exact Or.inl h0
  · exact Or.inr (getD_lt_of_lt hc (by omega) hj)

/-- **value and meaning of `sub_mesh_pattern`** for a strictly increasing, in-range index list (the empty one included) -/
theorem subMesh_eval (μ : Mesh) (c : List Nat) (hπ : IsPerm μ.pattern) (hc : StrictInc c)
    (hr : ∀ i ∈ c, i < μ.pattern.length) :
    ∃ sh, subMeshPattern μ c = .ok ⟨standardize (Spec.pick μ.pattern c), sh⟩ ∧
      ∀ x y, (x, y) ∈ sh ↔ Spec.SubShaded μ c x y := by
  have hnd : c.Nodup := strictInc_nodup hc
  -- the two boundary lists
  have hVs := vList_sorted hc
  have hVr := vList_range hr
  have hHs := hList_sorted hπ hnd hr
  have hHr := hList_range hπ hr
  have hVlen : (c.map (· + 1)).length = c.length := by simp
  have hHlen := hList_length μ.pattern c
  have hany : (c.any fun i => decide (μ.pattern.length ≤ i)) = false := by
    rw [List.any_eq_false]; intro i hi; have := hr i hi; simp; omega
  unfold subMeshPattern
  rw [mergeSort_strictInc hc]
  simp only [hany, Bool.false_eq_true, if_false]
  have e1 : [0] ++ List.map (fun x => x + 1) c ++ [μ.pattern.length + 1]
      = bnd (c.map (· + 1)) μ.pattern.length := rfl
  have e2 : ([0] ++ (List.map (fun i => μ.pattern.getD i 0 + 1) c).mergeSort (fun x1 x2 => decide (x1 ≤ x2)) ++
      [μ.pattern.length + 1]) = bnd (hList μ.pattern c) μ.pattern.length := rfl
  rw [e1, e2]
  have e3 : List.map (fun i => μ.pattern.getD i 0) c = Spec.pick μ.pattern c := rfl
  rw [e3]
  set V := bnd (c.map (· + 1)) μ.pattern.length with hV
  set H := bnd (hList μ.pattern c) μ.pattern.length with hH
  let g : Cell → Bool := fun xy =>
    shadedB μ (V.getD xy.1 0) (H.getD xy.2 0) (V.getD (xy.1+1) 0 - 1) (H.getD (xy.2+1) 0 - 1) &&
    pointfreeB μ (V.getD xy.1 0) (H.getD xy.2 0) (V.getD (xy.1+1) 0 - 1) (H.getD (xy.2+1) 0 - 1)
  have fvF : ∀ x, x ≤ c.length → V.getD x 0 ≤ μ.pattern.length ∧ V.getD x 0 < V.getD (x+1) 0 ∧
      V.getD (x+1) 0 ≤ μ.pattern.length + 1 :=
    fun x hx => bnd_facts _ μ.pattern.length hVs hVr x (by rw [hVlen]; exact hx)
  have fhF : ∀ y, y ≤ c.length → H.getD y 0 ≤ μ.pattern.length ∧ H.getD y 0 < H.getD (y+1) 0 ∧
      H.getD (y+1) 0 ≤ μ.pattern.length + 1 :=
    fun y hy => bnd_facts _ μ.pattern.length hHs hHr y (by rw [hHlen]; exact hy)
  have hcells : ∀ xy ∈ gridCells c.length, subCellKept μ V H xy = .ok (g xy) := by
    rintro ⟨x, y⟩ hxy
    rw [mem_gridCells] at hxy
    have fv := fvF x hxy.1
    have fh := fhF y hxy.2
    exact subCellKept_ok μ V H (x, y) fv.1 fh.1
      (by show V.getD (x+1) 0 - 1 ≤ _; omega) (by show H.getD (y+1) 0 - 1 ≤ _; omega)
      (by show V.getD x 0 ≤ V.getD (x+1) 0 - 1; omega) (by show H.getD y 0 ≤ H.getD (y+1) 0 - 1; omega)
  rw [filterE_ok _ g _ hcells]
  refine ⟨_, rfl, fun x y => ?_⟩
  rw [List.mem_filter, mem_gridCells]
  simp only [g, Bool.and_eq_true, shadedB_iff, pointfreeB_iff]
  -- interval characterisations
  have ivV : ∀ a, x ≤ c.length → a ≤ μ.pattern.length →
      (Spec.countLt c a = x ↔ V.getD x 0 ≤ a ∧ a ≤ V.getD (x+1) 0 - 1) := by
    intro a hx ha
    have := bnd_iff _ μ.pattern.length hVs hVr x a (by rw [hVlen]; exact hx) ha
    rw [countLt_map_succ] at this
    exact this
  have ivH : ∀ b, y ≤ c.length → b ≤ μ.pattern.length →
      (Spec.countLt (Spec.pick μ.pattern c) b = y ↔ H.getD y 0 ≤ b ∧ b ≤ H.getD (y+1) 0 - 1) := by
    intro b hy hb
    have := bnd_iff _ μ.pattern.length hHs hHr y b (by rw [hHlen]; exact hy) hb
    rw [countLt_hList] at this
    exact this
  constructor
  · rintro ⟨⟨hx, hy⟩, hsh, hpf⟩
    have fv := fvF x hx
    have fh := fhF y hy
    refine ⟨hx, hy, ?_, ?_⟩
    · intro a b ha hb hca hcb
      have h1 := (ivV a hx ha).mp hca
      have h2 := (ivH b hy hb).mp hcb
      exact hsh b h2.1 h2.2 a h1.1 h1.2
    · intro idx hidx hic hcell
      have hcx : Spec.countLt c idx = x := congrArg Prod.fst hcell
      have hcy : Spec.countLt (Spec.pick μ.pattern c) (μ.pattern.getD idx 0) = y := by
        have := congrArg Prod.snd hcell
        unfold Spec.countLt; rw [filter_pick_length]; exact this
      have hpl := hπ.getD_lt hidx
      have h1 := (ivV idx hx (by omega)).mp hcx
      have h2 := (ivH _ hy (by omega)).mp hcy
      apply hpf idx h1.1
      · -- idx < right end
        rcases bnd_upper (c.map (· + 1)) μ.pattern.length x (by rw [hVlen]; exact hx) with ⟨he, _⟩ | ⟨hlt, he⟩
        · rw [← hV] at he; omega
        · rw [← hV] at he
          rw [hVlen] at hlt
          have hcm : (c.map (· + 1)).getD x 0 = c.getD x 0 + 1 := by
            simp [List.getD_eq_getElem?_getD, List.getElem?_eq_getElem hlt]
          have hne' : idx ≠ c.getD x 0 := fun h => hic (h ▸ getD_mem hlt)
          omega
      · refine ⟨h2.1, ?_⟩
        rcases bnd_upper (hList μ.pattern c) μ.pattern.length y (by rw [hHlen]; exact hy) with ⟨he, _⟩ | ⟨hlt, he⟩
        · rw [← hH] at he; omega
        · rw [← hH] at he
          have hmem : (hList μ.pattern c).getD y 0 ∈ hList μ.pattern c := getD_mem hlt
          rw [(hList_perm μ.pattern c).mem_iff] at hmem
          simp only [Spec.pick, List.map_map, List.mem_map, Function.comp] at hmem
          obtain ⟨j, hj, hje⟩ := hmem
          have hne' : μ.pattern.getD idx 0 ≠ μ.pattern.getD j 0 := by
            intro h
            exact hic ((hπ.getD_inj hidx (hr j hj) h) ▸ hj)
          omega
  · rintro ⟨hx, hy, hsh, hpf⟩
    have fv := fvF x hx
    have fh := fhF y hy
    refine ⟨⟨hx, hy⟩, ?_, ?_⟩
    · intro b hb1 hb2 a ha1 ha2
      have ha : a ≤ μ.pattern.length := by omega
      have hb : b ≤ μ.pattern.length := by omega
      exact hsh a b ha hb ((ivV a hx ha).mpr ⟨ha1, ha2⟩) ((ivH b hy hb).mpr ⟨hb1, hb2⟩)
    · intro idx hi1 hi2 ⟨hv1, hv2⟩
      have hidx : idx < μ.pattern.length := by omega
      have hcx : Spec.countLt c idx = x := (ivV idx hx (by omega)).mpr ⟨hi1, by omega⟩
      have hcy : Spec.countLt (Spec.pick μ.pattern c) (μ.pattern.getD idx 0) = y :=
        (ivH _ hy (by omega)).mpr ⟨hv1, by omega⟩
      have hic : idx ∉ c := by
        intro hmem
        obtain ⟨j, hj, hje⟩ := List.getElem_of_mem hmem
        have hje' : c.getD j 0 = idx := by rw [getD_eq_getElem c j hj]; exact hje
        have : Spec.countLt c idx = j := by rw [← hje']; exact countLt_self hc hj
        have hjx : j = x := by omega
        subst hjx
        rcases bnd_upper (c.map (· + 1)) μ.pattern.length j (by rw [hVlen]; exact hx) with ⟨_, he⟩ | ⟨hlt, he⟩
        · rw [hVlen] at he; omega
        · rw [← hV] at he
          have hcm : (c.map (· + 1)).getD j 0 = c.getD j 0 + 1 := by
            simp [List.getD_eq_getElem?_getD, List.getElem?_eq_getElem hj]
          omega
      apply hpf idx hidx hic
      show ((c.filter (· < idx)).length, (c.filter fun j => μ.pattern.getD j 0 < μ.pattern.getD idx 0).length) = (x, y)
      rw [← filter_pick_length]
      exact Prod.ext hcx hcy

end C06Lemmas
