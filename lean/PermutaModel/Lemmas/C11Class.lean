import PermutaModel.Lemmas.C11Dist
import PermutaModel.Model.C11Tools
import PermutaModel.Spec.C11
/-! Helper lemmas for C11: the members of the modelled classes are permutations; non-negativity of holeyness. -/
open Model.Stat

namespace C11L

theorem mem_permsAux : ∀ (k : Nat) (l s : List Nat), l.Nodup → s ∈ Model.permsAux k l →
    s.Nodup ∧ s.length = k ∧ ∀ x ∈ s, x ∈ l := by
  intro k
  induction k with
  | zero => intro l s _ hs; simp [Model.permsAux] at hs; subst hs; simp
  | succ k ih =>
    intro l s hl hs
    simp only [Model.permsAux, List.mem_flatMap, List.mem_map] at hs
    obtain ⟨x, hx, t, ht, rfl⟩ := hs
    obtain ⟨h1, h2, h3⟩ := ih (l.erase x) t (hl.erase x) ht
    refine ⟨List.nodup_cons.mpr ⟨?_, h1⟩, by simp [h2], ?_⟩
    · intro hxt
      have := h3 x hxt
      exact (List.Nodup.mem_erase_iff hl).mp this |>.1 rfl
    · intro y hy
      rcases List.mem_cons.mp hy with rfl | hy
      · exact hx
      · exact List.mem_of_mem_erase (h3 y hy)

/-- every member of `Perm.of_length(n)` as modelled is a permutation -/
theorem isPerm_of_mem_permsLex {n : Nat} {s : NSeq} (h : s ∈ Model.permsLex n) : IsPerm s := by
  obtain ⟨h1, h2, h3⟩ := mem_permsAux n (List.range n) s List.nodup_range h
  exact ⟨h1, fun x hx => by rw [h2]; exact List.mem_range.mp (h3 x hx)⟩

theorem isPerm_of_mem_class {basis : Option (List NSeq)} {n : Nat} {s : NSeq} (h : s ∈ classOfLength basis n) :
    IsPerm s := by
  cases basis with
  | none => exact isPerm_of_mem_permsLex h
  | some b => exact isPerm_of_mem_permsLex (List.mem_filter.mp h).1

theorem specMaxInt_nonneg_of_head (t : List Int) : 0 ≤ Spec.Stat.maxInt (0 :: t) := by
  simp only [Spec.Stat.maxInt]
  exact (le_foldl_max t 0).1

theorem specHoleyness_nonneg (σ : NSeq) : 0 ≤ Spec.Stat.holeyness σ := by
  unfold Spec.Stat.holeyness
  have : ∀ l : List Nat, ∃ t, Spec.Stat.sublists l = [] :: t := by
    intro l
    induction l with
    | nil => exact ⟨[], rfl⟩
    | cons x u ih =>
      obtain ⟨t, ht⟩ := ih
      exact ⟨t ++ (Spec.Stat.sublists u).map (x :: ·), by simp [Spec.Stat.sublists, ht]⟩
  obtain ⟨t, ht⟩ := this (Spec.Stat.positions σ)
  rw [ht, List.map_cons]
  have : ((Spec.Stat.delta (([] : List Nat).map fun i => σ.getD i 0) : Int) - (Spec.Stat.delta [] : Int)) = 0 := by
    simp [Spec.Stat.delta]
  rw [this]
  exact specMaxInt_nonneg_of_head _

end C11L
