import PermutaModel.Model.C12
import PermutaModel.Spec.C12
/-! C12: the recursive sorting code of perm.py is the corresponding device (all lists of naturals). -/
open Model Spec

namespace C12

/-! ### the split at the first maximum -/

theorem maxPos_spec : ∀ (l : List Nat), l ≠ [] →
    l = l.take (maxPos l).1 ++ (maxPos l).2 :: l.drop ((maxPos l).1 + 1) ∧
    (∀ x ∈ l.take (maxPos l).1, x < (maxPos l).2) ∧ (∀ x ∈ l.drop ((maxPos l).1 + 1), x ≤ (maxPos l).2)
  | [], h => absurd rfl h
  | [x], _ => by simp [maxPos]
  | x :: y :: t, _ => by
    obtain ⟨h1, h2, h3⟩ := maxPos_spec (y :: t) (by simp)
    by_cases hx : x < (maxPos (y :: t)).2
    · have e : maxPos (x :: y :: t) = ((maxPos (y :: t)).1 + 1, (maxPos (y :: t)).2) := by
        rw [maxPos]; simp [hx]
      rw [e]
      refine ⟨?_, ?_, ?_⟩
      · simp only [List.take_succ_cons, List.drop_succ_cons, List.cons_append]
        exact congrArg (x :: ·) h1
      · intro z hz
        simp only [List.take_succ_cons, List.mem_cons] at hz
        rcases hz with rfl | hz
        · exact hx
        · exact h2 z hz
      · intro z hz
        simp only [List.drop_succ_cons] at hz
        exact h3 z hz
    · have e : maxPos (x :: y :: t) = (0, x) := by rw [maxPos]; simp [hx]
      rw [e]
      refine ⟨by simp, by simp, ?_⟩
      intro z hz
      simp only [Nat.zero_add, List.drop_succ_cons, List.drop_zero] at hz
      have hle : z ≤ (maxPos (y :: t)).2 := by
        rw [h1] at hz
        rcases List.mem_append.mp hz with hz | hz
        · exact Nat.le_of_lt (h2 z hz)
        · rcases List.mem_cons.mp hz with rfl | hz
          · exact Nat.le_refl _
          · exact h3 z hz
      show z ≤ x
      omega

/-! ### stack -/

theorem popWhileLt_all (x : Nat) : ∀ (st : List Nat), (∀ t ∈ st, t < x) → popWhileLt x st = (st, [])
  | [], _ => rfl
  | t :: st, h => by
    have ht : t < x := h t (by simp)
    have ih := popWhileLt_all x st (fun u hu => h u (by simp [hu]))
    simp [popWhileLt, ht, ih]

theorem popWhileLt_append (x : Nat) (B : List Nat) (hB : ∀ b ∈ B, ¬ b < x) :
    ∀ (st : List Nat), popWhileLt x (st ++ B) = ((popWhileLt x st).1, (popWhileLt x st).2 ++ B)
  | [] => by
    cases B with
    | nil => rfl
    | cons b B => simp [popWhileLt, hB b (by simp)]
  | t :: st => by
    have ih := popWhileLt_append x B hB st
    by_cases ht : t < x
    · simp [popWhileLt, ht, ih]
    · simp [popWhileLt, ht]

/-- entries that are never smaller than an incoming entry stay at the bottom of the stack until the flush -/
theorem stackRun_append_bottom : ∀ (R st B : List Nat), (∀ x ∈ R, ∀ b ∈ B, ¬ b < x) →
    stackRun R (st ++ B) = stackRun R st ++ B
  | [], st, B, _ => rfl
  | x :: R, st, B, h => by
    have hB : ∀ b ∈ B, ¬ b < x := fun b hb => h x (by simp) b hb
    have ih := stackRun_append_bottom R (x :: (popWhileLt x st).2) B
      (fun y hy b hb => h y (by simp [hy]) b hb)
    simp only [stackRun, popWhileLt_append x B hB st]
    rw [← List.cons_append, ih, List.append_assoc]

/-- output produced while reading `L`, and the stack afterwards -/
def stackOut : List Nat → List Nat → List Nat
  | [], _ => []
  | x :: xs, st => (popWhileLt x st).1 ++ stackOut xs (x :: (popWhileLt x st).2)
def stackStk : List Nat → List Nat → List Nat
  | [], st => st
  | x :: xs, st => stackStk xs (x :: (popWhileLt x st).2)

theorem stackRun_append : ∀ (L M st : List Nat),
    stackRun (L ++ M) st = stackOut L st ++ stackRun M (stackStk L st)
  | [], M, st => rfl
  | x :: L, M, st => by
    simp only [List.cons_append, stackRun, stackOut, stackStk, stackRun_append L M, List.append_assoc]

theorem stackRun_eq_out_stk (L st : List Nat) : stackRun L st = stackOut L st ++ stackStk L st := by
  have := stackRun_append L [] st
  simpa [stackRun] using this

theorem popWhileLt_snd_subset (x : Nat) : ∀ (st : List Nat), ∀ t ∈ (popWhileLt x st).2, t ∈ st
  | [], t, h => by simp [popWhileLt] at h
  | u :: st, t, h => by
    by_cases hu : u < x
    · simp only [popWhileLt, hu, if_true] at h
      exact List.mem_cons_of_mem _ (popWhileLt_snd_subset x st t h)
    · simpa [popWhileLt, hu] using h

theorem mem_stackStk : ∀ (L st : List Nat), ∀ t ∈ stackStk L st, t ∈ L ∨ t ∈ st
  | [], st, t, h => Or.inr h
  | x :: L, st, t, h => by
    rcases mem_stackStk L _ t h with h | h
    · exact Or.inl (List.mem_cons_of_mem _ h)
    · rcases List.mem_cons.mp h with rfl | h
      · exact Or.inl (by simp)
      · exact Or.inr (popWhileLt_snd_subset x st t h)

/-- **the device across a maximum**: `S(L m R) = S(L) S(R) m` -/
theorem stackPass_split (L R : List Nat) (m : Nat) (hL : ∀ x ∈ L, x < m) (hR : ∀ x ∈ R, x ≤ m) :
    stackPass (L ++ m :: R) = stackPass L ++ stackPass R ++ [m] := by
  unfold stackPass
  rw [stackRun_append, stackRun_eq_out_stk L []]
  have hs : ∀ t ∈ stackStk L [], t < m := by
    intro t ht
    rcases mem_stackStk L [] t ht with h | h
    · exact hL t h
    · simp at h
  have hb := stackRun_append_bottom R [] [m] (by
    intro x hx b hb
    simp only [List.mem_singleton] at hb
    subst hb
    have := hR x hx
    omega)
  simp only [List.nil_append] at hb
  simp only [stackRun, popWhileLt_all m _ hs, hb, List.append_assoc]

theorem stackSort_nil : stackSort [] = [] := by unfold stackSort; simp
theorem stackSort_single (x : Nat) : stackSort [x] = [x] := by unfold stackSort; simp

/-- the code's three branches are one equation -/
theorem stackSort_step (l : List Nat) (h : 2 ≤ l.length) :
    stackSort l = stackSort (l.take (maxPos l).1) ++ stackSort (l.drop ((maxPos l).1 + 1)) ++ [(maxPos l).2] := by
  have hne : l ≠ [] := by intro e; subst e; simp at h
  have hlt := maxPos_lt l hne
  rw [stackSort]
  have h0 : ¬ (l.length = 0 ∨ l.length = 1) := by omega
  simp only [h0, if_false]
  by_cases h1 : (maxPos l).1 = 0
  · simp [h1, stackSort_nil]
  · simp only [h1, if_false]
    by_cases h2 : (maxPos l).1 = l.length - 1
    · have : (maxPos l).1 + 1 = l.length := by omega
      simp only [h2, if_true]
      rw [← h2, this, List.drop_length, stackSort_nil, List.append_nil]
    · simp [h2]

/-- **A1** `Perm._stack_sort` is one pass through a stack, on every list -/
theorem stackSort_eq_stackPass (l : List Nat) : stackSort l = stackPass l := by
  induction hn : l.length using Nat.strongRecOn generalizing l with
  | _ n ih =>
    subst hn
    match l, ih with
    | [], _ => simp [stackSort_nil, stackPass, stackRun]
    | [x], _ => simp [stackSort_single, stackPass, stackRun, popWhileLt]
    | x :: y :: t, ih =>
      have hne : (x :: y :: t) ≠ [] := by simp
      obtain ⟨hd, hL, hR⟩ := maxPos_spec (x :: y :: t) hne
      have hlt := maxPos_lt (x :: y :: t) hne
      rw [stackSort_step _ (by simp)]
      rw [ih _ (by simp only [List.length_take]; omega) _ rfl,
          ih _ (by simp only [List.length_drop]; omega) _ rfl]
      conv => rhs; rw [hd]
      exact (stackPass_split _ _ _ hL hR).symm

/-! ### bubble -/

theorem bubbleCarry_le (m : Nat) : ∀ (R : List Nat), (∀ x ∈ R, x ≤ m) → bubbleCarry m R = R ++ [m]
  | [], _ => rfl
  | y :: t, h => by
    have hy : y ≤ m := h y (by simp)
    have ih := bubbleCarry_le m t (fun u hu => h u (by simp [hu]))
    by_cases hlt : y < m
    · simp [bubbleCarry, hlt, ih]
    · have : y = m := by omega
      subst this
      simp [bubbleCarry, ih]

theorem bubbleCarry_split (m : Nat) (R : List Nat) : ∀ (L : List Nat) (c : Nat), c < m → (∀ x ∈ L, x < m) →
    bubbleCarry c (L ++ m :: R) = bubbleCarry c L ++ bubbleCarry m R
  | [], c, hc, _ => by
    have : ¬ m < c := by omega
    simp [bubbleCarry, this]
  | y :: t, c, hc, h => by
    have hy : y < m := h y (by simp)
    have ht : ∀ x ∈ t, x < m := fun u hu => h u (by simp [hu])
    by_cases hyc : y < c
    · simp [bubbleCarry, hyc, bubbleCarry_split m R t c hc ht]
    · simp [bubbleCarry, hyc, bubbleCarry_split m R t y hy ht]

/-- the sweep across a maximum: `B(L m R) = B(L) R m` -/
theorem bubblePass_split (L R : List Nat) (m : Nat) (hL : ∀ x ∈ L, x < m) (hR : ∀ x ∈ R, x ≤ m) :
    bubblePass (L ++ m :: R) = bubblePass L ++ R ++ [m] := by
  cases L with
  | nil => simp [bubblePass, bubbleCarry_le m R hR]
  | cons x L =>
    simp only [List.cons_append, bubblePass]
    rw [bubbleCarry_split m R L x (hL x (by simp)) (fun u hu => hL u (by simp [hu])), bubbleCarry_le m R hR,
      List.append_assoc]

theorem bubbleSort_nil : bubbleSort [] = [] := by unfold bubbleSort; simp
theorem bubbleSort_single (x : Nat) : bubbleSort [x] = [x] := by unfold bubbleSort; simp

theorem bubbleSort_step (l : List Nat) (h : 2 ≤ l.length) :
    bubbleSort l = bubbleSort (l.take (maxPos l).1) ++ l.drop ((maxPos l).1 + 1) ++ [(maxPos l).2] := by
  have hne : l ≠ [] := by intro e; subst e; simp at h
  have hlt := maxPos_lt l hne
  rw [bubbleSort]
  have h0 : ¬ (l.length = 0 ∨ l.length = 1) := by omega
  simp only [h0, if_false]
  by_cases h1 : (maxPos l).1 = 0
  · simp [h1, bubbleSort_nil]
  · simp only [h1, if_false]
    by_cases h2 : (maxPos l).1 = l.length - 1
    · have : (maxPos l).1 + 1 = l.length := by omega
      simp only [h2, if_true]
      rw [← h2, this, List.drop_length, List.append_nil]
    · simp [h2]

/-- **A1** `Perm._bubble_sort` is one sweep of adjacent transpositions, on every list -/
theorem bubbleSort_eq_bubblePass (l : List Nat) : bubbleSort l = bubblePass l := by
  induction hn : l.length using Nat.strongRecOn generalizing l with
  | _ n ih =>
    subst hn
    match l, ih with
    | [], _ => simp [bubbleSort_nil, bubblePass]
    | [x], _ => simp [bubbleSort_single, bubblePass, bubbleCarry]
    | x :: y :: t, ih =>
      have hne : (x :: y :: t) ≠ [] := by simp
      obtain ⟨hd, hL, hR⟩ := maxPos_spec (x :: y :: t) hne
      have hlt := maxPos_lt (x :: y :: t) hne
      rw [bubbleSort_step _ (by simp)]
      rw [ih _ (by simp only [List.length_take]; omega) _ rfl]
      conv => rhs; rw [hd]
      exact (bubblePass_split _ _ _ hL hR).symm

/-! ### pop-stack -/

theorem popStackGo_eq : ∀ (l st res : List Nat), popStackGo l st res = res ++ popRun l st
  | [], st, res => rfl
  | x :: xs, [], res => by
    simp [popStackGo, popRun, popStackGo_eq xs [x] res]
  | x :: xs, t :: st, res => by
    by_cases h : t < x
    · simp [popStackGo, popRun, h, popStackGo_eq xs [x] (res ++ t :: st)]
    · simp [popStackGo, popRun, h, popStackGo_eq xs (x :: t :: st) res]

/-- **A1** `Perm.pop_stack_sort` (deque with `appendleft`) is one pass through a pop-stack -/
theorem popStackSort_eq_popStackPass (l : List Nat) : popStackSort l = popStackPass l := by
  simp [popStackSort, popStackPass, popStackGo_eq]

end C12
