import PermutaModel.Lemmas.C10Algebra

/-! Insertion and removal: closure and the two round trips. -/
open Model

namespace C10L

/-- the renumbering of `insert`: make room for the new value `v` -/
def bump (v w : Nat) : Nat := if w < v then w else w + 1
/-- the renumbering of `remove`: close the gap left by `sel` -/
def unbump (sel w : Nat) : Nat := if w < sel then w else w - 1

theorem insertAt_eq (p : NSeq) (i v : Nat) :
    insertAt p i v = (p.take i).map (bump v) ++ [v] ++ (p.drop i).map (bump v) := rfl

theorem removeElement_eq (p : NSeq) (sel : Nat) :
    removeElement p sel = (p.filter (· != sel)).map (unbump sel) := rfl

theorem removeAt_eq (p : NSeq) (i : Nat) : removeAt p i = removeElement p (p.getD i 0) := rfl

theorem bump_ne (v w : Nat) : bump v w ≠ v := by unfold bump; split <;> omega
theorem unbump_bump (v w : Nat) : unbump v (bump v w) = w := by
  simp only [bump, unbump]; split_ifs <;> omega
theorem bump_unbump {sel w : Nat} (h : w ≠ sel) : bump sel (unbump sel w) = w := by
  simp only [bump, unbump]; split_ifs <;> omega
theorem bump_inj {v a b : Nat} (h : bump v a = bump v b) : a = b := by
  have := congrArg (unbump v) h; rwa [unbump_bump, unbump_bump] at this

@[simp] theorem length_insertAt (p : NSeq) (i v : Nat) : (insertAt p i v).length = p.length + 1 := by
  rw [insertAt_eq]
  simp only [List.length_append, List.length_map, List.length_take, List.length_drop, List.length_cons,
    List.length_nil]
  omega

theorem insertAt_perm (p : NSeq) (i v : Nat) : (insertAt p i v).Perm (v :: p.map (bump v)) := by
  rw [insertAt_eq]
  have h : (p.take i).map (bump v) ++ (p.drop i).map (bump v) = p.map (bump v) := by
    rw [← List.map_append, List.take_append_drop]
  rw [← h, List.append_assoc]
  exact List.perm_middle

theorem insertAt_isPerm {p : NSeq} (hp : IsPerm p) (i : Nat) {v : Nat} (hv : v ≤ p.length) :
    IsPerm (insertAt p i v) := by
  have hperm := insertAt_perm p i v
  refine ⟨hperm.nodup_iff.mpr ?_, ?_⟩
  · rw [List.nodup_cons]
    refine ⟨?_, List.Nodup.map_on (fun x _ y _ h => bump_inj h) hp.1⟩
    intro hmem
    obtain ⟨w, _, hw⟩ := List.mem_map.mp hmem
    exact bump_ne v w hw
  · intro x hx
    rw [length_insertAt]
    rcases List.mem_cons.mp (hperm.mem_iff.mp hx) with rfl | h
    · omega
    · obtain ⟨w, hw, rfl⟩ := List.mem_map.mp h
      have := hp.2 w hw
      unfold bump; split <;> omega

theorem insertAt_getD_self (p : NSeq) {i : Nat} (hi : i ≤ p.length) (v : Nat) :
    (insertAt p i v).getD i 0 = v := by
  rw [insertAt_eq, List.append_assoc]
  rw [List.getD_append_right _ _ _ _ (by simp [Nat.min_eq_left hi])]
  simp [Nat.min_eq_left hi]

/-- `remove(insert(p, i, v), i) = p` for every index `0 ≤ i ≤ n` (no permutation hypothesis needed) -/
theorem removeAt_insertAt (p : NSeq) {i : Nat} (hi : i ≤ p.length) (v : Nat) :
    removeAt (insertAt p i v) i = p := by
  rw [removeAt_eq, insertAt_getD_self p hi v, removeElement_eq, insertAt_eq]
  simp only [List.filter_append, List.filter_map, List.map_append, List.map_map]
  have hf : ∀ l : NSeq, (l.filter ((fun x => x != v) ∘ bump v)) = l := by
    intro l
    apply List.filter_eq_self.mpr
    intro a _
    simpa using bump_ne v a
  have hu : (unbump v ∘ bump v) = id := by
    funext w; exact unbump_bump v w
  simp [hf, hu]

theorem removeElement_insertAt (p : NSeq) (i v : Nat) : removeElement (insertAt p i v) v = p := by
  rw [removeElement_eq, insertAt_eq]
  simp only [List.filter_append, List.filter_map, List.map_append, List.map_map]
  have hf : ∀ l : NSeq, (l.filter ((fun x => x != v) ∘ bump v)) = l := by
    intro l
    apply List.filter_eq_self.mpr
    intro a _
    simpa using bump_ne v a
  have hu : (unbump v ∘ bump v) = id := by
    funext w; exact unbump_bump v w
  simp [hf, hu]

theorem filter_ne_mid {a b : NSeq} {x : Nat} (hn : (a ++ x :: b).Nodup) :
    (a ++ x :: b).filter (· != x) = a ++ b := by
  rw [List.nodup_append] at hn
  obtain ⟨_, h2, h3⟩ := hn
  rw [List.nodup_cons] at h2
  rw [List.filter_append, List.filter_cons]
  simp only [bne_self_eq_false, Bool.false_eq_true, if_false]
  congr 1
  · apply List.filter_eq_self.mpr
    intro y hy
    have := h3 y hy x (by simp)
    simpa using this
  · apply List.filter_eq_self.mpr
    intro y hy
    have : y ≠ x := fun h => h2.1 (h ▸ hy)
    simpa using this

theorem split_at {p : NSeq} {i : Nat} (hi : i < p.length) :
    p = p.take i ++ p.getD i 0 :: p.drop (i + 1) := by
  rw [getD_eq_getElem' hi, List.cons_getElem_drop_succ, List.take_append_drop]

/-- in a duplicate-free list, filtering out the entry at position `i` removes exactly that position -/
theorem filter_ne_getD {p : NSeq} (hn : p.Nodup) {i : Nat} (hi : i < p.length) :
    p.filter (· != p.getD i 0) = p.take i ++ p.drop (i + 1) := by
  have hsplit := split_at hi
  generalize p.getD i 0 = x at hsplit ⊢
  have hn' : (p.take i ++ x :: p.drop (i + 1)).Nodup := by rw [← hsplit]; exact hn
  calc p.filter (· != x) = (p.take i ++ x :: p.drop (i + 1)).filter (· != x) := by rw [← hsplit]
    _ = _ := filter_ne_mid hn'

theorem length_removeAt {p : NSeq} (hn : p.Nodup) {i : Nat} (hi : i < p.length) :
    (removeAt p i).length = p.length - 1 := by
  rw [removeAt_eq, removeElement_eq, filter_ne_getD hn hi]
  simp only [List.length_map, List.length_append, List.length_take, List.length_drop]
  omega

/-- `insert(remove(p, i), i, p[i]) = p` for every position `i < n` of a permutation -/
theorem insertAt_removeAt {p : NSeq} (hn : p.Nodup) {i : Nat} (hi : i < p.length) :
    insertAt (removeAt p i) i (p.getD i 0) = p := by
  have hf := filter_ne_getD hn hi
  have hsplit := split_at hi
  rw [removeAt_eq, removeElement_eq, insertAt_eq, hf]
  generalize p.getD i 0 = x at hsplit ⊢
  have hn' : (p.take i ++ x :: p.drop (i + 1)).Nodup := by rw [← hsplit]; exact hn
  rw [List.nodup_append] at hn'
  obtain ⟨_, h2, h3⟩ := hn'
  rw [List.nodup_cons] at h2
  have hlen : (List.map (unbump x) (p.take i)).length = i := by
    simp only [List.length_map, List.length_take]; omega
  rw [List.map_append, List.take_append_of_le_length (by omega),
    List.drop_append_of_le_length (by omega), List.take_of_length_le (by omega),
    List.drop_of_length_le (by omega)]
  simp only [List.nil_append, List.map_map]
  have e1 : List.map (bump x ∘ unbump x) (List.take i p) = List.take i p := by
    conv_rhs => rw [← List.map_id (List.take i p)]
    apply List.map_congr_left
    intro a ha
    have : a ≠ x := h3 a ha x (by simp)
    exact bump_unbump this
  have e2 : List.map (bump x ∘ unbump x) (List.drop (i + 1) p) = List.drop (i + 1) p := by
    conv_rhs => rw [← List.map_id (List.drop (i + 1) p)]
    apply List.map_congr_left
    intro a ha
    have : a ≠ x := fun h => h2.1 (h ▸ ha)
    exact bump_unbump this
  rw [e1, e2]
  conv_rhs => rw [hsplit]
  simp

theorem removeElement_isPerm {p : NSeq} (hp : IsPerm p) {sel : Nat} (hs : sel < p.length) :
    IsPerm (removeElement p sel) ∧ (removeElement p sel).length = p.length - 1 := by
  obtain ⟨i, hi, rfl⟩ := hp.surj hs
  have hlen := length_removeAt hp.1 hi
  rw [removeAt_eq] at hlen
  refine ⟨⟨?_, ?_⟩, hlen⟩
  · rw [removeElement_eq]
    apply List.Nodup.map_on _ (hp.1.filter _)
    intro x hx y hy hxy
    have hx' : x ≠ p.getD i 0 := by simpa using (List.mem_filter.mp hx).2
    have hy' : y ≠ p.getD i 0 := by simpa using (List.mem_filter.mp hy).2
    rw [← bump_unbump hx', ← bump_unbump hy', hxy]
  · intro x hx
    rw [hlen]
    rw [removeElement_eq] at hx
    obtain ⟨w, hw, rfl⟩ := List.mem_map.mp hx
    have hw1 : w ≠ p.getD i 0 := by simpa using (List.mem_filter.mp hw).2
    have hw2 := hp.2 w (List.mem_filter.mp hw).1
    unfold unbump; split <;> omega

theorem removeAt_isPerm {p : NSeq} (hp : IsPerm p) {i : Nat} (hi : i < p.length) :
    IsPerm (removeAt p i) ∧ (removeAt p i).length = p.length - 1 :=
  removeElement_isPerm hp (hp.getD_lt hi)

end C10L
