import PermutaModel.Lemmas.C12RSKKnuth
import PermutaModel.Lemmas.C12RSKKnuthInv
import PermutaModel.Lemmas.C12RSKCols
import PermutaModel.Lemmas.C12RSKFamily
/-! C12 / RSK, Greene's theorem, assembly: the first `k` rows of the tableau of a duplicate-free word have as
    many cells as `k` increasing subsequences of the word can cover. -/
open Model Spec List

namespace C12

/-- the first `k` rows of the tableau are reached: `≥` -/
theorem hasCol_rows : ∀ (k : Nat) (w : List Nat), w.Nodup →
    HasCol k w (((tabIns [] w).map List.length).take k).sum
  | 0, w, _ => ⟨fun _ => 0, fun i hi => absurd hi (Nat.not_lt_zero _), by simp [colouredCount]⟩
  | k + 1, w, hnd => by
    by_cases hw : w = []
    · subst hw
      exact ⟨fun _ => 0, by intro i _; simp [colourClass], by simp [colouredCount, tabIns]⟩
    · rw [tabIns_rec w hw]
      simp only [List.map_cons, List.take_succ_cons, List.sum_cons]
      have ih := hasCol_rows k (bumpsOf w) (bumpsOf_nodup w hnd)
      have hdis : ∀ a ∈ bumpsOf w, a ∉ rowOf w := by
        intro a ha hr
        have hn := (rowOf_bumpsOf_perm w).nodup_iff.mpr hnd
        exact (List.nodup_append.mp hn).2.2 a hr a ha rfl
      have h1 := hasCol_machine (bumpsOf w) (rowOf w) (rowOf_sorted w hnd) hdis k _ ih
      exact (knuth_hasCol (machine_knuth w hnd) hnd (k + 1) _).mpr h1

/-- **Greene's theorem** for the model's insertion -/
theorem greene_tabIns (w : List Nat) (hnd : w.Nodup) (k : Nat) :
    IsGreeneInc k w (((tabIns [] w).map List.length).take k).sum := by
  refine ⟨hasCol_rows k w hnd, ?_⟩
  intro c hc
  have h0 : HasCol k w (colouredCount c k w) := ⟨c, hc, rfl⟩
  obtain ⟨c', hc', e⟩ := (knuth_hasCol (tab_knuth _ w (Nat.le_refl _) hnd) hnd k _).mp h0
  rw [← e]
  exact rw_colouring_le _ (tabOK_tabIns _ w (Nat.le_refl _) hnd).domChain k c' hc'

/-- the same with families of pairwise disjoint increasing subsequences -/
theorem greeneFam_tabIns (w : List Nat) (hnd : w.Nodup) (k : Nat) :
    IsGreeneFam k w (((tabIns [] w).map List.length).take k).sum :=
  (isGreeneInc_iff_fam w hnd k _).mp (greene_tabIns w hnd k)

/-! ### arithmetic of partial sums -/

theorem take_succ_sum (L : List Nat) (k : Nat) : (L.take (k + 1)).sum = (L.take k).sum + L.getD k 0 := by
  induction L generalizing k with
  | nil => simp
  | cons a t ih =>
    cases k with
    | zero => simp
    | succ k => simp [ih k]; omega

theorem take_two_sum (T : List (List Nat)) :
    ((T.map List.length).take 2).sum = (T.getD 0 []).length + (T.getD 1 []).length := by
  match T with
  | [] => rfl
  | [r0] => simp
  | r0 :: r1 :: t => simp

theorem take_one_sum (T : List (List Nat)) : ((T.map List.length).take 1).sum = (T.getD 0 []).length := by
  match T with
  | [] => rfl
  | r0 :: t => simp

theorem getD_map_length (T : List (List Nat)) (k : Nat) : (T.map List.length).getD k 0 = (T.getD k []).length := by
  induction T generalizing k with
  | nil => simp
  | cons r t ih =>
    cases k with
    | zero => simp
    | succ k => simpa using ih k

end C12
