import PermutaModel.Lemmas.C13Sym2
import PermutaModel.Lemmas.C02Class

/-! C13 helper lemmas, part 8: the Erdős–Szekeres theorem on lists.
    A duplicate-free list all of whose increasing sublists have length `≤ a` and all of whose
    decreasing sublists have length `≤ b` has length `≤ a * b`.  Proof: peel off the right-to-left
    maxima (a decreasing sublist, so at most `b` entries); every increasing sublist of the remainder
    can be extended by one entry, so the remainder has increasing sublists of length `≤ a - 1` only;
    induction on `a`.  Then the bridge to pattern containment: an increasing sublist of length `a`
    is an occurrence of the identity of length `a`. -/
open List

namespace C13

/-- the right-to-left maxima of a list -/
def rlMax : List Nat → List Nat
  | [] => []
  | x :: t => if ∀ y ∈ t, y < x then x :: rlMax t else rlMax t

/-- the entries that are not right-to-left maxima -/
def rlRest : List Nat → List Nat
  | [] => []
  | x :: t => if ∀ y ∈ t, y < x then rlRest t else x :: rlRest t

theorem rlMax_sublist : ∀ l : List Nat, rlMax l <+ l
  | [] => by simp [rlMax]
  | x :: t => by
    unfold rlMax
    split
    · exact (rlMax_sublist t).cons_cons x
    · exact (rlMax_sublist t).cons x

theorem rlRest_sublist : ∀ l : List Nat, rlRest l <+ l
  | [] => by simp [rlRest]
  | x :: t => by
    unfold rlRest
    split
    · exact (rlRest_sublist t).cons x
    · exact (rlRest_sublist t).cons_cons x

theorem rl_length : ∀ l : List Nat, (rlMax l).length + (rlRest l).length = l.length
  | [] => by simp [rlMax, rlRest]
  | x :: t => by
    have := rl_length t
    unfold rlMax rlRest
    split <;> simp only [List.length_cons] <;> omega

theorem rlMax_decreasing : ∀ l : List Nat, (rlMax l).Pairwise (· > ·)
  | [] => by simp [rlMax]
  | x :: t => by
    unfold rlMax
    split
    · rename_i h
      exact List.pairwise_cons.mpr ⟨fun y hy => h y ((rlMax_sublist t).subset hy), rlMax_decreasing t⟩
    · exact rlMax_decreasing t

/-- an increasing sublist of the non-maxima can be extended to the right inside the list -/
theorem rlRest_extend : ∀ (l : List Nat), l.Nodup → ∀ s : List Nat, s <+ rlRest l → s ≠ [] →
    ∃ y, s ++ [y] <+ l ∧ ∀ z, s.getLast? = some z → z < y
  | [], _, s, hs, hne => by
    simp [rlRest] at hs; exact absurd hs hne
  | x :: t, hnd, s, hs, hne => by
    have hndt := (List.nodup_cons.mp hnd).2
    unfold rlRest at hs
    split at hs
    · obtain ⟨y, hy, hz⟩ := rlRest_extend t hndt s hs hne
      exact ⟨y, hy.cons x, hz⟩
    · rename_i hx
      rcases List.sublist_cons_iff.mp hs with h | ⟨s', rfl, h⟩
      · obtain ⟨y, hy, hz⟩ := rlRest_extend t hndt s h hne
        exact ⟨y, hy.cons x, hz⟩
      · by_cases hs' : s' = []
        · subst hs'
          have : ∃ y ∈ t, ¬ y < x := by
            by_contra hcon
            exact hx fun y hy => by_contra fun hlt => hcon ⟨y, hy, hlt⟩
          obtain ⟨y, hy, hyx⟩ := this
          have hne' : x ≠ y := fun e => (List.nodup_cons.mp hnd).1 (e ▸ hy)
          refine ⟨y, ?_, ?_⟩
          · exact (List.singleton_sublist.mpr hy).cons_cons x
          · intro z hz
            simp at hz; omega
        · obtain ⟨y, hy, hz⟩ := rlRest_extend t hndt s' h hs'
          refine ⟨y, by simpa using hy.cons_cons x, ?_⟩
          intro z hzl
          apply hz
          rwa [List.getLast?_cons_of_ne_nil hs'] at hzl

theorem pairwise_snoc_of_last {s : List Nat} (hs : s.Pairwise (· < ·)) {y : Nat}
    (h : ∀ z, s.getLast? = some z → z < y) : (s ++ [y]).Pairwise (· < ·) := by
  rw [List.pairwise_append]
  refine ⟨hs, by simp, ?_⟩
  intro a ha b hb
  simp at hb; subst hb
  rcases List.eq_nil_or_concat s with rfl | ⟨s', z, rfl⟩
  · simp at ha
  · have hz := h z (by simp)
    rw [List.concat_eq_append] at hs ha
    rw [List.mem_append] at ha
    rcases ha with ha | ha
    · have := (List.pairwise_append.mp hs).2.2 a ha z (by simp)
      omega
    · simp at ha; omega

/-- **Erdős–Szekeres on lists** -/
theorem es_bound (b : Nat) : ∀ (a : Nat) (l : List Nat), l.Nodup →
    (∀ s, s <+ l → s.Pairwise (· < ·) → s.length ≤ a) →
    (∀ s, s <+ l → s.Pairwise (· > ·) → s.length ≤ b) → l.length ≤ a * b
  | 0, l, _, hi, _ => by
    cases l with
    | nil => simp
    | cons x t =>
      have := hi [x] (List.singleton_sublist.mpr (List.mem_cons_self ..)) (by simp)
      simp at this
  | a + 1, l, hnd, hi, hd => by
    have h1 : (rlMax l).length ≤ b := hd _ (rlMax_sublist l) (rlMax_decreasing l)
    have h2 : (rlRest l).length ≤ a * b := by
      apply es_bound b a (rlRest l) (hnd.sublist (rlRest_sublist l))
      · intro s hs hinc
        by_cases hne : s = []
        · subst hne; simp
        · obtain ⟨y, hy, hz⟩ := rlRest_extend l hnd s hs hne
          have := hi _ hy (pairwise_snoc_of_last hinc hz)
          simp at this; omega
      · intro s hs hdec
        exact hd s (hs.trans (rlRest_sublist l)) hdec
    have := rl_length l
    rw [Nat.add_mul, Nat.one_mul]
    omega

/-! ### increasing / decreasing sublists are occurrences of the monotone patterns -/

theorem getD_lt_iff_of_inc {s : List Nat} (hs : s.Pairwise (· < ·)) {i j : Nat} (hi : i < s.length)
    (hj : j < s.length) : s.getD i 0 < s.getD j 0 ↔ i < j := by
  constructor
  · intro h
    rcases Nat.lt_trichotomy i j with h' | h' | h'
    · exact h'
    · subst h'; omega
    · have := strictInc_getD (c := s) hs h' hi; omega
  · intro h; exact strictInc_getD (c := s) hs h hj

theorem getD_lt_iff_of_dec {s : List Nat} (hs : s.Pairwise (· > ·)) {i j : Nat} (hi : i < s.length)
    (hj : j < s.length) : s.getD i 0 < s.getD j 0 ↔ j < i := by
  have key : ∀ a b, a < b → b < s.length → s.getD b 0 < s.getD a 0 := by
    intro a b hab hb
    have ha : a < s.length := by omega
    rw [getD_of_lt s ha, getD_of_lt s hb]
    exact (List.pairwise_iff_getElem.mp hs) a b ha hb hab
  constructor
  · intro h
    rcases Nat.lt_trichotomy i j with h' | h' | h'
    · have := key i j h' hj; omega
    · subst h'; omega
    · exact h'
  · intro h; exact key j i h hi

theorem oiso_identity_of_inc {s : List Nat} (hs : s.Pairwise (· < ·)) :
    OIso (Model.identity s.length) s := by
  rw [C02L.OIso_iff_getD]
  unfold Model.identity
  refine ⟨by simp, fun i j hi hj => ?_⟩
  simp only [List.length_range] at hi hj
  rw [range_getD hi, range_getD hj, getD_lt_iff_of_inc hs hi hj]

theorem oiso_monoDec_of_dec {s : List Nat} (hs : s.Pairwise (· > ·)) :
    OIso (Model.monoDec s.length) s := by
  rw [C02L.OIso_iff_getD]
  unfold Model.monoDec
  refine ⟨by simp, fun i j hi hj => ?_⟩
  simp only [List.length_reverse, List.length_range] at hi hj
  rw [monoDec_getD hi, monoDec_getD hj, getD_lt_iff_of_dec hs hi hj]
  omega

/-- a list avoiding the increasing pattern of length `a` has only increasing sublists shorter than `a` -/
theorem inc_sublist_lt_of_avoids {σ : NSeq} {a : Nat} (h : ¬ Contains σ (Model.identity a))
    (s : List Nat) (hs : s <+ σ) (hinc : s.Pairwise (· < ·)) : s.length < a := by
  by_contra hge
  apply h
  rw [← C02L.SContains_iff_Contains]
  refine ⟨s.take a, (List.take_sublist a s).trans hs, ?_⟩
  have := oiso_identity_of_inc (hinc.sublist (List.take_sublist a s))
  rwa [List.length_take, Nat.min_eq_left (by omega)] at this

theorem dec_sublist_lt_of_avoids {σ : NSeq} {b : Nat} (h : ¬ Contains σ (Model.monoDec b))
    (s : List Nat) (hs : s <+ σ) (hdec : s.Pairwise (· > ·)) : s.length < b := by
  by_contra hge
  apply h
  rw [← C02L.SContains_iff_Contains]
  refine ⟨s.take b, (List.take_sublist b s).trans hs, ?_⟩
  have := oiso_monoDec_of_dec (hdec.sublist (List.take_sublist b s))
  rwa [List.length_take, Nat.min_eq_left (by omega)] at this

/-- **Erdős–Szekeres for patterns**: a duplicate-free sequence avoiding the increasing pattern of
    length `a` and the decreasing pattern of length `b` has length at most `(a-1)(b-1)` -/
theorem es_length_le {σ : NSeq} (hσ : σ.Nodup) {a b : Nat} (ha : ¬ Contains σ (Model.identity a))
    (hb : ¬ Contains σ (Model.monoDec b)) : σ.length ≤ (a - 1) * (b - 1) := by
  apply es_bound (b - 1) (a - 1) σ hσ
  · intro s hs hinc
    have := inc_sublist_lt_of_avoids ha s hs hinc; omega
  · intro s hs hdec
    have := dec_sublist_lt_of_avoids hb s hs hdec; omega

end C13
