import PermutaModel.Lemmas.C12RSKCols
/-! C12 / RSK, Greene's theorem: colourings and families of disjoint increasing subsequences are the same
    thing on a duplicate-free word (`isGreeneInc_iff_fam`); one colour = one increasing subsequence
    (`isGreeneInc_one_iff`). -/
open Model Spec List

namespace C12

/-- on a duplicate-free word a subsequence is recovered by filtering -/
theorem filter_mem_of_sublist {s w : List Nat} (h : s <+ w) (hnd : w.Nodup) :
    w.filter (fun a => decide (a ∈ s)) = s := by
  induction h with
  | slnil => rfl
  | cons a h ih =>
    rename_i s' w'
    rw [List.nodup_cons] at hnd
    have : a ∉ s' := fun hm => hnd.1 (h.subset hm)
    rw [List.filter_cons]
    simp only [this, decide_false]
    exact ih hnd.2
  | cons_cons a h ih =>
    rename_i s' w'
    rw [List.nodup_cons] at hnd
    rw [List.filter_cons]
    simp only [List.mem_cons, true_or, decide_true, if_true]
    have e : w'.filter (fun b => decide (b = a ∨ b ∈ s')) = w'.filter (fun b => decide (b ∈ s')) := by
      apply List.filter_congr
      intro b hb
      have : b ≠ a := fun e => hnd.1 (e ▸ hb)
      simp [this]
    rw [e, ih hnd.2]

/-- the number of coloured letters is the total size of the colour classes -/
theorem colouredCount_eq_sum (c : Nat → Nat) (w : List Nat) : ∀ k,
    colouredCount c k w = (((List.range k).map fun i => colourClass c i w).flatten).length
  | 0 => by simp [colouredCount]
  | k + 1 => by
    have ih := colouredCount_eq_sum c w k
    unfold colouredCount at ih ⊢
    rw [filter_lt_succ, ih, List.range_succ, List.map_append, List.flatten_append, List.length_append]
    simp [colourClass]

/-- colour classes form a family -/
theorem family_of_colouring (c : Nat → Nat) (k : Nat) (w : List Nat) (h : IsIncColouring c k w) :
    ((List.range k).map fun i => colourClass c i w).length = k ∧
    IsIncFamily w ((List.range k).map fun i => colourClass c i w) ∧
    (((List.range k).map fun i => colourClass c i w).flatten).length = colouredCount c k w := by
  refine ⟨by simp, ⟨?_, ?_⟩, (colouredCount_eq_sum c w k).symm⟩
  · intro s hs
    obtain ⟨i, hi, e⟩ := List.mem_map.mp hs
    subst e
    exact ⟨List.filter_sublist, h i (List.mem_range.mp hi)⟩
  · rw [List.pairwise_map]
    refine List.Pairwise.imp ?_ (List.nodup_range (n := k))
    intro i j hij a ha hb
    unfold colourClass at ha hb
    simp only [List.mem_filter, beq_iff_eq] at ha hb
    exact hij (ha.2.symm.trans hb.2)

/-- a family is a colouring: colour the letters of the `i`-th member with `i` -/
theorem colouring_of_family (w : List Nat) (hnd : w.Nodup) : ∀ (F : List (List Nat)), IsIncFamily w F →
    ∃ c, IsIncColouring c F.length w ∧ colouredCount c F.length w = F.flatten.length ∧
      ∀ a, c a < F.length → a ∈ F.flatten
  | [], _ => ⟨fun _ => 0, fun i hi => absurd hi (Nat.not_lt_zero _), by simp [colouredCount], by simp⟩
  | s :: F', hF => by
    obtain ⟨hmem, hdis⟩ := hF
    rw [List.pairwise_cons] at hdis
    obtain ⟨c', h1, h2, h3⟩ := colouring_of_family w hnd F'
      ⟨fun t ht => hmem t (List.mem_cons_of_mem _ ht), hdis.2⟩
    have hs := hmem s (by simp)
    have hfs := filter_mem_of_sublist hs.1 hnd
    refine ⟨fun a => if a ∈ s then 0 else c' a + 1, ?_, ?_, ?_⟩
    · intro i hi
      unfold colourClass
      cases i with
      | zero =>
        have : w.filter (fun a => (if a ∈ s then 0 else c' a + 1) == 0) = w.filter (fun a => decide (a ∈ s)) := by
          apply List.filter_congr
          intro a _
          by_cases ha : a ∈ s <;> simp [ha]
        rw [this, hfs]; exact hs.2
      | succ j =>
        have hsub : w.filter (fun a => (if a ∈ s then 0 else c' a + 1) == j + 1) <+
            w.filter (fun a => c' a == j) := by
          apply List.monotone_filter_right
          intro a
          by_cases ha : a ∈ s <;> simp [ha]
        exact List.Pairwise.sublist hsub (h1 j (by simpa using hi))
    · unfold colouredCount at h2 ⊢
      simp only [List.length_cons, List.flatten_cons, List.length_append]
      -- split the coloured letters into those of `s` and the others
      have key : ∀ (l : List Nat), (∀ a ∈ l, a ∈ s → ¬ c' a < F'.length) →
          (l.filter fun a => decide ((if a ∈ s then 0 else c' a + 1) < F'.length + 1)).length =
            (l.filter fun a => decide (a ∈ s)).length + (l.filter fun a => decide (c' a < F'.length)).length := by
        intro l
        induction l with
        | nil => intro _; rfl
        | cons b t ih =>
          intro hb
          have iht := ih (fun a ha => hb a (List.mem_cons_of_mem _ ha))
          rw [List.filter_cons, List.filter_cons, List.filter_cons]
          by_cases hbs : b ∈ s
          · have := hb b (by simp) hbs
            simp only [hbs, if_true, Nat.zero_lt_succ, decide_true, this, decide_false, List.length_cons]
            simp only [Bool.false_eq_true, if_false]
            omega
          · by_cases hbc : c' b < F'.length
            · simp [hbs, hbc]; omega
            · simp [hbs, hbc]; omega
      rw [key w, hfs, h2]
      intro a _ has hlt
      have := h3 a hlt
      obtain ⟨t, ht, hat⟩ := List.mem_flatten.mp this
      exact hdis.1 t ht a has hat
    · intro a ha
      by_cases has : a ∈ s
      · simp [has]
      · simp only [has, if_false, List.length_cons] at ha
        have := h3 a (by omega)
        simp [this]

/-- **colourings = families** on duplicate-free words -/
theorem isGreeneInc_iff_fam (w : List Nat) (hnd : w.Nodup) (k m : Nat) :
    IsGreeneInc k w m ↔ IsGreeneFam k w m := by
  constructor
  · rintro ⟨⟨c, hc, hm⟩, hmax⟩
    refine ⟨?_, ?_⟩
    · obtain ⟨h1, h2, h3⟩ := family_of_colouring c k w hc
      exact ⟨_, h1, h2, by rw [h3, hm]⟩
    · intro F hk hF
      obtain ⟨c, h1, h2, _⟩ := colouring_of_family w hnd F hF
      rw [hk] at h1 h2
      rw [← h2]; exact hmax c h1
  · rintro ⟨⟨F, hk, hF, hm⟩, hmax⟩
    refine ⟨?_, ?_⟩
    · obtain ⟨c, h1, h2, _⟩ := colouring_of_family w hnd F hF
      rw [hk] at h1 h2
      exact ⟨c, h1, by rw [h2, hm]⟩
    · intro c hc
      obtain ⟨h1, h2, h3⟩ := family_of_colouring c k w hc
      rw [← h3]; exact hmax _ h1 h2

/-- one colour is one increasing subsequence -/
theorem isGreeneInc_one_iff (w : List Nat) (hnd : w.Nodup) (m : Nat) : IsGreeneInc 1 w m ↔ IsLIS w m := by
  rw [isGreeneInc_iff_fam w hnd]
  constructor
  · rintro ⟨⟨F, hk, hF, hm⟩, hmax⟩
    match F, hk with
    | [s], _ =>
      refine ⟨⟨s, (hF.1 s (by simp)).1, (hF.1 s (by simp)).2, by simpa using hm⟩, ?_⟩
      intro t ht hp
      have := hmax [t] rfl ⟨by intro u hu; simp at hu; subst hu; exact ⟨ht, hp⟩, by simp⟩
      simpa using this
  · rintro ⟨⟨s, h1, h2, h3⟩, hmax⟩
    refine ⟨⟨[s], rfl, ⟨by intro u hu; simp at hu; subst hu; exact ⟨h1, h2⟩, by simp⟩, by simpa using h3⟩, ?_⟩
    intro F hk hF
    match F, hk with
    | [t], _ =>
      have := hmax t (hF.1 t (by simp)).1 (hF.1 t (by simp)).2
      simpa using this

end C12
