import PermutaModel.Lemmas.C01DequeMain
/-! C01 deque: `_pattern_details` built from the deque generator is `patternDetails`; the rotation
    bound of `rotWhile` is exact (periodicity). -/
open Model

theorem zipWith_range_map {α β : Type} (f : Nat → α → β) (π : List Nat) (g : Nat → α) :
    List.zipWith f π ((List.range π.length).map g) =
      (List.range π.length).map fun k => f (π.getD k 0) (g k) := by
  apply List.ext_getElem
  · simp
  · intro i h1 h2
    have hi : i < π.length := by simpa using h2
    simp [List.getD_eq_getElem?_getD, List.getElem?_eq_getElem hi]

theorem detailOf_outAt (π : NSeq) (k : Nat) :
    detailOf π (π.getD k 0) (outAt π k) =
      { lfi := leftFloor π k, lci := leftCeil π k,
        lbp := (match leftFloor π k with | none => π.getD k 0 | some j => π.getD k 0 - π.getD j 0),
        ubp := (match leftCeil π k with | none => π.length - π.getD k 0 | some j => π.getD j 0 - π.getD k 0) } := by
  unfold detailOf outAt
  have h : ∀ j : Nat, ¬ ((j : Int) = -1) := by intro j; omega
  cases leftFloor π k <;> cases leftCeil π k <;> simp [h]

theorem patternDetailsDeque_eq_of_nodup (π : NSeq) (h : π.Nodup) :
    patternDetailsDeque π = some (patternDetails π) := by
  have hout : lfcOut π = (List.range π.length).map (outAt π) := by
    unfold lfcOut
    apply List.map_congr_left
    intro k _
    unfold outAt
    cases leftFloor π k <;> cases leftCeil π k <;> rfl
  unfold patternDetailsDeque
  rw [lfcDeque_eq_lfcOut_of_nodup π h, Option.map_some, hout, zipWith_range_map]
  congr 1
  unfold patternDetails
  apply List.map_congr_left
  intro k _
  exact detailOf_outAt π k

theorem occurrencesInDeque_eq_of_nodup (π σ : NSeq) (h : π.Nodup) :
    occurrencesInDeque π σ = some (occurrencesIn π σ) := by
  unfold occurrencesInDeque occurrencesIn
  rw [patternDetailsDeque_eq_of_nodup π h]
  split
  · rfl
  · split <;> rfl

/-! ### the bound `len(deq)` on the number of rotations is exact: running out of it means that
    the Python loop spins forever -/

theorem rotWhile_some_iter {c : Dq → Bool} {r : Dq → Dq} :
    ∀ (fuel : Nat) (d d' : Dq), rotWhile c r fuel d = some d' →
      ∃ k ≤ fuel, d' = r^[k] d ∧ c d' = false := by
  intro fuel
  induction fuel with
  | zero =>
    intro d d' h
    by_cases hc : c d <;> simp [rotWhile, hc] at h
    subst h; exact ⟨0, Nat.le_refl _, rfl, by simpa using hc⟩
  | succ f ih =>
    intro d d' h
    by_cases hc : c d
    · simp only [rotWhile, hc, if_true] at h
      obtain ⟨k, hk, h1, h2⟩ := ih _ _ h
      exact ⟨k+1, by omega, by simpa [Function.iterate_succ] using h1, h2⟩
    · simp [rotWhile, hc] at h
      subst h; exact ⟨0, by omega, rfl, by simpa using hc⟩

theorem iterate_mod {r : Dq → Dq} {d : Dq} {n : Nat} (hper : r^[n] d = d) (k : Nat) :
    r^[k] d = r^[k % n] d := by
  conv => lhs; rw [← Nat.mod_add_div k n]
  rw [Function.iterate_add_apply, Function.iterate_mul, Function.iterate_fixed hper]

theorem rotWhile_eq_none_iff_of_periodic {c : Dq → Bool} {r : Dq → Dq} {d : Dq}
    (hper : r^[d.length] d = d) (hnil : r [] = []) :
    rotWhile c r d.length d = none ↔ ∀ k, c (r^[k] d) = true := by
  constructor
  · intro hnone k
    have hle : ∀ j ≤ d.length, c (r^[j] d) = true := by
      intro j hj
      by_contra hcj
      have := rotWhile_isSome (c := c) (r := r) d.length d ⟨j, hj, by simpa using hcj⟩
      rw [hnone] at this; simp at this
    by_cases hn : d.length = 0
    · have hd : d = [] := List.eq_nil_of_length_eq_zero hn
      subst hd
      have : r^[k] [] = ([] : Dq) := Function.iterate_fixed hnil k
      rw [this]; simpa using hle 0 (Nat.le_refl _)
    · rw [iterate_mod hper k]
      exact hle _ (Nat.le_of_lt (Nat.mod_lt _ (Nat.pos_of_ne_zero hn)))
  · intro hall
    cases h : rotWhile c r d.length d with
    | none => rfl
    | some d' =>
      obtain ⟨k, _, h1, h2⟩ := rotWhile_some_iter _ _ _ h
      rw [h1, hall k] at h2; simp at h2

/-- `rotWhile … rotL len(deq) deq = none` exactly when `while c(deq): deq.rotate(-1)` never exits -/
theorem rotWhileL_eq_none_iff (c : Dq → Bool) (d : Dq) :
    rotWhile c rotL d.length d = none ↔ ∀ k, c (rotL^[k] d) = true :=
  rotWhile_eq_none_iff_of_periodic (by simpa using rotL_iter_append d []) rfl

/-- `rotWhile … rotR len(deq) deq = none` exactly when `while c(deq): deq.rotate(1)` never exits -/
theorem rotWhileR_eq_none_iff (c : Dq → Bool) (d : Dq) :
    rotWhile c rotR d.length d = none ↔ ∀ k, c (rotR^[k] d) = true :=
  rotWhile_eq_none_iff_of_periodic (by simpa using rotR_iter_append [] d) rfl
