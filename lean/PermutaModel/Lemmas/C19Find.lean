import PermutaModel.Lemmas.C19Shape
import PermutaModel.Spec.C19
import PermutaModel.Props.C13

/-! C19 helper lemmas, part 4: bookkeeping for `Props/C19` (the regenerated table, congruence of the
    hypothesis under "same elements", the loop of `find_strategies`). -/
open Model.C13 Model.C19 Spec.C19
open Proto (Err)

namespace C19

theorem needed_isPerm (s : Strat) : ∀ p ∈ s.needed, IsPerm p := by cases s <;> decide
theorem needed_ne_nil (s : Strat) : s.needed ≠ [] := by cases s <;> decide

theorem holds_congr (s : Strat) {b b' : List NSeq} (h : ∀ p, p ∈ b ↔ p ∈ b') : Holds s b ↔ Holds s b' := by
  unfold Holds
  constructor
  · rintro ⟨h1, h2⟩
    exact ⟨fun p hp => let ⟨q, hq, hc⟩ := h1 p hp; ⟨q, (h q).mp hq, hc⟩, fun q hq => h2 q ((h q).mpr hq)⟩
  · rintro ⟨h1, h2⟩
    exact ⟨fun p hp => let ⟨q, hq, hc⟩ := h1 p hp; ⟨q, (h q).mpr hq, hc⟩, fun q hq => h2 q ((h q).mp hq)⟩

theorem exists_forall₂ {α : Type} {R : α → α → Prop} {P : α → Prop} {l l' : List α}
    (h : List.Forall₂ R l l') (hR : ∀ a b, R a b → (P a ↔ P b)) : (∃ a ∈ l, P a) ↔ ∃ b ∈ l', P b := by
  induction h with
  | nil => simp
  | cons hab _ ih => simp only [List.mem_cons, exists_eq_or_imp, hR _ _ hab, ih]

theorem good_eraseDups {B : List NSeq} (hB : ∀ q ∈ B, Good q) : ∀ q ∈ B.eraseDups, Good q :=
  fun q hq => hB q (List.mem_eraseDups.mp hq)

theorem symSets_ne_nil {B : List NSeq} (hne : B ≠ []) : ∀ b ∈ symSets B, b ≠ [] := by
  intro b hb
  simp only [symSets, List.mem_cons, List.not_mem_nil, or_false] at hb
  rcases hb with rfl | rfl | rfl | rfl | rfl | rfl | rfl | rfl <;> simpa using hne

theorem eraseDups_ne_nil {B : List NSeq} (hne : B ≠ []) : B.eraseDups ≠ [] := by
  obtain ⟨q, hq⟩ := List.exists_mem_of_ne_nil B hne
  intro h
  have := List.mem_eraseDups.mpr hq
  rw [h] at this; simp at this

theorem isInsEnc_list (D : List NSeq) : isInsEnc ⟨D, false⟩ = (isRightmost ⟨D, false⟩ || isMaximum ⟨D, false⟩) := by
  unfold isInsEnc isRightmost isMaximum
  by_cases h : (encGo 0 0 D).1 = true <;> simp [h]

theorem appliesByName_core (s : Strat) (B : List NSeq) (hfs : Bool) :
    appliesByName s.name B hfs = coreApplies s B := by
  cases s <;> (unfold appliesByName; rw [if_neg (by decide), if_neg (by decide)]; rfl)

theorem collect_congr (B B' : List NSeq) (hfs : Bool)
    (h : ∀ n, appliesByName n B hfs = appliesByName n B' hfs) : ∀ l, collect B hfs l = collect B' hfs l
  | [] => rfl
  | n :: rest => by rw [collect, collect, h n, collect_congr B B' hfs h rest]

theorem collect_append (B : List NSeq) (hfs : Bool) : ∀ l1 l2 : List String,
    collect B hfs (l1 ++ l2) =
      match collect B hfs l1 with
      | .error e => .error e
      | .ok a =>
        match collect B hfs l2 with
        | .error e => .error e
        | .ok b => .ok (a ++ b)
  | [], l2 => by
    simp only [List.nil_append, collect]
    cases collect B hfs l2 <;> simp
  | n :: rest, l2 => by
    rw [List.cons_append, collect, collect, collect_append B hfs rest l2]
    cases appliesByName n B hfs with
    | error e => rfl
    | ok a =>
      cases collect B hfs rest with
      | error e => rfl
      | ok r =>
        cases collect B hfs l2 with
        | error e => rfl
        | ok b => cases a <;> simp

theorem collect_subset (B : List NSeq) (hfs : Bool) : ∀ (l r : List String),
    collect B hfs l = .ok r → ∀ n ∈ r, n ∈ l
  | [], r, h => by simp [collect] at h; subst h; simp
  | m :: rest, r, h => by
    rw [collect] at h
    cases ha : appliesByName m B hfs with
    | error e => rw [ha] at h; cases h
    | ok a =>
      rw [ha] at h
      cases hc : collect B hfs rest with
      | error e => rw [hc] at h; cases h
      | ok r' =>
        rw [hc] at h
        simp only [Except.ok.injEq] at h
        subst h
        intro n hn
        have ih := collect_subset B hfs rest r' hc
        cases a
        · exact List.mem_cons_of_mem _ (ih n hn)
        · rcases List.mem_cons.mp hn with rfl | hn
          · exact List.mem_cons_self ..
          · exact List.mem_cons_of_mem _ (ih n hn)


theorem appliesToSym_ok (s : Strat) (b : List NSeq) (hne : b ≠ []) (hb : ∀ q ∈ b, Good q) :
    ∃ v, appliesToSym s b = .ok v := by
  have hb' : ∀ q ∈ b, IsPerm q ∧ q ≠ [] := fun q hq =>
    ⟨(hb q hq).1, fun e => by have := (hb q hq).2; rw [e] at this; simp at this⟩
  unfold appliesToSym
  rw [avBasis_ok b hne hb']
  obtain ⟨v, hv⟩ := allValid_ok s.valid (b.filter fun q => !s.needed.contains q)
    (fun q hq => valid_ok s (hb q (List.mem_filter.mp hq).1).2)
  simp only [hv]
  exact ⟨_, rfl⟩


end C19
